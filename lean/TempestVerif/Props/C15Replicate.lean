import TempestVerif.Model.GMM
import TempestVerif.Props.C15
import TempestVerif.Lemmas.CholList
import TempestVerif.Lemmas.ScReal
import Mathlib.Tactic
/-
  C15 — integer sample weights ≡ replicated points, for the WHOLE `GaussianMixture.fit`
  (`Model.GMM.fit`): k-means++ draws from the same `rand()` tape, every E-step, M-step, lower bound,
  convergence decision and restart.
-/
namespace Props.C15
open Model.EM Model.GMM Lemmas.CholList

-- helper lemmas are prefixed `rep_` (no clashes with the other `Props.C15` files, which one audit imports together)

/-! ### generic `replicateBy` lemmas -/

theorem rep_replicateBy_replicate {β : Type} (t : β) : ∀ (cnt : List ℕ) (n : ℕ), cnt.length ≤ n →
    replicateBy cnt (List.replicate n t) = List.replicate cnt.sum t := by
  intro cnt
  induction cnt with
  | nil => intro n _; simp [replicateBy_nil_left]
  | cons k cnt ih =>
    intro n hn
    cases n with
    | zero => simp at hn
    | succ n =>
      rw [List.replicate_succ, replicateBy_cons, ih n (by simpa using hn)]
      simp

theorem rep_zipWith_cast_replicate (t : ℝ) : ∀ (cnt : List ℕ) (n : ℕ), cnt.length ≤ n →
    List.zipWith (fun (k : ℕ) x => (k : ℝ) * x) cnt (List.replicate n t)
      = cnt.map fun (k : ℕ) => (k : ℝ) * t := by
  intro cnt
  induction cnt with
  | nil => intro n _; simp
  | cons k cnt ih =>
    intro n hn
    cases n with
    | zero => simp at hn
    | succ n => simp [List.replicate_succ, ih n (by simpa using hn)]

theorem rep_replicateBy_zipWith {β γ δ : Type} (f : β → γ → δ) : ∀ (cnt : List ℕ) (a : List β) (b : List γ),
    replicateBy cnt (List.zipWith f a b) = List.zipWith f (replicateBy cnt a) (replicateBy cnt b) := by
  intro cnt
  induction cnt with
  | nil => intro a b; simp [replicateBy_nil_left]
  | cons k cnt ih =>
    intro a b
    cases a with
    | nil => simp [replicateBy_nil_right]
    | cons x a =>
      cases b with
      | nil => simp [replicateBy_nil_right]
      | cons y b =>
        rw [List.zipWith_cons_cons, replicateBy_cons, replicateBy_cons, replicateBy_cons,
          List.zipWith_append (by simp), ih a b]
        simp

theorem rep_replicateBy_ne_nil {β : Type} (cnt : List ℕ) (l : List β) (h : 0 < cnt.headD 0) (hl : l ≠ []) :
    replicateBy cnt l ≠ [] := by
  cases cnt with
  | nil => simp at h
  | cons k cnt =>
    cases l with
    | nil => exact absurd rfl hl
    | cons x l =>
      rw [replicateBy_cons]
      simp only [List.headD_cons] at h
      intro hnil
      have := congrArg List.length hnil
      simp at this
      omega

/-! ### the weighted draw: `searchsorted` of a cumulative sum -/

theorem rep_npLt_real (a b : ℝ) : npLt a b = decide (a < b) := by
  rw [Bool.eq_iff_iff]; simp [npLt]

theorem rep_ss_cons (x : ℝ) (xs : List ℝ) (v : ℝ) :
    searchsorted (x :: xs) v = if x < v then searchsorted xs v + 1 else 0 := by
  simp [searchsorted, rep_npLt_real]

/-- the scan passes a whole block of `k` equal increments that ends below `r` -/
theorem rep_ss_pass (x r : ℝ) (hx : 0 ≤ x) (rest : List ℝ) : ∀ (k : ℕ) (acc : ℝ), acc + (k : ℝ) * x < r →
    searchsorted (cumsumFrom acc (List.replicate k x ++ rest)) r
      = k + searchsorted (cumsumFrom (acc + (k : ℝ) * x) rest) r := by
  intro k
  induction k with
  | zero => intro acc _; simp
  | succ k ih =>
    intro acc h
    have hk : 0 ≤ (k : ℝ) * x := by positivity
    push_cast at h
    have h1 : acc + x < r := by nlinarith
    have h2 : (acc + x) + (k : ℝ) * x < r := by linarith
    rw [List.replicate_succ, List.cons_append, cumsumFrom, ScReal.add_def, rep_ss_cons, if_pos h1, ih (acc + x) h2]
    have : acc + x + (k : ℝ) * x = acc + ((k + 1 : ℕ) : ℝ) * x := by push_cast; ring
    rw [this]; omega

/-- the scan stops inside a non-empty block of `k` equal increments that ends at or above `r` -/
theorem rep_ss_stop (x r : ℝ) (_hx : 0 ≤ x) (rest : List ℝ) : ∀ (k : ℕ) (acc : ℝ), 0 < k → r ≤ acc + (k : ℝ) * x →
    searchsorted (cumsumFrom acc (List.replicate k x ++ rest)) r < k := by
  intro k
  induction k with
  | zero => intro acc h _; omega
  | succ k ih =>
    intro acc _ h
    push_cast at h
    rw [List.replicate_succ, List.cons_append, cumsumFrom, ScReal.add_def, rep_ss_cons]
    by_cases h1 : acc + x < r
    · rw [if_pos h1]
      have hk : 0 < k := by
        by_contra h0
        have : k = 0 := by omega
        subst this
        simp at h
        linarith
      have := ih (acc + x) hk (by linarith)
      omega
    · rw [if_neg h1]; omega

/-- **block lemma**: if the scan over the weighted cumulative sum stops at point `i`, the scan over the
    replicated cumulative sum stops at a copy of point `i` -/
theorem rep_ss_block {β : Type} (r : ℝ) : ∀ (cnt : List ℕ) (q : List ℝ) (X : List β) (acc : ℝ) (i : ℕ) (c : β),
    (∀ x ∈ q, 0 ≤ x) → cnt.length = X.length → q.length = X.length →
    (acc < r ∨ 0 < cnt.headD 0) →
    searchsorted (cumsumFrom acc (List.zipWith (fun (k : ℕ) x => (k : ℝ) * x) cnt q)) r = i →
    X[i]? = some c →
    ∃ i', searchsorted (cumsumFrom acc (replicateBy cnt q)) r = i' ∧ (replicateBy cnt X)[i']? = some c := by
  intro cnt
  induction cnt with
  | nil =>
    intro q X acc i c _ hl _ _ _ hc
    have : X = [] := List.eq_nil_of_length_eq_zero hl.symm
    subst this
    simp at hc
  | cons k cnt ih =>
    intro q X acc i c hq hl1 hl2 hinv hss hc
    cases X with
    | nil => simp at hl1
    | cons p X =>
      cases q with
      | nil => simp at hl2
      | cons x q =>
        have hx : 0 ≤ x := hq x (by simp)
        rw [List.zipWith_cons_cons, cumsumFrom, ScReal.add_def, rep_ss_cons] at hss
        rw [replicateBy_cons, replicateBy_cons]
        by_cases hlt : acc + (k : ℝ) * x < r
        · rw [if_pos hlt] at hss
          subst hss
          simp only [List.getElem?_cons_succ] at hc
          obtain ⟨i', hi', hci'⟩ := ih q X (acc + (k : ℝ) * x) _ c
            (fun y hy => hq y (List.mem_cons_of_mem _ hy)) (by simpa using hl1) (by simpa using hl2)
            (Or.inl hlt) rfl hc
          refine ⟨k + i', ?_, ?_⟩
          · rw [rep_ss_pass x r hx _ k acc hlt, hi']
          · rw [List.getElem?_append_right (by simp)]
            simpa using hci'
        · rw [if_neg hlt] at hss
          subst hss
          simp only [List.getElem?_cons_zero, Option.some.injEq] at hc
          subst hc
          have hk : 0 < k := by
            rcases hinv with h | h
            · by_contra h0
              have : k = 0 := by omega
              subst this
              simp at hlt
              linarith
            · simpa using h
          have hs := rep_ss_stop x r hx (replicateBy cnt q) k acc hk (not_lt.mp hlt)
          refine ⟨_, rfl, ?_⟩
          rw [List.getElem?_append_left (by simpa using hs)]
          simp [hs]

theorem rep_cumsumFrom_getLast? : ∀ (l : List ℝ) (acc : ℝ), l ≠ [] →
    (cumsumFrom acc l).getLast? = some (acc + l.sum) := by
  intro l
  induction l with
  | nil => intro acc h; exact absurd rfl h
  | cons x l ih =>
    intro acc _
    cases l with
    | nil => simp [cumsumFrom]
    | cons y l =>
      have := ih (acc + x) (by simp)
      rw [cumsumFrom] at this
      rw [cumsumFrom, cumsumFrom, ScReal.add_def, List.getLast?_cons_cons, this]
      simp [add_assoc]

/-- **the weighted draw picks the same point**: probabilities `cnt_i · q_i` on the original data against
    probabilities `q_i` repeated `cnt_i` times on the replicated data, same `u` -/
theorem rep_pickIdx_rep {β : Type} (cnt : List ℕ) (q : List ℝ) (X : List β) (u : ℝ) (i : ℕ) (c : β)
    (hq : ∀ x ∈ q, 0 ≤ x) (hl1 : cnt.length = X.length) (hl2 : q.length = X.length)
    (hpos : 0 < cnt.headD 0)
    (h : pickIdx (List.zipWith (fun (k : ℕ) x => (k : ℝ) * x) cnt q) u = some i) (hc : X[i]? = some c) :
    ∃ i', pickIdx (replicateBy cnt q) u = some i' ∧ (replicateBy cnt X)[i']? = some c := by
  have hX : X ≠ [] := by rintro rfl; simp at hc
  have hq' : q ≠ [] := by
    intro hnil; rw [hnil] at hl2; exact hX (List.eq_nil_of_length_eq_zero hl2.symm)
  have hcnt' : cnt ≠ [] := by
    intro hnil; rw [hnil] at hl1; exact hX (List.eq_nil_of_length_eq_zero hl1.symm)
  have hz : List.zipWith (fun (k : ℕ) x => (k : ℝ) * x) cnt q ≠ [] := by
    cases cnt with
    | nil => exact absurd rfl hcnt'
    | cons k cnt =>
      cases q with
      | nil => exact absurd rfl hq'
      | cons x q => simp
  have hr : replicateBy cnt q ≠ [] := rep_replicateBy_ne_nil cnt q hpos hq'
  have hsum : (replicateBy cnt q).sum = (List.zipWith (fun (k : ℕ) x => (k : ℝ) * x) cnt q).sum := by
    simpa using C15_replicate_equiv (fun x : ℝ => x) cnt q
  simp only [pickIdx, ScReal.zero_def, ScReal.mul_def] at h ⊢
  rw [rep_cumsumFrom_getLast? _ _ hz] at h
  rw [rep_cumsumFrom_getLast? _ _ hr, hsum]
  simp only [Option.map_some, Option.some.injEq] at h ⊢
  obtain ⟨i', h1, h2⟩ := rep_ss_block _ cnt q X 0 i c hq hl1 hl2 (Or.inr hpos) h hc
  exact ⟨i', h1, h2⟩

/-! ### k-means++ centres -/

theorem rep_sqdist_nonneg (x m : List ℝ) : 0 ≤ sqdist x m := by
  simp only [sqdist, sum_eq]
  apply List.sum_nonneg
  intro y hy
  simp only [List.mem_map] at hy
  obtain ⟨t, _, rfl⟩ := hy
  exact mul_self_nonneg _

theorem rep_nearestDist_nonneg (c0 : List ℝ) (cs : Mat ℝ) (x : List ℝ) : 0 ≤ nearestDist c0 cs x := by
  have : ∀ (cs : Mat ℝ) (a : ℝ), 0 ≤ a → 0 ≤ cs.foldl (fun acc c => Sc.min acc (sqdist x c)) a := by
    intro cs
    induction cs with
    | nil => intro a ha; simpa using ha
    | cons c cs ih =>
      intro a ha
      rw [List.foldl_cons]
      apply ih
      rw [ScReal.min_def]
      exact le_min ha (rep_sqdist_nonneg x c)
  exact this cs _ (rep_sqdist_nonneg x c0)

theorem rep_zipWith_mul_cast {β : Type} (f : β → ℝ) (t : ℝ) : ∀ (X : List β) (cnt : List ℕ),
    List.zipWith Sc.mul (X.map f) (cnt.map fun (k : ℕ) => (k : ℝ) * t)
      = List.zipWith (fun (k : ℕ) x => (k : ℝ) * x) cnt (X.map fun x => f x * t) := by
  intro X
  induction X with
  | nil => intro cnt; simp
  | cons x X ih =>
    intro cnt
    cases cnt with
    | nil => simp
    | cons k cnt =>
      simp only [List.map_cons, List.zipWith_cons_cons, ih cnt, ScReal.mul_def]
      congr 1; ring

theorem rep_map_div_zipWith_cast (tot : ℝ) : ∀ (cnt : List ℕ) (u : List ℝ),
    (List.zipWith (fun (k : ℕ) x => (k : ℝ) * x) cnt u).map (fun p => Sc.div p tot)
      = List.zipWith (fun (k : ℕ) x => (k : ℝ) * x) cnt (u.map fun p => p / tot) := by
  intro cnt
  induction cnt with
  | nil => intro u; simp
  | cons k cnt ih =>
    intro u
    cases u with
    | nil => simp
    | cons x u =>
      have ih' := ih u
      simp only [ScReal.div_def] at ih' ⊢
      simp only [List.map_cons, List.zipWith_cons_cons, ih']
      congr 1; ring

/-- the probabilities `D(x)·s` of the replicated unit-weight data are the replicated list of `D(x_i)·t` -/
theorem rep_prob_rep {β : Type} (D : β → ℝ) (cnt : List ℕ) (X : List β) (t : ℝ) (hl : cnt.length = X.length) :
    List.zipWith Sc.mul ((replicateBy cnt X).map D) (List.replicate cnt.sum t)
      = replicateBy cnt (X.map fun x => D x * t) := by
  rw [mul_fun, zipWith_replicate_right _ t _ _ (by simp [length_replicateBy cnt X hl]), map_replicateBy,
    map_replicateBy, List.map_map]
  rfl

/-- one weighted draw with probabilities `D(x_i)·s_i / Σ` -/
theorem rep_draw_rep (D : List ℝ → ℝ) (hD : ∀ x, 0 ≤ D x) (cnt : List ℕ) (X : Mat ℝ) (t u : ℝ) (ht : 0 ≤ t)
    (hl : cnt.length = X.length) (hpos : 0 < cnt.headD 0) (i : ℕ) (c : List ℝ)
    (h : pickIdx ((List.zipWith Sc.mul (X.map D) (cnt.map fun (k : ℕ) => (k : ℝ) * t)).map fun p =>
        Sc.div p (Sc.sum (List.zipWith Sc.mul (X.map D) (cnt.map fun (k : ℕ) => (k : ℝ) * t)))) u = some i)
    (hc : X[i]? = some c) :
    ∃ i', pickIdx ((List.zipWith Sc.mul ((replicateBy cnt X).map D) (List.replicate cnt.sum t)).map fun p =>
        Sc.div p (Sc.sum (List.zipWith Sc.mul ((replicateBy cnt X).map D) (List.replicate cnt.sum t)))) u
          = some i' ∧ (replicateBy cnt X)[i']? = some c := by
  rw [rep_zipWith_mul_cast, rep_map_div_zipWith_cast] at h
  rw [rep_prob_rep D cnt X t hl, sum_rep, map_replicateBy]
  have hu : ∀ y ∈ X.map (fun x => D x * t), 0 ≤ y := by
    intro y hy
    simp only [List.mem_map] at hy
    obtain ⟨x, _, rfl⟩ := hy
    exact mul_nonneg (hD x) ht
  have htot : 0 ≤ Sc.sum (List.zipWith (fun (k : ℕ) x => (k : ℝ) * x) cnt (X.map fun x => D x * t)) := by
    rw [← sum_rep, sum_eq]
    apply List.sum_nonneg
    intro y hy
    exact hu y (mem_replicateBy y cnt _ hy)
  refine rep_pickIdx_rep cnt _ X u i c ?_ hl (by simp) hpos h hc
  intro y hy
  simp only [List.mem_map] at hy
  obtain ⟨z, hz, rfl⟩ := hy
  simp only [ScReal.div_def]
  exact div_nonneg (hu z (by simpa using hz)) htot

theorem rep_moreCentres_succ (X : Mat ℝ) (s c0 : List ℝ) (k : ℕ) (u : ℝ) (tape : List ℝ) (cs : Mat ℝ)
    (picks : List ℕ) :
    moreCentres X s c0 (k + 1) (u :: tape) cs picks =
      (pickIdx ((List.zipWith Sc.mul (X.map (nearestDist c0 cs)) s).map fun p =>
          Sc.div p (Sc.sum (List.zipWith Sc.mul (X.map (nearestDist c0 cs)) s))) u).bind fun i =>
        (X[i]?).bind fun c => moreCentres X s c0 k tape (cs ++ [c]) (picks ++ [i]) := by
  rw [moreCentres]
  cases pickIdx ((List.zipWith Sc.mul (X.map (nearestDist c0 cs)) s).map fun p =>
          Sc.div p (Sc.sum (List.zipWith Sc.mul (X.map (nearestDist c0 cs)) s))) u with
  | none => rfl
  | some i =>
    simp only [Option.bind_some]
    cases X[i]? <;> rfl

/-- the later centres: the same points are drawn, the same tape is left -/
theorem rep_moreCentres_rep (cnt : List ℕ) (X : Mat ℝ) (t : ℝ) (ht : 0 ≤ t) (hl : cnt.length = X.length)
    (hpos : 0 < cnt.headD 0) (c0 : List ℝ) :
    ∀ (k : ℕ) (tape : List ℝ) (cs : Mat ℝ) (picks picks' : List ℕ) (r : Mat ℝ × List ℕ × List ℝ),
      moreCentres X (cnt.map fun (k : ℕ) => (k : ℝ) * t) c0 k tape cs picks = some r →
      ∃ r', moreCentres (replicateBy cnt X) (List.replicate cnt.sum t) c0 k tape cs picks' = some r' ∧
        r'.1 = r.1 ∧ r'.2.2 = r.2.2 ∧ r.1.length = cs.length + k := by
  intro k
  induction k with
  | zero =>
    intro tape cs picks picks' r h
    simp only [moreCentres, Option.some.injEq] at h
    subst h
    exact ⟨(cs, picks', tape), by simp only [moreCentres], rfl, rfl, rfl⟩
  | succ k ih =>
    intro tape cs picks picks' r h
    cases tape with
    | nil => simp [moreCentres] at h
    | cons u tape =>
      rw [rep_moreCentres_succ] at h ⊢
      obtain ⟨i, hi, h⟩ := Option.bind_eq_some_iff.mp h
      obtain ⟨c, hc, h⟩ := Option.bind_eq_some_iff.mp h
      obtain ⟨i', hi', hc'⟩ := rep_draw_rep (nearestDist c0 cs) (rep_nearestDist_nonneg c0 cs) cnt X t u ht hl hpos i c hi hc
      obtain ⟨r', hr', h1, h2, h3⟩ := ih tape (cs ++ [c]) (picks ++ [i]) (picks' ++ [i']) r h
      refine ⟨r', ?_, h1, h2, ?_⟩
      · rw [hi']; simp only [Option.bind_some]; rw [hc']; simpa using hr'
      · rw [h3]; simp; omega

theorem rep_centres_succ (X : Mat ℝ) (s : List ℝ) (K : ℕ) (u : ℝ) (tape : List ℝ) :
    centres X s (K + 1) (u :: tape) =
      (pickIdx s u).bind fun i => (X[i]?).bind fun c0 =>
        (moreCentres X s c0 K tape [] [i]).map fun r => (c0 :: r.1, r.2.1, r.2.2) := by
  rw [centres]
  cases pickIdx s u with
  | none => rfl
  | some i =>
    simp only [Option.bind_some]
    cases X[i]? <;> rfl

/-- **all `K` centres**: the same points, the same unused tape (the indices differ) -/
theorem rep_centres_rep (cnt : List ℕ) (X : Mat ℝ) (t : ℝ) (ht : 0 ≤ t) (hl : cnt.length = X.length)
    (hpos : 0 < cnt.headD 0) (K : ℕ) (tape : List ℝ) (r : Mat ℝ × List ℕ × List ℝ)
    (h : centres X (cnt.map fun (k : ℕ) => (k : ℝ) * t) K tape = some r) :
    ∃ r', centres (replicateBy cnt X) (List.replicate cnt.sum t) K tape = some r' ∧
      r'.1 = r.1 ∧ r'.2.2 = r.2.2 ∧ r.1.length = K := by
  cases K with
  | zero => simp [centres] at h
  | succ K =>
    cases tape with
    | nil => simp [centres] at h
    | cons u tape =>
      rw [rep_centres_succ] at h ⊢
      obtain ⟨i, hi, h⟩ := Option.bind_eq_some_iff.mp h
      obtain ⟨c0, hc, h⟩ := Option.bind_eq_some_iff.mp h
      obtain ⟨r0, hr0, h⟩ := Option.map_eq_some_iff.mp h
      rw [← rep_zipWith_cast_replicate t cnt X.length (by omega)] at hi
      obtain ⟨i', hi', hc'⟩ := rep_pickIdx_rep cnt (List.replicate X.length t) X u i c0
        (by intro y hy; rw [List.mem_replicate] at hy; rw [hy.2]; exact ht) hl (by simp) hpos hi hc
      rw [rep_replicateBy_replicate t cnt X.length (by omega)] at hi'
      obtain ⟨r', hr', h1, h2, h3⟩ := rep_moreCentres_rep cnt X t ht hl hpos c0 K tape [] [i] [i'] r0 hr0
      refine ⟨(c0 :: r'.1, r'.2.1, r'.2.2), ?_, ?_, ?_, ?_⟩
      · rw [hi']; simp only [Option.bind_some]; rw [hc']; simp [hr']
      · rw [← h]; simp [h1]
      · rw [← h]; simp [h2]
      · rw [← h]; simp [h3]

/-! ### `_initialize_parameters` -/

/-- the parameter lists all have `K` entries -/
def rep_Shape (K : ℕ) (p : MStep ℝ) : Prop :=
  p.weights.length = K ∧ p.means.length = K ∧ p.covFull.length = K ∧ p.covDiag.length = K

theorem rep_mstep_shape (tiny eps : ℝ) (d K : ℕ) (X R : Mat ℝ) (s : List ℝ) :
    rep_Shape K (mstep tiny eps d K X R s) := by
  simp [rep_Shape, mstep, normalise, colSums]

theorem rep_shiftExp_length (row : List ℝ) : (shiftExp row).length = row.length := by
  cases row <;> simp [shiftExp]

theorem rep_initNormalise_rows (L : Mat ℝ) (K : ℕ) (hL : ∀ row ∈ L, row.length = K) :
    ∀ row ∈ initNormalise L, row.length = K := by
  intro row hrow
  simp only [initNormalise, List.mem_map] at hrow
  obtain ⟨l, hl, rfl⟩ := hrow
  simp [rep_shiftExp_length, hL l hl]

/-- **initial parameters**: the same parameters and the same unused tape -/
theorem rep_initFit_rep (c : Cfg ℝ) (cnt : List ℕ) (X : Mat ℝ) (t : ℝ) (ht : 0 ≤ t)
    (hX : ∀ x ∈ X, x.length = c.d) (hl : cnt.length = X.length) (hpos : 0 < cnt.headD 0)
    (tape : List ℝ) (r : MStep ℝ × List ℕ × List ℝ)
    (h : initFit c X (cnt.map fun (k : ℕ) => (k : ℝ) * t) tape = some r) :
    ∃ r', initFit c (replicateBy cnt X) (List.replicate cnt.sum t) tape = some r' ∧
      r'.1 = r.1 ∧ r'.2.2 = r.2.2 ∧ rep_Shape c.K r.1 := by
  simp only [initFit] at h ⊢
  obtain ⟨r0, hr0, h⟩ := Option.map_eq_some_iff.mp h
  obtain ⟨r0', hr0', h1, h2, h3⟩ := rep_centres_rep cnt X t ht hl hpos c.K tape r0 hr0
  rw [hr0']
  refine ⟨_, rfl, ?_, ?_, ?_⟩
  · subst h
    dsimp only
    rw [h1]
    simp only [initParams, logResp, initNormalise, map_replicateBy]
    apply C15_em_factors_through_wsum c.tiny c.eps t c.d c.K X _ cnt hX
    · intro row hrow
      simp only [List.mem_map] at hrow
      obtain ⟨l, ⟨x, _, rfl⟩, rfl⟩ := hrow
      simp [rep_shiftExp_length, h3]
    · simp [hl]
  · subst h; exact h2
  · subst h; exact rep_mstep_shape _ _ _ _ _ _ _

/-! ### `mapOpt` over replicated lists -/

theorem rep_mapOpt_replicate_append {β γ : Type} (f : β → Option γ) (x : β) (y : γ) (hx : f x = some y)
    (rest : List β) (ys : List γ) (hr : mapOpt f rest = some ys) : ∀ k : ℕ,
    mapOpt f (List.replicate k x ++ rest) = some (List.replicate k y ++ ys) := by
  intro k
  induction k with
  | zero => simpa using hr
  | succ k ih => simp [List.replicate_succ, mapOpt, hx, ih]

theorem rep_mapOpt_rep {β γ : Type} (f : β → Option γ) : ∀ (cnt : List ℕ) (X : List β) (ys : List γ),
    mapOpt f X = some ys → mapOpt f (replicateBy cnt X) = some (replicateBy cnt ys) := by
  intro cnt
  induction cnt with
  | nil => intro X ys _; simp [replicateBy_nil_left, mapOpt]
  | cons k cnt ih =>
    intro X ys h
    cases X with
    | nil =>
      simp only [mapOpt, Option.some.injEq] at h
      subst h
      simp [replicateBy_nil_right, mapOpt]
    | cons x X =>
      simp only [mapOpt] at h
      split at h
      · rename_i y ys' h1 h2
        simp only [Option.some.injEq] at h
        subst h
        rw [replicateBy_cons, replicateBy_cons]
        exact rep_mapOpt_replicate_append f x y h1 _ _ (ih X ys' h2) k
      · simp at h

theorem rep_mapOpt_eq_none {β γ : Type} (f : β → Option γ) : ∀ l : List β, mapOpt f l = none →
    ∃ x ∈ l, f x = none := by
  intro l
  induction l with
  | nil => intro h; simp [mapOpt] at h
  | cons x l ih =>
    intro h
    cases hx : f x with
    | none => exact ⟨x, by simp, hx⟩
    | some y =>
      cases hl : mapOpt f l with
      | none =>
        obtain ⟨z, hz, hfz⟩ := ih hl
        exact ⟨z, List.mem_cons_of_mem _ hz, hfz⟩
      | some ys => simp [mapOpt, hx, hl] at h

theorem rep_mapOpt_none_of_mem {β γ : Type} (f : β → Option γ) : ∀ (l : List β) (x : β), x ∈ l → f x = none →
    mapOpt f l = none := by
  intro l
  induction l with
  | nil => intro x hx; simp at hx
  | cons a l ih =>
    intro x hx hfx
    rcases List.mem_cons.mp hx with rfl | hx
    · simp [mapOpt, hfx]
    · have := ih x hx hfx
      simp [mapOpt, this]

/-- `mapOpt` of a function whose failure does not depend on the point commutes with replication
    (the replicated list is not empty: the first count is positive) -/
theorem rep_mapOpt_rep_map {β γ : Type} (f : β → Option γ) (cnt : List ℕ) (X : List β)
    (hpos : 0 < cnt.headD 0) (hunif : ∀ x ∈ X, ∀ y ∈ X, f x = none → f y = none) :
    mapOpt f (replicateBy cnt X) = (mapOpt f X).map (replicateBy cnt) := by
  cases h : mapOpt f X with
  | some ys => simpa using rep_mapOpt_rep f cnt X ys h
  | none =>
    simp only [Option.map_none]
    obtain ⟨x, hx, hfx⟩ := rep_mapOpt_eq_none f X h
    have hX : X ≠ [] := by rintro rfl; simp at hx
    obtain ⟨y, hy⟩ := List.exists_mem_of_ne_nil _ (rep_replicateBy_ne_nil cnt X hpos hX)
    exact rep_mapOpt_none_of_mem f _ y hy (hunif x hx y (mem_replicateBy y cnt X hy) hfx)

theorem rep_mapOpt_comp_map {β γ δ : Type} (f : β → Option γ) (f' : β → Option δ) (g : γ → δ)
    (hf : ∀ x, f' x = (f x).map g) : ∀ l : List β, mapOpt f' l = (mapOpt f l).map (List.map g) := by
  intro l
  induction l with
  | nil => simp [mapOpt]
  | cons x l ih =>
    simp only [mapOpt, hf x, ih]
    cases f x <;> cases mapOpt f l <;> simp

theorem rep_mapOpt_mem {β γ : Type} (f : β → Option γ) (l : List β) (ys : List γ) (h : mapOpt f l = some ys) :
    ∀ y ∈ ys, ∃ x ∈ l, f x = some y := by
  intro y hy
  obtain ⟨i, hi, rfl⟩ := List.mem_iff_getElem.mp hy
  have hlen := mapOpt_length f l ys h
  have hi' : i < l.length := by omega
  refine ⟨l[i], List.getElem_mem hi', ?_⟩
  rw [mapOpt_get f l ys h i l[i] (List.getElem?_eq_getElem hi'), List.getElem?_eq_getElem hi]

/-! ### the Gaussian log-density column -/

theorem rep_fwdAux_isSome : ∀ (L : List (LRow ℝ)) (b ys : List ℝ),
    (fwdAux L b ys).isSome = decide (L.length = b.length) := by
  intro L
  induction L with
  | nil => intro b ys; cases b <;> simp [fwdAux]
  | cons r rs ih =>
    intro b ys
    cases b with
    | nil => simp [fwdAux]
    | cons b0 bs => simp [fwdAux, ih]

/-- whether the density of a point is defined depends only on the point's length -/
theorem rep_logpdf?_eq_none (d : ℕ) (F : Factor ℝ) (m x : List ℝ) :
    logpdf? d F m x = none ↔ F.rows.length ≠ min x.length m.length := by
  simp only [logpdf?, maha?, Option.map_eq_none_iff]
  rw [← Option.not_isSome_iff_eq_none, rep_fwdAux_isSome]
  simp

theorem rep_logpdfCol_rep (sing : Mat ℝ → Bool) (d : ℕ) (M : Mat ℝ) (m : List ℝ) (cnt : List ℕ) (X : Mat ℝ)
    (hX : ∀ x ∈ X, x.length = d) (hpos : 0 < cnt.headD 0) :
    logpdfCol sing d M m (replicateBy cnt X) = (logpdfCol sing d M m X).map (replicateBy cnt) := by
  unfold logpdfCol
  cases sing M with
  | true => simp
  | false =>
    cases factor? M with
    | none => simp
    | some F =>
      simp only [Bool.false_eq_true, if_false]
      apply rep_mapOpt_rep_map _ cnt X hpos
      intro x hx y hy hfx
      rw [rep_logpdf?_eq_none] at hfx ⊢
      rw [hX y hy, ← hX x hx]; exact hfx

theorem rep_logpdfCol_length (sing : Mat ℝ → Bool) (d : ℕ) (M : Mat ℝ) (m : List ℝ) (X : Mat ℝ) (l : List ℝ)
    (h : logpdfCol sing d M m X = some l) : l.length = X.length := by
  unfold logpdfCol at h
  cases hs : sing M with
  | true => simp [hs] at h
  | false =>
    cases hF : factor? M with
    | none => simp [hs, hF] at h
    | some F =>
      simp only [hs, hF, Bool.false_eq_true, if_false] at h
      exact mapOpt_length _ X l h

/-! ### E-step -/

theorem rep_estepCol_rep (sing : Mat ℝ → Bool) (reg : ℝ) (d : ℕ) (w : ℝ) (m : List ℝ) (C : Mat ℝ) (cnt : List ℕ)
    (X : Mat ℝ) (hX : ∀ x ∈ X, x.length = d) (hpos : 0 < cnt.headD 0) :
    estepCol sing reg d w m C (replicateBy cnt X) = (estepCol sing reg d w m C X).map (replicateBy cnt) := by
  simp only [estepCol, rep_logpdfCol_rep sing d _ m cnt X hX hpos]
  cases logpdfCol sing d (addDiag reg C) m X with
  | some l => simp [map_replicateBy]
  | none =>
    cases logpdfCol sing d (scaledEye d reg) m X with
    | some l => simp [map_replicateBy]
    | none => simp

theorem rep_estepCol_length (sing : Mat ℝ → Bool) (reg : ℝ) (d : ℕ) (w : ℝ) (m : List ℝ) (C : Mat ℝ)
    (X : Mat ℝ) (col : List (Option ℝ)) (h : estepCol sing reg d w m C X = some col) :
    col.length = X.length := by
  simp only [estepCol] at h
  obtain ⟨l, hl, rfl⟩ := Option.map_eq_some_iff.mp h
  rw [List.length_map]
  cases h1 : logpdfCol sing d (addDiag reg C) m X with
  | some l1 =>
    rw [h1] at hl
    simp only [Option.some.injEq] at hl
    subst hl
    exact rep_logpdfCol_length sing d _ m X _ h1
  | none =>
    rw [h1] at hl
    exact rep_logpdfCol_length sing d _ m X _ hl

theorem rep_estepCols_rep (sing : Mat ℝ → Bool) (reg : ℝ) (d : ℕ) (ws : List ℝ) (ms : Mat ℝ) (Cs : List (Mat ℝ))
    (cnt : List ℕ) (X : Mat ℝ) (hX : ∀ x ∈ X, x.length = d) (hpos : 0 < cnt.headD 0) :
    estepCols sing reg d ws ms Cs (replicateBy cnt X)
      = (estepCols sing reg d ws ms Cs X).map (List.map (replicateBy cnt)) := by
  unfold estepCols
  exact rep_mapOpt_comp_map _ _ _ (fun t : ℝ × List ℝ × Mat ℝ => rep_estepCol_rep sing reg d t.1 t.2.1 t.2.2 cnt X hX hpos) _

theorem rep_estepCols_length (sing : Mat ℝ → Bool) (reg : ℝ) (d : ℕ) (ws : List ℝ) (ms : Mat ℝ)
    (Cs : List (Mat ℝ)) (X : Mat ℝ) (cols : List (List (Option ℝ)))
    (h : estepCols sing reg d ws ms Cs X = some cols) :
    (∀ col ∈ cols, col.length = X.length) ∧ cols.length = (List.zip ws (List.zip ms Cs)).length := by
  unfold estepCols at h
  refine ⟨?_, mapOpt_length _ _ _ h⟩
  intro col hcol
  obtain ⟨t, _, ht⟩ := rep_mapOpt_mem _ _ _ h col hcol
  exact rep_estepCol_length sing reg d _ _ _ X col ht

/-! ### rows from columns -/

theorem rep_rowsOfCols_nil {β : Type} (n : ℕ) : rowsOfCols n ([] : List (List β)) = List.replicate n [] := by
  simp [rowsOfCols, col]

theorem rep_rowsOfCols_length {β : Type} (n : ℕ) (cols : List (List β)) : (rowsOfCols n cols).length = n := by
  simp [rowsOfCols]

theorem rep_rowsOfCols_cons {β : Type} (n : ℕ) (c : List β) (cols : List (List β)) (hc : c.length = n) :
    rowsOfCols n (c :: cols) = List.zipWith List.cons c (rowsOfCols n cols) := by
  apply List.ext_getElem
  · simp [rowsOfCols, hc]
  · intro i h1 h2
    have hi : i < n := by simpa [rowsOfCols] using h1
    simp [rowsOfCols, col_cons_lt c cols i (by omega)]

theorem rep_rowsOfCols_row_length {β : Type} (n : ℕ) (cols : List (List β)) (hc : ∀ c ∈ cols, c.length = n) :
    ∀ row ∈ rowsOfCols n cols, row.length = cols.length := by
  intro row hrow
  simp only [rowsOfCols, List.mem_map, List.mem_range] at hrow
  obtain ⟨i, hi, rfl⟩ := hrow
  exact col_length cols i (fun c h => by rw [hc c h]; exact hi)

/-- the transpose of replicated columns is the replicated transpose -/
theorem rep_rowsOfCols_rep {β : Type} (cnt : List ℕ) (n : ℕ) (hn : cnt.length = n) : ∀ (cols : List (List β)),
    (∀ c ∈ cols, c.length = n) →
    rowsOfCols cnt.sum (cols.map (replicateBy cnt)) = replicateBy cnt (rowsOfCols n cols) := by
  intro cols
  induction cols with
  | nil =>
    intro _
    rw [List.map_nil, rep_rowsOfCols_nil, rep_rowsOfCols_nil, rep_replicateBy_replicate _ cnt n (by omega)]
  | cons c cols ih =>
    intro hc
    have hcl : c.length = n := hc c (by simp)
    rw [List.map_cons, rep_rowsOfCols_cons _ _ _ (by rw [length_replicateBy cnt c (by omega)]),
      ih (fun c' h => hc c' (List.mem_cons_of_mem _ h)), rep_rowsOfCols_cons n c cols hcl, rep_replicateBy_zipWith]

theorem rep_softRow_length (row : List (Option ℝ)) (r : List ℝ) (h : softRow row = some r) :
    r.length = row.length := by
  simp only [softRow] at h
  cases hm : rowMaxO row with
  | none => simp [hm] at h
  | some m =>
    simp only [hm, Option.some.injEq] at h
    subst h
    simp

/-- **E-step**: the responsibilities of the replicated data are the replicated responsibilities -/
theorem rep_estep_rep (sing : Mat ℝ → Bool) (reg : ℝ) (d : ℕ) (ws : List ℝ) (ms : Mat ℝ) (Cs : List (Mat ℝ))
    (cnt : List ℕ) (X : Mat ℝ) (hX : ∀ x ∈ X, x.length = d) (hl : cnt.length = X.length)
    (hpos : 0 < cnt.headD 0) (R : Mat ℝ) (h : estep sing reg d ws ms Cs X = some R) :
    estep sing reg d ws ms Cs (replicateBy cnt X) = some (replicateBy cnt R) ∧
      R.length = X.length ∧ ∀ row ∈ R, row.length = (List.zip ws (List.zip ms Cs)).length := by
  simp only [estep] at h ⊢
  obtain ⟨cols, hcols, hR⟩ := Option.bind_eq_some_iff.mp h
  obtain ⟨hcl, hck⟩ := rep_estepCols_length sing reg d ws ms Cs X cols hcols
  rw [rep_estepCols_rep sing reg d ws ms Cs cnt X hX hpos, hcols]
  simp only [Option.map_some, Option.bind_some]
  rw [length_replicateBy cnt X hl, rep_rowsOfCols_rep cnt X.length hl cols hcl]
  refine ⟨rep_mapOpt_rep softRow cnt _ R hR, ?_, ?_⟩
  · rw [mapOpt_length softRow _ R hR, rep_rowsOfCols_length]
  · intro row hrow
    obtain ⟨row0, hrow0, hs⟩ := rep_mapOpt_mem softRow _ R hR row hrow
    rw [rep_softRow_length row0 row hs, rep_rowsOfCols_row_length X.length cols hcl row0 hrow0, hck]

/-! ### lower bound -/

theorem rep_lbCols_rep (sing : Mat ℝ → Bool) (reg : ℝ) (d : ℕ) (ws : List ℝ) (ms : Mat ℝ) (Cs : List (Mat ℝ))
    (cnt : List ℕ) (X : Mat ℝ) (hX : ∀ x ∈ X, x.length = d) (hpos : 0 < cnt.headD 0) :
    lbCols sing reg d ws ms Cs (replicateBy cnt X) = (lbCols sing reg d ws ms Cs X).map (replicateBy cnt) := by
  unfold lbCols
  rw [List.map_filterMap]
  apply List.filterMap_congr
  intro t _
  rw [rep_logpdfCol_rep sing d _ _ cnt X hX hpos]
  cases logpdfCol sing d (addDiag reg t.2.2) t.2.1 X with
  | none => rfl
  | some l => simp [map_replicateBy]

theorem rep_lbCols_length (sing : Mat ℝ → Bool) (reg : ℝ) (d : ℕ) (ws : List ℝ) (ms : Mat ℝ) (Cs : List (Mat ℝ))
    (X : Mat ℝ) : ∀ col ∈ lbCols sing reg d ws ms Cs X, col.length = X.length := by
  intro col hcol
  simp only [lbCols, List.mem_filterMap] at hcol
  obtain ⟨t, _, ht⟩ := hcol
  obtain ⟨l, hl, rfl⟩ := Option.map_eq_some_iff.mp ht
  rw [List.length_map]
  exact rep_logpdfCol_length sing d _ _ X l hl

/-- **lower bound**: `Σ_i s_i log(…)` over the replicated data with equal weights `t` is the weighted sum
    over the original data with weights `cnt_i · t` -/
theorem rep_lowerBound_rep (sing : Mat ℝ → Bool) (reg eps : ℝ) (d : ℕ) (ws : List ℝ) (ms : Mat ℝ)
    (Cs : List (Mat ℝ)) (cnt : List ℕ) (X : Mat ℝ) (t : ℝ) (hX : ∀ x ∈ X, x.length = d)
    (hl : cnt.length = X.length) (hpos : 0 < cnt.headD 0) :
    lowerBound sing reg eps d ws ms Cs (replicateBy cnt X) (List.replicate cnt.sum t)
      = lowerBound sing reg eps d ws ms Cs X (cnt.map fun (k : ℕ) => (k : ℝ) * t) := by
  have hrows : ∀ (n : ℕ) (cols : List (List ℝ)),
      ((List.range n).map fun i => ScT.log (Sc.add (Sc.sum (col cols i)) eps))
        = (rowsOfCols n cols).map fun row => ScT.log (Sc.add (Sc.sum row) eps) := by
    intro n cols; simp [rowsOfCols]
  simp only [lowerBound]
  rw [hrows, hrows, rep_lbCols_rep sing reg d ws ms Cs cnt X hX hpos, length_replicateBy cnt X hl,
    rep_rowsOfCols_rep cnt X.length hl _ (rep_lbCols_length sing reg d ws ms Cs X), map_replicateBy,
    ← rep_replicateBy_replicate t cnt X.length (by omega), dot_rep, rep_zipWith_cast_replicate t cnt X.length (by omega)]

/-! ### one EM iteration, the loop, the restarts -/

theorem rep_zip_length_of_shape (diagT : Bool) (K : ℕ) (p : MStep ℝ) (hp : rep_Shape K p) :
    (List.zip p.weights (List.zip p.means (covMats diagT p))).length = K := by
  obtain ⟨h1, h2, h3, h4⟩ := hp
  cases diagT <;> simp [covMats, h1, h2, h3, h4]


/-- **one EM iteration** (E-step, M-step, lower bound) gives the same parameters and the same bound -/
theorem C15_emIter_replicate (c : Cfg ℝ) (cnt : List ℕ) (X : Mat ℝ) (t : ℝ)
    (hX : ∀ x ∈ X, x.length = c.d) (hl : cnt.length = X.length) (hpos : 0 < cnt.headD 0)
    (p : MStep ℝ) (hp : rep_Shape c.K p) (r : MStep ℝ × ℝ)
    (h : emIter c X (cnt.map fun (k : ℕ) => (k : ℝ) * t) p = some r) :
    emIter c (replicateBy cnt X) (List.replicate cnt.sum t) p = some r ∧ rep_Shape c.K r.1 := by
  simp only [emIter] at h ⊢
  cases hE : estep c.sing c.reg c.d p.weights p.means (covMats c.diagT p) X with
  | none => simp [hE] at h
  | some R =>
    obtain ⟨h1, h2, h3⟩ := rep_estep_rep c.sing c.reg c.d p.weights p.means (covMats c.diagT p) cnt X hX hl hpos R hE
    rw [rep_zip_length_of_shape c.diagT c.K p hp] at h3
    simp only [hE, Option.some.injEq] at h
    rw [h1]
    simp only
    rw [C15_em_factors_through_wsum c.tiny c.eps t c.d c.K X R cnt hX h3 (by omega),
      rep_lowerBound_rep c.sing c.reg c.eps c.d _ _ _ cnt X t hX hl hpos, h]
    refine ⟨rfl, ?_⟩
    rw [← h]
    exact rep_mstep_shape _ _ _ _ _ _ _

/-- **the EM loop** from equal initial parameters: the same parameters, bound and iteration count -/
theorem C15_emLoop_replicate (c : Cfg ℝ) (cnt : List ℕ) (X : Mat ℝ) (t : ℝ)
    (hX : ∀ x ∈ X, x.length = c.d) (hl : cnt.length = X.length) (hpos : 0 < cnt.headD 0) :
    ∀ (fuel it : ℕ) (lb : Option ℝ) (p : MStep ℝ) (out : LoopOut ℝ), rep_Shape c.K p →
      emLoop c X (cnt.map fun (k : ℕ) => (k : ℝ) * t) fuel it lb p = some out →
      emLoop c (replicateBy cnt X) (List.replicate cnt.sum t) fuel it lb p = some out := by
  intro fuel
  induction fuel with
  | zero => intro it lb p out _ h; simp [emLoop] at h
  | succ fuel ih =>
    intro it lb p out hp h
    simp only [emLoop] at h ⊢
    cases hI : emIter c X (cnt.map fun (k : ℕ) => (k : ℝ) * t) p with
    | none => simp [hI] at h
    | some r =>
      obtain ⟨h1, h2⟩ := C15_emIter_replicate c cnt X t hX hl hpos p hp r hI
      obtain ⟨p', new⟩ := r
      rw [h1]
      simp only [hI] at h
      simp only
      by_cases hc : converged c.tol new lb = true
      · simp only [hc, if_true] at h ⊢; exact h
      · by_cases hf : fuel = 0
        · simp only [hc, hf, if_true] at h ⊢; exact h
        · simp only [hc, hf, if_false] at h ⊢
          exact ih _ _ _ _ h2 h

/-- **all restarts**: the same best parameters (the k-means++ index lists differ) -/
theorem C15_fitInits_replicate (c : Cfg ℝ) (cnt : List ℕ) (X : Mat ℝ) (t : ℝ) (ht : 0 ≤ t)
    (hX : ∀ x ∈ X, x.length = c.d) (hl : cnt.length = X.length) (hpos : 0 < cnt.headD 0) :
    ∀ (n : ℕ) (tape : List ℝ) (best : Option (Best ℝ)) (picks picks' : List (List ℕ))
      (r : Option (Best ℝ) × List (List ℕ)),
      fitInits c X (cnt.map fun (k : ℕ) => (k : ℝ) * t) n tape best picks = some r →
      ∃ r', fitInits c (replicateBy cnt X) (List.replicate cnt.sum t) n tape best picks' = some r' ∧
        r'.1 = r.1 := by
  intro n
  induction n with
  | zero =>
    intro tape best picks picks' r h
    simp only [fitInits, Option.some.injEq] at h
    subst h
    exact ⟨(best, picks'), by simp only [fitInits], rfl⟩
  | succ n ih =>
    intro tape best picks picks' r h
    simp only [fitInits] at h ⊢
    cases hI : initFit c X (cnt.map fun (k : ℕ) => (k : ℝ) * t) tape with
    | none => simp [hI] at h
    | some r0 =>
      obtain ⟨r0', hr0', e1, e2, hs⟩ := rep_initFit_rep c cnt X t ht hX hl hpos tape r0 hI
      obtain ⟨p0, pk, tape'⟩ := r0
      obtain ⟨p0', pk', tape''⟩ := r0'
      simp only at e1 e2 hs
      subst e1 e2
      rw [hr0']
      simp only [hI] at h
      simp only
      cases hL : emLoop c X (cnt.map fun (k : ℕ) => (k : ℝ) * t) c.maxIter 0 none p0' with
      | none => simp [hL] at h
      | some o =>
        rw [C15_emLoop_replicate c cnt X t hX hl hpos c.maxIter 0 none p0' o hs hL]
        simp only [hL] at h
        simp only
        exact ih _ _ _ _ _ h

/-! ### `fit` -/


theorem rep_normWeights_counts (cnt : List ℕ) :
    normWeights (cnt.map fun (k : ℕ) => (k : ℝ)) = cnt.map fun (k : ℕ) => (k : ℝ) * (1 / (cnt.sum : ℝ)) := by
  simp only [normWeights, sum_eq, List.map_map, ScReal.div_def]
  rw [← Nat.cast_list_sum]
  apply List.map_congr_left
  intro k _
  simp only [Function.comp]
  ring

theorem rep_normWeights_ones (n : ℕ) :
    normWeights (List.replicate n (1 : ℝ)) = List.replicate n (1 / (n : ℝ)) := by
  simp [normWeights, sum_eq]


/-- **`fit` on replicated points = `fit` with integer sample weights** (general counts: zeros allowed,
    only the first count must be positive — it makes the replicated data non-empty and decides the draw
    `u = 0`) -/
theorem C15_fit_replicate_general (c : Cfg ℝ) (X : Mat ℝ) (cnt : List ℕ) (tape : List ℝ)
    (hX : ∀ x ∈ X, x.length = c.d) (hcnt : cnt.length = X.length) (hpos : 0 < cnt.headD 0)
    (o : FitOut ℝ) (h : fit c X (cnt.map fun (k : ℕ) => (k : ℝ)) tape = some o) :
    ∃ o', fit c (replicateBy cnt X) (List.replicate cnt.sum 1) tape = some o' ∧
      o'.params = o.params ∧ o'.nIter = o.nIter ∧ o'.converged = o.converged ∧ o'.lb = o.lb := by
  simp only [fit] at h ⊢
  rw [rep_normWeights_counts] at h
  rw [rep_normWeights_ones]
  cases hF : fitInits c X (cnt.map fun (k : ℕ) => (k : ℝ) * (1 / (cnt.sum : ℝ))) c.nInit tape none [] with
  | none => rw [hF] at h; simp at h
  | some r =>
    obtain ⟨r', hr', e⟩ := C15_fitInits_replicate c cnt X (1 / (cnt.sum : ℝ)) (by positivity) hX hcnt hpos
      c.nInit tape none [] [] r hF
    obtain ⟨b, picks⟩ := r
    obtain ⟨b', picks'⟩ := r'
    simp only at e
    subst e
    rw [hr']
    simp only [hF] at h
    cases b' with
    | none => simp at h
    | some b =>
      simp only [Option.some.injEq] at h
      subst h
      exact ⟨_, rfl, rfl, rfl, rfl, rfl⟩

/-- the form with all counts positive -/
theorem C15_fit_replicate (c : Cfg ℝ) (X : Mat ℝ) (cnt : List ℕ) (tape : List ℝ)
    (hX : ∀ x ∈ X, x.length = c.d) (hcnt : cnt.length = X.length)
    (hc0 : ∀ k ∈ cnt, 0 < k)
    (_htape : ∀ u ∈ tape, 0 ≤ u ∧ u < 1)
    (o : FitOut ℝ) (h : fit c X (cnt.map fun (k : ℕ) => (k : ℝ)) tape = some o) :
    ∃ o', fit c (replicateBy cnt X) (List.replicate cnt.sum 1) tape = some o' ∧
      o'.params = o.params ∧ o'.nIter = o.nIter ∧ o'.converged = o.converged ∧ o'.lb = o.lb := by
  cases cnt with
  | nil =>
    have : X = [] := List.eq_nil_of_length_eq_zero hcnt.symm
    subst this
    exact ⟨o, by simpa [replicateBy_nil_left] using h, rfl, rfl, rfl, rfl⟩
  | cons k cnt =>
    exact C15_fit_replicate_general c X (k :: cnt) tape hX hcnt (by simpa using hc0 k (by simp)) o h

/-! ### non-vacuity -/

/-- the hypotheses of `C15_fit_replicate` on 3 points in 1-D with counts (1, 2, 1) and one `rand()` value -/
example : (∀ x ∈ exX, x.length = 1) ∧ ([1, 2, 1] : List ℕ).length = exX.length ∧
    (∀ k ∈ ([1, 2, 1] : List ℕ), 0 < k) ∧ (∀ u ∈ ([1 / 2] : List ℝ), 0 ≤ u ∧ u < 1) ∧
    0 < ([1, 2, 1] : List ℕ).headD 0 ∧
    replicateBy [1, 2, 1] exX = [[1], [3], [3], [5]] ∧
    List.replicate ([1, 2, 1] : List ℕ).sum (1 : ℝ) = [1, 1, 1, 1] := by
  refine ⟨by simp [exX], by simp [exX], by simp, ?_, by simp, by simp [replicateBy, exX, List.replicate], by
    simp [List.replicate]⟩
  intro u hu
  simp only [List.mem_singleton] at hu
  subst hu
  norm_num

/-- the first k-means++ draw of that example: `u = 1/2` picks index 1 of the weighted data (cumulative sums
    1/4, 3/4, 1) and index 1 of the replicated data (cumulative sums 1/4, 1/2, 3/4, 1) — the point `[3]` on
    both sides; with `u = 3/5` the indices differ (1 against 2) and the point is still the same -/
example : pickIdx ([1 / 4, 2 / 4, 1 / 4] : List ℝ) (1 / 2) = some 1 ∧
    pickIdx (List.replicate 4 (1 / 4 : ℝ)) (1 / 2) = some 1 ∧
    pickIdx ([1 / 4, 2 / 4, 1 / 4] : List ℝ) (3 / 5) = some 1 ∧
    pickIdx (List.replicate 4 (1 / 4 : ℝ)) (3 / 5) = some 2 ∧
    exX[1]? = some [3] ∧ (replicateBy [1, 2, 1] exX)[1]? = some [3] ∧
    (replicateBy [1, 2, 1] exX)[2]? = some [3] := by
  refine ⟨?_, ?_, ?_, ?_, by simp [exX], by simp [replicateBy, exX, List.replicate], by
    simp [replicateBy, exX, List.replicate]⟩ <;>
  · simp [pickIdx, cumsumFrom, searchsorted, rep_npLt_real, List.replicate]
    norm_num


/-! #### the hypothesis `fit … = some o` is satisfiable: a complete run (one component, one iteration) -/

theorem rep_estepCol_some (sing : Mat ℝ → Bool) (reg : ℝ) (d : ℕ) (w : ℝ) (m : List ℝ) (C : Mat ℝ) (X : Mat ℝ)
    (hs : ∀ M, sing M = false) (hreg : 0 < reg) (hX : ∀ x ∈ X, x.length = d) (hm : m.length = d)
    (hw : 0 < w) :
    ∃ l : List ℝ, l.length = X.length ∧
      estepCol sing reg d w m C X = some (l.map fun t => some (Real.log w + t)) := by
  have hlw : logW w = some (Real.log w) := by simp [logW, hw]
  cases h1 : logpdfCol sing d (addDiag reg C) m X with
  | some l =>
    exact ⟨l, rep_logpdfCol_length sing d _ m X l h1, by simp [estepCol, h1, hlw]⟩
  | none =>
    obtain ⟨l, h2, hl⟩ := logpdfCol_scaledEye_some sing d reg m X (hs _) hreg hX hm
    exact ⟨l, hl, by simp [estepCol, h1, h2, hlw]⟩

theorem rep_estep_one_some (sing : Mat ℝ → Bool) (reg : ℝ) (d : ℕ) (w : ℝ) (m : List ℝ) (C : Mat ℝ) (X : Mat ℝ)
    (hs : ∀ M, sing M = false) (hreg : 0 < reg) (hX : ∀ x ∈ X, x.length = d) (hm : m.length = d)
    (hw : 0 < w) : ∃ R, estep sing reg d [w] [m] [C] X = some R := by
  obtain ⟨l, hl, hcol⟩ := rep_estepCol_some sing reg d w m C X hs hreg hX hm hw
  have hcols : estepCols sing reg d [w] [m] [C] X = some [l.map fun t => some (Real.log w + t)] := by
    simp [estepCols, mapOpt, hcol]
  simp only [estep, hcols, Option.bind_some]
  rw [rep_rowsOfCols_cons _ _ _ (by simp [hl]), rep_rowsOfCols_nil]
  obtain ⟨ys, hys, _⟩ := mapOpt_some_of_forall softRow
    (List.zipWith List.cons (l.map fun t => some (Real.log w + t)) (List.replicate X.length [])) (by
      intro row hrow
      obtain ⟨i, hi, rfl⟩ := List.mem_iff_getElem.mp hrow
      simp [softRow, rowMaxO])
  exact ⟨ys, hys⟩

noncomputable def rep_exCfg : Cfg ℝ :=
  { sing := fun _ => false, diagT := false, tiny := 1 / 1000, eps := 1 / 10, reg := 1, tol := 1 / 1000,
    d := 1, K := 1, maxIter := 1, nInit := 1 }

/-- `fit` succeeds on the example (so `C15_fit_replicate` applies to it, and says that the fit of
    `[[1],[3],[3],[5]]` with unit weights returns the same parameters) -/
theorem rep_ex_fit_some : ∃ o, fit rep_exCfg exX (([1, 2, 1] : List ℕ).map fun (k : ℕ) => (k : ℝ)) [1 / 2] = some o := by
  have hs : normWeights (([1, 2, 1] : List ℕ).map fun (k : ℕ) => (k : ℝ)) = [1 / 4, 1 / 2, 1 / 4] := by
    simp [normWeights, Sc.sum]; norm_num
  have hc : centres exX [1 / 4, 1 / 2, 1 / 4] 1 [1 / 2] = some ([[3]], [1], []) := by
    simp [centres, pickIdx, cumsumFrom, searchsorted, rep_npLt_real, moreCentres, exX]
    norm_num
  have hw : (initParams (1 / 1000) (1 / 10) 1 1 exX (logResp exX [[3]]) [1 / 4, 1 / 2, 1 / 4]).weights
      = [1] := by
    simp [initParams, mstep, normalise, colSums, weightedResp, col, initNormalise, logResp, shiftExp, rowMax,
      Sc.sum, exX]
    norm_num
  have hm : ∃ m0 : ℝ, (initParams (1 / 1000) (1 / 10) 1 1 exX (logResp exX [[3]]) [1 / 4, 1 / 2, 1 / 4]).means
      = [[m0]] := ⟨_, rfl⟩
  have hcv : ∃ C0 : Mat ℝ,
      (initParams (1 / 1000) (1 / 10) 1 1 exX (logResp exX [[3]]) [1 / 4, 1 / 2, 1 / 4]).covFull = [C0] :=
    ⟨_, rfl⟩
  obtain ⟨m0, hm⟩ := hm
  obtain ⟨C0, hcv⟩ := hcv
  obtain ⟨R, hR⟩ := rep_estep_one_some (fun _ => false) 1 1 1 [m0] C0 exX (fun _ => rfl) one_pos
    (by simp [exX]) rfl one_pos
  have hinit : initFit rep_exCfg exX [1 / 4, 1 / 2, 1 / 4] [1 / 2]
      = some (initParams (1 / 1000) (1 / 10) 1 1 exX (logResp exX [[3]]) [1 / 4, 1 / 2, 1 / 4], [1], []) := by
    simp only [initFit, rep_exCfg, hc]; rfl
  simp only [fit, hs]
  have hd : rep_exCfg.nInit = 1 := rfl
  rw [hd]
  simp only [fitInits, hinit]
  have hmi : rep_exCfg.maxIter = 1 := rfl
  rw [hmi]
  simp only [emLoop, emIter]
  have hE : estep rep_exCfg.sing rep_exCfg.reg rep_exCfg.d
      (initParams (1 / 1000) (1 / 10) 1 1 exX (logResp exX [[3]]) [1 / 4, 1 / 2, 1 / 4]).weights
      (initParams (1 / 1000) (1 / 10) 1 1 exX (logResp exX [[3]]) [1 / 4, 1 / 2, 1 / 4]).means
      (covMats rep_exCfg.diagT (initParams (1 / 1000) (1 / 10) 1 1 exX (logResp exX [[3]]) [1 / 4, 1 / 2, 1 / 4]))
      exX = some R := by
    rw [hw, hm]
    simp only [covMats, rep_exCfg, hcv]
    exact hR
  rw [hE]
  simp [converged, better]


/-- `C15_fit_replicate` applied to the example -/
example : ∃ o o', fit rep_exCfg exX (([1, 2, 1] : List ℕ).map fun (k : ℕ) => (k : ℝ)) [1 / 2] = some o ∧
    fit rep_exCfg [[1], [3], [3], [5]] [1, 1, 1, 1] [1 / 2] = some o' ∧
    o'.params = o.params ∧ o'.nIter = o.nIter ∧ o'.converged = o.converged ∧ o'.lb = o.lb := by
  obtain ⟨o, ho⟩ := rep_ex_fit_some
  obtain ⟨o', ho', h⟩ := C15_fit_replicate rep_exCfg exX [1, 2, 1] [1 / 2] (by simp [exX, rep_exCfg]) (by simp [exX])
    (by simp) (by intro u hu; simp only [List.mem_singleton] at hu; subst hu; norm_num) o ho
  have e1 : replicateBy [1, 2, 1] exX = [[1], [3], [3], [5]] := by simp [replicateBy, exX, List.replicate]
  have e2 : List.replicate ([1, 2, 1] : List ℕ).sum (1 : ℝ) = [1, 1, 1, 1] := by simp [List.replicate]
  rw [e1, e2] at ho'
  exact ⟨o, o', ho, ho', h⟩

/-- counts with a zero (a point that is not replicated at all) satisfy the hypotheses of
    `C15_fit_replicate_general` -/
example : (∀ x ∈ exX, x.length = 1) ∧ ([2, 0, 1] : List ℕ).length = exX.length ∧
    0 < ([2, 0, 1] : List ℕ).headD 0 ∧ replicateBy [2, 0, 1] exX = [[1], [1], [5]] := by
  refine ⟨by simp [exX], by simp [exX], by simp, by simp [replicateBy, exX, List.replicate]⟩

end Props.C15
