import TempestVerif.Model.Pipeline
import TempestVerif.Props.C11
import TempestVerif.Props.C04
import TempestVerif.Props.C05Warmup
import Mathlib.Tactic
/-
  C11 on the PIPELINE model (`Model.Pipeline`, the executable composition of the step models that the whole-run trace
  replay ties to the real sampler):

  * the warm-up replacement step as the pipeline executes it (`warmup`: mask of the -inf draws, picks of
    `np.random.choice(finite_idx, …)`, scatter of whole records) leaves no -inf draw, invents no value, keeps (tag, logl)
    records whole — the hypotheses of `C11_no_inf_stored` are discharged from the executable definition;
  * an accept/reject step never accepts a -inf proposal;
  * the evidence the reweighting step writes at beta = 0 over an all-beta-0 history (the C04 model of
    `compute_logw_and_logz`) IS the linear-space `Model.Warmup.reweightZ` — the "modelled" link of the first version,
    now a theorem;
  * end to end: any number of warm-up iterations of `Model.Pipeline.iterate` commit exactly the evidences of
    `Model.Warmup.run batchZ`, all at beta = 0, and every stored log-likelihood is a real number.
-/
namespace Props.C11
open Model.Pipeline Model.Weights Model.Records Model.Warmup Props.C04

/-! ### the replacement step of the pipeline model -/
section replacement
variable {α : Type} [ScT α]

/-- `infinite_idx = all_idx[np.isinf(logl)]` as `Model.Pipeline.warmup` computes it -/
def infIdx (dl : List (Option α)) : List Nat :=
  (List.range dl.length).filter fun i => !((dl[i]?).join.isSome)

/-- what `np.random.choice(finite_idx, size=len(infinite_idx), replace=True)` guarantees: as many picks as -inf draws,
    every pick a position holding a finite draw (numpy is modelled, not verified) -/
def PicksOk (dl : List (Option α)) (picks : List Nat) : Prop :=
  picks.length = (infIdx dl).length ∧ ∀ p ∈ picks, ∃ v, dl[p]? = some (some v)

theorem warmup_ls (t : Tape α) (z : α) :
    (warmup t z).2.1 = if countSome t.drawL < t.drawL.length ∧ 0 < countSome t.drawL
      then scatterFrom t.drawL (infIdx t.drawL) t.picks else t.drawL := by
  unfold warmup infIdx
  by_cases h1 : countSome t.drawL < t.drawL.length <;> by_cases h2 : 0 < countSome t.drawL <;> simp [h1, h2]

theorem warmup_tags (t : Tape α) (z : α) :
    (warmup t z).1 = if countSome t.drawL < t.drawL.length ∧ 0 < countSome t.drawL
      then scatterFrom t.drawTags (infIdx t.drawL) t.picks else t.drawTags := by
  unfold warmup infIdx
  by_cases h1 : countSome t.drawL < t.drawL.length <;> by_cases h2 : 0 < countSome t.drawL <;> simp [h1, h2]

/-- the evidence the warm-up mutation commits: SET to `log(n_fin/n)` when the batch had -inf draws, else what the
    reweighting step wrote -/
theorem warmup_logz (t : Tape α) (z : α) :
    (warmup t z).2.2 = if countSome t.drawL < t.drawL.length
      then ScT.log (Sc.div (Sc.ofNat (countSome t.drawL)) (Sc.ofNat t.drawL.length)) else z := by
  unfold warmup
  by_cases h1 : countSome t.drawL < t.drawL.length <;> simp [h1]

omit [ScT α] in
theorem allSome_of_forall (l : List (Option α)) (h : ∀ v ∈ l, v.isSome = true) :
    ∃ l', allSome l = some l' ∧ l'.map some = l := by
  induction l with
  | nil => exact ⟨[], rfl, rfl⟩
  | cons x xs ih =>
    obtain ⟨l', h1, h2⟩ := ih (fun v hv => h v (by simp [hv]))
    cases x with
    | none => have := h none (by simp); simp at this
    | some a => exact ⟨a :: l', by simp [allSome, h1], by simp [h2]⟩

omit [ScT α] in
theorem mem_infIdx (dl : List (Option α)) (i : Nat) (v : Option α) (hi : dl[i]? = some v) (hv : ¬ v.isSome = true) :
    i ∈ infIdx dl := by
  unfold infIdx
  rw [List.mem_filter, List.mem_range]
  have hlt : i < dl.length := by
    by_contra hc
    rw [List.getElem?_eq_none (by omega)] at hi; cases hi
  refine ⟨hlt, ?_⟩
  rw [hi]; cases v <;> simp_all

/-- C11 (no -inf stored, on the executable replacement step): when the batch has a finite draw, after
    `Model.Pipeline.warmup` every stored log-likelihood is finite (`allSome … = some l`: the batch can be committed),
    the batch keeps its size, and every stored value is one of the finite values that were drawn -/
theorem C11_warmup_all_finite (t : Tape α) (z : α) (hfin : 0 < countSome t.drawL)
    (hp : PicksOk t.drawL t.picks) :
    ∃ l, allSome (warmup t z).2.1 = some l ∧ l.length = t.drawL.length ∧ ∀ v ∈ l, some v ∈ t.drawL := by
  have hall : ∀ v ∈ (warmup t z).2.1, v.isSome = true := by
    rw [warmup_ls]
    by_cases hlt : countSome t.drawL < t.drawL.length
    · simp only [hlt, hfin, and_self, if_true]
      intro v hv
      obtain ⟨i, hi⟩ := List.mem_iff_getElem?.mp hv
      exact C11_no_inf_stored (fun v : Option α => v.isSome = true) t.drawL (infIdx t.drawL) t.picks hp.1.symm
        (fun s hs => by obtain ⟨w, hw⟩ := hp.2 s hs; exact ⟨some w, hw, rfl⟩)
        (fun i v hi hv => mem_infIdx t.drawL i v hi hv) i v hi
    · simp only [hlt, false_and, if_false]
      have hc : List.countP Option.isSome t.drawL = t.drawL.length :=
        le_antisymm List.countP_le_length (not_lt.mp hlt)
      exact fun v hv => List.countP_eq_length.mp hc v hv
  have hmem : ∀ v ∈ (warmup t z).2.1, v ∈ t.drawL := by
    rw [warmup_ls]; split
    · exact scatterFrom_mem _ _ _
    · exact fun v hv => hv
  have hlen : ((warmup t z).2.1).length = t.drawL.length := by
    rw [warmup_ls]; split
    · exact scatterFrom_length _ _ _
    · rfl
  obtain ⟨l, h1, h2⟩ := allSome_of_forall _ hall
  refine ⟨l, h1, ?_, ?_⟩
  · rw [← hlen, ← h2]; simp
  · intro v hv; apply hmem; rw [← h2]; exact List.mem_map_of_mem hv

theorem set_zip {A B : Type} (a : List A) (b : List B) (t : Nat) (x : A) (y : B) :
    (a.zip b).set t (x, y) = (a.set t x).zip (b.set t y) := by
  induction a generalizing b t with
  | nil => simp
  | cons a0 as ih =>
    cases b with
    | nil => simp
    | cons b0 bs =>
      cases t with
      | zero => simp
      | succ t => simp [ih]

/-- records stay whole: `scatterFrom` acts on the (tag, logl) PAIRS — tags and log-likelihoods are overwritten at the same
    positions from the same sources -/
theorem scatterFrom_zip {A B : Type} (a : List A) (b : List B) (hab : a.length = b.length) (tgt src : List Nat) :
    scatterFrom (a.zip b) tgt src = (scatterFrom a tgt src).zip (scatterFrom b tgt src) := by
  induction tgt generalizing src with
  | nil => simp [scatterFrom]
  | cons t ts ih =>
    cases src with
    | nil => simp [scatterFrom]
    | cons s ss =>
      simp only [scatterFrom]
      by_cases hs : s < a.length
      · have hs' : s < b.length := hab ▸ hs
        have hz : (a.zip b)[s]? = some (a[s], b[s]) := by
          rw [List.getElem?_eq_getElem (by simp [hs, hs'])]; simp
        rw [hz, List.getElem?_eq_getElem hs, List.getElem?_eq_getElem hs', ih ss]
        exact set_zip _ _ _ _ _
      · have hs' : ¬ s < b.length := hab ▸ hs
        rw [List.getElem?_eq_none (by simp; omega), List.getElem?_eq_none (by omega),
          List.getElem?_eq_none (by omega)]
        exact ih ss

/-- C11 (whole records): every stored (tag, logl) pair of a warm-up batch is one of the drawn pairs -/
theorem C11_warmup_records_whole (t : Tape α) (z : α) (hlen : t.drawTags.length = t.drawL.length) :
    ∀ q ∈ (warmup t z).1.zip (warmup t z).2.1, q ∈ t.drawTags.zip t.drawL := by
  rw [warmup_tags, warmup_ls]
  split
  · rw [← scatterFrom_zip _ _ hlen]; exact scatterFrom_mem _ _ _
  · exact fun q hq => hq

/-- the excluded point, on the pipeline model (recorded finding F8): a non-empty batch with NO finite draw is left as drawn, so
    it cannot be committed as a batch of real log-likelihoods — `iterate` leaves the model exactly there.  Hypothesis `fin` of
    `C11_warmup_all_finite` / `TapeOk` is therefore necessary, not a convenience. -/
theorem C11_warmup_all_inf_excluded (t : Tape α) (z : α) (h0 : countSome t.drawL = 0) (hn : 0 < t.drawL.length) :
    (warmup t z).2.1 = t.drawL ∧ (warmup t z).1 = t.drawTags ∧ allSome (warmup t z).2.1 = none := by
  have h1 : (warmup t z).2.1 = t.drawL := by rw [warmup_ls]; simp [h0]
  have h2 : (warmup t z).1 = t.drawTags := by rw [warmup_tags]; simp [h0]
  refine ⟨h1, h2, ?_⟩
  rw [h1]
  cases hd : t.drawL with
  | nil => rw [hd] at hn; simp at hn
  | cons x xs =>
    cases x with
    | none => rfl
    | some a => rw [hd] at h0; simp [countSome] at h0

/-- non-vacuity: four draws, two of them -inf, replaced by copies of draws 0 and 2 -/
example : ∃ l, allSome (warmup (⟨[10, 11, 12, 13], [some 1, none, some 2, none], [0, 2], [], []⟩ : Tape ℝ) 0).2.1 = some l ∧
    l.length = 4 ∧ ∀ v ∈ l, some v ∈ [some (1 : ℝ), none, some 2, none] :=
  C11_warmup_all_finite (⟨[10, 11, 12, 13], [some 1, none, some 2, none], [0, 2], [], []⟩ : Tape ℝ) 0
    (by simp [countSome]) ⟨by simp [infIdx, List.range_succ], by simp⟩

end replacement

/-! ### an accept/reject step never accepts a -inf proposal -/
section mcmc
variable {α : Type} [ScT α]

/-- C11 (beta > 0): whatever the uniforms and Hastings factors, a particle whose proposal has log-likelihood -inf is not
    accepted; an accepted particle carries the (finite) log-likelihood of its proposal, a rejected one keeps its own -/
theorem C11_mcmc_step (beta : α) (tg : List Nat) (l : List α) (pt : List Nat) (pl : List (Option α)) (f r : List α) :
    ∀ i : Nat,
      ((mcmcStep beta tg l pt pl f r).2.2[i]? = some true →
        ∃ lp, pl[i]? = some (some lp) ∧ (mcmcStep beta tg l pt pl f r).2.1[i]? = some lp) ∧
      ((mcmcStep beta tg l pt pl f r).2.2[i]? = some false →
        (mcmcStep beta tg l pt pl f r).2.1[i]? = l[i]?) := by
  induction tg generalizing l pt pl f r with
  | nil => intro i; simp [mcmcStep]
  | cons tg0 tgs ih =>
    cases l with
    | nil => intro i; simp [mcmcStep]
    | cons l0 ls =>
      cases pt with
      | nil => intro i; simp [mcmcStep]
      | cons pt0 pts =>
        cases pl with
        | nil => intro i; simp [mcmcStep]
        | cons pl0 pls =>
          cases f with
          | nil => intro i; simp [mcmcStep]
          | cons f0 fs =>
            cases r with
            | nil => intro i; simp [mcmcStep]
            | cons r0 rs =>
              intro i
              cases i with
              | zero =>
                cases pl0 with
                | none => simp [mcmcStep]
                | some lp =>
                  by_cases hacc : Gen.Kernel.acceptDecision r0 (Gen.Kernel.acceptProb beta l0 lp f0) = true
                  · simp [mcmcStep, hacc]
                  · simp [mcmcStep, hacc]
              | succ j =>
                have := ih ls pts pls fs rs j
                simpa [mcmcStep] using this

/-- non-vacuity: a -inf proposal with uniform 0 and Hastings factor 0 is rejected, the particle keeps its value -/
example : mcmcStep (1 : ℝ) [7] [-1] [8] [none] [0] [0] = ([7], [-1], [false]) := by simp [mcmcStep]

end mcmc

/-! ### the reweighting step at beta = 0 IS the linear-space harmonic mean -/

/-- linear-space view of a stored history: `(n_t, exp logz_t)` -/
noncomputable def lin (h : List (Batch ℝ)) : List (Nat × ℝ) := h.map fun b => (b.logl.length, Real.exp b.logz)

theorem total_lin (h : List (Batch ℝ)) : total (lin h) = nTotal h := by
  rw [total_eq]; simp [lin, nTotal, Function.comp_def]

theorem mix_zero (h : List (Batch ℝ)) (h0 : ∀ b ∈ h, b.beta = 0) (l : ℝ) :
    mix h l = S (nTotal h : ℝ) (lin h) := by
  unfold mix S lin
  rw [List.map_map]
  congr 1
  apply List.map_congr_left
  intro b hb
  rw [h0 b hb]
  simp [Real.exp_neg, div_eq_mul_inv]

/-- C11 (the reweighting link): over a non-empty history whose batches are all at beta = 0, the evidence
    `compute_logw_and_logz(0)[1]` of the C04 model (max-shifted `logaddexp` folds and all) is exactly
    `log (1 / Σ_t (n_t/N) / Z_t)` with `Z_t = exp logz_t` — the `reweightZ` of the linear-space warm-up model -/
theorem C11_reweight_bridge (h : List (Batch ℝ)) (hwf : WF h) (h0 : ∀ b ∈ h, b.beta = 0) (nrm : Bool) :
    (logw h 0 nrm).2 = some (Real.log (reweightZ (lin h))) := by
  rw [C04_logz h hwf 0 nrm]
  congr 1
  have hN : (0 : ℝ) < (nTotal h : ℝ) := by exact_mod_cast nTotal_pos h hwf
  have hm : ∀ l, mix h l = S (nTotal h : ℝ) (lin h) := mix_zero h h0
  have hS : 0 < S (nTotal h : ℝ) (lin h) := by rw [← hm 0]; exact mix_pos h hwf 0
  have hsum : sumW h 0 = (nTotal h : ℝ) * (S (nTotal h : ℝ) (lin h))⁻¹ := by
    unfold sumW specRaw
    simp only [hm, zero_mul, zero_sub, Real.exp_neg, Real.exp_log hS]
    simp [length_flatLogl]
  have hne : (lin h).isEmpty = false := by
    have := hwf.1
    cases h <;> simp_all [lin]
  unfold specLogz
  rw [hsum]
  simp only [reweightZ, hne, Bool.false_eq_true, if_false, invMix_eq, total_lin, ScReal.div_def, ScReal.one_def]
  congr 1
  field_simp

/-- non-vacuity: two stored warm-up batches, sizes 2 and 1, recorded evidences log(1/2) and 0 -/
example : (logw ([⟨0, Real.log (1 / 2), [-1, -2]⟩, ⟨0, 0, [-3 / 10]⟩] : List (Batch ℝ)) 0 true).2
    = some (Real.log (reweightZ [(2, Real.exp (Real.log (1 / 2))), (1, Real.exp 0)])) := by
  have hwf : WF ([⟨0, Real.log (1 / 2), [-1, -2]⟩, ⟨0, 0, [-3 / 10]⟩] : List (Batch ℝ)) := by
    refine ⟨by simp, ?_⟩
    intro b hb; simp at hb; rcases hb with rfl | rfl <;> simp
  have := C11_reweight_bridge _ hwf (by intro b hb; simp at hb; rcases hb with rfl | rfl <;> rfl) true
  simpa [lin] using this

/-! ### end to end: warm-up iterations of the pipeline model -/

/-- a warm-up tape the statement covers: the batch has a finite draw (its negation is the recorded finding F8) and the
    replacement picks are what `np.random.choice` guarantees -/
structure TapeOk (t : Tape ℝ) : Prop where
  fin : 0 < countSome t.drawL
  picks : PicksOk t.drawL t.picks

/-- `(n, n_finite)` of a warm-up tape -/
def sizes (t : Tape ℝ) : Nat × Nat := (t.drawL.length, countSome t.drawL)

/-- still in the prior-sampling phase: current beta 0, every stored batch at beta 0 and non-empty -/
structure WInv (s : PState ℝ) : Prop where
  beta0 : s.beta = 0
  hist0 : ∀ b ∈ batches s.hist, b.beta = 0
  npos : ∀ b ∈ batches s.hist, 1 ≤ b.logl.length

theorem lin_pos (h : List (Batch ℝ)) (hn : ∀ b ∈ h, 1 ≤ b.logl.length) :
    (∀ e ∈ lin h, 0 < e.1) ∧ (∀ e ∈ lin h, 0 < e.2) := by
  constructor <;> intro e he <;> simp only [lin, List.mem_map] at he <;> obtain ⟨b, hb, rfl⟩ := he
  · exact hn b hb
  · exact Real.exp_pos _

/-- what the reweighting step writes in the prior-sampling phase: beta = 0 and the log of the linear-space estimate -/
theorem warm_reweight (c : Model.Reweight.Cfg ℝ) (hvv : c.vv = none) (h : List (Batch ℝ))
    (h0 : ∀ b ∈ h, b.beta = 0) (hn : ∀ b ∈ h, 1 ≤ b.logl.length)
    (hpool : h ≠ [] → (nTotal h : ℝ) ≤ c.target) :
    let r := Model.Reweight.run c h.isEmpty (oracleM h) (oracleZ h) isFin 0
    r.beta = 0 ∧ r.logz = Real.log (reweightZ (lin h)) := by
  intro r
  cases hh : h with
  | nil =>
    subst hh
    simp [r, Model.Reweight.run, lin, reweightZ]
  | cons b0 bs =>
    have hne : h ≠ [] := by rw [hh]; simp
    have hwf : WF h := ⟨hne, hn⟩
    have hemp : h.isEmpty = false := by rw [hh]; rfl
    have hess := Props.C05.C05_warmup_ess h hwf h0
    have hr : r = Model.Reweight.runEss (oracleM h) (oracleZ h) isFin c.target c.tolE c.tolB c.fuel 0 := by
      simp [r, Model.Reweight.run, hvv, hemp]
    have hz : oracleZ h 0 = Real.log (reweightZ (lin h)) := by
      have := C11_reweight_bridge h hwf h0 true
      simp only [oracleZ, ScReal.zero_def] at *
      rw [this]; rfl
    rw [← hh]
    rcases Props.C05.runEss_cases (oracleM h) (oracleZ h) isFin c.target c.tolE c.tolB c.fuel 0
      with ⟨_, e⟩ | ⟨hlt, _, _⟩ | ⟨hlt, _, _⟩
    · rw [hr, e]; simp [Model.Reweight.finalize, hz]
    · rw [hess] at hlt; linarith [hpool hne]
    · rw [hess] at hlt; linarith [hpool hne]

theorem nTotal_append (h : List (Batch ℝ)) (b : Batch ℝ) : nTotal (h ++ [b]) = nTotal h + b.logl.length := by
  simp [nTotal]

/-- one warm-up iteration of the pipeline model -/
theorem warm_iterate (c : PCfg ℝ) (hvv : c.rw.vv = none) (s : PState ℝ) (hs : WInv s) (t : Tape ℝ) (ht : TapeOk t)
    (hpool : s.hist ≠ [] → (nTotal (batches s.hist) : ℝ) ≤ c.rw.target) :
    ∃ s' o, iterate c s t = some (s', o) ∧ WInv s' ∧ o.beta = 0 ∧
      lin (batches s'.hist) = lin (batches s.hist) ++
        [(t.drawL.length, batchZ (lin (batches s.hist)) t.drawL.length (countSome t.drawL))] ∧
      nTotal (batches s'.hist) = nTotal (batches s.hist) + t.drawL.length := by
  have hpool' : batches s.hist ≠ [] → (nTotal (batches s.hist) : ℝ) ≤ c.rw.target := by
    intro hne; apply hpool; intro he; apply hne; simp [batches, he]
  obtain ⟨hrb, hrz⟩ := warm_reweight c.rw hvv (batches s.hist) hs.hist0 hs.npos hpool'
  obtain ⟨l, hl, hlen, _⟩ := C11_warmup_all_finite t
    (Model.Reweight.run c.rw (batches s.hist).isEmpty (oracleM (batches s.hist)) (oracleZ (batches s.hist)) isFin 0).logz
    ht.fin ht.picks
  have hnpos : 0 < t.drawL.length := lt_of_lt_of_le ht.fin List.countP_le_length
  have hposL := lin_pos (batches s.hist) hs.npos
  -- the evidence committed with the batch, in linear space
  have hexp : Real.exp (warmup t (Model.Reweight.run c.rw (batches s.hist).isEmpty (oracleM (batches s.hist))
        (oracleZ (batches s.hist)) isFin 0).logz).2.2
      = batchZ (lin (batches s.hist)) t.drawL.length (countSome t.drawL) := by
    rw [warmup_logz, hrz]
    unfold batchZ
    split
    · simp only [ScReal.log_def, ScReal.div_def, ScReal.ofNat_def]
      rw [Real.exp_log]
      have h1 : (0 : ℝ) < (countSome t.drawL : ℝ) := by exact_mod_cast ht.fin
      have h2 : (0 : ℝ) < (t.drawL.length : ℝ) := by exact_mod_cast hnpos
      positivity
    · exact Real.exp_log (reweightZ_pos _ hposL.1 hposL.2)
  unfold iterate
  simp only [hs.beta0]
  have heq : Model.Reweight.eqv (Model.Reweight.run c.rw (batches s.hist).isEmpty (oracleM (batches s.hist))
      (oracleZ (batches s.hist)) isFin (0 : ℝ)).beta Sc.zero = true := by
    rw [hrb]; simp [Model.Reweight.eqv]
  simp only [ScReal.zero_def] at heq ⊢
  rw [if_pos heq]
  rw [hl]
  refine ⟨_, _, rfl, ⟨hrb, ?_, ?_⟩, hrb, ?_, ?_⟩
  · intro b hb
    simp only [batches, List.map_append, List.mem_append, List.map_cons, List.map_nil, List.mem_singleton] at hb
    rcases hb with hb | rfl
    · exact hs.hist0 b hb
    · exact hrb
  · intro b hb
    simp only [batches, List.map_append, List.mem_append, List.map_cons, List.map_nil, List.mem_singleton] at hb
    rcases hb with hb | rfl
    · exact hs.npos b hb
    · simp only [hlen]; omega
  · rw [← hexp]; simp [batches, lin, hlen]
  · simp only [batches, List.map_append, List.map_cons, List.map_nil]
    rw [nTotal_append]; simp [hlen]

/-- any number of warm-up iterations -/
theorem warm_runIters (c : PCfg ℝ) (hvv : c.rw.vv = none) (ts : List (Tape ℝ)) :
    ∀ s : PState ℝ, WInv s → (∀ t ∈ ts, TapeOk t) →
      (∀ k, k < ts.length → (s.hist ≠ [] ∨ 0 < k) →
        (nTotal (batches s.hist) : ℝ) + (((ts.take k).map fun t => t.drawL.length).sum : ℝ) ≤ c.rw.target) →
      ∃ sf outs, runIters c s ts = some (sf, outs) ∧ WInv sf ∧ (∀ o ∈ outs, o.beta = 0) ∧ outs.length = ts.length ∧
        lin (batches sf.hist) = Model.Warmup.run batchZ (lin (batches s.hist)) (ts.map sizes) := by
  induction ts with
  | nil => intro s hs _ _; exact ⟨s, [], rfl, hs, by simp, rfl, by simp [Model.Warmup.run]⟩
  | cons t ts ih =>
    intro s hs hts hpool
    obtain ⟨s', o, hit, hs', hob, hlin, hnt⟩ := warm_iterate c hvv s hs t (hts t (by simp))
      (fun hne => by simpa using hpool 0 (by simp) (Or.inl hne))
    have hne' : s'.hist ≠ [] := by
      intro he
      have : lin (batches s'.hist) = [] := by simp [he, batches, lin]
      rw [hlin] at this; simp at this
    obtain ⟨sf, outs, hrun, hsf, hbeta, hlen, hfin⟩ := ih s' hs' (fun t' ht' => hts t' (by simp [ht']))
      (fun k hk _ => by
        have := hpool (k + 1) (by simpa using hk) (Or.inr (by omega))
        rw [hnt]; push_cast
        simp only [List.take_succ_cons, List.map_cons, List.sum_cons] at this
        linarith)
    refine ⟨sf, o :: outs, ?_, hsf, ?_, by simp [hlen], ?_⟩
    · simp [runIters, hit, hrun]
    · intro o' ho'
      rcases List.mem_cons.mp ho' with rfl | ho'
      · exact hob
      · exact hbeta o' ho'
    · rw [hfin, hlin]; simp [Model.Warmup.run, sizes]

theorem winv_init : WInv (init : PState ℝ) := ⟨by simp [init], by simp [init, batches], by simp [init, batches]⟩

/-- C11 (pipeline, counted once): run ANY number of iterations of the pipeline model from the initial state on tapes whose
    batches each have a finite draw, in ESS mode, the pool before each iteration no larger than the ESS target (that is
    what keeps the sampler in the prior-sampling phase, C05).  Then every iteration succeeds — so every stored
    log-likelihood is a real number, none is -inf —, every iteration is at beta = 0, and the committed
    `(n_t, exp logz_t)` are exactly the evidences of the linear-space model `run batchZ`. -/
theorem C11_pipeline_warmup (c : PCfg ℝ) (hvv : c.rw.vv = none) (ts : List (Tape ℝ)) (hts : ∀ t ∈ ts, TapeOk t)
    (hpool : ∀ k, 0 < k → k < ts.length → (((ts.take k).map fun t => t.drawL.length).sum : ℝ) ≤ c.rw.target) :
    ∃ sf outs, runIters c init ts = some (sf, outs) ∧ (∀ o ∈ outs, o.beta = 0) ∧ outs.length = ts.length ∧
      (∀ b ∈ batches sf.hist, b.beta = 0) ∧
      lin (batches sf.hist) = Model.Warmup.run batchZ [] (ts.map sizes) := by
  obtain ⟨sf, outs, h1, h2, h3, h4, h5⟩ := warm_runIters c hvv ts init winv_init hts
    (fun k hk hor => by
      rcases hor with h | h
      · exact absurd rfl h
      · simpa [init, batches, nTotal] using hpool k h hk)
  exact ⟨sf, outs, h1, h3, h4, h2.hist0, by simpa [init, batches, lin] using h5⟩

/-- non-vacuity: n_particles = 2, ess_ratio = 3/2 (target 3): two warm-up iterations, the first with one -inf draw; the
    committed evidences are those of `run batchZ [] [(2,1),(2,2)]` = 1/2, 1/2 -/
example : ∃ sf outs, runIters (⟨⟨3 / 2, 2, none, 1 / 100, 1 / 10000, 20⟩, true⟩ : PCfg ℝ) init
      [⟨[0, 1], [some (-1), none], [0], [], []⟩, ⟨[2, 3], [some (-2), some (-3)], [], [], []⟩] = some (sf, outs) ∧
    (∀ o ∈ outs, o.beta = 0) ∧ outs.length = 2 ∧ (∀ b ∈ batches sf.hist, b.beta = 0) ∧
    lin (batches sf.hist) = Model.Warmup.run batchZ [] [(2, 1), (2, 2)] := by
  have := C11_pipeline_warmup (⟨⟨3 / 2, 2, none, 1 / 100, 1 / 10000, 20⟩, true⟩ : PCfg ℝ) rfl
    [⟨[0, 1], [some (-1), none], [0], [], []⟩, ⟨[2, 3], [some (-2), some (-3)], [], [], []⟩]
    (by
      intro t ht
      simp only [List.mem_cons, List.mem_nil_iff, or_false] at ht
      rcases ht with rfl | rfl
      · exact ⟨by simp [countSome], by simp [infIdx, List.range_succ], by simp⟩
      · exact ⟨by simp [countSome], by simp [infIdx, List.range_succ], by simp⟩)
    (by
      intro k hk0 hk
      have : k = 1 := by simp at hk; omega
      subst this
      simp [Model.Reweight.Cfg.target]; norm_num)
  simpa [sizes, countSome] using this

/-- … hence on the pipeline model itself: if the first batch had -inf draws and every batch with -inf draws has its finite
    fraction in `[lo, hi]`, every committed warm-up evidence satisfies `log lo ≤ logz_t ≤ log hi`, whatever the number of
    warm-up iterations and the batch sizes -/
theorem C11_pipeline_once (c : PCfg ℝ) (hvv : c.rw.vv = none) (t0 : Tape ℝ) (ts : List (Tape ℝ))
    (hts : ∀ t ∈ t0 :: ts, TapeOk t)
    (hpool : ∀ k, 0 < k → k < (t0 :: ts).length →
      ((((t0 :: ts).take k).map fun t => t.drawL.length).sum : ℝ) ≤ c.rw.target)
    (lo hi : ℝ) (hlo : 0 < lo) (hfirst : countSome t0.drawL < t0.drawL.length)
    (hb : ∀ t ∈ t0 :: ts, BatchOk lo hi (sizes t)) :
    ∃ sf outs, runIters c init (t0 :: ts) = some (sf, outs) ∧
      ∀ b ∈ batches sf.hist, b.beta = 0 ∧ Real.log lo ≤ b.logz ∧ b.logz ≤ Real.log hi := by
  obtain ⟨sf, outs, h1, _, _, h4, h5⟩ := C11_pipeline_warmup c hvv (t0 :: ts) hts hpool
  refine ⟨sf, outs, h1, ?_⟩
  intro b hb'
  have hmem : ((b.logl.length, Real.exp b.logz) : Nat × ℝ) ∈ lin (batches sf.hist) := by
    simp only [lin, List.mem_map]; exact ⟨b, hb', rfl⟩
  rw [h5] at hmem
  have := C11_once lo hi hlo t0.drawL.length (countSome t0.drawL) hfirst (ts.map sizes)
    (by
      intro q hq
      simp only [List.mem_cons, List.mem_map] at hq
      rcases hq with rfl | ⟨t, ht, rfl⟩
      · exact hb t0 (by simp)
      · exact hb t (by simp [ht])) _ (by simpa [sizes] using hmem)
  simp only at this
  refine ⟨h4 b hb', ?_, ?_⟩
  · have := Real.log_le_log hlo this.1; rwa [Real.log_exp] at this
  · have := Real.log_le_log (Real.exp_pos _) this.2; rwa [Real.log_exp] at this

end Props.C11
