import TempestVerif.Gen.Shift
import TempestVerif.Gen.Tables
/-
  C10 — the places where an ABSOLUTE log-likelihood value could enter a run, read from the source as it is now.

  `Gen/Shift.lean` and `Gen/Tables.lean` are regenerated from /repo on every run of the check (translators G9, G5).  The
  closed-loop model (`Model/ClosedLoop.lean`) treats the trainer, the stop rule of the mutation loop, the step-size
  adaptation, `volume_variation` and `_not_termination` as functions of shift-invariant data only, and takes every
  log-weight array in its NORMALISED, max-shifted form.  The theorems below say that the source agrees; if an edit makes
  one of them false the module no longer builds, the obligation breaks and the failing-input search runs.
-/
namespace Props.C10Source

/-- every call of `compute_logw_and_logz` in core.py / steps/reweight.py leaves `normalize` at its default (True): the
    log-weights read by the ESS, the metric, the guard and `posterior()` are the normalised ones (`C04_shift`, 2nd clause) -/
theorem C10_src_logw_normalised : ∀ c ∈ Gen.Shift.logwCalls, c.2.2 = "default" := by decide

/-- … and every exponential of a log-weight array is taken after subtracting its maximum -/
theorem C10_src_weight_exps : ∀ e ∈ Gen.Shift.weightExps, e.2 = "logw - np.max(logw)" := by decide

/-- the functions the model treats as functions of shift-invariant data read neither `logl` nor `logz` from the state -/
theorem C10_src_no_likelihood_reads :
    (∀ r ∈ Gen.Shift.stateReads, r.2 ≠ "logl" ∧ r.2 ≠ "logz" ∧ r.2 ≠ "*") ∧
    (∀ r ∈ Gen.Tables.trainerReads, r ≠ "logl" ∧ r ≠ "logz" ∧ r ≠ "*") := by decide

/-- the stop rule of the mutation loop and the step-size adaptation read no log-likelihood attribute -/
theorem C10_src_stop_rule_reads : ∀ r ∈ Gen.Shift.attrReads, r.2 ≠ "logl" ∧ r.2 ≠ "logl_prime" ∧ r.2 ≠ "beta" := by decide

/-- `volume_variation` is called with the pool's `u` and the max-shifted weights renormalised to sum one -/
theorem C10_src_vv_args :
    Gen.Shift.vvArgs = [("u", "self.state.get_history('u', flat=True)"), ("weights_norm", "weights / np.sum(weights)")] ∧
    ("weights", "np.exp(logw - np.max(logw))") ∈ Gen.Shift.metricLocals ∧
    ("logw", "self.state.compute_logw_and_logz(beta)[0]") ∈ Gen.Shift.metricLocals := by decide

/-- inside one accept/reject step the log-likelihood arrays are used in exactly one arithmetic expression, the
    difference `logl_prime - self.logl`; they are also handed to `_compute_acceptance_factor`, whose two implementations
    do not read them -/
theorem C10_src_mcmc_logl_uses :
    Gen.Shift.mcmcLoglUses = ["logl_prime - self.logl", "self._compute_acceptance_factor(u_prime, logl_prime)"] ∧
    Gen.Shift.factorReadsLogl = [] := by decide

/-- the proposal generators mention no log-likelihood -/
theorem C10_src_propose_reads : Gen.Shift.proposeReadsLogl = [] := by decide

/-- `Mutator.run` inspects the log-likelihoods only through `np.isinf` (the redraw test `np.all(np.isinf(logl))` and the
    masks derived from it); everything else is storing them -/
theorem C10_src_mutator_logl_uses :
    Gen.Shift.mutatorLoglUses = ["np.any(inf_logl_mask)", "np.isinf(logl)", "self.state.set_current('logl', logl)",
      "self.state.update_current({'u': u, 'x': x, 'logl': logl, 'blobs': blobs, 'ass...",
      "self.state.update_current({'u': u, 'x': x, 'logl': logl, 'efficiency': effici...", "~inf_logl_mask"] := by decide

end Props.C10Source
