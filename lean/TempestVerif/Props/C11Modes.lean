import TempestVerif.Props.C11Pipeline
import TempestVerif.Props.C05
import Mathlib.Tactic
/-
  C11 (second pass) — "counted once, however many prior-sampling iterations occur" in BOTH reweighting modes.

  The first pass proved `C11_pipeline_warmup` for `volume_variation = None` only (ESS mode), because `Model.Pipeline`'s
  metric oracle is the ESS.  In volume-variation mode `Reweighter.run` first computes the ESS upper limit
  (`_find_beta_upper_limit`); while the pool is STRICTLY below the ESS target that limit is `beta_prev` itself, the code
  takes the branch "can't advance — stay at current beta" (`dynStuck`) and never looks at the volume metric.  So the
  prior-sampling phase is the same in both modes:

    upperLimit_stay          ESS(β_prev) < target ⇒ `_find_beta_upper_limit` returns β_prev
    warm_reweight_gen        reweighting over an all-β=0 history with the pool below the target: β stays 0 and the evidence
                             written is `log reweightZ` — ESS mode (pool ≤ target) or volume-variation mode (pool < target)
    C11_pipeline_warmup_gen  any number of `iterate` steps from `init`, either mode: all succeed, all at β = 0, committed
                             `(n_t, exp logz_t)` = `Model.Warmup.run batchZ`
    C11_pipeline_once_gen    … hence the counted-once envelope in log space, either mode
-/
namespace Props.C11
open Model.Pipeline Model.Weights Model.Records Model.Warmup Props.C04

/-- the pool is small enough for the reweighter to stay at β = 0: at most the ESS target in ESS mode, strictly below it in
    either mode -/
def PoolOk (c : Model.Reweight.Cfg ℝ) (N : ℝ) : Prop := (c.vv = none ∧ N ≤ c.target) ∨ N < c.target

theorem upperLimit_stay {W : Type} (M : ℝ → W × ℝ × ℝ) (target tol : ℝ) (fuel : Nat) (prev : ℝ)
    (h : (M prev).2.1 < target) : (Model.Reweight.upperLimit M target tol fuel prev).beta = prev := by
  simp [Model.Reweight.upperLimit, h]

/-- what the reweighting step writes in the prior-sampling phase, in either mode -/
theorem warm_reweight_gen (c : Model.Reweight.Cfg ℝ) (h : List (Batch ℝ))
    (h0 : ∀ b ∈ h, b.beta = 0) (hn : ∀ b ∈ h, 1 ≤ b.logl.length)
    (hpool : h ≠ [] → PoolOk c (nTotal h : ℝ)) :
    let r := Model.Reweight.run c h.isEmpty (oracleM h) (oracleZ h) isFin 0
    r.beta = 0 ∧ r.logz = Real.log (reweightZ (lin h)) := by
  intro r
  cases hv : c.vv with
  | none =>
    refine warm_reweight c hv h h0 hn (fun hne => ?_)
    rcases hpool hne with ⟨_, hle⟩ | hlt
    · exact hle
    · exact hlt.le
  | some v =>
    cases hh : h with
    | nil =>
      subst hh
      simp [r, Model.Reweight.run, lin, reweightZ]
    | cons b0 bs =>
      have hne : h ≠ [] := by rw [hh]; simp
      have hwf : WF h := ⟨hne, hn⟩
      have hemp : h.isEmpty = false := by rw [hh]; rfl
      have hess := Props.C05.C05_warmup_ess h hwf h0
      have hlt : (nTotal h : ℝ) < c.target := by
        rcases hpool hne with ⟨hnone, _⟩ | hlt
        · rw [hv] at hnone; cases hnone
        · exact hlt
      have hr : r = Model.Reweight.runDyn (oracleM h) (oracleZ h) isFin c.target v c.tolE c.tolB c.fuel 0 := by
        simp [r, Model.Reweight.run, hv, hemp]
      have hz : oracleZ h 0 = Real.log (reweightZ (lin h)) := by
        have := C11_reweight_bridge h hwf h0 true
        simp only [oracleZ, ScReal.zero_def] at *
        rw [this]; rfl
      have hup : (Model.Reweight.upperLimit (oracleM h) c.target c.tolB c.fuel 0).beta = 0 :=
        upperLimit_stay (oracleM h) c.target c.tolB c.fuel 0 (by rw [hess]; exact hlt)
      rw [← hh]
      rcases Props.C05.runDyn_cases (oracleM h) (oracleZ h) isFin c.target v c.tolE c.tolB c.fuel 0
        with ⟨_, e⟩ | ⟨hne', _⟩ | ⟨hne', _⟩ | ⟨hne', _⟩
      · rw [hr, e]; simp [Model.Reweight.finalize, hz]
      · exact absurd hup hne'
      · exact absurd hup hne'
      · exact absurd hup hne'

/-- one warm-up iteration of the pipeline model, either mode -/
theorem warm_iterate_gen (c : PCfg ℝ) (s : PState ℝ) (hs : WInv s) (t : Tape ℝ) (ht : TapeOk t)
    (hpool : s.hist ≠ [] → PoolOk c.rw (nTotal (batches s.hist) : ℝ)) :
    ∃ s' o, iterate c s t = some (s', o) ∧ WInv s' ∧ o.beta = 0 ∧
      lin (batches s'.hist) = lin (batches s.hist) ++
        [(t.drawL.length, batchZ (lin (batches s.hist)) t.drawL.length (countSome t.drawL))] ∧
      nTotal (batches s'.hist) = nTotal (batches s.hist) + t.drawL.length := by
  have hpool' : batches s.hist ≠ [] → PoolOk c.rw (nTotal (batches s.hist) : ℝ) := by
    intro hne; apply hpool; intro he; apply hne; simp [batches, he]
  obtain ⟨hrb, hrz⟩ := warm_reweight_gen c.rw (batches s.hist) hs.hist0 hs.npos hpool'
  obtain ⟨l, hl, hlen, _⟩ := C11_warmup_all_finite t
    (Model.Reweight.run c.rw (batches s.hist).isEmpty (oracleM (batches s.hist)) (oracleZ (batches s.hist)) isFin 0).logz
    ht.fin ht.picks
  have hnpos : 0 < t.drawL.length := lt_of_lt_of_le ht.fin List.countP_le_length
  have hposL := lin_pos (batches s.hist) hs.npos
  -- the evidence committed with the batch, in linear space
  have hexp : Real.exp (warmup t (Model.Reweight.run c.rw (batches s.hist).isEmpty (oracleM (batches s.hist))
        (oracleZ (batches s.hist)) isFin 0).logz).2.2
      = batchZ (lin (batches s.hist)) t.drawL.length (countSome t.drawL) := by
    rw [warmup_logz, hrz]
    unfold batchZ
    split
    · simp only [ScReal.log_def, ScReal.div_def, ScReal.ofNat_def]
      rw [Real.exp_log]
      have h1 : (0 : ℝ) < (countSome t.drawL : ℝ) := by exact_mod_cast ht.fin
      have h2 : (0 : ℝ) < (t.drawL.length : ℝ) := by exact_mod_cast hnpos
      positivity
    · exact Real.exp_log (reweightZ_pos _ hposL.1 hposL.2)
  unfold iterate
  simp only [hs.beta0]
  have heq : Model.Reweight.eqv (Model.Reweight.run c.rw (batches s.hist).isEmpty (oracleM (batches s.hist))
      (oracleZ (batches s.hist)) isFin (0 : ℝ)).beta Sc.zero = true := by
    rw [hrb]; simp [Model.Reweight.eqv]
  simp only [ScReal.zero_def] at heq ⊢
  rw [if_pos heq]
  rw [hl]
  refine ⟨_, _, rfl, ⟨hrb, ?_, ?_⟩, hrb, ?_, ?_⟩
  · intro b hb
    simp only [batches, List.map_append, List.mem_append, List.map_cons, List.map_nil, List.mem_singleton] at hb
    rcases hb with hb | rfl
    · exact hs.hist0 b hb
    · exact hrb
  · intro b hb
    simp only [batches, List.map_append, List.mem_append, List.map_cons, List.map_nil, List.mem_singleton] at hb
    rcases hb with hb | rfl
    · exact hs.npos b hb
    · simp only [hlen]; omega
  · rw [← hexp]; simp [batches, lin, hlen]
  · simp only [batches, List.map_append, List.map_cons, List.map_nil]
    rw [nTotal_append]; simp [hlen]


/-- any number of warm-up iterations, either mode -/
theorem warm_runIters_gen (c : PCfg ℝ) (ts : List (Tape ℝ)) :
    ∀ s : PState ℝ, WInv s → (∀ t ∈ ts, TapeOk t) →
      (∀ k, k < ts.length → (s.hist ≠ [] ∨ 0 < k) →
        PoolOk c.rw ((nTotal (batches s.hist) : ℝ) + (((ts.take k).map fun t => t.drawL.length).sum : ℝ))) →
      ∃ sf outs, runIters c s ts = some (sf, outs) ∧ WInv sf ∧ (∀ o ∈ outs, o.beta = 0) ∧ outs.length = ts.length ∧
        lin (batches sf.hist) = Model.Warmup.run batchZ (lin (batches s.hist)) (ts.map sizes) := by
  induction ts with
  | nil => intro s hs _ _; exact ⟨s, [], rfl, hs, by simp, rfl, by simp [Model.Warmup.run]⟩
  | cons t ts ih =>
    intro s hs hts hpool
    obtain ⟨s', o, hit, hs', hob, hlin, hnt⟩ := warm_iterate_gen c s hs t (hts t (by simp))
      (fun hne => by simpa using hpool 0 (by simp) (Or.inl hne))
    have hne' : s'.hist ≠ [] := by
      intro he
      have : lin (batches s'.hist) = [] := by simp [he, batches, lin]
      rw [hlin] at this; simp at this
    obtain ⟨sf, outs, hrun, hsf, hbeta, hlen, hfin⟩ := ih s' hs' (fun t' ht' => hts t' (by simp [ht']))
      (fun k hk _ => by
        have := hpool (k + 1) (by simpa using hk) (Or.inr (by omega))
        rw [hnt]; push_cast
        simp only [List.take_succ_cons, List.map_cons, List.sum_cons] at this
        have e : (nTotal (batches s.hist) : ℝ) + ((t.drawL.length : ℝ) + ((List.map (fun t => (t.drawL.length : ℝ)) (List.take k ts)).sum))
            = (nTotal (batches s.hist) : ℝ) + (t.drawL.length : ℝ) + (List.map (fun t => (t.drawL.length : ℝ)) (List.take k ts)).sum := by ring
        simpa [e, add_assoc] using this)
    refine ⟨sf, o :: outs, ?_, hsf, ?_, by simp [hlen], ?_⟩
    · simp [runIters, hit, hrun]
    · intro o' ho'
      rcases List.mem_cons.mp ho' with rfl | ho'
      · exact hob
      · exact hbeta o' ho'
    · rw [hfin, hlin]; simp [Model.Warmup.run, sizes]

/-- C11 (pipeline, counted once, BOTH reweighting modes): run ANY number of iterations of the pipeline model from the initial
    state on tapes whose batches each have a finite draw, the pool before each iteration below the ESS target (`≤` in ESS
    mode, `<` in volume-variation mode).  Then every iteration succeeds, every iteration is at beta = 0, and the committed
    `(n_t, exp logz_t)` are exactly the evidences of the linear-space model `run batchZ` — the volume metric is never
    consulted. -/
theorem C11_pipeline_warmup_gen (c : PCfg ℝ) (ts : List (Tape ℝ)) (hts : ∀ t ∈ ts, TapeOk t)
    (hpool : ∀ k, 0 < k → k < ts.length → PoolOk c.rw (((ts.take k).map fun t => t.drawL.length).sum : ℝ)) :
    ∃ sf outs, runIters c init ts = some (sf, outs) ∧ (∀ o ∈ outs, o.beta = 0) ∧ outs.length = ts.length ∧
      (∀ b ∈ batches sf.hist, b.beta = 0) ∧
      lin (batches sf.hist) = Model.Warmup.run batchZ [] (ts.map sizes) := by
  obtain ⟨sf, outs, h1, h2, h3, h4, h5⟩ := warm_runIters_gen c ts init winv_init hts
    (fun k hk hor => by
      rcases hor with h | h
      · exact absurd rfl h
      · simpa [init, batches, nTotal] using hpool k h hk)
  exact ⟨sf, outs, h1, h3, h4, h2.hist0, by simpa [init, batches, lin] using h5⟩

/-- … hence the counted-once envelope on the pipeline model in either mode -/
theorem C11_pipeline_once_gen (c : PCfg ℝ) (t0 : Tape ℝ) (ts : List (Tape ℝ))
    (hts : ∀ t ∈ t0 :: ts, TapeOk t)
    (hpool : ∀ k, 0 < k → k < (t0 :: ts).length →
      PoolOk c.rw ((((t0 :: ts).take k).map fun t => t.drawL.length).sum : ℝ))
    (lo hi : ℝ) (hlo : 0 < lo) (hfirst : countSome t0.drawL < t0.drawL.length)
    (hb : ∀ t ∈ t0 :: ts, BatchOk lo hi (sizes t)) :
    ∃ sf outs, runIters c init (t0 :: ts) = some (sf, outs) ∧
      ∀ b ∈ batches sf.hist, b.beta = 0 ∧ Real.log lo ≤ b.logz ∧ b.logz ≤ Real.log hi := by
  obtain ⟨sf, outs, h1, _, _, h4, h5⟩ := C11_pipeline_warmup_gen c (t0 :: ts) hts hpool
  refine ⟨sf, outs, h1, ?_⟩
  intro b hb'
  have hmem : ((b.logl.length, Real.exp b.logz) : Nat × ℝ) ∈ lin (batches sf.hist) := by
    simp only [lin, List.mem_map]; exact ⟨b, hb', rfl⟩
  rw [h5] at hmem
  have := C11_once lo hi hlo t0.drawL.length (countSome t0.drawL) hfirst (ts.map sizes)
    (by
      intro q hq
      simp only [List.mem_cons, List.mem_map] at hq
      rcases hq with rfl | ⟨t, ht, rfl⟩
      · exact hb t0 (by simp)
      · exact hb t (by simp [ht])) _ (by simpa [sizes] using hmem)
  simp only at this
  refine ⟨h4 b hb', ?_, ?_⟩
  · have := Real.log_le_log hlo this.1; rwa [Real.log_exp] at this
  · have := Real.log_le_log (Real.exp_pos _) this.2; rwa [Real.log_exp] at this

/-- non-vacuity in VOLUME-VARIATION mode (`volume_variation = 1/2`): n_particles = 2, ess_ratio = 3/2 (target 3): two
    warm-up iterations, the first with one -inf draw; the committed evidences are 1/2, 1/2 -/
example : ∃ sf outs, runIters (⟨⟨3 / 2, 2, some (1 / 2), 1 / 100, 1 / 10000, 20⟩, true⟩ : PCfg ℝ) init
      [⟨[0, 1], [some (-1), none], [0], [], []⟩, ⟨[2, 3], [some (-2), some (-3)], [], [], []⟩] = some (sf, outs) ∧
    (∀ o ∈ outs, o.beta = 0) ∧ outs.length = 2 ∧ (∀ b ∈ batches sf.hist, b.beta = 0) ∧
    lin (batches sf.hist) = Model.Warmup.run batchZ [] [(2, 1), (2, 2)] := by
  have := C11_pipeline_warmup_gen (⟨⟨3 / 2, 2, some (1 / 2), 1 / 100, 1 / 10000, 20⟩, true⟩ : PCfg ℝ)
    [⟨[0, 1], [some (-1), none], [0], [], []⟩, ⟨[2, 3], [some (-2), some (-3)], [], [], []⟩]
    (by
      intro t ht
      simp only [List.mem_cons, List.mem_nil_iff, or_false] at ht
      rcases ht with rfl | rfl
      · exact ⟨by simp [countSome], by simp [infIdx, List.range_succ], by simp⟩
      · exact ⟨by simp [countSome], by simp [infIdx, List.range_succ], by simp⟩)
    (by
      intro k hk0 hk
      have : k = 1 := by simp at hk; omega
      subst this
      right
      simp [Model.Reweight.Cfg.target]; norm_num)
  simpa [sizes, countSome] using this

end Props.C11
