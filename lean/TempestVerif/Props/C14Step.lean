import TempestVerif.Model.TrainStep
import TempestVerif.Props.C14Valid
import TempestVerif.Props.C15Hier
import TempestVerif.Props.C20Sites
/-
  C14, second pass — the statement over ONE WHOLE annealing iteration (`Model.TrainStep.annealIter`: Trainer.run →
  Resampler.run → head of Mutator.run), first for arbitrary components under their contracts (`C14_iteration_generic`),
  then with the components instantiated by the executable models of the other properties, where every contract is a theorem
  (`C14_iteration_model`):

      trimming            `Model.TrimSites.trainerRun`          C20  `C20_trainer_site`      (the training pool is NON-EMPTY)
      clusterer.fit       `Model.HFit.hfit`                      C15  `C15_hfit_cap`          (1 ≤ K_fit ≤ max_iterations + 1)
      clusterer.predict   `Model.HFit.hpredict`                  C15  `C15_hfit_predict_range` (one label < K_fit per point)
      from_particles      `Model.StudentModes.fromParticles`     C19/C14 `C14_object_valid`
      constructor         `Model.ModeGate.construct`             C14  (gate = positive definiteness on PSD input)
      mode_index          `Model.Modes.modeIndexD` on squared distances   C14 `C14_labels_full_argmin`

  This discharges the hypothesis "non-empty training pool" of the first-pass label theorems and the bound hypothesis of the
  cap theorem: `K_modes ≤ K_fit ≤ n_max_clusters` for every value of the cap.
-/
namespace Props.C14
open Model.Modes Model.TrainStep

/-! ### generic components -/

section Generic
variable {P W F O D : Type} [Sc D]

theorem mapIndex_spec (stored : List Nat) (dist : P → List D) :
    ∀ (us : List P) (as : List Nat) (act : List (Active P)), mapIndex stored dist us as = some act →
      act.length = us.length ∧ act.map (·.u) = us ∧ act.map (·.raw) = as ∧
      ∀ x ∈ act, modeIndexD stored (dist x.u) x.raw = some x.index ∧ stored[x.index]? = some x.label := by
  intro us
  induction us with
  | nil =>
    intro as act h
    cases as with
    | nil => simp [mapIndex] at h; subst h; simp
    | cons a as => simp [mapIndex] at h
  | cons u us ih =>
    intro as act h
    cases as with
    | nil => simp [mapIndex] at h
    | cons a as =>
      simp only [mapIndex] at h
      cases h1 : modeIndexD stored (dist u) a with
      | none => simp [h1] at h
      | some i =>
        cases h2 : mapIndex stored dist us as with
        | none => simp [h1, h2] at h
        | some r =>
          simp only [h1, h2] at h
          cases h3 : stored[i]? with
          | none => simp [h3] at h
          | some l =>
            simp [h3] at h
            subst h
            obtain ⟨e1, e2, e3, e4⟩ := ih as r h2
            refine ⟨by simp [e1], by simp [e2], by simp [e3], ?_⟩
            intro x hx
            simp only [List.mem_cons] at hx
            rcases hx with rfl | hx
            · exact ⟨h1, h3⟩
            · exact e4 x hx

/-- everything `annealIter` did, read off its result -/
theorem annealIter_some (pt : Parts P W F O D) (prev : Option F) (mustFit : Bool) (hist : List P) (w : List W)
    (idx : List Nat) (out : Out P W F O) (h : annealIter pt prev mustFit hist w idx = some out) :
    pt.trim hist w = some (out.trainU, out.trainW) ∧
    (if mustFit then pt.cfit out.trainU out.trainW else prev) = some out.clf ∧
    pt.cpredict out.clf out.trainU = some out.trainLabels ∧
    pt.build out.trainU out.trainW out.trainLabels = some out.obj ∧
    ∃ ures raw, Model.Records.gather? hist idx = some ures ∧ pt.cpredict out.clf ures = some raw ∧
      mapIndex (pt.stored out.obj) (pt.dist out.obj) ures raw = some out.active := by
  unfold annealIter at h
  cases h1 : pt.trim hist w with
  | none => simp [h1] at h
  | some r =>
    obtain ⟨u, wt⟩ := r
    simp only [h1] at h
    unfold annealCore at h
    cases h2 : (if mustFit then pt.cfit u wt else prev) with
    | none => simp [h2] at h
    | some f =>
      simp only [h2] at h
      cases h3 : pt.cpredict f u with
      | none => simp [h3] at h
      | some labels =>
        simp only [h3] at h
        cases h4 : pt.build u wt labels with
        | none => simp [h4] at h
        | some o =>
          simp only [h4] at h
          cases h5 : Model.Records.gather? hist idx with
          | none => simp [h5] at h
          | some ures =>
            simp only [h5] at h
            cases h6 : pt.cpredict f ures with
            | none => simp [h6] at h
            | some raw =>
              simp only [h6] at h
              cases h7 : mapIndex (pt.stored o) (pt.dist o) ures raw with
              | none => simp [h7] at h
              | some act =>
                simp [h7] at h
                subst h
                exact ⟨rfl, h2, h3, h4, ures, raw, rfl, h6, h7⟩

/-- the number of modes never exceeds the number of fitted clusters: labels `< K_fit` give at most `K_fit` distinct ones -/
theorem numModes_le_of_lt (labels : List Nat) (K : Nat) (h : ∀ l ∈ labels, l < K) : numModes labels ≤ K := by
  rw [numModes_eq]
  have hp := pairwise_uniqueSorted labels
  have hsub : ∀ x ∈ uniqueSorted labels, x ∈ List.range K := fun x hx =>
    List.mem_range.2 (h x ((mem_uniqueSorted labels x).1 hx))
  have hnd : (uniqueSorted labels).Nodup := hp.imp (fun h => Nat.ne_of_lt h)
  have := List.Nodup.length_le_of_subset hnd (fun x hx => hsub x hx)
  simpa using this

/-- **C14 over one iteration, for any components honouring their contracts.**  `Good f` = "`f` is a fit of this clusterer"
    (what `cfit` returns, and what the object held before); `Kfit f` = its number of clusters.  If the iteration completes then
    the training pool and its label vector are non-empty; the training labels and the raw assignments of the active particles
    are predictions of the SAME fitted clusterer `out.clf`, all `< Kfit`; `K_modes ≤ Kfit`; and for every active particle the
    index handed to the kernel is `< K_modes`, its (re)label is carried by a training particle, the mode at that index was built
    from exactly the training particles carrying that label, and a raw label that has a mode is kept. -/
theorem C14_iteration_generic (pt : Parts P W F O D) (Good : F → Prop) (Kfit : F → Nat)
    (prev : Option F) (mustFit : Bool) (hist : List P) (w : List W)
    (idx : List Nat) (out : Out P W F O)
    (hTrim : ∀ u wt, pt.trim hist w = some (u, wt) → u ≠ [])
    (hFit : ∀ u wt f, pt.cfit u wt = some f → Good f) (hPrev : ∀ f, prev = some f → Good f)
    (hPred : ∀ f X l, Good f → pt.cpredict f X = some l → l.length = X.length ∧ ∀ x ∈ l, x < Kfit f)
    (hBuild : ∀ u wt labels o, pt.build u wt labels = some o →
      pt.stored o = labelsOf labels ∧ ∀ p, (pt.dist o p).length = (pt.stored o).length)
    (h : annealIter pt prev mustFit hist w idx = some out) :
    Good out.clf ∧ out.trainU ≠ [] ∧ out.trainLabels.length = out.trainU.length ∧ out.trainLabels ≠ [] ∧
    pt.cpredict out.clf out.trainU = some out.trainLabels ∧
    pt.cpredict out.clf (out.active.map (·.u)) = some (out.active.map (·.raw)) ∧
    Model.Records.gather? hist idx = some (out.active.map (·.u)) ∧
    numModes out.trainLabels ≤ Kfit out.clf ∧
    ∀ x ∈ out.active,
      x.raw < Kfit out.clf ∧
      x.index < numModes out.trainLabels ∧ (labelsOf out.trainLabels)[x.index]? = some x.label ∧
      x.label ∈ out.trainLabels ∧
      modeOfRaw (fromParticles out.trainLabels) x.index = some (indicesOf out.trainLabels x.label) ∧
      indicesOf out.trainLabels x.label ≠ [] ∧ (x.raw ∈ out.trainLabels → x.label = x.raw) := by
  obtain ⟨h1, h2, h3, h4, ures, raw, h5, h6, h7⟩ := annealIter_some pt prev mustFit hist w idx out h
  have hgood : Good out.clf := by
    cases mustFit with
    | true => exact hFit _ _ _ (by simpa using h2)
    | false => exact hPrev _ (by simpa using h2)
  have hu := hTrim _ _ h1
  obtain ⟨hl, hrange⟩ := hPred _ _ _ hgood h3
  have hne : out.trainLabels ≠ [] := by
    intro h0; rw [h0] at hl; exact hu (List.length_eq_zero_iff.1 hl.symm)
  obtain ⟨hst, hDist⟩ := hBuild _ _ _ _ h4
  obtain ⟨_, e2, e3, e4⟩ := mapIndex_spec _ _ ures raw out.active h7
  obtain ⟨_, hrawrange⟩ := hPred _ _ _ hgood h6
  refine ⟨hgood, hu, hl, hne, h3, by rw [e2, e3]; exact h6, by rw [e2]; exact h5,
    numModes_le_of_lt _ _ hrange, ?_⟩
  intro x hx
  obtain ⟨hi, hlab⟩ := e4 x hx
  rw [hst] at hi hlab
  obtain ⟨i, l, hD, hlt, hl', hmem, hmode, _, hne', hkeep⟩ :=
    C14_labels_full_argmin out.trainLabels hne (pt.dist out.obj x.u)
      (by rw [hDist, hst, numModes_eq]; rfl) x.raw
  rw [hD] at hi
  have hix : i = x.index := Option.some.inj hi
  subst hix
  rw [hl'] at hlab
  have hlx : l = x.label := Option.some.inj hlab
  subst hlx
  refine ⟨hrawrange _ ?_, hlt, hl', hmem, hmode, hne', hkeep⟩
  rw [← e3]
  exact List.mem_map.2 ⟨x, hx, rfl⟩


/-- **particle by particle** (seeded change C14f): if the clusterer labels every point by itself — `predict` is a map over the rows
    of its argument, H_pointwise, checked on the real `HierarchicalGaussianMixture.predict` by suite `predict-batch-independence`
    every run — then an active particle that is also the `j`-th training particle carries, as raw label, the very label the
    Trainer gave it; that label has a mode, is kept, and the particle itself is one of the particles its mode was built from. -/
theorem C14_particlewise_coherent (pt : Parts P W F O D) (Good : F → Prop) (Kfit : F → Nat)
    (prev : Option F) (mustFit : Bool) (hist : List P) (w : List W) (idx : List Nat) (out : Out P W F O)
    (hTrim : ∀ u wt, pt.trim hist w = some (u, wt) → u ≠ [])
    (hFit : ∀ u wt f, pt.cfit u wt = some f → Good f) (hPrev : ∀ f, prev = some f → Good f)
    (hPred : ∀ f X l, Good f → pt.cpredict f X = some l → l.length = X.length ∧ ∀ x ∈ l, x < Kfit f)
    (hPoint : ∀ f, ∃ lab : P → Nat, ∀ X l, pt.cpredict f X = some l → l = X.map lab)
    (hBuild : ∀ u wt labels o, pt.build u wt labels = some o →
      pt.stored o = labelsOf labels ∧ ∀ p, (pt.dist o p).length = (pt.stored o).length)
    (h : annealIter pt prev mustFit hist w idx = some out) :
    ∀ x ∈ out.active, ∀ j, out.trainU[j]? = some x.u →
      out.trainLabels[j]? = some x.raw ∧ x.label = x.raw ∧ j ∈ indicesOf out.trainLabels x.label ∧
      modeOfRaw (fromParticles out.trainLabels) x.index = some (indicesOf out.trainLabels x.label) := by
  obtain ⟨_, _, _, _, h5, h6, _, _, hact⟩ :=
    C14_iteration_generic pt Good Kfit prev mustFit hist w idx out hTrim hFit hPrev hPred hBuild h
  obtain ⟨lab, hlab⟩ := hPoint out.clf
  have e1 := hlab _ _ h5
  have e2 := hlab _ _ h6
  intro x hx j hj
  have hraw : x.raw = lab x.u := by
    obtain ⟨k, hk, rfl⟩ := List.mem_iff_getElem.1 hx
    have := congrArg (fun l => l[k]?) e2
    simp only [List.getElem?_map, List.map_map] at this
    simpa [List.getElem?_eq_getElem hk] using this
  have htl : out.trainLabels[j]? = some x.raw := by
    rw [e1, List.getElem?_map, hj, hraw]; rfl
  obtain ⟨_, _, _, _, hmode, _, hkeep⟩ := hact x hx
  have hkept : x.label = x.raw := hkeep (List.mem_of_getElem? htl)
  exact ⟨htl, hkept, by rw [hkept]; exact (mem_indicesOf _ _ _).2 htl, hmode⟩

/-! ### every iteration of a run (the flag and the clusterer carried along) -/

/-- the conclusion of `C14_iteration_generic` for one completed iteration -/
def Coherent (pt : Parts P W F O D) (Good : F → Prop) (Kfit : F → Nat) (hist : List P) (idx : List Nat)
    (out : Out P W F O) : Prop :=
  Good out.clf ∧ out.trainU ≠ [] ∧ out.trainLabels.length = out.trainU.length ∧ out.trainLabels ≠ [] ∧
  pt.cpredict out.clf out.trainU = some out.trainLabels ∧
  pt.cpredict out.clf (out.active.map (·.u)) = some (out.active.map (·.raw)) ∧
  Model.Records.gather? hist idx = some (out.active.map (·.u)) ∧
  numModes out.trainLabels ≤ Kfit out.clf ∧
  ∀ x ∈ out.active,
    x.raw < Kfit out.clf ∧
    x.index < numModes out.trainLabels ∧ (labelsOf out.trainLabels)[x.index]? = some x.label ∧
    x.label ∈ out.trainLabels ∧
    modeOfRaw (fromParticles out.trainLabels) x.index = some (indicesOf out.trainLabels x.label) ∧
    indicesOf out.trainLabels x.label ≠ [] ∧ (x.raw ∈ out.trainLabels → x.label = x.raw)

/-- the components carried between iterations are sound: a set flag means a fitted clusterer, and whatever fit the clusterer
    holds was made by this clusterer's `fit` -/
def CompOK (Good : F → Prop) (c : Comp F) : Prop :=
  (c.flag = true → c.clf.isSome = true) ∧ ∀ f, c.clf = some f → Good f

/-- **C14 over a whole run of annealing iterations, nothing assumed about the previous fit.**  Starting from components that
    are sound (in particular from a fresh Trainer and an unfitted clusterer: `⟨false, none⟩`), with ANY `cluster_every`, any
    `iter` values and any pools / weights / resampling draws iteration after iteration: every iteration that completes is
    coherent in the sense of `C14_iteration_generic`, and an iteration is never lost to an unfitted clusterer — when no fit is
    due the clusterer holds one. -/
theorem C14_run_generic (pt : Parts P W F O D) (Good : F → Prop) (Kfit : F → Nat) (ce : Nat)
    (hTrim : ∀ hist w u wt, pt.trim hist w = some (u, wt) → u ≠ [])
    (hFit : ∀ u wt f, pt.cfit u wt = some f → Good f)
    (hPred : ∀ f X l, Good f → pt.cpredict f X = some l → l.length = X.length ∧ ∀ x ∈ l, x < Kfit f)
    (hBuild : ∀ u wt labels o, pt.build u wt labels = some o →
      pt.stored o = labelsOf labels ∧ ∀ p, (pt.dist o p).length = (pt.stored o).length) :
    ∀ (ins : List (IterIn P W)) (c : Comp F), CompOK Good c →
      (∀ io ∈ runAnneal pt ce c ins, Coherent pt Good Kfit io.1.hist io.1.idx io.2) ∧
      (∀ i ∈ ins.head?, mustFit ce c.flag i.iter = false → c.clf.isSome = true) := by
  intro ins
  induction ins with
  | nil => intro c _; simp [runAnneal]
  | cons i is ih =>
    intro c hc
    refine ⟨?_, ?_⟩
    · intro io hio
      simp only [runAnneal] at hio
      cases hit : iterate pt ce c i with
      | none => simp [hit] at hio
      | some r =>
        obtain ⟨c', o⟩ := r
        simp only [hit, List.mem_cons] at hio
        unfold iterate at hit
        cases ha : annealIter pt c.clf (mustFit ce c.flag i.iter) i.hist i.w i.idx with
        | none => simp [ha] at hit
        | some o' =>
          simp only [ha, Option.map_some, Option.some.injEq, Prod.mk.injEq] at hit
          obtain ⟨hc', ho⟩ := hit
          subst ho
          have hcoh : Coherent pt Good Kfit i.hist i.idx o' :=
            C14_iteration_generic pt Good Kfit c.clf (mustFit ce c.flag i.iter) i.hist i.w i.idx o'
              (hTrim i.hist i.w) hFit hc.2 hPred hBuild ha
          rcases hio with rfl | hio
          · exact hcoh
          · have hc'ok : CompOK Good c' := by
              rw [← hc']
              exact ⟨fun _ => rfl, fun f hf => by rw [← Option.some.inj hf]; exact hcoh.1⟩
            exact (ih c' hc'ok).1 io hio
    · intro i' hi' hmf
      simp only [List.head?_cons, Option.mem_def, Option.some.injEq] at hi'
      subst hi'
      apply hc.1
      simp only [mustFit, Bool.or_eq_false_iff, Bool.not_eq_false'] at hmf
      exact hmf.2

/-- every iteration a run completes is an `annealIter` whose "previous fit" was made by this clusterer's `fit` (or is absent) -/
theorem runAnneal_steps (pt : Parts P W F O D) (Good : F → Prop) (ce : Nat)
    (hFit : ∀ u wt f, pt.cfit u wt = some f → Good f) :
    ∀ (ins : List (IterIn P W)) (c : Comp F), (∀ f, c.clf = some f → Good f) →
      ∀ io ∈ runAnneal pt ce c ins, io.1 ∈ ins ∧ ∃ prev mf, (∀ f, prev = some f → Good f) ∧
        annealIter pt prev mf io.1.hist io.1.w io.1.idx = some io.2 := by
  intro ins
  induction ins with
  | nil => intro c _ io hio; simp [runAnneal] at hio
  | cons i is ih =>
    intro c hc io hio
    simp only [runAnneal] at hio
    cases hit : iterate pt ce c i with
    | none => simp [hit] at hio
    | some r =>
      obtain ⟨c', o⟩ := r
      simp only [hit, List.mem_cons] at hio
      unfold iterate at hit
      cases ha : annealIter pt c.clf (mustFit ce c.flag i.iter) i.hist i.w i.idx with
      | none => simp [ha] at hit
      | some o' =>
        simp only [ha, Option.map_some, Option.some.injEq, Prod.mk.injEq] at hit
        obtain ⟨hc', ho⟩ := hit
        subst ho
        rcases hio with rfl | hio
        · exact ⟨by simp, c.clf, _, hc, ha⟩
        · have hgood : Good o'.clf := by
            obtain ⟨_, h2, _⟩ := annealIter_some pt c.clf _ i.hist i.w i.idx o' ha
            cases hm : mustFit ce c.flag i.iter with
            | true => rw [hm] at h2; exact hFit _ _ _ (by simpa using h2)
            | false => rw [hm] at h2; exact hc _ (by simpa using h2)
          have hc'ok : ∀ f, c'.clf = some f → Good f := by
            rw [← hc']
            intro f hf
            rw [← Option.some.inj hf]; exact hgood
          obtain ⟨h1, h2⟩ := ih c' hc'ok io hio
          exact ⟨by simp [h1], h2⟩

/-- a fresh Trainer with an unfitted clusterer is sound -/
theorem compOK_fresh (Good : F → Prop) : CompOK Good (⟨false, none⟩ : Comp F) := by
  refine ⟨?_, ?_⟩
  · intro h; simp at h
  · intro f h; simp at h

end Generic

/-! ### a label without a mode goes to the NEAREST mode (first minimum of the distance row) -/

section Nearest
open Model.HGMM

theorem argminFrom_spec (xs : List ℝ) : ∀ (i bi : ℕ) (bv : ℝ) (pre : List ℝ), pre.length = i → pre[bi]? = some bv →
    (∀ y ∈ pre, bv ≤ y) → ∃ v, (pre ++ xs)[argminFrom i bi bv xs]? = some v ∧ ∀ y ∈ pre ++ xs, v ≤ y := by
  induction xs with
  | nil =>
    intro i bi bv pre _ hb hmin
    exact ⟨bv, by simpa [argminFrom] using hb, by simpa using hmin⟩
  | cons x xs ih =>
    intro i bi bv pre hlen hb hmin
    simp only [argminFrom]
    have happ : pre ++ x :: xs = (pre ++ [x]) ++ xs := by simp
    rw [happ]
    split
    · rename_i hlt
      have hlt' : x < bv := by simpa using hlt
      refine ih (i + 1) i x (pre ++ [x]) (by simp [hlen]) (by simp [← hlen]) ?_
      intro y hy
      rcases List.mem_append.1 hy with hy | hy
      · exact le_trans hlt'.le (hmin y hy)
      · simp at hy; rw [hy]
    · rename_i hlt
      have hge : bv ≤ x := by
        have : ¬ x < bv := by simpa using hlt
        exact not_lt.mp this
      have hbi : bi < pre.length := by
        by_contra hcon
        rw [List.getElem?_eq_none (by omega)] at hb
        cases hb
      refine ih (i + 1) bi bv (pre ++ [x]) (by simp [hlen]) ?_ ?_
      · rw [List.getElem?_append_left hbi]; exact hb
      · intro y hy
        rcases List.mem_append.1 hy with hy | hy
        · exact hmin y hy
        · simp at hy; rw [hy]; exact hge

/-- `np.argmin(row)` points at a minimum of the row -/
theorem argmin_is_min (row : List ℝ) (k : ℕ) (h : argmin row = some k) : ∃ v, row[k]? = some v ∧ ∀ y ∈ row, v ≤ y := by
  cases row with
  | nil => simp [argmin] at h
  | cons x xs =>
    simp only [argmin, Option.some.injEq] at h
    subst h
    have := argminFrom_spec xs 1 0 x [x] rfl rfl (by simp)
    simpa using this

/-- **a raw label without a mode is sent to the nearest mode**: the index `mode_index` answers points at a minimum of the
    particle's distance row (squared distances: the same minimiser as for the Euclidean norms) -/
theorem C14_missing_label_nearest (stored : List ℕ) (drow : List ℝ) (a i : ℕ) (hmiss : a ∉ stored)
    (h : modeIndexD stored drow a = some i) : ∃ v, drow[i]? = some v ∧ ∀ y ∈ drow, v ≤ y ∧ Real.sqrt v ≤ Real.sqrt y := by
  unfold modeIndexD at h
  simp only at h
  split at h
  · rename_i heq
    exfalso
    apply hmiss
    have : stored[min (searchsorted stored a) (stored.length - 1)]? = some a := by simpa using heq
    exact List.mem_of_getElem? this
  · obtain ⟨v, hv, hmin⟩ := argmin_is_min drow i h
    exact ⟨v, hv, fun y hy => ⟨hmin y hy, Real.sqrt_le_sqrt (hmin y hy)⟩⟩

example : modeIndexD (α := ℝ) [0, 2] [4, 1] 1 = some 1 := by
  simp [modeIndexD, searchsorted, argmin, argminFrom]

end Nearest

/-! ### the components instantiated with the executable models of C20, C15, C19 and C14 -/

section Real
open Model.HFit Model.StudentModes Model.ModeGate Model.Student Props.C19 Matrix

/-- the four components as the other properties model them, at `ℝ` -/
noncomputable def realParts (psi : ℝ → ℝ) (d : ℕ) (hc : HCfg ℝ) (ready : Bool) (e : ℝ) (bins : ℕ) (fb : ℝ) (us : List ℝ)
    (Kf : ℕ) : Parts (List ℝ) ℝ (HFitOut ℝ) (Obj ℝ) ℝ where
  trim := fun u w => match Model.TrimSites.trainerRun false u w e bins with
    | some (some r, _) => some r
    | _ => none
  cfit := fun u wt => hfit hc u wt
  cpredict := fun f X => mapOpt id (hpredict hc f ready X)
  build := fun u wt labels => trainerObject (Model.StudentModes.fromParticles (List.replicate Kf (fitRowsF psi d)) u wt labels fb 4 us)
  stored := fun o => o.ms.labels.getD []
  dist := fun o p => sqDistRow o.ms.means p

theorem fromParticles_shape {α : Type} [Sc α] (fits : List (Mat α → Option (FitOut α))) (u : Mat α) (w : List α)
    (labels : List ℕ) (fb : α) (rf : ℕ) (us : List α) (ms : MS α) (h : Model.StudentModes.fromParticles fits u w labels fb rf us = .ok ms) :
    ms.labels = some (labelsOf labels) ∧ ms.means.length = (labelsOf labels).length := by
  unfold Model.StudentModes.fromParticles at h
  split_ifs at h
  cases hc : clusterLoop u (normalise w) labels fb rf (uniqueSorted labels) fits us with
  | none => simp [hc] at h
  | some os =>
    simp [hc] at h
    subst h
    obtain ⟨hlen, _⟩ := clusterLoop_each (fun _ _ => True) u (normalise w) labels fb rf (uniqueSorted labels) fits us os
      (fun _ _ _ _ _ _ _ => trivial) hc
    exact ⟨rfl, by simp [hlen, labelsOf]⟩

theorem mapOpt_id_spec (l : List (Option ℕ)) (r : List ℕ) (h : mapOpt id l = some r) :
    r.length = l.length ∧ ∀ x ∈ r, some x ∈ l := by
  obtain ⟨h1, h2⟩ := mapOpt_spec id l r h
  refine ⟨h1, fun x hx => ?_⟩
  obtain ⟨k, hk, rfl⟩ := List.mem_iff_getElem.1 hx
  have hk' : k < l.length := by omega
  obtain ⟨y, hy1, hy2⟩ := h2 k l[k] (by simp [hk'])
  have : y = r[k] := by
    rw [List.getElem?_eq_getElem hk] at hy1; exact (Option.some.inj hy1).symm
  subst this
  have : l[k] = some r[k] := hy2
  rw [← this]
  exact List.getElem_mem hk'

variable {d : ℕ}

/-- **C14 over one whole iteration of the executable models.**  History particles `Uh` with a valid weight vector (non-negative,
    positive sum, one weight per particle), the sampler's trimming constants (`e ≤ 1`, `bins ≥ 1`), any clusterer configuration
    `hc`, any `special.psi`, positive dof fallback, any previous fit of this clusterer, any resampled indices.  If the iteration
    completes (nothing raised) then:
      * the trimmed training pool is a NON-EMPTY selection of history particles;
      * the clusterer used for the training labels and for the assignments of the active particles is one fit of `hfit hc`,
        with `1 ≤ K_fit ≤ max_iterations + 1`; the mode object has `K_modes = #distinct training labels ≤ K_fit` modes;
      * every active particle: raw label `< K_fit`; index handed to the kernel `< K_modes`; relabel carried by a training
        particle and equal to the raw label whenever that has a mode; the mode at the index has its mean inside the bounding box
        of the training particles carrying the relabel, a symmetric positive-definite scale matrix, positive degrees of freedom. -/
theorem C14_iteration_model (psi : ℝ → ℝ) (hc : HCfg ℝ) (ready : Bool) (e : ℝ) (he : e ≤ 1) (bins : ℕ) (hb : 0 < bins)
    (fb : ℝ) (hfb : 0 < fb) (us : List ℝ) (Kf : ℕ) {N : ℕ} (Uh : Fin N → Fin d → ℝ) (w : List ℝ)
    (hw0 : ∀ x ∈ w, 0 ≤ x) (hws : 0 < w.sum) (hlen : w.length = N)
    (prev : Option (HFitOut ℝ)) (hprev : ∀ f, prev = some f → ∃ X w', hfit hc X w' = some f)
    (mustFit : Bool) (idx : List ℕ) (out : Out (List ℝ) ℝ (HFitOut ℝ) (Obj ℝ))
    (h : annealIter (realParts psi d hc ready e bins fb us Kf) prev mustFit (rowsOf Uh) w idx = some out) :
    out.trainU ≠ [] ∧ out.trainU.Sublist (rowsOf Uh) ∧ out.trainLabels.length = out.trainU.length ∧
    1 ≤ out.clf.clusters.length ∧ out.clf.clusters.length ≤ hc.maxIterations + 1 ∧
    out.obj.K = numModes out.trainLabels ∧ out.obj.K ≤ out.clf.clusters.length ∧
    ∃ (n : ℕ) (y : Fin n → Fin d → ℝ), out.trainU = rowsOf y ∧
    ∀ x ∈ out.active,
      x.raw < out.clf.clusters.length ∧ x.index < out.obj.K ∧ x.label ∈ out.trainLabels ∧
      (x.raw ∈ out.trainLabels → x.label = x.raw) ∧
      ∃ (μ : Fin d → ℝ) (S : Matrix (Fin d) (Fin d) ℝ) (ν : ℝ),
        out.obj.ms.means[x.index]? = some (vecOf μ) ∧ out.obj.ms.covs[x.index]? = some (matOf S) ∧
        out.obj.ms.dofs[x.index]? = some (Dof.fin ν) ∧
        InClusterBox y out.trainLabels x.label μ ∧ S.IsSymm ∧ S.PosDef ∧ 0 < ν := by
  set pt := realParts psi d hc ready e bins fb us Kf with hpt
  have hl : (rowsOf Uh).length = w.length := by rw [rowsOf_length, hlen]
  -- the contracts
  have hTrimFull : ∀ u wt, pt.trim (rowsOf Uh) w = some (u, wt) → u ≠ [] ∧ u.Sublist (rowsOf Uh) := by
    intro u wt ht
    obtain ⟨uk, wt', θ, hrun, _, _, _, hne, hsub, _⟩ := Props.C20.C20_trainer_site (rowsOf Uh) w e bins hw0 hws hl hb he
    have : pt.trim (rowsOf Uh) w = some (uk, wt') := by
      simp only [hpt, realParts, hrun]
    rw [this] at ht
    obtain ⟨rfl, rfl⟩ := Prod.mk.inj (Option.some.inj ht)
    exact ⟨hne, hsub⟩
  have hGood : ∀ f, (∃ X w', hfit hc X w' = some f) →
      ∀ X l, pt.cpredict f X = some l → l.length = X.length ∧ ∀ x ∈ l, x < f.clusters.length := by
    rintro f ⟨X0, w0, hf⟩ X l hp
    obtain ⟨p1, p2⟩ := Props.C15.C15_hfit_predict_range hc X0 w0 f hf ready X
    obtain ⟨m1, m2⟩ := mapOpt_id_spec _ l hp
    refine ⟨by rw [m1, p1], fun x hx => ?_⟩
    obtain ⟨k, hk1, hk2⟩ := p2 _ (m2 x hx)
    rw [Option.some.inj hk1]; exact hk2
  have hBuild : ∀ u wt labels o, pt.build u wt labels = some o →
      pt.stored o = labelsOf labels ∧ ∀ p, (pt.dist o p).length = (pt.stored o).length := by
    intro u wt labels o hbuild
    simp only [hpt, realParts] at hbuild ⊢
    cases hbm : Model.StudentModes.fromParticles (List.replicate Kf (fitRowsF psi d)) u wt labels fb 4 us with
    | valueError => simp [hbm, trainerObject] at hbuild
    | raised => simp [hbm, trainerObject] at hbuild
    | ok ms =>
      simp only [hbm, trainerObject] at hbuild
      have hms := construct_some ms o hbuild
      obtain ⟨s1, s2⟩ := fromParticles_shape _ u wt labels fb 4 us ms hbm
      rw [hms, s1]
      exact ⟨rfl, fun p => by simp [sqDistRow, s2]⟩
  obtain ⟨hgood, hu, hll, hne, _, _, _, hKle, hact⟩ :=
    C14_iteration_generic pt (fun f => ∃ X w', hfit hc X w' = some f) (fun f => f.clusters.length) prev mustFit
      (rowsOf Uh) w idx out (fun u wt ht => (hTrimFull u wt ht).1)
      (fun u wt f hf => ⟨u, wt, hf⟩) hprev (fun f X l hg hp => hGood f hg X l hp) hBuild h
  obtain ⟨h1, _, _, h4, _⟩ := annealIter_some pt prev mustFit (rowsOf Uh) w idx out h
  have hsub := (hTrimFull _ _ h1).2
  obtain ⟨X0, w0, hf0⟩ := hgood
  obtain ⟨c1, c2⟩ := Props.C15.C15_hfit_cap hc X0 w0 out.clf hf0
  -- the training pool as a family of vectors
  obtain ⟨y, hy⟩ := rows_of_mem_rowsOf Uh out.trainU (fun r hr => hsub.subset hr)
  have hobj : trainerObject (Model.StudentModes.fromParticles (List.replicate Kf (fitRowsF psi d)) (rowsOf y) out.trainW out.trainLabels fb 4 us)
      = some out.obj := by
    rw [← hy]; simpa only [hpt, realParts] using h4
  obtain ⟨_, _, hK, _, _, _, heach⟩ := C14_object_valid psi y out.trainW out.trainLabels fb hfb 4 us Kf out.obj hobj
  refine ⟨hu, hsub, hll, c1, c2, hK, by rw [hK]; exact hKle, _, y, hy, ?_⟩
  intro x hx
  obtain ⟨a1, a2, a3, a4, _, _, a7⟩ := hact x hx
  obtain ⟨μ, S, ν, m1, m2, m3, m4, m5, m6, m7, _⟩ := heach x.index x.label a3
  exact ⟨a1, by rw [hK]; exact a2, a4, a7, μ, S, ν, m1, m2, m3, m4, m5, m6, m7⟩

/-- **C14 over a whole run of the executable models**: from a fresh Trainer and an unfitted clusterer (or any components whose
    clusterer holds a fit of `hfit hc`), any `cluster_every`, any sequence of annealing iterations whose pools are families of
    `d`-vectors with valid weight vectors: every iteration that completes satisfies the conclusion of `C14_iteration_model` —
    non-empty training pool, `K_modes ≤ K_fit ≤ max_iterations + 1`, every active particle mapped to an existing mode with mean
    in its cluster's bounding box, symmetric positive-definite scale and positive degrees of freedom.  No hypothesis on the
    previous fit: it is an invariant of the run. -/
theorem C14_run_model (psi : ℝ → ℝ) (hc : HCfg ℝ) (ready : Bool) (e : ℝ) (he : e ≤ 1) (bins : ℕ) (hb : 0 < bins)
    (fb : ℝ) (hfb : 0 < fb) (us : List ℝ) (Kf : ℕ) (ce : ℕ)
    (c : Comp (HFitOut ℝ)) (hcomp : ∀ f, c.clf = some f → ∃ X w', hfit hc X w' = some f)
    (ins : List (IterIn (List ℝ) ℝ))
    (hin : ∀ i ∈ ins, ∃ (N : ℕ) (Uh : Fin N → Fin d → ℝ), i.hist = rowsOf Uh ∧ (∀ x ∈ i.w, 0 ≤ x) ∧ 0 < i.w.sum ∧ i.w.length = N) :
    ∀ io ∈ runAnneal (realParts psi d hc ready e bins fb us Kf) ce c ins,
      io.2.trainU ≠ [] ∧ io.2.trainU.Sublist io.1.hist ∧
      1 ≤ io.2.clf.clusters.length ∧ io.2.clf.clusters.length ≤ hc.maxIterations + 1 ∧
      io.2.obj.K = numModes io.2.trainLabels ∧ io.2.obj.K ≤ io.2.clf.clusters.length ∧
      ∃ (n : ℕ) (y : Fin n → Fin d → ℝ), io.2.trainU = rowsOf y ∧
      ∀ x ∈ io.2.active,
        x.raw < io.2.clf.clusters.length ∧ x.index < io.2.obj.K ∧ x.label ∈ io.2.trainLabels ∧
        (x.raw ∈ io.2.trainLabels → x.label = x.raw) ∧
        ∃ (μ : Fin d → ℝ) (S : Matrix (Fin d) (Fin d) ℝ) (ν : ℝ),
          io.2.obj.ms.means[x.index]? = some (vecOf μ) ∧ io.2.obj.ms.covs[x.index]? = some (matOf S) ∧
          io.2.obj.ms.dofs[x.index]? = some (Dof.fin ν) ∧
          InClusterBox y io.2.trainLabels x.label μ ∧ S.IsSymm ∧ S.PosDef ∧ 0 < ν := by
  intro io hio
  obtain ⟨hmem, prev, mf, hprev, hstep⟩ :=
    runAnneal_steps (realParts psi d hc ready e bins fb us Kf) (fun f => ∃ X w', hfit hc X w' = some f) ce
      (fun u wt f hf => ⟨u, wt, hf⟩) ins c hcomp io hio
  obtain ⟨N, Uh, hh, hw0, hws, hlen⟩ := hin io.1 hmem
  rw [hh] at hstep ⊢
  obtain ⟨a1, a2, _, a4, a5, a6, a7, n, y, a8, a9⟩ :=
    C14_iteration_model psi hc ready e he bins hb fb hfb us Kf Uh io.1.w hw0 hws hlen prev hprev mf io.1.idx io.2 hstep
  exact ⟨a1, a2, a4, a5, a6, a7, n, y, a8, a9⟩

/-- **every cluster cap**: with the core's wiring `max_iterations = n_max_clusters − 1` (`wiredMaxIterations`) and
    `n_max_clusters = nMax ≥ 1`, a completed iteration has `K_modes ≤ K_fit ≤ nMax`; with `n_max_clusters = None`, `≤ 1001` -/
theorem C14_iteration_cap (psi : ℝ → ℝ) (hc : HCfg ℝ) (ready : Bool) (e : ℝ) (he : e ≤ 1) (bins : ℕ) (hb : 0 < bins)
    (fb : ℝ) (hfb : 0 < fb) (us : List ℝ) (Kf : ℕ) {N : ℕ} (Uh : Fin N → Fin d → ℝ) (w : List ℝ)
    (hw0 : ∀ x ∈ w, 0 ≤ x) (hws : 0 < w.sum) (hlen : w.length = N)
    (prev : Option (HFitOut ℝ)) (hprev : ∀ f, prev = some f → ∃ X w', hfit hc X w' = some f)
    (mustFit : Bool) (idx : List ℕ) (out : Out (List ℝ) ℝ (HFitOut ℝ) (Obj ℝ))
    (h : annealIter (realParts psi d hc ready e bins fb us Kf) prev mustFit (rowsOf Uh) w idx = some out)
    (cap : Option ℕ) (hwire : hc.maxIterations = wiredMaxIterations cap) (hcap : ∀ n, cap = some n → 1 ≤ n) :
    out.obj.K ≤ out.clf.clusters.length ∧
    (∀ n, cap = some n → out.clf.clusters.length ≤ n) ∧ (cap = none → out.clf.clusters.length ≤ 1001) := by
  obtain ⟨_, _, _, _, c2, _, c4, _⟩ :=
    C14_iteration_model psi hc ready e he bins hb fb hfb us Kf Uh w hw0 hws hlen prev hprev mustFit idx out h
  refine ⟨c4, fun n hn => ?_, fun hn => ?_⟩
  · have := hcap n hn
    rw [hwire, hn] at c2
    simp only [wiredMaxIterations] at c2
    omega
  · rw [hwire, hn] at c2
    simpa [wiredMaxIterations] using c2

end Real

/-! ### non-vacuity of the generic theorem: a run of `annealIter` on tagging components -/

/-- tagging components: particles are ids, the "fit" remembers how many points it saw, `predict` labels id `p` with `p % 3`
    except that it never answers `1` for ids below 4; `build` stores the sorted distinct labels -/
def exParts : Parts ℕ ℕ ℕ (List ℕ) Rat where
  trim := fun u w => some (u.take 4, w.take 4)
  cfit := fun u _ => some u.length
  cpredict := fun _ X => some (X.map fun p => if p < 4 ∧ p % 3 = 1 then 2 else p % 3)
  build := fun _ _ labels => some (labelsOf labels)
  stored := fun o => o
  dist := fun o p => o.map fun l => ((l : Rat) - (p % 3 : ℕ)) * ((l : Rat) - (p % 3 : ℕ))

/-- history ids 0..5, the trimmed pool is ids 0..3 with labels `[0, 2, 2, 0]` (label 1 has no mode); the resampled particles
    4 (raw label 1: no mode, reassigned to the nearest) and 5 (raw label 2: keeps its mode) -/
example : (annealIter exParts none true [0, 1, 2, 3, 4, 5] [1, 1, 1, 1, 1, 1] [4, 5]).map
      (fun o => (o.trainLabels, o.obj, o.active.map fun x => (x.raw, x.index, x.label)))
    = some ([0, 2, 2, 0], [0, 2], [(1, 0, 0), (2, 1, 2)]) := by decide +kernel

/-- two annealing iterations (`iter` 4 and 5, `cluster_every = 3`) from a fresh Trainer: the first fits although off the
    cadence (flag unset), the second reuses that fit -/
example : (runAnneal exParts 3 ⟨false, none⟩
      [⟨4, [0, 1, 2, 3, 4, 5], [1, 1, 1, 1, 1, 1], [4, 5]⟩, ⟨5, [0, 1, 2, 3, 4, 5, 6, 7], [1, 1, 1, 1, 1, 1, 1, 1], [7]⟩]).map
      (fun io => (io.2.didFit, io.2.trainLabels, io.2.active.map fun x => (x.raw, x.index, x.label)))
    = [(true, [0, 2, 2, 0], [(1, 0, 0), (2, 1, 2)]), (false, [0, 2, 2, 0], [(1, 0, 0)])] := by decide +kernel


/-- the tagging clusterer labels every point by itself (H_pointwise of `C14_particlewise_coherent` is satisfiable) -/
example : ∀ f : ℕ, ∃ lab : ℕ → ℕ, ∀ X l, exParts.cpredict f X = some l → l = X.map lab :=
  fun _ => ⟨fun p => if p < 4 ∧ p % 3 = 1 then 2 else p % 3, fun X l h => by simpa [exParts] using h.symm⟩


end Props.C14
