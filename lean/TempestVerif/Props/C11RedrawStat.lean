import TempestVerif.Props.C11Redraw
import TempestVerif.Props.C11Law
import Mathlib.Tactic
import Mathlib.Data.Fin.Tuple.Basic
import Mathlib.Algebra.BigOperators.Fin
/-
  C11 after /repo 959029e — what the redraw rule records, in expectation (clause 2a for the current code).

  Before the fix the first recorded evidence was EXACTLY unbiased for the supported prior mass f when the batches without
  a finite draw were counted with Z = 0 (`C11_first_batch_unbiased`) — but those batches were stored with −inf particles
  and killed the run (F8).  Now such a block is discarded and drawn again; the stored batch records
  `n_finite / (K·n)` with `K` the number of blocks drawn.  On the finite product space of `K` blocks of `n` i.i.d. prior draws:

    redrawZ_eq_sum            the value `Model.WarmupR.draw` + `Model.Warmup.batchZR` record for block counts c_0, c_1, … is
                              `c_k / ((k+1)·n)` for the first k with c_k > 0 (0 when there is none: the loop raised / the tape
                              ended) — the link between the executable model and the random variable below
    drawLoop_map              the loop on blocks and the loop on their finite counts pick the same index
    allInf_prob               P(a block has no finite draw) = (1−f)^n =: r
    C11_redraw_expectation    E[recorded Z ; the loop ends within K blocks] = f · Σ_{j<K} r^j / (j+1)
    C11_redraw_bias_bounds    f ≤ that ≤ f · Σ_{j<K} r^j ≤ f / (1 − r): the relative excess is at most r/(1−r) with
                              r = (1−f)^n — exponentially small in the batch size (the conditional mean before the fix,
                              f/(1−r) for the surviving runs, was the UPPER end of this interval)
    C11_redraw_biased_n1      the caveat, explicitly: n = 1, f = 1/2, at most two blocks: E[Z; completes] = 5/8 whereas
                              f · P(completes) = 3/8 — the conditional mean is 5/6, not 1/2.  With n = 1 every stored batch
                              is all-finite or a redrawn single draw; the estimator is degenerate for tiny n, as it was
                              before the fix (then: Z = 1 or a dead run)
-/
namespace Props.C11
open Model.Warmup Model.WarmupR Finset

/-! ### the recorded value as a function of the blocks' finite counts -/

/-- `c_k / ((k+1)·n)` for the first block `k ≥ k0` (position in the list shifted by `k0`) with a finite draw; 0 if none -/
noncomputable def redrawSum (n : Nat) : List Nat → Nat → ℝ
  | [], _ => 0
  | c :: rest, k => if 0 < c then (c : ℝ) / (((k + 1) * n : ℕ) : ℝ) else redrawSum n rest (k + 1)

/-- the evidence the FIRST warm-up iteration records (empty history) when the successive blocks have `cs` finite draws:
    the loop of `Model.WarmupR` on the counts, then the rule `Model.Warmup.batchZR`; `none` = raised / tape ended -/
noncomputable def redrawZ (n : Nat) (c0 : Nat) (rest : List Nat) : Option ℝ :=
  (Model.WarmupR.draw (fun c : Nat => decide (0 < c)) n c0 rest).map fun r => batchZR ([] : List (Nat × ℝ)) n r.1 r.2

theorem redrawLoop_eq_sum (n : Nat) (hn : 0 < n) : ∀ (rest : List Nat) (c k : Nat),
    (∀ x ∈ c :: rest, x ≤ n) → k + rest.length + 1 ≤ capFactor →
    ((drawLoop (fun c : Nat => decide (0 < c)) n rest c ((k + 1) * n)).map
      fun r => batchZR ([] : List (Nat × ℝ)) n r.1 r.2).getD 0 = redrawSum n (c :: rest) k := by
  intro rest
  induction rest with
  | nil =>
    intro c k hle _
    have hc := hle c (by simp)
    by_cases h : 0 < c
    · simp only [drawLoop, h, decide_true, if_true, Option.map_some, Option.getD_some, redrawSum]
      exact batchZR_first n c ((k + 1) * n) hn hc (Nat.le_mul_of_pos_left n (Nat.succ_pos k))
    · simp [drawLoop, h, redrawSum]
  | cons b rest ih =>
    intro c k hle hcap
    have hc := hle c (by simp)
    by_cases h : 0 < c
    · simp only [drawLoop, h, decide_true, if_true, Option.map_some, Option.getD_some, redrawSum]
      exact batchZR_first n c ((k + 1) * n) hn hc (Nat.le_mul_of_pos_left n (Nat.succ_pos k))
    · have hcap' : ¬ capFactor * n ≤ (k + 1) * n := by
        intro hc'
        have := Nat.le_of_mul_le_mul_right hc' hn
        simp only [List.length_cons] at hcap
        omega
      have hstep : (k + 1) * n + n = (k + 1 + 1) * n := by ring
      simp only [drawLoop, h, decide_false, Bool.false_eq_true, if_false, hcap', redrawSum, hstep]
      exact ih b (k + 1) (fun x hx => hle x (by simp at hx ⊢; tauto))
        (by simp only [List.length_cons] at hcap; omega)

/-- the executable model's recorded value is `redrawSum` (at most `capFactor = 1000` blocks, counts ≤ n) -/
theorem redrawZ_eq_sum (n : Nat) (hn : 0 < n) (c0 : Nat) (rest : List Nat) (hle : ∀ x ∈ c0 :: rest, x ≤ n)
    (hcap : rest.length + 1 ≤ capFactor) : (redrawZ n c0 rest).getD 0 = redrawSum n (c0 :: rest) 0 := by
  have := redrawLoop_eq_sum n hn rest c0 0 hle (by omega)
  simpa [redrawZ, Model.WarmupR.draw] using this

/-- the loop commutes with any map of the blocks that preserves "has a finite draw": in particular the loop on blocks and the
    loop on their finite COUNTS keep the same block after the same number of draws -/
theorem drawLoop_map {β γ : Type} (g : β → γ) (hf : β → Bool) (hf' : γ → Bool) (hcomp : ∀ b, hf' (g b) = hf b) (n : Nat) :
    ∀ (pending : List β) (cur : β) (nd : Nat),
      drawLoop hf' n (pending.map g) (g cur) nd = (drawLoop hf n pending cur nd).map fun r => (g r.1, r.2) := by
  intro pending
  induction pending with
  | nil => intro cur nd; simp only [List.map_nil, drawLoop, hcomp]; split <;> rfl
  | cons b rest ih =>
    intro cur nd
    simp only [List.map_cons, drawLoop, hcomp]
    split
    · rfl
    · split
      · rfl
      · exact ih b (nd + n)

/-! ### the probability space: K blocks of n i.i.d. prior draws -/
section space
variable {Ω : Type} [Fintype Ω]

/-- number of finite draws of a block -/
def cnt (A : Ω → Prop) [DecidablePred A] {n : ℕ} (η : Fin n → Ω) : ℕ := (univ.filter fun i => A (η i)).card

/-- law of a block -/
noncomputable def blockLaw (p : Ω → ℝ) {n : ℕ} (η : Fin n → Ω) : ℝ := ∏ i, p (η i)

/-- probability that a block has no finite draw -/
noncomputable def pAllInf (p : Ω → ℝ) (A : Ω → Prop) [DecidablePred A] (n : ℕ) : ℝ :=
  ∑ η : Fin n → Ω, blockLaw p η * (if cnt A η = 0 then 1 else 0)

omit [Fintype Ω] in
theorem cnt_zero_iff (A : Ω → Prop) [DecidablePred A] {n : ℕ} (η : Fin n → Ω) : cnt A η = 0 ↔ ∀ i, ¬ A (η i) := by
  unfold cnt
  rw [Finset.card_eq_zero, Finset.filter_eq_empty_iff]
  simp

/-- P(a block of n independent draws has no finite draw) = (1 − f)^n -/
theorem allInf_prob (p : Ω → ℝ) (hp1 : ∑ x, p x = 1) (A : Ω → Prop) [DecidablePred A] (n : ℕ) :
    pAllInf p A n = (1 - mass p A) ^ n := by
  unfold pAllInf blockLaw
  have h1 : ∀ η : Fin n → Ω, (∏ i, p (η i)) * (if cnt A η = 0 then (1 : ℝ) else 0)
      = ∏ i, (p (η i) * (if A (η i) then 0 else 1)) := by
    intro η
    rw [Finset.prod_mul_distrib]
    congr 1
    by_cases h : cnt A η = 0
    · rw [if_pos h]
      have := (cnt_zero_iff A η).mp h
      symm; apply Finset.prod_eq_one; intro i _; simp [this i]
    · rw [if_neg h]
      have : ∃ i, A (η i) := by
        by_contra hc; simp only [not_exists] at hc; exact h ((cnt_zero_iff A η).mpr hc)
      obtain ⟨i, hi⟩ := this
      symm; apply Finset.prod_eq_zero (Finset.mem_univ i); simp [hi]
  simp_rw [h1]
  rw [sum_pi_prod (fun _ x => p x * (if A x then 0 else 1))]
  have h2 : ∑ x, p x * (if A x then (0 : ℝ) else 1) = 1 - mass p A := by
    have : ∀ x, p x * (if A x then (0 : ℝ) else 1) = p x - (if A x then p x else 0) := by
      intro x; split <;> ring
    simp_rw [this]
    rw [Finset.sum_sub_distrib, hp1]; rfl
  simp only [Finset.prod_const, Finset.card_univ, Fintype.card_fin]
  rw [h2]

/-- E[n_finite / n] over one block = f -/
theorem block_fraction_mean (p : Ω → ℝ) (hp1 : ∑ x, p x = 1) (A : Ω → Prop) [DecidablePred A] (n : ℕ) (hn : 0 < n) :
    ∑ η : Fin n → Ω, blockLaw p η * ((cnt A η : ℝ) / (n : ℝ)) = mass p A := by
  have := C11_first_batch_unbiased p hp1 A n hn
  unfold mass
  rw [← this]
  refine Finset.sum_congr rfl fun η _ => ?_
  unfold blockLaw cnt
  rw [batchZ_first n _ hn (by simpa using Finset.card_filter_le (univ : Finset (Fin n)) _)]

theorem blockLaw_total (p : Ω → ℝ) (hp1 : ∑ x, p x = 1) (n : ℕ) : ∑ η : Fin n → Ω, blockLaw p η = 1 :=
  prod_law_total p hp1

/-- C11 (what the redraw rule records, in expectation): `K` blocks of `n` independent prior draws each.  The evidence recorded
    by the first warm-up iteration of the current code — `n_finite/((k+1)·n)` for the first block `k` with a finite draw — has,
    restricted to the event that the loop ends within the `K` blocks,
        `E[Z] = f · Σ_{j<K} r^j / (k0 + j + 1)`,   `r = P(block without a finite draw) = (1−f)^n`
    (`k0 = 0` for the statement; general `k0` for the induction). -/
theorem C11_redraw_expectation_gen (p : Ω → ℝ) (hp1 : ∑ x, p x = 1) (A : Ω → Prop) [DecidablePred A] (n : ℕ) (hn : 0 < n) :
    ∀ (K k0 : ℕ), ∑ ω : Fin K → Fin n → Ω, (∏ t, blockLaw p (ω t)) * redrawSum n (List.ofFn fun t => cnt A (ω t)) k0
      = mass p A * ∑ j ∈ Finset.range K, pAllInf p A n ^ j / ((k0 + j + 1 : ℕ) : ℝ) := by
  intro K
  induction K with
  | zero => intro k0; simp [redrawSum]
  | succ K ih =>
    intro k0
    have hnr : (n : ℝ) ≠ 0 := by exact_mod_cast hn.ne'
    -- split the first block off
    rw [← (Fin.consEquiv (fun _ : Fin (K + 1) => Fin n → Ω)).sum_comp, Fintype.sum_prod_type]
    have hterm : ∀ (x : Fin n → Ω) (ω' : Fin K → Fin n → Ω),
        (∏ t, blockLaw p (Fin.consEquiv (fun _ : Fin (K + 1) => Fin n → Ω) (x, ω') t)) *
          redrawSum n (List.ofFn fun t => cnt A (Fin.consEquiv (fun _ : Fin (K + 1) => Fin n → Ω) (x, ω') t)) k0
        = blockLaw p x * (cnt A x : ℝ) / (((k0 + 1) * n : ℕ) : ℝ) * (∏ t, blockLaw p (ω' t))
          + (blockLaw p x * (if cnt A x = 0 then 1 else 0)) *
            ((∏ t, blockLaw p (ω' t)) * redrawSum n (List.ofFn fun t => cnt A (ω' t)) (k0 + 1)) := by
      intro x ω'
      simp only [Fin.consEquiv, Equiv.coe_fn_mk, Fin.prod_univ_succ, Fin.cons_zero, Fin.cons_succ, List.ofFn_succ, redrawSum]
      by_cases h : 0 < cnt A x
      · have h0 : cnt A x ≠ 0 := by omega
        simp [h, h0]; ring
      · have h0 : cnt A x = 0 := by omega
        simp [h0, mul_assoc]
    simp_rw [hterm]
    simp_rw [Finset.sum_add_distrib, ← Finset.mul_sum]
    rw [ih (k0 + 1), prod_law_total (fun η => blockLaw p η) (blockLaw_total p hp1 n)]
    simp only [mul_one]
    rw [← Finset.sum_mul]
    have hfirst : ∑ x : Fin n → Ω, blockLaw p x * (cnt A x : ℝ) / (((k0 + 1) * n : ℕ) : ℝ)
        = mass p A / ((k0 + 1 : ℕ) : ℝ) := by
      rw [← block_fraction_mean p hp1 A n hn, Finset.sum_div]
      refine Finset.sum_congr rfl fun x _ => ?_
      push_cast
      field_simp
    rw [hfirst]
    have hr : ∑ x : Fin n → Ω, blockLaw p x * (if cnt A x = 0 then (1 : ℝ) else 0) = pAllInf p A n := rfl
    rw [hr, Finset.sum_range_succ']
    have hsum : ∑ j ∈ Finset.range K, pAllInf p A n ^ (j + 1) / ((k0 + (j + 1) + 1 : ℕ) : ℝ)
        = pAllInf p A n * ∑ j ∈ Finset.range K, pAllInf p A n ^ j / ((k0 + 1 + j + 1 : ℕ) : ℝ) := by
      rw [Finset.mul_sum]
      refine Finset.sum_congr rfl fun j _ => ?_
      have e : k0 + (j + 1) + 1 = k0 + 1 + j + 1 := by omega
      rw [e, pow_succ]; ring
    rw [hsum]
    simp only [pow_zero, Nat.add_zero]
    ring

theorem C11_redraw_expectation (p : Ω → ℝ) (hp1 : ∑ x, p x = 1) (A : Ω → Prop) [DecidablePred A] (n : ℕ) (hn : 0 < n)
    (K : ℕ) :
    ∑ ω : Fin K → Fin n → Ω, (∏ t, blockLaw p (ω t)) * redrawSum n (List.ofFn fun t => cnt A (ω t)) 0
      = mass p A * ∑ j ∈ Finset.range K, ((1 - mass p A) ^ n) ^ j / ((j + 1 : ℕ) : ℝ) := by
  rw [C11_redraw_expectation_gen p hp1 A n hn K 0, allInf_prob p hp1 A n]
  simp

/-- C11 (how far from `f`): the restricted expectation lies between `f` and `f · Σ_{j<K} r^j` (`≤ f/(1−r)`), `r = (1−f)^n`.
    The excess over `f` is at most the factor `r/(1−r)`: exponentially small in the batch size. -/
theorem C11_redraw_bias_bounds (p : Ω → ℝ) (hp : ∀ x, 0 ≤ p x) (hp1 : ∑ x, p x = 1) (A : Ω → Prop) [DecidablePred A]
    (n : ℕ) (hn : 0 < n) (K : ℕ) (hK : 0 < K) :
    let E := ∑ ω : Fin K → Fin n → Ω, (∏ t, blockLaw p (ω t)) * redrawSum n (List.ofFn fun t => cnt A (ω t)) 0
    mass p A ≤ E ∧ E ≤ mass p A * ∑ j ∈ Finset.range K, ((1 - mass p A) ^ n) ^ j := by
  intro E
  have hE : E = mass p A * ∑ j ∈ Finset.range K, ((1 - mass p A) ^ n) ^ j / ((j + 1 : ℕ) : ℝ) :=
    C11_redraw_expectation p hp1 A n hn K
  have hf0 := mass_nonneg p hp A
  have hf1 := mass_le_one p hp hp1 A
  have hr0 : 0 ≤ (1 - mass p A) ^ n := pow_nonneg (by linarith) n
  rw [hE]
  constructor
  · have : (1 : ℝ) ≤ ∑ j ∈ Finset.range K, ((1 - mass p A) ^ n) ^ j / ((j + 1 : ℕ) : ℝ) := by
      obtain ⟨K', rfl⟩ : ∃ K', K = K' + 1 := ⟨K - 1, by omega⟩
      rw [Finset.sum_range_succ']
      have : 0 ≤ ∑ j ∈ Finset.range K', ((1 - mass p A) ^ n) ^ (j + 1) / ((j + 1 + 1 : ℕ) : ℝ) :=
        Finset.sum_nonneg fun j _ => div_nonneg (pow_nonneg hr0 _) (by positivity)
      simp only [pow_zero, zero_add, Nat.cast_one, div_one]
      linarith
    calc mass p A = mass p A * 1 := by ring
      _ ≤ _ := mul_le_mul_of_nonneg_left this hf0
  · apply mul_le_mul_of_nonneg_left _ hf0
    apply Finset.sum_le_sum
    intro j _
    apply div_le_self (pow_nonneg hr0 _)
    have : (1 : ℝ) ≤ ((j + 1 : ℕ) : ℝ) := by exact_mod_cast Nat.succ_le_succ (Nat.zero_le j)
    exact this

end space

/-! ### the caveat, explicitly, and non-vacuity -/

/-- C11 (the n = 1 caveat): a fair coin (`f = 1/2`), batches of ONE draw, at most two blocks.  The restricted expectation of the
    recorded evidence is `5/8`, whereas `f · P(the loop ends) = 1/2 · 3/4 = 3/8`: conditional on completing, the mean is `5/6`,
    not `1/2`.  The redraw estimator `n_finite/(K·n)` is consistent in `n` (`C11_redraw_bias_bounds`: excess ≤ r/(1−r),
    r = 2^{−n} here) but NOT unbiased, and useless at `n = 1`. -/
theorem C11_redraw_biased_n1 :
    ∑ ω : Fin 2 → Fin 1 → Fin 2, (∏ t, blockLaw (fun _ : Fin 2 => (1 / 2 : ℝ)) (ω t)) *
        redrawSum 1 (List.ofFn fun t => cnt (fun x : Fin 2 => x = 1) (ω t)) 0 = 5 / 8 ∧
    mass (fun _ : Fin 2 => (1 / 2 : ℝ)) (fun x => x = 1) * (1 - pAllInf (fun _ : Fin 2 => (1 / 2 : ℝ)) (fun x => x = 1) 1 ^ 2)
      = 3 / 8 := by
  have hm : mass (fun _ : Fin 2 => (1 / 2 : ℝ)) (fun x => x = 1) = 1 / 2 := by simp [mass]
  constructor
  · rw [C11_redraw_expectation (fun _ : Fin 2 => (1 / 2 : ℝ)) (by simp) (fun x => x = 1) 1 (by norm_num) 2, hm]
    norm_num [Finset.sum_range_succ]
  · rw [allInf_prob (fun _ : Fin 2 => (1 / 2 : ℝ)) (by simp) (fun x => x = 1) 1, hm]
    norm_num

/-- the executable side: blocks with 0, 0, 3 finite draws of n = 4: the loop keeps the third block after 12 draws; Z = 3/12 -/
example : (redrawZ 4 0 [0, 3]).getD 0 = redrawSum 4 [0, 0, 3] 0 :=
  redrawZ_eq_sum 4 (by norm_num) 0 [0, 3] (by intro x hx; simp at hx; rcases hx with rfl | rfl | rfl <;> norm_num)
    (by simp [capFactor])

example : redrawSum 4 [0, 0, 3] 0 = 3 / 12 := by simp [redrawSum]

end Props.C11
