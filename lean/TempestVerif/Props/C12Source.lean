import TempestVerif.Model.RunEntry
import TempestVerif.Model.Checkpoint
import TempestVerif.Gen.RunEntrySrc
/-
  C12 — the executable model of `run_sampling` / `_not_termination` / `execute_iteration` / `compute_evidence`
  (`Model.RunEntry`, the control parts of `Model.ClosedLoop`, `Model.Run`) is built from the expressions that are in /repo NOW.

  `Gen/RunEntrySrc.lean` is regenerated from the source on every run of the check (translator G12, `extract_src`): every test,
  every piece of arithmetic and every literal of core.py `run_sampling` (three-way entry, `t0` of each arm, `self.n_total =
  int(n_total)`, the epilogue's `compute_logw_and_logz(1.0)` → `set_current('logz', …)`), `_not_termination` (early return on an
  empty history, `np.exp(logw - np.max(logw))`, `1.0 - beta >= 1e-4 or ess < getattr(self, 'n_total', 0)`), `_initialize_fresh`
  (the four values written), `execute_iteration` (the periodic-save test), `compute_evidence` (the key read) and the `iter + 1`
  of `Reweighter.run`, COMPILED to Lean terms — scalars over `Sc α` / `ScT α`, counters over `Nat` / `Int` — plus the statement
  skeleton of each function with local names canonicalised.  Parameters of a generated term are ordered by role (Python
  parameters, state reads, attributes, computed locals), never by order of appearance, so an operand swap changes the term.

  The theorems hold for EVERY scalar type — `Float`, which the driver executes, included — by `rfl` / case analysis on constructors:
  the model's definitions unfold to the generated terms.  A changed literal, comparison operator, operand order, tuple slot, state
  key or branch order in the source changes the generated term and breaks the theorem named after it; a dropped / added / moved
  statement changes a skeleton table.
-/
namespace Props.C12.Src
open Model.RunEntry Model.ClosedLoop
open Gen.RunEntrySrc

variable {α P MS TS G : Type}

/-! ### `_not_termination` -/

/-- the tolerance of the guard is the literal the property speaks of (`1e-4`; the model's `tolTerm` is a parameter, fed by the
    harness from the same source literal through G1's `TERM_BETA_TOL`) -/
theorem C12_src_tol [ScT α] : (termTol : α) = Sc.lit 1 4 := rfl

/-- `return 1.0 - beta >= 1e-4 or ess < getattr(self, "n_total", 0)`: the model's guard on a non-empty history, with the
    source's tolerance literal -/
theorem C12_src_notTerm [ScT α] (beta ess nTotal : α) :
    Model.Run.notTerm termTol beta ess nTotal = termReturn beta nTotal ess := rfl

/-- the whole `_not_termination`: early return on `len(logw) == 0`, weights `exp(logw - max)`, ESS of those, the returned test -/
theorem C12_src_notTermination [ScT α] (beta nTotal : α) (logw : List α) :
    Model.Run.notTermination termTol beta logw nTotal =
      if termEmptyTest logw.length then termEmptyReturn
      else match logw with
        | [] => true
        | x :: xs => termReturn beta nTotal (Model.Ess.ess ((x :: xs).map fun l => termWeight l (Model.Ess.maxOf x xs))) := by
  cases logw <;> rfl

/-- `logw, _ = self.state.compute_logw_and_logz(1.0)`: the loop guard of the closed-loop model evaluates the log-weights at the
    source's argument and takes the source's component; `tolTerm` / `nTotal` are the configuration's -/
theorem C12_src_contGuard [ScT α] (c : CCfg α) (s : CState α P TS G) :
    contGuard c s =
      Model.Run.notTermination c.tolTerm s.beta (Model.Weights.logw (batchesOf s.hist) termEvidenceArg true).1 c.nTotal ∧
    termLogwSlot = 0 := ⟨rfl, rfl⟩

/-- `getattr(self, "n_total", 0)`: the attribute, with the source's default when absent -/
theorem C12_src_attrNTotal (c : Core α P TS G) :
    attrNTotal c = (match c.nTotal with | some n => n | none => termNTotalDefault) := rfl

/-- the configuration the guard works with: only `nTotal` is replaced, by the attribute (default from the source) -/
theorem C12_src_guardCfg [ScT α] (cfg : CCfg α) (c : Core α P TS G) :
    guardCfg cfg c = { cfg with nTotal := Sc.ofNat (match c.nTotal with | some n => n | none => termNTotalDefault) } := rfl

/-! ### `run_sampling`: entry -/

/-- `if resume_state_path is not None … elif self.state.get_history_length() > 0 … else`: same tests, same order, and each arm
    is the one that makes the corresponding initialiser call (`_initialize_from_resume` / none / `_initialize_fresh`) -/
theorem C12_src_entryBranch (resumePath : Bool) (histLen : Nat) :
    (entryBranch resumePath histLen).name = entryArm resumePath histLen := by
  cases resumePath <;> cases histLen <;> rfl

/-- `t0` of the resume arm: `int(iter_val) if iter_val is not None else 0` on the LOADED state -/
theorem C12_src_t0_resume [ScT α] (reseed : G → G) (c : Core α P TS G) (nT : Nat) (f : CkFile α P G) :
    (prologue reseed c ⟨nT, some f⟩).t0 = entryT0Resume (some (loadCore c f).st.iter) := rfl

/-- `t0` of the continue arm (no path, committed history): the stored counter; nothing else changes but `n_total` -/
theorem C12_src_t0_continue [ScT α] (reseed : G → G) (c : Core α P TS G) (nT : Nat)
    (h : entryArm false c.st.hist.length = "continue") :
    prologue reseed c ⟨nT, none⟩ = { c with t0 := entryT0Continue (some c.st.iter), nTotal := prologueNTotal nT } := by
  unfold prologue
  cases hl : c.st.hist.length with
  | zero => rw [hl] at h; exact absurd h (by decide)
  | succ n => rfl

/-- `t0` of the fresh arm (no path, empty history): the source's literal, after `_initialize_fresh` -/
theorem C12_src_t0_fresh [ScT α] (reseed : G → G) (c : Core α P TS G) (nT : Nat)
    (h : entryArm false c.st.hist.length = "fresh") :
    prologue reseed c ⟨nT, none⟩ =
      { c with st := initFresh reseed c.st, started := true, t0 := entryT0Fresh (some c.st.iter), nTotal := prologueNTotal nT } := by
  unfold prologue
  cases hl : c.st.hist.length with
  | zero => rfl
  | succ n => rw [hl] at h; simp [entryArm] at h

/-- `self.n_total = int(n_total)` AFTER the entry chain, in every arm (so the value a file carried is overwritten), and
    `self.t0 = t0`, the local the loop hands to `execute_iteration` -/
theorem C12_src_nTotal [ScT α] (reseed : G → G) (c : Core α P TS G) (call : Call α P G) :
    (prologue reseed c call).nTotal = prologueNTotal call.nTotal ∧ prologueT0Stored = true ∧ loopPassesT0 = true := by
  refine ⟨?_, rfl, rfl⟩
  unfold prologue
  cases call.resume <;> rfl

/-! ### `_initialize_fresh` -/

/-- the four values written are the source's literals; nothing else is written (`freshWrites`) -/
theorem C12_src_initFresh [ScT α] (reseed : G → G) (s : CState α P TS G) :
    some (initFresh reseed s).iter = freshIter ∧ some (initFresh reseed s).calls = freshCalls ∧
    some (initFresh reseed s).beta = freshBeta ∧ some (initFresh reseed s).logz = freshLogz ∧
    initFresh reseed s = { s with iter := (initFresh reseed s).iter, calls := (initFresh reseed s).calls,
                                  beta := (initFresh reseed s).beta, logz := (initFresh reseed s).logz, g := reseed s.g } ∧
    freshWrites = ["iter", "calls", "beta", "logz"] := ⟨rfl, rfl, rfl, rfl, rfl, by decide⟩

/-! ### `run_sampling`: loop and epilogue -/

/-- `_, logz = self.state.compute_logw_and_logz(1.0); self.state.set_current("logz", logz)`: the argument, the component taken
    and the key written — which is the key `compute_evidence` reads -/
theorem C12_src_finalLogz [ScT α] (s : CState α P TS G) :
    finalLogz s = (Model.Weights.logw (batchesOf s.hist) epilogueArg true).2 ∧
    epilogueSlot = 1 ∧ epilogueKey = "logz" ∧ evidenceKey = epilogueKey := ⟨rfl, rfl, by decide, by decide⟩

/-- one turn of `while self._not_termination(): self.execute_iteration(…)`: the guard is tested first, the body is one
    `execute_iteration`, the loop-top state is what `save_every` may write (skeleton rows 3, 3.0 of `runSkeleton`) -/
theorem C12_src_runLoop_succ [ScT α] (W : World α P MS TS G) (c : CCfg α) (n : Nat) (s : CState α P TS G) :
    runLoop W c (n + 1) s =
      if contGuard c s then
        (iterate W c s).bind fun p => (runLoop W c n p.1).map fun q => (q.1, s :: q.2.1, p.2 :: q.2.2)
      else some (s, [s], []) := rfl

theorem C12_src_runLoop_zero [ScT α] (W : World α P MS TS G) (c : CCfg α) (s : CState α P TS G) :
    runLoop W c 0 s = if contGuard c s then none else some (s, [s], []) := rfl

/-- the whole `run_sampling`: prologue; loop under the guard that reads the ATTRIBUTE; then `logz := Z(1)` and nothing else -/
theorem C12_src_runFull [ScT α] (W : World α P MS TS G) (cfg : CCfg α) (reseed : G → G) (fuel : Nat) (c : Core α P TS G)
    (call : Call α P G) :
    runFull W cfg reseed fuel c call =
      (runLoop W { cfg with nTotal := Sc.ofNat (attrNTotal (prologue reseed c call)) } fuel (prologue reseed c call).st).bind fun q =>
        ((Model.Weights.logw (batchesOf q.1.hist) epilogueArg true).2).map fun z =>
          ({ prologue reseed c call with st := { q.1 with logz := z } }, q.2.1, q.2.2) := rfl

/-! ### `execute_iteration` and `Reweighter.run`'s counter -/

/-- `(iter_val - t0) % int(save_every) == 0 and iter_val != t0` (C14's cadence model, pinned here to the source's expression) -/
theorem C12_src_saveTest (t0 saveEvery iter : Int) :
    Model.Checkpoint.savesAt t0 saveEvery iter = saveTest saveEvery t0 iter := rfl

/-- `set_current("iter", get_current("iter") + 1)`: what `iterate` passes to the trainer and commits -/
theorem C12_src_iterNext [ScT α] (W : World α P MS TS G) (c : CCfg α) (s : CState α P TS G) (p : CState α P TS G × CIterOut α P)
    (h : iterate W c s = some p) : p.1.iter = iterNext s.iter := by
  unfold iterate at h
  simp only [Option.bind_eq_some_iff] at h
  obtain ⟨tr, _, h⟩ := h
  split at h
  · simp only [Option.bind_eq_some_iff] at h
    obtain ⟨d, _, h⟩ := h
    split at h
    · exact absurd h (by simp)
    · simp only [Option.some.injEq] at h; subst h; rfl
  · simp only [Option.bind_eq_some_iff] at h
    obtain ⟨rs, _, h⟩ := h
    split at h
    · exact absurd h (by simp)
    · simp only [Option.map_eq_some_iff] at h
      obtain ⟨m, _, h⟩ := h
      subst h; rfl

/-! ### `compute_evidence` -/

/-- `logz = self.state.get_current("logz")`: the key the epilogue wrote; `None` before anything ran or was loaded -/
theorem C12_src_evidence (c : Core α P TS G) :
    evidence c = (if c.started then some c.st.logz else none) ∧ evidenceKey = "logz" := ⟨rfl, by decide⟩

/-! ### the statement skeletons the model was written against

  `path: statement` in program order (`t` / `e` = then / else block); locals are `v0, v1, …` by first assignment; docstrings,
  imports and the progress bar are dropped.  What the model takes from each: `runSkeleton` — the entry arms and what each does,
  that `n_total` / `t0` are stored after the chain and before the loop, the loop's test and single body statement, the epilogue's
  two statements before the final save; `termSkeleton` — the data flow logw → weights → ess → test; `iterSkeleton` — the order
  reweighter → trainer → resampler → mutator → commit (`Model.ClosedLoop.iterate`: `reweightStep`, `trainStep` on ITS weights,
  `resampleStep` on the same weights, the mutation with the TRAINER's statistics, `commit`), the save test on the counter read
  BEFORE the reweighter increments it, and the returned dictionary; `freshSkeleton`, `resumeSkeleton`, `evidenceSkeleton`. -/

def expected_termSkeleton : List String :=
  ["0: v0, _ = self.state.compute_logw_and_logz(1.0)",
   "1: if len(v0) == 0",
   "1t.0: return True",
   "2: v2 = np.exp(v0 - np.max(v0))",
   "3: v3 = effective_sample_size(v2)",
   "4: v4 = self.state.get_current('beta')",
   "5: return 1.0 - v4 >= 0.0001 or v3 < getattr(self, 'n_total', 0)"]

def expected_runSkeleton : List String :=
  ["0: if resume_state_path is not None",
   "0t.0: self._initialize_from_resume(resume_state_path)",
   "0t.1: v0 = self.state.get_current('iter')",
   "0t.2: v1 = int(v0) if v0 is not None else 0",
   "0t.3: if v0 is None",
   "0t.3t.0: self.state.set_current('iter', v1)",
   "0e.0: if self.state.get_history_length() > 0",
   "0e.0t.0: v0 = self.state.get_current('iter')",
   "0e.0t.1: v1 = int(v0) if v0 is not None else 0",
   "0e.0e.0: v1 = 0",
   "0e.0e.1: self._initialize_fresh()",
   "1: self.n_total = int(n_total)",
   "2: self.t0 = v1",
   "3: while self._not_termination()",
   "3.0: self.execute_iteration(save_every=save_every, t0=v1)",
   "4: _, v3 = self.state.compute_logw_and_logz(1.0)",
   "5: self.state.set_current('logz', v3)",
   "6: self.logz_err = None",
   "7: if save_every is not None",
   "7t.0: self.save_sampler_state(self.config.output_dir / f'{self.config.output_label}_final.state')"]

def expected_freshSkeleton : List String :=
  ["0: if self.config.random_state is not None",
   "0t.0: np.random.seed(self.config.random_state)",
   "1: self.state.set_current('iter', 0)",
   "2: self.state.set_current('calls', 0)",
   "3: self.state.set_current('beta', 0.0)",
   "4: self.state.set_current('logz', 0.0)"]

def expected_resumeSkeleton : List String :=
  ["0: self.load_sampler_state(resume_state_path)",
   "1: v0 = int(self.state.get_current('iter')) if self.state.get_current('iter') is not None else 0",
   "2: self.t0 = v0"]

def expected_iterSkeleton : List String :=
  ["0: if save_every is not None",
   "0t.0: v0 = self.state.get_current('iter')",
   "0t.1: if (v0 - t0) % int(save_every) == 0 and v0 != t0",
   "0t.1t.0: self.save_sampler_state(self.config.output_dir / f'{self.config.output_label}_{v0}.state')",
   "1: v1 = self.reweighter.run()",
   "2: v2 = self.trainer.run(v1)",
   "3: self.resampler.run(v1)",
   "4: self.mutator.run(v2)",
   "5: self.state.commit_current_to_history()",
   "6: return self.state.get_current()"]

def expected_evidenceSkeleton : List String :=
  ["0: v0 = self.state.get_current('logz')",
   "1: return (v0, getattr(self, 'logz_err', None))"]

theorem C12_src_termSkeleton : termSkeleton = expected_termSkeleton := by decide
theorem C12_src_runSkeleton : runSkeleton = expected_runSkeleton := by decide
theorem C12_src_freshSkeleton : freshSkeleton = expected_freshSkeleton := by decide
theorem C12_src_resumeSkeleton : resumeSkeleton = expected_resumeSkeleton := by decide
theorem C12_src_iterSkeleton : iterSkeleton = expected_iterSkeleton := by decide
theorem C12_src_evidenceSkeleton : evidenceSkeleton = expected_evidenceSkeleton := by decide

/-! ### non-vacuity: the generated terms at concrete values (`Rat`, exact) -/

example : termReturn (1 : Rat) 4 5 = false := by decide +kernel
example : termReturn (9999 / 10000 : Rat) 4 5 = true := by decide +kernel          -- 1 - β = 1e-4: `>=` continues
example : termReturn (1 : Rat) 6 5 = true := by decide +kernel                     -- ESS below n_total
example : entryArm true 3 = "resume" ∧ entryArm false 3 = "continue" ∧ entryArm false 0 = "fresh" := by decide
example : entryT0Resume (some 7) = 7 ∧ entryT0Continue (some 7) = 7 ∧ entryT0Fresh (some 7) = 0 := by decide
example : saveTest 2 4 6 = true ∧ saveTest 2 4 4 = false ∧ saveTest 2 4 5 = false := by decide
example : prologueNTotal 96 = some 96 ∧ iterNext 3 = 4 := by decide

end Props.C12.Src
