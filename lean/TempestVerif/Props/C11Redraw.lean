import TempestVerif.Model.PipelineR
import TempestVerif.Props.C11Modes
import TempestVerif.Props.C11SM
import TempestVerif.Props.C11Stat
import Mathlib.Tactic
/-
  C11 after /repo 959029e (finding F8 repaired): a warm-up batch without a single finite-likelihood draw is no longer stored;
  `Mutator.run` draws again (at most 1000·n draws), and the discarded draws count in the recorded fraction
  `n_finite / n_drawn`.

    C11_old_all_inf_batch_stored   the rule BEFORE the fix, for the record: such a batch was left as drawn (all −inf), could
                                   not be committed as real numbers, and recorded Z = 0 (logz = −inf) — on all three models
    drawLoop_spec                  the loop returns the FIRST block that has a finite draw; n_drawn = n · (blocks drawn)
    batchZR_no_redraw, runR_no_redraw   when nothing is redrawn the new rule is the old one (every first-pass theorem about
                                   `run batchZ` applies to such runs of the current code)
    C11_onceR, C11_onceR_eps_all   the counted-once envelope for the new rule (fractions n_finite/n_drawn)
    C11_warmupL_all_finite         NO −inf PARTICLE IS STORED, FOR EVERY TAPE: whenever the warm-up mutation returns (it did not
                                   hit the cap), every stored log-likelihood is finite — the hypothesis "the batch has a finite
                                   draw" of `C11_warmup_all_finite` is now discharged by the loop itself
    warm_iterateL, C11_pipelineL_warmup   any number of warm-up iterations of `Model.PipelineR.iterateL` (either reweighting
                                   mode): all succeed, all at beta = 0, committed (n_t, exp logz_t) = `runR batchZR`
    C11_pipelineL_once             … hence the envelope in log space on the pipeline model
    warmupL_is_warmupR             the loop model agrees with C01's kept-block model `Model.Pipeline.warmupR` (what `pipe.F` runs)
    C11_phase_good_no_redraw       on the good event of `C11_warmup_concentration` nothing is redrawn: the concentration bound is
                                   a statement about the current code
-/
namespace Props.C11
open Model.Pipeline Model.PipelineR Model.Weights Model.Warmup Model.WarmupR Props.C04

/-! ### the loop -/

theorem drawLoop_spec {β : Type} (hasFin : β → Bool) (n : Nat) :
    ∀ (pending : List β) (cur : β) (nd : Nat) (kept : β) (nd' : Nat),
      drawLoop hasFin n pending cur nd = some (kept, nd') →
      hasFin kept = true ∧ ∃ k, (cur :: pending)[k]? = some kept ∧ nd' = nd + k * n ∧
        ∀ j, j < k → ∃ b, (cur :: pending)[j]? = some b ∧ hasFin b = false := by
  intro pending
  induction pending with
  | nil =>
    intro cur nd kept nd' h
    simp only [drawLoop] at h
    split at h
    · rename_i hf
      simp only [Option.some.injEq, Prod.mk.injEq] at h
      obtain ⟨rfl, rfl⟩ := h
      exact ⟨hf, 0, by simp, by simp, by intro j hj; omega⟩
    · cases h
  | cons b rest ih =>
    intro cur nd kept nd' h
    simp only [drawLoop] at h
    split at h
    · rename_i hf
      simp only [Option.some.injEq, Prod.mk.injEq] at h
      obtain ⟨rfl, rfl⟩ := h
      exact ⟨hf, 0, by simp, by simp, by intro j hj; omega⟩
    · rename_i hf
      split at h
      · cases h
      · obtain ⟨h1, k, h2, h3, h4⟩ := ih b (nd + n) kept nd' h
        refine ⟨h1, k + 1, by simpa using h2, by rw [h3]; ring, ?_⟩
        intro j hj
        cases j with
        | zero => exact ⟨cur, by simp, by simpa using hf⟩
        | succ j =>
          obtain ⟨b', hb', hf'⟩ := h4 j (by omega)
          exact ⟨b', by simpa using hb', hf'⟩

/-! ### the linear-space model with the new rule -/

theorem batchZR_no_redraw (h : List (Nat × ℝ)) (n nfin : Nat) : batchZR h n nfin n = batchZ h n nfin := by
  simp [batchZR, batchZ]

/-- when no iteration redraws, the run of the current code is the run of the first-pass model -/
theorem runR_no_redraw (bs : List (Nat × Nat)) : ∀ h : List (Nat × ℝ),
    runR h (bs.map fun b => (b.1, b.2, b.1)) = run batchZ h bs := by
  induction bs with
  | nil => intro h; rfl
  | cons b bs ih =>
    intro h
    obtain ⟨n, nfin⟩ := b
    simp only [List.map_cons, runR, run, batchZR_no_redraw]
    exact ih _

/-- a committed batch `(n, nfin, ndrawn)` is admissible when it is non-empty and, if its evidence was SET (it had −inf draws or
    blocks were discarded), the recorded fraction `nfin/ndrawn` lies in [lo, hi] -/
def BatchOkR (lo hi : ℝ) (b : Nat × Nat × Nat) : Prop :=
  0 < b.1 ∧ ((b.2.1 < b.1 ∨ b.1 < b.2.2) → lo ≤ (b.2.1 : ℝ) / (b.2.2 : ℝ) ∧ (b.2.1 : ℝ) / (b.2.2 : ℝ) ≤ hi)

theorem batchZR_inv (lo hi : ℝ) (hlo : 0 < lo) (h : List (Nat × ℝ)) (hne : h ≠ []) (hi' : Inv lo hi h)
    (b : Nat × Nat × Nat) (hb : BatchOkR lo hi b) :
    lo ≤ batchZR h b.1 b.2.1 b.2.2 ∧ batchZR h b.1 b.2.1 b.2.2 ≤ hi := by
  unfold batchZR
  split
  · rename_i hc; simpa using hb.2 hc
  · exact reweightZ_bounds lo hi hlo h hne (fun b hb' => (hi' b hb').1) (fun b hb' => (hi' b hb').2)

theorem runR_inv (lo hi : ℝ) (hlo : 0 < lo) (bs : List (Nat × Nat × Nat)) (h : List (Nat × ℝ)) (hne : h ≠ [])
    (hi' : Inv lo hi h) (hbs : ∀ b ∈ bs, BatchOkR lo hi b) : Inv lo hi (runR h bs) := by
  induction bs generalizing h with
  | nil => simpa [runR] using hi'
  | cons b bs ih =>
    obtain ⟨n, nfin, nd⟩ := b
    simp only [runR]
    have hb := hbs (n, nfin, nd) (by simp)
    have hz := batchZR_inv lo hi hlo h hne hi' (n, nfin, nd) hb
    apply ih
    · simp
    · intro c hc
      rcases List.mem_append.mp hc with hc | hc
      · exact hi' c hc
      · simp at hc; subst hc; exact ⟨hb.1, hz.1, hz.2⟩
    · intro c hc; exact hbs c (by simp [hc])

/-- C11 (counted once, current rule): if the first warm-up batch had its evidence set and every batch whose evidence is set
    records a fraction `n_finite/n_drawn` in [lo, hi], EVERY recorded warm-up evidence lies in [lo, hi] — however many
    warm-up iterations occur and however many blocks were discarded on the way -/
theorem C11_onceR (lo hi : ℝ) (hlo : 0 < lo) (b0 : Nat × Nat × Nat) (hfirst : b0.2.1 < b0.1 ∨ b0.1 < b0.2.2)
    (rest : List (Nat × Nat × Nat)) (hb : ∀ b ∈ b0 :: rest, BatchOkR lo hi b) :
    ∀ e ∈ runR [] (b0 :: rest), lo ≤ e.2 ∧ e.2 ≤ hi := by
  obtain ⟨n, nfin, nd⟩ := b0
  have h0 := hb (n, nfin, nd) (by simp)
  have hz : batchZR ([] : List (Nat × ℝ)) n nfin nd = (nfin : ℝ) / (nd : ℝ) := by
    unfold batchZR; rw [if_pos hfirst]; simp
  have hinv : Inv lo hi [(n, batchZR ([] : List (Nat × ℝ)) n nfin nd)] := by
    intro c hc; simp at hc; subst hc
    rw [hz]; exact ⟨h0.1, h0.2 hfirst⟩
  have := runR_inv lo hi hlo rest _ (by simp) hinv (fun b hb' => hb b (by simp [hb']))
  intro e he
  simp only [runR, List.nil_append] at he
  exact (this e he).2

/-- the first batch records `nfin/ndrawn` whenever the sizes are those the code produces (`nfin ≤ n ≤ ndrawn`, and
    `ndrawn = n` when nothing was redrawn) -/
theorem batchZR_first (n nfin nd : Nat) (hn : 0 < n) (hle : nfin ≤ n) (hnd : n ≤ nd) :
    batchZR ([] : List (Nat × ℝ)) n nfin nd = (nfin : ℝ) / (nd : ℝ) := by
  unfold batchZR
  split
  · simp
  · rename_i hc
    have h1 : nfin = n := by omega
    have h2 : nd = n := by omega
    rw [h1, h2]
    have : (n : ℝ) ≠ 0 := by exact_mod_cast hn.ne'
    simp [reweightZ, this]

/-- if the recorded fraction of EVERY warm-up iteration is within `ε < f` of `f`, every recorded evidence is -/
theorem C11_onceR_eps_all (f ε : ℝ) (hε : ε < f) (bs : List (Nat × Nat × Nat))
    (hb : ∀ b ∈ bs, 0 < b.1 ∧ b.2.1 ≤ b.1 ∧ b.1 ≤ b.2.2 ∧ |(b.2.1 : ℝ) / (b.2.2 : ℝ) - f| ≤ ε) :
    ∀ e ∈ runR [] bs, |e.2 - f| ≤ ε := by
  cases bs with
  | nil => intro e he; simp [runR] at he
  | cons b rest =>
    obtain ⟨n, nfin, nd⟩ := b
    obtain ⟨h0n, h0le, h0nd, h0⟩ := hb (n, nfin, nd) (by simp)
    have hz := batchZR_first n nfin nd h0n h0le h0nd
    have hinv : Inv (f - ε) (f + ε) [(n, batchZR ([] : List (Nat × ℝ)) n nfin nd)] := by
      intro c hc; simp at hc; subst hc
      rw [hz]
      have := abs_le.mp h0
      exact ⟨h0n, by linarith [this.1], by linarith [this.2]⟩
    have := runR_inv (f - ε) (f + ε) (by linarith) rest _ (by simp) hinv (fun c hc => by
      obtain ⟨c1, _, _, c3⟩ := hb c (by simp [hc])
      have := abs_le.mp c3
      exact ⟨c1, fun _ => ⟨by linarith [this.1], by linarith [this.2]⟩⟩)
    intro e he
    simp only [runR, List.nil_append] at he
    have h := (this e he).2
    rw [abs_le]; constructor <;> linarith [h.1, h.2]

/-! ### the rule before the fix -/

/-- C11 (the repaired finding F8, for the record): BEFORE /repo 959029e a non-empty warm-up batch with NO finite draw went through
    the replacement step unchanged (`Model.Pipeline.warmup`, `Model.RecSM.warmup`: nothing to copy from), so all its stored
    log-likelihoods were −inf — it could not be committed as a batch of real numbers — and the evidence recorded for it was
    `Z = 0`, i.e. `logz = −inf` (`Model.Warmup.batchZ`).  With the fix the same first block is DISCARDED: if the next block
    has a finite draw, that block is kept and `n_drawn = 2n`. -/
theorem C11_old_all_inf_batch_stored (t : Tape ℝ) (z : ℝ) (h0 : countSome t.drawL = 0) (hn : 0 < t.drawL.length)
    (h : List (Nat × ℝ)) (b : Block ℝ) (rest : List (Block ℝ)) (hb : hasFin b = true)
    (hcap : ¬ capFactor * t.drawL.length ≤ t.drawL.length) :
    -- old rule, pipeline model and linear-space model
    ((warmup t z).2.1 = t.drawL ∧ allSome (warmup t z).2.1 = none ∧ batchZ h t.drawL.length 0 = 0) ∧
    -- new rule: the block is dropped, the next one is kept
    Model.WarmupR.draw hasFin t.drawL.length (t.drawTags, t.drawL) (b :: rest) = some (b, t.drawL.length + t.drawL.length) := by
  obtain ⟨e1, _, e3⟩ := C11_warmup_all_inf_excluded t z h0 hn
  refine ⟨⟨e1, e3, C11_all_inf_batch h _ hn⟩, ?_⟩
  have hnf : hasFin ((t.drawTags, t.drawL) : Block ℝ) = false := by simp [hasFin, h0]
  unfold Model.WarmupR.draw
  cases rest with
  | nil => simp [drawLoop, hnf, hb, hcap]
  | cons b' rest' => simp [drawLoop, hnf, hb, hcap]

/-! ### the warm-up mutation after the fix -/

theorem warmupL_eq (n : Nat) (rt : RTape ℝ) (z : ℝ) (kept : Block ℝ) (nd : Nat)
    (hd : Model.WarmupR.draw hasFin n (rt.t.drawTags, rt.t.drawL) rt.pending = some (kept, nd)) :
    warmupL n rt z = some ((warmup { rt.t with drawTags := kept.1, drawL := kept.2 } z).1,
      (warmup { rt.t with drawTags := kept.1, drawL := kept.2 } z).2.1,
      (if countSome kept.2 < kept.2.length ∨ n < nd
        then Real.log ((countSome kept.2 : ℝ) / (nd : ℝ)) else z), nd) := by
  unfold warmupL
  rw [hd]
  simp

/-- what the loop hands on always has a finite draw, is one of the blocks on the tape, and `n ≤ n_drawn` -/
theorem draw_spec (n : Nat) (first : Block ℝ) (pending : List (Block ℝ)) (kept : Block ℝ) (nd : Nat)
    (hd : Model.WarmupR.draw hasFin n first pending = some (kept, nd)) :
    0 < countSome kept.2 ∧ kept ∈ first :: pending ∧ n ≤ nd := by
  obtain ⟨h1, k, h2, h3, _⟩ := drawLoop_spec hasFin n pending first n kept nd hd
  refine ⟨by simpa [hasFin] using h1, List.mem_of_getElem? h2, by rw [h3]; exact Nat.le_add_right _ _⟩

/-- C11 (no −inf particle is stored — for EVERY tape): whatever blocks of draws arrive, whenever the warm-up mutation of the
    current code returns at all (it raises only after `1000·n` draws without a finite one), every stored log-likelihood is
    finite, the batch has the size of the kept block, and every stored value is a finite value that was DRAWN in this
    iteration.  The only hypothesis is numpy's: the picks are positions of finite draws of the kept block. -/
theorem C11_warmupL_all_finite (n : Nat) (rt : RTape ℝ) (z : ℝ) (r : List Nat × List (Option ℝ) × ℝ × Nat)
    (h : warmupL n rt z = some r)
    (hp : ∀ kept nd, Model.WarmupR.draw hasFin n (rt.t.drawTags, rt.t.drawL) rt.pending = some (kept, nd) →
      PicksOk kept.2 rt.t.picks) :
    ∃ l, allSome r.2.1 = some l ∧
      (∃ kept ∈ (rt.t.drawTags, rt.t.drawL) :: rt.pending, l.length = kept.2.length ∧ ∀ v ∈ l, some v ∈ kept.2) ∧
      n ≤ r.2.2.2 := by
  cases hd : Model.WarmupR.draw hasFin n (rt.t.drawTags, rt.t.drawL) rt.pending with
  | none => simp [warmupL, hd] at h
  | some kn =>
    obtain ⟨kept, nd⟩ := kn
    rw [warmupL_eq n rt z kept nd hd] at h
    injection h with h
    subst h
    obtain ⟨hfin, hmem, hnd⟩ := draw_spec n _ _ kept nd hd
    obtain ⟨l, h1, h2, h3⟩ := C11_warmup_all_finite ({ rt.t with drawTags := kept.1, drawL := kept.2 } : Tape ℝ) z hfin
      (hp kept nd hd)
    exact ⟨l, h1, ⟨kept, hmem, h2, h3⟩, hnd⟩

/-! ### warm-up iterations of the pipeline model with the new branch -/

/-- a warm-up tape the statement covers: the loop ends (before the cap, on the tape), the blocks have `n_particles` rows, the
    picks are numpy's.  NOTHING is assumed about which draws are finite. -/
structure RTapeOk (n : Nat) (rt : RTape ℝ) (kept : Block ℝ) (nd : Nat) : Prop where
  draw : Model.WarmupR.draw hasFin n (rt.t.drawTags, rt.t.drawL) rt.pending = some (kept, nd)
  len : kept.2.length = n
  picks : PicksOk kept.2 rt.t.picks

/-- one warm-up iteration, either reweighting mode -/
theorem warm_iterateL (c : PCfg ℝ) (s : PState ℝ) (hs : WInv s) (rt : RTape ℝ) (kept : Block ℝ) (nd : Nat)
    (ht : RTapeOk c.rw.nPart rt kept nd)
    (hpool : s.hist ≠ [] → PoolOk c.rw (nTotal (batches s.hist) : ℝ)) :
    ∃ s' o, iterateL c s rt = some (s', o) ∧ WInv s' ∧ o.o.beta = 0 ∧ o.nDrawn = nd ∧
      lin (batches s'.hist) = lin (batches s.hist) ++
        [(kept.2.length, batchZR (lin (batches s.hist)) kept.2.length (countSome kept.2) nd)] ∧
      nTotal (batches s'.hist) = nTotal (batches s.hist) + kept.2.length := by
  have hpool' : batches s.hist ≠ [] → PoolOk c.rw (nTotal (batches s.hist) : ℝ) := by
    intro hne; apply hpool; intro he; apply hne; simp [batches, he]
  obtain ⟨hrb, hrz⟩ := warm_reweight_gen c.rw (batches s.hist) hs.hist0 hs.npos hpool'
  obtain ⟨hfin, _, hnd⟩ := draw_spec _ _ _ kept nd ht.draw
  set tk : Tape ℝ := { rt.t with drawTags := kept.1, drawL := kept.2 } with htk
  set z : ℝ := (Model.Reweight.run c.rw (batches s.hist).isEmpty (oracleM (batches s.hist)) (oracleZ (batches s.hist))
    isFin 0).logz with hz
  obtain ⟨l, hl, hlen, _⟩ := C11_warmup_all_finite tk z hfin ht.picks
  have hnpos : 0 < kept.2.length := lt_of_lt_of_le hfin List.countP_le_length
  have hndpos : (0 : ℝ) < (nd : ℝ) := by
    have : 0 < nd := by rw [ht.len] at hnpos; omega
    exact_mod_cast this
  have hposL := lin_pos (batches s.hist) hs.npos
  -- the evidence committed with the batch, in linear space
  have hexp : Real.exp (if countSome kept.2 < kept.2.length ∨ c.rw.nPart < nd
        then Real.log ((countSome kept.2 : ℝ) / (nd : ℝ)) else z)
      = batchZR (lin (batches s.hist)) kept.2.length (countSome kept.2) nd := by
    unfold batchZR
    rw [ht.len]
    split
    · simp only [ScReal.div_def, ScReal.ofNat_def]
      rw [Real.exp_log]
      have h1 : (0 : ℝ) < (countSome kept.2 : ℝ) := by exact_mod_cast hfin
      positivity
    · rw [hrz]
      exact Real.exp_log (reweightZ_pos _ hposL.1 hposL.2)
  have hw := warmupL_eq c.rw.nPart rt z kept nd ht.draw
  unfold iterateL
  simp only [hs.beta0]
  have heq : Model.Reweight.eqv (Model.Reweight.run c.rw (batches s.hist).isEmpty (oracleM (batches s.hist))
      (oracleZ (batches s.hist)) isFin (0 : ℝ)).beta Sc.zero = true := by
    rw [hrb]; simp [Model.Reweight.eqv]
  simp only [ScReal.zero_def] at heq ⊢
  rw [if_pos heq, ← hz, hw]
  simp only [Option.bind_some, ← htk, hl, Option.map_some]
  have hb0 := hrb
  refine ⟨_, _, rfl, ⟨hb0, ?_, ?_⟩, hb0, rfl, ?_, ?_⟩
  · intro b hb
    simp only [batches, List.map_append, List.mem_append, List.map_cons, List.map_nil, List.mem_singleton] at hb
    rcases hb with hb | rfl
    · exact hs.hist0 b hb
    · exact hb0
  · intro b hb
    simp only [batches, List.map_append, List.mem_append, List.map_cons, List.map_nil, List.mem_singleton] at hb
    rcases hb with hb | rfl
    · exact hs.npos b hb
    · simp only [hlen]; show 1 ≤ kept.2.length; omega
  · rw [← hexp]
    simp [batches, lin, hlen, htk]
  · simp only [batches, List.map_append, List.map_cons, List.map_nil]
    rw [nTotal_append]; simp [hlen, htk]

/-- `(n, n_finite, n_drawn)` of a warm-up iteration -/
def sizesR (kn : Block ℝ × Nat) : Nat × Nat × Nat := (kn.1.2.length, countSome kn.1.2, kn.2)

/-- any number of warm-up iterations, either mode; `ks` lists the kept block and `n_drawn` of every iteration -/
theorem warm_runItersL (c : PCfg ℝ) (ts : List (RTape ℝ)) :
    ∀ (ks : List (Block ℝ × Nat)) (s : PState ℝ), WInv s → ts.length = ks.length →
      (∀ i (hi : i < ts.length) (hk : i < ks.length), RTapeOk c.rw.nPart ts[i] ks[i].1 ks[i].2) →
      (∀ k, k < ts.length → (s.hist ≠ [] ∨ 0 < k) →
        PoolOk c.rw ((nTotal (batches s.hist) : ℝ) + ((k * c.rw.nPart : ℕ) : ℝ))) →
      ∃ sf outs, runItersL c s ts = some (sf, outs) ∧ WInv sf ∧ (∀ o ∈ outs, o.o.beta = 0) ∧
        outs.map (·.nDrawn) = ks.map (·.2) ∧
        lin (batches sf.hist) = runR (lin (batches s.hist)) (ks.map sizesR) := by
  induction ts with
  | nil =>
    intro ks s hs hlen _ _
    have : ks = [] := by cases ks <;> simp_all
    subst this
    exact ⟨s, [], rfl, hs, by simp, rfl, by simp [runR]⟩
  | cons t ts ih =>
    intro ks s hs hlen hts hpool
    cases ks with
    | nil => simp at hlen
    | cons kn ks =>
      have ht0 := hts 0 (by simp) (by simp)
      simp only [List.getElem_cons_zero] at ht0
      obtain ⟨s', o, hit, hs', hob, hnd, hlin, hnt⟩ := warm_iterateL c s hs t kn.1 kn.2 ht0
        (fun hne => by simpa using hpool 0 (by simp) (Or.inl hne))
      obtain ⟨sf, outs, hrun, hsf, hbeta, hnds, hfin⟩ := ih ks s' hs' (by simpa using hlen)
        (fun i hi hk => by
          have := hts (i + 1) (by simpa using hi) (by simpa using hk)
          simpa using this)
        (fun k hk _ => by
          have := hpool (k + 1) (by simpa using hk) (Or.inr (by omega))
          rw [hnt, ht0.len]; push_cast
          have e : (nTotal (batches s.hist) : ℝ) + (c.rw.nPart : ℝ) + (k : ℝ) * (c.rw.nPart : ℝ)
              = (nTotal (batches s.hist) : ℝ) + ((k : ℝ) + 1) * (c.rw.nPart : ℝ) := by ring
          rw [e]
          push_cast at this
          exact this)
      refine ⟨sf, o :: outs, ?_, hsf, ?_, ?_, ?_⟩
      · simp [runItersL, hit, hrun]
      · intro o' ho'
        rcases List.mem_cons.mp ho' with rfl | ho'
        · exact hob
        · exact hbeta o' ho'
      · simp [hnd, hnds]
      · rw [hfin, hlin]; simp [runR, sizesR]

/-- C11 (pipeline, counted once, current code, both reweighting modes): run ANY number of iterations of
    `Model.PipelineR.iterateL` from the initial state.  NOTHING is assumed about which draws are finite: the tapes only have to
    let the redraw loop end (a block with a finite draw arrives before the cap and before the tape ends).  With the pool below
    the ESS target before each iteration: every iteration succeeds — so every stored log-likelihood is a real number —, is
    at beta = 0, makes the `n_drawn` draws the loop says, and the committed `(n_t, exp logz_t)` are exactly the evidences of
    the linear-space model `runR` with the rule `n_finite / n_drawn`. -/
theorem C11_pipelineL_warmup (c : PCfg ℝ) (ts : List (RTape ℝ)) (ks : List (Block ℝ × Nat)) (hlen : ts.length = ks.length)
    (hts : ∀ i (hi : i < ts.length) (hk : i < ks.length), RTapeOk c.rw.nPart ts[i] ks[i].1 ks[i].2)
    (hpool : ∀ k, 0 < k → k < ts.length → PoolOk c.rw (((k * c.rw.nPart : ℕ)) : ℝ)) :
    ∃ sf outs, runItersL c init ts = some (sf, outs) ∧ (∀ o ∈ outs, o.o.beta = 0) ∧
      outs.map (·.nDrawn) = ks.map (·.2) ∧ (∀ b ∈ batches sf.hist, b.beta = 0) ∧
      lin (batches sf.hist) = runR [] (ks.map sizesR) := by
  obtain ⟨sf, outs, h1, h2, h3, h4, h5⟩ := warm_runItersL c ts ks init winv_init hlen hts
    (fun k hk hor => by
      rcases hor with h | h
      · exact absurd rfl h
      · simpa [init, batches, nTotal] using hpool k h hk)
  exact ⟨sf, outs, h1, h3, h4, h2.hist0, by simpa [init, batches, lin] using h5⟩

/-- … hence on the pipeline model of the current code: if the first iteration's evidence was set and every set fraction
    `n_finite/n_drawn` lies in `[lo, hi]`, every committed warm-up evidence satisfies `log lo ≤ logz_t ≤ log hi` -/
theorem C11_pipelineL_once (c : PCfg ℝ) (ts : List (RTape ℝ)) (k0 : Block ℝ × Nat) (ks : List (Block ℝ × Nat))
    (hlen : ts.length = (k0 :: ks).length)
    (hts : ∀ i (hi : i < ts.length) (hk : i < (k0 :: ks).length), RTapeOk c.rw.nPart ts[i] (k0 :: ks)[i].1 (k0 :: ks)[i].2)
    (hpool : ∀ k, 0 < k → k < ts.length → PoolOk c.rw (((k * c.rw.nPart : ℕ)) : ℝ))
    (lo hi : ℝ) (hlo : 0 < lo) (hfirst : (sizesR k0).2.1 < (sizesR k0).1 ∨ (sizesR k0).1 < (sizesR k0).2.2)
    (hb : ∀ kn ∈ k0 :: ks, BatchOkR lo hi (sizesR kn)) :
    ∃ sf outs, runItersL c init ts = some (sf, outs) ∧
      ∀ b ∈ batches sf.hist, b.beta = 0 ∧ Real.log lo ≤ b.logz ∧ b.logz ≤ Real.log hi := by
  obtain ⟨sf, outs, h1, _, _, h4, h5⟩ := C11_pipelineL_warmup c ts (k0 :: ks) hlen hts hpool
  refine ⟨sf, outs, h1, ?_⟩
  intro b hb'
  have hmem : ((b.logl.length, Real.exp b.logz) : Nat × ℝ) ∈ lin (batches sf.hist) := by
    simp only [lin, List.mem_map]; exact ⟨b, hb', rfl⟩
  rw [h5] at hmem
  have := C11_onceR lo hi hlo (sizesR k0) hfirst (ks.map sizesR)
    (by
      intro q hq
      simp only [List.mem_cons, List.mem_map] at hq
      rcases hq with rfl | ⟨kn, hkn, rfl⟩
      · exact hb k0 (by simp)
      · exact hb kn (by simp [hkn])) _ (by simpa using hmem)
  simp only at this
  refine ⟨h4 b hb', ?_, ?_⟩
  · have := Real.log_le_log hlo this.1; rwa [Real.log_exp] at this
  · have := Real.log_le_log (Real.exp_pos _) this.2; rwa [Real.log_exp] at this

/-! ### the loop model and C01's kept-block model of the same branch agree -/

/-- `Model.Pipeline.warmupR t disc z` (added by C01's owner after 959029e; what `pipe.F` executes and the replay suites tie to
    the real sampler) sees the warm-up from the KEPT block with the number `disc` of discarded draws as an input.  The loop
    model computes both: `warmupL` is `Model.Pipeline.warmupR` on the block the loop keeps with `disc = n_drawn − n` -/
theorem warmupL_is_warmupR (n : Nat) (rt : RTape ℝ) (z : ℝ) (kept : Block ℝ) (nd : Nat)
    (hd : Model.WarmupR.draw hasFin n (rt.t.drawTags, rt.t.drawL) rt.pending = some (kept, nd))
    (hlen : kept.2.length = n) :
    warmupL n rt z = some ((Model.Pipeline.warmupR { rt.t with drawTags := kept.1, drawL := kept.2 } (nd - n) z).1,
      (Model.Pipeline.warmupR { rt.t with drawTags := kept.1, drawL := kept.2 } (nd - n) z).2.1,
      (Model.Pipeline.warmupR { rt.t with drawTags := kept.1, drawL := kept.2 } (nd - n) z).2.2, nd) := by
  obtain ⟨hfin, _, hnd⟩ := draw_spec n _ _ kept nd hd
  rw [warmupL_eq n rt z kept nd hd]
  have hnn : kept.2.length + (nd - n) = nd := by omega
  by_cases h1 : countSome kept.2 < kept.2.length
  · have hgt : countSome kept.2 > 0 := hfin
    simp [Model.Pipeline.warmupR, warmup, h1, hgt, hnn]
  · by_cases h2 : n < nd
    · have h3 : 0 < nd - n := by omega
      have hgt : countSome kept.2 > 0 := hfin
      have hempty : (List.range kept.2.length).filter (fun i => !((kept.2[i]?).join.isSome)) = [] := by
        have hall : ∀ v ∈ kept.2, v.isSome = true := by
          have hc : List.countP Option.isSome kept.2 = kept.2.length :=
            le_antisymm List.countP_le_length (not_lt.mp h1)
          exact fun v hv => List.countP_eq_length.mp hc v hv
        apply List.filter_eq_nil_iff.mpr
        intro i hi
        rw [List.mem_range] at hi
        rw [List.getElem?_eq_getElem hi]
        have := hall kept.2[i] (List.getElem_mem hi)
        cases hv : kept.2[i] with
        | none => rw [hv] at this; cases this
        | some w => simp
      have hempty' : List.filter (fun i => kept.2[i]?.join.isNone) (List.range kept.2.length) = [] := by
        rw [← hempty]; apply List.filter_congr; intro i _; cases kept.2[i]?.join <;> rfl
      have sc : ∀ {γ : Type} (xs : List γ) (p : List Nat), Model.Records.scatterFrom xs [] p = xs := by
        intro γ xs p; cases p <;> rfl
      simp [Model.Pipeline.warmupR, warmup, h1, h2, h3, hnn, hempty', sc]
    · have h3 : ¬ 0 < nd - n := by omega
      simp [Model.Pipeline.warmupR, warmup, h1, h2, h3]

/-! ### the concentration bound speaks about the current code -/

/-- on the good event of `C11_warmup_concentration` every batch has a finite draw, so the current code redraws nothing and
    records exactly the evidences of `run batchZ` (new rule with `n_drawn = n`) -/
theorem C11_phase_good_no_redraw {Ω : Type} (A : Ω → Prop) [DecidablePred A] (k n : ℕ) (f ε : ℝ)
    (ω : Fin k → Fin n → Ω) (_hg : PhaseGood A k n f ε ω) :
    runR ([] : List (Nat × ℝ)) ((phaseSizes A k n ω).map fun b => (b.1, b.2, b.1)) = run batchZ [] (phaseSizes A k n ω) :=
  runR_no_redraw _ _

/-! ### non-vacuity -/

/-- n_particles = 2, ess_ratio = 3/2: first iteration: block 1 has no finite draw and is discarded, block 2 (tags 4, 5) has one;
    n_drawn = 4, recorded Z = 1/4.  Second iteration: all finite, nothing redrawn: harmonic mean = 1/4. -/
example : ∃ sf outs, runItersL (⟨⟨3 / 2, 2, none, 1 / 100, 1 / 10000, 20⟩, true⟩ : PCfg ℝ) init
      [⟨⟨[0, 1], [none, none], [1], [], []⟩, [([4, 5], [none, some (-1)])]⟩,
       ⟨⟨[2, 3], [some (-2), some (-3)], [], [], []⟩, []⟩] = some (sf, outs) ∧
    (∀ o ∈ outs, o.o.beta = 0) ∧ outs.map (·.nDrawn) = [4, 2] ∧ (∀ b ∈ batches sf.hist, b.beta = 0) ∧
    lin (batches sf.hist) = runR [] [(2, 1, 4), (2, 2, 2)] := by
  have := C11_pipelineL_warmup (⟨⟨3 / 2, 2, none, 1 / 100, 1 / 10000, 20⟩, true⟩ : PCfg ℝ)
    [⟨⟨[0, 1], [none, none], [1], [], []⟩, [([4, 5], [none, some (-1)])]⟩,
     ⟨⟨[2, 3], [some (-2), some (-3)], [], [], []⟩, []⟩]
    [(([4, 5], [none, some (-1)]), 4), (([2, 3], [some (-2), some (-3)]), 2)] rfl
    (by
      intro i hi hk
      have : i = 0 ∨ i = 1 := by simp at hi; omega
      rcases this with rfl | rfl
      · exact ⟨by simp [Model.WarmupR.draw, drawLoop, hasFin, countSome, capFactor], rfl,
          by simp [infIdx, List.range_succ], by simp⟩
      · exact ⟨by simp [Model.WarmupR.draw, drawLoop, hasFin, countSome], rfl,
          by simp [infIdx, List.range_succ], by simp⟩)
    (by
      intro k hk0 hk
      have : k = 1 := by simp at hk; omega
      subst this
      left
      exact ⟨rfl, by simp [Model.Reweight.Cfg.target]; norm_num⟩)
  simpa [sizesR, countSome] using this

example : (runR ([] : List (Nat × ℝ)) [(2, 1, 4), (2, 2, 2)]).map (·.2) = [1 / 4, 1 / 4] := by
  simp [runR, batchZR, reweightZ, invMix, total]

end Props.C11
