import TempestVerif.Props.C08Resume
import TempestVerif.Props.C12
/-
  C08, clause audit — "terminates with the same postconditions as an uninterrupted run": the loop of `Model.Resume` with the
  guard of `_not_termination` as C12 models it (`Model.Run.notTermination`, tolerance regenerated from source), started from
  ANY world — a freshly initialised one or one restored from a checkpoint — with ANY iteration oracle.
-/
namespace Props.C08
open Model.Resume

section Post
variable {G C B : Type}

/-- when the loop returns, its guard is false at the final world, and the loop never changes `n_total` -/
theorem loopW_exit (F : Model.Checkpoint.State → G → C → Model.Checkpoint.StepIn × G × C)
    (cont : Model.Checkpoint.State → Option Model.Checkpoint.Val → Bool) (fuel : Nat) (r wE : World G C)
    (h : loopW F cont fuel r = some wE) : cont wE.core.sm wE.core.nTotal = false ∧ wE.core.nTotal = r.core.nTotal := by
  induction fuel generalizing r with
  | zero =>
    simp only [loopW] at h
    split at h
    · cases h
    · rename_i hc
      simp only [Option.some.injEq] at h; subst h
      exact ⟨by simpa using hc, rfl⟩
  | succ fuel ih =>
    simp only [loopW] at h
    split at h
    · simp only [Option.bind_eq_some_iff] at h
      obtain ⟨r1, h1, h2⟩ := h
      obtain ⟨e1, e2⟩ := ih r1 h2
      refine ⟨e1, ?_⟩
      rw [e2]
      simp only [iterate, Option.map_eq_some_iff] at h1
      obtain ⟨sm', _, rfl⟩ := h1
      rfl
    · rename_i hc
      simp only [Option.some.injEq] at h; subst h
      exact ⟨by simpa using hc, rfl⟩

/-- `C08_resume_postconditions`: let `β`, `logw`, `N` read the temperature, the log-weights at β = 1
    (`compute_logw_and_logz(1.0)[0]`) and `n_total` off a sampler.  From ANY starting world `r` — in particular the one
    `prologueResume` produces from a checkpoint, whose `n_total` is the RESUMING call's argument — and for ANY iteration
    oracle (no H_comp): whenever the loop returns, the history is non-empty, `1 − β` is below the regenerated tolerance, and
    the effective sample size of the normalised posterior weights over the whole history is at least `n_total` — C12's
    postconditions of an uninterrupted run, word for word (`Props.C12.C12_run_post_concrete`). -/
theorem C08_resume_postconditions (F : Model.Checkpoint.State → G → C → Model.Checkpoint.StepIn × G × C)
    (β : Model.Checkpoint.State → ℝ) (logw : Model.Checkpoint.State → List ℝ) (N : Option Model.Checkpoint.Val → ℝ)
    (fuel : Nat) (r wE : World G C)
    (h : loopW F (fun s n => Model.Run.notTermination Props.C12.termTol (β s) (logw s) (N n)) fuel r = some wE) :
    wE.core.nTotal = r.core.nTotal ∧ logw wE.core.sm ≠ [] ∧ 1 - β wE.core.sm < Props.C12.termTol ∧
    ∃ w0, Model.Posterior.weights0 (logw wE.core.sm) = some w0 ∧ w0.length = (logw wE.core.sm).length ∧
      N r.core.nTotal ≤ Model.Ess.ess w0 := by
  obtain ⟨hg, hn⟩ := loopW_exit _ _ fuel r wE h
  refine ⟨hn, ?_⟩
  cases hw : logw wE.core.sm with
  | nil => simp [hw, Model.Run.notTermination] at hg
  | cons x xs =>
    simp only [hw, Model.Run.notTermination] at hg
    rw [Props.C12.notTerm_false_iff] at hg
    obtain ⟨w0, hw0, hlen, _, _⟩ := Props.C12.weights0_facts (x :: xs) (by simp)
    refine ⟨by simp, hg.1, w0, hw0, hlen, ?_⟩
    have hw0' : w0 = Model.Ess.normalise (Model.Posterior.expShift x xs) := by
      simp only [Model.Posterior.weights0, Option.some.injEq] at hw0; exact hw0.symm
    rw [hw0', Props.C12.C12_guard_ess_is_posterior_ess, ← hn]
    exact hg.2

/-- … instantiated at a resumed run: the bound is the `n_total` of the resuming call, not the one stored in the checkpoint -/
theorem C08_resume_postconditions_nT (F : Model.Checkpoint.State → G → C → Model.Checkpoint.StepIn × G × C)
    (β : Model.Checkpoint.State → ℝ) (logw : Model.Checkpoint.State → List ℝ) (N : Option Model.Checkpoint.Val → ℝ)
    (f : World G C) (d : CkDict G B) (nT : Int) (fuel : Nat) (r wE : World G C)
    (hr : prologueResume f d nT = some r)
    (h : loopW F (fun s n => Model.Run.notTermination Props.C12.termTol (β s) (logw s) (N n)) fuel r = some wE) :
    1 - β wE.core.sm < Props.C12.termTol ∧
    ∃ w0, Model.Posterior.weights0 (logw wE.core.sm) = some w0 ∧ N (some (Model.Checkpoint.Val.int nT)) ≤ Model.Ess.ess w0 := by
  obtain ⟨_, _, h3, w0, h4, _, h5⟩ := C08_resume_postconditions F β logw N fuel r wE h
  refine ⟨h3, w0, h4, ?_⟩
  have : r.core.nTotal = some (Model.Checkpoint.Val.int nT) := by
    simp only [prologueResume, Option.bind_eq_some_iff] at hr
    obtain ⟨w1, _, hr⟩ := hr
    split at hr
    · simp only [Option.some.injEq] at hr; subst hr; rfl
    · cases hr
  rwa [this] at h5

/-- non-vacuity: a world restored from the toy checkpoint of `exW0` after one iteration, with a history of one particle at
    β = 1 and `n_total = 1`: the guard is false, the loop returns at once, and the theorem's hypotheses are met -/
example : ∃ wE : World Nat Bool,
    loopW exF (fun s n => Model.Run.notTermination Props.C12.termTol ((fun _ => (1 : ℝ)) s) ((fun _ => [(0 : ℝ)]) s)
      ((fun _ => (1 : ℝ)) n)) 0 exW0 = some wE := by
  refine ⟨exW0, ?_⟩
  have hs : Model.Run.notTermination Props.C12.termTol (1 : ℝ) ([0] : List ℝ) 1 = false := by
    simp only [Model.Run.notTermination]
    rw [Props.C12.notTerm_false_iff]
    refine ⟨by unfold Props.C12.termTol; rw [Props.C12.C12_term_tol.1, Props.C12.C12_term_tol.2]; norm_num, ?_⟩
    rw [Props.C20.ess_def]; simp [Model.Ess.maxOf]
  simp only [loopW, hs]
  rfl

end Post

end Props.C08
