import TempestVerif.Model.Modes
import TempestVerif.Model.Cadence
import TempestVerif.Lemmas.CholeskyPD
import TempestVerif.Props.C15
import TempestVerif.Gen.Constants
import Mathlib.Data.List.Sort
import Mathlib.Tactic
/-
  C14 — cluster labels and proposal modes stay coherent.

  Four parts, mirroring the statement:
    (cadence)  the shared clusterer is always fitted before it is asked to predict — every `cluster_every ≥ 1`,
               every β-schedule, every sequence of save/load/resume boundaries            `C14_cadence*`
    (labels)   `Mutator.run` maps every RAW cluster label through `ModeStatistics.mode_index` to the index of a mode that
               exists and was built from exactly the training particles of the (re)label; present labels keep
               their own mode — for EVERY label vector and EVERY raw assignment                `C14_labels_full`
               (the raw-index lookup used before commit 88d298f does not: `C14_labels_old_lookup_fails`, F12)
    (cap)      `K_fit ≤ n_max_clusters` from the wiring and C15's bound                     `C14_cap`
    (validity) a mode object that exists has a Cholesky factor of every scale matrix       `C14_modes_valid_by_construction`
-/
namespace Props.C14
open Model.Modes Model.Cadence

/-! ## labels → modes -/

theorem mem_insertU (a x : Nat) (l : List Nat) : x ∈ insertU a l ↔ x = a ∨ x ∈ l := by
  induction l with
  | nil => simp [insertU]
  | cons b bs ih =>
    simp only [insertU]
    split
    · simp
    · split
      · rename_i h1 h2; subst h2; simp
      · simp [ih]; tauto

theorem pairwise_insertU (a : Nat) (l : List Nat) (h : l.Pairwise (· < ·)) : (insertU a l).Pairwise (· < ·) := by
  induction l with
  | nil => simp [insertU]
  | cons b bs ih =>
    rw [List.pairwise_cons] at h
    simp only [insertU]
    split
    · rename_i hab
      refine List.pairwise_cons.2 ⟨?_, List.pairwise_cons.2 h⟩
      intro x hx
      rcases List.mem_cons.1 hx with rfl | hx
      · exact hab
      · exact Nat.lt_trans hab (h.1 x hx)
    · split
      · exact List.pairwise_cons.2 h
      · rename_i h1 h2
        refine List.pairwise_cons.2 ⟨?_, ih h.2⟩
        intro x hx
        rcases (mem_insertU a x bs).1 hx with rfl | hx
        · omega
        · exact h.1 x hx

/-- `np.unique` keeps exactly the labels present -/
theorem mem_uniqueSorted (labels : List Nat) (x : Nat) : x ∈ uniqueSorted labels ↔ x ∈ labels := by
  induction labels with
  | nil => simp [uniqueSorted]
  | cons a as ih =>
    have : uniqueSorted (a :: as) = insertU a (uniqueSorted as) := rfl
    rw [this, mem_insertU, ih]; simp

/-- `np.unique` is strictly increasing (so: no duplicates) -/
theorem pairwise_uniqueSorted (labels : List Nat) : (uniqueSorted labels).Pairwise (· < ·) := by
  induction labels with
  | nil => simp [uniqueSorted]
  | cons a as ih => exact pairwise_insertU a _ ih

/-- the members of a mode are exactly the training particles carrying its label -/
theorem mem_indicesOf (labels : List Nat) (a i : Nat) : i ∈ indicesOf labels a ↔ labels[i]? = some a := by
  unfold indicesOf
  simp only [List.mem_filter, List.mem_range, beq_iff_eq]
  constructor
  · exact fun h => h.2
  · intro h
    refine ⟨?_, h⟩
    by_contra hlt
    rw [List.getElem?_eq_none (by omega)] at h
    cases h

theorem indicesOf_ne_nil (labels : List Nat) (a : Nat) (h : a ∈ labels) : indicesOf labels a ≠ [] := by
  obtain ⟨i, hi, rfl⟩ := List.mem_iff_getElem.1 h
  intro hnil
  have : i ∈ indicesOf labels labels[i] := (mem_indicesOf labels _ i).2 (by simp [hi])
  rw [hnil] at this
  cases this

/-- **mode index = RANK of the label among the present labels** (what `from_particles` builds) -/
theorem C14_lookup_by_rank (labels : List Nat) (i : Nat) :
    modeOfRaw (fromParticles labels) i = ((uniqueSorted labels)[i]?).map (indicesOf labels) := by
  simp [modeOfRaw, fromParticles]

/-- number of modes = number of distinct labels present -/
theorem numModes_eq (labels : List Nat) : numModes labels = (uniqueSorted labels).length := by
  simp [numModes, fromParticles]

/-- `searchsorted` finds a present label at its own position -/
theorem searchsorted_mem (ul : List Nat) (h : ul.Pairwise (· < ·)) (a : Nat) (ha : a ∈ ul) :
    ul[searchsorted ul a]? = some a := by
  induction ul with
  | nil => cases ha
  | cons b bs ih =>
    rw [List.pairwise_cons] at h
    simp only [searchsorted]
    rcases List.mem_cons.1 ha with rfl | hab
    · simp
    · have hlt : b < a := h.1 a hab
      simp [hlt, ih h.2 hab]

/-- what `mode_index` returns for a label that HAS a mode: its position, whatever the fallback would have been -/
theorem modeIndex_present (ul : List Nat) (h : ul.Pairwise (· < ·)) (nearest a : Nat) (ha : a ∈ ul) :
    ul[modeIndex ul nearest a]? = some a ∧ modeIndex ul nearest a = searchsorted ul a := by
  have hs := searchsorted_mem ul h a ha
  have hlt : searchsorted ul a < ul.length := by
    by_contra hge
    rw [List.getElem?_eq_none (by omega)] at hs
    cases hs
  have hmin : min (searchsorted ul a) (ul.length - 1) = searchsorted ul a := by omega
  have : modeIndex ul nearest a = searchsorted ul a := by
    simp [modeIndex, hmin, hs]
  exact ⟨by rw [this]; exact hs, this⟩

/-- what `mode_index` returns in general: an index `< K` (given that the `argmin` fallback is) -/
theorem modeIndex_lt (ul : List Nat) (hne : ul ≠ []) (nearest a : Nat) (hn : nearest < ul.length) :
    modeIndex ul nearest a < ul.length := by
  have hpos : 0 < ul.length := List.length_pos_iff.2 hne
  unfold modeIndex
  simp only
  split
  · omega
  · exact hn

/-- **C14 (labels), FULL.**  For every non-empty training label vector, EVERY raw assignment `a` (present or not, in range or
    not) and every value `nearest < K` of the nearest-mean `argmin`:
      * the index handed to the kernel is `< K_modes`, so the kernel's lookup succeeds;
      * the relabelled assignment written back to the state is a label PRESENT among the training particles;
      * the mode at that index was built from exactly the training particles carrying that (relabelled) label
        (`i ∈ mode ↔ labels[i] = l`), a non-empty set;
      * if the raw label is present the relabelling is the identity and the fallback is not consulted. -/
theorem C14_labels_full (labels : List Nat) (hne : labels ≠ []) (nearest a : Nat) (hn : nearest < numModes labels) :
    modeIndex (labelsOf labels) nearest a < numModes labels ∧
    ∃ l, relabel (labelsOf labels) nearest a = some l ∧ l ∈ labels ∧
      modeOf labels nearest a = some (indicesOf labels l) ∧
      (∀ i, i ∈ indicesOf labels l ↔ labels[i]? = some l) ∧ indicesOf labels l ≠ [] ∧
      (a ∈ labels → l = a ∧ ∀ n', modeIndex (labelsOf labels) n' a = modeIndex (labelsOf labels) nearest a) := by
  have hul : uniqueSorted labels ≠ [] := by
    obtain ⟨x, hx⟩ := List.exists_mem_of_ne_nil labels hne
    exact List.ne_nil_of_mem ((mem_uniqueSorted labels x).2 hx)
  rw [numModes_eq] at hn ⊢
  have hlt := modeIndex_lt (uniqueSorted labels) hul nearest a hn
  refine ⟨hlt, (uniqueSorted labels)[modeIndex (uniqueSorted labels) nearest a], ?_, ?_, ?_, ?_, ?_, ?_⟩
  · simp [relabel, labelsOf, hlt]
  · exact (mem_uniqueSorted labels _).1 (List.getElem_mem hlt)
  · simp [modeOf, labelsOf, C14_lookup_by_rank, hlt]
  · exact mem_indicesOf labels _
  · exact indicesOf_ne_nil labels _ ((mem_uniqueSorted labels _).1 (List.getElem_mem hlt))
  · intro ha
    have ha' := (mem_uniqueSorted labels a).2 ha
    obtain ⟨h1, h2⟩ := modeIndex_present (uniqueSorted labels) (pairwise_uniqueSorted labels) nearest a ha'
    refine ⟨?_, fun n' => ?_⟩
    · rw [List.getElem?_eq_getElem hlt] at h1
      exact Option.some.inj h1
    · show modeIndex (uniqueSorted labels) n' a = modeIndex (uniqueSorted labels) nearest a
      rw [(modeIndex_present (uniqueSorted labels) (pairwise_uniqueSorted labels) n' a ha').2, h2]

/-- when every fitted label attracts a training particle, `np.unique(labels) = arange(K_fit)` -/
theorem uniqueSorted_eq_range (K : Nat) (labels : List Nat)
    (hrange : ∀ l ∈ labels, l < K) (hcov : ∀ k, k < K → k ∈ labels) :
    uniqueSorted labels = List.range K := by
  refine List.Pairwise.eq_of_mem_iff (pairwise_uniqueSorted labels) List.pairwise_lt_range ?_
  intro a
  rw [mem_uniqueSorted, List.mem_range]
  exact ⟨hrange a, hcov a⟩

/-- special case (the common one): when every label in `[0, K_fit)` occurs among the training labels, `K_modes = K_fit`,
    the mapping is the identity on indices and labels, and label `a` gets the mode built from the particles labelled `a`. -/
theorem C14_labels_partial (K : Nat) (labels : List Nat)
    (hrange : ∀ l ∈ labels, l < K) (hcov : ∀ k, k < K → k ∈ labels) :
    numModes labels = K ∧
    ∀ a nearest, a < K → modeIndex (labelsOf labels) nearest a = a ∧ relabel (labelsOf labels) nearest a = some a ∧
      modeOf labels nearest a = some (indicesOf labels a) := by
  have hu := uniqueSorted_eq_range K labels hrange hcov
  refine ⟨by rw [numModes_eq, hu, List.length_range], ?_⟩
  intro a nearest ha
  obtain ⟨h1, h2⟩ := modeIndex_present (uniqueSorted labels) (pairwise_uniqueSorted labels) nearest a
    ((mem_uniqueSorted labels a).2 (hcov a ha))
  have hi : modeIndex (labelsOf labels) nearest a = a := by
    show modeIndex (uniqueSorted labels) nearest a = a
    have h1' := h1
    rw [hu] at h1' ⊢
    have hlt : modeIndex (List.range K) nearest a < K := by
      by_contra hge
      rw [List.getElem?_eq_none (by simp; omega)] at h1'
      cases h1'
    rw [List.getElem?_eq_getElem (by simpa using hlt), List.getElem_range] at h1'
    exact Option.some.inj h1'
  refine ⟨hi, ?_, ?_⟩
  · show (uniqueSorted labels)[modeIndex (uniqueSorted labels) nearest a]? = some a
    exact h1
  · have : modeOf labels nearest a = modeOfRaw (fromParticles labels) a := by
      unfold modeOf; rw [hi]
    rw [this, C14_lookup_by_rank, hu]
    simp [ha]

/-- the `self.labels is None` path (`from_global`: one mode, assignments all `0` when clustering is off): index `0 < 1` -/
theorem C14_index_global (nearest : Nat) : modeIndexOpt none nearest 0 < 1 := by
  simp [modeIndexOpt]

/-- the weighted resampling inside `from_particles` feeds `fit_mvstud` only particles of that same cluster -/
theorem fitInput_mem (mode : Mode) (tape xs : List Nat) (h : fitInput mode tape = some xs) :
    xs.length = tape.length ∧ ∀ x ∈ xs, x ∈ mode := by
  induction tape generalizing xs with
  | nil => simp [fitInput] at h; subst h; simp
  | cons j js ih =>
    simp only [fitInput] at h
    split at h
    · rename_i i r hi hr
      injection h with h; subst h
      obtain ⟨h1, h2⟩ := ih r hr
      refine ⟨by simp [h1], ?_⟩
      intro x hx
      rcases List.mem_cons.1 hx with rfl | hx
      · exact List.mem_of_getElem? hi
      · exact h2 x hx
    · cases h

/-- … so whatever is drawn, the mode a particle is mutated with was fitted from training particles that all carry the
    label the particle ends up with (its own label whenever that label has a mode) -/
theorem C14_fit_from_same_cluster (labels : List Nat) (hne : labels ≠ []) (nearest a : Nat) (hn : nearest < numModes labels)
    (mode : Mode) (hm : modeOf labels nearest a = some mode) (tape xs : List Nat) (hx : fitInput mode tape = some xs) :
    ∃ l, relabel (labelsOf labels) nearest a = some l ∧ (a ∈ labels → l = a) ∧ ∀ i ∈ xs, labels[i]? = some l := by
  obtain ⟨_, l, h1, _, h3, _, _, h6⟩ := C14_labels_full labels hne nearest a hn
  rw [hm] at h3; injection h3 with h3; subst h3
  refine ⟨l, h1, fun ha => (h6 ha).1, ?_⟩
  intro i hi
  exact (mem_indicesOf labels l i).1 ((fitInput_mem _ tape xs hx).2 i hi)

/-! ### the OLD lookup (before commit 88d298f): the kernels were handed the raw labels -/

/-- the statement the old raw-index lookup would have had to satisfy -/
def OldLookupCoherent : Prop :=
  ∀ (K : Nat) (train : List Nat), (∀ l ∈ train, l < K) →
    ∀ a, a < K → modeOfRaw (fromParticles train) a = some (indicesOf train a)

/-- **F12 (repaired in 88d298f), documented**: with the raw label as index, `train = [0,2,2]`, `K_fit = 3`:
    an active particle predicted `2` indexes past the end (`IndexError`), one predicted `1` silently gets the mode fitted
    from cluster `2`; so the old lookup was not coherent. -/
theorem C14_labels_old_lookup_fails :
    ¬ OldLookupCoherent ∧
    numModes [0, 2, 2] = 2 ∧ modeOfRaw (fromParticles [0, 2, 2]) 2 = none ∧
    modeOfRaw (fromParticles [0, 2, 2]) 1 = some (indicesOf [0, 2, 2] 2) ∧ indicesOf [0, 2, 2] 2 = [1, 2] := by
  refine ⟨?_, by decide, by decide, by decide, by decide⟩
  intro h
  have h2 := h 3 [0, 2, 2] (by decide) 2 (by decide)
  have h3 : modeOfRaw (fromParticles [0, 2, 2]) 2 = none := by decide
  rw [h3] at h2
  cases h2

/-- … and on the same input the lookup as it is now is right: label 2 → index 1 = its own mode; label 1 (no mode) → whichever
    existing mode is nearest, relabelled accordingly -/
theorem C14_labels_new_lookup_on_F12 :
    modeIndex (labelsOf [0, 2, 2]) 0 2 = 1 ∧ modeOf [0, 2, 2] 0 2 = some [1, 2] ∧ relabel (labelsOf [0, 2, 2]) 0 2 = some 2 ∧
    modeOf [0, 2, 2] 0 1 = some [0] ∧ relabel (labelsOf [0, 2, 2]) 0 1 = some 0 ∧
    modeOf [0, 2, 2] 1 1 = some [1, 2] ∧ relabel (labelsOf [0, 2, 2]) 1 1 = some 2 ∧
    modeOf [0, 2, 2] 1 7 = some [1, 2] := by decide

/-! non-vacuity -/
example : numModes [1, 0, 2, 0, 1] = 3 ∧
    modeOf [1, 0, 2, 0, 1] 0 0 = some [1, 3] ∧
    modeOf [1, 0, 2, 0, 1] 0 1 = some [0, 4] ∧
    modeOf [1, 0, 2, 0, 1] 0 2 = some [2] := by decide
example : [5, 2, 5] ≠ [] ∧ 1 < numModes [5, 2, 5] ∧ modeIndex (labelsOf [5, 2, 5]) 1 5 = 1 ∧ modeIndex (labelsOf [5, 2, 5]) 1 2 = 0 ∧
    modeIndex (labelsOf [5, 2, 5]) 1 3 = 1 ∧ modeIndex (labelsOf [5, 2, 5]) 0 9 = 0 ∧ modeOf [5, 2, 5] 0 9 = some [1] := by decide
example : (∀ l ∈ [1, 0, 2, 0, 1], l < 3) ∧ (∀ k, k < 3 → k ∈ [1, 0, 2, 0, 1]) := by decide
example : uniqueSorted [5, 2, 5, 0, 2] = [0, 2, 5] ∧ searchsorted [0, 2, 5] 3 = 2 ∧ searchsorted [0, 2, 5] 9 = 3 := by decide
example : fitInput [1, 3] [1, 1, 0, 1] = some [3, 3, 1, 3] ∧ fitInput [1, 3] [2] = none := by decide

/-! ## cadence -/

theorem scan_append (t : List Event) (e : Event) : scan (t ++ [e]) = scanStep (scan t) e := by
  simp [scan, List.foldl_append]

/-- the invariant: nothing went wrong, the Trainer's flag implies a fitted clusterer object, and the recorded
    trace (read on its own, by `scan`) agrees with the clusterer's real status -/
def Inv (s : St) : Prop :=
  s.verdict = .ok ∧ (s.flag = true → s.clFitted = true) ∧ scan s.trace = some s.clFitted

theorem inv_init (iter0 : Nat) : Inv (init iter0) := by
  simp [Inv, init, scan, scanStep]

theorem inv_emitFit (s : St) (h : Inv s) : Inv (emitFit s) ∧ (emitFit s).clFitted = true := by
  obtain ⟨h1, h2, h3⟩ := h
  refine ⟨⟨h1, fun _ => rfl, ?_⟩, rfl⟩
  show scan (s.trace ++ [.fit]) = some true
  rw [scan_append, h3]; rfl

theorem inv_emitPredict (s : St) (h : Inv s) (hf : s.clFitted = true) :
    Inv (emitPredict s) ∧ (emitPredict s).clFitted = true ∧ (emitPredict s).flag = s.flag := by
  obtain ⟨h1, h2, h3⟩ := h
  have he : emitPredict s = { s with trace := s.trace ++ [.predict] } := by simp [emitPredict, hf]
  rw [he]
  refine ⟨⟨h1, fun _ => hf, ?_⟩, hf, rfl⟩
  show scan (s.trace ++ [.predict]) = some s.clFitted
  rw [scan_append, h3, hf]; rfl

/-- `Trainer.run` as it is now keeps the invariant, and after an annealing call with clustering the clusterer is fitted -/
theorem inv_trainer (c : Cfg) (hc : c.useFlag = true) (warm : Bool) (s : St) (h : Inv s) :
    Inv (trainer c warm s) ∧ (warm = false → c.clustering = true → (trainer c warm s).clFitted = true) := by
  unfold trainer
  split
  · rename_i hw; exact ⟨h, fun h' => by simp [hw] at h'⟩
  · split
    · -- fit branch
      obtain ⟨hi, hf⟩ := inv_emitFit s h
      have hi' : Inv { emitFit s with flag := c.useFlag || s.flag } := by
        obtain ⟨a, _, d⟩ := hi
        exact ⟨a, fun _ => hf, d⟩
      obtain ⟨r1, r2, _⟩ := inv_emitPredict _ hi' hf
      exact ⟨r1, fun _ _ => r2⟩
    · rename_i hfit
      split
      · -- reuse branch: the first condition failed, so the flag is set, so the object is fitted
        rename_i hre
        have hflag : s.flag = true := by
          simp only [fitCond, hc, Bool.true_and, Bool.and_eq_true, Bool.or_eq_true, Bool.not_eq_true',
            not_and, not_or] at hfit
          simp only [Bool.and_eq_true] at hre
          have := (hfit hre.1).2
          simpa using this
        have hf := h.2.1 hflag
        obtain ⟨r1, r2, _⟩ := inv_emitPredict s h hf
        exact ⟨r1, fun _ _ => r2⟩
      · -- global branch: only reachable with clustering = false (given the flag logic)
        rename_i hre
        refine ⟨h, fun _ hcl => ?_⟩
        exfalso
        simp only [hcl, Bool.true_and, Bool.not_eq_true] at hfit hre
        simp only [fitCond, Bool.or_eq_false_iff] at hfit
        simp [hfit.1] at hre

theorem inv_resampler (c : Cfg) (warm : Bool) (s : St) (h : Inv s)
    (hf : warm = false → c.clustering = true → s.clFitted = true) : Inv (resampler c warm s) := by
  unfold resampler
  split
  · exact h
  · split
    · exact h
    · rename_i hw
      split
      · rename_i hcl
        exact (inv_emitPredict s h (hf (by simpa using hw) hcl)).1
      · exact h

theorem inv_step (c : Cfg) (hc : c.useFlag = true) (s : St) (h : Inv s) (st : Step) : Inv (step c s st) := by
  cases st with
  | iter warm =>
    simp only [step]
    split
    · exact h
    · have h' : Inv { s with iter := s.iter + 1 } := h
      obtain ⟨t1, t2⟩ := inv_trainer c hc warm _ h'
      exact inv_resampler c warm _ t1 t2
  | resume =>
    simp only [step]
    split
    · exact h
    · obtain ⟨h1, _, h3⟩ := h
      refine ⟨h1, fun hh => (by cases hh), ?_⟩
      show scan (s.trace ++ [.fresh]) = some false
      rw [scan_append, h3]; rfl

theorem inv_run (c : Cfg) (hc : c.useFlag = true) (steps : List Step) (s : St) (h : Inv s) :
    Inv (steps.foldl (step c) s) := by
  induction steps generalizing s with
  | nil => exact h
  | cons st sts ih => exact ih _ (inv_step c hc s h st)

/-- **C14 (cadence).**  For EVERY `cluster_every ≥ 1`, clustering on or off, every restored `iter`, and every run made of
    iterations with an arbitrary β = 0 / β > 0 flag and save/load/resume boundaries anywhere (any number of them):
    no `predict` ever reaches an unfitted clusterer object — stated on the verdict AND, independently, on the trace. -/
theorem C14_cadence (ce : Nat) (_hce : 1 ≤ ce) (clustering : Bool) (iter0 : Nat) (steps : List Step) :
    (run { clusterEvery := ce, clustering := clustering, useFlag := true } iter0 steps).verdict = .ok ∧
    noPredictBeforeFit (run { clusterEvery := ce, clustering := clustering, useFlag := true } iter0 steps).trace = true := by
  have h := inv_run { clusterEvery := ce, clustering := clustering, useFlag := true } rfl steps _ (inv_init iter0)
  refine ⟨h.1, ?_⟩
  unfold noPredictBeforeFit
  rw [show run _ iter0 steps = steps.foldl (step _) (init iter0) from rfl, h.2.2]
  rfl

/-- the same in the driver's vocabulary: a β-schedule and ONE optional resume point -/
theorem C14_cadence_resume (ce : Nat) (hce : 1 ≤ ce) (iter0 : Nat) (sched : List Bool) (r : Option Nat) :
    (run { clusterEvery := ce } iter0 (withResume sched r)).verdict = .ok ∧
    noPredictBeforeFit (run { clusterEvery := ce } iter0 (withResume sched r)).trace = true :=
  C14_cadence ce hce true iter0 (withResume sched r)

theorem step_anneal_fitted (c : Cfg) (hc : c.useFlag = true) (hcl : c.clustering = true) (s : St) (h : Inv s) :
    (step c s (.iter false)).clFitted = true := by
  have hv : (s.verdict != Verdict.ok) = false := by simp [h.1]
  simp only [step, hv, Bool.false_eq_true, if_false]
  have h' : Inv { s with iter := s.iter + 1 } := h
  obtain ⟨t1, t2⟩ := inv_trainer c hc false _ h'
  have t3 := t2 rfl hcl
  have hv' : ((trainer c false { s with iter := s.iter + 1 }).verdict != Verdict.ok) = false := by simp [t1.1]
  unfold resampler
  rw [hv']
  simp only [Bool.false_eq_true, if_false, hcl, if_true]
  exact (inv_emitPredict _ t1 t3).2.1

/-- when mutation runs (β > 0, clustering on), the clusterer object has been fitted: the assignments are real predictions -/
theorem C14_fitted_at_mutation (ce : Nat) (_hce : 1 ≤ ce) (iter0 : Nat) (steps : List Step) :
    (run { clusterEvery := ce } iter0 (steps ++ [.iter false])).clFitted = true := by
  have h := inv_run { clusterEvery := ce } rfl steps _ (inv_init iter0)
  have hr : run { clusterEvery := ce } iter0 (steps ++ [.iter false])
      = step { clusterEvery := ce } (steps.foldl (step { clusterEvery := ce }) (init iter0)) (.iter false) := by
    simp [run, List.foldl_append]
  rw [hr]
  exact step_anneal_fitted _ rfl rfl _ h

/-- **why the fix was needed**: the same model WITHOUT the `not self._clusterer_fitted` disjunct, `cluster_every = 3`,
    three warm-up iterations: the first annealing iteration is `iter = 4`, `4 % 3 ≠ 0` ⇒ `predict` on an unfitted clusterer -/
theorem C14_cadence_old_fails :
    (run { clusterEvery := 3, useFlag := false } 0 (withResume [true, true, true, false] none)).verdict = .predictBeforeFit ∧
    (run { clusterEvery := 3, useFlag := false } 0 (withResume [true, true, true, false] none)).trace = [.fresh, .predict] ∧
    noPredictBeforeFit (run { clusterEvery := 3, useFlag := false } 0 (withResume [true, true, true, false] none)).trace = false := by
  decide

/-- … and the old model fails after EVERY resume that lands off the cadence, even with `cluster_every = 2` -/
theorem C14_cadence_old_fails_resume :
    (run { clusterEvery := 2, useFlag := false } 0 (withResume [true, false, false, false] (some 2))).verdict
      = .predictBeforeFit := by
  decide

/-! non-vacuity: the repaired model on the same inputs, and a resume in the middle -/
example : (run { clusterEvery := 3 } 0 (withResume [true, true, true, false, false, false] none)).trace
    = [.fresh, .fit, .predict, .predict, .predict, .predict, .fit, .predict, .predict] := by decide
example : (run { clusterEvery := 2 } 0 (withResume [true, false, false, false] (some 2))).trace
    = [.fresh, .fit, .predict, .predict, .fresh, .fit, .predict, .predict, .fit, .predict, .predict] := by decide
example : noPredictBeforeFit [.fresh, .fit, .predict, .fresh, .predict] = false := by decide

/-! ## cap -/

/-- **C14 (cap).**  Wiring (core.py): `max_iterations = n_max_clusters − 1`; C15 (`Props.C15.C15_cap`): the fitted
    hierarchy has `K ≤ max_iterations + 1` clusters.  Hence `K_fit ≤ n_max_clusters` (for `n_max_clusters ≥ 1`). -/
theorem C14_cap (nMax maxIt K : Nat) (hn : 1 ≤ nMax) (hwire : maxIt = nMax - 1) (hC15 : K ≤ maxIt + 1) : K ≤ nMax := by
  omega

/-- with `n_max_clusters = None` the wiring passes `max_iterations = 1000`: the cap is 1001 -/
theorem C14_cap_none (K : Nat) (hC15 : K ≤ 1000 + 1) : K ≤ 1001 := hC15

example : (2 : Nat) ≤ 2 := C14_cap 2 1 2 (by decide) rfl (by decide)
/-- the guard `1 ≤ n_max_clusters` matters: `n_max_clusters = 0` gives `max_iterations = −1`, the loop never runs, `K = 1 > 0` -/
example : ¬ ((1 : Nat) ≤ 0) := by decide

/-! ## validity by construction -/

theorem mapOpt_spec {α β : Type} (f : α → Option β) (xs : List α) (ys : List β) (h : mapOpt f xs = some ys) :
    ys.length = xs.length ∧ ∀ (k : Nat) (x : α), xs[k]? = some x → ∃ y, ys[k]? = some y ∧ f x = some y := by
  induction xs generalizing ys with
  | nil => simp [mapOpt] at h; subst h; simp
  | cons x xs ih =>
    simp only [mapOpt] at h
    split at h
    · rename_i y r hy hr
      injection h with h; subst h
      obtain ⟨h1, h2⟩ := ih r hr
      refine ⟨by simp [h1], ?_⟩
      intro k x' hk
      cases k with
      | zero => simp at hk; subst hk; exact ⟨y, by simp, hy⟩
      | succ k => simpa using h2 k x' (by simpa using hk)
    · cases h

/-- **C14 (validity by construction).**  `ModeStatistics.__init__` computes `inv` and `cholesky` of every covariance and
    raises on failure.  So for any mode object that EXISTS (reaches the kernel): means, scale matrices, degrees of freedom,
    inverses and Cholesky factors all have length `K`, and every scale matrix has an inverse and a Cholesky factor — hence is
    positive definite, for any `isPD` that `cholesky?` certifies.  (SPD-ness of what `fit_mvstud` returns, and the positive
    finite dof via the fallback, are C19's theorems `C19_sigma_pd`, `C19_nu_range`; not re-proved here.) -/
theorem C14_modes_valid_by_construction {V M D : Type} (inv? cholesky? : M → Option M) (isPD : M → Prop)
    (hchol : ∀ m l, cholesky? m = some l → isPD m)
    (means : List V) (covs : List M) (dofs : List D) (ms : ModeStats V M D)
    (h : mkModeStats inv? cholesky? means covs dofs = some ms) :
    ms.covs.length = ms.K ∧ ms.dofs.length = ms.K ∧ ms.invs.length = ms.K ∧ ms.chols.length = ms.K ∧
    ∀ k, k < ms.K → ∃ m l i, ms.covs[k]? = some m ∧ ms.chols[k]? = some l ∧ ms.invs[k]? = some i ∧
      cholesky? m = some l ∧ inv? m = some i ∧ isPD m := by
  unfold mkModeStats at h
  split at h
  · rename_i hshape
    split at h
    · rename_i is ls his hls
      injection h with h; subst h
      obtain ⟨i1, i2⟩ := mapOpt_spec inv? covs is his
      obtain ⟨l1, l2⟩ := mapOpt_spec cholesky? covs ls hls
      simp only [ModeStats.K]
      refine ⟨hshape.1, hshape.2, by omega, by omega, ?_⟩
      intro k hk
      have hk' : k < covs.length := by omega
      obtain ⟨l, hl1, hl2⟩ := l2 k covs[k] (by simp [hk'])
      obtain ⟨i, hi1, hi2⟩ := i2 k covs[k] (by simp [hk'])
      exact ⟨covs[k], l, i, by simp [hk'], hl1, hi1, hl2, hi2, hchol _ _ hl2⟩
    · cases h
  · cases h

/-- a lookup that succeeds on such an object returns a mode with a Cholesky factor -/
theorem C14_lookup_has_cholesky {V M D : Type} (inv? cholesky? : M → Option M) (isPD : M → Prop)
    (hchol : ∀ m l, cholesky? m = some l → isPD m)
    (means : List V) (covs : List M) (dofs : List D) (ms : ModeStats V M D)
    (h : mkModeStats inv? cholesky? means covs dofs = some ms) (a : Nat) (ha : a < ms.K) :
    ∃ m l, ms.covs[a]? = some m ∧ ms.chols[a]? = some l ∧ isPD m := by
  obtain ⟨m, l, _, h1, h2, _, _, _, h3⟩ :=
    (C14_modes_valid_by_construction inv? cholesky? isPD hchol means covs dofs ms h).2.2.2.2 a ha
  exact ⟨m, l, h1, h2, h3⟩

/-! non-vacuity: 1×1 "matrices" = integers, `cholesky?` defined on positive ones only -/
example : (mkModeStats (V := Nat) (D := Nat) (fun m : Int => if m = 0 then none else some m)
      (fun m : Int => if 0 < m then some m else none) [0, 1] [4, 9] [5, 5]).isSome = true ∧
    (mkModeStats (V := Nat) (D := Nat) (fun m : Int => if m = 0 then none else some m)
      (fun m : Int => if 0 < m then some m else none) [0, 1] [4, -9] [5, 5]).isSome = false ∧
    (mkModeStats (V := Nat) (D := Nat) (fun m : Int => if m = 0 then none else some m)
      (fun m : Int => if 0 < m then some m else none) [0, 1] [4] [5, 5]).isSome = false := by decide

/-! ## clause round: hypotheses moved inside the model -/

section argmin
variable {α : Type} [Sc α]

theorem argminFrom_lt' (xs : List α) : ∀ (i bi : Nat) (bv : α), bi < i →
    Model.HGMM.argminFrom i bi bv xs < i + xs.length := by
  induction xs with
  | nil => intro i bi bv h; simpa [Model.HGMM.argminFrom] using h
  | cons x xs ih =>
    intro i bi bv h
    simp only [Model.HGMM.argminFrom, List.length_cons]
    split
    · have := ih (i + 1) i x (by omega); omega
    · have := ih (i + 1) bi bv (by omega); omega

/-- `np.argmin` over a row of `K ≥ 1` distances answers an index `< K` -/
theorem argmin_lt (row : List α) (h : row ≠ []) : ∃ k, Model.HGMM.argmin row = some k ∧ k < row.length := by
  cases row with
  | nil => exact absurd rfl h
  | cons x xs =>
    refine ⟨_, rfl, ?_⟩
    have := argminFrom_lt' xs 1 0 x (by omega)
    simp only [List.length_cons]; omega

/-- `mode_index` with the nearest-mean `argmin` inside the model never fails and agrees with `modeIndex` at an in-range fallback -/
theorem modeIndexD_spec (stored : List Nat) (hne : stored ≠ []) (drow : List α) (hlen : drow.length = stored.length) (a : Nat) :
    ∃ n, n < stored.length ∧ modeIndexD stored drow a = some (modeIndex stored n a) := by
  have hrow : drow ≠ [] := by
    intro h; rw [h] at hlen; exact hne (List.length_eq_zero_iff.1 hlen.symm)
  obtain ⟨n, hn1, hn2⟩ := argmin_lt drow hrow
  refine ⟨n, by omega, ?_⟩
  unfold modeIndexD modeIndex
  simp only
  split <;> simp [hn1]

/-- **C14 (labels), FULL, with no hypothesis on the fallback**: for every non-empty training label vector, every raw assignment and
    every row of `K_modes` distances, `mode_index` returns an index `i < K_modes`; the relabelled assignment `l` is a present label; the
    mode at `i` was built from exactly the training particles carrying `l`; a label that has a mode keeps it. -/
theorem C14_labels_full_argmin (labels : List Nat) (hne : labels ≠ []) (drow : List α) (hlen : drow.length = numModes labels)
    (a : Nat) :
    ∃ i l, modeIndexD (labelsOf labels) drow a = some i ∧ i < numModes labels ∧ (labelsOf labels)[i]? = some l ∧ l ∈ labels ∧
      modeOfRaw (fromParticles labels) i = some (indicesOf labels l) ∧
      (∀ p, p ∈ indicesOf labels l ↔ labels[p]? = some l) ∧ indicesOf labels l ≠ [] ∧ (a ∈ labels → l = a) := by
  have hul : uniqueSorted labels ≠ [] := by
    obtain ⟨x, hx⟩ := List.exists_mem_of_ne_nil labels hne
    exact List.ne_nil_of_mem ((mem_uniqueSorted labels x).2 hx)
  rw [numModes_eq] at hlen
  obtain ⟨n, hn, hD⟩ := modeIndexD_spec (uniqueSorted labels) hul drow hlen a
  obtain ⟨h1, l, h2, h3, h4, h5, h6, h7⟩ := C14_labels_full labels hne n a (by rw [numModes_eq]; exact hn)
  exact ⟨_, l, hD, h1, h2, h3, h4, h5, h6, fun ha => (h7 ha).1⟩

end argmin

example : modeIndexD (α := Rat) (labelsOf [0, 2, 2]) [5, 1] 1 = some 1 ∧ modeIndexD (α := Rat) (labelsOf [0, 2, 2]) [1, 5] 1 = some 0 ∧
    modeIndexD (α := Rat) (labelsOf [0, 2, 2]) [1, 5] 2 = some 1 ∧ modeIndexD (α := Rat) (labelsOf [0, 2, 2]) [3, 3] 7 = some 0 := by decide

/-- **degrees of freedom**: what `from_particles` stores is positive as soon as the fallback constant is and the fit answers a positive
    value whenever it answers a finite one (`Props.C19.C19_nu_range`) -/
theorem C14_dof_positive {D : Type} [LT D] [Zero D] (nu : Option D) (fallback : D) (hfb : 0 < fallback)
    (hfit : ∀ v, nu = some v → 0 < v) : 0 < applyDofFallback nu fallback := by
  cases nu with
  | none => exact hfb
  | some v => exact hfit v rfl

/-- the fallback the core passes (`DOF_FALLBACK`, regenerated from /repo's config.py by translator G1) is positive -/
theorem C14_dof_fallback_constant_pos : (0 : Rat) < (Gen.Constants.DOF_FALLBACKNum : Rat) / (Gen.Constants.DOF_FALLBACKDen : Rat) := by
  decide +kernel

/-- … hence with the shipped constant only the fit's own answer matters -/
theorem C14_dof_positive_shipped (nu : Option Rat) (hfit : ∀ v, nu = some v → 0 < v) :
    0 < applyDofFallback nu ((Gen.Constants.DOF_FALLBACKNum : Rat) / (Gen.Constants.DOF_FALLBACKDen : Rat)) :=
  C14_dof_positive nu _ C14_dof_fallback_constant_pos hfit

example : applyDofFallback (none : Option Rat) 1000000 = 1000000 ∧ applyDofFallback (some (3 : Rat)) 1000000 = 3 := by decide

/-- **one clustering per mutation**: in an annealing iteration (clustering on) of an undisturbed run, the clusterer events are
    `[fit,] predict, predict` and nothing else — the training labels the modes are built from (`Trainer.run`) and the assignments of
    the active particles (`Resampler.run`) are predictions of the SAME fitted clusterer, with no refit in between. -/
theorem C14_same_fit_generation (c : Cfg) (hc : c.useFlag = true) (hcl : c.clustering = true) (s : St) (h : Inv s) :
    ∃ didFit, (step c s (.iter false)).trace = s.trace ++ annealEvents didFit ∧ (step c s (.iter false)).verdict = .ok := by
  have hv : (s.verdict != Verdict.ok) = false := by simp [h.1]
  have h' : Inv { s with iter := s.iter + 1 } := h
  obtain ⟨t1, t2⟩ := inv_trainer c hc false _ h'
  have t3 := t2 rfl hcl
  have hv' : ((trainer c false { s with iter := s.iter + 1 }).verdict != Verdict.ok) = false := by simp [t1.1]
  have hstep : step c s (.iter false) = emitPredict (trainer c false { s with iter := s.iter + 1 }) := by
    simp only [step, hv, Bool.false_eq_true, if_false]
    unfold resampler
    rw [hv']
    simp [hcl]
  have hpred : ∀ q : St, q.clFitted = true → emitPredict q = { q with trace := q.trace ++ [.predict] } := by
    intro q hq; simp [emitPredict, hq]
  rw [hstep, hpred _ t3]
  -- the trainer's own contribution
  unfold trainer at t3 ⊢
  simp only [Bool.false_eq_true, if_false, hcl, Bool.true_and] at t3 ⊢
  by_cases hf : fitCond c { s with iter := s.iter + 1 } = true
  · refine ⟨true, ?_, ?_⟩
    · simp only [hf, if_true]
      rw [hpred _ rfl]
      simp [emitFit, annealEvents]
    · simp only [hf, if_true]
      rw [hpred _ rfl]
      exact h.1
  · have hon : onCadence c { s with iter := s.iter + 1 } = false := by
      simp only [fitCond, Bool.or_eq_true, not_or, Bool.not_eq_true] at hf
      exact hf.1
    simp only [hf, hon] at t3 ⊢
    simp only [Bool.false_eq_true, if_false, Bool.not_false, if_true] at t3 ⊢
    have hs' : s.clFitted = true := by
      unfold emitPredict at t3
      split at t3 <;> exact t3
    have he := hpred { s with iter := s.iter + 1 } hs'
    refine ⟨false, ?_, ?_⟩
    · rw [he]; simp [annealEvents]
    · rw [he]; exact h.1

/-- … for every reachable state: any `cluster_every`, restored `iter`, β-schedule and resume boundaries before it -/
theorem C14_same_fit_generation_run (ce iter0 : Nat) (steps : List Step) :
    ∃ didFit, (run { clusterEvery := ce } iter0 (steps ++ [.iter false])).trace
      = (run { clusterEvery := ce } iter0 steps).trace ++ annealEvents didFit := by
  have h := inv_run { clusterEvery := ce } rfl steps _ (inv_init iter0)
  obtain ⟨b, hb, _⟩ := C14_same_fit_generation { clusterEvery := ce } rfl rfl _ h
  refine ⟨b, ?_⟩
  simpa [run, List.foldl_append] using hb

example : (run { clusterEvery := 3 } 0 ([.iter true, .iter false, .resume] ++ [.iter false])).trace
    = (run { clusterEvery := 3 } 0 [.iter true, .iter false, .resume]).trace ++ annealEvents true := by decide

/-- **cap, from C15's theorem and the wiring** (no bound assumed): the hierarchy fitted with `max_iterations` wired from
    `n_max_clusters = some nMax`, `nMax ≥ 1`, has between 1 and `nMax` clusters, for every split oracle that labels children validly -/
theorem C14_cap_hgmm {α : Type} [Sc α] (oracle : Nat → Nat → List Nat → Model.HGMM.Entry α) (n minPts nMax : Nat) (hn : 1 ≤ nMax)
    (hlab : ∀ it idx c, minPts ≤ c.length → Props.C15.LabelsOK c (oracle it idx c).childLabels) :
    1 ≤ (Model.HGMM.fitClusters oracle n minPts (wiredMaxIterations (some nMax))).length ∧
    (Model.HGMM.fitClusters oracle n minPts (wiredMaxIterations (some nMax))).length ≤ nMax := by
  obtain ⟨h1, h2⟩ := Props.C15.C15_cap oracle n minPts (wiredMaxIterations (some nMax)) hlab
  refine ⟨h1, ?_⟩
  simp only [wiredMaxIterations] at h2 ⊢
  omega

example : wiredMaxIterations none = 1000 ∧ wiredMaxIterations (some 1) = 0 ∧ wiredMaxIterations (some 3) = 2 := by decide

/-! ## positive-definiteness made concrete -/

open Lemmas.CholeskyPD in
/-- **C14 (validity), concrete**: instantiate the constructor model at real `d×d` matrices with ANY `cholesky?` that honours the
    LAPACK contract (a returned `L` is lower triangular with positive diagonal and `L Lᵀ` = the symmetric matrix read from the lower
    triangle of the input).  Then for every mode object that exists, every scale matrix (as LAPACK reads it) is positive definite;
    and equal to the stored matrix whenever that is symmetric (`Props.C19.C19_sigma_symm`). -/
theorem C14_scale_matrices_posDef {V D : Type} {d : ℕ}
    (inv? cholesky? : Matrix (Fin d) (Fin d) ℝ → Option (Matrix (Fin d) (Fin d) ℝ))
    (hcontract : ∀ A L, cholesky? A = some L → IsCholeskyFactor A L)
    (means : List V) (covs : List (Matrix (Fin d) (Fin d) ℝ)) (dofs : List D) (ms : ModeStats V (Matrix (Fin d) (Fin d) ℝ) D)
    (h : mkModeStats inv? cholesky? means covs dofs = some ms) (k : Nat) (hk : k < ms.K) :
    ∃ A, ms.covs[k]? = some A ∧ (symLower A).PosDef ∧ (A.IsSymm → A.PosDef) := by
  obtain ⟨A, L, _, h1, _, _, h4, _, h6⟩ :=
    (C14_modes_valid_by_construction inv? cholesky? (fun A => (symLower A).PosDef)
      (fun A L hAL => posDef_of_factor A L (hcontract A L hAL)) means covs dofs ms h).2.2.2.2 k hk
  exact ⟨A, h1, h6, fun hs => by rw [← symLower_of_isSymm A hs]; exact h6⟩

end Props.C14
