import TempestVerif.Props.C12Run
/-
  C12, second pass — the whole-routine model of this property (`Model.RunEntry.runFull`) against C10's own composition
  `Model.ClosedLoop.runSampling` (the definition C10's closed-loop replay suites run against the real sampler): for a call
  without a path and without reseeding they are the same function.  Kept in a module of its own: it is the only C12 statement
  that mentions `Model.ClosedLoop.runSampling` / `startState`, which another property owns.
-/
namespace Props.C12
open Model.ClosedLoop Model.RunEntry

variable {P MS TS G : Type}

/-- C10's "head of run_sampling" is this model's entry without a path (continue when there is history, else initialise) -/
theorem startState_eq_prologue (c : Core ℝ P TS G) (nT : Nat) :
    startState c.st = (prologue id c (⟨nT, none⟩ : Call ℝ P G)).st := by
  by_cases hh : c.st.hist = []
  · have hb : entryBranch false c.st.hist.length = Entry.fresh := by simp [entryBranch, hh]
    have he : c.st.hist.isEmpty = true := by simp [hh]
    simp only [prologue, hb, startState, he, if_true, initFresh, id]
  · have hpos : 0 < c.st.hist.length := List.length_pos_iff.mpr hh
    have hb : entryBranch false c.st.hist.length = Entry.continue_ := by simp [entryBranch, hpos]
    have he : c.st.hist.isEmpty = false := by simpa using hh
    simp only [prologue, hb, startState, he, Bool.false_eq_true, if_false]

/-- `Model.ClosedLoop.runSampling` with the guard configuration of this call IS `runFull` (states, loop-top states, records) -/
theorem C12x_closed_runSampling_is_runFull (W : World ℝ P MS TS G) (cfg : CCfg ℝ) (fuel : Nat) (c : Core ℝ P TS G) (nT : Nat) :
    Model.ClosedLoop.runSampling W (guardCfg cfg (prologue id c (⟨nT, none⟩ : Call ℝ P G))) fuel c.st
      = (runFull W cfg id fuel c ⟨nT, none⟩).map fun r => (r.1.st, r.2.1, r.2.2) := by
  unfold Model.ClosedLoop.runSampling runFull
  rw [startState_eq_prologue c nT]
  dsimp only
  cases hr : runLoop W (guardCfg cfg (prologue id c (⟨nT, none⟩ : Call ℝ P G))) fuel
      (prologue id c (⟨nT, none⟩ : Call ℝ P G)).st with
  | none => simp
  | some q =>
    simp only [Option.bind_some, Option.map_map]
    cases finalLogz q.1 <;> rfl

end Props.C12
