import TempestVerif.Props.C11
import Mathlib.Tactic
import Mathlib.Algebra.BigOperators.Pi
import Mathlib.Data.Fintype.BigOperators
import Mathlib.Analysis.SpecialFunctions.Log.Basic
/-
  C11 (second pass) — clause 2c: "the evidence recorded during the prior-sampling phase EQUALS the log of the fraction of
  prior mass with finite likelihood".  For a finite batch that can only be a concentration statement.  On the finite
  probability space of `C11_first_batch_unbiased` (n independent prior draws with law `p`; only the indicator
  `A = "likelihood finite"` of each draw matters, so `Ω = Bool` with `p true = f` is the general case):

    C11_first_batch_variance       E (Z₁ − f)² = f(1−f)/n  exactly (Z₁ = evidence recorded for the first batch)
    C11_first_batch_chebyshev      P(|Z₁ − f| ≥ ε) ≤ f(1−f)/(n ε²)
    C11_first_batch_lln            for all ε, δ > 0 there is N with P(|Z₁ − f| ≥ ε) ≤ δ for every batch size n ≥ N
                                   (weak law of large numbers: the recorded evidence CONVERGES in probability to f)
    C11_once_eps_all               deterministic: if EVERY batch fraction is within ε of f, every recorded evidence is
                                   (no assumption on the first batch; first pass had `hfirst`)
    C11_warmup_concentration       the whole prior-sampling phase (k iterations × n draws, product law): outside an event of
                                   probability ≤ k·f(1−f)/(n ε²) every batch has a finite draw (no F8 batch) AND every one
                                   of the k recorded evidences is within ε of f — counted once, however many iterations
    C11_log_close, C11_warmup_logz_concentration   … in log space, what the code stores: |logz_t − log f| ≤ ε/(f−ε)

  The hypothesis that remains is H_iid: the indicators of the draws are independent Bernoulli(f) — i.e. `np.random.rand`
  is an i.i.d. uniform source and the user's prior transform / likelihood are pure functions (numpy is modelled).
-/
namespace Props.C11
open Model.Warmup Finset

section stat
variable {Ω : Type} [Fintype Ω]

/-! ### product-law helpers (the coordinate lemma `sum_prod_coord` is in `Props/C11.lean`) -/

theorem sum_pi_prod {ι : Type} [Fintype ι] [DecidableEq ι] (F : ι → Ω → ℝ) :
    ∑ x : ι → Ω, ∏ i, F i (x i) = ∏ i, ∑ t, F i t := by
  rw [Finset.prod_univ_sum, Fintype.piFinset_univ]

theorem prod_law_total {ι : Type} [Fintype ι] [DecidableEq ι] (p : Ω → ℝ) (hp1 : ∑ x, p x = 1) :
    ∑ ω : ι → Ω, ∏ i, p (ω i) = 1 := by
  rw [sum_pi_prod (fun _ t => p t)]; simp [hp1]

omit [Fintype Ω] in
theorem prod_law_nonneg {ι : Type} [Fintype ι] (p : Ω → ℝ) (hp : ∀ x, 0 ≤ p x) (ω : ι → Ω) : 0 ≤ ∏ i, p (ω i) :=
  Finset.prod_nonneg fun i _ => hp (ω i)

/-- functions of two DIFFERENT draws are uncorrelated -/
theorem prod_law_pair_ne (p : Ω → ℝ) (hp1 : ∑ x, p x = 1) (a b : Ω → ℝ) (n : ℕ) (r s : Fin n) (hrs : r ≠ s) :
    ∑ ω : Fin n → Ω, (∏ i, p (ω i)) * (a (ω r) * b (ω s)) = (∑ t, p t * a t) * (∑ t, p t * b t) := by
  have h1 : ∀ x : Fin n → Ω, (∏ i, p (x i)) * (a (x r) * b (x s))
      = ∏ i, (p (x i) * (if i = r then a (x i) else 1) * (if i = s then b (x i) else 1)) := by
    intro x
    rw [Finset.prod_mul_distrib, Finset.prod_mul_distrib,
      Finset.prod_ite_eq' Finset.univ r (fun i => a (x i)),
      Finset.prod_ite_eq' Finset.univ s (fun i => b (x i))]
    simp [mul_assoc]
  simp_rw [h1]
  rw [sum_pi_prod (fun i t => p t * (if i = r then a t else 1) * (if i = s then b t else 1))]
  rw [Fintype.prod_eq_mul r s hrs]
  · simp [hrs, hrs.symm]
  · intro i hi
    simp [hi.1, hi.2, hp1]

omit [Fintype Ω] in
/-- the evidence recorded for the first batch is the MEAN of the finiteness indicators of its draws -/
theorem batchZ_first_mean (A : Ω → Prop) [DecidablePred A] (n : ℕ) (hn : 0 < n) (ω : Fin n → Ω) :
    batchZ ([] : List (Nat × ℝ)) n (univ.filter fun i => A (ω i)).card
      = (∑ j, if A (ω j) then (1 : ℝ) else 0) / n := by
  rw [batchZ_first n _ hn (by simpa using Finset.card_filter_le (univ : Finset (Fin n)) _)]
  congr 1
  rw [Finset.card_filter]; push_cast; rfl

/-- second moment of a centred sum of independent draws -/
theorem centred_sum_sq (p : Ω → ℝ) (hp1 : ∑ x, p x = 1) (d : Ω → ℝ) (hd : ∑ t, p t * d t = 0) (n : ℕ) :
    ∑ ω : Fin n → Ω, (∏ i, p (ω i)) * (∑ r, d (ω r)) ^ 2 = (n : ℝ) * ∑ t, p t * d t ^ 2 := by
  have h1 : ∀ x : Fin n → Ω, (∏ i, p (x i)) * (∑ r, d (x r)) ^ 2
      = ∑ r, ∑ s, (∏ i, p (x i)) * (d (x r) * d (x s)) := by
    intro x
    rw [sq, Finset.sum_mul_sum, Finset.mul_sum]
    refine Finset.sum_congr rfl fun r _ => ?_
    rw [Finset.mul_sum]
  simp_rw [h1]
  rw [Finset.sum_comm]
  have h2 : ∀ r : Fin n, ∑ ω : Fin n → Ω, ∑ s, (∏ i, p (ω i)) * (d (ω r) * d (ω s)) = ∑ t, p t * d t ^ 2 := by
    intro r
    rw [Finset.sum_comm]
    rw [Finset.sum_eq_single r]
    · rw [sum_prod_coord p (fun t => d t * d t) hp1 n r]
      refine Finset.sum_congr rfl fun t _ => ?_
      ring
    · intro s _ hsr
      rw [prod_law_pair_ne p hp1 d d n r s (Ne.symm hsr), hd]
      ring
    · intro h; exact absurd (Finset.mem_univ r) h
  simp_rw [h2]
  rw [Finset.sum_const, Finset.card_univ, Fintype.card_fin, nsmul_eq_mul]

/-- the supported prior mass `f = p(A)` -/
noncomputable def mass (p : Ω → ℝ) (A : Ω → Prop) [DecidablePred A] : ℝ := ∑ x, if A x then p x else 0

theorem mass_eq (p : Ω → ℝ) (A : Ω → Prop) [DecidablePred A] :
    mass p A = ∑ x, p x * (if A x then (1 : ℝ) else 0) := by
  unfold mass; refine Finset.sum_congr rfl fun x _ => ?_; split <;> simp

theorem mass_nonneg (p : Ω → ℝ) (hp : ∀ x, 0 ≤ p x) (A : Ω → Prop) [DecidablePred A] : 0 ≤ mass p A :=
  Finset.sum_nonneg fun x _ => by split; exact hp x; exact le_refl _

theorem mass_le_one (p : Ω → ℝ) (hp : ∀ x, 0 ≤ p x) (hp1 : ∑ x, p x = 1) (A : Ω → Prop) [DecidablePred A] :
    mass p A ≤ 1 := by
  rw [← hp1]; unfold mass
  exact Finset.sum_le_sum fun x _ => by split; exact le_refl _; exact hp x

/-- one-draw variance of the finiteness indicator: `f(1−f)` -/
theorem indicator_variance (p : Ω → ℝ) (hp1 : ∑ x, p x = 1) (A : Ω → Prop) [DecidablePred A] :
    ∑ t, p t * ((if A t then (1 : ℝ) else 0) - mass p A) ^ 2 = mass p A * (1 - mass p A) := by
  have h : ∀ t, p t * ((if A t then (1 : ℝ) else 0) - mass p A) ^ 2
      = (if A t then p t else 0) * (1 - 2 * mass p A) + p t * mass p A ^ 2 := by
    intro t; split <;> ring
  simp_rw [h]
  rw [Finset.sum_add_distrib, ← Finset.sum_mul, ← Finset.sum_mul, hp1]
  unfold mass; ring

/-- C11 (2c, finite n): over `n` independent prior draws the evidence recorded for the first warm-up batch has mean `f`
    (`C11_first_batch_unbiased`) and variance EXACTLY `f(1−f)/n` -/
theorem C11_first_batch_variance (p : Ω → ℝ) (hp1 : ∑ x, p x = 1) (A : Ω → Prop) [DecidablePred A]
    (n : ℕ) (hn : 0 < n) :
    ∑ ω : Fin n → Ω, (∏ i, p (ω i)) *
        (batchZ ([] : List (Nat × ℝ)) n (univ.filter fun i => A (ω i)).card - mass p A) ^ 2
      = mass p A * (1 - mass p A) / n := by
  have hn0 : (n : ℝ) ≠ 0 := by exact_mod_cast hn.ne'
  set m : ℝ := mass p A with hm
  have hd : ∑ t, p t * ((if A t then (1 : ℝ) else 0) - m) = 0 := by
    simp_rw [mul_sub]
    rw [Finset.sum_sub_distrib, ← Finset.sum_mul, hp1, ← mass_eq, ← hm]
    ring
  have h1 : ∀ x : Fin n → Ω, (∏ i, p (x i)) *
      (batchZ ([] : List (Nat × ℝ)) n (univ.filter fun i => A (x i)).card - m) ^ 2
      = (1 / (n : ℝ)) ^ 2 * ((∏ i, p (x i)) * (∑ r, ((if A (x r) then (1 : ℝ) else 0) - m)) ^ 2) := by
    intro x
    rw [batchZ_first_mean A n hn x, Finset.sum_sub_distrib, Finset.sum_const, Finset.card_univ, Fintype.card_fin,
      nsmul_eq_mul]
    field_simp
  simp_rw [h1]
  rw [← Finset.mul_sum, centred_sum_sq p hp1 (fun t => (if A t then (1 : ℝ) else 0) - m) hd n,
    indicator_variance p hp1 A, ← hm]
  field_simp

/-- Chebyshev on a finite weighted space -/
theorem chebyshev_finite {ι : Type} [Fintype ι] (w D : ι → ℝ) (hw : ∀ i, 0 ≤ w i) (ε : ℝ) (hε : 0 < ε) :
    ∑ i, (if ε ≤ |D i| then w i else 0) ≤ (∑ i, w i * D i ^ 2) / ε ^ 2 := by
  rw [le_div_iff₀ (by positivity), Finset.sum_mul]
  refine Finset.sum_le_sum fun i _ => ?_
  split
  · rename_i h
    have : ε ^ 2 ≤ D i ^ 2 := by
      rw [← sq_abs (D i)]; exact pow_le_pow_left₀ hε.le h 2
    exact mul_le_mul_of_nonneg_left this (hw i)
  · simpa using mul_nonneg (hw i) (sq_nonneg (D i))

/-- C11 (2c, finite n, tail bound): the probability that the evidence recorded for the first batch misses the supported
    prior mass by `ε` or more is at most `f(1−f)/(n ε²)` -/
theorem C11_first_batch_chebyshev (p : Ω → ℝ) (hp : ∀ x, 0 ≤ p x) (hp1 : ∑ x, p x = 1) (A : Ω → Prop)
    [DecidablePred A] (n : ℕ) (hn : 0 < n) (ε : ℝ) (hε : 0 < ε) :
    ∑ ω : Fin n → Ω, (if ε ≤ |batchZ ([] : List (Nat × ℝ)) n (univ.filter fun i => A (ω i)).card - mass p A|
        then ∏ i, p (ω i) else 0)
      ≤ mass p A * (1 - mass p A) / (n * ε ^ 2) := by
  have := chebyshev_finite (fun ω : Fin n → Ω => ∏ i, p (ω i))
    (fun ω => batchZ ([] : List (Nat × ℝ)) n (univ.filter fun i => A (ω i)).card - mass p A)
    (prod_law_nonneg p hp) ε hε
  rw [C11_first_batch_variance p hp1 A n hn] at this
  rw [← div_div]; exact this

/-- C11 (2c, the limit): the evidence recorded for the first batch converges IN PROBABILITY to the supported prior mass as
    the batch size grows — for every tolerance `ε` and every `δ > 0` all sufficiently large batches miss by `ε` or more with
    probability at most `δ` -/
theorem C11_first_batch_lln (p : Ω → ℝ) (hp : ∀ x, 0 ≤ p x) (hp1 : ∑ x, p x = 1) (A : Ω → Prop) [DecidablePred A]
    (ε δ : ℝ) (hε : 0 < ε) (hδ : 0 < δ) :
    ∃ N : ℕ, ∀ n : ℕ, N ≤ n → 0 < n →
      ∑ ω : Fin n → Ω, (if ε ≤ |batchZ ([] : List (Nat × ℝ)) n (univ.filter fun i => A (ω i)).card - mass p A|
        then ∏ i, p (ω i) else 0) ≤ δ := by
  obtain ⟨N, hN⟩ := exists_nat_gt (1 / (ε ^ 2 * δ))
  refine ⟨N, fun n hNn hn => ?_⟩
  refine le_trans (C11_first_batch_chebyshev p hp hp1 A n hn ε hε) ?_
  have hf0 := mass_nonneg p hp A
  have hf1 := mass_le_one p hp hp1 A
  have hq : mass p A * (1 - mass p A) ≤ 1 := by nlinarith
  have hnr : (0 : ℝ) < n := by exact_mod_cast hn
  have hNr : (N : ℝ) ≤ n := by exact_mod_cast hNn
  have hpos : 0 < ε ^ 2 * δ := by positivity
  rw [div_le_iff₀ (by positivity)]
  have : 1 < (n : ℝ) * (ε ^ 2 * δ) := by
    have := (div_lt_iff₀ hpos).mp (lt_of_lt_of_le hN hNr)
    linarith
  nlinarith

/-! ### the deterministic envelope without an assumption on the first batch -/

/-- if the finite fraction of EVERY batch (also of the batches with no −inf draw, whose fraction is 1) is within `ε < f` of
    `f`, every recorded warm-up evidence is within `ε` of `f` — any number of iterations, any batch sizes -/
theorem C11_once_eps_all (f ε : ℝ) (hε : ε < f) (bs : List (Nat × Nat))
    (hb : ∀ b ∈ bs, 0 < b.1 ∧ b.2 ≤ b.1 ∧ |(b.2 : ℝ) / (b.1 : ℝ) - f| ≤ ε) :
    ∀ e ∈ run batchZ [] bs, |e.2 - f| ≤ ε := by
  cases bs with
  | nil => intro e he; simp [run] at he
  | cons b rest =>
    obtain ⟨n, nfin⟩ := b
    obtain ⟨h0n, h0le, h0⟩ := hb (n, nfin) (by simp)
    have hz : batchZ ([] : List (Nat × ℝ)) n nfin = (nfin : ℝ) / (n : ℝ) := batchZ_first n nfin h0n h0le
    have hinv : Inv (f - ε) (f + ε) [(n, batchZ ([] : List (Nat × ℝ)) n nfin)] := by
      intro c hc; simp at hc; subst hc
      rw [hz]
      have := abs_le.mp h0
      exact ⟨h0n, by linarith [this.1], by linarith [this.2]⟩
    have := run_inv (f - ε) (f + ε) (by linarith) rest _ (by simp) hinv (fun c hc => by
      obtain ⟨c1, _, c3⟩ := hb c (by simp [hc])
      have := abs_le.mp c3
      exact ⟨c1, fun _ => ⟨by linarith [this.1], by linarith [this.2]⟩⟩)
    intro e he
    simp only [run, List.nil_append] at he
    have h := (this e he).2
    rw [abs_le]; constructor <;> linarith [h.1, h.2]

/-- `|Z − f| ≤ ε < f` in linear space gives `|log Z − log f| ≤ ε/(f − ε)` in log space (what the code stores) -/
theorem C11_log_close (f ε z : ℝ) (hε0 : 0 ≤ ε) (hε : ε < f) (hz : |z - f| ≤ ε) :
    |Real.log z - Real.log f| ≤ ε / (f - ε) := by
  have hf : 0 < f := by linarith
  have hd : 0 < f - ε := by linarith
  obtain ⟨h1, h2⟩ := abs_le.mp hz
  have hzpos : 0 < z := by linarith
  rw [abs_le]
  constructor
  · -- log f − log z = log (f/z) ≤ f/z − 1 = (f − z)/z ≤ ε/(f − ε)
    have := Real.log_le_sub_one_of_pos (div_pos hf hzpos)
    rw [Real.log_div hf.ne' hzpos.ne'] at this
    have h3 : f / z - 1 ≤ ε / (f - ε) := by
      rw [div_sub_one hzpos.ne', div_le_div_iff₀ hzpos hd]
      nlinarith
    linarith
  · have := Real.log_le_sub_one_of_pos (div_pos hzpos hf)
    rw [Real.log_div hzpos.ne' hf.ne'] at this
    have h3 : z / f - 1 ≤ ε / (f - ε) := by
      rw [div_sub_one hf.ne', div_le_div_iff₀ hf hd]
      nlinarith
    linarith

/-! ### the whole prior-sampling phase: k iterations of n draws each -/

/-- the `(n, n_finite)` sizes of the k batches of an outcome `ω` (batch t = draws `ω t 0 … ω t (n−1)`) -/
def phaseSizes (A : Ω → Prop) [DecidablePred A] (k n : ℕ) (ω : Fin k → Fin n → Ω) : List (Nat × Nat) :=
  List.ofFn fun t : Fin k => (n, (univ.filter fun i => A (ω t i)).card)

/-- the good event: every batch has a finite draw (no F8 batch) and every recorded warm-up evidence is within `ε` of `f` -/
def PhaseGood (A : Ω → Prop) [DecidablePred A] (k n : ℕ) (f ε : ℝ) (ω : Fin k → Fin n → Ω) : Prop :=
  (∀ t : Fin k, 0 < (univ.filter fun i => A (ω t i)).card) ∧
  ∀ e ∈ run batchZ [] (phaseSizes A k n ω), |e.2 - f| ≤ ε

omit [Fintype Ω] in
/-- deterministic core: if every batch's fraction is within `ε < f` of `f`, the outcome is good -/
theorem phaseGood_of_fractions (A : Ω → Prop) [DecidablePred A] (k n : ℕ) (hn : 0 < n) (f ε : ℝ) (hε : ε < f)
    (ω : Fin k → Fin n → Ω)
    (h : ∀ t : Fin k, |((univ.filter fun i => A (ω t i)).card : ℝ) / (n : ℝ) - f| ≤ ε) :
    PhaseGood A k n f ε ω := by
  constructor
  · intro t
    by_contra hc
    have h0 : (univ.filter fun i => A (ω t i)).card = 0 := by omega
    have := h t
    rw [h0] at this
    simp only [Nat.cast_zero, zero_div, zero_sub, abs_neg] at this
    have := le_trans (le_abs_self f) this
    linarith
  · apply C11_once_eps_all f ε hε
    intro b hb
    simp only [phaseSizes, List.mem_ofFn] at hb
    obtain ⟨t, rfl⟩ := hb
    exact ⟨hn, by simpa using Finset.card_filter_le (univ : Finset (Fin n)) _, h t⟩

/-- C11 (2c + 3, the whole prior-sampling phase): `k` warm-up iterations of `n` independent prior draws each (product law).
    Outside an event of probability at most `k · f(1−f)/(n ε²)` EVERY batch has a finite draw and EVERY one of the `k`
    recorded evidences is within `ε` of the supported prior mass `f` — the fraction is counted once however many
    prior-sampling iterations occur, and the bound degrades only linearly (union bound) in their number -/
theorem C11_warmup_concentration (p : Ω → ℝ) (hp : ∀ x, 0 ≤ p x) (hp1 : ∑ x, p x = 1) (A : Ω → Prop) [DecidablePred A]
    (k n : ℕ) (hn : 0 < n) (ε : ℝ) (hε0 : 0 < ε) (hε : ε < mass p A) [∀ ω, Decidable (PhaseGood A k n (mass p A) ε ω)] :
    ∑ ω : Fin k → Fin n → Ω, (if PhaseGood A k n (mass p A) ε ω then 0 else ∏ t, ∏ i, p (ω t i))
      ≤ k * (mass p A * (1 - mass p A) / (n * ε ^ 2)) := by
  classical
  -- the law of one batch
  set q : (Fin n → Ω) → ℝ := fun η => ∏ i, p (η i) with hq
  have hq0 : ∀ η, 0 ≤ q η := prod_law_nonneg p hp
  have hq1 : ∑ η, q η = 1 := prod_law_total p hp1
  -- bad batch t
  set bad : (Fin n → Ω) → ℝ := fun η =>
    if ε ≤ |batchZ ([] : List (Nat × ℝ)) n (univ.filter fun i => A (η i)).card - mass p A| then 1 else 0 with hbad
  have hstep : ∀ ω : Fin k → Fin n → Ω,
      (if PhaseGood A k n (mass p A) ε ω then 0 else ∏ t, ∏ i, p (ω t i))
        ≤ ∑ t : Fin k, (∏ s, q (ω s)) * bad (ω t) := by
    intro ω
    have hw : 0 ≤ ∏ s, q (ω s) := Finset.prod_nonneg fun s _ => hq0 (ω s)
    split
    · exact Finset.sum_nonneg fun t _ => mul_nonneg hw (by simp only [hbad]; split <;> norm_num)
    · rename_i hng
      -- some batch must be bad
      have hex : ∃ t : Fin k, ε < |((univ.filter fun i => A (ω t i)).card : ℝ) / (n : ℝ) - mass p A| := by
        by_contra hc
        simp only [not_exists, not_lt] at hc
        exact hng (phaseGood_of_fractions A k n hn _ ε hε ω hc)
      obtain ⟨t, ht⟩ := hex
      have hbt : bad (ω t) = 1 := by
        simp only [hbad]
        rw [batchZ_first n _ hn (by simpa using Finset.card_filter_le (univ : Finset (Fin n)) _)]
        rw [if_pos ht.le]
      calc ∏ t, ∏ i, p (ω t i) = (∏ s, q (ω s)) * bad (ω t) := by rw [hbt, mul_one]
        _ ≤ ∑ t : Fin k, (∏ s, q (ω s)) * bad (ω t) :=
          Finset.single_le_sum (f := fun t => (∏ s, q (ω s)) * bad (ω t))
            (fun t _ => mul_nonneg hw (by simp only [hbad]; split <;> norm_num)) (Finset.mem_univ t)
  refine le_trans (Finset.sum_le_sum fun ω _ => hstep ω) ?_
  rw [Finset.sum_comm]
  have hone : ∀ t : Fin k, ∑ ω : Fin k → Fin n → Ω, (∏ s, q (ω s)) * bad (ω t)
      ≤ mass p A * (1 - mass p A) / (n * ε ^ 2) := by
    intro t
    rw [sum_prod_coord q bad hq1 k t]
    have := C11_first_batch_chebyshev p hp hp1 A n hn ε hε0
    refine le_trans (le_of_eq ?_) this
    refine Finset.sum_congr rfl fun η _ => ?_
    simp only [hbad, hq]; split <;> simp
  refine le_trans (Finset.sum_le_sum fun t _ => hone t) ?_
  simp [Finset.sum_const]

omit [Fintype Ω] in
/-- … and in log space: on the good event every stored `logz_t` of the prior-sampling phase is within `ε/(f−ε)` of
    `log f` -/
theorem C11_warmup_logz_concentration (A : Ω → Prop) [DecidablePred A] (k n : ℕ) (f ε : ℝ) (hε0 : 0 ≤ ε) (hε : ε < f)
    (ω : Fin k → Fin n → Ω) (hg : PhaseGood A k n f ε ω) :
    ∀ e ∈ run batchZ [] (phaseSizes A k n ω), |Real.log e.2 - Real.log f| ≤ ε / (f - ε) :=
  fun e he => C11_log_close f ε e.2 hε0 hε (hg.2 e he)

end stat

/-! ### non-vacuity -/

/-- a fair coin, `A` = heads, four draws: the recorded evidence has variance (1/2)(1/2)/4 = 1/16 -/
example : ∑ ω : Fin 4 → Fin 2, (∏ i, (fun _ : Fin 2 => (1 / 2 : ℝ)) (ω i)) *
    (batchZ ([] : List (Nat × ℝ)) 4 (univ.filter fun i => ω i = 1).card
      - mass (fun _ : Fin 2 => (1 / 2 : ℝ)) (fun x => x = 1)) ^ 2 = 1 / 16 := by
  rw [C11_first_batch_variance (fun _ : Fin 2 => (1 / 2 : ℝ)) (by simp) (fun x => x = 1) 4 (by norm_num)]
  have : mass (fun _ : Fin 2 => (1 / 2 : ℝ)) (fun x => x = 1) = 1 / 2 := by simp [mass]
  rw [this]; norm_num

/-- three batches with fractions 2/4, 4/8, 3/4 around f = 1/2 (ε = 1/4): every recorded evidence is within 1/4 of 1/2 -/
example : ∀ e ∈ run batchZ ([] : List (Nat × ℝ)) [(4, 2), (8, 4), (4, 3)], |e.2 - 1 / 2| ≤ 1 / 4 := by
  apply C11_once_eps_all (1 / 2) (1 / 4) (by norm_num)
  intro b hb
  simp at hb
  rcases hb with rfl | rfl | rfl <;> refine ⟨by norm_num, by norm_num, ?_⟩ <;> rw [abs_le] <;> constructor <;> norm_num

example : |Real.log (3 / 4 : ℝ) - Real.log (1 / 2)| ≤ (1 / 4) / (1 / 2 - 1 / 4) :=
  C11_log_close (1 / 2) (1 / 4) (3 / 4) (by norm_num) (by norm_num) (by rw [abs_le]; constructor <;> norm_num)

end Props.C11
