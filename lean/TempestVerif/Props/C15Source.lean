import TempestVerif.Model.HFit
import TempestVerif.Model.ClusterLits
import TempestVerif.Gen.ClusterSrc
/-
  C15 — the executable models `Model.EM`, `Model.GMM`, `Model.HGMM`, `Model.HFit` are built from the expressions that are in
  /repo's `tempest/cluster.py` NOW.

  `Gen/ClusterSrc.lean` is regenerated from the source on every run of the check (translator G18): the numerical kernels of
  `_m_step`, `_compute_covariances`, `_e_step`, `_initialize_parameters`, `_compute_lower_bound`, `predict`, `bic`, `fit`, and of
  `HierarchicalGaussianMixture.fit` / `_compute_bic_tolerance` / `_compute_effective_sample_size`, compiled to terms over
  `Sc α` / `ScT α` and the numpy vocabulary `Model/NpSrc.lean` — every operator, operand order, comparison and literal
  (`1e-10`, `-0.5`, `1e-3`, `1e-6`, `1000`, `2 * n_features`, `D + D * (D + 1) / 2 + 1`, `iteration + 1` …) — plus the statement
  skeletons.  The theorems hold for EVERY scalar type, `Float` (what the driver executes) included, by `rfl` or by unfolding
  plus a case split on a list / an option (never by an arithmetic law); the one exception, `C15_src_softRow_finite`, states its
  assumption (associativity of `max`).  A change of a literal, an operator, an operand order or a test in the source changes
  the generated term and breaks the corresponding theorem; a change of control flow changes a skeleton table.

  The literal parameters of the models (`eps`, `reg`, `tol`, `maxIter`) are instantiated with `Model.ClusterLits`, which the
  driver prints (`lits.F`) and suite lits-X compares with what `harness/c15.py` sends.
-/
namespace Props.C15.Src
open Model.EM Model.GMM Model.HGMM Model.HFit
namespace L
export Model.ClusterLits (eps regCovar tol maxIter nInit)
end L

section sc
variable {α : Type} [Sc α]

theorem C15_src_weightedResp (R : List (List α)) (s : List α) :
    weightedResp R s = Gen.ClusterSrc.mstep_weighted_resp R s := rfl

theorem C15_src_mstepWeights (K : Nat) (R : List (List α)) (s : List α) :
    mstepWeights K R s = Gen.ClusterSrc.mstep_weights R s K := rfl

theorem C15_src_mstepMeans (tiny : α) (d K : Nat) (X R : List (List α)) (s : List α) :
    mstepMeans tiny d K X R s = Gen.ClusterSrc.mstep_means X R s d tiny K := rfl

theorem C15_src_covFull (d : Nat) (X W : List (List α)) (m : List α) (k : Nat) :
    covFull L.eps d (col W k) (diffRows X m) = Gen.ClusterSrc.cov_full_k X W d k m := rfl

theorem C15_src_covDiag (d : Nat) (X W : List (List α)) (m : List α) (k : Nat) :
    covDiag L.eps d (col W k) (diffRows X m) = Gen.ClusterSrc.cov_diag_k X W d k m := rfl

theorem C15_src_mstep (tiny : α) (d K : Nat) (X R : List (List α)) (s : List α) :
    mstep tiny L.eps d K X R s =
      (let W := Gen.ClusterSrc.mstep_weighted_resp R s
       { weights := Gen.ClusterSrc.mstep_weights R s K
         means := Gen.ClusterSrc.mstep_means X R s d tiny K
         covFull := (List.range K).map fun k => Gen.ClusterSrc.cov_full_k X W d k (meanVec tiny d (col W k) X)
         covDiag := (List.range K).map fun k => Gen.ClusterSrc.cov_diag_k X W d k (meanVec tiny d (col W k) X) }) := rfl

theorem C15_src_means_row (tiny : α) (d K : Nat) (X R : List (List α)) (s : List α) (k : Nat) (hk : k < K) :
    (Gen.ClusterSrc.mstep_means X R s d tiny K)[k]? = some (meanVec tiny d (col (weightedResp R s) k) X) := by
  simp [Gen.ClusterSrc.mstep_means, Np.tab2, meanVec, wmean, weightedResp, hk]

end sc

section sct
variable {α : Type} [ScT α]

theorem C15_src_initNormalise (Lr : List (List α)) : initNormalise Lr = Gen.ClusterSrc.init_normalise Lr := by
  unfold initNormalise Gen.ClusterSrc.init_normalise
  congr 1; funext row; cases row <;> rfl

theorem C15_src_logResp (X cs : Mat α) :
    logResp X cs = X.map fun x => cs.map fun c => Gen.ClusterSrc.init_logresp_entry c x := rfl

theorem C15_src_pickIdx (p : List α) (u : α) :
    pickIdx p u = Gen.ClusterSrc.init_draw_first p u ∧ pickIdx p u = Gen.ClusterSrc.init_draw_next p u := ⟨rfl, rfl⟩

theorem C15_src_centres_succ (X : Mat α) (s : List α) (K : Nat) (u : α) (tape : List α) :
    centres X s (K + 1) (u :: tape) =
      match Gen.ClusterSrc.init_draw_first s u with
      | none => none
      | some i =>
        match X[i]? with
        | none => none
        | some c0 => (moreCentres X s c0 K tape [] [i]).map fun r => (c0 :: r.1, r.2.1, r.2.2) := rfl

theorem C15_src_moreCentres_succ (X : Mat α) (s c0 : List α) (k : Nat) (u : α) (tape : List α) (cs : Mat α) (picks : List Nat) :
    moreCentres X s c0 (k + 1) (u :: tape) cs picks =
      match Gen.ClusterSrc.init_draw_next (Gen.ClusterSrc.init_next_mass X s c0 cs) u with
      | none => none
      | some i =>
        match X[i]? with
        | none => none
        | some c => moreCentres X s c0 k tape (cs ++ [c]) (picks ++ [i]) := rfl

theorem C15_src_initFit (c : Cfg α) (X : Mat α) (s tape : List α) :
    initFit c X s tape = (centres X s c.K tape).map fun r =>
      (mstep c.tiny c.eps c.d c.K X
         (Gen.ClusterSrc.init_normalise (X.map fun x => r.1.map fun ctr => Gen.ClusterSrc.init_logresp_entry ctr x)) s, r.2.1, r.2.2) := by
  simp only [initFit, initParams, C15_src_initNormalise, C15_src_logResp]

theorem C15_src_estep_entry (w t : α) :
    (logW w).map (fun lw => Sc.add lw t) = if Sc.lt Sc.zero w then some (Gen.ClusterSrc.estep_logresp t w) else none := by
  unfold logW; split <;> rfl

theorem C15_src_estepCol (sing : Mat α → Bool) (reg : α) (w : α) (m : List α) (C X : Mat α) :
    estepCol sing reg m.length w m C X =
      (Np.tryExcept (logpdfCol sing m.length (Gen.ClusterSrc.estep_cov_try C reg) m X)
                    (logpdfCol sing m.length (Gen.ClusterSrc.estep_cov_except reg m) m X)).map
        fun l => l.map fun t => if Sc.lt Sc.zero w then some (Gen.ClusterSrc.estep_logresp t w) else none := by
  simp only [estepCol, Np.tryExcept, Gen.ClusterSrc.estep_cov_try, Gen.ClusterSrc.estep_cov_except, Np.addScaledEye, Np.scaledEye,
    C15_src_estep_entry]
  cases logpdfCol sing m.length (addDiag reg C) m X <;> rfl


/-! E-step normalisation -/
theorem max_foldl_assoc (hassoc : ∀ a b c : α, Sc.max (Sc.max a b) c = Sc.max a (Sc.max b c)) (x : α) :
    ∀ (ys : List α) (y : α), Sc.max x (ys.foldl Sc.max y) = ys.foldl Sc.max (Sc.max x y)
  | [], _ => rfl
  | z :: zs, y => by
    simp only [List.foldl_cons]
    rw [max_foldl_assoc hassoc x zs (Sc.max y z), hassoc]

theorem rowMaxO_some (hassoc : ∀ a b c : α, Sc.max (Sc.max a b) c = Sc.max a (Sc.max b c)) :
    ∀ (xs : List α) (x : α), rowMaxO ((x :: xs).map some) = some (Np.max1 (x :: xs))
  | [], _ => rfl
  | y :: ys, x => by
    have ih := rowMaxO_some hassoc ys y
    have step : rowMaxO ((x :: y :: ys).map some) =
        match rowMaxO ((y :: ys).map some) with | none => some x | some m => some (Sc.max x m) := rfl
    rw [step, ih]
    show some (Sc.max x (ys.foldl Sc.max y)) = some (ys.foldl Sc.max (Sc.max x y))
    rw [max_foldl_assoc hassoc]

/-- a row of finite log-responsibilities: the model's `softRow` is the source's three statements, provided `max` is
    associative on the scalar type (true of `ℝ`, `ℚ`; of IEEE doubles up to the sign of a zero, NaN-free) -/
theorem C15_src_softRow_finite (hassoc : ∀ a b c : α, Sc.max (Sc.max a b) c = Sc.max a (Sc.max b c)) (x : α) (xs : List α) :
    (softRow ((x :: xs).map some)).map (fun r => [r]) = some (Gen.ClusterSrc.estep_normalise [x :: xs]) := by
  unfold softRow
  rw [rowMaxO_some hassoc]
  simp [Gen.ClusterSrc.estep_normalise, List.map_map, Function.comp_def]


/-! lower bound, predict, bic -/
theorem C15_src_lbCols (sing : Mat α → Bool) (reg : α) (d : Nat) (ws : List α) (ms : Mat α) (Cs : List (Mat α)) (X : Mat α) :
    lbCols sing reg d ws ms Cs X = (List.zip ws (List.zip ms Cs)).filterMap fun t =>
      (logpdfCol sing d (Gen.ClusterSrc.lb_cov t.2.2 reg) t.2.1 X).map fun l => l.map fun u => Gen.ClusterSrc.lb_term u t.1 := rfl

theorem C15_src_lowerBound (sing : Mat α → Bool) (reg : α) (d : Nat) (ws : List α) (ms : Mat α) (Cs : List (Mat α)) (X : Mat α)
    (s : List α) :
    lowerBound sing reg L.eps d ws ms Cs X s =
      Gen.ClusterSrc.lb_total s ((List.range X.length).map fun i =>
        Gen.ClusterSrc.lb_log (Sc.sum (col (lbCols sing reg d ws ms Cs X) i))) := rfl

theorem C15_src_predictCol (sing : Mat α → Bool) (reg : α) (d n : Nat) (w : α) (m : List α) (C X : Mat α) :
    predictCol sing reg L.eps d n w m C X =
      match logpdfCol sing d (Gen.ClusterSrc.predict_cov C reg) m X with
      | some l => l.map fun t => some (Gen.ClusterSrc.predict_entry t w)
      | none => List.replicate n none := by
  simp only [predictCol, Gen.ClusterSrc.predict_cov, Np.addScaledEye]
  cases logpdfCol sing d (addDiag reg C) m X <;> rfl

theorem C15_src_nParameters_full (K d : Nat) :
    (nParameters false K d : α) = Gen.ClusterSrc.bic_n_parameters d (Gen.ClusterSrc.bic_cov_params_full d K) K := rfl

theorem C15_src_bic (c : Cfg α) (p : MStep α) (X : Mat α) :
    bic c p X =
      Gen.ClusterSrc.bic_value X.length (nParameters c.diagT c.K c.d)
        (Gen.ClusterSrc.bic_log_likelihood X.length
          (lowerBound c.sing c.reg c.eps c.d p.weights p.means (covMats c.diagT p) X
            (List.replicate X.length (Sc.div Sc.one (Sc.ofNat X.length))))) := rfl

/-! fit -/
theorem C15_src_normWeights (w : List α) : normWeights w = Gen.ClusterSrc.fit_norm_weights w := rfl

theorem C15_src_converged (tol new l : α) :
    converged tol new (some l) = Gen.ClusterSrc.fit_conv_test l new tol ∧ converged tol new none = false := ⟨rfl, rfl⟩

theorem C15_src_better (l b : α) : better (some l) (some b) = Gen.ClusterSrc.fit_best_test b l := rfl

theorem C15_src_emLoop_succ (c : Cfg α) (X : Mat α) (s : List α) (fuel it : Nat) (lb : Option α) (p : MStep α) :
    emLoop c X s (fuel + 1) it lb p =
      match emIter c X s p with
      | none => none
      | some (p', new) =>
        if (match lb with | none => false | some l => Gen.ClusterSrc.fit_conv_test l new c.tol) then some ⟨p', lb, it⟩
        else if fuel = 0 then some ⟨p', some new, it⟩
        else emLoop c X s fuel (it + 1) (some new) p' := by
  cases lb <;> rfl

theorem C15_src_fitInits_succ (c : Cfg α) (X : Mat α) (s : List α) (n : Nat) (tape : List α) (best : Option (Model.GMM.Best α))
    (picks : List (List Nat)) :
    fitInits c X s (n + 1) tape best picks =
      match initFit c X s tape with
      | none => none
      | some (p0, pk, tape') =>
        match emLoop c X s c.maxIter 0 none p0 with
        | none => none
        | some o =>
          let best' := if better o.lb (best.map (·.lb)) then
              (match o.lb with | some l => some ⟨o.params, Gen.ClusterSrc.fit_n_iter o.iter, l⟩ | none => best) else best
          fitInits c X s n tape' best' (picks ++ [pk]) := rfl

theorem C15_src_fit (c : Cfg α) (X : Mat α) (w tape : List α) :
    fit c X w tape =
      match fitInits c X (Gen.ClusterSrc.fit_norm_weights w) c.nInit tape none [] with
      | none => none
      | some (none, _) => none
      | some (some b, picks) => some ⟨b.params, b.nIter, Gen.ClusterSrc.fit_converged c.maxIter b.nIter, b.lb, picks⟩ := rfl

theorem C15_src_defaults :
    (L.tol : α) = Gen.ClusterSrc.default_tol ∧ (L.regCovar : α) = Gen.ClusterSrc.default_reg_covar ∧
    L.maxIter = Gen.ClusterSrc.default_max_iter ∧ L.nInit = Gen.ClusterSrc.default_n_init := ⟨rfl, rfl, rfl, rfl⟩

end sct

section hsc
variable {α : Type} [Sc α]

theorem C15_src_beats (imp thr : α) (b : Model.HGMM.Best α) :
    (Sc.lt thr imp && beats imp (some b)) = Gen.ClusterSrc.hfit_accept_test b.improvement thr imp ∧
    (Sc.lt thr imp && beats imp (none : Option (Model.HGMM.Best α))) = (Sc.gt imp thr && true) := ⟨rfl, rfl⟩

theorem C15_src_pick (members labels : List Nat) :
    pick members labels 0 = Gen.ClusterSrc.hfit_child1 members labels ∧
    pick members labels 1 = Gen.ClusterSrc.hfit_child2 members labels := ⟨rfl, rfl⟩

theorem C15_src_examine (oracle : Nat → List Nat → Entry α) (minPts idx : Nat) (c : List Nat) (best : Option (Model.HGMM.Best α)) :
    examine oracle minPts idx c best =
      if Gen.ClusterSrc.hfit_skip_test minPts c.length then best else
      let e := oracle idx c
      if Sc.lt e.threshold e.improvement && beats e.improvement best then
        let c1 := Gen.ClusterSrc.hfit_child1 c e.childLabels
        let c2 := Gen.ClusterSrc.hfit_child2 c e.childLabels
        if Gen.ClusterSrc.hfit_size_test minPts c1.length c2.length then some ⟨e.improvement, c1, c2, idx⟩ else best
      else best := by
  unfold examine Gen.ClusterSrc.hfit_skip_test
  by_cases h1 : c.length < minPts
  · simp only [h1, decide_true, if_true]
  · simp only [h1, decide_false, if_false, Bool.false_eq_true]
    rfl

omit [Sc α] in
theorem C15_src_applySplit (clusters : List (List Nat)) (b : Model.HGMM.Best α) :
    applySplit clusters b = Gen.ClusterSrc.hfit_apply_split clusters b.parentIdx b.child1 b.child2 := rfl

/-- `while iteration < self.max_iterations: iteration += 1; …` — the fuel of the model's loop is `max_iterations - iteration` -/
theorem C15_src_loop (oracle : Nat → Nat → List Nat → Entry α) (minPts maxIt it : Nat) (cl : List (List Nat)) :
    loop oracle minPts (maxIt - it) it cl =
      if Gen.ClusterSrc.hfit_while_test it maxIt then
        match scan (oracle (Gen.ClusterSrc.hfit_iter_next it)) minPts 0 cl none with
        | none => cl
        | some b => loop oracle minPts (maxIt - Gen.ClusterSrc.hfit_iter_next it) (Gen.ClusterSrc.hfit_iter_next it) (applySplit cl b)
      else cl := by
  unfold Gen.ClusterSrc.hfit_while_test Gen.ClusterSrc.hfit_iter_next
  by_cases h : it < maxIt
  · obtain ⟨f, hf⟩ : ∃ f, maxIt - it = f + 1 := ⟨maxIt - it - 1, by omega⟩
    have hf' : maxIt - (it + 1) = f := by omega
    simp only [h, decide_true, if_true, hf, hf']
    rfl
  · have : maxIt - it = 0 := by omega
    simp only [h, decide_false, this]
    rfl

theorem C15_src_fitClusters (oracle : Nat → Nat → List Nat → Entry α) (n minPts maxIt : Nat) :
    fitClusters oracle n minPts maxIt = loop oracle minPts (maxIt - 0) 0 (Gen.ClusterSrc.hfit_initial_clusters n) := rfl
end hsc

section hsct
variable {α : Type} [ScT α]

theorem C15_src_essOf (w : List α) : essOf w = Gen.ClusterSrc.hess w := by
  simp only [essOf, Gen.ClusterSrc.hess, List.map_map, Function.comp_def]
  rfl

theorem C15_src_threshold (modifier : α) (d : Nat) (w : List α) :
    threshold modifier d w = Gen.ClusterSrc.hfit_threshold (Gen.ClusterSrc.hbic_tolerance d (Gen.ClusterSrc.hess w)) modifier := by
  rw [← C15_src_essOf]; rfl

omit [ScT α] in
theorem C15_src_minPts (c : HCfg α) : minPts c = Gen.ClusterSrc.hfit_min_points c.d c.minPoints := by
  unfold minPts Gen.ClusterSrc.hfit_min_points; cases c.minPoints <;> rfl

theorem C15_src_entry (c : HCfg α) (X : Mat α) (w : List α) (members : List Nat) :
    entry? c X w members =
      match gather X members, gather w members with
      | some data, some wts =>
        match fit (gmmCfg c 1) data wts c.tape, fit (gmmCfg c 2) data wts c.tape with
        | some par, some chi =>
          match mapOpt id (predict (gmmCfg c 2) chi.params data) with
          | some labels =>
            some ⟨Gen.ClusterSrc.hfit_improvement (bic (gmmCfg c 1) par.params data) (bic (gmmCfg c 2) chi.params data),
                  threshold c.modifier c.d wts, labels⟩
          | none => none
        | _, _ => none
      | _, _ => none := rfl

theorem C15_src_clusterParams (c : HCfg α) (data : Mat α) (wts : List α) :
    clusterParams c data wts =
      if Gen.ClusterSrc.hfit_final_test c.d data.length then
        match fit (gmmCfg c 1) data wts c.tape with
        | none => none
        | some g =>
          match g.params.means with
          | [] => none
          | m0 :: _ =>
            if c.diagT then some (m0, g.params.covDiag)
            else match g.params.covFull with
              | [] => none
              | c0 :: _ => some (m0, c0)
      else some (colMean c.d data, scaledEye c.d Sc.one) := by
  unfold clusterParams Gen.ClusterSrc.hfit_final_test
  by_cases h1 : c.d ≤ data.length
  · simp only [h1, decide_true, if_true]
    rfl
  · simp only [h1, decide_false, if_false, Bool.false_eq_true]
end hsct

/-! ### the statement skeletons the models were written against

  `path: statement` in program order (`t`/`e` = then/else block, `x0` = first except clause); locals are renamed `v0, v1, …` in order
  of first binding (parameters keep their names), docstrings, imports and `if self.verbose:` blocks are dropped. -/

/-- `_m_step`: the three computed arrays, the call `self._compute_covariances(X, means, weighted_resp)` (the model's `mstep` hands the covariance kernels the NEW means and the weighted responsibilities), and the order of the returned triple -/
def expected_mstepSkeleton : List String :=
  ["0: v0, v1 = X.shape",
   "1: v2 = responsibilities * sample_weight[:, np.newaxis]",
   "2: v3 = np.sum(v2, axis=0)",
   "3: v3 /= np.sum(v3)",
   "4: v4 = np.dot(v2.T, X) / np.maximum(np.sum(v2, axis=0)[:, np.newaxis], np.finfo(float).tiny)",
   "5: v5 = self._compute_covariances(X, v4, v2)",
   "6: return (v3, v4, v5)"]

theorem C15_src_mstepSkeleton : Gen.ClusterSrc.mstepSkeleton = expected_mstepSkeleton := rfl

/-- the 'full' branch of `_compute_covariances`: one slot per component, `range(self.n_components)` -/
def expected_covFullSkeleton : List String :=
  ["0: v2 = np.zeros((self.n_components, v1, v1))",
   "1: for v3 in range(self.n_components)",
   "1.0: v4 = X - means[v3]",
   "1.1: v2[v3] = np.dot(weighted_resp[:, v3] * v4.T, v4)",
   "1.2: v2[v3] /= np.sum(weighted_resp[:, v3]) + 1e-10"]

theorem C15_src_covFullSkeleton : Gen.ClusterSrc.covFullSkeleton = expected_covFullSkeleton := rfl

/-- the 'diag' branch -/
def expected_covDiagSkeleton : List String :=
  ["0: v2 = np.zeros((self.n_components, v1))",
   "1: for v3 in range(self.n_components)",
   "1.0: v4 = X - means[v3]",
   "1.1: v2[v3] = np.sum(weighted_resp[:, v3, np.newaxis] * v4 ** 2, axis=0)",
   "1.2: v2[v3] /= np.sum(weighted_resp[:, v3]) + 1e-10"]

theorem C15_src_covDiagSkeleton : Gen.ClusterSrc.covDiagSkeleton = expected_covDiagSkeleton := rfl

/-- `_get_covariance`: `covariances[k]` ('full') / `np.diag(covariances[k])` ('diag') = `Model.GMM.covMats` -/
def expected_getCovarianceSkeleton : List String :=
  ["0: if self.covariance_type == 'full'",
   "0t.0: return covariances[k]",
   "0e.0: if self.covariance_type == 'tied'",
   "0e.0t.0: return covariances",
   "0e.0e.0: if self.covariance_type == 'diag'",
   "0e.0e.0t.0: return np.diag(covariances[k])",
   "0e.0e.0e.0: if self.covariance_type == 'spherical'",
   "0e.0e.0e.0t.0: v0 = self.means_.shape[1]",
   "0e.0e.0e.0t.1: return np.eye(v0) * covariances[k]"]

theorem C15_src_getCovarianceSkeleton : Gen.ClusterSrc.getCovarianceSkeleton = expected_getCovarianceSkeleton := rfl

/-- `_e_step`: which covariance each `logpdf` call gets, the `except` clause, the column written, the normalisation after the loop -/
def expected_estepSkeleton : List String :=
  ["0: v0 = X.shape[0]",
   "1: v1 = np.zeros((v0, self.n_components))",
   "2: for v2 in range(self.n_components)",
   "2.0: v3 = self._get_covariance(covariances, v2)",
   "2.1: try",
   "2.1.0: v4 = multivariate_normal.logpdf(X, mean=means[v2], cov=v3 + np.eye(v3.shape[0]) * self.reg_covar)",
   "2.1x0: except (np.linalg.LinAlgError, ValueError)",
   "2.1x0.0: v4 = multivariate_normal.logpdf(X, mean=means[v2], cov=np.eye(len(means[v2])) * self.reg_covar)",
   "2.2: with np.errstate(divide='ignore')",
   "2.2.0: v1[:, v2] = np.log(weights[v2]) + v4",
   "3: v1 -= np.max(v1, axis=1, keepdims=True)",
   "4: v5 = np.exp(v1)",
   "5: v5 /= np.sum(v5, axis=1, keepdims=True)",
   "6: return v5"]

theorem C15_src_estepSkeleton : Gen.ClusterSrc.estepSkeleton = expected_estepSkeleton := rfl

/-- `_initialize_parameters`: first centre from `sample_weight`, later centres from the nearest-centre distances (`range(1, K)`, `range(k)`), the soft assignment and the final `_m_step` call -/
def expected_initSkeleton : List String :=
  ["0: v0, v1 = X.shape",
   "1: v2 = np.zeros((self.n_components, v1))",
   "2: v3 = np.cumsum(sample_weight)",
   "3: v4 = self._rng.rand() * v3[-1]",
   "4: v2[0] = X[np.searchsorted(v3, v4)]",
   "5: for v5 in range(1, self.n_components)",
   "5.0: v6 = np.min([np.sum((X - v2[v7]) ** 2, axis=1) for v7 in range(v5)], axis=0)",
   "5.1: v8 = v6 * sample_weight",
   "5.2: v8 /= np.sum(v8)",
   "5.3: v3 = np.cumsum(v8)",
   "5.4: v4 = self._rng.rand() * v3[-1]",
   "5.5: v2[v5] = X[np.searchsorted(v3, v4)]",
   "6: v9 = np.zeros((v0, self.n_components))",
   "7: for v5 in range(self.n_components)",
   "7.0: v6 = np.sum((X - v2[v5]) ** 2, axis=1)",
   "7.1: v9[:, v5] = -0.5 * v6",
   "8: v9 -= np.max(v9, axis=1, keepdims=True)",
   "9: v10 = np.exp(v9)",
   "10: v10 /= np.sum(v10, axis=1, keepdims=True)",
   "11: v11, v2, v12 = self._m_step(X, v10, sample_weight)",
   "12: return (v11, v2, v12)"]

theorem C15_src_initSkeleton : Gen.ClusterSrc.initSkeleton = expected_initSkeleton := rfl

/-- `_compute_lower_bound`: a refused component is skipped (`pass`), accumulation from zeros -/
def expected_lowerBoundSkeleton : List String :=
  ["0: v0 = X.shape[0]",
   "1: v1 = np.zeros(v0)",
   "2: for v2 in range(self.n_components)",
   "2.0: v3 = self._get_covariance(covariances, v2)",
   "2.1: try",
   "2.1.0: v4 = multivariate_normal.logpdf(X, mean=means[v2], cov=v3 + np.eye(v3.shape[0]) * self.reg_covar)",
   "2.1.1: v1 += weights[v2] * np.exp(v4)",
   "2.1x0: except (np.linalg.LinAlgError, ValueError)",
   "2.1x0.0: pass",
   "3: v1 = np.log(v1 + 1e-10)",
   "4: return np.sum(sample_weight * v1)"]

theorem C15_src_lowerBoundSkeleton : Gen.ClusterSrc.lowerBoundSkeleton = expected_lowerBoundSkeleton := rfl

/-- `GaussianMixture.predict`: a refused component gets the column `-inf`, `np.argmax(…, axis=1)` -/
def expected_predictSkeleton : List String :=
  ["0: if not isinstance(X, np.ndarray)",
   "0t.0: X = np.array(X)",
   "1: v0 = X.shape[0]",
   "2: v1 = np.zeros((v0, self.n_components))",
   "3: for v2 in range(self.n_components)",
   "3.0: v3 = self._get_covariance(self.covariances_, v2)",
   "3.1: try",
   "3.1.0: v1[:, v2] = np.log(self.weights_[v2] + 1e-10) + multivariate_normal.logpdf(X, mean=self.means_[v2], cov=v3 + np.eye(v3.shape[0]) * self.reg_covar)",
   "3.1x0: except (np.linalg.LinAlgError, ValueError)",
   "3.1x0.0: v1[:, v2] = -np.inf",
   "4: return np.argmax(v1, axis=1)"]

theorem C15_src_predictSkeleton : Gen.ClusterSrc.predictSkeleton = expected_predictSkeleton := rfl

/-- `bic`: the four parameter counts and the uniform weights `np.ones(n_samples) / n_samples` -/
def expected_bicSkeleton : List String :=
  ["0: v0, v1 = X.shape",
   "1: if self.covariance_type == 'full'",
   "1t.0: v2 = self.n_components * v1 * (v1 + 1) / 2",
   "1e.0: if self.covariance_type == 'tied'",
   "1e.0t.0: v2 = v1 * (v1 + 1) / 2",
   "1e.0e.0: if self.covariance_type == 'diag'",
   "1e.0e.0t.0: v2 = self.n_components * v1",
   "1e.0e.0e.0: if self.covariance_type == 'spherical'",
   "1e.0e.0e.0t.0: v2 = self.n_components",
   "2: v3 = self.n_components - 1 + self.n_components * v1 + v2",
   "3: v4 = self._compute_lower_bound(X, self.weights_, self.means_, self.covariances_, np.ones(v0) / v0) * v0",
   "4: return -2 * v4 + v3 * np.log(v0)"]

theorem C15_src_bicSkeleton : Gen.ClusterSrc.bicSkeleton = expected_bicSkeleton := rfl

/-- `GaussianMixture.fit`: `-np.inf` starts (`none` in the model), E-step / M-step / lower-bound order, `break` before `lower_bound = new_lower_bound`, what is kept of the best restart -/
def expected_fitSkeleton : List String :=
  ["0: if not isinstance(X, np.ndarray)",
   "0t.0: X = np.array(X)",
   "1: v0, v1 = X.shape",
   "2: if sample_weight is None",
   "2t.0: sample_weight = np.ones(v0)",
   "2e.0: sample_weight = np.asarray(sample_weight)",
   "2e.1: if sample_weight.shape[0] != v0",
   "2e.1t.0: raise ValueError('sample_weight must have the same length as X')",
   "3: sample_weight = sample_weight / np.sum(sample_weight)",
   "4: v2 = None",
   "5: v3 = -np.inf",
   "6: if self.random_state is not None",
   "6t.0: self._rng = np.random.RandomState(self.random_state)",
   "7: for v4 in range(self.n_init)",
   "7.0: v5, v6, v7 = self._initialize_parameters(X, sample_weight)",
   "7.1: v8 = -np.inf",
   "7.2: for v9 in range(self.max_iter)",
   "7.2.0: v10 = self._e_step(X, v5, v6, v7)",
   "7.2.1: v5, v6, v7 = self._m_step(X, v10, sample_weight)",
   "7.2.2: v11 = self._compute_lower_bound(X, v5, v6, v7, sample_weight)",
   "7.2.3: if v11 - v8 < self.tol",
   "7.2.3t.0: break",
   "7.2.4: v8 = v11",
   "7.3: if v8 > v3",
   "7.3t.0: v3 = v8",
   "7.3t.1: v2 = (v5, v6, v7, v9 + 1)",
   "8: self.weights_, self.means_, self.covariances_, self.n_iter_ = v2",
   "9: self.converged_ = self.n_iter_ < self.max_iter",
   "10: self.lower_bound_ = v3",
   "11: return self"]

theorem C15_src_fitSkeleton : Gen.ClusterSrc.fitSkeleton = expected_fitSkeleton := rfl

/-- `_compute_effective_sample_size` -/
def expected_essSkeleton : List String :=
  ["0: weights = np.asarray(weights)",
   "1: v0 = weights / np.sum(weights)",
   "2: return 1.0 / np.sum(v0 ** 2)"]

theorem C15_src_essSkeleton : Gen.ClusterSrc.essSkeleton = expected_essSkeleton := rfl

/-- `_compute_bic_tolerance` -/
def expected_bicToleranceSkeleton : List String :=
  ["0: v0 = n_features",
   "1: v1 = self._compute_effective_sample_size(weights)",
   "2: v2 = v0 + v0 * (v0 + 1) / 2 + 1",
   "3: return v2 * np.log(v1)"]

theorem C15_src_bicToleranceSkeleton : Gen.ClusterSrc.bicToleranceSkeleton = expected_bicToleranceSkeleton := rfl

/-- the base threshold is computed from the dimension and the cluster's OWN weights -/
def expected_hfitThresholdCall : List String :=
  ["v14 = self._compute_bic_tolerance(v1, v13)"]

theorem C15_src_hfitThresholdCall : Gen.ClusterSrc.hfitThresholdCall = expected_hfitThresholdCall := rfl

/-- keyword arguments of the three inner mixtures (parent: 1 component, child: 2, final: 1; all `random_state=42`, `n_init=self.n_init`) -/
def expected_hfitMixtures : List String :=
  ["n_components=1, covariance_type=self.covariance_type, n_init=self.n_init, random_state=42",
   "n_components=2, covariance_type=self.covariance_type, n_init=self.n_init, random_state=42",
   "n_components=1, covariance_type=self.covariance_type, n_init=self.n_init, random_state=42"]

theorem C15_src_hfitMixtures : Gen.ClusterSrc.hfitMixtures = expected_hfitMixtures := rfl

/-- `HierarchicalGaussianMixture.fit`: `-np.inf` / `None` starts of a pass, what an accepted split records, `break` when none was accepted, `pop` then `extend`, the final per-cluster fits and the label assembly -/
def expected_hfitSkeleton : List String :=
  ["0: if not isinstance(X, np.ndarray)",
   "0t.0: X = np.array(X)",
   "1: v0, v1 = X.shape",
   "2: if sample_weight is None",
   "2t.0: sample_weight = np.ones(v0)",
   "2e.0: sample_weight = np.asarray(sample_weight)",
   "2e.1: if sample_weight.shape[0] != v0",
   "2e.1t.0: raise ValueError('sample_weight must have the same length as X')",
   "3: if self.normalize",
   "3t.0: self._data_min = np.min(X, axis=0)",
   "3t.1: self._data_max = np.max(X, axis=0)",
   "3t.2: X = self._normalize_data(X)",
   "4: v2 = self.min_points if self.min_points is not None else 2 * v1",
   "5: v3 = [[v4 for v4 in range(v0)]]",
   "6: v5 = 0",
   "7: while v5 < self.max_iterations",
   "7.0: v5 += 1",
   "7.1: v6 = -np.inf",
   "7.2: v7 = None",
   "7.3: v8 = None",
   "7.4: v9 = None",
   "7.5: for (v10, v11) in enumerate(v3)",
   "7.5.0: if len(v11) < v2",
   "7.5.0t.0: continue",
   "7.5.1: v12 = X[v11]",
   "7.5.2: v13 = sample_weight[v11]",
   "7.5.3: v14 = self._compute_bic_tolerance(v1, v13)",
   "7.5.4: v15 = self.threshold_modifier * v14",
   "7.5.5: v16 = GaussianMixture(n_components=1, covariance_type=self.covariance_type, n_init=self.n_init, random_state=42)",
   "7.5.6: v16.fit(v12, sample_weight=v13)",
   "7.5.7: v17 = v16.bic(v12)",
   "7.5.8: v18 = GaussianMixture(n_components=2, covariance_type=self.covariance_type, n_init=self.n_init, random_state=42)",
   "7.5.9: v18.fit(v12, sample_weight=v13)",
   "7.5.10: v19 = v18.bic(v12)",
   "7.5.11: v20 = v17 - v19",
   "7.5.12: if v20 > v15 and v20 > v6",
   "7.5.12t.0: v21 = v18.predict(v12)",
   "7.5.12t.1: v22 = [v11[v4] for v4 in range(len(v11)) if v21[v4] == 0]",
   "7.5.12t.2: v23 = [v11[v4] for v4 in range(len(v11)) if v21[v4] == 1]",
   "7.5.12t.3: if len(v22) >= v2 and len(v23) >= v2",
   "7.5.12t.3t.0: v6 = v20",
   "7.5.12t.3t.1: v7 = (v22, v23)",
   "7.5.12t.3t.2: v8 = v10",
   "7.5.12t.3t.3: v9 = v15",
   "7.6: if v7 is None",
   "7.6t.0: break",
   "7.7: v3.pop(v8)",
   "7.8: v3.extend(v7)",
   "8: v21 = np.full(v0, -1, dtype=int)",
   "9: v24 = []",
   "10: v25 = []",
   "11: for (v26, v11) in enumerate(v3)",
   "11.0: v12 = X[v11]",
   "11.1: v13 = sample_weight[v11]",
   "11.2: if len(v12) >= v1",
   "11.2t.0: v27 = GaussianMixture(n_components=1, covariance_type=self.covariance_type, n_init=self.n_init, random_state=42)",
   "11.2t.1: v27.fit(v12, sample_weight=v13)",
   "11.2t.2: v28 = v27.means_[0]",
   "11.2t.3: v29 = v27.covariances_[0] if self.covariance_type == 'full' else v27.covariances_",
   "11.2e.0: v28 = np.mean(v12, axis=0)",
   "11.2e.1: v29 = np.eye(v1)",
   "11.3: if self.normalize",
   "11.3t.0: v28 = self._denormalize_data(v28)",
   "11.3t.1: v29 = self._denormalize_covariance(v29)",
   "11.4: v24.append(v28)",
   "11.5: v25.append(v29)",
   "11.6: v21[v11] = v26",
   "12: self.labels_ = v21",
   "13: self.cluster_centers_ = v24",
   "14: self.cluster_covariances_ = v25",
   "15: self.n_clusters_ = len(v3)",
   "16: v30 = np.sum(sample_weight)",
   "17: self.cluster_weights_ = np.array([np.sum(sample_weight[v21 == v4]) / v30 for v4 in range(self.n_clusters_)])",
   "18: self._gmm_ready = self.n_clusters_ > 0 and len(self.cluster_centers_) > 0",
   "19: return self"]

theorem C15_src_hfitSkeleton : Gen.ClusterSrc.hfitSkeleton = expected_hfitSkeleton := rfl

end Props.C15.Src
