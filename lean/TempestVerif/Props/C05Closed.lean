import TempestVerif.Model.ClosedLoop
import TempestVerif.Model.TrimSites
import TempestVerif.Lemmas.PipelineShift
import TempestVerif.Props.C05Pipeline
import TempestVerif.Props.C20Sites
import TempestVerif.Props.C10Closed
import Mathlib.Tactic
/-
  C05 on the CLOSED-LOOP model of a whole run (`Model.ClosedLoop`, tied to the real sampler by the trace replay `cl.F`):
  BOTH metric modes, with nothing about the schedule read from a tape.

  In `Props/C05Pipeline.lean` (ESS mode only) the proposals and the number of accept/reject steps arrive on a tape and the trainer
  is invisible.  Here the oracle the reweighting step consults is

      clM W c s β = (w, ess w, metric)      w = exp(logw − max logw)  for the C04 log-weights of the stored history of `s`,
                                            ess = the C20 effective sample size,
                                            metric = ess w  (ESS mode)  |  W.volvar pool (normalise w) β  (volume-variation mode)

  and `Trainer.run`, `Resampler.run`, the mutation loop and the `while _not_termination()` loop are part of the model.

    cl_iterate_facts            what one `execute_iteration` records / hands on, in terms of `Reweighter.run`'s output
    C05_cl_iteration            one iteration, either mode: β_prev ≤ β ≤ β_upper ≤ 1; ESS(β_upper) ≥ target after an advance;
                                ESS mode: ESS(β) ≥ target after an advance
    C05_cl_limit_tight          the ESS-limited temperature is tight (BETA_TOLERANCE regenerated from /repo)
    C05_cl_same_temperature     weights / ESS / evidence recorded for the iteration are the pool's at the recorded β
    C05_cl_trainer              clause 7b, trainer half: what `trim_weights` and the fitting routine receive
    C05_cl_resampler            clause 7b, resampler half on this model
    runLoop_trace               the run is a chain of `iterate` steps
    C05_cl_schedule(_from)      whole run (fresh / continued from ANY state with β ≤ 1, e.g. a restored checkpoint)
    C05_cl_warmup               β stays 0 while the pool is smaller than the target — both modes
-/
namespace Props.C05
open Model.ClosedLoop Model.Weights Model.Reweight Model.Ess
open Model.Records (gather?)
open Model.Pipeline (oracleM oracleZ isFin returnedWeights)

variable {P MS TS G : Type}

/-- the metric oracle the reweighting step of state `s` consults -/
noncomputable def clM (W : World ℝ P MS TS G) (c : CCfg ℝ) (s : CState ℝ P TS G) : ℝ → List ℝ × ℝ × ℝ :=
  oracleMV W c.rw.vv (poolOf s.hist) (batchesOf s.hist)

theorem clM_w (W : World ℝ P MS TS G) (c : CCfg ℝ) (s : CState ℝ P TS G) (β : ℝ) :
    (clM W c s β).1 = (oracleM (batchesOf s.hist) β).1 := by
  unfold clM oracleMV; cases c.rw.vv <;> rfl

theorem clM_ess (W : World ℝ P MS TS G) (c : CCfg ℝ) (s : CState ℝ P TS G) (β : ℝ) :
    (clM W c s β).2.1 = ess (oracleM (batchesOf s.hist) β).1 := by
  unfold clM oracleMV; cases c.rw.vv <;> rfl

/-- volume-variation mode: the metric is the world's `volume_variation` of the pool records and the NORMALISED weights at β -/
theorem clM_metric (W : World ℝ P MS TS G) (c : CCfg ℝ) (s : CState ℝ P TS G) (v β : ℝ) (hv : c.rw.vv = some v) :
    (clM W c s β).2.2 = W.volvar (poolOf s.hist) (normalise (oracleM (batchesOf s.hist) β).1) β := by
  unfold clM oracleMV; rw [hv]

theorem reweightStep_eq (W : World ℝ P MS TS G) (c : CCfg ℝ) (s : CState ℝ P TS G) :
    reweightStep W c s = run c.rw s.hist.isEmpty (clM W c s) (oracleZ (batchesOf s.hist)) isFin s.beta := by
  unfold reweightStep clM batchesOf
  cases s.hist <;> rfl

/-- What one `execute_iteration` of the closed-loop model records and hands on, in terms of the output `r` of
    `Reweighter.run`: the iteration record and the committed state carry r's β / ESS / evidence; the weights recorded as handed
    to `Trainer.run` and `Resampler.run` are the ones `r` returned; `Trainer.run` ran on them with `state["beta"] = r.beta`;
    the history grew by one batch labelled with r's β. -/
theorem cl_iterate_facts (W : World ℝ P MS TS G) (c : CCfg ℝ) (s s1 : CState ℝ P TS G) (o : CIterOut ℝ P)
    (h : Model.ClosedLoop.iterate W c s = some (s1, o)) :
    o.beta = (reweightStep W c s).beta ∧ o.ess = (reweightStep W c s).ess ∧ o.logzRw = (reweightStep W c s).logz ∧
    o.branch = (reweightStep W c s).branch ∧ o.weights = returnedWeights (reweightStep W c s).weightsTag ∧
    s1.beta = o.beta ∧ s1.ess = o.ess ∧ s1.iter = s.iter + 1 ∧
    (∃ b : CBatch ℝ P, s1.hist = s.hist ++ [b] ∧ b.beta = o.beta ∧ b.ess = o.ess ∧ b.logz = o.logz ∧ b.logl = s1.curL) ∧
    (∃ tr, trainStep W c s.ts s.g o.weights (poolOf s.hist) o.beta (s.iter + 1) = some tr ∧ s1.ts = tr.2.1 ∧
      (o.beta = 0 → (∃ d, warmupStep W c tr.2.2 = some d ∧ s1.curL = d.logl) ∧ o.trainIn = none ∧ o.idx = []) ∧
      (o.beta ≠ 0 →
        o.trainIn = trainInput c o.weights (poolOf s.hist) ∧
        ∃ rs, resampleStep W c s.hist o.weights tr.2.1 tr.2.2 = some rs ∧ o.idx = rs.idx)) := by
  unfold Model.ClosedLoop.iterate at h
  generalize reweightStep W c s = r at h ⊢
  cases htr : trainStep W c s.ts s.g (returnedWeights r.weightsTag) (poolOf s.hist) r.beta (s.iter + 1) with
  | none => simp [htr] at h
  | some tr =>
    simp only [htr, Option.bind_some] at h
    by_cases hb : eqv r.beta Sc.zero = true
    · simp only [hb, if_true] at h
      cases hd : warmupStep W c tr.2.2 with
      | none => simp [hd] at h
      | some d =>
        simp only [hd, Option.bind_some] at h
        by_cases he : d.logl.isEmpty = true
        · simp [he] at h
        · simp only [he, Bool.false_eq_true, if_false, Option.some.injEq, Prod.mk.injEq] at h
          obtain ⟨rfl, rfl⟩ := h
          refine ⟨rfl, rfl, rfl, rfl, rfl, rfl, rfl, rfl, ⟨_, rfl, rfl, rfl, rfl, rfl⟩, tr, htr, rfl, ?_, ?_⟩
          · intro _; exact ⟨⟨d, hd, rfl⟩, rfl, rfl⟩
          · intro hf; rw [ScReal.zero_def, eqv_real] at hb; exact absurd hb hf
    · simp only [hb, Bool.false_eq_true, if_false] at h
      cases hrs : resampleStep W c s.hist (returnedWeights r.weightsTag) tr.2.1 tr.2.2 with
      | none => simp [hrs] at h
      | some rs =>
        simp only [hrs, Option.bind_some] at h
        by_cases he : rs.logl.isEmpty = true
        · simp [he] at h
        · simp only [he, Bool.false_eq_true, if_false, Option.map_eq_some_iff, Prod.mk.injEq] at h
          obtain ⟨m, hm, rfl, rfl⟩ := h
          refine ⟨rfl, rfl, rfl, rfl, rfl, rfl, rfl, rfl, ⟨_, rfl, rfl, rfl, rfl, rfl⟩, tr, htr, rfl, ?_, ?_⟩
          · intro ht; rw [ScReal.zero_def, eqv_real] at hb; exact absurd ht hb
          · intro _; exact ⟨rfl, rs, hrs, rfl⟩

theorem hist_isEmpty_false {s : CState ℝ P TS G} (h : s.hist ≠ []) : s.hist.isEmpty = false := by
  cases hs : s.hist with
  | nil => exact absurd hs h
  | cons _ _ => rfl

/-- **One iteration, either metric mode** (state `s` with a non-empty history and β ≤ 1):
    the recorded β lies between the previous β and the ESS-limited temperature `β_upper` (`_find_beta_upper_limit` on the pool's
    own ESS), which is at most 1; if β advanced, the pool's effective sample size AT `β_upper` — the C20 ESS of the C04 weights
    of the stored history — is at least `ess_ratio · n_particles`; in ESS mode it is at least the target at the new β itself
    (and that is the ESS recorded for the iteration). -/
theorem C05_cl_iteration (W : World ℝ P MS TS G) (c : CCfg ℝ) (s s1 : CState ℝ P TS G) (o : CIterOut ℝ P)
    (h : Model.ClosedLoop.iterate W c s = some (s1, o)) (hne : s.hist ≠ []) (hb : s.beta ≤ 1) :
    s.beta ≤ o.beta ∧
    o.beta ≤ (upperLimit (clM W c s) c.rw.target c.rw.tolB c.rw.fuel s.beta).beta ∧
    (upperLimit (clM W c s) c.rw.target c.rw.tolB c.rw.fuel s.beta).beta ≤ 1 ∧
    (o.beta ≠ s.beta → c.rw.target ≤
      ess (oracleM (batchesOf s.hist) (upperLimit (clM W c s) c.rw.target c.rw.tolB c.rw.fuel s.beta).beta).1) ∧
    (c.rw.vv = none → o.beta ≠ s.beta →
      c.rw.target ≤ ess (oracleM (batchesOf s.hist) o.beta).1 ∧ c.rw.target ≤ o.ess) := by
  obtain ⟨ob, oe, _⟩ := cl_iterate_facts W c s s1 o h
  rw [reweightStep_eq, hist_isEmpty_false hne] at ob oe
  have hst := C05_same_temperature c.rw (clM W c s) (oracleZ (batchesOf s.hist)) isFin s.beta
  have hupess : ∀ β', s.beta ≤ β' → β' ≤ (upperLimit (clM W c s) c.rw.target c.rw.tolB c.rw.fuel s.beta).beta →
      β' ≠ s.beta → c.rw.target ≤
        ess (oracleM (batchesOf s.hist) (upperLimit (clM W c s) c.rw.target c.rw.tolB c.rw.fuel s.beta).beta).1 := by
    intro β' h1 h2 hadv
    rw [← clM_ess W c s]
    apply C05_upper_ess (clM W c s) c.rw.target c.rw.tolB c.rw.fuel s.beta hb
    intro he
    rw [he] at h2
    exact hadv (le_antisymm h2 h1)
  cases hv : c.rw.vv with
  | none =>
    have hr : run c.rw false (clM W c s) (oracleZ (batchesOf s.hist)) isFin s.beta
        = runEss (clM W c s) (oracleZ (batchesOf s.hist)) isFin c.rw.target c.rw.tolE c.rw.tolB c.rw.fuel s.beta := by
      simp [run, hv]
    obtain ⟨a1, a2, a3, a4⟩ := C05_ess_mode (clM W c s) (oracleZ (batchesOf s.hist)) isFin c.rw.target c.rw.tolE
      c.rw.tolB c.rw.fuel s.beta hb
    rw [← hr, ← ob] at a1 a2 a4
    refine ⟨a1, a2, a3, hupess o.beta a1 a2, fun _ hadv => ?_⟩
    have := a4 hadv
    rw [clM_ess] at this
    refine ⟨this, ?_⟩
    rw [oe, hst.2.1, ← ob, clM_ess]; exact this
  | some v =>
    have hr : run c.rw false (clM W c s) (oracleZ (batchesOf s.hist)) isFin s.beta
        = runDyn (clM W c s) (oracleZ (batchesOf s.hist)) isFin c.rw.target v c.rw.tolE c.rw.tolB c.rw.fuel s.beta := by
      simp [run, hv]
    obtain ⟨a1, a2, a3⟩ := C05_dyn_mode (clM W c s) (oracleZ (batchesOf s.hist)) isFin c.rw.target v c.rw.tolE
      c.rw.tolB c.rw.fuel s.beta hb
    rw [← hr, ← ob] at a1 a2
    exact ⟨a1, a2, a3, hupess o.beta a1 a2, fun hn => by simp at hn⟩

/-- **The ESS-limited temperature of the pool is tight** (either mode; it depends on the state only): with the BETA_TOLERANCE that is in
    /repo now (translator G1) and the driver's fuel, `β_upper = 1`, or there is a temperature at most BETA_TOLERANCE above it at
    which the pool's ESS is BELOW the target; the search made at most 14 halvings and was not cut short by the model's fuel. -/
theorem C05_cl_limit_tight (W : World ℝ P MS TS G) (c : CCfg ℝ) (s : CState ℝ P TS G) (h0 : 0 ≤ s.beta) (hb : s.beta ≤ 1)
    (htol : c.rw.tolB = genBetaTol) (hfuel : c.rw.fuel = 64) :
    ((upperLimit (clM W c s) c.rw.target c.rw.tolB c.rw.fuel s.beta).beta = 1 ∨
      ∃ b, (upperLimit (clM W c s) c.rw.target c.rw.tolB c.rw.fuel s.beta).beta ≤ b ∧
        b ≤ (upperLimit (clM W c s) c.rw.target c.rw.tolB c.rw.fuel s.beta).beta + genBetaTol ∧ b ≤ 1 ∧
        ess (oracleM (batchesOf s.hist) b).1 < c.rw.target) ∧
    (upperLimit (clM W c s) c.rw.target c.rw.tolB c.rw.fuel s.beta).steps ≤ 14 ∧
    (upperLimit (clM W c s) c.rw.target c.rw.tolB c.rw.fuel s.beta).branch ≠ Branch.upFuel := by
  have ht : (1 : ℝ) / 10000 ≤ c.rw.tolB := by rw [htol]; exact C05_gen_tolerances.1
  obtain ⟨f1, f2, _⟩ := C05_upper_fuel (clM W c s) c.rw.target c.rw.tolB c.rw.fuel s.beta h0 hb ht (by omega)
  refine ⟨?_, f2, f1⟩
  rcases C05_upper_tight (clM W c s) c.rw.target c.rw.tolB c.rw.fuel s.beta hb (by linarith) f1 with e | ⟨b, b1, b2, b3, b4⟩
  · left; exact e
  · right; refine ⟨b, b1, by rw [← htol]; exact b2, b3, ?_⟩
    rw [← clM_ess W c s]; exact b4

/-- **Same temperature** (either mode, non-empty history): the weights handed on by `Reweighter.run` are the pool's normalised
    weights at the recorded β, the recorded ESS is the C20 ESS of the pool's weights at that β, the evidence written by the
    reweighting step is the pool's estimate at that β; the state carries that β into the trainer / resampler / mutation and the
    committed batch is labelled with it. -/
theorem C05_cl_same_temperature (W : World ℝ P MS TS G) (c : CCfg ℝ) (s s1 : CState ℝ P TS G) (o : CIterOut ℝ P)
    (h : Model.ClosedLoop.iterate W c s = some (s1, o)) (hne : s.hist ≠ []) :
    o.weights = normalise (oracleM (batchesOf s.hist) o.beta).1 ∧
    o.ess = ess (oracleM (batchesOf s.hist) o.beta).1 ∧
    o.logzRw = oracleZ (batchesOf s.hist) o.beta ∧
    s1.beta = o.beta ∧ s1.ess = o.ess ∧
    ∃ b : CBatch ℝ P, s1.hist = s.hist ++ [b] ∧ b.beta = o.beta ∧ b.ess = o.ess := by
  obtain ⟨ob, oe, oz, _, ow, sb, se, _, ⟨b, hb1, hb2, hb3, _⟩, _⟩ := cl_iterate_facts W c s s1 o h
  rw [reweightStep_eq, hist_isEmpty_false hne] at ob oe oz ow
  obtain ⟨t1, t2, t3, _⟩ := C05_same_temperature c.rw (clM W c s) (oracleZ (batchesOf s.hist)) isFin s.beta
  rw [← ob] at t1 t2 t3
  refine ⟨?_, ?_, ?_, sb, se, b, hb1, hb2, hb3⟩
  · rw [ow, t1, clM_w]; rfl
  · rw [oe, t2, clM_ess]
  · rw [oz, t3]

/-- the first iteration of a fresh run (empty history): β = 0, evidence 0, ESS = target, uniform weights, training skipped -/
theorem C05_cl_first (W : World ℝ P MS TS G) (c : CCfg ℝ) (s s1 : CState ℝ P TS G) (o : CIterOut ℝ P)
    (h : Model.ClosedLoop.iterate W c s = some (s1, o)) (he : s.hist = []) :
    o.beta = 0 ∧ o.logzRw = 0 ∧ o.ess = c.rw.essRatio * c.rw.nPart ∧
    o.weights = List.replicate c.rw.nPart (1 / (c.rw.nPart : ℝ)) ∧ o.trainIn = none ∧ s1.ts = s.ts ∧ s1.beta = 0 := by
  obtain ⟨ob, oe, oz, _, ow, sb, _, _, _, tr, htr, hts, hw, _⟩ := cl_iterate_facts W c s s1 o h
  have hemp : s.hist.isEmpty = true := by rw [he]; rfl
  rw [reweightStep_eq, hemp] at ob oe oz ow
  obtain ⟨f1, f2, f3, f4, _⟩ := C05_first_iteration c.rw (clM W c s) (oracleZ (batchesOf s.hist)) isFin s.beta
  rw [f1] at ob; rw [f3] at oe; rw [f2] at oz; rw [f4] at ow
  have htr' : tr = (W.dummy, s.ts, s.g) := by
    have : eqv o.beta (Sc.zero : ℝ) = true := by rw [ScReal.zero_def, eqv_real]; exact ob
    simp only [trainStep, this, if_true, Option.some.injEq] at htr
    exact htr.symm
  refine ⟨ob, oz, oe, ?_, (hw ob).2.1, by rw [hts, htr'], by rw [sb]; exact ob⟩
  rw [ow]; simp [returnedWeights]

/-! ### clause 7b: what `Trainer.run` and `Resampler.run` receive -/

/-- the closed-loop model's trainer input is the C20 call-site model of `Trainer.run` (`Model.TrimSites.trainerRun`) -/
theorem trainerRun_eq_trainInput (c : CCfg ℝ) (w : List ℝ) (pool : List P) :
    Model.TrimSites.trainerRun false pool w c.trimEss c.trimBins
      = (trainInput c w pool).map fun t => (some t, normalise w) := by
  unfold Model.TrimSites.trainerRun trainInput
  simp only [Bool.false_eq_true, if_false]
  cases Model.Trim.trim (List.range w.length) w c.trimEss c.trimBins with
  | none => rfl
  | some t =>
    simp only [Option.bind_some]
    cases gather? pool t.1 <;> rfl

/-- **`Trainer.run` receives the weights of the recorded temperature** (either mode, non-empty history).
    With `w` = the pool's normalised weights at the recorded β:
    * β = 0: training is skipped, the clusterer state is untouched;
    * β ≠ 0: `trim_weights(np.arange(len(w)), w, TRIM_ESS, TRIM_BINS)` is applied to exactly `w` (C20's call-site model
      `trainerRun`), the clusterer / Student-t fit receives the kept pool records `u` with the trimmed weights `wt`, is told
      `state["beta"] = ` the recorded β and the iteration number, and what it returns becomes the trainer state of the next
      iteration; the array the resampler is handed afterwards is `w/Σw`. -/
theorem C05_cl_trainer (W : World ℝ P MS TS G) (c : CCfg ℝ) (s s1 : CState ℝ P TS G) (o : CIterOut ℝ P)
    (h : Model.ClosedLoop.iterate W c s = some (s1, o)) (hne : s.hist ≠ []) :
    o.weights = normalise (oracleM (batchesOf s.hist) o.beta).1 ∧
    (o.beta = 0 → s1.ts = s.ts ∧ o.trainIn = none) ∧
    (o.beta ≠ 0 → ∃ u wt,
      Model.TrimSites.trainerRun false (poolOf s.hist) (normalise (oracleM (batchesOf s.hist) o.beta).1) c.trimEss c.trimBins
        = some (some (u, wt), normalise (normalise (oracleM (batchesOf s.hist) o.beta).1)) ∧
      o.trainIn = some (u, wt) ∧
      s1.ts = (W.train s.ts s.g u wt o.beta (s.iter + 1)).2.1) := by
  obtain ⟨hw, _⟩ := C05_cl_same_temperature W c s s1 o h hne
  obtain ⟨_, _, _, _, _, _, _, _, _, tr, htr, hts, hz, hnz⟩ := cl_iterate_facts W c s s1 o h
  rw [hw] at htr hnz
  refine ⟨hw, ?_, ?_⟩
  · intro hb0
    have : eqv o.beta (Sc.zero : ℝ) = true := by rw [ScReal.zero_def, eqv_real]; exact hb0
    simp only [trainStep, this, if_true, Option.some.injEq] at htr
    exact ⟨by rw [hts, ← htr], (hz hb0).2.1⟩
  · intro hb0
    have : eqv o.beta (Sc.zero : ℝ) = false := by
      cases he : eqv o.beta (Sc.zero : ℝ) with
      | false => rfl
      | true => rw [ScReal.zero_def, eqv_real] at he; exact absurd he hb0
    simp only [trainStep, this, Bool.false_eq_true, if_false, Option.map_eq_some_iff] at htr
    obtain ⟨t, ht, rfl⟩ := htr
    refine ⟨t.1, t.2, ?_, ?_, hts⟩
    · rw [trainerRun_eq_trainInput, ht]; rfl
    · rw [(hnz hb0).1, ht]

/-- the weights of the pool are a valid weight vector, so normalising them twice is normalising them once: the in-place
    division `weights /= weights.sum()` inside `trim_weights` does not change what the resampler sees (over ℝ) -/
theorem normalise_oracle_idem (hb : List (Batch ℝ)) (β : ℝ) :
    normalise (normalise (oracleM hb β).1) = normalise (oracleM hb β).1 := by
  unfold oracleM
  cases hl : (logw hb β true).1 with
  | nil => simp [normalise]
  | cons x xs =>
    simp only
    have hv := Props.C20.C20_expShift_valid x xs
    have h1 := (Props.C20.wn_facts (Model.TrimSites.expShift x xs) (fun y hy => (hv.1 y hy).1.le) (by linarith [hv.2.2.1])).1
    exact Props.C20.normalise_of_sum_one _ h1

/-- **`Resampler.run` receives the weights of the recorded temperature** (either mode, β ≠ 0): the resampled indices of the
    iteration are `Model.Resample` applied to the pool's normalised weights at the recorded β (and renormalising them, as
    `trim_weights` does in place before the resampler runs, changes nothing). -/
theorem C05_cl_resampler (W : World ℝ P MS TS G) (c : CCfg ℝ) (s s1 : CState ℝ P TS G) (o : CIterOut ℝ P)
    (h : Model.ClosedLoop.iterate W c s = some (s1, o)) (hne : s.hist ≠ []) (hb0 : o.beta ≠ 0) :
    ∃ tr rs, trainStep W c s.ts s.g (normalise (oracleM (batchesOf s.hist) o.beta).1) (poolOf s.hist) o.beta (s.iter + 1) = some tr ∧
      resampleStep W c s.hist (normalise (normalise (oracleM (batchesOf s.hist) o.beta).1)) tr.2.1 tr.2.2 = some rs ∧
      o.idx = rs.idx := by
  obtain ⟨hw, _⟩ := C05_cl_same_temperature W c s s1 o h hne
  obtain ⟨_, _, _, _, _, _, _, _, _, tr, htr, _, _, hnz⟩ := cl_iterate_facts W c s s1 o h
  obtain ⟨_, rs, hrs, hidx⟩ := hnz hb0
  rw [hw] at htr hrs
  exact ⟨tr, rs, htr, by rw [normalise_oracle_idem]; exact hrs, hidx⟩

/-! ### the whole run: `while _not_termination(): execute_iteration()` -/

/-- The run is a chain of iterations: the `k`-th iteration record was produced by `iterate` from the `k`-th loop-top state (the
    state a `save_every` checkpoint captures) and produced the `k+1`-st; the first loop-top state is the start state and the
    last one is the final state; the guard held before every executed iteration. -/
theorem runLoop_trace (W : World ℝ P MS TS G) (c : CCfg ℝ) :
    ∀ (fuel : Nat) (s sf : CState ℝ P TS G) (tr : List (CState ℝ P TS G)) (os : List (CIterOut ℝ P)),
      runLoop W c fuel s = some (sf, tr, os) →
      tr.length = os.length + 1 ∧ tr[0]? = some s ∧ tr[os.length]? = some sf ∧
      ∀ k o, os[k]? = some o → ∃ a a', tr[k]? = some a ∧ tr[k+1]? = some a' ∧
        Model.ClosedLoop.iterate W c a = some (a', o) ∧ contGuard c a = true := by
  intro fuel
  induction fuel with
  | zero =>
    intro s sf tr os h
    simp only [runLoop] at h
    split at h
    · simp at h
    · simp only [Option.some.injEq, Prod.mk.injEq] at h
      obtain ⟨rfl, rfl, rfl⟩ := h
      simp
  | succ n ih =>
    intro s sf tr os h
    simp only [runLoop] at h
    split at h
    · rename_i hg
      simp only [Option.bind_eq_some_iff, Option.map_eq_some_iff] at h
      obtain ⟨⟨s1, o1⟩, hi, ⟨sf', tr', os'⟩, hr, he⟩ := h
      simp only [Prod.mk.injEq] at he
      obtain ⟨rfl, rfl, rfl⟩ := he
      obtain ⟨i1, i2, i3, i4⟩ := ih s1 sf' tr' os' hr
      refine ⟨by simp [i1], by simp, by simpa using i3, ?_⟩
      intro k o ho
      cases k with
      | zero =>
        simp only [List.getElem?_cons_zero, Option.some.injEq] at ho
        subst ho
        exact ⟨s, s1, by simp, by simpa using i2, hi, hg⟩
      | succ k =>
        simp only [List.getElem?_cons_succ] at ho
        obtain ⟨a, a', h1, h2, h3, h4⟩ := i4 k o ho
        exact ⟨a, a', by simpa using h1, by simpa using h2, h3, h4⟩
    · simp only [Option.some.injEq, Prod.mk.injEq] at h
      obtain ⟨rfl, rfl, rfl⟩ := h
      simp

/-- a state a run can start from: β ∈ [0, 1], and β = 0 if nothing has been committed yet -/
def Start (s : CState ℝ P TS G) : Prop := 0 ≤ s.beta ∧ s.beta ≤ 1 ∧ (s.hist = [] → s.beta = 0)

/-- one iteration from a start state: β moves inside [β_prev, 1] and the result is again a start state with a non-empty history -/
theorem C05_cl_step (W : World ℝ P MS TS G) (c : CCfg ℝ) (s s1 : CState ℝ P TS G) (o : CIterOut ℝ P)
    (h : Model.ClosedLoop.iterate W c s = some (s1, o)) (hs : Start s) :
    s.beta ≤ o.beta ∧ o.beta ≤ 1 ∧ s1.beta = o.beta ∧ s1.hist ≠ [] ∧ Start s1 ∧ (s.hist = [] → o.beta = 0) := by
  obtain ⟨h0, h1, h2⟩ := hs
  obtain ⟨_, _, _, _, _, sb, _, _, ⟨b, hb, _⟩, _⟩ := cl_iterate_facts W c s s1 o h
  have hne1 : s1.hist ≠ [] := by rw [hb]; simp
  by_cases he : s.hist = []
  · have ho := (C05_cl_first W c s s1 o h he).1
    rw [h2 he, ho]
    exact ⟨le_refl _, by norm_num, sb.trans ho, hne1, ⟨by rw [sb, ho], by rw [sb, ho]; norm_num, fun e => absurd e hne1⟩,
      fun _ => rfl⟩
  · obtain ⟨a1, a2, a3, _⟩ := C05_cl_iteration W c s s1 o h he h1
    have : o.beta ≤ 1 := le_trans a2 a3
    exact ⟨a1, this, sb, hne1, ⟨by rw [sb]; linarith, by rw [sb]; exact this, fun e => absurd e hne1⟩, fun e => absurd e he⟩

/-- every loop-top state of a run from a start state is a start state whose β is at least the initial one, and all but the
    first have a non-empty history -/
theorem runLoop_states (W : World ℝ P MS TS G) (c : CCfg ℝ) (fuel : Nat) (s sf : CState ℝ P TS G)
    (tr : List (CState ℝ P TS G)) (os : List (CIterOut ℝ P)) (h : runLoop W c fuel s = some (sf, tr, os)) (hs : Start s) :
    ∀ k a, tr[k]? = some a → Start a ∧ s.beta ≤ a.beta ∧ (0 < k → a.hist ≠ []) := by
  obtain ⟨t1, t2, _, t4⟩ := runLoop_trace W c fuel s sf tr os h
  intro k
  induction k with
  | zero =>
    intro a ha
    rw [t2] at ha
    simp only [Option.some.injEq] at ha
    subst ha
    exact ⟨hs, le_refl _, fun h => absurd h (by omega)⟩
  | succ k ih =>
    intro a' ha'
    have hk : k < os.length := by
      have := (List.getElem?_eq_some_iff.mp ha').1
      omega
    obtain ⟨o, ho⟩ : ∃ o, os[k]? = some o := ⟨os[k], List.getElem?_eq_getElem hk⟩
    obtain ⟨a, a'', h1, h2, h3, _⟩ := t4 k o ho
    rw [ha'] at h2
    simp only [Option.some.injEq] at h2
    subst h2
    obtain ⟨i1, i2, _⟩ := ih a h1
    obtain ⟨s1, s2, s3, s4, s5, _⟩ := C05_cl_step W c a a' o h3 i1
    exact ⟨s5, by rw [s3]; linarith, fun _ => s4⟩

/-- **The schedule of a whole run of the closed-loop model, continued from ANY start state** — a fresh sampler, a state
    restored from a checkpoint, a finished run that is extended — in EITHER metric mode, for every world (every likelihood,
    every realisation of the randomness, every trainer):
    every recorded β lies in `[β_start, 1]`; the sequence never decreases (also across the loop-top states, i.e. across what the
    `save_every` checkpoints hold); each iteration's β is handed on unchanged to the next. -/
theorem C05_cl_schedule_from (W : World ℝ P MS TS G) (c : CCfg ℝ) (fuel : Nat) (s sf : CState ℝ P TS G)
    (tr : List (CState ℝ P TS G)) (os : List (CIterOut ℝ P)) (h : runLoop W c fuel s = some (sf, tr, os)) (hs : Start s) :
    (∀ o ∈ os, s.beta ≤ o.beta ∧ o.beta ≤ 1) ∧
    (∀ k a b, os[k]? = some a → os[k+1]? = some b → a.beta ≤ b.beta) ∧
    (∀ k o a', os[k]? = some o → tr[k+1]? = some a' → a'.beta = o.beta) ∧
    (∀ k a a', tr[k]? = some a → tr[k+1]? = some a' → a.beta ≤ a'.beta) ∧
    (s.hist = [] → ∀ o, os[0]? = some o → o.beta = 0) ∧
    s.beta ≤ sf.beta ∧ sf.beta ≤ 1 := by
  obtain ⟨t1, t2, t3, t4⟩ := runLoop_trace W c fuel s sf tr os h
  have hst := runLoop_states W c fuel s sf tr os h hs
  have key : ∀ k o, os[k]? = some o → ∃ a a', tr[k]? = some a ∧ tr[k+1]? = some a' ∧ Start a ∧ s.beta ≤ a.beta ∧
      a.beta ≤ o.beta ∧ o.beta ≤ 1 ∧ a'.beta = o.beta ∧ (a.hist = [] → o.beta = 0) := by
    intro k o ho
    obtain ⟨a, a', h1, h2, h3, _⟩ := t4 k o ho
    obtain ⟨i1, i2, _⟩ := hst k a h1
    obtain ⟨s1, s2, s3, _, _, s6⟩ := C05_cl_step W c a a' o h3 i1
    exact ⟨a, a', h1, h2, i1, i2, s1, s2, s3, s6⟩
  refine ⟨?_, ?_, ?_, ?_, ?_, ?_, ?_⟩
  · intro o ho
    obtain ⟨k, hk, rfl⟩ := List.getElem_of_mem ho
    obtain ⟨a, a', _, _, _, e1, e2, e3, _⟩ := key k _ (List.getElem?_eq_getElem hk)
    exact ⟨le_trans e1 e2, e3⟩
  · intro k a b ha hb
    obtain ⟨x, x', _, x2, _, _, _, _, x5, _⟩ := key k a ha
    obtain ⟨y, y', y1, _, _, _, y4, _⟩ := key (k+1) b hb
    rw [x2] at y1
    simp only [Option.some.injEq] at y1
    subst y1
    rw [← x5]; exact y4
  · intro k o a' ho ha'
    obtain ⟨x, x', _, x2, _, _, _, _, x5, _⟩ := key k o ho
    rw [ha'] at x2
    simp only [Option.some.injEq] at x2
    subst x2; exact x5
  · intro k a a' ha ha'
    have hk : k < os.length := by
      have := (List.getElem?_eq_some_iff.mp ha').1
      omega
    obtain ⟨x, x', x1, x2, _, _, x4, _, x5, _⟩ := key k _ (List.getElem?_eq_getElem hk)
    rw [ha] at x1; rw [ha'] at x2
    simp only [Option.some.injEq] at x1 x2
    subst x1; subst x2
    rw [x5]; exact x4
  · intro he o ho
    obtain ⟨x, x', x1, _, _, _, _, _, _, x6⟩ := key 0 o ho
    rw [t2] at x1
    simp only [Option.some.injEq] at x1
    subst x1; exact x6 he
  · exact (hst _ sf t3).2.1
  · exact (hst _ sf t3).1.2.1

/-- **The schedule of a fresh run** (`init`: empty history, β = 0): β₀ = 0, 0 ≤ β_k ≤ 1, β_k ≤ β_{k+1} — either metric mode. -/
theorem C05_cl_schedule (W : World ℝ P MS TS G) (c : CCfg ℝ) (fuel : Nat) (ts : TS) (g : G) (sf : CState ℝ P TS G)
    (tr : List (CState ℝ P TS G)) (os : List (CIterOut ℝ P))
    (h : runLoop W c fuel (Model.ClosedLoop.init ts g) = some (sf, tr, os)) :
    (∀ o, os[0]? = some o → o.beta = 0) ∧
    (∀ o ∈ os, 0 ≤ o.beta ∧ o.beta ≤ 1) ∧
    (∀ k a b, os[k]? = some a → os[k+1]? = some b → a.beta ≤ b.beta) := by
  have hs : Start (Model.ClosedLoop.init ts g : CState ℝ P TS G) := by
    refine ⟨?_, ?_, fun _ => ?_⟩ <;> simp [Model.ClosedLoop.init]
  obtain ⟨a1, a2, _, _, a5, _⟩ := C05_cl_schedule_from W c fuel _ sf tr os h hs
  refine ⟨a5 (by simp [Model.ClosedLoop.init]), fun o ho => ?_, a2⟩
  have := a1 o ho
  simp only [Model.ClosedLoop.init, ScReal.zero_def] at this
  exact this

/-- **Every iteration of a run refers to one temperature and respects the ESS limit** (either mode; fresh or continued run):
    iteration `k` ran on the loop-top state `a = tr[k]`; whenever `a` already holds history,
    * β_prev ≤ β ≤ β_upper(a) ≤ 1, where β_upper(a) is `_find_beta_upper_limit` on the pool ESS of `a`'s history;
    * if β advanced: the pool ESS at β_upper(a) is ≥ `ess_ratio·n_particles`, and in ESS mode so is the pool ESS at the new β
      (= the recorded ESS);
    * the weights handed to `Trainer.run` / `Resampler.run`, the recorded ESS and the evidence written by the reweighting step
      are the pool's at the recorded β. -/
theorem C05_cl_run_iterations (W : World ℝ P MS TS G) (c : CCfg ℝ) (fuel : Nat) (s sf : CState ℝ P TS G)
    (tr : List (CState ℝ P TS G)) (os : List (CIterOut ℝ P)) (h : runLoop W c fuel s = some (sf, tr, os)) (hs : Start s) :
    ∀ (k : Nat) (a : CState ℝ P TS G) (o : CIterOut ℝ P), tr[k]? = some a → os[k]? = some o → a.hist ≠ [] →
      a.beta ≤ o.beta ∧
      o.beta ≤ (upperLimit (clM W c a) c.rw.target c.rw.tolB c.rw.fuel a.beta).beta ∧
      (upperLimit (clM W c a) c.rw.target c.rw.tolB c.rw.fuel a.beta).beta ≤ 1 ∧
      (o.beta ≠ a.beta → c.rw.target ≤
        ess (oracleM (batchesOf a.hist) (upperLimit (clM W c a) c.rw.target c.rw.tolB c.rw.fuel a.beta).beta).1) ∧
      (c.rw.vv = none → o.beta ≠ a.beta → c.rw.target ≤ ess (oracleM (batchesOf a.hist) o.beta).1 ∧ c.rw.target ≤ o.ess) ∧
      o.weights = normalise (oracleM (batchesOf a.hist) o.beta).1 ∧
      o.ess = ess (oracleM (batchesOf a.hist) o.beta).1 ∧
      o.logzRw = oracleZ (batchesOf a.hist) o.beta := by
  obtain ⟨_, _, _, t4⟩ := runLoop_trace W c fuel s sf tr os h
  have hst := runLoop_states W c fuel s sf tr os h hs
  intro k a o ha ho hne
  obtain ⟨x, x', x1, _, x3, _⟩ := t4 k o ho
  rw [ha] at x1
  simp only [Option.some.injEq] at x1
  subst x1
  obtain ⟨i1, _, _⟩ := hst k a ha
  obtain ⟨a1, a2, a3, a4, a5⟩ := C05_cl_iteration W c a x' o x3 hne i1.2.1
  obtain ⟨b1, b2, b3, _⟩ := C05_cl_same_temperature W c a x' o x3 hne
  exact ⟨a1, a2, a3, a4, a5, b1, b2, b3⟩

/-! ### warm-up, both metric modes: β stays 0 while the pool is smaller than the ESS target -/

/-- state of a run that is still warming up: β = 0, `k` stored batches, all at β = 0 and all of size `n` -/
def WarmC (s : CState ℝ P TS G) (n k : Nat) : Prop :=
  s.beta = 0 ∧ s.hist.length = k ∧ ∀ b ∈ s.hist, b.beta = 0 ∧ b.logl.length = n

theorem drawLoop_length (W : World ℝ P MS TS G) (n : Nat) (hd : ∀ g, (W.priorDraw g n).1.length = n) :
    ∀ (fuel : Nat) (g : G) (k : Nat) (d : List P × List (Option ℝ) × Nat × G), drawLoop W n fuel g k = some d →
      d.2.1.length = n := by
  intro fuel
  induction fuel with
  | zero => intro g k d h; simp [drawLoop] at h
  | succ f ih =>
    intro g k d h
    simp only [drawLoop] at h
    split at h
    · split at h
      · simp at h
      · exact ih _ _ d h
    · simp only [Option.some.injEq] at h
      rw [← h]; simp only [List.length_map]; exact hd g

/-- the batch a warm-up iteration stores has `n_particles` entries (the kept batch of the redraw loop, −inf entries replaced) -/
theorem warmupStep_length (W : World ℝ P MS TS G) (c : CCfg ℝ) (hd : ∀ g, (W.priorDraw g c.rw.nPart).1.length = c.rw.nPart)
    (g : G) (d : Drawn ℝ P G) (h : warmupStep W c g = some d) : d.logl.length = c.rw.nPart := by
  unfold warmupStep at h
  simp only [Option.bind_eq_some_iff] at h
  obtain ⟨q, hq, h⟩ := h
  have hl := drawLoop_length W c.rw.nPart hd _ _ _ q hq
  split at h
  · split at h
    · simp only [Option.map_eq_some_iff] at h
      obtain ⟨l, hl', rfl⟩ := h
      simp only
      rw [Lemmas.PipelineShift.allSome_length hl', Lemmas.PipelineShift.scatterFrom_length, hl]
    · simp only [Option.map_eq_some_iff] at h
      obtain ⟨l, hl', rfl⟩ := h
      simp only
      rw [Lemmas.PipelineShift.allSome_length hl', hl]
  · simp only [Option.map_eq_some_iff] at h
    obtain ⟨l, hl', rfl⟩ := h
    simp only
    rw [Lemmas.PipelineShift.allSome_length hl', hl]

theorem nTotal_batchesOf_const (h : List (CBatch ℝ P)) (n : Nat) (hl : ∀ b ∈ h, b.logl.length = n) :
    nTotal (batchesOf h) = h.length * n := by
  rw [nTotal_const (batchesOf h) n]
  · simp [batchesOf]
  · intro b hb
    simp only [batchesOf, List.mem_map] at hb
    obtain ⟨cb, hcb, rfl⟩ := hb
    exact hl cb hcb

/-- the reweighting step of a warming-up state whose pool (`k·n` particles) is smaller than the ESS target stays at β = 0 —
    ESS mode (also at equality) and volume-variation mode (`_find_beta_upper_limit` returns β_prev: branch `dynStuck`) -/
theorem warm_reweight (W : World ℝ P MS TS G) (c : CCfg ℝ) (s : CState ℝ P TS G) (n k : Nat) (hn : 1 ≤ n)
    (hw : WarmC s n k) (hsz : ((k * n : Nat) : ℝ) < c.rw.target ∨ (c.rw.vv = none ∧ ((k * n : Nat) : ℝ) ≤ c.rw.target)) :
    (reweightStep W c s).beta = 0 := by
  obtain ⟨w1, w2, w3⟩ := hw
  rw [reweightStep_eq]
  by_cases he : s.hist = []
  · have : s.hist.isEmpty = true := by rw [he]; rfl
    rw [this]
    exact (C05_first_iteration c.rw _ _ _ s.beta).1
  · rw [hist_isEmpty_false he, w1]
    have hwf : Props.C04.WF (batchesOf s.hist) := by
      refine ⟨by simpa [batchesOf] using he, ?_⟩
      intro b hb
      simp only [batchesOf, List.mem_map] at hb
      obtain ⟨cb, hcb, rfl⟩ := hb
      show 1 ≤ cb.logl.length
      rw [(w3 cb hcb).2]; exact hn
    have h0 : ∀ b ∈ batchesOf s.hist, b.beta = 0 := by
      intro b hb
      simp only [batchesOf, List.mem_map] at hb
      obtain ⟨cb, hcb, rfl⟩ := hb
      exact (w3 cb hcb).1
    have hN : (nTotal (batchesOf s.hist) : ℝ) = ((k * n : Nat) : ℝ) := by
      rw [nTotal_batchesOf_const s.hist n (fun b hb => (w3 b hb).2), w2]
    have hess : (clM W c s 0).2.1 = ((k * n : Nat) : ℝ) := by
      rw [clM_ess]
      have := C05_warmup_ess (batchesOf s.hist) hwf h0
      rw [hN] at this
      exact this
    cases hv : c.rw.vv with
    | none =>
      have hr : run c.rw false (clM W c s) (oracleZ (batchesOf s.hist)) isFin 0
          = runEss (clM W c s) (oracleZ (batchesOf s.hist)) isFin c.rw.target c.rw.tolE c.rw.tolB c.rw.fuel 0 := by
        simp [run, hv]
      rw [hr]
      have hle : ((k * n : Nat) : ℝ) ≤ c.rw.target := by
        rcases hsz with h | ⟨_, h⟩
        · exact h.le
        · exact h
      rcases runEss_cases (clM W c s) (oracleZ (batchesOf s.hist)) isFin c.rw.target c.rw.tolE c.rw.tolB c.rw.fuel 0 with
        ⟨_, e⟩ | ⟨hlt, _, _⟩ | ⟨hlt, _, _⟩
      · rw [e]; rfl
      · rw [hess] at hlt; linarith
      · rw [hess] at hlt; linarith
    | some v =>
      have hr : run c.rw false (clM W c s) (oracleZ (batchesOf s.hist)) isFin 0
          = runDyn (clM W c s) (oracleZ (batchesOf s.hist)) isFin c.rw.target v c.rw.tolE c.rw.tolB c.rw.fuel 0 := by
        simp [run, hv]
      rw [hr]
      have hlt : ((k * n : Nat) : ℝ) < c.rw.target := by
        rcases hsz with h | ⟨h, _⟩
        · exact h
        · rw [hv] at h; simp at h
      have hup : (upperLimit (clM W c s) c.rw.target c.rw.tolB c.rw.fuel 0).beta = 0 := by
        rcases upperLimit_cases (clM W c s) c.rw.target c.rw.tolB c.rw.fuel 0 with ⟨_, e⟩ | ⟨h1, _, _⟩ | ⟨h1, _, _⟩
        · rw [e]
        · rw [hess] at h1; linarith
        · rw [hess] at h1; linarith
      rcases runDyn_cases (clM W c s) (oracleZ (batchesOf s.hist)) isFin c.rw.target v c.rw.tolE c.rw.tolB c.rw.fuel 0 with
        ⟨_, e⟩ | ⟨hne, _, _⟩ | ⟨hne, _, _, _⟩ | ⟨hne, _, _, _⟩
      · rw [e]; rfl
      · exact absurd hup hne
      · exact absurd hup hne
      · exact absurd hup hne

theorem warm_step_cl (W : World ℝ P MS TS G) (c : CCfg ℝ) (hd : ∀ g, (W.priorDraw g c.rw.nPart).1.length = c.rw.nPart)
    (hn : 1 ≤ c.rw.nPart) (k : Nat) (s s1 : CState ℝ P TS G) (o : CIterOut ℝ P) (hw : WarmC s c.rw.nPart k)
    (hsz : ((k * c.rw.nPart : Nat) : ℝ) < c.rw.target ∨ (c.rw.vv = none ∧ ((k * c.rw.nPart : Nat) : ℝ) ≤ c.rw.target))
    (h : Model.ClosedLoop.iterate W c s = some (s1, o)) :
    o.beta = 0 ∧ WarmC s1 c.rw.nPart (k + 1) := by
  have hr := warm_reweight W c s c.rw.nPart k hn hw hsz
  obtain ⟨ob, _, _, _, _, sb, _, _, ⟨b, hb1, hb2, _, _, hb5⟩, tr, _, _, hz, _⟩ := cl_iterate_facts W c s s1 o h
  have ho : o.beta = 0 := ob.trans hr
  obtain ⟨⟨d, hd1, hd2⟩, _⟩ := hz ho
  obtain ⟨_, w2, w3⟩ := hw
  refine ⟨ho, sb.trans ho, by rw [hb1]; simp [w2], ?_⟩
  intro x hx
  rw [hb1, List.mem_append] at hx
  rcases hx with hx | hx
  · exact w3 x hx
  · simp only [List.mem_singleton] at hx
    subst hx
    refine ⟨hb2.trans ho, ?_⟩
    rw [hb5, hd2, warmupStep_length W c hd _ d hd1]

/-- **Warm-up over a whole run of the closed-loop model, BOTH metric modes** (fresh run; every world whose prior draw returns
    `n_particles` records): iteration `k` (counting from 0) reports β = 0 whenever the pool it sees, `k·n_particles`
    particles, is SMALLER than the ESS target — in ESS mode also when it is equal.  The temperature cannot leave 0 before the
    pool has reached `ess_ratio · n_particles`. -/
theorem C05_cl_warmup (W : World ℝ P MS TS G) (c : CCfg ℝ) (hd : ∀ g, (W.priorDraw g c.rw.nPart).1.length = c.rw.nPart)
    (hn : 1 ≤ c.rw.nPart) (fuel : Nat) (ts : TS) (g : G) (sf : CState ℝ P TS G) (tr : List (CState ℝ P TS G))
    (os : List (CIterOut ℝ P)) (h : runLoop W c fuel (Model.ClosedLoop.init ts g) = some (sf, tr, os)) :
    ∀ k o, os[k]? = some o →
      (((k * c.rw.nPart : Nat) : ℝ) < c.rw.target ∨ (c.rw.vv = none ∧ ((k * c.rw.nPart : Nat) : ℝ) ≤ c.rw.target)) →
      o.beta = 0 := by
  obtain ⟨t1, t2, _, t4⟩ := runLoop_trace W c fuel _ sf tr os h
  have mono : ∀ j k : Nat, j ≤ k →
      (((k * c.rw.nPart : Nat) : ℝ) < c.rw.target ∨ (c.rw.vv = none ∧ ((k * c.rw.nPart : Nat) : ℝ) ≤ c.rw.target)) →
      (((j * c.rw.nPart : Nat) : ℝ) < c.rw.target ∨ (c.rw.vv = none ∧ ((j * c.rw.nPart : Nat) : ℝ) ≤ c.rw.target)) := by
    intro j k hjk hk
    have : ((j * c.rw.nPart : Nat) : ℝ) ≤ ((k * c.rw.nPart : Nat) : ℝ) := by
      exact_mod_cast Nat.mul_le_mul_right _ hjk
    rcases hk with hk | ⟨hv, hk⟩
    · left; linarith
    · right; exact ⟨hv, by linarith⟩
  have warm : ∀ k a, tr[k]? = some a →
      (k = 0 ∨ (((((k - 1) * c.rw.nPart : Nat)) : ℝ) < c.rw.target ∨
        (c.rw.vv = none ∧ ((((k - 1) * c.rw.nPart : Nat)) : ℝ) ≤ c.rw.target))) → WarmC a c.rw.nPart k := by
    intro k
    induction k with
    | zero =>
      intro a ha _
      rw [t2] at ha
      simp only [Option.some.injEq] at ha
      subst ha
      exact ⟨by simp [Model.ClosedLoop.init], by simp [Model.ClosedLoop.init], by simp [Model.ClosedLoop.init]⟩
    | succ k ih =>
      intro a' ha' hsz
      have hsz' : ((((k * c.rw.nPart : Nat)) : ℝ) < c.rw.target ∨
          (c.rw.vv = none ∧ (((k * c.rw.nPart : Nat)) : ℝ) ≤ c.rw.target)) := by
        rcases hsz with hk | hk
        · omega
        · simpa using hk
      have hk : k < os.length := by
        have := (List.getElem?_eq_some_iff.mp ha').1
        omega
      obtain ⟨a, a'', h1, h2, h3, _⟩ := t4 k _ (List.getElem?_eq_getElem hk)
      rw [ha'] at h2
      simp only [Option.some.injEq] at h2
      subst h2
      have hwa : WarmC a c.rw.nPart k := by
        apply ih a h1
        cases k with
        | zero => left; rfl
        | succ j => right; exact mono j (j + 1) (by omega) hsz'
      exact (warm_step_cl W c hd hn k a a' _ hwa hsz' h3).2
  intro k o ho hsz
  obtain ⟨a, a', h1, _, h3, _⟩ := t4 k o ho
  have hwa : WarmC a c.rw.nPart k := by
    apply warm k a h1
    cases k with
    | zero => left; rfl
    | succ j => right; exact mono j (j + 1) (by omega) hsz
  exact (warm_step_cl W c hd hn k a a' o hwa hsz h3).1

/-- with `n_particles` draws per iteration: β_k = 0 for every `k < ess_ratio` (either mode) and, in ESS mode, for `k = ess_ratio` too -/
theorem C05_cl_warmup_count (W : World ℝ P MS TS G) (c : CCfg ℝ) (hd : ∀ g, (W.priorDraw g c.rw.nPart).1.length = c.rw.nPart)
    (hn : 1 ≤ c.rw.nPart) (fuel : Nat) (ts : TS) (g : G) (sf : CState ℝ P TS G) (tr : List (CState ℝ P TS G))
    (os : List (CIterOut ℝ P)) (h : runLoop W c fuel (Model.ClosedLoop.init ts g) = some (sf, tr, os)) :
    ∀ (k : Nat) (o : CIterOut ℝ P), os[k]? = some o →
      ((k : ℝ) < c.rw.essRatio ∨ (c.rw.vv = none ∧ (k : ℝ) ≤ c.rw.essRatio)) → o.beta = 0 := by
  intro k o ho hk
  refine C05_cl_warmup W c hd hn fuel ts g sf tr os h k o ho ?_
  have hpos : (0 : ℝ) < (c.rw.nPart : ℝ) := by exact_mod_cast hn
  simp only [Cfg.target, ScReal.mul_def, ScReal.ofNat_def]
  push_cast
  rcases hk with hk | ⟨hv, hk⟩
  · left; exact mul_lt_mul_of_pos_right hk hpos
  · right; exact ⟨hv, mul_le_mul_of_nonneg_right hk hpos.le⟩



/-- a pool in which every particle has the same log-likelihood has uniform weights at EVERY temperature: the oracle answers
    `(1,…,1)` with ESS = pool size -/
theorem oracle_equal_logl (h : List (Batch ℝ)) (hwf : Props.C04.WF h) (l : ℝ) (hl : ∀ x ∈ flatLogl h, x = l) (β : ℝ) :
    oracleM h β = (List.replicate (nTotal h) 1, (nTotal h : ℝ), (nTotal h : ℝ)) := by
  have hN : 0 < nTotal h := Props.C04.nTotal_pos h hwf
  have hrep : (logw h β true).1 = List.replicate (nTotal h) (Props.C04.specNorm h β l) := by
    rw [Props.C04.C04_normalised h hwf, List.eq_replicate_iff]
    refine ⟨by rw [List.length_map, Props.C04.length_flatLogl], ?_⟩
    intro b hb
    simp only [List.mem_map] at hb
    obtain ⟨x, hx, rfl⟩ := hb
    rw [hl x hx]
  obtain ⟨k, hk⟩ : ∃ k, nTotal h = k + 1 := ⟨nTotal h - 1, by omega⟩
  unfold oracleM
  simp only [hrep, hk, List.replicate_succ]
  have hm : maxOf (Props.C04.specNorm h β l) (List.replicate k (Props.C04.specNorm h β l)) = Props.C04.specNorm h β l :=
    maxOf_replicate _ k
  simp only [hm, ScReal.sub_def, sub_self, ScReal.exp_def, Real.exp_zero, List.map_cons, List.map_replicate]
  have : (1 : ℝ) :: List.replicate k 1 = List.replicate (k + 1) 1 := by simp [List.replicate_succ]
  rw [this, Props.C20.C20_ess_uniform (k + 1) (by omega) 1 one_pos]

/-! ### when the loop stops -/

/-- `_not_termination` on a state with (well-formed) history: `1 − β ≥ tol  or  ESS₁ < n_total`, where ESS₁ ≥ 1 is the pool ESS
    at β = 1.  In particular the loop can only stop at a state whose β is within `tol` of 1. -/
theorem contGuard_spec (c : CCfg ℝ) (s : CState ℝ P TS G) (hs : Props.C10.WFC s) (hne : s.hist ≠ []) :
    1 ≤ ess (oracleM (batchesOf s.hist) 1).1 ∧
    (contGuard c s = true ↔ (c.tolTerm ≤ 1 - s.beta ∨ ess (oracleM (batchesOf s.hist) 1).1 < c.nTotal)) := by
  have hwf : Props.C04.WF (batchesOf s.hist) := by
    rcases Props.C10.WF_batchesOf s hs with h | h
    · simp [batchesOf] at h; exact absurd h hne
    · exact h
  have hlen : ((logw (batchesOf s.hist) 1 true).1).length = nTotal (batchesOf s.hist) := by
    rw [Props.C04.C04_normalised _ hwf, List.length_map, Props.C04.length_flatLogl]
  have hpos := Props.C04.nTotal_pos _ hwf
  unfold contGuard Model.Run.notTermination oracleM
  rw [ScReal.one_def]
  cases hl : (logw (batchesOf s.hist) 1 true).1 with
  | nil => rw [hl] at hlen; simp at hlen; omega
  | cons x xs =>
    refine ⟨(Props.C20.C20_callsite_ess_bounds x xs).1, ?_⟩
    simp only [Model.Run.notTerm, Bool.or_eq_true, ScReal.le_def, ScReal.lt_def, ScReal.sub_def, ScReal.one_def]

theorem stop_beta (c : CCfg ℝ) (s : CState ℝ P TS G) (hs : Props.C10.WFC s) (hne : s.hist ≠ [])
    (hg : contGuard c s = false) : 1 - s.beta < c.tolTerm := by
  obtain ⟨_, he⟩ := contGuard_spec c s hs hne
  by_contra hcon
  have : contGuard c s = true := he.mpr (Or.inl (not_lt.mp hcon))
  rw [hg] at this; exact absurd this (by simp)

/-! ### non-vacuity: the evaluated iterations of `Props/C10Closed.lean`, and a volume-variation twin -/
section Examples
open Props.C10 Lemmas.PipelineShift

-- the warm-up iteration of the example world (fresh state): `C05_cl_first` applies, β = 0, uniform weights [1/2, 1/2]
example := C05_cl_first wEx cfgCl (Model.ClosedLoop.init () 0) _ _ itCl1 rfl

-- ESS mode, annealing iteration `itCl2` (pool of two records with equal likelihood, target 1): β advances 0 → 1 …
theorem sCl2_hist_ne : sCl2.hist ≠ [] := by simp [sCl2]
example : (1 : ℝ) ≠ sCl2.beta → cfgCl2.rw.target ≤ ess (oracleM (batchesOf sCl2.hist) 1).1 ∧ cfgCl2.rw.target ≤ (2 : ℝ) :=
  (C05_cl_iteration wEx2 cfgCl2 sCl2 _ _ itCl2 sCl2_hist_ne (by simp [sCl2])).2.2.2.2 rfl
-- … the hypothesis `o.beta ≠ s.beta` is met (1 ≠ 0) …
example : (1 : ℝ) ≠ sCl2.beta := by simp [sCl2]
-- … the trainer received the pool weights at β = 1, trimmed, together with β = 1 and iteration number 2
example := (C05_cl_trainer wEx2 cfgCl2 sCl2 _ _ itCl2 sCl2_hist_ne).2.2 (by norm_num)
example := C05_cl_resampler wEx2 cfgCl2 sCl2 _ _ itCl2 sCl2_hist_ne (by norm_num)

/-- the same configuration in volume-variation mode with target metric 1 (the example world's metric is constantly 0) -/
noncomputable def cfgClV : CCfg ℝ :=
  ⟨⟨1 / 2, 2, some 1, 1 / 100, 1 / 10000, 64⟩, true, true, 1, 1, 1, 238 / 100, 99 / 100, 1, 1 / 10000, 0, 8⟩

theorem rwClV : reweightStep wEx2 cfgClV sCl2
    = ⟨1, .of [1, 1], 2, oracleZ (Model.Pipeline.batches Ex.s1.hist) 1, Branch.dynUpper, [Branch.upOne], [0, 1, 0, 1, 1], [1]⟩ := by
  have hb : batchesOf sCl2.hist = Model.Pipeline.batches Ex.s1.hist := by
    simp [batchesOf, Model.Pipeline.batches, sCl2, Ex.s1, toBatch]
  have hM : oracleMV wEx2 cfgClV.rw.vv (poolOf sCl2.hist) (Model.Pipeline.batches Ex.s1.hist) = fun _ => ([1, 1], 2, 0) := by
    funext β; simp [oracleMV, cfgClV, Ex.oM, wEx2, wEx]
  unfold reweightStep
  simp only [hb]
  rw [hM]
  simp [Model.Reweight.run, cfgClV, runDyn, upperLimit, finalize, Cfg.target, sCl2, Model.Pipeline.batches, Ex.s1, eqv]

/-- a volume-variation iteration of the closed-loop model, evaluated: the ESS limit is 1 (pool ESS 2 ≥ target 1 everywhere),
    the metric at the limit (0) does not exceed the target (1), so β = β_upper = 1 (branch `dynUpper`); the rest of the
    iteration is that of `itCl2` -/
theorem itClV : Model.ClosedLoop.iterate wEx2 cfgClV sCl2
    = some (sCl3, ⟨1, 2, Ex.z1, Ex.z1, Branch.dynUpper, [1/2, 1/2], some ([0, 1], [1/2, 1/2]), [0, 1], [[true, false]],
        [99 / 100]⟩) := by
  have hr : List.range 2 = [0, 1] := by decide
  have h10 : eqv (1 : ℝ) Sc.zero = false := by simp [eqv]
  have hpool : poolOf sCl2.hist = [0, 1] := by simp [poolOf, sCl2]
  have hti : trainInput cfgClV ([1/2, 1/2] : List ℝ) [0, 1] = some ([0, 1], [1/2, 1/2]) := by
    have t' := trimEx
    simp only [one_div] at t'
    simp [trainInput, cfgClV, hr, t', gather?]
  have hmi : wEx2.modeIndex () [0, 0] [0, 1] = ([0, 0], [0, 0]) := rfl
  have hK : wEx2.nModes () = 1 := rfl
  have trV : trainStep wEx2 cfgClV () 2 ([1/2, 1/2] : List ℝ) [0, 1] 1 2 = some ((), (), 3) := trCl2
  have rsV : resampleStep wEx2 cfgClV sCl2.hist ([1/2, 1/2] : List ℝ) () 3 = some ⟨[0, 1], [0, 1], [0, 0], [0, 0], 4⟩ := rsCl2
  have mcV : mcLoop wEx2 cfgClV () 1 [0, 0] 8 ⟨0, [0, 1], [0, 0], initSigmas true (238 / 100) 1, 4, [], []⟩
      = some ⟨1, [20, 1], [1, 0], [99 / 100], 6, [1, 0], [[true, false]]⟩ := mcCl2
  unfold Model.ClosedLoop.iterate
  rw [rwClV]
  simp only [rwEx, hpool, h10, Bool.false_eq_true, if_false]
  have e1 : sCl2.ts = () := rfl
  have e2 : sCl2.g = 2 := rfl
  have e3 : sCl2.iter + 1 = 2 := rfl
  rw [e1, e2, e3, trV]
  simp only [Option.bind_some, rsV, List.isEmpty_cons, Bool.false_eq_true, if_false, hmi, hK]
  have e4 : cfgClV.tpcn = true := rfl
  have e5 : cfgClV.sigma0 = 238 / 100 := rfl
  have e6 : cfgClV.mcFuel = 8 := rfl
  rw [e4, e5, e6, mcV]
  simp only [Option.map_some, hti]
  congr 1
  simp [commit, sCl3, sCl2, Ex.z1, Model.Kernel.mean, Props.C20.sum_def]

-- volume-variation mode: β advanced (1 ≠ 0), so the pool ESS at the ESS-limited temperature is ≥ the target …
example : cfgClV.rw.target ≤
    ess (oracleM (batchesOf sCl2.hist) (upperLimit (clM wEx2 cfgClV sCl2) cfgClV.rw.target cfgClV.rw.tolB cfgClV.rw.fuel sCl2.beta).beta).1 :=
  (C05_cl_iteration wEx2 cfgClV sCl2 _ _ itClV sCl2_hist_ne (by simp [sCl2])).2.2.2.1 (by simp [sCl2])
-- … and trainer and resampler received the pool weights at the recorded β = 1
example := (C05_cl_trainer wEx2 cfgClV sCl2 _ _ itClV sCl2_hist_ne).2.2 (by norm_num)
example := C05_cl_same_temperature wEx2 cfgClV sCl2 _ _ itClV sCl2_hist_ne

theorem guard_sCl3 : contGuard cfgCl2 sCl3 = false := by
  obtain ⟨h1, he⟩ := contGuard_spec cfgCl2 sCl3 wfc_sCl3 (by simp [sCl3])
  cases hc : contGuard cfgCl2 sCl3 with
  | false => rfl
  | true =>
    rcases he.mp hc with h | h
    · simp [cfgCl2, sCl3] at h; norm_num at h
    · simp [cfgCl2] at h; linarith

/-- a CONTINUED run, evaluated: started from the one-batch state `sCl2` (what a checkpoint taken after the warm-up iteration
    restores), the loop executes the annealing iteration `itCl2` and stops at β = 1 -/
theorem runCl2 : runLoop wEx2 cfgCl2 1 sCl2 = some (sCl3, [sCl2, sCl3],
    [⟨1, 2, Ex.z1, Ex.z1, Branch.essUpper, [1/2, 1/2], some ([0, 1], [1/2, 1/2]), [0, 1], [[true, false]], [99 / 100]⟩]) := by
  have hw2 : Props.C10.WFC sCl2 := by intro b hb; simp [sCl2] at hb; subst hb; simp
  have g2 : contGuard cfgCl2 sCl2 = true := by
    obtain ⟨_, he⟩ := contGuard_spec cfgCl2 sCl2 hw2 sCl2_hist_ne
    exact he.mpr (Or.inl (by simp [cfgCl2, sCl2]; norm_num))
  simp [runLoop, g2, guard_sCl3, itCl2]

theorem start_sCl2 : Start sCl2 := ⟨by simp [sCl2], by simp [sCl2], fun h => absurd h sCl2_hist_ne⟩
example := C05_cl_schedule_from wEx2 cfgCl2 1 sCl2 _ _ _ runCl2 start_sCl2
example := C05_cl_run_iterations wEx2 cfgCl2 1 sCl2 _ _ _ runCl2 start_sCl2 0 sCl2 _ rfl rfl sCl2_hist_ne
example : 1 - sCl3.beta < cfgCl2.tolTerm := stop_beta cfgCl2 sCl3 wfc_sCl3 (by simp [sCl3]) guard_sCl3

/-! a fresh VOLUME-VARIATION run with two warm-up iterations (ess_ratio 2, n_particles 2: target 4; stop rule: ESS₁ ≥ 3) -/
noncomputable def cfgW : CCfg ℝ :=
  ⟨⟨2, 2, some 1, 1 / 100, 1 / 10000, 64⟩, true, true, 1, 1, 1, 238 / 100, 99 / 100, 1, 2, 3, 8⟩
noncomputable def sW1 : CState ℝ Nat Unit Nat :=
  ⟨[⟨0, 0, 4, [0, 1], [0, 0], 1, 2, 1, 1, 1⟩], 0, 0, 4, 1, 2, [0, 1], [0, 0], [0, 0], 1, 1, 1, (), 1⟩
noncomputable def zW : ℝ := oracleZ (batchesOf sW1.hist) 0
noncomputable def sW2 : CState ℝ Nat Unit Nat :=
  ⟨sW1.hist ++ [⟨0, zW, 2, [10, 11], [0, 0], 2, 4, 1, 1, 1⟩], 0, zW, 2, 2, 4, [10, 11], [0, 0], [0, 0], 1, 1, 1, (), 2⟩

theorem wfc_sW1 : Props.C10.WFC sW1 := by intro b hb; simp [sW1] at hb; subst hb; simp
theorem wfc_sW2 : Props.C10.WFC sW2 := by
  intro b hb
  simp only [sW2, sW1, List.cons_append, List.nil_append, List.mem_cons, List.not_mem_nil, or_false] at hb
  rcases hb with rfl | rfl <;> simp

theorem oW1 (β : ℝ) : oracleM (batchesOf sW1.hist) β = ([1, 1], 2, 2) := by
  have hwf : Props.C04.WF (batchesOf sW1.hist) := by
    refine ⟨by simp [batchesOf, sW1], ?_⟩
    intro b hb; simp [batchesOf, sW1, toBatch] at hb; subst hb; simp
  have := oracle_equal_logl (batchesOf sW1.hist) hwf 0 (by simp [batchesOf, sW1, toBatch, flatLogl]) β
  simpa [nTotal, batchesOf, sW1, toBatch, List.replicate] using this
theorem oW2 (β : ℝ) : oracleM (batchesOf sW2.hist) β = ([1, 1, 1, 1], 4, 4) := by
  have hwf : Props.C04.WF (batchesOf sW2.hist) := by
    refine ⟨by simp [batchesOf, sW2], ?_⟩
    intro b hb; simp [batchesOf, sW2, sW1, toBatch] at hb; rcases hb with rfl | rfl <;> simp
  have := oracle_equal_logl (batchesOf sW2.hist) hwf 0 (by simp [batchesOf, sW2, sW1, toBatch, flatLogl]) β
  simpa [nTotal, batchesOf, sW2, sW1, toBatch, List.replicate] using this

theorem itW0 : Model.ClosedLoop.iterate wEx2 cfgW (Model.ClosedLoop.init () 0)
    = some (sW1, ⟨0, 4, 0, 0, Branch.firstIter, [1 / 2, 1 / 2], none, [], [], []⟩) := by
  have hr : List.range 2 = [0, 1] := by decide
  have hd : drawLoop wEx2 2 drawCap 0 0 = some ([0, 1], [some 0, some 0], 2, 1) := by
    show drawLoop wEx2 2 (999 + 1) 0 0 = _
    simp [drawLoop, wEx2, wEx, Model.Pipeline.countSome, hr]
  have hn : cfgW.rw.nPart = 2 := rfl
  have hw : warmupStep wEx2 cfgW 0 = some ⟨[0, 1], [0, 0], none, 2, 1⟩ := by
    simp only [warmupStep, hn, hd, Option.bind_some]
    simp [Model.Pipeline.countSome, Model.Pipeline.allSome]
  have hrw : reweightStep wEx2 cfgW (Model.ClosedLoop.init () 0)
      = ⟨0, .uniform 2, 4, 0, Branch.firstIter, [], [], []⟩ := by
    simp [reweightStep, Model.ClosedLoop.init, batchesOf, Model.Reweight.run, cfgW, Cfg.target]; norm_num
  unfold Model.ClosedLoop.iterate
  rw [hrw]
  have h00 : eqv (0 : ℝ) Sc.zero = true := by simp [eqv]
  simp only [trainStep, h00, if_true, Option.bind_some, Model.ClosedLoop.init, hw]
  simp [commit, sW1, returnedWeights, hn]

theorem rwW1 : reweightStep wEx2 cfgW sW1 = ⟨0, .of [1, 1], 2, zW, Branch.dynStuck, [Branch.upStay], [0, 0], [0]⟩ := by
  have hM : oracleMV wEx2 cfgW.rw.vv (poolOf sW1.hist) (batchesOf sW1.hist) = fun _ => ([1, 1], 2, 0) := by
    funext β; simp [oracleMV, cfgW, oW1, wEx2, wEx]
  have he : (batchesOf sW1.hist).isEmpty = false := by simp [batchesOf, sW1]
  unfold reweightStep
  simp only [hM, he]
  simp [Model.Reweight.run, cfgW, runDyn, upperLimit, finalize, Cfg.target, sW1, eqv, zW]

theorem itW1 : Model.ClosedLoop.iterate wEx2 cfgW sW1
    = some (sW2, ⟨0, 2, zW, zW, Branch.dynStuck, [1 / 2, 1 / 2], none, [], [], []⟩) := by
  have hr : List.range 2 = [0, 1] := by decide
  have hd : drawLoop wEx2 2 drawCap 1 0 = some ([10, 11], [some 0, some 0], 2, 2) := by
    show drawLoop wEx2 2 (999 + 1) 1 0 = _
    simp [drawLoop, wEx2, wEx, Model.Pipeline.countSome, hr]
  have hn : cfgW.rw.nPart = 2 := rfl
  have hw : warmupStep wEx2 cfgW 1 = some ⟨[10, 11], [0, 0], none, 2, 2⟩ := by
    simp only [warmupStep, hn, hd, Option.bind_some]
    simp [Model.Pipeline.countSome, Model.Pipeline.allSome]
  unfold Model.ClosedLoop.iterate
  rw [rwW1]
  have h00 : eqv (0 : ℝ) Sc.zero = true := by simp [eqv]
  have e1 : sW1.g = 1 := rfl
  simp only [trainStep, h00, if_true, Option.bind_some, e1, hw]
  simp [commit, sW2, sW1, rwEx, hn]

/-- the evaluated run: two iterations, both at β = 0 -/
theorem runW : runLoop wEx2 cfgW 2 (Model.ClosedLoop.init () 0) = some (sW2, [Model.ClosedLoop.init () 0, sW1, sW2],
    [⟨0, 4, 0, 0, Branch.firstIter, [1 / 2, 1 / 2], none, [], [], []⟩,
     ⟨0, 2, zW, zW, Branch.dynStuck, [1 / 2, 1 / 2], none, [], [], []⟩]) := by
  have g0 : contGuard cfgW (Model.ClosedLoop.init () 0 : CState ℝ Nat Unit Nat) = true := by
    simp [contGuard, Model.ClosedLoop.init, batchesOf, logw, Model.Run.notTermination]
  have g1 : contGuard cfgW sW1 = true := by
    obtain ⟨_, he⟩ := contGuard_spec cfgW sW1 wfc_sW1 (by simp [sW1])
    have e2 : ess ([1, 1] : List ℝ) = 2 := by
      have := Props.C20.C20_ess_uniform 2 (by norm_num) 1 one_pos
      simpa [List.replicate] using this
    exact he.mpr (Or.inr (by rw [oW1, e2]; simp [cfgW]; norm_num))
  have g2 : contGuard cfgW sW2 = false := by
    obtain ⟨_, he⟩ := contGuard_spec cfgW sW2 wfc_sW2 (by simp [sW2])
    cases hc : contGuard cfgW sW2 with
    | false => rfl
    | true =>
      have e4 : ess ([1, 1, 1, 1] : List ℝ) = 4 := by
        have := Props.C20.C20_ess_uniform 4 (by norm_num) 1 one_pos
        simpa [List.replicate] using this
      rcases he.mp hc with h | h
      · simp [cfgW, sW2] at h
      · rw [oW2, e4] at h; simp [cfgW] at h; norm_num at h
  simp [runLoop, g0, g1, g2, itW0, itW1]

-- `C05_cl_warmup_count` on it: iteration 1 sees a pool of 2 < 4 = target, so it MUST report β = 0 (volume-variation mode)
example : (⟨0, 2, zW, zW, Branch.dynStuck, [1 / 2, 1 / 2], none, [], [], []⟩ : CIterOut ℝ Nat).beta = 0 :=
  C05_cl_warmup_count wEx2 cfgW (by intro g; simp [wEx2, wEx, cfgW]) (by simp [cfgW]) 2 () 0 _ _ _ runW 1 _ rfl
    (Or.inl (by simp [cfgW]))
example := C05_cl_schedule wEx2 cfgW 2 () 0 _ _ _ runW

end Examples

end Props.C05
