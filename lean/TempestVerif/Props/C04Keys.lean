import TempestVerif.Model.WeightsKeys
/-
  C04, second clause pass — the glue between the stored per-key history lists and the batch-list model.

  Everything here is STRUCTURAL: it holds for every scalar type (`ℝ`, rounded reals, `Float`), so the statements of
  `Props.C04` (about `Model.Weights.logw` on a list of batches) transfer to the function as it reads the real
  `_history` dictionary, whenever the three lists line up — and the theorems say exactly what happens when they do not.
-/
namespace Props.C04Keys
open Model.Weights Model.WeightsKeys
set_option linter.unusedSectionVars false
set_option linter.unusedSimpArgs false

variable {α : Type} [ScT α]

/-! ### aligned histories: the key-level function IS the batch-list function -/

def colOf (b : Batch α) : Col α := ⟨b.beta, b.logz, b.logl.length⟩

theorem cols_ofBatches (h : List (Batch α)) :
    cols (h.map (·.beta)) (h.map (·.logz)) (h.map fun b => b.logl.length) = h.map colOf := by
  induction h with
  | nil => rfl
  | cons b bs ih => simp only [List.map_cons, cols, ih]; rfl

theorem entryK_colOf (logN l : α) (b : Batch α) : entryK logN l (colOf b) = entry logN l b := rfl

theorem bshape_self (n : Nat) : bshape n n = some n := by simp [bshape]

theorem bcast_self {γ : Type} (xs : List γ) : bcast xs xs.length = some xs := by simp [bcast]

theorem bcast_of_length {γ : Type} (xs : List γ) (n : Nat) (h : xs.length = n) : bcast xs n = some xs := by
  subst h; exact bcast_self xs

theorem flatten_map_logl (h : List (Batch α)) : (h.map (·.logl)).flatten = flatLogl h := by
  simp [flatLogl, List.flatMap_def]

theorem sum_map_length (h : List (Batch α)) : ((h.map (·.logl)).map List.length).sum = nTotal h := by
  simp [nTotal, List.map_map, Function.comp_def]

/-- **the key-level function on an aligned history is `Model.Weights.logw`** — for every history (also the empty one),
    every target, both values of `normalize`, and every scalar type -/
theorem C04K_aligned (h : List (Batch α)) (β : α) (nrm : Bool) :
    logwK (ofBatches h) β nrm = .ok (logw h β nrm).1 (logw h β nrm).2 := by
  cases h with
  | nil => rfl
  | cons b0 bs =>
    have hT : ((b0 :: bs).map (·.beta)).length = (b0 :: bs).length := by simp
    unfold logwK ofBatches
    simp only [List.map_cons, List.isEmpty_cons, Bool.false_eq_true, if_false, List.length_cons, List.length_map,
      Nat.lt_irrefl, bshape_self]
    have htake : (List.take (bs.length + 1) (b0.logl :: bs.map (·.logl))) = b0.logl :: bs.map (·.logl) := by
      apply List.take_of_length_le; simp
    rw [htake]
    have e1 : bcast (b0.beta :: bs.map (·.beta)) (bs.length + 1) = some (b0.beta :: bs.map (·.beta)) :=
      bcast_of_length _ _ (by simp)
    have e2 : bcast (b0.logz :: bs.map (·.logz)) (bs.length + 1) = some (b0.logz :: bs.map (·.logz)) :=
      bcast_of_length _ _ (by simp)
    have e3 : bcast ((b0.logl :: bs.map (·.logl)).map List.length) (bs.length + 1)
        = some ((b0.logl :: bs.map (·.logl)).map List.length) := bcast_of_length _ _ (by simp)
    rw [e1, e2, e3]
    have hc : cols (b0.beta :: bs.map (·.beta)) (b0.logz :: bs.map (·.logz)) ((b0.logl :: bs.map (·.logl)).map List.length)
        = colOf b0 :: bs.map colOf := by
      have := cols_ofBatches (b0 :: bs)
      simpa [List.map_map, Function.comp_def] using this
    have hs : ((b0.logl :: bs.map (·.logl)).map List.length).sum = nTotal (b0 :: bs) := by
      have := sum_map_length (b0 :: bs); simpa using this
    have hf : (b0.logl :: bs.map (·.logl)).flatten = flatLogl (b0 :: bs) := by
      have := flatten_map_logl (b0 :: bs); simpa using this
    simp only [hc, rawK, hs, hf, List.map_map]
    have : rawLogw b0 bs β = (flatLogl (b0 :: bs)).map fun l =>
        Sc.sub (Sc.mul l β) (logaddexpReduce1 (entryK (ScT.log (Sc.ofNat (nTotal (b0 :: bs)))) l (colOf b0))
          (bs.map (entryK (ScT.log (Sc.ofNat (nTotal (b0 :: bs)))) l ∘ colOf))) := by
      unfold rawLogw mixLog
      apply List.map_congr_left
      intro l _
      rfl
    simp only [logw, this]

/-! ### how the lists come into being: `commit_current_to_history` -/

/-- a commit in which all three values are set extends an aligned history by one batch -/
theorem C04K_commit_full (h : List (Batch α)) (b z : α) (l : List α) :
    commitK ⟨some b, some z, some l⟩ (ofBatches h) = ofBatches (h ++ [⟨b, z, l⟩]) := by
  simp [commitK, ofBatches, appendSome]

/-- the calls the sampler (and the `weights-T` suite) makes for one iteration -/
def fullOps (b : Batch α) : List (Op α) :=
  [.setBeta (some b.beta), .setLogz (some b.logz), .setLogl (some b.logl), .commit]

theorem runOps_append (s : SMK α) (a b : List (Op α)) :
    runOps s (a ++ b) = ((runOps (runOps s a).1 b).1, (runOps s a).2 ++ (runOps (runOps s a).1 b).2) := by
  induction a generalizing s with
  | nil => simp [runOps]
  | cons op ops ih =>
    simp only [List.cons_append, runOps, ih]
    cases (step s op).2 <;> simp

theorem runOps_fullOps (s : SMK α) (b : Batch α) :
    runOps s (fullOps b) = (⟨⟨some b.beta, some b.logz, some b.logl⟩,
      commitK ⟨some b.beta, some b.logz, some b.logl⟩ s.hist, none⟩, []) := by
  simp [fullOps, runOps, step]

/-- **any number of complete iterations through the public API** leaves the three lists aligned, and they are the
    lists of exactly the committed batches, in order -/
theorem C04K_api_history (bs : List (Batch α)) :
    (runOps SMK.init (bs.flatMap fullOps)).1.hist = ofBatches bs ∧
    (runOps SMK.init (bs.flatMap fullOps)).2 = [] := by
  suffices H : ∀ (h : List (Batch α)) (s : SMK α), s.hist = ofBatches h →
      (runOps s (bs.flatMap fullOps)).1.hist = ofBatches (h ++ bs) ∧ (runOps s (bs.flatMap fullOps)).2 = [] by
    simpa using H [] SMK.init rfl
  induction bs with
  | nil => intro h s hs; simp [runOps, hs]
  | cons b bs ih =>
    intro h s hs
    rw [List.flatMap_cons, runOps_append, runOps_fullOps]
    have := ih (h ++ [b]) ⟨⟨some b.beta, some b.logz, some b.logl⟩,
      commitK ⟨some b.beta, some b.logz, some b.logl⟩ s.hist, none⟩ (by rw [hs]; exact C04K_commit_full h _ _ _)
    simpa using this

/-- … hence `compute_logw_and_logz` called after them returns the batch-list model's value (to which every theorem
    of `Props.C04` applies) -/
theorem C04K_api_weights (bs : List (Batch α)) (β : α) (nrm : Bool) :
    (runOps SMK.init (bs.flatMap fullOps ++ [.weights β nrm])).2
      = [.out (.ok (logw bs β nrm).1 (logw bs β nrm).2)] := by
  rw [runOps_append]
  obtain ⟨h1, h2⟩ := C04K_api_history bs
  rw [h2]
  simp only [runOps, step, List.nil_append, h1, C04K_aligned]

/-! ### histories that do NOT line up: what the function does, exactly -/

/-- no stored beta: `(array([]), -inf)` whatever the other keys hold -/
theorem C04K_no_beta (zs : List α) (ls : List (List α)) (β : α) (nrm : Bool) :
    logwK ⟨[], zs, ls⟩ β nrm = .ok [] none := rfl

/-- betas but no log-likelihood array: `np.concatenate([])` raises -/
theorem C04K_no_logl (b : α) (bs zs : List α) (β : α) (nrm : Bool) :
    logwK ⟨b :: bs, zs, []⟩ β nrm = .valueError := rfl

/-- fewer log-likelihood arrays than betas: `logl_per_iter[t]` raises -/
theorem C04K_fewer_logl (k : KHist α) (β : α) (nrm : Bool) (h0 : k.logl ≠ []) (h : k.logl.length < k.beta.length) :
    logwK k β nrm = .indexError := by
  have hb : k.beta.isEmpty = false := by
    cases hk : k.beta with
    | nil => rw [hk] at h; simp at h
    | cons _ _ => rfl
  have hl : k.logl.isEmpty = false := by
    cases hk : k.logl with
    | nil => exact absurd hk h0
    | cons _ _ => rfl
  simp [logwK, hb, hl, h]

/-- `bshape` is the only broadcasting test that can fail: once it succeeds the three `bcast`s do -/
theorem C04K_bcast_total (T Z C : Nat) (hs : bshape T Z = some C) {γ δ : Type} (xs : List γ) (ys : List δ)
    (hx : xs.length = T) (hy : ys.length = Z) : (bcast xs C).isSome ∧ (bcast ys C).isSome := by
  unfold bshape at hs
  have one : ∀ {ε : Type} (l : List ε), l.length = 1 → ∀ n, (bcast l n).isSome := by
    intro ε l hl n
    match l, hl with
    | [x], _ => unfold bcast; split <;> simp
  by_cases h1 : T = Z
  · simp only [h1, if_true, Option.some.injEq] at hs
    subst hs; subst h1
    exact ⟨by simp [bcast, hx], by simp [bcast, hy]⟩
  · simp only [h1, if_false] at hs
    by_cases h2 : T = 1
    · simp only [h2, if_true, Option.some.injEq] at hs
      subst hs
      exact ⟨one xs (hx.trans h2) _, by simp [bcast, hy]⟩
    · simp only [h2, if_false] at hs
      by_cases h3 : Z = 1
      · simp only [h3, if_true, Option.some.injEq] at hs
        subst hs
        exact ⟨by simp [bcast, hx], one ys (hy.trans h3) _⟩
      · simp [h3] at hs

/-- **the silent path.**  Every iteration stored its beta and its particles, but only ONE evidence value was ever
    stored (all other commits left `logz` at `None`): numpy broadcasts that single value over all iterations and the
    function returns, without any error, the weights of the history in which every iteration has that evidence value.
    (With two or more but not all values stored it raises — `C04K_logz_mismatch_raises`.) -/
theorem C04K_single_logz_broadcast (h : List (Batch α)) (z : α) (β : α) (nrm : Bool) :
    logwK ⟨h.map (·.beta), [z], h.map (·.logl)⟩ β nrm
      = .ok (logw (h.map fun b => ⟨b.beta, z, b.logl⟩) β nrm).1 (logw (h.map fun b => ⟨b.beta, z, b.logl⟩) β nrm).2 := by
  rw [← C04K_aligned]
  cases h with
  | nil => rfl
  | cons b0 bs =>
    cases bs with
    | nil => rfl
    | cons b1 bs =>
      unfold logwK ofBatches
      have hne : (bs.length + 1 + 1 = 1) = False := by simp
      simp only [List.map_cons, List.isEmpty_cons, Bool.false_eq_true, if_false, List.length_cons, List.length_map,
        Nat.lt_irrefl, List.length_nil, bshape, hne, bshape_self, List.map_map, Function.comp_def]
      simp only [Nat.zero_add, if_true]
      have ez : bcast [z] (bs.length + 1 + 1) = some (z :: z :: bs.map fun _ => z) := by
        simp [bcast, List.replicate_succ, List.map_const']
      have ez' : bcast (z :: z :: bs.map fun _ => z) (bs.length + 1 + 1) = some (z :: z :: bs.map fun _ => z) :=
        bcast_of_length _ _ (by simp)
      rw [ez, ez']

/-- two or more, but not all, evidence values stored (and at least two iterations): the broadcast fails, `ValueError` -/
theorem C04K_logz_mismatch_raises (k : KHist α) (β : α) (nrm : Bool) (hT : 2 ≤ k.beta.length)
    (hK : k.beta.length ≤ k.logl.length) (hZ1 : k.logz.length ≠ 1) (hZ : k.logz.length ≠ k.beta.length) :
    logwK k β nrm = .valueError := by
  have hb : k.beta.isEmpty = false := by
    cases hk : k.beta with
    | nil => rw [hk] at hT; simp at hT
    | cons _ _ => rfl
  have hl : k.logl.isEmpty = false := by
    cases hk : k.logl with
    | nil => rw [hk] at hK; simp only [List.length_nil] at hK; omega
    | cons _ _ => rfl
  have h1 : ¬ k.logl.length < k.beta.length := by omega
  have hs : bshape k.beta.length k.logz.length = none := by
    unfold bshape
    have : ¬ k.beta.length = k.logz.length := fun h => hZ h.symm
    have : ¬ k.beta.length = 1 := by omega
    simp [*]
  simp [logwK, hb, hl, h1, hs]

/-! ### the cache of `compute_results` -/

/-- what a `compute_results()` that starts from an empty cache stores under `"logw"` (`none`: it raised) -/
def freshEntry (k : KHist α) : Option (Entry α) :=
  if ragged k.logl then none
  else match logwK k Sc.one true with
    | .ok w _ => some (.logw w)
    | .outside => some .outside
    | _ => none

/-- the cache a computation from scratch leaves, and what it hands to the caller -/
def cacheOf : Option (Entry α) → Entry α
  | some e => e
  | none => .nologw

def resOf : Option (Entry α) → Res α
  | some e => .dict e
  | none => .raised

theorem computeResults_fresh (s : SMK α) (hc : s.cache = none) :
    computeResults s = ({ s with cache := some (cacheOf (freshEntry s.hist)) }, resOf (freshEntry s.hist)) := by
  unfold computeResults freshEntry
  rw [hc]
  by_cases hr : ragged s.hist.logl = true
  · simp [hr, resOf, cacheOf]
  · simp only [hr, Bool.false_eq_true, if_false]
    cases logwK s.hist Sc.one true <;> simp [resOf, cacheOf]

theorem computeResults_cached (s : SMK α) (d : Entry α) (hc : s.cache = some d) :
    computeResults s = (s, .dict d) := by
  unfold computeResults; rw [hc]

/-- the cache, when filled, holds what a computation from scratch on the CURRENT history would leave -/
def Coherent (s : SMK α) : Prop := ∀ d, s.cache = some d → d = cacheOf (freshEntry s.hist)

theorem coherent_step (s : SMK α) (op : Op α) (hs : Coherent s) : Coherent (step s op).1 := by
  cases op with
  | setBeta v => intro d hd; simp [step] at hd
  | setLogz v => intro d hd; simp [step] at hd
  | setLogl v => intro d hd; simp [step] at hd
  | commit => intro d hd; simp [step] at hd
  | load k => intro d hd; simp [step] at hd
  | roundtrip => intro d hd; simp [step] at hd
  | weights b n => exact hs
  | results =>
    simp only [step]
    cases hc : s.cache with
    | none =>
      rw [computeResults_fresh s hc]
      intro d hd
      simp only [Option.some.injEq] at hd
      exact hd.symm
    | some d0 => rw [computeResults_cached s d0 hc]; exact hs

theorem coherent_runOps (s : SMK α) (ops : List (Op α)) (hs : Coherent s) : Coherent (runOps s ops).1 := by
  induction ops generalizing s with
  | nil => exact hs
  | cons op ops ih => exact ih _ (coherent_step s op hs)

/-- **cache coherence at every point of every call sequence**: whatever was set, committed, loaded or computed
    before, a `compute_results()` that hands out a `"logw"` array hands out the normalised β = 1 weights of the history
    as it is NOW (never those of an earlier history) -/
theorem C04K_results_never_stale (ops : List (Op α)) (w : List α)
    (h : (computeResults (runOps SMK.init ops).1).2 = .dict (.logw w)) :
    ∃ z, logwK (runOps SMK.init ops).1.hist Sc.one true = .ok w z := by
  have hco : Coherent (runOps (SMK.init : SMK α) ops).1 :=
    coherent_runOps _ ops (by intro d hd; simp [SMK.init] at hd)
  generalize (runOps (SMK.init : SMK α) ops).1 = s at h hco
  have hf : freshEntry s.hist = some (.logw w) := by
    cases hc : s.cache with
    | none =>
      rw [computeResults_fresh s hc] at h
      simp only at h
      cases hfw : freshEntry s.hist with
      | none => rw [hfw] at h; simp [resOf] at h
      | some e => rw [hfw] at h; simp only [resOf, Res.dict.injEq] at h; rw [h]
    | some d =>
      rw [computeResults_cached s d hc] at h
      simp only [Res.dict.injEq] at h
      have := hco d hc
      rw [h] at this
      cases hfw : freshEntry s.hist with
      | none => rw [hfw] at this; simp [cacheOf] at this
      | some e => rw [hfw] at this; simp only [cacheOf] at this; rw [this]
  unfold freshEntry at hf
  split at hf
  · cases hf
  · split at hf
    · rename_i w' z heq
      simp only [Option.some.injEq, Entry.logw.injEq] at hf
      exact ⟨z, by rw [heq, hf]⟩
    · simp at hf
    · cases hf

/-- on an aligned history of equal batch sizes the entry is the batch-list model's normalised weight vector -/
theorem C04K_results_value (h : List (Batch α)) (hr : ragged (h.map (·.logl)) = false) :
    freshEntry (ofBatches h) = some (.logw (logw h Sc.one true).1) := by
  unfold freshEntry
  have : ragged (ofBatches h).logl = false := hr
  rw [this, C04K_aligned]
  simp

/-- **finding (the code as it is, /repo aeb0399).**  `_results_dict = dict()` is assigned before the dictionary is
    filled; when `get_history` raises inside the loop (two batches of different size: `np.array` of a ragged list)
    the half-filled dictionary stays, and the NEXT `compute_results()` returns it — a dictionary without `"logw"` —
    instead of raising again or recomputing.  The call sequence below is reachable through the public API only. -/
theorem C04K_results_partial_after_raise :
    (runOps (SMK.init : SMK α)
      [.setBeta (some Sc.zero), .setLogz (some Sc.zero), .setLogl (some [Sc.zero]), .commit,
       .setBeta (some Sc.one), .setLogl (some [Sc.zero, Sc.zero]), .commit, .results, .results]).2
      = [.res .raised, .res (.dict .nologw)] := by
  simp [runOps, step, SMK.init, commitK, appendSome, computeResults, ragged]

/-! ### non-vacuity -/

section examples
variable (a b c z1 z2 : α)

/-- two complete iterations (sizes 2 and 1) through the API, then a weight request -/
example : (runOps SMK.init ((([⟨a, z1, [b, c]⟩, ⟨b, z2, [a]⟩] : List (Batch α)).flatMap fullOps) ++ [.weights c true])).2
    = [.out (.ok (logw [⟨a, z1, [b, c]⟩, ⟨b, z2, [a]⟩] c true).1 (logw [⟨a, z1, [b, c]⟩, ⟨b, z2, [a]⟩] c true).2)] :=
  C04K_api_weights _ c true

/-- the second commit forgot `logz`: the lists are (2, 1, 2) long and the one evidence value is used twice -/
example : logwK ⟨[a, b], [z1], [[b, c], [a]]⟩ c false
    = .ok (logw [⟨a, z1, [b, c]⟩, ⟨b, z1, [a]⟩] c false).1 (logw [⟨a, z1, [b, c]⟩, ⟨b, z1, [a]⟩] c false).2 :=
  C04K_single_logz_broadcast [⟨a, z2, [b, c]⟩, ⟨b, z2, [a]⟩] z1 c false

example : logwK ⟨[a, b, c], [z1, z2], [[b, c], [a], [a]]⟩ c false = .valueError :=
  C04K_logz_mismatch_raises _ c false (by simp) (by simp) (by simp) (by simp)

example : logwK ⟨[a, b], [z1, z2], [[b, c]]⟩ c false = .indexError :=
  C04K_fewer_logl _ c false (by simp) (by simp)

/-- one beta, no stored evidence value: zero mixture columns -/
example : logwK ⟨[a], [], [[b, c]]⟩ c false = .outside := by
  simp [logwK, bshape, bcast, cols, rawK]

end examples

end Props.C04Keys
