import TempestVerif.Model.Student
import TempestVerif.Model.StudentNu
import TempestVerif.Model.StudentModes
import TempestVerif.Gen.StudentSrc
/-
  C19 — the executable model (`Model/Student.lean`, `Model/StudentNu.lean`, `Model/StudentModes.lean`) is built from the
  expressions that are in /repo's `tempest/student.py` and `tempest/modes.py` NOW.

  `Gen/StudentSrc.lean` is regenerated from the source on every run of the check (translator G17,
  `translate/g17_student.py`).  It contains
    * the KERNEL of every arithmetic statement of `fit_mvstud` / `opt_nu` / `func0` and of the two constructors
      `ModeStatistics.from_particles / from_global`: the scalar function a numpy expression applies element-wise
      (`w_iobs = (nu + dim) / (nu + delta_iobs)` ↦ `weightsK nu dim δ = (nu + dim)/(nu + δ)`), compiled to a term over the
      scalar interface — literals (`1e-6`, `100`, `20`, `0`, `1`, `2`, `1e6`, `1e-300`, `4`), operators, operand order and
      comparison operators taken from the source; Python ints are `Nat` and are cast where they meet a float;
    * for every kernel the list of its LEAVES (the numpy primitives it is applied to: `np.cov(data)`, `np.sum(…, 0)`, …),
      the argument lists of `optimize.bisect`, `np.random.choice`, `fit_mvstud`, and the statement skeletons.
  Local names are canonicalised by the translator (`a_k` = k-th parameter, `v_k` = k-th local in order of first binding,
  `f_k` = k-th nested function), so a pure renaming / reformatting / comment / type-annotation change regenerates the same file.

  The theorems hold by `rfl` (a few by a two-line `simp`/`omega` about `Nat`) for EVERY scalar type — `Float`, which the
  driver executes, included: the model's definitions unfold to the list combinators (`map`, `zipWith`, `foldl`: the
  broadcasting layout, hand-written) applied to exactly the generated kernels.  A change of a literal, an operator, an operand
  order or a comparison in the source changes a kernel and breaks the corresponding theorem; a change of control flow (which
  branch assigns what, what is returned, order / arguments of calls, where `break` / `return` sit) changes a skeleton table.

  Canonical names as of this writing —
    fit_mvstud: a0 data, a1 tolerance, a2 max_iter; f0 opt_nu (f0a0 delta_iobs, f0a1 nu, f0v0 nu_max, f0f0 func0 (f0f0a0 nu,
      f0f0v0 w_iobs, f0f0v1 f)); v0 dim, v1 n, v2 mu, v3 Sigma, v4 nu, v5 last_nu, v6 i, v7 diffs, v8 delta_iobs, v9 new_nu,
      v10 w_iobs, v11 new_Sigma.
    from_particles: a0 cls, a1 u, a2 weights, a3 labels, a4 dof_fallback, a5 resample_factor; v0 means, v1 covariances,
      v2 degrees_of_freedom, v3 unique_labels, v4 label, v5 idx_cluster, v6 u_cluster, v7 weights_cluster, v8 n_cluster,
      v9 n_resample, v10 idx_resample, v11 u_resampled, v12 mean, v13 covariance, v14 dof.
    from_global: a0 cls, a1 u, a2 weights, a3 dof_fallback, a4 resample_factor; v0 n_particles, v1 n_resample, v2 idx_resample,
      v3 u_resampled, v4 mean, v5 covariance, v6 dof.
-/
namespace Props.C19.Src
open Model.Student Model.StudentModes
variable {α : Type}

/-! ## `fit_mvstud` (tempest/student.py) -/
section Fit
variable [Sc α]

/-- `def fit_mvstud(data, tolerance=1e-6, max_iter=100)` -/
theorem C19_src_defaults :
    (defaultTol : α) = Gen.StudentSrc.tolDefault ∧ defaultMaxIter = Gen.StudentSrc.maxIterDefault := ⟨rfl, rfl⟩

/-- `Sigma = np.cov(data) * (n - 1) / n + (1 / n) * np.diag(np.var(data, axis=1))`, entry `(a, b)`; the two leaves are the
    model's `np.cov` entry `⟨c_a, c_b⟩/(n-1)` and `np.diag(np.var)` entry `[a = b]·⟨c_a, c_a⟩/n` (hand-written: numpy's) -/
theorem C19_src_initSigma (n : Nat) (X : Mat α) :
    initSigma n X =
      (let C := X.map center
       C.zipIdx.map fun (ca, a) => C.zipIdx.map fun (cb, b) =>
         Gen.StudentSrc.initSigmaK (Sc.div (dot ca cb) (Sc.ofNat (n - 1))) n
           (if a == b then Sc.div (dot ca ca) (Sc.ofNat n) else Sc.zero)) := rfl

theorem C19_src_initSigma_leaves :
    Gen.StudentSrc.initSigmaKLeaves = ["L0 = np.cov(a0)", "L1 = np.diag(np.var(a0, axis=1))"] ∧
    Gen.StudentSrc.initMuLeaves = ["L0 = np.array([np.median(a0, 1)]).T"] := ⟨rfl, rfl⟩

/-- `nu = 20; last_nu = 0; i = 0` and `fuel = max_iter - i` (tape-driven loop) -/
theorem C19_src_fit (tol : α) (maxIter n : Nat) (X : Mat α) (tape : List (NuEv α)) :
    fit tol maxIter n X tape =
      (init n X).map fun st =>
        loop tol n X (maxIter - Gen.StudentSrc.iterInit) st (Sc.ofNat Gen.StudentSrc.nuInit)
          (Sc.ofNat Gen.StudentSrc.lastNuInit) tape := rfl

/-- the same initial values in the loop driven by the modelled `opt_nu` (what `fitF` runs) -/
theorem C19_src_fitWith (optNu : List α → NuOut α) (tol : α) (maxIter n : Nat) (X : Mat α) :
    fitWith optNu tol maxIter n X =
      (init n X).map fun st =>
        loopF optNu tol n X (maxIter - Gen.StudentSrc.iterInit) st (Sc.ofNat Gen.StudentSrc.nuInit)
          (Sc.ofNat Gen.StudentSrc.lastNuInit) := rfl

/-- `while np.abs(last_nu - nu) > tolerance and i < max_iter` is the conjunction of its two comparisons -/
theorem C19_src_whileTest (lastNu nu tol : α) (i maxIter : Nat) :
    Gen.StudentSrc.whileTest lastNu nu tol i maxIter =
      (Gen.StudentSrc.whileNuTest lastNu nu tol && Gen.StudentSrc.whileIterTest i maxIter) := rfl

/-- the model's convergence test is the source's first comparison -/
theorem C19_src_whileNuTest (lastNu nu tol : α) :
    Gen.StudentSrc.whileNuTest lastNu nu tol = Sc.lt tol (Sc.abs (Sc.sub lastNu nu)) := rfl

/-- `fuel = max_iter - i`: the second comparison holds iff fuel is left -/
theorem C19_src_whileIterTest (i maxIter : Nat) :
    Gen.StudentSrc.whileIterTest i maxIter = decide (0 < maxIter - i) := by
  simp [Gen.StudentSrc.whileIterTest]; omega

/-- `i += 1` costs one unit of fuel -/
theorem C19_src_iterStep (i maxIter : Nat) :
    maxIter - Gen.StudentSrc.iterStep i = (maxIter - i) - 1 := rfl

/-- `if i == max_iter` (the warning) while `i ≤ max_iter`: no fuel left -/
theorem C19_src_warnTest (i fuel : Nat) :
    Gen.StudentSrc.warnTest i (i + fuel) = (fuel == 0) := by
  cases fuel <;> simp [Gen.StudentSrc.warnTest]

/-- the loop: test, `i += 1` BEFORE the two `break`s (so the warning flag of an aborted last iteration is the source's
    `i == max_iter` at the incremented counter), exits as in the skeleton rows 8.* -/
theorem C19_src_loop_succ (tol : α) (n : Nat) (X : Mat α) (fuel : Nat) (st : State α) (nu lastNu : α)
    (tape : List (NuEv α)) (i : Nat) :
    loop tol n X (fuel+1) st nu lastNu tape =
      if Gen.StudentSrc.whileTest lastNu nu tol i (i + (fuel+1)) then
        (let w := Gen.StudentSrc.warnTest (Gen.StudentSrc.iterStep i) (i + (fuel+1))
         match stateDeltas n X st with
         | none => ⟨[st], .notPD, some nu, w⟩
         | some dl =>
           match tape with
           | [] => ⟨[st], .tapeEnd, some nu, w⟩
           | .fail :: _ => ⟨[st], .nuFail, some nu, w⟩
           | .inf :: _ => ⟨[st], .infNu, none, false⟩
           | .val nu' :: rest =>
             let st' := update n X (diffs X st.mu) (weights X.length nu' dl)
             match inv st'.sigma with
             | none => ⟨[st], .sigmaNotPD, some nu, w⟩
             | some _ =>
               let r := loop tol n X fuel st' nu' nu rest
               ⟨st :: r.iterates, r.stop, r.nu, r.warned⟩)
      else ⟨[st], .converged, some nu, Gen.StudentSrc.warnTest i (i + (fuel+1))⟩ := by
  have h1 : Gen.StudentSrc.whileTest lastNu nu tol i (i + (fuel+1)) = Sc.lt tol (Sc.abs (Sc.sub lastNu nu)) := by
    rw [C19_src_whileTest, C19_src_whileIterTest, C19_src_whileNuTest]
    have : decide (0 < i + (fuel + 1) - i) = true := by simp
    rw [this, Bool.and_true]
  have h2 : Gen.StudentSrc.warnTest (Gen.StudentSrc.iterStep i) (i + (fuel+1)) = (fuel == 0) := by
    have := C19_src_warnTest (i+1) fuel
    rw [show i + 1 + fuel = i + (fuel + 1) by omega] at this
    exact this
  have h3 : Gen.StudentSrc.warnTest i (i + (fuel+1)) = false := by
    rw [C19_src_warnTest]; rfl
  rw [h1, h2, h3]; rfl

/-- no fuel: `i == max_iter`, the loop test fails on its second comparison whatever the first says; the warning is printed -/
theorem C19_src_loop_zero (tol : α) (n : Nat) (X : Mat α) (st : State α) (nu lastNu : α) (tape : List (NuEv α)) (i : Nat) :
    Gen.StudentSrc.whileTest lastNu nu tol i i = false ∧
    loop tol n X 0 st nu lastNu tape = ⟨[st], .maxIter, some nu, Gen.StudentSrc.warnTest i i⟩ := by
  refine ⟨?_, ?_⟩
  · rw [C19_src_whileTest, C19_src_whileIterTest]; simp
  · have := C19_src_warnTest i 0
    rw [Nat.add_zero] at this
    rw [this]; rfl

/-- the same for the loop driven by the modelled `opt_nu` -/
theorem C19_src_loopF_succ (optNu : List α → NuOut α) (tol : α) (n : Nat) (X : Mat α) (fuel : Nat) (st : State α)
    (nu lastNu : α) (i : Nat) :
    loopF optNu tol n X (fuel+1) st nu lastNu =
      if Gen.StudentSrc.whileTest lastNu nu tol i (i + (fuel+1)) then
        (let w := Gen.StudentSrc.warnTest (Gen.StudentSrc.iterStep i) (i + (fuel+1))
         match stateDeltas n X st with
         | none => some ⟨[st], .notPD, some nu, w⟩
         | some dl =>
           match optNu dl with
           | .raise => none
           | .fail => some ⟨[st], .nuFail, some nu, w⟩
           | .inf => some ⟨[st], .infNu, none, false⟩
           | .val nu' =>
             let st' := update n X (diffs X st.mu) (weights X.length nu' dl)
             match inv st'.sigma with
             | none => some ⟨[st], .sigmaNotPD, some nu, w⟩
             | some _ =>
               (loopF optNu tol n X fuel st' nu' nu).map fun r => ⟨st :: r.iterates, r.stop, r.nu, r.warned⟩)
      else some ⟨[st], .converged, some nu, Gen.StudentSrc.warnTest i (i + (fuel+1))⟩ := by
  have h1 : Gen.StudentSrc.whileTest lastNu nu tol i (i + (fuel+1)) = Sc.lt tol (Sc.abs (Sc.sub lastNu nu)) := by
    rw [C19_src_whileTest, C19_src_whileIterTest, C19_src_whileNuTest]
    have : decide (0 < i + (fuel + 1) - i) = true := by simp
    rw [this, Bool.and_true]
  have h2 : Gen.StudentSrc.warnTest (Gen.StudentSrc.iterStep i) (i + (fuel+1)) = (fuel == 0) := by
    have := C19_src_warnTest (i+1) fuel
    rw [show i + 1 + fuel = i + (fuel + 1) by omega] at this
    exact this
  have h3 : Gen.StudentSrc.warnTest i (i + (fuel+1)) = false := by
    rw [C19_src_warnTest]; rfl
  rw [h1, h2, h3]; rfl

/-- "return the last valid estimate" (commit 3acbd02): the loop is left in exactly three places — `break` when the first
    `try` (solve, `opt_nu`) raised, BEFORE any of `last_nu, nu, Sigma, mu` is written in this pass (`notPD` / `nuFail`: the
    state and `nu` of the previous pass come back); `return` of the current `(mu, Sigma)` with the new `nu` when it is `inf`
    (`infNu`); `break` after `nu = last_nu` when the Cholesky test of `new_Sigma` raised, before `Sigma` and `mu` are
    written (`sigmaNotPD`: previous `nu`, previous state) — and `Sigma`, `mu` are written only after that test
    (rows 8.9–8.11 of `stateWrites` follow 8.8x0) -/
theorem C19_src_lastValidEstimate :
    Gen.StudentSrc.loopExits =
      ["break | except (np.linalg.LinAlgError, ValueError) guarding [v8 = np.sum(v7 * np.linalg.solve(v3, v7), 0); v9 = f0(v8, v4)] | after: ",
       "return (v2.T[0], v3, v4) | if v4 == np.inf | after: ",
       "break | except np.linalg.LinAlgError guarding [np.linalg.cholesky(v11)] | after: v4 = v5"] ∧
    Gen.StudentSrc.stateWrites =
      ["3: v2 = np.array([np.median(a0, 1)]).T",
       "4: v3 = np.cov(a0) * (v1 - 1) / v1 + 1 / v1 * np.diag(np.var(a0, axis=1))",
       "5: v4 = 20",
       "6: v5 = 0",
       "8.3: v5 = v4",
       "8.4: v4 = v9",
       "8.8x0.0: v4 = v5",
       "8.9: v3 = v11",
       "8.10: v2 = np.sum(v10 * a0, 1) / sum(v10)",
       "8.11: v2 = np.array([v2]).T"] := ⟨rfl, rfl⟩

/-- `diffs = data - mu` (row `a` of `data` minus `mu[a]`: the broadcast of a `(dim, 1)` column) -/
theorem C19_src_diffs (X : Mat α) (mu : List α) :
    diffs X mu = List.zipWith (fun col m => col.map fun x => Gen.StudentSrc.diffsK x m) X mu := rfl

/-- `delta_iobs = np.sum(diffs * np.linalg.solve(Sigma, diffs), 0)`: element-wise product, summed over axis 0, nothing else -/
theorem C19_src_deltas (n : Nat) (D Sinv : Mat α) :
    deltas n D Sinv =
      (List.zipWith (List.zipWith Gen.StudentSrc.deltaK_L0A0) D (Sinv.map fun row => lincomb n row D)).foldl vadd
        (List.replicate n Sc.zero) ∧
    (∀ x : α, Gen.StudentSrc.deltaK x = x) := ⟨rfl, fun _ => rfl⟩

theorem C19_src_deltas_leaves :
    Gen.StudentSrc.deltaKLeaves = ["L0 = np.sum(v7 * np.linalg.solve(v3, v7), 0)"] ∧
    Gen.StudentSrc.deltaK_L0A0Leaves = ["L0 = np.linalg.solve(v3, v7)"] := ⟨rfl, rfl⟩

/-- `w_iobs = (nu + dim) / (nu + delta_iobs)` -/
theorem C19_src_weights (dim : Nat) (nu : α) (dl : List α) :
    weights dim nu dl = dl.map fun δ => Gen.StudentSrc.weightsK nu dim δ := rfl

/-- `new_Sigma = np.dot(w_iobs * diffs, diffs.T) / n` and `mu = np.sum(w_iobs * data, 1) / sum(w_iobs)` -/
theorem C19_src_update (n : Nat) (X D : Mat α) (w : List α) :
    update n X D w =
      ⟨X.map fun col => Gen.StudentSrc.muK (Sc.sum (List.zipWith Gen.StudentSrc.muK_L0A0 w col)) (Sc.sum w),
       D.map fun da => D.map fun db =>
         Gen.StudentSrc.sigmaK (dot (List.zipWith Gen.StudentSrc.sigmaK_L0A0 w da) db) n⟩ := rfl

theorem C19_src_update_leaves :
    Gen.StudentSrc.sigmaKLeaves = ["L0 = np.dot(v10 * v7, v7.T)"] ∧
    Gen.StudentSrc.muKLeaves = ["L0 = np.sum(v10 * a0, 1)", "L1 = sum(v10)"] := ⟨rfl, rfl⟩

/-! ### `opt_nu` -/

/-- `nu_max = 1e6`, `optimize.bisect(func0, 1e-300, nu_max)` -/
theorem C19_src_bracket :
    (nuLo : α) = Gen.StudentSrc.bisectLo ∧ (nuMax : α) = Gen.StudentSrc.nuMax := ⟨rfl, rfl⟩

/-- `bisect` gets the score function, the two ends of the bracket and nothing else (scipy's default tolerances) -/
theorem C19_src_bisectArgs : Gen.StudentSrc.bisectArgs = ["f0f0", "1e-300", "f0v0"] := rfl

/-- `if func0(nu_max) >= 0: nu = np.inf  else: nu = optimize.bisect(func0, 1e-300, nu_max)` -/
theorem C19_src_optNuWith (f : α → α) :
    optNuWith f =
      if Gen.StudentSrc.optNuInfTest f Gen.StudentSrc.nuMax then (.inf, [Gen.StudentSrc.nuMax])
      else
        let r := bisect f Gen.StudentSrc.bisectLo Gen.StudentSrc.nuMax bisXtol bisRtol bisIter
        (match r.res with
         | .root x => .val x
         | .signErr => .fail
         | .nanErr _ => .fail
         | .convErr => .raise, Gen.StudentSrc.nuMax :: r.evals) := rfl

/-- the same as ONE source-derived term: which branch answers `inf` and which calls `bisect`, and with which arguments
    (`R` = the model's outcome-with-evaluation-trace; the hand-written part is what `np.inf` and a `bisect` call MEAN:
    `.inf` after one evaluation at `nu_max`; scipy's defaults `xtol, rtol, maxiter` and the mapping of its errors) -/
theorem C19_src_optNuBody (f : α → α) :
    optNuWith f =
      Gen.StudentSrc.optNuBody (.inf, [Gen.StudentSrc.nuMax])
        (fun g a b =>
          let r := bisect g a b bisXtol bisRtol bisIter
          (match r.res with
           | .root x => .val x
           | .signErr => .fail
           | .nanErr _ => .fail
           | .convErr => .raise, Gen.StudentSrc.nuMax :: r.evals))
        f Gen.StudentSrc.nuMax := rfl

end Fit

section Func0
variable [ScT α]

/-- `func0`: `w_iobs = (nu + dim) / (nu + delta_iobs)` and the seven-term score `f`, evaluated left to right -/
theorem C19_src_func0 (psi : α → α) (dim n : Nat) (dl : List α) (nu : α) :
    func0 psi dim n dl nu =
      (let w := dl.map fun δ => Gen.StudentSrc.func0W nu dim δ
       Gen.StudentSrc.func0F psi nu (Sc.sum (w.map Gen.StudentSrc.func0F_L0A0)) n (Sc.sum w) dim) := rfl

theorem C19_src_func0_leaves :
    Gen.StudentSrc.func0FLeaves = ["L0 = np.sum(np.log(f0f0v0))", "L1 = np.sum(f0f0v0)"] := rfl

/-- the weights inside `func0` and the weights of the `Sigma` / `mu` update are the same expression -/
theorem C19_src_func0W (nu : α) (dim : Nat) (δ : α) :
    Gen.StudentSrc.func0W nu dim δ = Gen.StudentSrc.weightsK nu dim δ := rfl

end Func0

/-! ## `ModeStatistics.from_particles` / `from_global` (tempest/modes.py) -/
section Modes
variable [Sc α]

/-- `weights = weights / np.sum(weights)` (both constructors) and `weights_cluster = weights_cluster / np.sum(weights_cluster)` -/
theorem C19_src_normalise (w : List α) :
    normalise w = w.map (fun x => Gen.StudentSrc.fpNorm0K x (Model.Resample.npSum w)) ∧
    normalise w = w.map (fun x => Gen.StudentSrc.fpNorm1K x (Model.Resample.npSum w)) ∧
    normalise w = w.map (fun x => Gen.StudentSrc.fgNorm0K x (Model.Resample.npSum w)) := ⟨rfl, rfl, rfl⟩

theorem C19_src_normalise_leaves :
    Gen.StudentSrc.fpNorm0KLeaves = ["L0 = np.sum(a2)"] ∧ Gen.StudentSrc.fpNorm1KLeaves = ["L0 = np.sum(v7)"] ∧
    Gen.StudentSrc.fgNorm0KLeaves = ["L0 = np.sum(a2)"] := ⟨rfl, rfl, rfl⟩

omit [Sc α] in
/-- `if ~np.isfinite(dof): dof = dof_fallback` (both constructors) -/
theorem C19_src_applyFallback (fb : α) (t : Dof α) :
    applyFallback fb t = Gen.StudentSrc.fpDofFallback Dof.isFinite t (.fin fb) ∧
    applyFallback fb t = Gen.StudentSrc.fgDofFallback Dof.isFinite t (.fin fb) := ⟨rfl, rfl⟩

/-- resample–fit–fallback as `from_particles` writes it: `n_resample = n_cluster * resample_factor` draws -/
theorem C19_src_fitOne_fp (fitFn : Mat α → Option (FitOut α)) (fb : α) (rf : Nat) (uc : Mat α) (p us : List α) :
    fitOne fitFn fb rf uc p us = (do
      let nres := Gen.StudentSrc.fpNResample uc.length rf
      let idx ← Model.Resample.multinomial p (us.take nres)
      let ur ← gather uc idx
      let o ← fitFn ur
      some (⟨o.mu, o.sigma, Gen.StudentSrc.fpDofFallback Dof.isFinite o.dof (.fin fb)⟩, us.drop nres)) := rfl

/-- … and as `from_global` writes it: `n_resample = n_particles * resample_factor` -/
theorem C19_src_fitOne_fg (fitFn : Mat α → Option (FitOut α)) (fb : α) (rf : Nat) (uc : Mat α) (p us : List α) :
    fitOne fitFn fb rf uc p us = (do
      let nres := Gen.StudentSrc.fgNResample uc.length rf
      let idx ← Model.Resample.multinomial p (us.take nres)
      let ur ← gather uc idx
      let o ← fitFn ur
      some (⟨o.mu, o.sigma, Gen.StudentSrc.fgDofFallback Dof.isFinite o.dof (.fin fb)⟩, us.drop nres)) := rfl

/-- `np.random.choice(n, size=n_resample, replace=True, p=<normalised weights>)`, `fit_mvstud(u_resampled)` with the defaults -/
theorem C19_src_callArgs :
    Gen.StudentSrc.fpChoiceArgs = ["v8", "p=v7", "replace=True", "size=v9"] ∧
    Gen.StudentSrc.fgChoiceArgs = ["v0", "p=a2", "replace=True", "size=v1"] ∧
    Gen.StudentSrc.fpFitArgs = ["v11"] ∧ Gen.StudentSrc.fgFitArgs = ["v3"] := ⟨rfl, rfl, rfl, rfl⟩

/-- `from_global`: the shape test and the normalisation handed to the resampling -/
theorem C19_src_fromGlobal (fitFn : Mat α → Option (FitOut α)) (u : Mat α) (w : List α) (fb : α) (rf : Nat) (us : List α) :
    fromGlobal fitFn u w fb rf us =
      if Gen.StudentSrc.fgShapeTest u.length w.length then .valueError
      else match fitOne fitFn fb rf u (w.map fun x => Gen.StudentSrc.fgNorm0K x (Model.Resample.npSum w)) us with
        | none => .raised
        | some (o, _) => .ok ⟨[o.mu], [o.sigma], [o.dof], none⟩ := rfl

/-- `from_particles`: the shape test and the global normalisation -/
theorem C19_src_fromParticles (fitFns : List (Mat α → Option (FitOut α))) (u : Mat α) (w : List α) (labels : List Nat)
    (fb : α) (rf : Nat) (us : List α) :
    fromParticles fitFns u w labels fb rf us =
      if Gen.StudentSrc.fpShapeTest u.length w.length labels.length then .valueError
      else
        let uniq := Model.Modes.uniqueSorted labels
        match clusterLoop u (w.map fun x => Gen.StudentSrc.fpNorm0K x (Model.Resample.npSum w)) labels fb rf uniq fitFns us with
        | none => .raised
        | some os => .ok ⟨os.map (·.mu), os.map (·.sigma), os.map (·.dof), some uniq⟩ := rfl

theorem C19_src_shapeTest_leaves :
    Gen.StudentSrc.fpShapeTestLeaves = ["L0 = a1.shape[0]", "L1 = a2.shape[0]", "L2 = a3.shape[0]"] ∧
    Gen.StudentSrc.fgShapeTestLeaves = ["L0 = a1.shape[0]", "L1 = a2.shape[0]"] := ⟨rfl, rfl⟩

/-- one pass of `for label in unique_labels`: the per-cluster renormalisation -/
theorem C19_src_clusterLoop_cons (u : Mat α) (wn : List α) (labels : List Nat) (fb : α) (rf : Nat) (lab : Nat)
    (rest : List Nat) (fitFn : Mat α → Option (FitOut α)) (fits : List (Mat α → Option (FitOut α))) (us : List α) :
    clusterLoop u wn labels fb rf (lab :: rest) (fitFn :: fits) us = (do
      let ic := Model.Modes.indicesOf labels lab
      let uc ← gather u ic
      let wc ← gather wn ic
      let (o, us') ← fitOne fitFn fb rf uc (wc.map fun x => Gen.StudentSrc.fpNorm1K x (Model.Resample.npSum wc)) us
      let os ← clusterLoop u wn labels fb rf rest fits us'
      some (o :: os)) := rfl

/-- `resample_factor: int = 4` in both constructors is what `Trainer.run` (which does not pass it) gets -/
theorem C19_src_resampleDefault (fitFns : List (Mat α → Option (FitOut α))) (fitFn : Mat α → Option (FitOut α))
    (d : Nat) (u : Mat α) (w : List α) (labels : List Nat) (cfgFb : α) (us : List α) :
    trainerRun .fitPredict fitFns d u w labels cfgFb us = fromParticles fitFns u w labels cfgFb Gen.StudentSrc.fpResampleDefault us ∧
    trainerRun .predictOnly fitFns d u w labels cfgFb us = fromParticles fitFns u w labels cfgFb Gen.StudentSrc.fpResampleDefault us ∧
    trainerRun .global (fitFn :: fitFns) d u w labels cfgFb us = fromGlobal fitFn u w cfgFb Gen.StudentSrc.fgResampleDefault us :=
  ⟨rfl, rfl, rfl⟩

end Modes

/-! ## the statement skeletons the model was written against

  One row per statement, `path: statement` (`t` / `e` = then / else block, `x0` = first `except` clause), docstrings dropped,
  `print` arguments elided.  What the model takes from each: `fit_mvstud` — the order `i += 1; diffs; try(delta, opt_nu) →
  break; last_nu = nu; nu = new_nu; if nu == inf → return; w; new_Sigma; try(cholesky) → nu = last_nu; break; Sigma; mu`
  (the exits of `Model.Student.loop`: `notPD`/`nuFail` keep `(mu, Sigma, nu)`, `infNu` returns at once, `sigmaNotPD` restores
  the previous `nu`), that `opt_nu` ignores its second argument and returns `inf` or the bisect root, the returned triple;
  the constructors — shape check before anything else, global normalisation, per-label gather → renormalise → resample
  `n·resample_factor` with `p=` the renormalised weights → gather → `fit_mvstud` with its defaults → fallback → collect. -/

def expected_fitSkeleton : List String :=
  ["0: def f0(f0a0, f0a1)",
   "0.0: def f0f0(f0f0a0)",
   "0.0.0: f0f0v0 = (f0f0a0 + v0) / (f0f0a0 + f0a0)",
   "0.0.1: f0f0v1 = -special.psi(f0f0a0 / 2) + np.log(f0f0a0 / 2) + np.sum(np.log(f0f0v0)) / v1 - np.sum(f0f0v0) / v1 + 1 + special.psi((f0f0a0 + v0) / 2) - np.log((f0f0a0 + v0) / 2)",
   "0.0.2: return f0f0v1",
   "0.1: f0v0 = 1000000.0",
   "0.2: if f0f0(f0v0) >= 0",
   "0.2t.0: f0a1 = np.inf",
   "0.2e.0: f0a1 = optimize.bisect(f0f0, 1e-300, f0v0)",
   "0.3: return f0a1",
   "1: a0 = a0.T",
   "2: v0, v1 = a0.shape",
   "3: v2 = np.array([np.median(a0, 1)]).T",
   "4: v3 = np.cov(a0) * (v1 - 1) / v1 + 1 / v1 * np.diag(np.var(a0, axis=1))",
   "5: v4 = 20",
   "6: v5 = 0",
   "7: v6 = 0",
   "8: while np.abs(v5 - v4) > a1 and v6 < a2",
   "8.0: v6 += 1",
   "8.1: v7 = a0 - v2",
   "8.2: try",
   "8.2.0: v8 = np.sum(v7 * np.linalg.solve(v3, v7), 0)",
   "8.2.1: v9 = f0(v8, v4)",
   "8.2x0: except (np.linalg.LinAlgError, ValueError)",
   "8.2x0.0: break",
   "8.3: v5 = v4",
   "8.4: v4 = v9",
   "8.5: if v4 == np.inf",
   "8.5t.0: return (v2.T[0], v3, v4)",
   "8.6: v10 = (v4 + v0) / (v4 + v8)",
   "8.7: v11 = np.dot(v10 * v7, v7.T) / v1",
   "8.8: try",
   "8.8.0: np.linalg.cholesky(v11)",
   "8.8x0: except np.linalg.LinAlgError",
   "8.8x0.0: v4 = v5",
   "8.8x0.1: break",
   "8.9: v3 = v11",
   "8.10: v2 = np.sum(v10 * a0, 1) / sum(v10)",
   "8.11: v2 = np.array([v2]).T",
   "9: if v6 == a2",
   "9t.0: print(...)",
   "9t.1: print(...)",
   "9t.2: print(...)",
   "10: return (v2.T[0], v3, v4)"]

theorem C19_src_fitSkeleton : Gen.StudentSrc.fitSkeleton = expected_fitSkeleton := rfl

def expected_fpSkeleton : List String :=
  ["0: a1 = np.asarray(a1)",
   "1: a2 = np.asarray(a2)",
   "2: a3 = np.asarray(a3)",
   "3: if a1.shape[0] != a2.shape[0] or a1.shape[0] != a3.shape[0]",
   "3t.0: raise ValueError",
   "4: a2 = a2 / np.sum(a2)",
   "5: v0 = []",
   "6: v1 = []",
   "7: v2 = []",
   "8: v3 = np.unique(a3)",
   "9: for v4 in v3",
   "9.0: v5 = np.where(a3 == v4)[0]",
   "9.1: v6 = a1[v5]",
   "9.2: v7 = a2[v5]",
   "9.3: v7 = v7 / np.sum(v7)",
   "9.4: v8 = len(v6)",
   "9.5: v9 = v8 * a5",
   "9.6: v10 = np.random.choice(v8, size=v9, replace=True, p=v7)",
   "9.7: v11 = v6[v10]",
   "9.8: v12, v13, v14 = fit_mvstud(v11)",
   "9.9: if ~np.isfinite(v14)",
   "9.9t.0: v14 = a4",
   "9.10: v0.append(v12)",
   "9.11: v1.append(v13)",
   "9.12: v2.append(v14)",
   "10: return a0(means=np.array(v0), covariances=np.array(v1), degrees_of_freedom=np.array(v2), labels=v3)"]

theorem C19_src_fpSkeleton : Gen.StudentSrc.fpSkeleton = expected_fpSkeleton := rfl

def expected_fgSkeleton : List String :=
  ["0: a1 = np.asarray(a1)",
   "1: a2 = np.asarray(a2)",
   "2: if a1.shape[0] != a2.shape[0]",
   "2t.0: raise ValueError",
   "3: a2 = a2 / np.sum(a2)",
   "4: v0 = a1.shape[0]",
   "5: v1 = v0 * a4",
   "6: v2 = np.random.choice(v0, size=v1, replace=True, p=a2)",
   "7: v3 = a1[v2]",
   "8: v4, v5, v6 = fit_mvstud(v3)",
   "9: if ~np.isfinite(v6)",
   "9t.0: v6 = a3",
   "10: return a0(means=v4.reshape(1, -1), covariances=v5.reshape(1, *v5.shape), degrees_of_freedom=np.array([v6]))"]

theorem C19_src_fgSkeleton : Gen.StudentSrc.fgSkeleton = expected_fgSkeleton := rfl

end Props.C19.Src
