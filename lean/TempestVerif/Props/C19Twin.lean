import TempestVerif.Props.C19Nu
import TempestVerif.Lemmas.GaussJordan
/-
  C19, clause audit — the executable model IS the matrix model.

  `Props/C19.lean` states its theorems about a matrix-level rendering (`loop`, `fit`, Mathlib matrices) of `fit_mvstud` and
  linked ONE iteration of the executable list twin (`Model/Student.lean`, the definitions the driver runs against the Python)
  to it under the hypothesis that the twin's Gauss–Jordan inverse is the inverse.  Here the link is complete and
  unconditional: at `ℝ`, `Model.Student.fitF` (initialisation with the modelled median, the loop with the modelled
  `opt_nu`/bisect, the Gauss–Jordan solve and positive-definiteness test) on the list form of ANY data set with `n ≥ 2`
  returns exactly the list form of the matrix-level trace — `C19_twin_fit`.  Consequently `C19_fitF_wellposed` and
  `C19_fitF_equivariant` are statements about the executed definitions themselves.
-/
namespace Props.C19
open Matrix Model.Student
variable {d n : ℕ}

theorem matOf_eq (M : Matrix (Fin d) (Fin d) ℝ) : matOf M = Lemmas.GaussJordan.matOf M := rfl

/-- list form of a matrix-level state -/
def toL (s : St d) : State ℝ := ⟨vecOf s.mu, matOf s.sigma⟩

/-! ### initialisation -/

theorem mean_ofFn (f : Fin n → ℝ) : mean (List.ofFn f) = (∑ i, f i) / (n : ℝ) := by
  unfold mean
  rw [sc_sum_ofFn]
  simp

theorem center_ofFn (x : Fin n → Fin d → ℝ) (a : Fin d) :
    center (List.ofFn fun i => x i a) = List.ofFn fun i => x i a - colMean x a := by
  unfold center
  rw [mean_ofFn, List.map_ofFn]
  rfl

theorem twin_initSigma (x : Fin n → Fin d → ℝ) (hn : 2 ≤ n) :
    Model.Student.initSigma n (colsOf x) = matOf (initSigma x) := by
  have h1 : ((n - 1 : ℕ) : ℝ) = (n : ℝ) - 1 := by
    rw [Nat.cast_sub (by omega)]; simp
  have hn0 : (n : ℝ) ≠ 0 := by
    have : (2 : ℝ) ≤ n := by exact_mod_cast hn
    linarith
  have hn1 : (n : ℝ) - 1 ≠ 0 := by
    have : (2 : ℝ) ≤ n := by exact_mod_cast hn
    linarith
  unfold Model.Student.initSigma colsOf matOf
  simp only [List.map_ofFn, Function.comp_def, center_ofFn]
  rw [Lemmas.GaussJordan.zipIdx_ofFn, List.map_ofFn]
  congr 1
  funext a
  simp only [Function.comp_apply]
  rw [List.map_ofFn]
  congr 1
  funext b
  simp only [Function.comp_apply, dot_ofFn, ScReal.div_def, ScReal.mul_def, ScReal.add_def, ScReal.ofNat_def,
    ScReal.one_def, ScReal.zero_def, h1]
  simp only [initSigma, covM, varV, of_apply, diagonal_apply]
  by_cases hab : a = b
  · subst hab
    simp only [beq_self_eq_true, if_true]
    have : ∑ i, (x i a - colMean x a) * (x i a - colMean x a) = ∑ i, (x i a - colMean x a) ^ 2 :=
      Finset.sum_congr rfl fun i _ => by ring
    rw [this]
  · have : ¬ (a.val = b.val) := fun h => hab (Fin.ext h)
    simp [hab, this]

theorem mapM_median_colsOf (x : Fin n → Fin d → ℝ) (hn : 0 < n) :
    (colsOf x).mapM median = some (vecOf fun a => medR fun i => x i a) := by
  unfold colsOf vecOf
  rw [Lemmas.GaussJordan.mapM_some_of_forall _ _ (fun col => match median col with | some m => m | none => 0)]
  · rw [List.map_ofFn]
    congr 1
  · intro col hcol
    rw [List.mem_ofFn] at hcol
    obtain ⟨a, rfl⟩ := hcol
    rw [median_ofFn _ hn]

/-- the twin's initial state is the list form of `init medR x` -/
theorem twin_init (x : Fin n → Fin d → ℝ) (hn : 2 ≤ n) :
    Model.Student.init n (colsOf x) = some (toL (init medR x)) := by
  unfold Model.Student.init
  have hall : (colsOf x).all (fun c => c.length == n) = true := by
    rw [List.all_eq_true]
    intro c hc
    unfold colsOf at hc
    rw [List.mem_ofFn] at hc
    obtain ⟨a, rfl⟩ := hc
    simp
  have hlt : ¬ n < 2 := by omega
  simp only [hall, Bool.not_true, Bool.or_false, decide_eq_true_eq, hlt, if_false]
  rw [mapM_median_colsOf x (by omega), twin_initSigma x hn]
  rfl

/-! ### the loop -/

theorem colsOf_length (x : Fin n → Fin d → ℝ) : (colsOf x).length = d := by simp [colsOf]

theorem twin_stateDeltas_pd (x : Fin n → Fin d → ℝ) (s : St d) (hS : s.sigma.PosDef) :
    stateDeltas n (colsOf x) (toL s) = some (List.ofFn (delta x s.mu s.sigma)) := by
  unfold stateDeltas toL
  simp only [matOf_eq, Lemmas.GaussJordan.inv_matOf_posDef _ hS, Option.map_some]
  rw [← matOf_eq, twin_deltas]

theorem twin_stateDeltas_singular (x : Fin n → Fin d → ℝ) (s : St d) (hS : s.sigma.PosSemidef) (hn : ¬ s.sigma.PosDef) :
    stateDeltas n (colsOf x) (toL s) = none := by
  unfold stateDeltas toL
  have : Model.Student.inv (matOf s.sigma) = none := by
    cases h : Model.Student.inv (matOf s.sigma) with
    | none => rfl
    | some M =>
      exfalso
      apply hn
      rw [matOf_eq] at h
      exact (Lemmas.GaussJordan.inv_matOf_psd _ hS).mp (by rw [h]; rfl)
  simp [this]

theorem twin_update_state (x : Fin n → Fin d → ℝ) (s : St d) (ν : ℝ) :
    Model.Student.update n (colsOf x) (diffs (colsOf x) (toL s).mu)
      (weights (colsOf x).length ν (List.ofFn (delta x s.mu s.sigma))) = toL (update x s ν) := by
  rw [colsOf_length, twin_weights]
  unfold toL
  rw [twin_update]
  rfl

theorem update_posSemidef (x : Fin n → Fin d → ℝ) (s : St d) (hS : s.sigma.PosDef) {ν : ℝ} (hν : 0 < ν) :
    (update x s ν).sigma.PosSemidef :=
  sigmaNext_posSemidef x s.mu _ fun i => (wts_pos x s hS hν i).le

/-- **the executable loop is the matrix-level loop** (at `ℝ`, from any state with a positive semidefinite scale matrix):
    same iterates, same returned `ν`; in particular no exception escapes (`loopF` answers `some`) -/
theorem C19_twin_loop (psi : ℝ → ℝ) (tol : ℝ) (x : Fin n → Fin d → ℝ) (k : ℕ) (s : St d)
    (hS : s.sigma.PosSemidef) (ν last : ℝ) :
    ∃ r : Result ℝ, loopF (optNu psi d n) tol n (colsOf x) k (toL s) ν last = some r ∧
      r.iterates = (loop (optNuR psi d n) tol x k s ν last).1.map toL ∧
      r.nu = (loop (optNuR psi d n) tol x k s ν last).2 := by
  induction k generalizing s ν last with
  | zero => exact ⟨_, rfl, by simp [loop], by simp [loop]⟩
  | succ k ih =>
    unfold loopF loop
    have hcond : (Sc.lt tol (Sc.abs (Sc.sub last ν)) = true) ↔ tol < |last - ν| := by
      rw [ScReal.lt_def, ScReal.abs_def, ScReal.sub_def]
    by_cases hc : tol < |last - ν|
    · rw [if_pos (hcond.mpr hc), if_pos hc]
      by_cases hpd : s.sigma.PosDef
      · have hu : IsUnit s.sigma.det := (Matrix.isUnit_iff_isUnit_det _).mp hpd.isUnit
        rw [if_pos hu, twin_stateDeltas_pd x s hpd]
        simp only
        have hraise := C19_optNu_never_raises (func0 psi d n (List.ofFn (delta x s.mu s.sigma)))
        cases ho : optNu psi d n (List.ofFn (delta x s.mu s.sigma)) with
        | raise => exact absurd ho hraise
        | fail =>
          have : optNuR psi d n (delta x s.mu s.sigma) = .fail := by unfold optNuR; rw [ho]
          rw [this]
          exact ⟨_, rfl, by simp, by simp⟩
        | inf =>
          have : optNuR psi d n (delta x s.mu s.sigma) = .inf := by unfold optNuR; rw [ho]
          rw [this]
          exact ⟨_, rfl, by simp, by simp⟩
        | val ν' =>
          have hR : optNuR psi d n (delta x s.mu s.sigma) = .val ν' := by unfold optNuR; rw [ho]
          have hν' : 0 < ν' := (C19_hopt_discharged psi _ ν' hR).1
          rw [hR]
          simp only
          rw [twin_update_state x s ν']
          have hpsd := update_posSemidef x s hpd hν'
          by_cases hp : (update x s ν').sigma.PosDef
          · rw [if_pos hp]
            have hinv : Model.Student.inv (toL (update x s ν')).sigma = some (matOf (update x s ν').sigma⁻¹) := by
              unfold toL; simp only [matOf_eq]; exact Lemmas.GaussJordan.inv_matOf_posDef _ hp
            rw [hinv]
            obtain ⟨r, hr, h1, h2⟩ := ih (update x s ν') hpsd ν' ν
            simp only [hr, Option.map_some]
            exact ⟨_, rfl, by simp [h1], by simp [h2]⟩
          · rw [if_neg hp]
            have hinv : Model.Student.inv (toL (update x s ν')).sigma = none := by
              cases h : Model.Student.inv (toL (update x s ν')).sigma with
              | none => rfl
              | some M =>
                exfalso; apply hp
                unfold toL at h; simp only [matOf_eq] at h
                exact (Lemmas.GaussJordan.inv_matOf_psd _ hpsd).mp (by rw [h]; rfl)
            rw [hinv]
            exact ⟨_, rfl, by simp, by simp⟩
      · have hu : ¬ IsUnit s.sigma.det := fun hu =>
          hpd (hS.posDef_iff_isUnit.mpr ((Matrix.isUnit_iff_isUnit_det _).mpr hu))
        rw [if_neg hu, twin_stateDeltas_singular x s hS hpd]
        exact ⟨_, rfl, by simp, by simp⟩
    · have : ¬ (Sc.lt tol (Sc.abs (Sc.sub last ν)) = true) := fun h => hc (hcond.mp h)
      rw [if_neg this, if_neg hc]
      exact ⟨_, rfl, by simp, by simp⟩

/-- **the executable fit is the matrix-level fit**: for every data set with `n ≥ 2`, every `special.psi`, tolerance and
    iteration limit, `Model.Student.fitF` at `ℝ` on the list form of the data answers (no bad shape, no escaping exception)
    with the list form of the matrix-level trace and the same `ν` -/
theorem C19_twin_fit (psi : ℝ → ℝ) (tol : ℝ) (maxIter : ℕ) (x : Fin n → Fin d → ℝ) (hn : 2 ≤ n) :
    ∃ r : Result ℝ, fitF psi tol maxIter n (colsOf x) = some (some r) ∧
      r.iterates = (fitTrace (optNuR psi d n) medR tol maxIter x).1.map toL ∧
      r.nu = (fitTrace (optNuR psi d n) medR tol maxIter x).2 := by
  unfold fitF fitWith fitTrace
  rw [twin_init x hn, colsOf_length]
  simp only [Option.map_some, ScReal.ofNat_def, ScReal.zero_def]
  obtain ⟨r, hr, h1, h2⟩ := C19_twin_loop psi tol x maxIter (init medR x) (initSigma_posSemidef x hn) 20 0
  refine ⟨r, ?_, h1, h2⟩
  have e : ((20 : ℕ) : ℝ) = 20 := by norm_num
  rw [e]
  simpa using congrArg some hr

/-! ### the property's clauses, stated of the executable definitions -/

/-- **well-posedness of the executed model.**  For every data set with `n ≥ 2` (list form `colsOf x`), every `special.psi`,
    tolerance and iteration limit, `fitF` returns a result whose iterates are the list forms of matrix states `T` with:
    location inside the bounding box, symmetric positive semidefinite scale — positive definite for non-degenerate data —
    and a returned `ν` that is `∞` (`none`) or in `(0, 1e6]` -/
theorem C19_fitF_wellposed (psi : ℝ → ℝ) (tol : ℝ) (maxIter : ℕ) (x : Fin n → Fin d → ℝ) (hn : 2 ≤ n) :
    ∃ (r : Result ℝ) (T : List (St d)), fitF psi tol maxIter n (colsOf x) = some (some r) ∧
      r.iterates = T.map toL ∧ T ≠ [] ∧
      (∀ s ∈ T, InBox x s.mu ∧ s.sigma.IsSymm ∧ s.sigma.PosSemidef) ∧
      (NonDegenerate x → ∀ s ∈ T, s.sigma.PosDef) ∧
      (∀ ν, r.nu = some ν → 0 < ν ∧ ν ≤ 1000000) := by
  obtain ⟨r, hr, h1, h2⟩ := C19_twin_fit psi tol maxIter x hn
  have hw := C19_fit_wellposed_modelled psi tol maxIter x hn
  refine ⟨r, _, hr, h1, loop_ne_nil _ _ _ _ _ _ _, hw.1, hw.2.2.2.2, ?_⟩
  intro ν hν
  rw [h2] at hν
  exact C19_fit_nu_range_modelled psi tol maxIter x ν hν

/-- **equivariance of the executed model**: coordinate permutation × non-zero per-coordinate scalings × translation of the
    data transform every iterate of `fitF` as `(A μ + b, A Σ Aᵀ)` and leave `ν` unchanged -/
theorem C19_fitF_equivariant (psi : ℝ → ℝ) (tol : ℝ) (maxIter : ℕ) (x : Fin n → Fin d → ℝ) (hn : 2 ≤ n)
    (σ : Equiv.Perm (Fin d)) (s b : Fin d → ℝ) (hs : ∀ a, s a ≠ 0) :
    ∃ (r r' : Result ℝ) (T : List (St d)),
      fitF psi tol maxIter n (colsOf x) = some (some r) ∧
      fitF psi tol maxIter n (colsOf (aff (mono σ s) b x)) = some (some r') ∧
      r.iterates = T.map toL ∧ r'.iterates = (T.map (St.map (mono σ s) b)).map toL ∧ r'.nu = r.nu := by
  obtain ⟨r, hr, h1, h2⟩ := C19_twin_fit psi tol maxIter x hn
  obtain ⟨r', hr', h1', h2'⟩ := C19_twin_fit psi tol maxIter (aff (mono σ s) b x) hn
  have he := (C19_equivariant_modelled psi tol maxIter x hn σ s b hs).1
  refine ⟨r, r', _, hr, hr', h1, ?_, ?_⟩
  · rw [h1', he]
  · rw [h2', h2, he]

/-! ### non-vacuity -/

/-- the two-point data set: the executable fit answers, with `ν ∈ (0, 1e6]` or `∞`, for every `psi`, tolerance, limit -/
example (psi : ℝ → ℝ) (tol : ℝ) (k : ℕ) :
    ∃ r : Result ℝ, fitF psi tol k 2 (colsOf exX) = some (some r) ∧ ∀ ν, r.nu = some ν → 0 < ν ∧ ν ≤ 1000000 := by
  obtain ⟨r, T, h1, _, _, _, _, h6⟩ := C19_fitF_wellposed psi tol k exX le_rfl
  exact ⟨r, h1, h6⟩

/-- the degenerate data set (one point twice): the executable fit still answers — nothing escapes — and returns the
    initial state with `ν = 20` -/
example (psi : ℝ → ℝ) (tol : ℝ) (k : ℕ) (hu : ¬ IsUnit (initSigma exD).det) :
    ∃ r : Result ℝ, fitF psi tol k 2 (colsOf exD) = some (some r) ∧ r.iterates = [toL (init medR exD)] ∧ r.nu = some 20 := by
  obtain ⟨r, hr, h1, h2⟩ := C19_twin_fit psi tol k exD le_rfl
  have := (fit_singular (optNuR psi 1 2) medR tol k exD hu).1
  rw [this] at h1 h2
  exact ⟨r, hr, by simpa using h1, by simpa using h2⟩

/-- a swap of the two coordinates with scalings `2` and `-3` is covered by `C19_fitF_equivariant` -/
example (psi : ℝ → ℝ) (tol : ℝ) (k : ℕ) (x : Fin 5 → Fin 2 → ℝ) (b : Fin 2 → ℝ) :
    ∃ (r r' : Result ℝ) (T : List (St 2)),
      fitF psi tol k 5 (colsOf x) = some (some r) ∧
      fitF psi tol k 5 (colsOf (aff (mono (Equiv.swap 0 1) ![2, -3]) b x)) = some (some r') ∧
      r.iterates = T.map toL ∧ r'.iterates = (T.map (St.map (mono (Equiv.swap 0 1) ![2, -3]) b)).map toL ∧ r'.nu = r.nu :=
  C19_fitF_equivariant psi tol k x (by norm_num) _ _ b (by intro a; fin_cases a <;> norm_num)

end Props.C19
