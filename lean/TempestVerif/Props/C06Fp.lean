import TempestVerif.Props.C06Loop
/-
  C06, second pass (1): the count law of `systematic_resample` for ROUNDED (floating-point) arithmetic.

  The same model definitions (`Model.Resample`) are executed in a "standard model" of rounded arithmetic:
  every `+ - * /` is followed by a rounding `rnd` with relative error `eps`, monotone and idempotent
  (IEEE round-to-nearest without over/underflow satisfies this with `eps = 2^-53`); comparisons are exact.

    C06_fp_count_bound        |count_j − n·v_j| < 1 + n·(|S − 1| + 6·eps + 4·m·eps·S)     (v = effective weights, S = Σv exact)
    C06_fp_zero_weight_never  a zero-weight particle is never selected, at ANY index (some weight positive; cap = lastPositive,
                              /repo 5a51476)
    C06_fp_renorm_rep         the effective weights are floats when the inputs are
-/
namespace Props.C06.Fp
open Model.Resample Lemmas.CeilComb

/-- standard model of rounded arithmetic: relative error `eps`, monotone, idempotent -/
structure Rnd where
  rnd : ℝ → ℝ
  eps : ℝ
  eps_nonneg : 0 ≤ eps
  err : ∀ x, |rnd x - x| ≤ eps * |x|
  mono : Monotone rnd
  idem : ∀ x, rnd (rnd x) = rnd x

/-- reals whose arithmetic results are rounded by `R` (a type synonym, so that instance search does not pick the
    exact instance `instScReal`) -/
def Fl (_R : Rnd) : Type := ℝ

/-- the real number behind a rounded scalar -/
def toR {R : Rnd} (x : Fl R) : ℝ := x
/-- a real number used as a rounded scalar (an input; NOT rounded) -/
def ofR {R : Rnd} (x : ℝ) : Fl R := x
/-- a list of rounded scalars as a list of reals -/
def toRL {R : Rnd} (l : List (Fl R)) : List ℝ := l
/-- the exact real sum of a list of rounded scalars -/
noncomputable def rsum {R : Rnd} (l : List (Fl R)) : ℝ := (toRL l).sum

open Classical in
noncomputable instance instScFl (R : Rnd) : Sc (Fl R) where
  add a b := ofR (R.rnd (toR a + toR b))
  sub a b := ofR (R.rnd (toR a - toR b))
  mul a b := ofR (R.rnd (toR a * toR b))
  div a b := ofR (R.rnd (toR a / toR b))
  neg a := ofR (-toR a)
  ofNat n := ofR (n : ℝ)
  lit m e := ofR (R.rnd ((m : ℝ) / (10 : ℝ) ^ e))
  lt a b := decide (toR a < toR b)
  le a b := decide (toR a ≤ toR b)
  floor a := ofR (⌊toR a⌋ : ℝ)
  isEven n := decide (⌊toR n⌋ % 2 = 0)

@[simp] theorem toR_ofR {R : Rnd} (x : ℝ) : toR (ofR x : Fl R) = x := rfl
@[simp] theorem ofR_toR {R : Rnd} (x : Fl R) : ofR (toR x) = x := rfl
theorem toR_inj {R : Rnd} {a b : Fl R} (h : toR a = toR b) : a = b := h

@[simp] theorem add_def {R : Rnd} (a b : Fl R) : toR (Sc.add a b) = R.rnd (toR a + toR b) := rfl
@[simp] theorem sub_def {R : Rnd} (a b : Fl R) : toR (Sc.sub a b) = R.rnd (toR a - toR b) := rfl
@[simp] theorem mul_def {R : Rnd} (a b : Fl R) : toR (Sc.mul a b) = R.rnd (toR a * toR b) := rfl
@[simp] theorem div_def {R : Rnd} (a b : Fl R) : toR (Sc.div a b) = R.rnd (toR a / toR b) := rfl
@[simp] theorem ofNat_def {R : Rnd} (n : ℕ) : toR (Sc.ofNat n : Fl R) = (n : ℝ) := rfl
theorem ge_true_iff {R : Rnd} (a b : Fl R) : Sc.ge a b = true ↔ toR b ≤ toR a := by
  show decide (toR b ≤ toR a) = true ↔ _
  exact decide_eq_true_iff
theorem ge_false_iff {R : Rnd} (a b : Fl R) : Sc.ge a b = false ↔ toR a < toR b := by
  show decide (toR b ≤ toR a) = false ↔ _
  rw [decide_eq_false_iff_not, not_le]

theorem ge_decide {R : Rnd} (a b : Fl R) : Sc.ge a b = decide (toR b ≤ toR a) := rfl
theorem gt_decide {R : Rnd} (a b : Fl R) : Sc.gt a b = decide (toR b < toR a) := rfl
theorem lt_decide {R : Rnd} (a b : Fl R) : Sc.lt a b = decide (toR a < toR b) := rfl
theorem neg_def {R : Rnd} (a : Fl R) : toR (Sc.neg a) = -toR a := rfl
theorem one_def {R : Rnd} : toR (Sc.one : Fl R) = 1 := by show ((1 : ℕ) : ℝ) = 1; simp
theorem zero_def {R : Rnd} : toR (Sc.zero : Fl R) = 0 := by show ((0 : ℕ) : ℝ) = 0; simp
/-- the comparison `weights > 0` is exact -/
theorem gt_zero_iff {R : Rnd} (x : Fl R) : Sc.gt x Sc.zero = true ↔ 0 < toR x := by
  rw [gt_decide, zero_def]; exact decide_eq_true_iff

theorem toRL_length {R : Rnd} (l : List (Fl R)) : (toRL l).length = l.length := rfl
theorem toRL_getElem {R : Rnd} (l : List (Fl R)) (k : ℕ) (h : k < l.length) :
    (toRL l)[k]'(by rw [toRL_length]; exact h) = toR l[k] := rfl
theorem mem_toRL {R : Rnd} (l : List (Fl R)) (x : ℝ) : x ∈ toRL l ↔ ∃ y ∈ l, toR y = x := by
  constructor
  · intro h; exact ⟨ofR x, h, rfl⟩
  · rintro ⟨y, hy, rfl⟩; exact hy

/-- the cap `j_max` computed at `Fl R` is the cap of the real images (comparisons are exact) -/
theorem lastPos?_toRL {R : Rnd} (v : List (Fl R)) : lastPos? (toRL v) = lastPos? v := by
  induction v with
  | nil => rfl
  | cons x xs ih =>
    show lastPos? ((toR x) :: toRL xs) = lastPos? (x :: xs)
    simp only [lastPos?]
    rw [ih]
    have e : Sc.gt (toR x) (Sc.zero : ℝ) = Sc.gt x (Sc.zero : Fl R) := by
      rw [gt_decide, zero_def]
      show decide ((Sc.zero : ℝ) < toR x) = _
      rw [ScReal.zero_def]
    rw [e]

theorem lastPositive_toRL {R : Rnd} (v : List (Fl R)) : lastPositive (toRL v) = lastPositive v := by
  unfold lastPositive
  rw [lastPos?_toRL, toRL_length]

/-- when some weight is positive, the cap has positive weight -/
theorem lastPositive_pos {R : Rnd} (v : List (Fl R)) (hpos : ∃ x ∈ v, 0 < toR x) :
    ∃ h : lastPositive v < v.length, 0 < toR v[lastPositive v] := by
  obtain ⟨x, hx, hx0⟩ := hpos
  cases hl : lastPos? v with
  | none =>
    have := lastPos?_none v hl x hx
    rw [(gt_zero_iff x).mpr hx0] at this
    cases this
  | some k =>
    obtain ⟨h1, ⟨y, hy, hy0⟩, _⟩ := lastPos?_some v k hl
    have e : lastPositive v = k := by unfold lastPositive; rw [hl]; rfl
    rw [List.getElem?_eq_getElem h1] at hy
    injection hy with hy
    subst hy
    simp only [e]
    exact ⟨h1, (gt_zero_iff _).mp hy0⟩

/-! ### consequences of the rounding rules -/

theorem Rnd.rnd_zero (R : Rnd) : R.rnd 0 = 0 := by
  have h := R.err 0
  rw [abs_zero, mul_zero, sub_zero] at h
  exact abs_nonpos_iff.mp h

theorem Rnd.rnd_nonneg (R : Rnd) {x : ℝ} (hx : 0 ≤ x) : 0 ≤ R.rnd x := by
  have := R.mono hx
  rwa [R.rnd_zero] at this

theorem Rnd.err_nonneg (R : Rnd) {x : ℝ} (hx : 0 ≤ x) : |R.rnd x - x| ≤ R.eps * x := by
  have := R.err x
  rwa [abs_of_nonneg hx] at this


/-! ### positions -/

/-- `positions[i]` in rounded arithmetic -/
noncomputable def posR (R : Rnd) (n : ℕ) (u0 : ℝ) (i : ℕ) : ℝ := R.rnd (R.rnd (u0 + i) / n)

theorem position_fl {R : Rnd} (n : ℕ) (u0 : Fl R) (i : ℕ) :
    toR (position n u0 i) = posR R n (toR u0) i := rfl

theorem posR_nonneg (R : Rnd) (n : ℕ) (u0 : ℝ) (h0 : 0 ≤ u0) (i : ℕ) : 0 ≤ posR R n u0 i := by
  unfold posR
  apply R.rnd_nonneg
  apply div_nonneg _ (Nat.cast_nonneg n)
  apply R.rnd_nonneg
  positivity

theorem posR_mono (R : Rnd) (n : ℕ) (u0 : ℝ) {a b : ℕ} (h : a ≤ b) : posR R n u0 a ≤ posR R n u0 b := by
  unfold posR
  apply R.mono
  apply div_le_div_of_nonneg_right _ (Nat.cast_nonneg n)
  apply R.mono
  have : (a : ℝ) ≤ b := by exact_mod_cast h
  linarith

/-- a rounded position is within `3·eps` of the exact one -/
theorem posR_near (R : Rnd) (heps : R.eps ≤ 1 / 4) (n : ℕ) (u0 : ℝ) (h0 : 0 ≤ u0) (h1 : u0 < 1) (i : ℕ)
    (hi : i < n) : |posR R n u0 i - (u0 + i) / n| ≤ 3 * R.eps := by
  have he := R.eps_nonneg
  have hin : (i : ℝ) + 1 ≤ n := by exact_mod_cast hi
  have hnpos : (0 : ℝ) < n := by linarith [Nat.cast_nonneg (α := ℝ) i]
  set t : ℝ := u0 + i with ht
  have ht0 : 0 ≤ t := by positivity
  set q : ℝ := t / n with hq
  have hq0 : 0 ≤ q := div_nonneg ht0 hnpos.le
  have hq1 : q ≤ 1 := by rw [hq, div_le_one hnpos]; linarith
  set a : ℝ := R.rnd t / n with ha
  have ha0 : 0 ≤ a := div_nonneg (R.rnd_nonneg ht0) hnpos.le
  have h1' : |a - q| ≤ R.eps * q := by
    have e : a - q = (R.rnd t - t) / n := by rw [ha, hq]; ring
    rw [e, abs_div, abs_of_pos hnpos, hq, ← mul_div_assoc]
    exact div_le_div_of_nonneg_right (R.err_nonneg ht0) hnpos.le
  have h2 : |R.rnd a - a| ≤ R.eps * a := R.err_nonneg ha0
  have hq' : R.eps * q ≤ R.eps := mul_le_of_le_one_right he hq1
  have haq := abs_le.mp h1'
  have ha1 : a ≤ 5 / 4 := by linarith [haq.2]
  have h3 : R.eps * a ≤ R.eps * (5 / 4) := mul_le_mul_of_nonneg_left ha1 he
  have h2' := abs_le.mp h2
  show |R.rnd a - q| ≤ 3 * R.eps
  rw [abs_le]
  constructor <;> linarith [haq.1, haq.2, h2'.1, h2'.2]

/-! ### running sums -/

/-- `C k` is the loop's rounded running sum at index `k` for the (real images of the) effective weights `v` -/
structure Sums (R : Rnd) (v : List ℝ) (C : ℕ → ℝ) : Prop where
  zero : ∀ h : 0 < v.length, C 0 = v[0]
  succ : ∀ k (h : k + 1 < v.length), C (k + 1) = R.rnd (C k + v[k + 1])
  nonneg : ∀ x ∈ v, 0 ≤ x
  rep : ∀ x ∈ v, R.rnd x = x


/-- every running sum is a float -/
theorem Sums.C_rep {R : Rnd} {v : List ℝ} {C : ℕ → ℝ} (H : Sums R v C) (k : ℕ) (hk : k < v.length) : R.rnd (C k) = C k := by
  cases k with
  | zero => rw [H.zero hk]; exact H.rep _ (List.getElem_mem hk)
  | succ k => rw [H.succ k hk, R.idem]

theorem Sums.C_nonneg {R : Rnd} {v : List ℝ} {C : ℕ → ℝ} (H : Sums R v C) (k : ℕ) (hk : k < v.length) : 0 ≤ C k := by
  induction k with
  | zero => rw [H.zero hk]; exact H.nonneg _ (List.getElem_mem hk)
  | succ k ih =>
    rw [H.succ k hk]
    exact R.rnd_nonneg (add_nonneg (ih (by omega)) (H.nonneg _ (List.getElem_mem hk)))

theorem Sums.C_succ_le {R : Rnd} {v : List ℝ} {C : ℕ → ℝ} (H : Sums R v C) (k : ℕ) (hk : k + 1 < v.length) : C k ≤ C (k + 1) := by
  rw [H.succ k hk]
  calc C k = R.rnd (C k) := (H.C_rep k (by omega)).symm
    _ ≤ R.rnd (C k + v[k + 1]) := R.mono (by have := H.nonneg _ (List.getElem_mem hk); linarith)

theorem Sums.C_mono {R : Rnd} {v : List ℝ} {C : ℕ → ℝ} (H : Sums R v C) (a b : ℕ) (hab : a ≤ b) (hb : b < v.length) : C a ≤ C b := by
  induction b with
  | zero => have : a = 0 := by omega
            subst this; exact le_refl _
  | succ b ih =>
    rcases Nat.lt_or_ge a (b + 1) with h | h
    · exact le_trans (ih (by omega) (by omega)) (H.C_succ_le b hb)
    · have : a = b + 1 := by omega
      subst this; exact le_refl _

theorem Sums.sum_nonneg {R : Rnd} {v : List ℝ} {C : ℕ → ℝ} (H : Sums R v C) : 0 ≤ v.sum := List.sum_nonneg H.nonneg

/-- accumulated rounding error of the running sum: `|C̃_k − C_k| ≤ 2·k·eps·S` as long as `k·eps ≤ 1/2` -/
theorem Sums.C_err {R : Rnd} {v : List ℝ} {C : ℕ → ℝ} (H : Sums R v C) (hm : (v.length : ℝ) * R.eps ≤ 1 / 2) (k : ℕ) (hk : k < v.length) :
    |C k - P v (k + 1)| ≤ 2 * k * R.eps * v.sum := by
  have he := R.eps_nonneg
  have hS := H.sum_nonneg
  induction k with
  | zero =>
    rw [H.zero hk, P_succ v 0 hk, P_zero]
    simp
  | succ k ih =>
    have ih' := abs_le.mp (ih (by omega))
    have hx0 : 0 ≤ C k + v[k + 1] := add_nonneg (H.C_nonneg k (by omega)) (H.nonneg _ (List.getElem_mem hk))
    have herr := abs_le.mp (R.err_nonneg hx0)
    have hP : P v (k + 1 + 1) = P v (k + 1) + v[k + 1] := P_succ v (k + 1) hk
    have hPS : P v (k + 1 + 1) ≤ v.sum := P_le_sum v H.nonneg _
    have hkm : (k : ℝ) + 1 ≤ v.length := by exact_mod_cast hk.le
    have hB : 2 * (k : ℝ) * R.eps ≤ 1 := by nlinarith
    have hA : 0 ≤ R.eps * v.sum := mul_nonneg he hS
    have hAB : R.eps * v.sum * (2 * (k : ℝ) * R.eps) ≤ R.eps * v.sum := mul_le_of_le_one_right hA hB
    have hx1 : C k + v[k + 1] ≤ v.sum + 2 * k * R.eps * v.sum := by linarith [ih'.2]
    have hex : R.eps * (C k + v[k + 1]) ≤ R.eps * v.sum + R.eps * v.sum * (2 * (k : ℝ) * R.eps) := by
      have := mul_le_mul_of_nonneg_left hx1 he
      linarith
    rw [H.succ k hk, abs_le]
    push_cast
    constructor <;> nlinarith [herr.1, herr.2, ih'.1, ih'.2]

/-- uniform version: every running sum is within `η = 2·m·eps·S` of the exact cumulative sum -/
theorem Sums.C_err_unif {R : Rnd} {v : List ℝ} {C : ℕ → ℝ} (H : Sums R v C) (hm : (v.length : ℝ) * R.eps ≤ 1 / 2) (k : ℕ) (hk : k < v.length) :
    |C k - P v (k + 1)| ≤ 2 * v.length * R.eps * v.sum := by
  refine le_trans (H.C_err hm k hk) ?_
  have hkm : (k : ℝ) ≤ v.length := by exact_mod_cast hk.le
  have hA : 0 ≤ R.eps * v.sum := mul_nonneg R.eps_nonneg H.sum_nonneg
  nlinarith


/-- the model's `cum` at `Fl R` satisfies the recurrence -/
theorem cum_succ_fl {R : Rnd} (v : List (Fl R)) (c0 : Fl R) (k : ℕ) (hk : k + 1 < v.length) :
    toR (cum v c0 (k + 1)) = R.rnd (toR (cum v c0 k) + toR v[k + 1]) := by
  have hget : v[k + 1]? = some v[k + 1] := List.getElem?_eq_getElem hk
  have hc : cum v c0 (k + 1) = Sc.add (cum v c0 k) v[k + 1] := by simp [cum, hget]
  rw [hc]; rfl

theorem sums_fl {R : Rnd} (c0 : Fl R) (t : List (Fl R)) (hv0 : ∀ x ∈ c0 :: t, 0 ≤ toR x)
    (hrep : ∀ x ∈ c0 :: t, R.rnd (toR x) = toR x) :
    Sums R (toRL (c0 :: t)) (fun k => toR (cum (c0 :: t) c0 k)) where
  zero := fun _ => rfl
  succ := fun k h => cum_succ_fl (c0 :: t) c0 k h
  nonneg := fun x hx => by
    obtain ⟨y, hy, rfl⟩ := (mem_toRL _ x).mp hx
    exact hv0 y hy
  rep := fun x hx => by
    obtain ⟨y, hy, rfl⟩ := (mem_toRL _ x).mp hx
    exact hrep y hy

/-! ### from the loop's own comparisons to a covering specification -/

/-- `r` is the least index whose running sum `c r` exceeds `p`, capped at `jmax` -/
def CoverF (c : ℕ → ℝ) (jmax : ℕ) (p : ℝ) (r : ℕ) : Prop :=
  r ≤ jmax ∧ (r < jmax → p < c r) ∧ (∀ k < r, c k ≤ p)

theorem loop_cover {R : Rnd} (c : ℕ → Fl R) (jmax : ℕ) (pos : ℕ → Fl R) (is : List ℕ) (j : ℕ) (rs : List ℕ)
    (hpos : is.Pairwise (fun a b => toR (pos a) ≤ toR (pos b)))
    (hinv : ∀ i ∈ is, ∀ k < j, toR (c k) ≤ toR (pos i))
    (h : LoopSpec c jmax pos is j rs) :
    List.Forall₂ (fun i r => CoverF (fun k => toR (c k)) jmax (toR (pos i)) r) is rs := by
  induction is generalizing j rs with
  | nil =>
    cases rs with
    | nil => exact .nil
    | cons r rs => simp [LoopSpec] at h
  | cons i is ih =>
    cases rs with
    | nil => simp [LoopSpec] at h
    | cons r rs =>
      simp only [LoopSpec] at h
      obtain ⟨_, h2, h3, h4, h5⟩ := h
      rw [List.pairwise_cons] at hpos
      have hall : ∀ k < r, toR (c k) ≤ toR (pos i) := by
        intro k hk
        by_cases hkj : k < j
        · exact hinv i (by simp) k hkj
        · exact (ge_true_iff _ _).mp (h3 k (by omega) hk)
      refine .cons ⟨h2, fun hr => (ge_false_iff _ _).mp (h4 hr), hall⟩ (ih r rs hpos.2 ?_ h5)
      intro i' hi' k hk
      exact le_trans (hall k hk) (hpos.1 i' hi')

/-! ### cells in rounded arithmetic -/

/-- cell boundaries of the rounded run: `0`, then the running sums, then `top` (any number above every position) -/
noncomputable def edgeF (C : ℕ → ℝ) (m : ℕ) (top : ℝ) (k : ℕ) : ℝ :=
  if k = 0 then 0 else if k < m then C (k - 1) else top

theorem cellF_iff (C : ℕ → ℝ) (m : ℕ) (top p : ℝ) (hp0 : 0 ≤ p) (hp1 : p < top)
    (hmono : ∀ a b, a ≤ b → b < m → C a ≤ C b) (r j : ℕ) (hc : CoverF C (m - 1) p r) :
    r = j ↔ (edgeF C m top j ≤ p ∧ p < edgeF C m top (j + 1)) := by
  obtain ⟨hc1, hc2, hc3⟩ := hc
  constructor
  · rintro rfl
    constructor
    · unfold edgeF
      split
      · exact hp0
      · rename_i h0
        split
        · exact hc3 (r - 1) (by omega)
        · omega
    · unfold edgeF
      rw [if_neg (by omega)]
      split
      · rename_i h
        have := hc2 (by omega)
        simpa using this
      · exact hp1
  · rintro ⟨h1, h2⟩
    rcases lt_trichotomy r j with hlt | heq | hgt
    · exfalso
      unfold edgeF at h1
      rw [if_neg (by omega)] at h1
      split at h1
      · rename_i hjm
        have h3 := hc2 (by omega)
        have := hmono r (j - 1) (by omega) (by omega)
        linarith
      · linarith
    · exact heq
    · exfalso
      have := hc3 j hgt
      unfold edgeF at h2
      rw [if_neg (by omega), if_pos (by omega)] at h2
      simp only [Nat.add_sub_cancel] at h2
      linarith

/-! ### counting comb points in an interval (no model) -/

/-- clamp to the range `[0,1]` of the comb -/
noncomputable def clamp (z : ℝ) : ℝ := max 0 (min z 1)

theorem clamp_nonneg (z : ℝ) : 0 ≤ clamp z := le_max_left _ _
theorem clamp_le_one (z : ℝ) : clamp z ≤ 1 := max_le zero_le_one (min_le_right _ _)
theorem clamp_of_mem {z : ℝ} (h0 : 0 ≤ z) (h1 : z ≤ 1) : clamp z = z := by
  unfold clamp; rw [min_eq_left h1, max_eq_right h0]
theorem clamp_of_one_le {z : ℝ} (h1 : 1 ≤ z) : clamp z = 1 := by
  unfold clamp; rw [min_eq_right h1, max_eq_right zero_le_one]
theorem clamp_mono {a b : ℝ} (h : a ≤ b) : clamp a ≤ clamp b :=
  max_le_max (le_refl _) (min_le_min h (le_refl _))
theorem clamp_add_le (a d : ℝ) (hd : 0 ≤ d) : clamp (a + d) ≤ clamp a + d := by
  unfold clamp
  apply max_le
  · have := le_max_left 0 (min a 1); linarith
  · have h1 : min (a + d) 1 ≤ min a 1 + d := by
      rcases le_total a 1 with h | h
      · rw [min_eq_left h]; exact le_trans (min_le_left _ _) (le_refl _)
      · rw [min_eq_right h]; exact le_trans (min_le_right _ _) (by linarith)
    have := le_max_right 0 (min a 1); linarith
/-- `clamp` is 1-Lipschitz -/
theorem clamp_lip (a b d : ℝ) (h : |a - b| ≤ d) : |clamp a - clamp b| ≤ d := by
  have hab := abs_le.mp h
  have hd : 0 ≤ d := le_trans (abs_nonneg _) h
  have h1 : clamp a ≤ clamp b + d := le_trans (clamp_mono (by linarith [hab.2])) (clamp_add_le b d hd)
  have h2 : clamp b ≤ clamp a + d := le_trans (clamp_mono (by linarith [hab.1])) (clamp_add_le a d hd)
  rw [abs_le]; constructor <;> linarith

open Classical in
/-- comb points in `[x, y)` for `0 ≤ x ≤ y ≤ 1` -/
theorem comb_count (n : ℕ) (hn : 1 ≤ n) (u0 : ℝ) (h0 : 0 ≤ u0) (h1 : u0 < 1) (x y : ℝ)
    (hx : 0 ≤ x) (hxy : x ≤ y) (hy : y ≤ 1) :
    (((List.range n).countP (fun (i : ℕ) => decide (x ≤ (u0 + i) / n ∧ (u0 + i) / n < y)) : ℕ) : ℤ)
      = ⌈n * y - u0⌉ - ⌈n * x - u0⌉ := by
  have hnpos : (0 : ℝ) < n := by exact_mod_cast hn
  have hA : 0 ≤ ⌈n * x - u0⌉ := by
    have : ((-1 : ℤ) : ℝ) < n * x - u0 := by
      push_cast; have := mul_nonneg hnpos.le hx; linarith
    have := Int.lt_ceil.mpr this; omega
  have hAB : ⌈n * x - u0⌉ ≤ ⌈n * y - u0⌉ :=
    Int.ceil_le_ceil (by have := mul_le_mul_of_nonneg_left hxy hnpos.le; linarith)
  have hle : ∀ z, z ≤ 1 → ⌈n * z - u0⌉ ≤ (n : ℤ) := by
    intro z hz
    rw [Int.ceil_le]
    have := mul_le_mul_of_nonneg_left hz hnpos.le
    push_cast; linarith
  have hcount := countP_range_Ico _ _ hA hAB n
  rw [min_eq_left (hle _ hy), min_eq_left (hle _ (le_trans hxy hy))] at hcount
  rw [← hcount]
  congr 1
  apply List.countP_congr
  intro i _
  simp only [decide_eq_true_eq]
  rw [Int.ceil_le, Int.lt_ceil, le_div_iff₀ hnpos, div_lt_iff₀ hnpos]
  push_cast
  constructor
  · rintro ⟨a, b⟩; constructor <;> nlinarith
  · rintro ⟨a, b⟩; constructor <;> nlinarith

theorem comb_mem_clamp (n : ℕ) (hn : 1 ≤ n) (u0 : ℝ) (h0 : 0 ≤ u0) (h1 : u0 < 1) (x y : ℝ) (i : ℕ) (hi : i < n) :
    (x ≤ (u0 + i) / n ∧ (u0 + i) / n < y) ↔ (clamp x ≤ (u0 + i) / n ∧ (u0 + i) / n < clamp y) := by
  have hnpos : (0 : ℝ) < n := by exact_mod_cast hn
  have hin : (i : ℝ) + 1 ≤ n := by exact_mod_cast hi
  have hq0 : 0 ≤ (u0 + i) / n := div_nonneg (by positivity) hnpos.le
  have hq1 : (u0 + i) / n < 1 := by rw [div_lt_one hnpos]; linarith
  generalize (u0 + i) / n = q at hq0 hq1
  unfold clamp
  constructor
  · rintro ⟨a, b⟩
    refine ⟨max_le hq0 (le_trans (min_le_left _ _) a), lt_of_lt_of_le (lt_min b hq1) (le_max_right _ _)⟩
  · rintro ⟨a, b⟩
    constructor
    · have h2 : min x 1 ≤ q := le_trans (le_max_right _ _) a
      rcases min_le_iff.mp h2 with h | h
      · exact h
      · linarith
    · rcases lt_max_iff.mp b with h | h
      · linarith
      · exact lt_of_lt_of_le h (min_le_left _ _)

open Classical in
/-- number of comb points in `[x, y)`, any `x`, `y`: within 1 of `n·(clamp y − clamp x)` (or 0 when that is negative) -/
theorem comb_count_near (n : ℕ) (hn : 1 ≤ n) (u0 : ℝ) (h0 : 0 ≤ u0) (h1 : u0 < 1) (x y : ℝ) :
    (((List.range n).countP (fun (i : ℕ) => decide (x ≤ (u0 + i) / n ∧ (u0 + i) / n < y)) : ℕ) : ℝ)
        < 1 + max 0 (n * (clamp y - clamp x)) ∧
    n * (clamp y - clamp x) - 1 <
      (((List.range n).countP (fun (i : ℕ) => decide (x ≤ (u0 + i) / n ∧ (u0 + i) / n < y)) : ℕ) : ℝ) := by
  have hnpos : (0 : ℝ) < n := by exact_mod_cast hn
  have e : (List.range n).countP (fun (i : ℕ) => decide (x ≤ (u0 + i) / n ∧ (u0 + i) / n < y))
      = (List.range n).countP (fun (i : ℕ) => decide (clamp x ≤ (u0 + i) / n ∧ (u0 + i) / n < clamp y)) := by
    apply List.countP_congr
    intro i hi
    simp only [decide_eq_true_eq]
    exact comb_mem_clamp n hn u0 h0 h1 x y i (List.mem_range.mp hi)
  rw [e]
  rcases le_or_gt (clamp x) (clamp y) with hxy | hxy
  · have hc := comb_count n hn u0 h0 h1 (clamp x) (clamp y) (clamp_nonneg x) hxy (clamp_le_one y)
    have hnear := abs_lt.mp (ceil_sub_ceil_near (n * clamp x - u0) (n * clamp y - u0))
    have hcr : (((List.range n).countP
        (fun (i : ℕ) => decide (clamp x ≤ (u0 + i) / n ∧ (u0 + i) / n < clamp y)) : ℕ) : ℝ)
        = ((⌈n * clamp y - u0⌉ - ⌈n * clamp x - u0⌉ : ℤ) : ℝ) := by
      rw [← hc]; push_cast; rfl
    rw [hcr]
    have hm := le_max_right 0 (n * (clamp y - clamp x))
    constructor <;> linarith [hnear.1, hnear.2]
  · have hz : (List.range n).countP
        (fun (i : ℕ) => decide (clamp x ≤ (u0 + i) / n ∧ (u0 + i) / n < clamp y)) = 0 := by
      rw [List.countP_eq_zero]
      intro i _
      simp only [decide_eq_true_eq, not_and, not_lt]
      intro a; linarith
    rw [hz]
    have hm := le_max_left 0 (n * (clamp y - clamp x))
    have : n * (clamp y - clamp x) < 0 := mul_neg_of_pos_of_neg hnpos (by linarith)
    constructor
    · push_cast; linarith
    · push_cast; linarith

/-! ### the rounded run: which positions receive index `j` -/

theorem Sums.C_zero_step {R : Rnd} {v : List ℝ} {C : ℕ → ℝ} (H : Sums R v C) (k : ℕ) (hk : k + 1 < v.length)
    (hz : v[k + 1] = 0) : C (k + 1) = C k := by
  rw [H.succ k hk, hz, add_zero, H.C_rep k (by omega)]

open Classical in
/-- the number of copies of `j` is the number of rounded positions in the cell `[ẽ_j, ẽ_{j+1})` -/
theorem fp_count_cells {R : Rnd} (n : ℕ) (u0 : Fl R) (heps : R.eps ≤ 1 / 4) (h0 : 0 ≤ toR u0) (h1 : toR u0 < 1)
    (c0 : Fl R) (t : List (Fl R)) (idx : List ℕ)
    (H : Sums R (toRL (c0 :: t)) (fun k => toR (cum (c0 :: t) c0 k)))
    (hL : LoopSpec (cum (c0 :: t) c0) (lastPositive (c0 :: t)) (position n u0) (List.range n) 0 idx) (j : ℕ) :
    idx.count j = (List.range n).countP (fun i => decide (
      edgeF (fun k => toR (cum (c0 :: t) c0 k)) (lastPositive (toRL (c0 :: t)) + 1) (1 + 3 * R.eps) j ≤ posR R n (toR u0) i ∧
      posR R n (toR u0) i <
        edgeF (fun k => toR (cum (c0 :: t) c0 k)) (lastPositive (toRL (c0 :: t)) + 1) (1 + 3 * R.eps) (j + 1))) := by
  have hcov := loop_cover (cum (c0 :: t) c0) (lastPositive (c0 :: t)) (position n u0) (List.range n) 0 idx
    (List.Pairwise.imp (fun {a b} hab => by
      rw [position_fl, position_fl]; exact posR_mono R n _ (le_of_lt hab)) List.pairwise_lt_range)
    (by intro i _ k hk; omega) hL
  have hF' := (forall2_mem hcov).imp (S := fun (i : ℕ) r => (r = j ↔ (
      edgeF (fun k => toR (cum (c0 :: t) c0 k)) (lastPositive (toRL (c0 :: t)) + 1) (1 + 3 * R.eps) j ≤ posR R n (toR u0) i ∧
      posR R n (toR u0) i <
        edgeF (fun k => toR (cum (c0 :: t) c0 k)) (lastPositive (toRL (c0 :: t)) + 1) (1 + 3 * R.eps) (j + 1)))) (by
    intro i r ⟨hi, hc⟩
    have hi' : i < n := List.mem_range.mp hi
    have hin : (i : ℝ) + 1 ≤ n := by exact_mod_cast hi'
    have hnpos : (0 : ℝ) < n := by linarith [Nat.cast_nonneg (α := ℝ) i]
    have hnear := abs_le.mp (posR_near R heps n (toR u0) h0 h1 i hi')
    have hq1 : (toR u0 + i) / n < 1 := by rw [div_lt_one hnpos]; linarith
    refine cellF_iff _ _ _ _ (posR_nonneg R n _ h0 i) (by linarith [hnear.2])
      (fun a b hab hb => H.C_mono a b hab (by
        have := lastPositive_lt (toRL (c0 :: t)) (by intro e; cases e); omega)) r j ?_
    rw [Nat.add_sub_cancel, lastPositive_toRL]
    exact hc)
  exact count_of_forall2 _ j _ _ hF'

/-! ### cell edges of the rounded run versus the exact clamped edges -/

theorem edgeF_near {R : Rnd} {v : List ℝ} {C : ℕ → ℝ} (H : Sums R v C) (hne : v ≠ [])
    (hm : (v.length : ℝ) * R.eps ≤ 1 / 2) (k : ℕ) :
    |clamp (edgeF C (lastPositive v + 1) (1 + 3 * R.eps) k) - edge v k| ≤ 2 * v.length * R.eps * v.sum := by
  have he := R.eps_nonneg
  have hη : 0 ≤ 2 * (v.length : ℝ) * R.eps * v.sum :=
    mul_nonneg (mul_nonneg (by positivity) he) H.sum_nonneg
  unfold edgeF
  split
  · rename_i hk
    subst hk
    rw [edge_zero v, clamp_of_mem (le_refl _) zero_le_one]
    simpa using hη
  · rename_i hk
    split
    · rename_i hkm
      have hP0 := P_nonneg v H.nonneg k
      have e : edge v k = clamp (P v k) := by
        unfold edge clamp
        rw [if_pos (by omega), max_eq_right (le_min hP0 zero_le_one)]
      rw [e]
      apply clamp_lip
      have hLlt := lastPositive_lt v hne
      have := H.C_err_unif hm (k - 1) (by omega)
      rwa [Nat.sub_add_cancel (by omega)] at this
    · rename_i hkm
      have e : edge v k = 1 := by unfold edge; rw [if_neg (by omega)]
      rw [e, clamp_of_one_le (by linarith)]
      simpa using hη

/-- the final inequality, in real numbers only -/
theorem assemble (nn cnt E E' e e' vj T δ η : ℝ) (hnn : 0 ≤ nn) (hδ : 0 ≤ δ) (hvj : 0 ≤ vj)
    (hU : cnt < 1 + max 0 (nn * (clamp (E' + δ) - clamp (E - δ))))
    (hLo : nn * (clamp (E' - δ) - clamp (E + δ)) - 1 < cnt)
    (hE : |clamp E - e| ≤ η) (hE' : |clamp E' - e'| ≤ η) (hT : |(e' - e) - vj| ≤ T) :
    |cnt - nn * vj| < 1 + nn * (T + 2 * δ + 2 * η) := by
  have a1 := clamp_add_le E' δ hδ
  have a2 := clamp_add_le (E - δ) δ hδ
  rw [sub_add_cancel] at a2
  have a3 := clamp_add_le E δ hδ
  have a4 := clamp_add_le (E' - δ) δ hδ
  rw [sub_add_cancel] at a4
  have hE1 := abs_le.mp hE
  have hE2 := abs_le.mp hE'
  have hT1 := abs_le.mp hT
  have hη : 0 ≤ η := le_trans (abs_nonneg _) hE
  have hT0 : 0 ≤ T := le_trans (abs_nonneg _) hT
  have hup : nn * (clamp (E' + δ) - clamp (E - δ)) ≤ nn * (vj + T + 2 * δ + 2 * η) :=
    mul_le_mul_of_nonneg_left (by linarith [hE1.1, hE2.2, hT1.2]) hnn
  have hup0 : 0 ≤ nn * (vj + T + 2 * δ + 2 * η) := mul_nonneg hnn (by linarith)
  have hmax : max 0 (nn * (clamp (E' + δ) - clamp (E - δ))) ≤ nn * (vj + T + 2 * δ + 2 * η) :=
    max_le hup0 hup
  have hlo : nn * (vj - T - 2 * δ - 2 * η) ≤ nn * (clamp (E' - δ) - clamp (E + δ)) :=
    mul_le_mul_of_nonneg_left (by linarith [hE1.2, hE2.1, hT1.1]) hnn
  rw [abs_lt]
  constructor <;> nlinarith

open Classical in
theorem core_bound {R : Rnd} (n : ℕ) (hn : 1 ≤ n) (u0 : Fl R) (heps : R.eps ≤ 1 / 4)
    (h0 : 0 ≤ toR u0) (h1 : toR u0 < 1) (c0 : Fl R) (t : List (Fl R)) (idx : List ℕ)
    (hm : ((toRL (c0 :: t)).length : ℝ) * R.eps ≤ 1 / 2)
    (H : Sums R (toRL (c0 :: t)) (fun k => toR (cum (c0 :: t) c0 k)))
    (hL : LoopSpec (cum (c0 :: t) c0) (lastPositive (c0 :: t)) (position n u0) (List.range n) 0 idx)
    (j : ℕ) (hj : j < (toRL (c0 :: t)).length) :
    |((idx.count j : ℕ) : ℝ) - n * (toRL (c0 :: t))[j]| <
      1 + n * (|(toRL (c0 :: t)).sum - 1| + 6 * R.eps +
        4 * ((toRL (c0 :: t)).length : ℝ) * R.eps * (toRL (c0 :: t)).sum) := by
  have he := R.eps_nonneg
  have hne : toRL (c0 :: t) ≠ [] := by intro e; rw [e] at hj; simp at hj
  have hcnt := fp_count_cells n u0 heps h0 h1 c0 t idx H hL j
  generalize hv : toRL (c0 :: t) = v at *
  generalize hC : (fun k => toR (cum (c0 :: t) c0 k)) = C at *
  set E := edgeF C (lastPositive v + 1) (1 + 3 * R.eps) with hE
  have hpn : ∀ i ∈ List.range n, |posR R n (toR u0) i - (toR u0 + i) / n| ≤ 3 * R.eps :=
    fun i hi => posR_near R heps n (toR u0) h0 h1 i (List.mem_range.mp hi)
  -- sandwich the count between two comb counts
  have hU : idx.count j ≤ (List.range n).countP (fun (i : ℕ) =>
      decide (E j - 3 * R.eps ≤ (toR u0 + i) / n ∧ (toR u0 + i) / n < E (j + 1) + 3 * R.eps)) := by
    rw [hcnt]
    apply List.countP_mono_left
    intro i hi
    simp only [decide_eq_true_eq]
    have := abs_le.mp (hpn i hi)
    rintro ⟨a, b⟩
    constructor <;> linarith [this.1, this.2]
  have hLo : (List.range n).countP (fun (i : ℕ) =>
      decide (E j + 3 * R.eps ≤ (toR u0 + i) / n ∧ (toR u0 + i) / n < E (j + 1) - 3 * R.eps))
      ≤ idx.count j := by
    rw [hcnt]
    apply List.countP_mono_left
    intro i hi
    simp only [decide_eq_true_eq]
    have := abs_le.mp (hpn i hi)
    rintro ⟨a, b⟩
    constructor <;> linarith [this.1, this.2]
  have hU' : ((idx.count j : ℕ) : ℝ) ≤ _ := Nat.cast_le.mpr hU
  have hLo' : _ ≤ ((idx.count j : ℕ) : ℝ) := Nat.cast_le.mpr hLo
  have c1 := (comb_count_near n hn (toR u0) h0 h1 (E j - 3 * R.eps) (E (j + 1) + 3 * R.eps)).1
  have c2 := (comb_count_near n hn (toR u0) h0 h1 (E j + 3 * R.eps) (E (j + 1) - 3 * R.eps)).2
  have hfin := assemble n (idx.count j) (E j) (E (j + 1)) (edge v j) (edge v (j + 1)) v[j] |v.sum - 1|
    (3 * R.eps) (2 * v.length * R.eps * v.sum) (Nat.cast_nonneg n) (by linarith)
    (H.nonneg _ (List.getElem_mem hj)) (lt_of_le_of_lt hU' c1) (lt_of_lt_of_le c2 hLo')
    (edgeF_near H hne hm j) (edgeF_near H hne hm (j + 1)) (edge_diff_bound v H.nonneg j hj)
  have e : (1 : ℝ) + n * (|v.sum - 1| + 2 * (3 * R.eps) + 2 * (2 * v.length * R.eps * v.sum))
      = 1 + n * (|v.sum - 1| + 6 * R.eps + 4 * (v.length : ℝ) * R.eps * v.sum) := by ring
  rw [← e]
  exact hfin

/-! ### the theorems about the model -/

/-- the effective weights are floats when the inputs are: `renorm` returns either `w` itself or the rounded quotients -/
theorem C06_fp_renorm_rep (R : Rnd) (s : Fl R) (w : List (Fl R))
    (hw : ∀ x ∈ w, R.rnd (toR x) = toR x) : ∀ x ∈ renorm s w, R.rnd (toR x) = toR x := by
  unfold renorm
  split
  · intro x hx
    obtain ⟨y, _, rfl⟩ := List.mem_map.mp hx
    rw [div_def, R.idem]
  · exact hw

/-- **count law in rounded arithmetic.**  `v = renorm s w` are the effective weights (non-negative floats), `S` their
    exact real sum, `m` their number, `eps` the unit round-off: the number of copies of `j` differs from `n·v_j` by less
    than `1 + n·(|S − 1| + 6·eps + 4·m·eps·S)`. -/
theorem C06_fp_count_bound (R : Rnd) (s : Fl R) (n : ℕ) (w : List (Fl R)) (u0 : Fl R) (idx : List ℕ)
    (hn : 1 ≤ n) (heps : R.eps ≤ 1 / 4) (hm : (w.length : ℝ) * R.eps ≤ 1 / 2)
    (hv0 : ∀ x ∈ renorm s w, 0 ≤ toR x)
    (hrep : ∀ x ∈ renorm s w, R.rnd (toR x) = toR x)
    (h0 : 0 ≤ toR u0) (h1 : toR u0 < 1)
    (h : systematicWith s n w u0 = some idx) (j : ℕ) (hj : j < (renorm s w).length) :
    |((idx.count j : ℕ) : ℝ) - n * toR (renorm s w)[j]|
      < 1 + n * (|rsum (renorm s w) - 1| + 6 * R.eps + 4 * (w.length : ℝ) * R.eps * rsum (renorm s w)) := by
  obtain ⟨c0, t, hv, hL⟩ := C06_syst_loop_spec s n w u0 idx h
  have hlen : w.length = (renorm s w).length := (renorm_length s w).symm
  rw [hlen] at hm ⊢
  generalize renorm s w = v at *
  subst hv
  exact core_bound n hn u0 heps h0 h1 c0 t idx hm (sums_fl c0 t hv0 hrep) hL j hj

open Classical in
theorem core_zero {R : Rnd} (n : ℕ) (u0 : Fl R) (heps : R.eps ≤ 1 / 4)
    (h0 : 0 ≤ toR u0) (h1 : toR u0 < 1) (c0 : Fl R) (t : List (Fl R)) (idx : List ℕ)
    (H : Sums R (toRL (c0 :: t)) (fun k => toR (cum (c0 :: t) c0 k)))
    (hL : LoopSpec (cum (c0 :: t) c0) (lastPositive (c0 :: t)) (position n u0) (List.range n) 0 idx)
    (j : ℕ) (hj : j < (toRL (c0 :: t)).length) (hz : (toRL (c0 :: t))[j] = 0)
    (hjL : j ≠ lastPositive (toRL (c0 :: t))) : idx.count j = 0 := by
  have hLlt := lastPositive_lt (toRL (c0 :: t)) (by intro e; cases e)
  rw [fp_count_cells n u0 heps h0 h1 c0 t idx H hL j, List.countP_eq_zero]
  intro i _
  simp only [decide_eq_true_eq, not_and, not_lt]
  intro ha
  have hp0 := posR_nonneg R n (toR u0) h0 i
  unfold edgeF at ha ⊢
  rw [if_neg (by omega)]
  rcases Nat.lt_or_ge j (lastPositive (toRL (c0 :: t))) with hlt | hge
  · -- below the cap: the cell is empty because adding 0 leaves the running sum unchanged
    rw [if_pos (by omega)]
    simp only [Nat.add_sub_cancel]
    cases j with
    | zero =>
      have e0 : toR (cum (c0 :: t) c0 0) = (toRL (c0 :: t))[0] := H.zero (by omega)
      rw [e0, hz]; exact hp0
    | succ j =>
      rw [if_neg (by omega), if_pos (by omega)] at ha
      simp only [Nat.add_sub_cancel] at ha
      have hstep : toR (cum (c0 :: t) c0 (j + 1)) = toR (cum (c0 :: t) c0 j) := H.C_zero_step j (by omega) hz
      rw [hstep]; exact ha
  · -- beyond the cap: never reached
    rw [if_neg (by omega)]
    rw [if_neg (by omega), if_neg (by omega)] at ha
    exact ha

/-- **a zero-weight particle is never selected** in rounded arithmetic (when some effective weight is positive): beyond the
    cap `lastPositive` no index is ever returned; below it, adding `0` to the (representable) running sum returns it
    unchanged, so the cell of `j` is empty; and the cap itself has positive weight. -/
theorem C06_fp_zero_weight_never (R : Rnd) (s : Fl R) (n : ℕ) (w : List (Fl R)) (u0 : Fl R) (idx : List ℕ)
    (heps : R.eps ≤ 1 / 4)
    (hv0 : ∀ x ∈ renorm s w, 0 ≤ toR x)
    (hrep : ∀ x ∈ renorm s w, R.rnd (toR x) = toR x)
    (hpos : ∃ x ∈ renorm s w, 0 < toR x)
    (h0 : 0 ≤ toR u0) (h1 : toR u0 < 1)
    (h : systematicWith s n w u0 = some idx) (j : ℕ) (hj : j < (renorm s w).length)
    (hz : toR (renorm s w)[j] = 0) : idx.count j = 0 := by
  obtain ⟨c0, t, hv, hL⟩ := C06_syst_loop_spec s n w u0 idx h
  have key : ∀ (v : List (Fl R)), v = c0 :: t → (∀ x ∈ v, 0 ≤ toR x) → (∀ x ∈ v, R.rnd (toR x) = toR x) →
      (∃ x ∈ v, 0 < toR x) → ∀ (hj : j < v.length), toR v[j] = 0 → idx.count j = 0 := by
    intro v hv hv0 hrep hpos hj hz
    subst hv
    refine core_zero n u0 heps h0 h1 c0 t idx (sums_fl c0 t hv0 hrep) hL j hj hz ?_
    rw [lastPositive_toRL]
    intro e
    obtain ⟨hlt, hp⟩ := lastPositive_pos (c0 :: t) hpos
    simp only [← e] at hp
    rw [hz] at hp
    exact lt_irrefl _ hp
  exact key _ hv hv0 hrep hpos hj hz

/-! ### non-vacuity: a concrete rounding model and a concrete run -/

/-- exact arithmetic as a (degenerate) rounding model with `eps = 2^-53` -/
noncomputable def R0 : Rnd where
  rnd := id
  eps := 1 / 2 ^ 53
  eps_nonneg := by positivity
  err := fun x => by simp only [id, sub_self, abs_zero]; positivity
  mono := monotone_id
  idem := fun _ => rfl

theorem R0_rnd (x : ℝ) : R0.rnd x = x := rfl

theorem advance_stop {R : Rnd} (w : List (Fl R)) (jmax : ℕ) (pos : Fl R) (fuel j : ℕ) (c : Fl R)
    (h : ¬ (j < jmax ∧ toR c ≤ toR pos)) : advance w jmax pos (fuel + 1) j c = (j, c) := by
  unfold advance
  rw [if_neg]
  rw [ge_decide]
  simpa using h

theorem advance_step {R : Rnd} (w : List (Fl R)) (jmax : ℕ) (pos : Fl R) (fuel j : ℕ) (c x : Fl R)
    (h1 : j < jmax) (h2 : toR c ≤ toR pos) (hx : w[j + 1]? = some x) :
    advance w jmax pos (fuel + 1) j c = advance w jmax pos fuel (j + 1) (Sc.add c x) := by
  rw [advance]
  rw [if_pos (by rw [ge_decide]; simp [h1, h2]), hx]

theorem example_pos (i : ℕ) : toR (position 4 (ofR (1/2) : Fl R0) i) = (1 / 2 + (i : ℝ)) / 4 := by
  rw [position_fl, posR, R0_rnd, R0_rnd, toR_ofR]; norm_num

theorem example_renorm (w : List (Fl R0)) : renorm (ofR 1 : Fl R0) w = w := by
  unfold renorm
  rw [if_neg]
  have e1 : toR (Sc.sub (ofR 1 : Fl R0) Sc.one) = 0 := by
    rw [sub_def, one_def, R0_rnd, toR_ofR]; norm_num
  have e : toR (Sc.abs (Sc.sub (ofR 1 : Fl R0) Sc.one)) = 0 := by
    unfold Sc.abs
    split
    · rw [neg_def, e1]; simp
    · exact e1
  have e2 : toR (sqrtEps : Fl R0) = 1 / 67108864 := by
    unfold sqrtEps
    rw [div_def, one_def, ofNat_def, R0_rnd]; norm_num
  rw [gt_decide, e, e2]
  norm_num

theorem gt_ofR_pos {R : Rnd} (x : ℝ) (h : 0 < x) : Sc.gt (ofR x : Fl R) Sc.zero = true :=
  (gt_zero_iff _).mpr h
theorem gt_ofR_zero {R : Rnd} : Sc.gt (ofR 0 : Fl R) Sc.zero = false := by
  rw [gt_decide, zero_def, toR_ofR]; simp

theorem example_cap : lastPositive ([ofR (1/2), ofR (1/4), ofR (1/4)] : List (Fl R0)) = 2 := by
  have g4 : Sc.gt (ofR (1/4) : Fl R0) Sc.zero = true := gt_ofR_pos _ (by norm_num)
  simp only [lastPositive, lastPos?, g4, if_true, Option.getD_some, Nat.zero_add, Nat.reduceAdd]

theorem example_run_fl :
    systematicWith (ofR 1 : Fl R0) 4 [ofR (1/2), ofR (1/4), ofR (1/4)] (ofR (1/2)) = some [0, 0, 1, 2] := by
  have hre := example_renorm [ofR (1/2), ofR (1/4), ofR (1/4)]
  have hr : List.range 4 = [0, 1, 2, 3] := by decide
  have a0 : advance [ofR (1/2), ofR (1/4), ofR (1/4)] 2 (position 4 (ofR (1/2) : Fl R0) 0) 3 0 (ofR (1/2))
      = (0, ofR (1/2)) := by
    apply advance_stop
    rw [example_pos, toR_ofR]; norm_num
  have a1 : advance [ofR (1/2), ofR (1/4), ofR (1/4)] 2 (position 4 (ofR (1/2) : Fl R0) 1) 3 0 (ofR (1/2))
      = (0, ofR (1/2)) := by
    apply advance_stop
    rw [example_pos, toR_ofR]; norm_num
  have a2 : advance [ofR (1/2), ofR (1/4), ofR (1/4)] 2 (position 4 (ofR (1/2) : Fl R0) 2) 3 0 (ofR (1/2))
      = (1, Sc.add (ofR (1/2)) (ofR (1/4))) := by
    rw [advance_step _ _ _ _ _ _ (ofR (1/4)) (by norm_num) (by rw [example_pos, toR_ofR]; norm_num) rfl]
    apply advance_stop
    rw [example_pos, add_def, R0_rnd, toR_ofR, toR_ofR]; norm_num
  have a3 : advance [ofR (1/2), ofR (1/4), ofR (1/4)] 2 (position 4 (ofR (1/2) : Fl R0) 3) 3 1
      (Sc.add (ofR (1/2)) (ofR (1/4))) = (2, Sc.add (Sc.add (ofR (1/2)) (ofR (1/4))) (ofR (1/4))) := by
    rw [advance_step _ _ _ _ _ _ (ofR (1/4)) (by norm_num)
      (by rw [example_pos, add_def, R0_rnd, toR_ofR, toR_ofR]; norm_num) rfl]
    apply advance_stop
    omega
  unfold systematicWith
  simp only [hre, hr, run, example_cap, List.length_cons, List.length_nil, Nat.zero_add, Nat.reduceAdd,
    a0, a1, a2, a3]

/-- the main theorem on a concrete run (`n = 4`, weights `1/2, 1/4, 1/4`, offset `1/2`, `eps = 2^-53`): every hypothesis
    holds, and the conclusion reads `|2 − 4·(1/2)| < 1 + 4·(|1 − 1| + 6·eps + 4·3·eps·1)` -/
example : |(((([0, 0, 1, 2] : List ℕ).count 0 : ℕ) : ℝ)) - ((4 : ℕ) : ℝ) * (1 / 2)|
    < 1 + ((4 : ℕ) : ℝ) * (|(1 : ℝ) - 1| + 6 * R0.eps + 4 * ((3 : ℕ) : ℝ) * R0.eps * 1) := by
  have hv0 : ∀ x ∈ renorm (ofR 1 : Fl R0) [ofR (1/2), ofR (1/4), ofR (1/4)], 0 ≤ toR x := by
    rw [example_renorm]; intro x hx
    simp only [List.mem_cons, List.not_mem_nil, or_false] at hx
    rcases hx with rfl | rfl | rfl <;> (rw [toR_ofR]; norm_num)
  have hrep : ∀ x ∈ renorm (ofR 1 : Fl R0) [ofR (1/2), ofR (1/4), ofR (1/4)], R0.rnd (toR x) = toR x :=
    fun x _ => rfl
  have hj : 0 < (renorm (ofR 1 : Fl R0) [ofR (1/2), ofR (1/4), ofR (1/4)]).length := by
    rw [example_renorm]; simp
  have hb := C06_fp_count_bound R0 (ofR 1) 4 [ofR (1/2), ofR (1/4), ofR (1/4)] (ofR (1/2)) [0, 0, 1, 2]
    (by norm_num) (by show (1 : ℝ) / 2 ^ 53 ≤ 1 / 4; norm_num)
    (by show ((3 : ℕ) : ℝ) * (1 / 2 ^ 53) ≤ 1 / 2; norm_num) hv0 hrep
    (by rw [toR_ofR]; norm_num) (by rw [toR_ofR]; norm_num) example_run_fl 0 hj
  have e1 : toR ((renorm (ofR 1 : Fl R0) [ofR (1/2), ofR (1/4), ofR (1/4)])[0]'hj) = 1 / 2 := by
    simp only [example_renorm]; rfl
  have e2 : rsum (renorm (ofR 1 : Fl R0) [ofR (1/2), ofR (1/4), ofR (1/4)]) = 1 := by
    rw [example_renorm]
    show ((1 / 2 : ℝ) + (1 / 4 + (1 / 4 + 0))) = 1
    norm_num
  rw [e1, e2] at hb
  exact hb

theorem example_pos2 (i : ℕ) : toR (position 2 (ofR (1/2) : Fl R0) i) = (1 / 2 + (i : ℝ)) / 2 := by
  rw [position_fl, posR, R0_rnd, R0_rnd, toR_ofR]; norm_num

theorem example_cap_zero : lastPositive ([ofR (1/2), ofR 0, ofR (1/2)] : List (Fl R0)) = 2 := by
  have g2 : Sc.gt (ofR (1/2) : Fl R0) Sc.zero = true := gt_ofR_pos _ (by norm_num)
  simp only [lastPositive, lastPos?, g2, if_true, Option.getD_some, Nat.zero_add, Nat.reduceAdd]

/-- a concrete run with a zero weight below the cap: weights `1/2, 0, 1/2`, two draws, offset `1/2` -/
theorem example_run_zero :
    systematicWith (ofR 1 : Fl R0) 2 [ofR (1/2), ofR 0, ofR (1/2)] (ofR (1/2)) = some [0, 2] := by
  have hre := example_renorm [ofR (1/2), ofR 0, ofR (1/2)]
  have hr : List.range 2 = [0, 1] := by decide
  have a0 : advance [ofR (1/2), ofR 0, ofR (1/2)] 2 (position 2 (ofR (1/2) : Fl R0) 0) 3 0 (ofR (1/2))
      = (0, ofR (1/2)) := by
    apply advance_stop
    rw [example_pos2, toR_ofR]; norm_num
  have a1 : advance [ofR (1/2), ofR 0, ofR (1/2)] 2 (position 2 (ofR (1/2) : Fl R0) 1) 3 0 (ofR (1/2))
      = (2, Sc.add (Sc.add (ofR (1/2)) (ofR 0)) (ofR (1/2))) := by
    rw [advance_step _ _ _ _ _ _ (ofR 0) (by norm_num) (by rw [example_pos2, toR_ofR]; norm_num) rfl]
    rw [advance_step _ _ _ _ _ _ (ofR (1/2)) (by norm_num)
      (by rw [example_pos2, add_def, R0_rnd, toR_ofR, toR_ofR]; norm_num) rfl]
    apply advance_stop
    omega
  unfold systematicWith
  simp only [hre, hr, run, example_cap_zero, List.length_cons, List.length_nil, Nat.zero_add, Nat.reduceAdd,
    a0, a1]

/-- the zero-weight theorem on that run: every hypothesis holds; index 1 (weight 0, below the cap) is not selected -/
example : ([0, 2] : List ℕ).count 1 = 0 := by
  have hv0 : ∀ x ∈ renorm (ofR 1 : Fl R0) [ofR (1/2), ofR 0, ofR (1/2)], 0 ≤ toR x := by
    rw [example_renorm]; intro x hx
    simp only [List.mem_cons, List.not_mem_nil, or_false] at hx
    rcases hx with rfl | rfl | rfl <;> (rw [toR_ofR]; first | done | norm_num)
  have hpos : ∃ x ∈ renorm (ofR 1 : Fl R0) [ofR (1/2), ofR 0, ofR (1/2)], 0 < toR x := by
    rw [example_renorm]
    exact ⟨ofR (1/2), by simp, by rw [toR_ofR]; norm_num⟩
  have hj : 1 < (renorm (ofR 1 : Fl R0) [ofR (1/2), ofR 0, ofR (1/2)]).length := by
    rw [example_renorm]; simp
  refine C06_fp_zero_weight_never R0 (ofR 1) 2 [ofR (1/2), ofR 0, ofR (1/2)] (ofR (1/2)) [0, 2]
    (by show (1 : ℝ) / 2 ^ 53 ≤ 1 / 4; norm_num) hv0 (fun x _ => rfl) hpos
    (by rw [toR_ofR]; norm_num) (by rw [toR_ofR]; norm_num) example_run_zero 1 hj ?_
  simp only [example_renorm]; rfl

theorem example_cap_trailing : lastPositive ([ofR (1/2), ofR (1/2), ofR 0] : List (Fl R0)) = 1 := by
  have g2 : Sc.gt (ofR (1/2) : Fl R0) Sc.zero = true := gt_ofR_pos _ (by norm_num)
  have g0 : Sc.gt (ofR 0 : Fl R0) Sc.zero = false := gt_ofR_zero
  simp only [lastPositive, lastPos?, g2, g0, if_true, Bool.false_eq_true, if_false, Option.getD_some,
    Nat.zero_add]

/-- a concrete run with a TRAILING zero weight: weights `1/2, 1/2, 0`, two draws, offset `1/2`; the cap is index 1 -/
theorem example_run_trailing :
    systematicWith (ofR 1 : Fl R0) 2 [ofR (1/2), ofR (1/2), ofR 0] (ofR (1/2)) = some [0, 1] := by
  have hre := example_renorm [ofR (1/2), ofR (1/2), ofR 0]
  have hr : List.range 2 = [0, 1] := by decide
  have a0 : advance [ofR (1/2), ofR (1/2), ofR 0] 1 (position 2 (ofR (1/2) : Fl R0) 0) 3 0 (ofR (1/2))
      = (0, ofR (1/2)) := by
    apply advance_stop
    rw [example_pos2, toR_ofR]; norm_num
  have a1 : advance [ofR (1/2), ofR (1/2), ofR 0] 1 (position 2 (ofR (1/2) : Fl R0) 1) 3 0 (ofR (1/2))
      = (1, Sc.add (ofR (1/2)) (ofR (1/2))) := by
    rw [advance_step _ _ _ _ _ _ (ofR (1/2)) (by norm_num) (by rw [example_pos2, toR_ofR]; norm_num) rfl]
    apply advance_stop
    omega
  unfold systematicWith
  simp only [hre, hr, run, example_cap_trailing, List.length_cons, List.length_nil, Nat.zero_add, Nat.reduceAdd,
    a0, a1]

/-- the zero-weight theorem at the LAST index (`j = 2`, weight 0, beyond the cap): never selected -/
example : ([0, 1] : List ℕ).count 2 = 0 := by
  have hv0 : ∀ x ∈ renorm (ofR 1 : Fl R0) [ofR (1/2), ofR (1/2), ofR 0], 0 ≤ toR x := by
    rw [example_renorm]; intro x hx
    simp only [List.mem_cons, List.not_mem_nil, or_false] at hx
    rcases hx with rfl | rfl | rfl <;> (rw [toR_ofR]; first | done | norm_num)
  have hpos : ∃ x ∈ renorm (ofR 1 : Fl R0) [ofR (1/2), ofR (1/2), ofR 0], 0 < toR x := by
    rw [example_renorm]
    exact ⟨ofR (1/2), by simp, by rw [toR_ofR]; norm_num⟩
  have hj : 2 < (renorm (ofR 1 : Fl R0) [ofR (1/2), ofR (1/2), ofR 0]).length := by
    rw [example_renorm]; simp
  refine C06_fp_zero_weight_never R0 (ofR 1) 2 [ofR (1/2), ofR (1/2), ofR 0] (ofR (1/2)) [0, 1]
    (by show (1 : ℝ) / 2 ^ 53 ≤ 1 / 4; norm_num) hv0 (fun x _ => rfl) hpos
    (by rw [toR_ofR]; norm_num) (by rw [toR_ofR]; norm_num) example_run_trailing 2 hj ?_
  simp only [example_renorm]; rfl

/-- `C06_fp_renorm_rep` on the same inputs (every real is a float of `R0`) -/
example : ∀ x ∈ renorm (ofR 1 : Fl R0) [ofR (1/2), ofR 0, ofR (1/2)], R0.rnd (toR x) = toR x :=
  C06_fp_renorm_rep R0 (ofR 1) _ (fun _ _ => rfl)

end Props.C06.Fp
