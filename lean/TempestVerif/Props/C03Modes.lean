import TempestVerif.Model.ModeStatsNum
import TempestVerif.Lemmas.ScReal
import TempestVerif.Lemmas.GaussJordan
import TempestVerif.Lemmas.CholeskyPD
import TempestVerif.Lemmas.CholFactor
import TempestVerif.Lemmas.KernelGeom
import TempestVerif.Lemmas.Maha
import TempestVerif.Props.C03
import Mathlib.Tactic

/-
  C03, clause 15 — the `ModeStatistics` hypotheses (H_modes) discharged for an executable model of the constructor.

  `Model/ModeStatsNum.lean` models `ModeStatistics.__init__` (tempest/modes.py:57-108) statement by statement, including
  `np.linalg.cholesky` (row-by-row `potrf`, `chol`) and `np.linalg.inv` (`Model.Student.inv`).  Here:
   §1  `chol` is sound (answers only with a lower-triangular, positive-diagonal `L`, `L Lᵀ = symLower S`), complete on positive
       definite input, returns THE factor (uniqueness), reads only the lower triangle, and raises iff `symLower S` is not PD;
   §2  for the model's own output on a symmetric `Σ`: `L` invertible, `Σ = L Lᵀ`, `inv = Σ⁻¹`, hence `δ ≥ 0`, the
       Crank–Nicolson exponent identity and the RWM increment norm of `Props/C03.lean` §10 with NO remaining hypothesis on `L`;
   §3  the same about the LISTS the executable kernel model (`Model.Kernel.qform / tpcnProposal / rwmProposal`) computes with;
   §4  the constructor for any scalar type: shapes of a constructed object, `ValueError` iff the shapes disagree, agreement
       with C14's abstract `mkModeStats`;
   §5  the constructor at ℝ: `LinAlgError` iff some covariance is not positive definite; the records handed to the kernel
       model satisfy H_modes (`C03_init_modes_satisfy_H_modes`);
   §6  non-vacuity on a correlated 3 × 3 covariance, an asymmetric argument, an indefinite matrix, the three reshape rules.
-/
namespace Props.C03
open Matrix Model.ModeStatsNum
open Lemmas.GaussJordan (matOf inv_matOf_posDef inv_matOf_some)
open Lemmas.CholeskyPD (IsCholeskyFactor symLower)
open Lemmas.CholFactor
open Lemmas.Maha Lemmas.KernelGeom

section Chol
variable {d : ℕ}

/-- soundness of the model's `np.linalg.cholesky` -/
theorem C03_chol_sound (S : Matrix (Fin d) (Fin d) ℝ) (M : List (List ℝ)) (h : chol (matOf S) = some M) :
    ∃ L : Matrix (Fin d) (Fin d) ℝ, M = matOf L ∧ IsCholeskyFactor S L :=
  chol_matOf_sound S M h

theorem C03_chol_complete (S : Matrix (Fin d) (Fin d) ℝ) (hS : S.PosDef) :
    ∃ L : Matrix (Fin d) (Fin d) ℝ, chol (matOf S) = some (matOf L) ∧ IsCholeskyFactor S L :=
  ⟨cholMat S, chol_matOf_posDef S hS, cholMat_isFactor S (piv_pos_of_posDef S hS)⟩

theorem C03_chol_unique (S L : Matrix (Fin d) (Fin d) ℝ) (h : IsCholeskyFactor S L) :
    chol (matOf S) = some (matOf L) := by
  have hL := isFactor_unique S L h
  refine (chol_matOf_iff S _).2 ⟨fun i hi => ?_, by rw [hL]⟩
  have hpos := h.diag_pos ⟨i, hi⟩
  rw [hL] at hpos
  have : 0 < Real.sqrt (piv (natOf S) i) := by
    rw [← cholF_diag]; exact hpos
  exact Real.sqrt_pos.1 this

theorem symLower_idem (S : Matrix (Fin d) (Fin d) ℝ) : symLower (symLower S) = symLower S := by
  ext i j
  unfold symLower
  by_cases h : j ≤ i
  · simp [h]
  · have h' : i ≤ j := le_of_lt (not_le.1 h)
    simp [h, h']

theorem isFactor_symLower (S L : Matrix (Fin d) (Fin d) ℝ) : IsCholeskyFactor (symLower S) L ↔ IsCholeskyFactor S L :=
  ⟨fun h => ⟨h.lower, h.diag_pos, by rw [h.factor, symLower_idem]⟩,
   fun h => ⟨h.lower, h.diag_pos, by rw [h.factor, symLower_idem]⟩⟩

/-- `potrf` semantics: only the lower triangle of the argument is read -/
theorem C03_chol_reads_lower_only (S : Matrix (Fin d) (Fin d) ℝ) : chol (matOf S) = chol (matOf (symLower S)) := by
  cases h1 : chol (matOf S) with
  | some M =>
    obtain ⟨L, rfl, hL⟩ := C03_chol_sound S M h1
    exact (C03_chol_unique _ L ((isFactor_symLower S L).2 hL)).symm
  | none =>
    cases h2 : chol (matOf (symLower S)) with
    | none => rfl
    | some M =>
      obtain ⟨L, rfl, hL⟩ := C03_chol_sound _ M h2
      rw [C03_chol_unique S L ((isFactor_symLower S L).1 hL)] at h1
      exact absurd h1 (by simp)

/-- `LinAlgError` of `cholesky` ⇔ the symmetric matrix with the argument's lower triangle is not positive definite -/
theorem C03_chol_isSome_iff (S : Matrix (Fin d) (Fin d) ℝ) : (chol (matOf S)).isSome = true ↔ (symLower S).PosDef := by
  constructor
  · intro h
    obtain ⟨M, hM⟩ := Option.isSome_iff_exists.1 h
    obtain ⟨L, -, hL⟩ := C03_chol_sound S M hM
    exact Lemmas.CholeskyPD.posDef_of_factor S L hL
  · intro h
    rw [C03_chol_reads_lower_only, chol_matOf_posDef _ h]; rfl

theorem C03_chol_isSome_iff_of_symm (S : Matrix (Fin d) (Fin d) ℝ) (hs : S.IsSymm) :
    (chol (matOf S)).isSome = true ↔ S.PosDef := by
  rw [C03_chol_isSome_iff, Lemmas.CholeskyPD.symLower_of_isSymm S hs]

end Chol

/-! ## 2. the `ModeStatistics` hypotheses of the kernel theorems hold of the model's own output -/
section Hyp
variable {d : ℕ}
open Model.Student (inv)

/-- everything the geometry theorems assume, for the model's `inv` / `chol` of a symmetric positive definite `Σ` -/
theorem C03_model_modes_hypotheses (S : Matrix (Fin d) (Fin d) ℝ) (hS : S.PosDef) :
    ∃ L : Matrix (Fin d) (Fin d) ℝ,
      chol (matOf S) = some (matOf L) ∧ inv (matOf S) = some (matOf S⁻¹) ∧
      (∀ i j, i < j → L i j = 0) ∧ (∀ i, 0 < L i i) ∧ IsUnit L.det ∧ S = L * Lᵀ ∧ S⁻¹ = (L * Lᵀ)⁻¹ := by
  obtain ⟨L, hc, hL⟩ := C03_chol_complete S hS
  have hsym : S.IsSymm := by
    have := hS.isHermitian
    rwa [Matrix.IsHermitian, Matrix.conjTranspose_eq_transpose_of_trivial] at this
  have hfac : S = L * Lᵀ := by rw [hL.factor, Lemmas.CholeskyPD.symLower_of_isSymm S hsym]
  exact ⟨L, hc, inv_matOf_posDef S hS, hL.lower, hL.diag_pos,
    isUnit_iff_ne_zero.2 (Lemmas.CholeskyPD.det_ne_zero_of_lower L hL.lower hL.diag_pos), hfac, by rw [← hfac]⟩

/-- what a successful `chol` alone certifies about a symmetric argument (no positive-definiteness hypothesis) -/
theorem C03_model_factor_of_chol (S L : Matrix (Fin d) (Fin d) ℝ) (hs : S.IsSymm) (hc : chol (matOf S) = some (matOf L)) :
    IsUnit L.det ∧ S = L * Lᵀ ∧ S.PosDef := by
  obtain ⟨L', hL', hfac⟩ := C03_chol_sound S _ hc
  have : L = L' := matOf_injective hL'
  subst this
  refine ⟨isUnit_iff_ne_zero.2 (Lemmas.CholeskyPD.det_ne_zero_of_lower L hfac.lower hfac.diag_pos), ?_,
    Lemmas.CholeskyPD.posDef_of_factor_of_isSymm S L hs hfac⟩
  rw [hfac.factor, Lemmas.CholeskyPD.symLower_of_isSymm S hs]

/-- `δ ≥ 0` (hypothesis of the interior theorems) for the covariance itself, given only that the model's `chol` answered -/
theorem C03_model_dot_nonneg (S L : Matrix (Fin d) (Fin d) ℝ) (hs : S.IsSymm) (hc : chol (matOf S) = some (matOf L))
    (v : Fin d → ℝ) : 0 ≤ maha S v := by
  obtain ⟨hu, hfac, -⟩ := C03_model_factor_of_chol S L hs hc
  rw [hfac]; exact C03_dot_nonneg L hu v

/-- Crank–Nicolson exponent identity with `L` = the factor the model computed -/
theorem C03_model_cn_exponent (S L : Matrix (Fin d) (Fin d) ℝ) (hs : S.IsSymm) (hc : chol (matOf S) = some (matOf L))
    (μ x z : Fin d → ℝ) (a c : ℝ) :
    maha S ((μ + a • (x - μ) + c • (L *ᵥ z)) - μ)
        - 2 * a * mahaCross S (x - μ) ((μ + a • (x - μ) + c • (L *ᵥ z)) - μ)
        + a ^ 2 * maha S (x - μ)
      = c ^ 2 * (z ⬝ᵥ z) := by
  obtain ⟨hu, hfac, -⟩ := C03_model_factor_of_chol S L hs hc
  rw [hfac]; exact C03_cn_exponent_is_noise_norm L hu μ x z a c

theorem C03_model_rwm_increment_norm (S L : Matrix (Fin d) (Fin d) ℝ) (hs : S.IsSymm)
    (hc : chol (matOf S) = some (matOf L)) (x z : Fin d → ℝ) (σ : ℝ) :
    maha S ((x + σ • (L *ᵥ z)) - x) = σ ^ 2 * (z ⬝ᵥ z) := by
  obtain ⟨hu, hfac, -⟩ := C03_model_factor_of_chol S L hs hc
  rw [hfac]; exact C03_rwm_increment_norm L hu x z σ

end Hyp

/-! ## 3. … and of the executable kernel model's lists (`Model.Kernel.qform`, `tpcnProposal`, `rwmProposal`) -/
section KernelLists
variable {d : ℕ}
open Model.Student (inv)
open Model.Kernel

/-- the kernel model's `dot = diff @ inv_cov @ diff` with `inv_cov` = the model's inverse is the Mahalanobis form -/
theorem C03_model_kernel_dot_is_maha (S : Matrix (Fin d) (Fin d) ℝ) (I : List (List ℝ)) (hi : inv (matOf S) = some I)
    (u μ : Fin d → ℝ) : qform (vsub (List.ofFn u) (List.ofFn μ)) I = maha S (u - μ) := by
  rw [inv_matOf_eq S I hi, vsub_ofFn, qform_matOf]; rfl

/-- **`δ ≥ 0` for the executable kernel model fed by the executable constructor model** -/
theorem C03_model_kernel_dot_nonneg (S : Matrix (Fin d) (Fin d) ℝ) (hs : S.IsSymm) (Lc I : List (List ℝ))
    (hc : chol (matOf S) = some Lc) (hi : inv (matOf S) = some I) (u μ : Fin d → ℝ) :
    0 ≤ qform (vsub (List.ofFn u) (List.ofFn μ)) I := by
  obtain ⟨L, rfl, -⟩ := C03_chol_sound S Lc hc
  rw [C03_model_kernel_dot_is_maha S I hi]
  exact C03_model_dot_nonneg S L hs hc _

/-- the tpCN candidate of the list model is `μ + a (x−μ) + c L z` and the Crank–Nicolson exponent, written with the list
    model's own `dot` of the current and of the proposed point, is `c² zᵀz` -/
theorem C03_model_kernel_tpcn_exponent (S : Matrix (Fin d) (Fin d) ℝ) (hs : S.IsSymm) (Lc I : List (List ℝ))
    (hc : chol (matOf S) = some Lc) (hi : inv (matOf S) = some I) (μ x z : Fin d → ℝ) (σ s : ℝ) :
    ∃ y : Fin d → ℝ,
      tpcnProposal (List.ofFn μ) (vsub (List.ofFn x) (List.ofFn μ)) Lc σ s (List.ofFn z) = List.ofFn y ∧
      qform (vsub (List.ofFn y) (List.ofFn μ)) I - 2 * diffCoef σ * mahaCross S (x - μ) (y - μ)
          + diffCoef σ ^ 2 * qform (vsub (List.ofFn x) (List.ofFn μ)) I
        = noiseScale σ s ^ 2 * (z ⬝ᵥ z) := by
  obtain ⟨L, rfl, -⟩ := C03_chol_sound S Lc hc
  refine ⟨μ + diffCoef σ • (x - μ) + noiseScale σ s • (L *ᵥ z), ?_, ?_⟩
  · rw [vsub_ofFn, tpcnProposal_ofFn]
  · rw [C03_model_kernel_dot_is_maha S I hi, C03_model_kernel_dot_is_maha S I hi]
    exact C03_model_cn_exponent S L hs hc μ x z _ _

/-- RWM: the candidate of the list model is `x + σ L z`, an increment of Mahalanobis norm `σ² zᵀz` -/
theorem C03_model_kernel_rwm_increment (S : Matrix (Fin d) (Fin d) ℝ) (hs : S.IsSymm) (Lc I : List (List ℝ))
    (hc : chol (matOf S) = some Lc) (hi : inv (matOf S) = some I) (x z : Fin d → ℝ) (σ : ℝ) :
    ∃ y : Fin d → ℝ, rwmProposal (List.ofFn x) Lc σ (List.ofFn z) = List.ofFn y ∧
      qform (vsub (List.ofFn y) (List.ofFn x)) I = σ ^ 2 * (z ⬝ᵥ z) := by
  obtain ⟨L, rfl, -⟩ := C03_chol_sound S Lc hc
  refine ⟨x + σ • (L *ᵥ z), rwmProposal_ofFn x z L σ, ?_⟩
  rw [C03_model_kernel_dot_is_maha S I hi]
  exact C03_model_rwm_increment_norm S L hs hc x z σ

end KernelLists

/-! ## 4. the constructor: shapes and error classes (any scalar type) -/
section Shape
variable {α : Type} [ScT α]

theorem cholOff_length (a : List α) : ∀ (prev : List (List α)) (acc r : List α),
    cholOff a prev acc = some r → r.length = acc.length + prev.length := by
  intro prev
  induction prev with
  | nil => intro acc r h; simp [cholOff] at h; simp [← h]
  | cons lj rest ih =>
    intro acc r h
    unfold cholOff at h
    split at h
    · have := ih _ _ h
      simp at this ⊢; omega
    · simp at h

theorem cholRow_length (d : Nat) (prev : List (List α)) (a r : List α) (h : cholRow d prev a = some r)
    (hd : prev.length < d) : r.length = d := by
  unfold cholRow at h
  split at h
  · simp at h
  · rename_i off hoff
    have hl := cholOff_length a prev [] off hoff
    split at h
    · simp at h
    · simp only at h
      split at h
      · simp only [Option.some.injEq] at h
        rw [← h]; simp at hl ⊢; omega
      · simp at h

theorem cholRows_shape (d : Nat) : ∀ (as prev M : List (List α)), cholRows d as prev = some M →
    prev.length + as.length ≤ d → (∀ r ∈ prev, r.length = d) →
    M.length = prev.length + as.length ∧ ∀ r ∈ M, r.length = d := by
  intro as
  induction as with
  | nil => intro prev M h _ hp; simp [cholRows] at h; subst h; exact ⟨by simp, hp⟩
  | cons a as ih =>
    intro prev M h hle hp
    unfold cholRows at h
    split at h
    · simp at h
    · rename_i r hr
      have hrl := cholRow_length d prev a r hr (by simp at hle; omega)
      have := ih (prev ++ [r]) M h (by simp at hle ⊢; omega) (by
        intro x hx
        rcases List.mem_append.1 hx with hx | hx
        · exact hp x hx
        · simp at hx; rw [hx]; exact hrl)
      refine ⟨by rw [this.1]; simp; omega, this.2⟩

/-- the factor has the shape of its argument -/
theorem chol_shape (A M : Mat α) (h : chol A = some M) : M.length = A.length ∧ ∀ r ∈ M, r.length = A.length := by
  unfold chol at h
  split at h
  · have := cholRows_shape A.length A [] M h (by simp) (by simp)
    simpa using this
  · simp at h


theorem mapM_option_forall₂ {β γ : Type} (f : β → Option γ) : ∀ (l : List β) (r : List γ),
    l.mapM f = some r → List.Forall₂ (fun a b => f a = some b) l r := by
  intro l
  induction l with
  | nil => intro r h; simp at h; subst h; exact List.Forall₂.nil
  | cons a l ih =>
    intro r h
    rw [List.mapM_cons] at h
    cases hfa : f a with
    | none => simp [hfa] at h
    | some b =>
      cases hl : l.mapM f with
      | none => simp [hfa, hl] at h
      | some bs =>
        simp [hfa, hl] at h
        subst h
        exact List.Forall₂.cons hfa (ih bs hl)

theorem gjStep_shape (k w : Nat) (M M' : Mat α) (h : Model.Student.gjStep k M = some M')
    (hM : ∀ r ∈ M, r.length = w) : M'.length = M.length ∧ ∀ r ∈ M', r.length = w := by
  unfold Model.Student.gjStep at h
  cases hrk : M[k]? with
  | none => simp [hrk] at h
  | some rk =>
    have hrkw : rk.length = w := hM rk (List.mem_of_getElem? hrk)
    cases hp : rk[k]? with
    | none => simp [hrk, hp] at h
    | some p =>
      simp only [hrk, hp, Option.bind_eq_bind, Option.bind_some] at h
      split at h
      · have hf := mapM_option_forall₂ _ _ _ h
        have hlen := hf.length_eq
        refine ⟨by rw [← hlen]; simp, ?_⟩
        intro r hr
        obtain ⟨n, hn, rfl⟩ := List.getElem_of_mem hr
        have hn' : n < M.zipIdx.length := by rw [hlen]; exact hn
        have hrel := List.forall₂_iff_get.1 hf |>.2 n hn' hn
        simp only [List.get_eq_getElem, List.getElem_zipIdx] at hrel
        have hmem : M[n]'(by simpa using hn') ∈ M := List.getElem_mem _
        split at hrel
        · simp only [Option.some.injEq] at hrel
          rw [← hrel]; simpa using hrkw
        · cases hfk : (M[n]'(by simpa using hn'))[k]? with
          | none => simp [hfk] at hrel
          | some f =>
            simp only [hfk, Option.bind_some, Option.some.injEq] at hrel
            rw [← hrel]
            simp [hM _ hmem, hrkw]
      · simp at h

theorem gj_shape (w : Nat) : ∀ (f k : Nat) (M M' : Mat α), Model.Student.gj f k M = some M' →
    (∀ r ∈ M, r.length = w) → M'.length = M.length ∧ ∀ r ∈ M', r.length = w := by
  intro f
  induction f with
  | zero => intro k M M' h hM; simp [Model.Student.gj] at h; subst h; exact ⟨rfl, hM⟩
  | succ f ih =>
    intro k M M' h hM
    unfold Model.Student.gj at h
    cases hs : Model.Student.gjStep k M with
    | none => simp [hs] at h
    | some M1 =>
      simp only [hs, Option.bind_some] at h
      have h1 := gjStep_shape k w M M1 hs hM
      have h2 := ih (k + 1) M1 M' h h1.2
      exact ⟨by rw [h2.1, h1.1], h2.2⟩

/-- the inverse has the shape of its (square) argument -/
theorem inv_shape (S M : Mat α) (h : Model.Student.inv S = some M) :
    M.length = S.length ∧ ∀ r ∈ M, r.length = S.length := by
  unfold Model.Student.inv at h
  simp only at h
  split at h
  · rename_i hall
    rw [List.all_eq_true] at hall
    cases hg : Model.Student.gj S.length 0 (S.zipIdx.map fun x => x.1 ++ Model.Student.identRow S.length x.2) with
    | none => simp [hg] at h
    | some M1 =>
      simp only [hg, Option.map_some, Option.some.injEq] at h
      have hsh := gj_shape (S.length + S.length) S.length 0 _ M1 hg (by
        intro r hr
        simp only [List.mem_map] at hr
        obtain ⟨⟨x, i⟩, hx, rfl⟩ := hr
        have hxm : x ∈ S := by
          have := List.mem_zipIdx hx
          exact this.2.2 ▸ List.getElem_mem _
        have := hall x hxm
        simp at this
        simp [Model.Student.identRow, this])
      subst h
      refine ⟨by simpa using hsh.1, ?_⟩
      intro r hr
      simp only [List.mem_map] at hr
      obtain ⟨x, hx, rfl⟩ := hr
      simp [hsh.2 x hx]
  · simp at h


theorem mapOpt_forall₂ {β γ : Type} (f : β → Option γ) : ∀ (l : List β) (r : List γ),
    Model.Modes.mapOpt f l = some r → List.Forall₂ (fun a b => f a = some b) l r := by
  intro l
  induction l with
  | nil => intro r h; simp [Model.Modes.mapOpt] at h; subst h; exact List.Forall₂.nil
  | cons a l ih =>
    intro r h
    unfold Model.Modes.mapOpt at h
    split at h
    · rename_i y ys hy hys
      simp only [Option.some.injEq] at h
      subst h
      exact List.Forall₂.cons hy (ih ys hys)
    · simp at h

theorem mapOpt_eq_none_iff {β γ : Type} (f : β → Option γ) (l : List β) :
    Model.Modes.mapOpt f l = none ↔ ∃ x ∈ l, f x = none := by
  induction l with
  | nil => simp [Model.Modes.mapOpt]
  | cons a l ih =>
    unfold Model.Modes.mapOpt
    cases hfa : f a with
    | none => simp [hfa]
    | some y =>
      cases hl : Model.Modes.mapOpt f l with
      | none => simp [hfa]; exact ih.1 hl
      | some ys =>
        simp only [reduceCtorEq, false_iff, List.mem_cons, not_exists, not_and]
        intro x hx
        rcases hx with rfl | hx
        · simp [hfa]
        · intro hn
          have := ih.2 ⟨x, hx, hn⟩
          rw [hl] at this; exact absurd this (by simp)

theorem mapOpt_eq_some_of_forall {β γ : Type} (f : β → Option γ) (g : β → γ) (l : List β)
    (h : ∀ x ∈ l, f x = some (g x)) : Model.Modes.mapOpt f l = some (l.map g) := by
  induction l with
  | nil => rfl
  | cons a l ih =>
    unfold Model.Modes.mapOpt
    rw [h a (by simp), ih (fun x hx => h x (by simp [hx]))]
    rfl

theorem chunks_length {β : Type} (len : Nat) : ∀ (n : Nat) (xs : List β), (chunks len n xs).length = n := by
  intro n
  induction n with
  | zero => intro xs; rfl
  | succ n ih => intro xs; simp [chunks, ih]

theorem chunks_mem_length {β : Type} (len : Nat) : ∀ (n : Nat) (xs : List β), n * len ≤ xs.length →
    ∀ c ∈ chunks len n xs, c.length = len := by
  intro n
  induction n with
  | zero => intro xs _ c hc; simp [chunks] at hc
  | succ n ih =>
    intro xs h c hc
    have h' : n * len + len ≤ xs.length := by rw [Nat.succ_mul] at h; exact h
    simp only [chunks, List.mem_cons] at hc
    rcases hc with rfl | hc
    · simp; omega
    · exact ih (xs.drop len) (by simp; omega) c hc

@[simp] theorem reshapeCovs_data {β : Type} (c : NDArr β) : (reshapeCovs c).data = c.data := by
  unfold reshapeCovs; split <;> rfl
@[simp] theorem reshapeMeans_data {β : Type} (c : NDArr β) : (reshapeMeans c).data = c.data := by
  unfold reshapeMeans; split <;> rfl
@[simp] theorem reshapeDofs_data {β : Type} (c : NDArr β) : (reshapeDofs c).data = c.data := by
  unfold reshapeDofs; split <;> rfl

/-- the three reshape rules, on shapes -/
theorem C03_reshape_rules {β : Type} (n : Nat) (a b : Nat) :
    (reshapeMeans (⟨[n], List.replicate n (0 : Nat)⟩ : NDArr Nat)).shape = [1, n] ∧
    (reshapeCovs (⟨[a, b], []⟩ : NDArr β)).shape = [1, a, b] ∧
    (reshapeDofs (⟨[], []⟩ : NDArr β)).shape = [1] ∧
    (reshapeMeans (⟨[a, b], []⟩ : NDArr β)).shape = [a, b] ∧
    (reshapeCovs (⟨[n, a, b], []⟩ : NDArr β)).shape = [n, a, b] ∧
    (reshapeDofs (⟨[n], []⟩ : NDArr β)).shape = [n] := by
  simp [reshapeMeans, reshapeCovs, reshapeDofs, NDArr.ndim]

/-- the shapes after the reshape rules fit together: `(K, d)`, `(K, d, d)`, `(K,)` -/
def ShapesAgree {β : Type} (m c n : NDArr β) : Prop :=
  ∃ K d, (reshapeMeans m).shape = [K, d] ∧ (reshapeCovs c).shape = [K, d, d] ∧ (reshapeDofs n).shape = [K]

/-- the constructor's result in terms of the validated shapes and the numeric tail -/
theorem init_eq_of_shapes (m c n : NDArr α) (lab : Option (List Nat)) {K d : Nat}
    (hm : (reshapeMeans m).shape = [K, d]) (hc : (reshapeCovs c).shape = [K, d, d]) (hn : (reshapeDofs n).shape = [K]) :
    init m c n lab = match factorise (matrices K d c.data) with
      | none => .linAlgError
      | some (is, ls) => .ok { means := reshapeMeans m, covariances := reshapeCovs c, dofs := reshapeDofs n,
                               labels := lab, invCovs := is, cholCovs := ls } := by
  unfold init
  simp only [hm, hc, hn, bne_self_eq_false, Bool.false_eq_true, if_false, reshapeCovs_data]
  cases factorise (matrices K d c.data) <;> rfl

/-- **`ValueError` exactly when the shapes disagree** -/
theorem C03_init_valueError_iff (m c n : NDArr α) (lab : Option (List Nat)) :
    init m c n lab = .valueError ↔ ¬ ShapesAgree m c n := by
  constructor
  · rintro h ⟨K, d, hm, hc, hn⟩
    rw [init_eq_of_shapes m c n lab hm hc hn] at h
    split at h <;> simp at h
  · intro h
    unfold init
    simp only
    split
    · rename_i K d hm
      by_cases hc : (reshapeCovs c).shape = [K, d, d]
      · by_cases hn : (reshapeDofs n).shape = [K]
        · exact absurd ⟨K, d, hm, hc, hn⟩ h
        · simp [hc, hn]
      · simp [hc]
    · rfl


theorem factorise_some (mats is ls : List (Mat α)) (h : factorise mats = some (is, ls)) :
    List.Forall₂ (fun a b => Model.Student.inv a = some b) mats is ∧
    List.Forall₂ (fun a b => chol a = some b) mats ls := by
  unfold factorise at h
  cases hi : Model.Modes.mapOpt Model.Student.inv mats with
  | none => simp [hi] at h
  | some is' =>
    cases hl : Model.Modes.mapOpt chol mats with
    | none => simp [hi, hl] at h
    | some ls' =>
      simp only [hi, hl, Option.some.injEq, Prod.mk.injEq] at h
      obtain ⟨rfl, rfl⟩ := h
      exact ⟨mapOpt_forall₂ _ _ _ hi, mapOpt_forall₂ _ _ _ hl⟩

theorem matrices_length {β : Type} (K d : Nat) (data : List β) : (matrices K d data).length = K := by
  simp [matrices, chunks_length]

theorem matrices_mem_length {β : Type} (K d : Nat) (data : List β) : ∀ A ∈ matrices K d data, A.length = d := by
  intro A hA
  simp only [matrices, List.mem_map] at hA
  obtain ⟨c, _, rfl⟩ := hA
  exact chunks_length d d c

theorem forall₂_mem_right {β γ : Type} {R : β → γ → Prop} {l : List β} {r : List γ} (h : List.Forall₂ R l r) :
    ∀ b ∈ r, ∃ a ∈ l, R a b := by
  induction h with
  | nil => intro b hb; simp at hb
  | cons hab _ ih =>
    intro b hb
    rcases List.mem_cons.1 hb with rfl | hb
    · exact ⟨_, by simp, hab⟩
    · obtain ⟨a, ha, hr⟩ := ih b hb
      exact ⟨a, by simp [ha], hr⟩

/-- **a constructed object has consistent shapes**: `K` = number of means, `n_dim` = their length, one `d × d` inverse
    and one `d × d` factor per mode -/
theorem C03_init_ok_shape (m c n : NDArr α) (lab : Option (List Nat)) (s : Stats α) (h : init m c n lab = .ok s) :
    ∃ K d, s.means.shape = [K, d] ∧ s.covariances.shape = [K, d, d] ∧ s.dofs.shape = [K] ∧
      s.K = some K ∧ s.nDim = some d ∧ (chunks d K s.means.data).length = K ∧
      s.invCovs.length = K ∧ s.cholCovs.length = K ∧
      (∀ M ∈ s.invCovs, M.length = d ∧ ∀ r ∈ M, r.length = d) ∧
      (∀ M ∈ s.cholCovs, M.length = d ∧ ∀ r ∈ M, r.length = d) := by
  by_cases hs : ShapesAgree m c n
  · obtain ⟨K, d, hm, hc, hn⟩ := hs
    rw [init_eq_of_shapes m c n lab hm hc hn] at h
    split at h
    · simp at h
    · rename_i is ls hf
      simp only [Res.ok.injEq] at h
      subst h
      obtain ⟨hi, hl⟩ := factorise_some _ _ _ hf
      refine ⟨K, d, hm, hc, hn, by simp [Stats.K, hm], by simp [Stats.nDim, hm], chunks_length _ _ _,
        by rw [← hi.length_eq, matrices_length], by rw [← hl.length_eq, matrices_length], ?_, ?_⟩
      · intro M hM
        obtain ⟨A, hA, hAM⟩ := forall₂_mem_right hi M hM
        have := inv_shape A M hAM
        rw [matrices_mem_length K d _ A hA] at this
        exact this
      · intro M hM
        obtain ⟨A, hA, hAM⟩ := forall₂_mem_right hl M hM
        have := chol_shape A M hAM
        rw [matrices_mem_length K d _ A hA] at this
        exact this
  · rw [(C03_init_valueError_iff m c n lab).2 hs] at h
    simp at h

/-- the constructor agrees with C14's abstract `Model.Modes.mkModeStats` instantiated with the executable `inv` / `chol`:
    on agreeing shapes it raises exactly when that one answers `none` -/
theorem C03_init_refines_mkModeStats (m c n : NDArr α) (lab : Option (List Nat)) {K d : Nat}
    (hm : (reshapeMeans m).shape = [K, d]) (hc : (reshapeCovs c).shape = [K, d, d]) (hn : (reshapeDofs n).shape = [K])
    (hwf : n.data.length = K) :
    (∃ s, init m c n lab = .ok s) ↔
      (Model.Modes.mkModeStats Model.Student.inv chol (chunks d K m.data) (matrices K d c.data) n.data).isSome = true := by
  rw [init_eq_of_shapes m c n lab hm hc hn]
  unfold Model.Modes.mkModeStats factorise
  simp only [matrices_length, chunks_length, hwf, and_self, if_true]
  cases Model.Modes.mapOpt Model.Student.inv (matrices K d c.data) with
  | none => simp
  | some is =>
    cases Model.Modes.mapOpt chol (matrices K d c.data) with
    | none => simp
    | some ls => simp

end Shape

/-! ## 5. the constructor at ℝ: `LinAlgError` exactly when a covariance is not positive definite -/
section Outcome
variable {d : ℕ}
open Model.Student (inv)

theorem mapOpt_map_eq_some {β γ δ : Type} (f : γ → Option δ) (e : β → γ) (g : β → δ) (l : List β)
    (h : ∀ x ∈ l, f (e x) = some (g x)) : Model.Modes.mapOpt f (l.map e) = some (l.map g) := by
  induction l with
  | nil => rfl
  | cons a l ih =>
    rw [List.map_cons, Model.Modes.mapOpt, h a (by simp), ih (fun x hx => h x (by simp [hx]))]
    rfl

theorem factorise_matOf_posDef (Ss : List (Matrix (Fin d) (Fin d) ℝ)) (hpd : ∀ S ∈ Ss, S.PosDef) :
    factorise (Ss.map matOf) = some (Ss.map fun S => matOf S⁻¹, Ss.map fun S => matOf (cholMat S)) := by
  unfold factorise
  rw [mapOpt_map_eq_some inv matOf (fun S => matOf S⁻¹) Ss (fun S hS => inv_matOf_posDef S (hpd S hS)),
    mapOpt_map_eq_some chol matOf (fun S => matOf (cholMat S)) Ss (fun S hS => chol_matOf_posDef S (hpd S hS))]

theorem factorise_matOf_none_iff (Ss : List (Matrix (Fin d) (Fin d) ℝ)) (hsym : ∀ S ∈ Ss, S.IsSymm) :
    factorise (Ss.map matOf) = none ↔ ∃ S ∈ Ss, ¬ S.PosDef := by
  constructor
  · intro h
    by_contra hne
    push Not at hne
    rw [factorise_matOf_posDef Ss hne] at h
    simp at h
  · rintro ⟨S, hS, hnpd⟩
    have hcn : chol (matOf S) = none := by
      cases hc : chol (matOf S) with
      | none => rfl
      | some M =>
        exact absurd ((C03_chol_isSome_iff_of_symm S (hsym S hS)).1 (by rw [hc]; rfl)) hnpd
    have : Model.Modes.mapOpt chol (Ss.map matOf) = none :=
      (mapOpt_eq_none_iff _ _).2 ⟨matOf S, List.mem_map.2 ⟨S, hS, rfl⟩, hcn⟩
    unfold factorise
    rw [this]
    cases Model.Modes.mapOpt inv (Ss.map matOf) <;> rfl

/-- **error classes and values of the constructor on validated shapes with symmetric covariances `Ss`**:
    `LinAlgError` iff some covariance is not positive definite; otherwise the object carries, per mode, the list forms of
    `Σ⁻¹` and of the Cholesky factor of `Σ` -/
theorem C03_init_outcome (m c n : NDArr ℝ) (lab : Option (List Nat)) {K : ℕ} (Ss : List (Matrix (Fin d) (Fin d) ℝ))
    (hm : (reshapeMeans m).shape = [K, d]) (hc : (reshapeCovs c).shape = [K, d, d]) (hn : (reshapeDofs n).shape = [K])
    (hdata : matrices K d c.data = Ss.map matOf) (hsym : ∀ S ∈ Ss, S.IsSymm) :
    (init m c n lab = .linAlgError ↔ ∃ S ∈ Ss, ¬ S.PosDef) ∧
    ((∃ s, init m c n lab = .ok s) ↔ ∀ S ∈ Ss, S.PosDef) ∧
    (∀ s, init m c n lab = .ok s →
      s.invCovs = Ss.map (fun S => matOf S⁻¹) ∧ s.cholCovs = Ss.map (fun S => matOf (cholMat S)) ∧
      ∀ S ∈ Ss, IsCholeskyFactor S (cholMat S) ∧ S = cholMat S * (cholMat S)ᵀ ∧ IsUnit (cholMat S).det) := by
  rw [init_eq_of_shapes m c n lab hm hc hn, hdata]
  by_cases hpd : ∀ S ∈ Ss, S.PosDef
  · rw [factorise_matOf_posDef Ss hpd]
    refine ⟨⟨fun h => by simp at h, fun ⟨S, hS, hn⟩ => absurd (hpd S hS) hn⟩, ⟨fun _ => hpd, fun _ => ⟨_, rfl⟩⟩, ?_⟩
    intro s hs
    simp only [Res.ok.injEq] at hs
    subst hs
    refine ⟨rfl, rfl, fun S hS => ?_⟩
    have hf := cholMat_isFactor S (piv_pos_of_posDef S (hpd S hS))
    refine ⟨hf, ?_, isUnit_iff_ne_zero.2 (Lemmas.CholeskyPD.det_ne_zero_of_lower _ hf.lower hf.diag_pos)⟩
    rw [hf.factor, Lemmas.CholeskyPD.symLower_of_isSymm S (hsym S hS)]
  · have hnone := (factorise_matOf_none_iff Ss hsym).2 (by push Not at hpd; exact hpd)
    rw [hnone]
    refine ⟨⟨fun _ => by push Not at hpd; exact hpd, fun _ => rfl⟩, ⟨fun ⟨s, hs⟩ => by simp at hs, fun h => absurd h hpd⟩, ?_⟩
    intro s hs
    simp at hs


/-- without the symmetry hypothesis: `LinAlgError` iff for some covariance the model's `inv` fails or the symmetric matrix with
    its LOWER triangle is not positive definite (what `potrf` tests) -/
theorem C03_init_linAlgError_iff_general (m c n : NDArr ℝ) (lab : Option (List Nat)) {K : ℕ}
    (Ss : List (Matrix (Fin d) (Fin d) ℝ))
    (hm : (reshapeMeans m).shape = [K, d]) (hc : (reshapeCovs c).shape = [K, d, d]) (hn : (reshapeDofs n).shape = [K])
    (hdata : matrices K d c.data = Ss.map matOf) :
    init m c n lab = .linAlgError ↔ ∃ S ∈ Ss, inv (matOf S) = none ∨ ¬ (symLower S).PosDef := by
  rw [init_eq_of_shapes m c n lab hm hc hn, hdata]
  have hchol : ∀ S : Matrix (Fin d) (Fin d) ℝ, chol (matOf S) = none ↔ ¬ (symLower S).PosDef := by
    intro S
    rw [← C03_chol_isSome_iff]
    cases chol (matOf S) <;> simp
  unfold factorise
  cases hi : Model.Modes.mapOpt inv (Ss.map matOf) with
  | none =>
    obtain ⟨A, hA, hAn⟩ := (mapOpt_eq_none_iff _ _).1 hi
    obtain ⟨S, hS, rfl⟩ := List.mem_map.1 hA
    simp only [true_iff]
    exact ⟨S, hS, Or.inl hAn⟩
  | some is =>
    have hall : ∀ S ∈ Ss, inv (matOf S) ≠ none := by
      intro S hS hn'
      have := (mapOpt_eq_none_iff inv (Ss.map matOf)).2 ⟨matOf S, List.mem_map.2 ⟨S, hS, rfl⟩, hn'⟩
      rw [hi] at this; exact absurd this (by simp)
    cases hl : Model.Modes.mapOpt chol (Ss.map matOf) with
    | none =>
      obtain ⟨A, hA, hAn⟩ := (mapOpt_eq_none_iff _ _).1 hl
      obtain ⟨S, hS, rfl⟩ := List.mem_map.1 hA
      simp only [true_iff]
      exact ⟨S, hS, Or.inr ((hchol S).1 hAn)⟩
    | some ls =>
      simp only [reduceCtorEq, false_iff, not_exists, not_and, not_or, not_not]
      intro S hS
      refine ⟨hall S hS, ?_⟩
      by_contra hnpd
      have := (mapOpt_eq_none_iff chol (Ss.map matOf)).2 ⟨matOf S, List.mem_map.2 ⟨S, hS, rfl⟩, (hchol S).2 hnpd⟩
      rw [hl] at this; exact absurd this (by simp)

/-- any left inverse (what a correct `np.linalg.inv` returns, in exact arithmetic) is the model's answer -/
theorem C03_inv_unique (S X : Matrix (Fin d) (Fin d) ℝ) (hS : S.PosDef) (hX : X * S = 1) :
    inv (matOf S) = some (matOf X) := by
  rw [inv_matOf_posDef S hS, Matrix.inv_eq_left_inv hX]

/-! ### the hand-over to the kernel model -/

theorem zipModes_getElem? {α : Type} [ScT α] : ∀ (mus : List (List α)) (ls is : List (Mat α)) (nus : List α) (k : ℕ)
    (md : Model.Kernel.Mode α), (zipModes mus ls is nus)[k]? = some md →
      mus[k]? = some md.mu ∧ ls[k]? = some md.chol ∧ is[k]? = some md.invcov ∧ nus[k]? = some md.nu := by
  intro mus
  induction mus with
  | nil => intro ls is nus k md h; simp [zipModes] at h
  | cons mu mus ih =>
    intro ls is nus k md h
    cases ls with
    | nil => simp [zipModes] at h
    | cons l ls =>
      cases is with
      | nil => simp [zipModes] at h
      | cons i is =>
        cases nus with
        | nil => simp [zipModes] at h
        | cons nu nus =>
          cases k with
          | zero =>
            simp only [zipModes, List.getElem?_cons_zero, Option.some.injEq] at h
            subst h; simp
          | succ k =>
            simp only [zipModes, List.getElem?_cons_succ] at h
            simpa using ih ls is nus k md h

theorem zipModes_length {α : Type} [ScT α] : ∀ (K : ℕ) (mus : List (List α)) (ls is : List (Mat α)) (nus : List α),
    mus.length = K → ls.length = K → is.length = K → nus.length = K → (zipModes mus ls is nus).length = K := by
  intro K
  induction K with
  | zero =>
    intro mus ls is nus h1 _ _ _
    cases mus with
    | nil => simp [zipModes]
    | cons _ _ => simp at h1
  | succ K ih =>
    intro mus ls is nus h1 h2 h3 h4
    cases mus with
    | nil => simp at h1
    | cons mu mus =>
      cases ls with
      | nil => simp at h2
      | cons l ls =>
        cases is with
        | nil => simp at h3
        | cons i is =>
          cases nus with
          | nil => simp at h4
          | cons nu nus =>
            simp only [zipModes, List.length_cons, Nat.add_right_cancel_iff] at h1 h2 h3 h4 ⊢
            exact ih mus ls is nus h1 h2 h3 h4

/-- one kernel `Mode` record per mode, assembled from row `k` of the means, factor `k`, inverse `k`, dof `k` -/
theorem C03_kernelModes_spec {α : Type} [ScT α] (m c n : NDArr α) (lab : Option (List Nat)) (s : Stats α)
    (h : init m c n lab = .ok s) (hwf : n.wf = true) :
    ∃ K d, s.means.shape = [K, d] ∧ s.kernelModes.length = K ∧
      ∀ (k : ℕ) (md : Model.Kernel.Mode α), s.kernelModes[k]? = some md →
        (chunks d K s.means.data)[k]? = some md.mu ∧ s.cholCovs[k]? = some md.chol ∧
        s.invCovs[k]? = some md.invcov ∧ s.dofs.data[k]? = some md.nu := by
  obtain ⟨K, d, hm, -, hn, -, -, hmu, hi, hl, -, -⟩ := C03_init_ok_shape m c n lab s h
  have hdofs : s.dofs.data.length = K := by
    by_cases hs : ShapesAgree m c n
    · obtain ⟨K', d', hm', hc', hn'⟩ := hs
      rw [init_eq_of_shapes m c n lab hm' hc' hn'] at h
      split at h
      · simp at h
      · simp only [Res.ok.injEq] at h
        subst h
        simp only [reshapeDofs_data] at hn ⊢
        have hK : K' = K := by rw [hn'] at hn; simpa using hn
        subst hK
        -- well-formedness of the dof array as given, through the reshape rule
        unfold NDArr.wf at hwf
        unfold reshapeDofs at hn'
        split at hn'
        · rename_i h0
          have : n.shape = [] := by simpa [NDArr.ndim] using h0
          simp only at hn'
          have hK1 : K' = 1 := by simpa using hn'.symm
          rw [this] at hwf
          simpa [prod, hK1] using hwf
        · rw [hn'] at hwf
          simpa [prod] using hwf
    · rw [(C03_init_valueError_iff m c n lab).2 hs] at h
      simp at h
  refine ⟨K, d, hm, ?_, ?_⟩
  · unfold Stats.kernelModes
    rw [hm]
    exact zipModes_length K _ _ _ _ hmu hl hi hdofs
  · intro k md hk
    unfold Stats.kernelModes at hk
    rw [hm] at hk
    exact zipModes_getElem? _ _ _ _ k md hk

/-- **capstone**: every `Mode` record the constructor model hands to the kernel model satisfies H_modes — its `chol` is a
    lower-triangular invertible `L` with positive diagonal, `Σ = L Lᵀ`, its `invcov` is `Σ⁻¹`, and the kernel model's own
    quadratic form `dot` is non-negative — with no hypothesis left except that the covariances are symmetric
    (positive definiteness follows from the constructor not having raised) -/
theorem C03_init_modes_satisfy_H_modes (m c n : NDArr ℝ) (lab : Option (List Nat)) {K : ℕ}
    (Ss : List (Matrix (Fin d) (Fin d) ℝ))
    (hm : (reshapeMeans m).shape = [K, d]) (hc : (reshapeCovs c).shape = [K, d, d]) (hn : (reshapeDofs n).shape = [K])
    (hdata : matrices K d c.data = Ss.map matOf) (hsym : ∀ S ∈ Ss, S.IsSymm) (hwf : n.wf = true)
    (s : Stats ℝ) (h : init m c n lab = .ok s) :
    s.kernelModes.length = K ∧
    ∀ (k : ℕ) (md : Model.Kernel.Mode ℝ), s.kernelModes[k]? = some md →
      ∃ (S L : Matrix (Fin d) (Fin d) ℝ), Ss[k]? = some S ∧ S.PosDef ∧ md.chol = matOf L ∧ md.invcov = matOf S⁻¹ ∧
        (∀ i j, i < j → L i j = 0) ∧ (∀ i, 0 < L i i) ∧ IsUnit L.det ∧ S = L * Lᵀ ∧ S⁻¹ = (L * Lᵀ)⁻¹ ∧
        ∀ u μ : Fin d → ℝ,
          Model.Kernel.qform (Model.Kernel.vsub (List.ofFn u) (List.ofFn μ)) md.invcov = maha S (u - μ) ∧
          0 ≤ Model.Kernel.qform (Model.Kernel.vsub (List.ofFn u) (List.ofFn μ)) md.invcov := by
  obtain ⟨-, ⟨hok, -⟩, hval⟩ := C03_init_outcome m c n lab Ss hm hc hn hdata hsym
  have hpd := hok ⟨s, h⟩
  obtain ⟨hinv, hchol, hfac⟩ := hval s h
  obtain ⟨K', d', hm', hlen, hspec⟩ := C03_kernelModes_spec m c n lab s h hwf
  have hK : K' = K := by
    obtain ⟨K'', d'', hm'', -, -, -, -, -, hi'', -⟩ := C03_init_ok_shape m c n lab s h
    have e1 : K'' = K' := by rw [hm''] at hm'; simpa using (List.cons.inj hm').1
    have e2 : Ss.length = K := by
      have := congrArg List.length hdata
      rw [matrices_length, List.length_map] at this
      exact this.symm
    rw [hinv, List.length_map, e2] at hi''
    omega
  refine ⟨by rw [hlen, hK], ?_⟩
  intro k md hk
  obtain ⟨-, hl, hi, -⟩ := hspec k md hk
  rw [hchol, List.getElem?_map] at hl
  rw [hinv, List.getElem?_map] at hi
  cases hS : Ss[k]? with
  | none => simp [hS] at hl
  | some S =>
    simp only [hS, Option.map_some, Option.some.injEq] at hl hi
    have hmem : S ∈ Ss := List.mem_of_getElem? hS
    obtain ⟨hf, hmul, hunit⟩ := hfac S hmem
    have hiS : Model.Student.inv (matOf S) = some md.invcov := by rw [← hi]; exact inv_matOf_posDef S (hpd S hmem)
    have hcS : chol (matOf S) = some md.chol := by rw [← hl]; exact chol_matOf_posDef S (hpd S hmem)
    refine ⟨S, cholMat S, rfl, hpd S hmem, hl.symm, hi.symm, hf.lower, hf.diag_pos, hunit, hmul, by rw [← hmul], ?_⟩
    intro u μ
    exact ⟨C03_model_kernel_dot_is_maha S _ hiS u μ, C03_model_kernel_dot_nonneg S (hsym S hmem) _ _ hcS hiS u μ⟩

end Outcome

/-! ## 6. non-vacuity -/
section Examples

/-- a correlated 3 × 3 covariance and its factor -/
def exS : Matrix (Fin 3) (Fin 3) ℝ := !![4, 2, -2; 2, 5, 1; -2, 1, 3]
def exL : Matrix (Fin 3) (Fin 3) ℝ := !![2, 0, 0; 1, 2, 0; -1, 1, 1]

theorem exS_symm : exS.IsSymm := by
  ext i j; fin_cases i <;> fin_cases j <;> simp [exS]

theorem exFactor : IsCholeskyFactor exS exL where
  lower := by intro i j h; fin_cases i <;> fin_cases j <;> simp_all [exL]
  diag_pos := by intro i; fin_cases i <;> simp [exL]
  factor := by
    ext i j
    fin_cases i <;> fin_cases j <;>
      simp [exS, exL, Matrix.mul_apply, Fin.sum_univ_three, symLower] <;> norm_num

theorem exS_posDef : exS.PosDef := Lemmas.CholeskyPD.posDef_of_factor_of_isSymm exS exL exS_symm exFactor

/-- the model's algorithm returns exactly this factor on this matrix … -/
example : chol (matOf exS) = some (matOf exL) := C03_chol_unique exS exL exFactor
/-- … which `C03_chol_sound` then certifies, and `C03_chol_complete` predicts -/
example : ∃ L, matOf exL = matOf L ∧ IsCholeskyFactor exS L := C03_chol_sound exS _ (C03_chol_unique exS exL exFactor)
example : ∃ L, chol (matOf exS) = some (matOf L) ∧ IsCholeskyFactor exS L := C03_chol_complete exS exS_posDef
example : (chol (matOf exS)).isSome = true := (C03_chol_isSome_iff_of_symm exS exS_symm).2 exS_posDef
example : ∃ L : Matrix (Fin 3) (Fin 3) ℝ, chol (matOf exS) = some (matOf L) ∧
    Model.Student.inv (matOf exS) = some (matOf exS⁻¹) ∧ (∀ i j, i < j → L i j = 0) ∧ (∀ i, 0 < L i i) ∧ IsUnit L.det ∧
    exS = L * Lᵀ ∧ exS⁻¹ = (L * Lᵀ)⁻¹ := C03_model_modes_hypotheses exS exS_posDef
example (v : Fin 3 → ℝ) : 0 ≤ maha exS v := C03_model_dot_nonneg exS exL exS_symm (C03_chol_unique exS exL exFactor) v
example : maha exS ((![1, 0, 2] + (1/2 : ℝ) • (exL *ᵥ ![1, -1, 3])) - ![1, 0, 2]) = (1/2) ^ 2 * (![1, -1, 3] ⬝ᵥ ![1, -1, 3]) :=
  C03_model_rwm_increment_norm exS exL exS_symm (C03_chol_unique exS exL exFactor) _ _ _

/-- the upper triangle is not read: a matrix with garbage above the diagonal gets the same factor -/
def exAsym : Matrix (Fin 3) (Fin 3) ℝ := !![4, 99, 7; 2, 5, -8; -2, 1, 3]
example : chol (matOf exAsym) = some (matOf exL) := by
  have h : symLower exAsym = exS := by
    ext i j; fin_cases i <;> fin_cases j <;> simp [symLower, exAsym, exS]
  rw [C03_chol_reads_lower_only, h]
  exact C03_chol_unique exS exL exFactor

/-- an indefinite symmetric matrix: `LinAlgError` -/
def exIndef : Matrix (Fin 2) (Fin 2) ℝ := !![1, 2; 2, 1]
theorem exIndef_symm : exIndef.IsSymm := by ext i j; fin_cases i <;> fin_cases j <;> simp [exIndef]
theorem exIndef_not_posDef : ¬ exIndef.PosDef := by
  intro h
  have := h.dotProduct_mulVec_pos (x := ![1, -1]) (by intro h0; have := congrFun h0 0; simp at this)
  simp [exIndef, dotProduct, Matrix.mulVec, Fin.sum_univ_two] at this
example : chol (matOf exIndef) = none := by
  cases h : chol (matOf exIndef) with
  | none => rfl
  | some M => exact absurd ((C03_chol_isSome_iff_of_symm exIndef exIndef_symm).1 (by rw [h]; rfl)) exIndef_not_posDef

/-- the constructor with all three reshape rules firing: 1-D mean, 2-D covariance, scalar dof -/
noncomputable def exMeans : NDArr ℝ := ⟨[3], [1/2, 1/4, 3/4]⟩
noncomputable def exCovs : NDArr ℝ := ⟨[3, 3], [4, 2, -2, 2, 5, 1, -2, 1, 3]⟩
noncomputable def exDof : NDArr ℝ := ⟨[], [5/2]⟩

theorem exData : matrices 1 3 exCovs.data = [exS].map matOf := by
  simp [matrices, chunks, exCovs, matOf, exS, List.ofFn_succ]

example : ∃ s, init exMeans exCovs exDof none = .ok s ∧ s.K = some 1 ∧ s.nDim = some 3 ∧
    s.cholCovs = [matOf (cholMat exS)] ∧ s.invCovs = [matOf exS⁻¹] := by
  have hm : (reshapeMeans exMeans).shape = [1, 3] := by simp [reshapeMeans, exMeans, NDArr.ndim]
  have hc : (reshapeCovs exCovs).shape = [1, 3, 3] := by simp [reshapeCovs, exCovs, NDArr.ndim]
  have hn : (reshapeDofs exDof).shape = [1] := by simp [reshapeDofs, exDof, NDArr.ndim]
  obtain ⟨-, ⟨hok, -⟩, hval⟩ := C03_init_outcome exMeans exCovs exDof none [exS] hm hc hn exData
    (by intro S hS; simp at hS; subst hS; exact exS_symm)
  obtain ⟨s, hs⟩ := (C03_init_outcome exMeans exCovs exDof none [exS] hm hc hn exData
    (by intro S hS; simp at hS; subst hS; exact exS_symm)).2.1.2 (by intro S hS; simp at hS; subst hS; exact exS_posDef)
  obtain ⟨K, d, hm', -, -, hK, hd, -⟩ := C03_init_ok_shape _ _ _ _ s hs
  have hsm : s.means.shape = [1, 3] := by
    rw [init_eq_of_shapes _ _ _ _ hm hc hn] at hs
    split at hs
    · simp at hs
    · simp only [Res.ok.injEq] at hs; rw [← hs]; exact hm
  rw [hsm] at hm'
  obtain ⟨rfl, rfl⟩ : 1 = K ∧ 3 = d := by simpa using hm'
  exact ⟨s, hs, hK, hd, (hval s hs).2.1, (hval s hs).1⟩

/-- the capstone on this input: ONE kernel record, whose factor / inverse are those of `exS`, with a non-negative `dot` -/
example (s : Stats ℝ) (h : init exMeans exCovs exDof none = .ok s) :
    s.kernelModes.length = 1 ∧ ∀ md, s.kernelModes[0]? = some md →
      md.invcov = matOf exS⁻¹ ∧ ∀ u μ : Fin 3 → ℝ,
        0 ≤ Model.Kernel.qform (Model.Kernel.vsub (List.ofFn u) (List.ofFn μ)) md.invcov := by
  have hm : (reshapeMeans exMeans).shape = [1, 3] := by simp [reshapeMeans, exMeans, NDArr.ndim]
  have hc : (reshapeCovs exCovs).shape = [1, 3, 3] := by simp [reshapeCovs, exCovs, NDArr.ndim]
  have hn : (reshapeDofs exDof).shape = [1] := by simp [reshapeDofs, exDof, NDArr.ndim]
  obtain ⟨hlen, hall⟩ := C03_init_modes_satisfy_H_modes exMeans exCovs exDof none [exS] hm hc hn exData
    (by intro S hS; simp at hS; subst hS; exact exS_symm) (by simp [NDArr.wf, prod, exDof]) s h
  refine ⟨hlen, fun md hmd => ?_⟩
  obtain ⟨S, L, hS, -, -, hinv, -, -, -, -, -, hq⟩ := hall 0 md hmd
  have : S = exS := by simpa using hS.symm
  subst this
  exact ⟨hinv, fun u μ => (hq u μ).2⟩

/-- a covariance of the wrong dimension: `ValueError` (first validation); a dof vector of the wrong length: `ValueError` -/
example : init exMeans (⟨[2, 2], [1, 0, 0, 1]⟩ : NDArr ℝ) exDof none = .valueError := by
  rw [C03_init_valueError_iff]
  rintro ⟨K, d, hm, hc, -⟩
  simp [reshapeMeans, reshapeCovs, exMeans, NDArr.ndim] at hm hc
  omega
example : init exMeans exCovs (⟨[2], [3, 3]⟩ : NDArr ℝ) none = .valueError := by
  rw [C03_init_valueError_iff]
  rintro ⟨K, d, hm, -, hn⟩
  simp [reshapeMeans, reshapeDofs, exMeans, NDArr.ndim] at hm hn
  omega
/-- a 0-d `means` cannot be unpacked into `K, n_dim`: `ValueError` -/
example : init (⟨[], [1]⟩ : NDArr ℝ) exCovs exDof none = .valueError := by
  rw [C03_init_valueError_iff]
  rintro ⟨K, d, hm, -, -⟩
  simp [reshapeMeans, NDArr.ndim] at hm

/-- an indefinite covariance: `LinAlgError` -/
example : init (⟨[2], [0, 0]⟩ : NDArr ℝ) (⟨[2, 2], [1, 2, 2, 1]⟩ : NDArr ℝ) exDof none = .linAlgError := by
  refine (C03_init_outcome (d := 2) (K := 1) _ _ _ none [exIndef] (by simp [reshapeMeans, NDArr.ndim])
    (by simp [reshapeCovs, NDArr.ndim]) (by simp [reshapeDofs, exDof, NDArr.ndim])
    (by simp [matrices, chunks, matOf, exIndef, List.ofFn_succ])
    (by intro S hS; simp at hS; subst hS; exact exIndef_symm)).1.2 ⟨exIndef, by simp, exIndef_not_posDef⟩

end Examples

end Props.C03
