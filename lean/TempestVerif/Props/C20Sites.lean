import TempestVerif.Props.C20Audit
import TempestVerif.Model.TrimSites
import TempestVerif.Gen.Constants
import Mathlib.Analysis.SpecialFunctions.Exp
import Mathlib.Tactic
/-
  C20 — clause audit, part 2: the CALL SITES of the weight utilities (`Model.TrimSites`), at `ℝ`.

    Trainer.run        : C20_trainer_is_trim (indexing through `np.arange` + fancy indexing = masking the rows directly),
                         C20_trainer_site (the contract at the call site: rows and weights aligned, normalised, ESS kept,
                         never raises), C20_trainer_beta_zero, C20_gen_trim_constants (TRIM_ESS ≤ 1, TRIM_BINS ≥ 1 as
                         regenerated from /repo's config.py)
    execute_iteration  : C20_weights_after_trainer (the resampler receives w/Σw — proportional weights, same ESS)
    reweighter / guard : C20_expShift_valid (exp(logw − max) is a valid weight vector: positive, sum ≥ 1),
                         C20_callsite_ess_bounds, C20_metric_site
    compute_ess(-inf)  : C20_compute_ess_neginf, C20_compute_ess_neginf_bounds, C20_compute_ess_all_neginf
-/
namespace Props.C20
open Model.Ess Model.Trim Model.Records Model.TrimSites

/-! ### fancy indexing with the kept indices = boolean masking -/

theorem gather?_cons_map_succ {σ : Type} (x : σ) (xs : List σ) (idx : List Nat) :
    gather? (x :: xs) (idx.map Nat.succ) = gather? xs idx := by
  induction idx with
  | nil => rfl
  | cons i is ih => simp [gather?, ih]

theorem filterMask_map {σ τ : Type} (f : σ → τ) (l : List σ) (m : List Bool) :
    filterMask (l.map f) m = (filterMask l m).map f := by
  induction l generalizing m with
  | nil => cases m <;> simp [filterMask]
  | cons a l ih =>
    cases m with
    | nil => simp [filterMask]
    | cons b m => cases b <;> simp [filterMask, ih]

/-- `u[np.arange(n)[mask]] = u[mask]` for a mask as long as the array -/
theorem gather_filterMask_range {σ : Type} (u : List σ) (m : List Bool) (h : m.length = u.length) :
    gather? u (filterMask (List.range u.length) m) = some (filterMask u m) := by
  induction u generalizing m with
  | nil => cases m <;> simp [filterMask, gather?]
  | cons x xs ih =>
    cases m with
    | nil => simp at h
    | cons b m =>
      have hm : m.length = xs.length := by simpa using h
      have hr : List.range (x :: xs).length = 0 :: (List.range xs.length).map Nat.succ := by
        simp [List.range_succ_eq_map]
      rw [hr]
      cases b
      · simp only [filterMask, Bool.false_eq_true, if_false]
        rw [filterMask_map, gather?_cons_map_succ, ih m hm]
      · simp only [filterMask, if_true]
        rw [filterMask_map]
        simp only [gather?, List.getElem?_cons_zero]
        rw [gather?_cons_map_succ, ih m hm]

/-- the mask of the stopping pass has one entry per weight -/
theorem trimStop_mask_length (w : List ℝ) (e : ℝ) (bins : Nat) (j : Nat) (st : Step ℝ)
    (h : trimStop w e bins = some (j, st)) : st.mask.length = w.length := by
  unfold trimStop at h
  by_cases hb : bins = 0
  · simp [hb] at h
  · simp only [hb, if_false] at h
    obtain ⟨_, hstep, _, _⟩ := search_spec _ _ _ _ _ _ _ _ h
    obtain ⟨_, hm, _, _⟩ := step_spec _ _ _ _ _ hstep
    rw [hm, List.length_map, normalise_def, List.length_map]

/-- **Trainer.run, alignment through the index detour.**  `trim_weights(np.arange(N), w, …)` followed by `u[trim_idx]` hands
    the fitting routines exactly what `trim_weights(u, w, …)` would have returned: the rows of `u` selected by the SAME mask
    as the weights — for every weight vector (no validity hypothesis), as long as `u` has one row per weight. -/
theorem C20_trainer_is_trim {σ : Type} (u : List σ) (w : List ℝ) (e : ℝ) (bins : Nat) (hl : u.length = w.length) :
    trainerRun false u w e bins = (trim u w e bins).map fun r => (some (r.1, r.2), normalise w) := by
  unfold trainerRun trim
  simp only [Bool.false_eq_true, if_false]
  cases hts : trimStop w e bins with
  | none => simp
  | some r =>
    obtain ⟨j, st⟩ := r
    have hml := trimStop_mask_length w e bins j st hts
    simp only [Option.map_some, Option.bind_some]
    rw [← hl, gather_filterMask_range u st.mask (by rw [hml, hl])]
    rfl

/-- at `beta == 0` the trainer returns before trimming: nothing is handed to a fitting routine and the caller's
    array is left as it was -/
theorem C20_trainer_beta_zero {σ : Type} (u : List σ) (w : List ℝ) (e : ℝ) (bins : Nat) :
    trainerRun true u w e bins = some (none, w) := rfl

/-- **Trainer.run, the contract at the call site.**  For a valid weight vector, one history row per weight, `bins ≥ 1` and
    `e ≤ 1`, the call does not raise; the (row, normalised weight) pairs handed to `clusterer.fit` / `from_particles` /
    `from_global` are exactly the history pairs whose normalised weight is `≥ θ`, in history order; the weights handed over
    are those divided by their sum (non-negative, sum 1, at least one), with `e·ESS(all) ≤ ESS(handed over) ≤ ESS(all)`;
    and the caller's array has become `w/Σw`. -/
theorem C20_trainer_site {σ : Type} (u : List σ) (w : List ℝ) (e : ℝ) (bins : Nat)
    (h0 : ∀ x ∈ w, 0 ≤ x) (hs : 0 < w.sum) (hl : u.length = w.length) (hb : 0 < bins) (he : e ≤ 1) :
    ∃ uk wt θ, trainerRun false u w e bins = some (some (uk, wt), normalise w) ∧
      uk.zip ((normalise w).filter (fun x => decide (θ ≤ x)))
        = (u.zip (normalise w)).filter (fun q => decide (θ ≤ q.2)) ∧
      wt = ((normalise w).filter (fun x => decide (θ ≤ x))).map
            (fun x => x / ((normalise w).filter (fun x => decide (θ ≤ x))).sum) ∧
      uk.length = wt.length ∧ uk ≠ [] ∧ uk.Sublist u ∧
      wt.sum = 1 ∧ (∀ x ∈ wt, 0 ≤ x) ∧ e * ess w ≤ ess wt ∧ ess wt ≤ ess w := by
  obtain ⟨uk, wt, θ, h, rest⟩ := C20_trim_contract u w e bins h0 hs hl hb he
  refine ⟨uk, wt, θ, ?_, rest⟩
  rw [C20_trainer_is_trim u w e bins hl, h]; rfl

/-- the sampler's trimming constants, regenerated from `/repo/tempest/config.py` on every run (translator G1):
    the requested fraction is in (0, 1] — so `C20_trainer_site` applies with `e = TRIM_ESS` — and the grid is non-empty -/
theorem C20_gen_trim_constants :
    (0 : ℝ) < (Gen.Constants.TRIM_ESSNum : ℝ) / Gen.Constants.TRIM_ESSDen ∧
    (Gen.Constants.TRIM_ESSNum : ℝ) / Gen.Constants.TRIM_ESSDen ≤ 1 ∧ 0 < Gen.Constants.TRIM_BINS := by
  refine ⟨?_, ?_, by decide⟩ <;> norm_num [Gen.Constants.TRIM_ESSNum, Gen.Constants.TRIM_ESSDen]

/-- **what the resampler receives** (`execute_iteration`: `trainer.run(weights); resampler.run(weights)` on one array object):
    untouched weights at `beta == 0`; otherwise `w/Σw` — proportional to what the reweighter returned, summing to one, same ESS -/
theorem C20_weights_after_trainer {σ : Type} (u : List σ) (w : List ℝ) (e : ℝ) (bins : Nat)
    (h0 : ∀ x ∈ w, 0 ≤ x) (hs : 0 < w.sum) (hl : u.length = w.length) (hb : 0 < bins) :
    weightsAfterTrainer true u w e bins = some w ∧
    weightsAfterTrainer false u w e bins = some (w.map (fun x => x / w.sum)) ∧
    (w.map (fun x => x / w.sum)).sum = 1 ∧ ess (w.map (fun x => x / w.sum)) = ess w := by
  obtain ⟨r, hr⟩ := C20_trim_terminates_any u w e bins h0 hs hb
  obtain ⟨h1, _, _, _⟩ := wn_facts w h0 hs
  refine ⟨rfl, ?_, ?_, ?_⟩
  · unfold weightsAfterTrainer
    rw [C20_trainer_is_trim u w e bins hl, hr, normalise_def]; rfl
  · rw [← normalise_def]; exact h1
  · rw [← normalise_def]
    show Sc.div Sc.one (sumSq (normalise (normalise w))) = Sc.div Sc.one (sumSq (normalise w))
    rw [normalise_of_sum_one _ h1]

/-! ### `weights = np.exp(logw - np.max(logw))` is always a valid argument -/

theorem foldl_max_ge (l : List ℝ) (p : ℝ) : p ≤ l.foldl Sc.max p ∧ ∀ y ∈ l, y ≤ l.foldl Sc.max p := by
  induction l generalizing p with
  | nil => simp
  | cons a l ih =>
    obtain ⟨h1, h2⟩ := ih (Sc.max p a)
    have hp : p ≤ Sc.max p a := by rw [ScReal.max_def]; exact le_max_left _ _
    have ha : a ≤ Sc.max p a := by rw [ScReal.max_def]; exact le_max_right _ _
    simp only [List.foldl_cons]
    refine ⟨le_trans hp h1, ?_⟩
    intro y hy
    rcases List.mem_cons.mp hy with rfl | hy
    · exact le_trans ha h1
    · exact h2 y hy

theorem foldl_max_mem (l : List ℝ) (p : ℝ) : l.foldl Sc.max p ∈ p :: l := by
  induction l generalizing p with
  | nil => simp
  | cons a l ih =>
    simp only [List.foldl_cons]
    have h := ih (Sc.max p a)
    rcases List.mem_cons.mp h with h | h
    · rw [h, ScReal.max_def]
      rcases max_choice p a with hc | hc <;> rw [hc] <;> simp
    · exact List.mem_cons_of_mem _ (List.mem_cons_of_mem _ h)

/-- `np.max` is an upper bound of the array and one of its entries -/
theorem maxOf_spec (x : ℝ) (xs : List ℝ) : (∀ y ∈ x :: xs, y ≤ maxOf x xs) ∧ maxOf x xs ∈ x :: xs := by
  obtain ⟨h1, h2⟩ := foldl_max_ge xs x
  refine ⟨?_, foldl_max_mem xs x⟩
  intro y hy
  rcases List.mem_cons.mp hy with rfl | hy
  · exact h1
  · exact h2 y hy

/-- **`exp(logw − max logw)` is a valid weight vector**: every entry in (0, 1], one entry equal to 1 (so the sum is ≥ 1) -/
theorem C20_expShift_valid (x : ℝ) (xs : List ℝ) :
    (∀ y ∈ expShift x xs, 0 < y ∧ y ≤ 1) ∧ (1 : ℝ) ∈ expShift x xs ∧ 1 ≤ (expShift x xs).sum ∧
    (expShift x xs).length = xs.length + 1 := by
  obtain ⟨hub, hmem⟩ := maxOf_spec x xs
  have hent : ∀ y ∈ expShift x xs, 0 < y ∧ y ≤ 1 := by
    intro y hy
    simp only [expShift, List.mem_map] at hy
    obtain ⟨l, hl, rfl⟩ := hy
    refine ⟨Real.exp_pos _, ?_⟩
    simp only [ScReal.exp_def, ScReal.sub_def]
    rw [← Real.exp_zero]
    exact Real.exp_le_exp.mpr (by have := hub l hl; linarith)
  have hone : (1 : ℝ) ∈ expShift x xs := by
    simp only [expShift, List.mem_map]
    exact ⟨maxOf x xs, hmem, by simp⟩
  refine ⟨hent, hone, ?_, by simp [expShift]⟩
  exact List.single_le_sum (fun y hy => (hent y hy).1.le) 1 hone

/-- hence the ESS the reweighter and the termination guard compute is always in `[1, N]` -/
theorem C20_callsite_ess_bounds (x : ℝ) (xs : List ℝ) :
    1 ≤ ess (expShift x xs) ∧ ess (expShift x xs) ≤ (xs.length + 1 : ℕ) := by
  obtain ⟨hent, _, hsum, hlen⟩ := C20_expShift_valid x xs
  have := C20_ess_bounds (expShift x xs) (fun y hy => (hent y hy).1.le) (by linarith)
  rw [hlen] at this
  exact this

/-- `_compute_metric_and_weights`: on a non-empty history it returns the weights `exp(logw − max)`, their ESS ∈ [1, N], and as
    metric either that ESS (ESS mode) or the volume metric of `(u, weights/Σweights)` — the SAME rows and the same weights,
    normalised to sum one -/
theorem C20_metric_site {σ : Type} (vv : Option (List σ → List ℝ → ℝ)) (u : List σ) (x : ℝ) (xs : List ℝ) :
    ∃ w, metricAndWeights vv u (x :: xs) = some (w, ess w, match vv with
        | none => ess w
        | some f => f u (w.map (fun y => y / w.sum))) ∧
      w = expShift x xs ∧ 1 ≤ ess w ∧ ess w ≤ (xs.length + 1 : ℕ) ∧ (w.map (fun y => y / w.sum)).sum = 1 := by
  obtain ⟨hent, _, hsum, _⟩ := C20_expShift_valid x xs
  obtain ⟨hb1, hb2⟩ := C20_callsite_ess_bounds x xs
  refine ⟨expShift x xs, ?_, rfl, hb1, hb2, ?_⟩
  · cases vv <;> simp [metricAndWeights, normalise_def]
  · rw [sum_map_div]; exact div_self (by linarith)

/-! ### `compute_ess(logw)` when some log-weights are `-inf` -/

/-- the weight of a log-weight, `-inf ↦ 0` -/
noncomputable def expOpt : Option ℝ → ℝ
  | none => 0
  | some l => Real.exp l

theorem maxFinite_none_iff (lw : List (Option ℝ)) : maxFinite lw = none ↔ ∀ a ∈ lw, a = none := by
  induction lw with
  | nil => simp [maxFinite]
  | cons a r ih =>
    cases a with
    | none => simp [maxFinite, ih]
    | some a => cases hq : maxFinite r <;> simp [maxFinite, hq]

theorem maxFinite_some (lw : List (Option ℝ)) (m : ℝ) (h : maxFinite lw = some m) :
    (∀ l, some l ∈ lw → l ≤ m) ∧ some m ∈ lw := by
  induction lw generalizing m with
  | nil => simp [maxFinite] at h
  | cons a r ih =>
    cases a with
    | none =>
      simp only [maxFinite] at h
      obtain ⟨h1, h2⟩ := ih m h
      exact ⟨fun l hl => h1 l (by simpa using hl), List.mem_cons_of_mem _ h2⟩
    | some a =>
      simp only [maxFinite] at h
      cases hr : maxFinite r with
      | none =>
        rw [hr] at h; injection h with h; subst h
        refine ⟨fun l hl => ?_, by simp⟩
        rcases List.mem_cons.mp hl with hl | hl
        · injection hl with hl; rw [hl]
        · exact absurd ((maxFinite_none_iff r).mp hr _ hl) (by simp)
      | some m' =>
        rw [hr] at h; injection h with h; subst h
        obtain ⟨h1, h2⟩ := ih m' hr
        rw [ScReal.max_def]
        refine ⟨fun l hl => ?_, ?_⟩
        · rcases List.mem_cons.mp hl with hl | hl
          · injection hl with hl; rw [hl]; exact le_max_left _ _
          · exact le_trans (h1 l hl) (le_max_right _ _)
        · rcases max_choice a m' with hc | hc <;> rw [hc]
          · simp
          · exact List.mem_cons_of_mem _ h2

/-- **`compute_ess` with `-inf` log-weights** = ESS of the weights `exp(l)` (zero where the log-weight is `-inf`), divided by `N`:
    as long as one log-weight is finite the max-shift is a no-op and the `-inf` entries are zero-weight samples -/
theorem C20_compute_ess_neginf (lw : List (Option ℝ)) (m : ℝ) (h : maxFinite lw = some m) :
    computeEssE lw = some (ess (lw.map expOpt) / lw.length) := by
  simp only [computeEssE, h, Option.map_some, ScReal.div_def, ScReal.ofNat_def]
  have hmap : expShiftE m lw = (lw.map expOpt).map (fun y => Real.exp (-m) * y) := by
    unfold expShiftE
    rw [List.map_map]
    apply List.map_congr_left
    intro a _
    cases a with
    | none => simp [expOpt]
    | some l =>
      simp only [Function.comp, expOpt, ScReal.exp_def, ScReal.sub_def]
      rw [← Real.exp_add]; congr 1; ring
  have hess : Sc.div Sc.one (sumSq (normalise (expShiftE m lw))) = ess (lw.map expOpt) := by
    rw [hmap]
    exact C20_ess_scale_invariant _ (Real.exp_pos _) _
  simp only [ScReal.div_def] at hess
  rw [hess]

/-- … and it lies in `[1/N, #finite/N] ⊆ [1/N, 1]` -/
theorem C20_compute_ess_neginf_bounds (lw : List (Option ℝ)) (m : ℝ) (h : maxFinite lw = some m) :
    ∃ v, computeEssE lw = some v ∧ 1 / (lw.length : ℝ) ≤ v ∧ v ≤ 1 := by
  refine ⟨_, C20_compute_ess_neginf lw m h, ?_⟩
  obtain ⟨_, hmem⟩ := maxFinite_some lw m h
  have hnn : ∀ x ∈ lw.map expOpt, 0 ≤ x := by
    intro x hx
    obtain ⟨a, _, rfl⟩ := List.mem_map.mp hx
    cases a with
    | none => simp [expOpt]
    | some l => exact (Real.exp_pos l).le
  have hpos : 0 < (lw.map expOpt).sum := by
    have hm : Real.exp m ∈ lw.map expOpt := List.mem_map.mpr ⟨some m, hmem, rfl⟩
    exact lt_of_lt_of_le (Real.exp_pos m) (List.single_le_sum hnn _ hm)
  have hb := C20_ess_bounds _ hnn hpos
  rw [List.length_map] at hb
  have hN : (0 : ℝ) < lw.length := by
    have : 0 < lw.length := List.length_pos_of_mem hmem
    exact_mod_cast this
  constructor
  · exact div_le_div_of_nonneg_right hb.1 hN.le
  · rw [div_le_one hN]; exact hb.2

/-- all log-weights `-inf` (or an empty array): no value (`nan` / `ValueError` in the code) — outside the statement -/
theorem C20_compute_ess_all_neginf (lw : List (Option ℝ)) (h : ∀ a ∈ lw, a = none) : computeEssE lw = none := by
  simp [computeEssE, (maxFinite_none_iff lw).mpr h]

/-- with no `-inf` entry the extended model is `compute_ess` itself -/
theorem C20_compute_ess_ext_agrees (x : ℝ) (xs : List ℝ) :
    computeEssE ((x :: xs).map some) = computeEss (x :: xs) := by
  have hne : maxFinite ((x :: xs).map some) ≠ none := by
    rw [Ne, maxFinite_none_iff]; intro h; have := h (some x) (by simp); simp at this
  obtain ⟨m, hm⟩ := Option.ne_none_iff_exists'.mp hne
  rw [C20_compute_ess_neginf _ m hm, C20_compute_ess _ (by simp)]
  simp only [List.map_map, List.length_map]
  rfl

example : computeEssE [some (0 : ℝ), none, some 0] = some ((2 : ℝ) / 3) := by
  rw [C20_compute_ess_neginf _ (Sc.max 0 0) (by simp [maxFinite])]
  simp only [List.map_cons, List.map_nil, expOpt, Real.exp_zero, List.length_cons, List.length_nil]
  rw [ess_eq_kish]; norm_num

end Props.C20
