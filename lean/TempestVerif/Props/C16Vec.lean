import TempestVerif.Props.C16
import Mathlib.MeasureTheory.Constructions.Pi
import Mathlib.MeasureTheory.Integral.Lebesgue.Map
/-
  C16, clause 8f (second pass) — the last sentence of the property on the WHOLE vector:
  "a symmetric random-walk proposal followed by the map is a symmetric proposal on the folded space",
  as a statement about measures on `ℝ^d = Fin d → ℝ` (product Lebesgue measure `volume`):

  * `lintegral_unfold_pi`      : ∫ over ℝ^d of f = ∫ over the folded box of the sum of f over all preimage labels
                                 (Fubini–Tonelli induction on d from the one-coordinate unfoldings of `Props/C16.lean`);
  * `C16_vector_pushforward`   : the preimage sum `KvecE` IS the density of the law of `fold (x + ξ)`;
  * `C16_vector_kernel_reversible` : hence the folded proposal kernel is reversible w.r.t. Lebesgue measure on the box,
                                 under the (sharp, see 8e) sign-invariance of the increment density;
  * `C16_vector_subkernel_reversible_cube` : the same for the sub-kernel the sampler really uses after fix 9001dc4
                                 (a proposal whose remaining coordinates leave [0,1] is rejected: `checkBounds`);
  * `C16_apply_ofFn`           : the coordinate-wise fold of these theorems is literally `Model.Boundary.apply`
                                 (the function the driver executes) on `List.ofFn`.
-/
namespace Props.C16
open Model.Boundary MeasureTheory Set
open scoped ENNReal

/-! ### one coordinate, by kind -/

/-- the fold of one coordinate of a given kind -/
noncomputable def fold1 : Kind → ℝ → ℝ
  | .fixed => id
  | .per => periodic
  | .refl => reflect

/-- where a coordinate of a given kind lives after the fold (up to null sets: the end points) -/
def Kind.I : Kind → Set ℝ
  | .fixed => univ
  | .per => Ico 0 1
  | .refl => Ioo 0 1

/-- preimage labels of one coordinate -/
abbrev Kind.L (κ : Kind) : Type := {p : ℤ × Bool // κ.ok p}

theorem Kind.measurableSet_I (κ : Kind) : MeasurableSet κ.I := by
  cases κ
  · exact MeasurableSet.univ
  · exact measurableSet_Ico
  · exact measurableSet_Ioo

theorem measurable_fold1 (κ : Kind) : Measurable (fold1 κ) := by
  cases κ
  · exact measurable_id
  · exact measurable_periodic
  · exact measurable_reflect

theorem measurable_pre1 (κ : Kind) (p : ℤ × Bool) : Measurable (pre1 κ p) := by
  rcases p with ⟨m, b⟩
  cases b
  · exact measurable_const.add measurable_id.neg
  · exact measurable_const.add measurable_id

/-- the model's coordinate map is the fold of the coordinate's kind (an index listed as periodic AND
    reflective is wrapped, and the reflection is then the identity on `[0,1)`) -/
theorem coordMap_eq_fold1 (per refl : List Nat) (i : Nat) (x : ℝ) :
    coordMap per refl i x = fold1 (kind per refl i) x := by
  unfold coordMap kind
  by_cases hp : i ∈ per
  · by_cases hr : i ∈ refl
    · simp only [hp, hr, if_true, fold1]
      exact C16_reflect_id_on_unit _ (C16_periodic_range x).1 (C16_periodic_range x).2.le
    · simp only [hp, hr, if_true, if_false, fold1]
  · by_cases hr : i ∈ refl
    · simp only [hp, hr, if_true, if_false, fold1]
    · simp only [hp, hr, if_false, fold1, id]

/-- every labelled point is a preimage -/
theorem fold1_pre1 (κ : Kind) (p : κ.L) (t : ℝ) (ht : t ∈ κ.I) : fold1 κ (pre1 κ p.1 t) = t := by
  rcases p with ⟨p, hp⟩
  cases κ
  · have : p = (0, true) := hp
    subst this; simp [fold1, pre1, Kind.c]
  · have hb : p.2 = true := hp
    have e : pre1 .per p t = t + (p.1 : ℝ) := by simp [pre1, hb, Kind.c]; ring
    show periodic (pre1 .per p t) = t
    rw [e, C16_periodic_add_int, periodic_eq_fract, Int.fract_eq_iff]
    exact ⟨ht.1, ht.2, 0, by simp⟩
  · show reflect (pre1 .refl p t) = t
    rw [pre1_refl]; exact reflPre_reflects p t ht.1.le ht.2.le

instance (κ : Kind) : Countable κ.L := by infer_instance

/-- **one-coordinate unfolding, uniformly in the kind**: Lebesgue measure on `ℝ` is the sum over the
    preimage labels of the images of Lebesgue measure on the folded interval. -/
theorem lintegral_unfold_kind (κ : Kind) (f : ℝ → ℝ≥0∞) (hf : Measurable f) :
    ∫⁻ w, f w = ∫⁻ t in κ.I, ∑' p : κ.L, f (pre1 κ p.1 t) := by
  cases κ
  · -- fixed: the single label (0, true)
    have : ∀ t, ∑' p : Kind.L .fixed, f (pre1 .fixed p.1 t) = f t := by
      intro t
      have hu : ∀ p : Kind.L .fixed, p = ⟨(0, true), rfl⟩ := by
        rintro ⟨p, hp⟩; apply Subtype.ext; exact hp
      rw [tsum_eq_single (⟨(0, true), rfl⟩ : Kind.L .fixed) (fun p hp => absurd (hu p) hp)]
      simp [pre1, Kind.c]
    simp only [this, Kind.I, Measure.restrict_univ]
  · -- periodic: labels (m, true), preimages m + t
    let e : ℤ ≃ Kind.L .per :=
      { toFun := fun m => ⟨(m, true), rfl⟩
        invFun := fun p => p.1.1
        left_inv := fun m => rfl
        right_inv := by
          rintro ⟨⟨m, b⟩, hp⟩
          have : b = true := hp
          subst this; rfl }
    rw [lintegral_unfold f hf]
    apply setLIntegral_congr_fun measurableSet_Ico
    intro t _
    show ∑' m : ℤ, f (m + t) = ∑' p : Kind.L .per, f (pre1 .per p.1 t)
    rw [← e.tsum_eq]
    congr 1; funext m
    simp [e, pre1, Kind.c]
  · -- reflective: all labels, preimages 2m ± t
    let e : (ℤ × Bool) ≃ Kind.L .refl :=
      { toFun := fun p => ⟨p, trivial⟩
        invFun := fun p => p.1
        left_inv := fun p => rfl
        right_inv := fun p => rfl }
    have h := C16_reflective_pushforward f (fun _ => 1) hf measurable_const 0
    simp only [one_mul] at h
    rw [h]
    apply setLIntegral_congr_fun measurableSet_Ioo
    intro t _
    simp only [KreflE, sub_zero]
    rw [← e.tsum_eq]
    congr 1; funext p
    simp [e, pre1_refl]

/-! ### d coordinates: Fubini–Tonelli induction -/

/-- Tonelli for the first coordinate of a finite product (inner integral over the first coordinate) -/
theorem lintegral_pi_succ {n : ℕ} (μ : Fin (n + 1) → Measure ℝ) [∀ i, SigmaFinite (μ i)]
    (f : (Fin (n + 1) → ℝ) → ℝ≥0∞) (hf : Measurable f) :
    ∫⁻ w, f w ∂(Measure.pi μ) =
      ∫⁻ b, ∫⁻ a, f (Fin.insertNth 0 a b) ∂(μ 0) ∂(Measure.pi fun j => μ (Fin.succAbove 0 j)) := by
  have hmp := measurePreserving_piFinSuccAbove (α := fun _ : Fin (n + 1) => ℝ) μ 0
  set e := MeasurableEquiv.piFinSuccAbove (fun _ : Fin (n + 1) => ℝ) 0 with he
  have h1 : ∫⁻ w, f w ∂(Measure.pi μ) = ∫⁻ z, f (e.symm z) ∂((μ 0).prod (Measure.pi fun j => μ (Fin.succAbove 0 j))) := by
    rw [← hmp.symm.lintegral_map_equiv]
  rw [h1, lintegral_prod_symm (fun z => f (e.symm z)) (hf.comp e.symm.measurable).aemeasurable]
  rfl

/-- the same with the first coordinate outside -/
theorem lintegral_pi_succ' {n : ℕ} (μ : Fin (n + 1) → Measure ℝ) [∀ i, SigmaFinite (μ i)]
    (f : (Fin (n + 1) → ℝ) → ℝ≥0∞) (hf : Measurable f) :
    ∫⁻ w, f w ∂(Measure.pi μ) =
      ∫⁻ a, ∫⁻ b, f (Fin.insertNth 0 a b) ∂(Measure.pi fun j => μ (Fin.succAbove 0 j)) ∂(μ 0) := by
  have hmp := measurePreserving_piFinSuccAbove (α := fun _ : Fin (n + 1) => ℝ) μ 0
  set e := MeasurableEquiv.piFinSuccAbove (fun _ : Fin (n + 1) => ℝ) 0 with he
  have h1 : ∫⁻ w, f w ∂(Measure.pi μ) = ∫⁻ z, f (e.symm z) ∂((μ 0).prod (Measure.pi fun j => μ (Fin.succAbove 0 j))) := by
    rw [← hmp.symm.lintegral_map_equiv]
  rw [h1, lintegral_prod (fun z => f (e.symm z)) (hf.comp e.symm.measurable).aemeasurable]
  rfl

theorem measurable_ins (n : ℕ) :
    Measurable (fun z : ℝ × (Fin n → ℝ) => (Fin.insertNth 0 z.1 z.2 : Fin (n + 1) → ℝ)) :=
  (MeasurableEquiv.piFinSuccAbove (fun _ : Fin (n + 1) => ℝ) 0).symm.measurable

/-- preimage labels of a point of the folded space, one label per coordinate -/
abbrev LblK {n : ℕ} (κ : Fin n → Kind) : Type := (i : Fin n) → (κ i).L

/-- the preimage with label `p` -/
def preK {n : ℕ} (κ : Fin n → Kind) (p : LblK κ) (t : Fin n → ℝ) : Fin n → ℝ :=
  fun i => pre1 (κ i) (p i).1 (t i)

/-- Lebesgue measure on the folded space `∏ᵢ I(κᵢ)` -/
noncomputable def μK {n : ℕ} (κ : Fin n → Kind) : Measure (Fin n → ℝ) :=
  Measure.pi fun i => (volume : Measure ℝ).restrict (κ i).I

theorem measurable_preK {n : ℕ} (κ : Fin n → Kind) (p : LblK κ) : Measurable (preK κ p) :=
  measurable_pi_lambda _ fun i => (measurable_pre1 (κ i) (p i).1).comp (measurable_pi_apply i)

theorem preK_ins {n : ℕ} (κ : Fin (n + 1) → Kind) (p0 : (κ 0).L)
    (p' : LblK fun j => κ (Fin.succAbove 0 j)) (t0 : ℝ) (t' : Fin n → ℝ) :
    preK κ (Fin.insertNth (α := fun i => (κ i).L) 0 p0 p') (Fin.insertNth 0 t0 t') =
      Fin.insertNth 0 (pre1 (κ 0) p0.1 t0) (preK (fun j => κ (Fin.succAbove 0 j)) p' t') := by
  funext i
  rcases Fin.eq_self_or_eq_succAbove 0 i with rfl | ⟨j, rfl⟩
  · simp only [preK, Fin.insertNth_apply_same]
  · simp only [preK, Fin.insertNth_apply_succAbove]

theorem tsum_LblK_succ {n : ℕ} (κ : Fin (n + 1) → Kind) (F : LblK κ → ℝ≥0∞) :
    ∑' p : LblK κ, F p =
      ∑' p' : LblK fun j => κ (Fin.succAbove 0 j), ∑' p0 : (κ 0).L,
        F (Fin.insertNth (α := fun i => (κ i).L) 0 p0 p') := by
  rw [← (Fin.insertNthEquiv (fun i => (κ i).L) 0).tsum_eq F,
    ENNReal.tsum_prod' (f := fun z : (κ 0).L × (LblK fun j => κ (Fin.succAbove 0 j)) =>
      F (Fin.insertNthEquiv (fun i => (κ i).L) 0 z)), ENNReal.tsum_comm]
  rfl

/-- **d-dimensional unfolding**: Lebesgue measure on `ℝ^n` is the sum, over all preimage labels, of the
    images of Lebesgue measure on the folded space `∏ᵢ I(κᵢ)` (any mixture of untouched, periodic and
    reflective coordinates).  Fubini–Tonelli induction on `n` from `lintegral_unfold_kind`. -/
theorem lintegral_unfold_pi : ∀ (n : ℕ) (κ : Fin n → Kind) (f : (Fin n → ℝ) → ℝ≥0∞), Measurable f →
    ∫⁻ w, f w = ∫⁻ t, ∑' p : LblK κ, f (preK κ p t) ∂(μK κ)
  | 0, κ, f, _ => by
    have hμ : (fun _ : Fin 0 => (volume : Measure ℝ)) = fun i => (volume : Measure ℝ).restrict (κ i).I :=
      funext fun i => i.elim0
    show ∫⁻ w, f w ∂(Measure.pi fun _ : Fin 0 => (volume : Measure ℝ)) = _
    unfold μK
    rw [hμ]
    congr 1; funext t
    rw [tsum_eq_single (default : LblK κ) (fun p hp => absurd (Subsingleton.elim p default) hp)]
    congr 1; exact Subsingleton.elim _ _
  | n + 1, κ, f, hf => by
    have IH := lintegral_unfold_pi n (fun j => κ (Fin.succAbove 0 j))
    -- left-hand side
    have hL1 : ∫⁻ w, f w = ∫⁻ b : Fin n → ℝ, ∫⁻ a : ℝ, f (Fin.insertNth 0 a b) :=
      lintegral_pi_succ (fun _ => (volume : Measure ℝ)) f hf
    have hL2 : ∀ b : Fin n → ℝ, ∫⁻ a : ℝ, f (Fin.insertNth 0 a b) =
        ∫⁻ t0 in (κ 0).I, ∑' p0 : (κ 0).L, f (Fin.insertNth 0 (pre1 (κ 0) p0.1 t0) b) := fun b =>
      lintegral_unfold_kind (κ 0) (fun a => f (Fin.insertNth 0 a b))
        (hf.comp ((measurable_ins n).comp (measurable_id.prodMk measurable_const)))
    have hm : Measurable (fun z : (Fin n → ℝ) × ℝ =>
        ∑' p0 : (κ 0).L, f (Fin.insertNth 0 (pre1 (κ 0) p0.1 z.2) z.1)) :=
      Measurable.ennreal_tsum fun p0 => hf.comp ((measurable_ins n).comp
        (((measurable_pre1 (κ 0) p0.1).comp measurable_snd).prodMk measurable_fst))
    have hL3 : ∫⁻ b : Fin n → ℝ, ∫⁻ t0 in (κ 0).I,
          ∑' p0 : (κ 0).L, f (Fin.insertNth 0 (pre1 (κ 0) p0.1 t0) b) =
        ∫⁻ t0 in (κ 0).I, ∫⁻ b : Fin n → ℝ,
          ∑' p0 : (κ 0).L, f (Fin.insertNth 0 (pre1 (κ 0) p0.1 t0) b) :=
      lintegral_lintegral_swap (f := fun (b : Fin n → ℝ) (t0 : ℝ) =>
        ∑' p0 : (κ 0).L, f (Fin.insertNth 0 (pre1 (κ 0) p0.1 t0) b)) hm.aemeasurable
    have hL4 : ∀ t0 : ℝ, ∫⁻ b : Fin n → ℝ,
          ∑' p0 : (κ 0).L, f (Fin.insertNth 0 (pre1 (κ 0) p0.1 t0) b) =
        ∫⁻ t', ∑' p' : LblK fun j => κ (Fin.succAbove 0 j), ∑' p0 : (κ 0).L,
          f (Fin.insertNth 0 (pre1 (κ 0) p0.1 t0) (preK (fun j => κ (Fin.succAbove 0 j)) p' t'))
          ∂(μK fun j => κ (Fin.succAbove 0 j)) := fun t0 =>
      IH (fun b => ∑' p0 : (κ 0).L, f (Fin.insertNth 0 (pre1 (κ 0) p0.1 t0) b))
        (Measurable.ennreal_tsum fun p0 => hf.comp ((measurable_ins n).comp
          (measurable_const.prodMk measurable_id)))
    -- right-hand side
    have hG : Measurable (fun t => ∑' p : LblK κ, f (preK κ p t)) :=
      Measurable.ennreal_tsum fun p => hf.comp (measurable_preK κ p)
    have hR1 : ∫⁻ t, ∑' p : LblK κ, f (preK κ p t) ∂(μK κ) =
        ∫⁻ t0 in (κ 0).I, ∫⁻ t', ∑' p : LblK κ, f (preK κ p (Fin.insertNth 0 t0 t'))
          ∂(μK fun j => κ (Fin.succAbove 0 j)) :=
      lintegral_pi_succ' (fun i => (volume : Measure ℝ).restrict (κ i).I) _ hG
    rw [hL1]; simp only [hL2]; rw [hL3]; simp only [hL4]; rw [hR1]
    congr 1; funext t0; congr 1; funext t'
    rw [tsum_LblK_succ]
    congr 1; funext p'; congr 1; funext p0
    rw [preK_ins]

/-! ### the law of the folded proposal on the whole vector -/

/-- the fold of the whole vector, coordinate `i` according to its kind -/
noncomputable def foldK {n : ℕ} (κ : Fin n → Kind) (w : Fin n → ℝ) : Fin n → ℝ :=
  fun i => fold1 (κ i) (w i)

/-- the folded space -/
def boxK {n : ℕ} (κ : Fin n → Kind) : Set (Fin n → ℝ) := Set.univ.pi fun i => (κ i).I

theorem measurable_foldK {n : ℕ} (κ : Fin n → Kind) : Measurable (foldK κ) :=
  measurable_pi_lambda _ fun i => (measurable_fold1 (κ i)).comp (measurable_pi_apply i)

theorem measurableSet_boxK {n : ℕ} (κ : Fin n → Kind) : MeasurableSet (boxK κ) :=
  MeasurableSet.univ_pi fun i => (κ i).measurableSet_I

theorem μK_eq_restrict {n : ℕ} (κ : Fin n → Kind) :
    μK κ = (volume : Measure (Fin n → ℝ)).restrict (boxK κ) :=
  (Measure.restrict_pi_pi (fun _ : Fin n => (volume : Measure ℝ)) fun i => (κ i).I).symm

theorem foldK_preK {n : ℕ} (κ : Fin n → Kind) (p : LblK κ) (t : Fin n → ℝ) (ht : t ∈ boxK κ) :
    foldK κ (preK κ p t) = t :=
  funext fun i => fold1_pre1 (κ i) (p i) (t i) (ht i (mem_univ i))

/-- density at `y` (w.r.t. Lebesgue measure on the folded space) of `fold (x + ξ)`, `ξ ~ k` on `ℝ^n` -/
noncomputable def KvecE {n : ℕ} (κ : Fin n → Kind) (k : (Fin n → ℝ) → ℝ≥0∞) (x y : Fin n → ℝ) : ℝ≥0∞ :=
  ∑' p : LblK κ, k (preK κ p y - x)

/-- **the preimage sum IS the law of the folded proposal, on the whole vector**: for every measurable
    test function `g` and increment density `k` on `ℝ^n` (no integrability, evenness or independence assumed) -/
theorem vector_pushforward {n : ℕ} (κ : Fin n → Kind) (k g : (Fin n → ℝ) → ℝ≥0∞)
    (hk : Measurable k) (hg : Measurable g) (x : Fin n → ℝ) :
    ∫⁻ ξ, g (foldK κ (x + ξ)) * k ξ = ∫⁻ y in boxK κ, g y * KvecE κ k x y := by
  have e1 : ∫⁻ ξ, g (foldK κ (x + ξ)) * k ξ = ∫⁻ w, g (foldK κ w) * k (w - x) := by
    rw [← lintegral_sub_right_eq_self (fun ξ => g (foldK κ (x + ξ)) * k ξ) x]
    congr 1; funext w; simp
  have hF : Measurable (fun w => g (foldK κ w) * k (w - x)) :=
    (hg.comp (measurable_foldK κ)).mul (hk.comp (measurable_id.sub_const x))
  rw [e1, lintegral_unfold_pi n κ _ hF, μK_eq_restrict]
  apply setLIntegral_congr_fun (measurableSet_boxK κ)
  intro t ht
  simp only [KvecE]
  rw [← ENNReal.tsum_mul_left]
  congr 1; funext p
  rw [foldK_preK κ p t ht]

/-- label flip `m ↦ −m` on the `+` labels, coordinate by coordinate -/
def flipK {n : ℕ} (κ : Fin n → Kind) : LblK κ ≃ LblK κ where
  toFun p := fun i => ⟨flip1 (p i).1, flip1_ok _ _ (p i).2⟩
  invFun p := fun i => ⟨flip1 (p i).1, flip1_ok _ _ (p i).2⟩
  left_inv p := by funext i; apply Subtype.ext; exact flip1_flip1 _
  right_inv p := by funext i; apply Subtype.ext; exact flip1_flip1 _

theorem preK_flip {n : ℕ} (κ : Fin n → Kind) (p : LblK κ) (x y : Fin n → ℝ) (i : Fin n) :
    preK κ (flipK κ p) x i - y i =
      (if (p i).1.2 then -(preK κ p y i - x i) else (preK κ p y i - x i)) := by
  have hf : ((flipK κ p) i).1 = flip1 (p i).1 := rfl
  simp only [preK, pre1, hf, flip1]
  rcases (p i).1 with ⟨m, b⟩
  cases b
  · simp only [Bool.false_eq_true, if_false]; ring
  · simp only [if_true, Int.cast_neg]; ring

theorem ok_false_refl (κ : Kind) (p : ℤ × Bool) (h : κ.ok p) (hb : p.2 = false) : κ = .refl := by
  cases κ
  · have e2 : p = (0, true) := h
    rw [e2] at hb; simp at hb
  · have e2 : p.2 = true := h
    rw [e2] at hb; simp at hb
  · rfl

/-- the sign-invariance of the increment density under which the folded proposal is symmetric:
    negating all coordinates except an arbitrary subset of the purely reflective ones (sharp: 8e) -/
def SignInv {n : ℕ} (κ : Fin n → Kind) (k : (Fin n → ℝ) → ℝ≥0∞) : Prop :=
  ∀ (s : Fin n → Bool) (z : Fin n → ℝ), (∀ i, s i = false → κ i = .refl) →
    k (fun i => if s i then -z i else z i) = k z

theorem KvecE_symmetric {n : ℕ} (κ : Fin n → Kind) (k : (Fin n → ℝ) → ℝ≥0∞) (hk : SignInv κ k)
    (x y : Fin n → ℝ) : KvecE κ k x y = KvecE κ k y x := by
  unfold KvecE
  rw [← (flipK κ).tsum_eq]
  congr 1; funext p
  have e : preK κ (flipK κ p) y - x =
      fun i => if (p i).1.2 then -((preK κ p x - y) i) else (preK κ p x - y) i := by
    funext i; simp only [Pi.sub_apply]; exact preK_flip κ p y x i
  rw [e, hk (fun i => (p i).1.2)]
  intro i hi
  exact ok_false_refl (κ i) (p i).1 (p i).2 hi

theorem measurable_KvecE {n : ℕ} (κ : Fin n → Kind) (k : (Fin n → ℝ) → ℝ≥0∞) (hk : Measurable k) :
    Measurable (Function.uncurry (KvecE κ k)) := by
  unfold KvecE Function.uncurry
  exact Measurable.ennreal_tsum
    (fun p => hk.comp (((measurable_preK κ p).comp measurable_snd).sub measurable_fst))

/-- a kernel with a symmetric density w.r.t. a measure `μ` is reversible w.r.t. `μ` (Tonelli) -/
theorem reversible_of_symmetric_density_gen {X : Type*} [MeasurableSpace X] (μ : Measure X) [SFinite μ]
    (K : X → X → ℝ≥0∞) (hK : Measurable (Function.uncurry K)) (hsym : ∀ x y, K x y = K y x)
    (f g : X → ℝ≥0∞) (hf : Measurable f) (hg : Measurable g) :
    ∫⁻ x, f x * ∫⁻ y, g y * K x y ∂μ ∂μ = ∫⁻ y, g y * ∫⁻ x, f x * K y x ∂μ ∂μ := by
  have hKx : ∀ x, Measurable (K x) := fun x => hK.comp (measurable_const.prodMk measurable_id)
  have l : ∀ x, f x * ∫⁻ y, g y * K x y ∂μ = ∫⁻ y, f x * (g y * K x y) ∂μ :=
    fun x => (lintegral_const_mul _ (hg.mul (hKx x))).symm
  have r : ∀ y, g y * ∫⁻ x, f x * K y x ∂μ = ∫⁻ x, g y * (f x * K y x) ∂μ :=
    fun y => (lintegral_const_mul _ (hf.mul (hKx y))).symm
  simp only [l, r]
  rw [lintegral_lintegral_swap]
  · congr 1; funext y; congr 1; funext x; rw [hsym x y]; ring
  · exact (((hf.comp measurable_fst).mul ((hg.comp measurable_snd).mul hK))).aemeasurable

/-- **the folded proposal kernel on the whole vector is reversible w.r.t. Lebesgue measure on the folded
    space** — `∫ f(x) E g(fold(x+ξ)) dx = ∫ g(y) E f(fold(y+ξ)) dy` — for every increment density with the
    sign-invariance `SignInv` -/
theorem vector_kernel_reversible {n : ℕ} (κ : Fin n → Kind) (k f g : (Fin n → ℝ) → ℝ≥0∞)
    (hk : Measurable k) (hf : Measurable f) (hg : Measurable g) (hsign : SignInv κ k) :
    ∫⁻ x in boxK κ, f x * ∫⁻ ξ, g (foldK κ (x + ξ)) * k ξ =
    ∫⁻ y in boxK κ, g y * ∫⁻ ξ, f (foldK κ (y + ξ)) * k ξ := by
  simp only [vector_pushforward κ k _ hk hg, vector_pushforward κ k _ hk hf]
  exact reversible_of_symmetric_density_gen _ _ (measurable_KvecE κ k hk)
    (KvecE_symmetric κ k hsign) f g hf hg

/-! ### the same for the model's `apply per refl` (what the driver executes) -/

variable {d : ℕ}

/-- kinds of the `d` coordinates for given index lists -/
def kindV (per refl : List Nat) (d : ℕ) : Fin d → Kind := fun i => kind per refl i.val

/-- the model's map on a vector, coordinate by coordinate -/
noncomputable def foldV (per refl : List Nat) (w : Fin d → ℝ) : Fin d → ℝ :=
  fun i => coordMap per refl i.val (w i)

/-- the folded space of the model: `[0,1)` for periodic, `(0,1)` for reflective coordinates, `ℝ` otherwise -/
def boxV (per refl : List Nat) (d : ℕ) : Set (Fin d → ℝ) := boxK (kindV per refl d)

theorem foldV_eq_foldK (per refl : List Nat) : (foldV per refl : (Fin d → ℝ) → _) = foldK (kindV per refl d) := by
  funext w i; exact coordMap_eq_fold1 per refl i.val (w i)

/-- `foldV` IS `Model.Boundary.apply` (the executed definition) on the list of coordinates -/
theorem C16_apply_ofFn (per refl : List Nat) (w : Fin d → ℝ) :
    apply per refl (List.ofFn w) = List.ofFn (foldV per refl w) := by
  apply List.ext_getElem?
  intro i
  rw [C16_apply_coord]
  by_cases hi : i < d
  · rw [List.getElem?_eq_getElem (by simpa using hi), List.getElem?_eq_getElem (by simpa using hi)]
    simp [foldV]
  · rw [List.getElem?_eq_none (by simpa using hi), List.getElem?_eq_none (by simpa using hi)]
    rfl

/-- **clause 8f, pushforward**: the law of `apply (x + ξ)` has density `KvecE` w.r.t. Lebesgue measure on the
    folded space, for every measurable density `k` of the increment on `ℝ^d` and every index lists -/
theorem C16_vector_pushforward (per refl : List Nat) (k g : (Fin d → ℝ) → ℝ≥0∞)
    (hk : Measurable k) (hg : Measurable g) (x : Fin d → ℝ) :
    ∫⁻ ξ, g (foldV per refl (x + ξ)) * k ξ =
      ∫⁻ y in boxV per refl d, g y * KvecE (kindV per refl d) k x y := by
  rw [foldV_eq_foldK]; exact vector_pushforward _ k g hk hg x

/-- the same, literally about `Model.Boundary.apply` on lists -/
theorem C16_vector_pushforward_apply (per refl : List Nat) (k : (Fin d → ℝ) → ℝ≥0∞) (G : List ℝ → ℝ≥0∞)
    (hk : Measurable k) (hG : Measurable fun y : Fin d → ℝ => G (List.ofFn y)) (x : Fin d → ℝ) :
    ∫⁻ ξ, G (apply per refl (List.ofFn (x + ξ))) * k ξ =
      ∫⁻ y in boxV per refl d, G (List.ofFn y) * KvecE (kindV per refl d) k x y := by
  simp only [C16_apply_ofFn]
  exact C16_vector_pushforward per refl k (fun y => G (List.ofFn y)) hk hG x

/-- **clause 8f, reversibility**: the folded proposal kernel is symmetric on the folded space -/
theorem C16_vector_kernel_reversible (per refl : List Nat) (k f g : (Fin d → ℝ) → ℝ≥0∞)
    (hk : Measurable k) (hf : Measurable f) (hg : Measurable g) (hsign : SignInv (kindV per refl d) k) :
    ∫⁻ x in boxV per refl d, f x * ∫⁻ ξ, g (foldV per refl (x + ξ)) * k ξ =
    ∫⁻ y in boxV per refl d, g y * ∫⁻ ξ, f (foldV per refl (y + ξ)) * k ξ := by
  rw [foldV_eq_foldK]; exact vector_kernel_reversible _ k f g hk hf hg hsign

/-- no purely reflective coordinate: ANY even increment density (correlated covariances included) -/
theorem C16_vector_kernel_reversible_periodic (per refl : List Nat) (k f g : (Fin d → ℝ) → ℝ≥0∞)
    (hk : Measurable k) (hf : Measurable f) (hg : Measurable g)
    (hR : ∀ i : Fin d, i.val ∈ refl → i.val ∈ per) (heven : ∀ z : Fin d → ℝ, k (fun i => -z i) = k z) :
    ∫⁻ x in boxV per refl d, f x * ∫⁻ ξ, g (foldV per refl (x + ξ)) * k ξ =
    ∫⁻ y in boxV per refl d, g y * ∫⁻ ξ, f (foldV per refl (y + ξ)) * k ξ := by
  apply C16_vector_kernel_reversible per refl k f g hk hf hg
  intro s z hs
  have : ∀ i, s i = true := by
    intro i
    by_contra h
    have hf : s i = false := by simpa using h
    have := hs i hf
    unfold kindV kind at this
    by_cases hp : i.val ∈ per
    · simp [hp] at this
    · by_cases hr : i.val ∈ refl
      · exact hp (hR i hr)
      · simp [hp, hr] at this
  simp only [this, if_true]; exact heven z

/-- independent coordinates, each with an even density: every choice of periodic / reflective coordinates -/
theorem C16_vector_kernel_reversible_product (per refl : List Nat) (k1 : Fin d → ℝ → ℝ≥0∞)
    (f g : (Fin d → ℝ) → ℝ≥0∞) (hk1 : ∀ i, Measurable (k1 i)) (hf : Measurable f) (hg : Measurable g)
    (heven : ∀ i z, k1 i (-z) = k1 i z) :
    ∫⁻ x in boxV per refl d, f x * ∫⁻ ξ, g (foldV per refl (x + ξ)) * ∏ i, k1 i (ξ i) =
    ∫⁻ y in boxV per refl d, g y * ∫⁻ ξ, f (foldV per refl (y + ξ)) * ∏ i, k1 i (ξ i) := by
  apply C16_vector_kernel_reversible per refl (fun ξ => ∏ i, k1 i (ξ i)) f g
    (Finset.measurable_prod _ fun i _ => (hk1 i).comp (measurable_pi_apply i)) hf hg
  intro s z _
  apply Finset.prod_congr rfl
  intro i _
  by_cases h : s i <;> simp [h, heven]

/-- the folded density integrates to the mass of the increment density: the folded proposal is a Markov kernel
    (nothing is lost or counted twice by the preimage sum) -/
theorem C16_vector_density_mass (per refl : List Nat) (k : (Fin d → ℝ) → ℝ≥0∞) (hk : Measurable k) (x : Fin d → ℝ) :
    ∫⁻ y in boxV per refl d, KvecE (kindV per refl d) k x y = ∫⁻ ξ, k ξ := by
  have h := C16_vector_pushforward per refl k (fun _ => 1) hk measurable_const x
  simp only [one_mul] at h
  exact h.symm

/-! ### the sub-kernel the sampler uses after fix 9001dc4: out-of-cube proposals are rejected -/

/-- indicator of `check_bounds` (the model's `checkBounds`, on the list of coordinates) -/
noncomputable def cubeInd (per refl : List Nat) (y : Fin d → ℝ) : ℝ≥0∞ :=
  if checkBounds per refl (List.ofFn y) = true then 1 else 0

theorem checkBounds_ofFn_iff (per refl : List Nat) (y : Fin d → ℝ) :
    checkBounds per refl (List.ofFn y) = true ↔
      ∀ i : Fin d, i.val ∉ per → i.val ∉ refl → y i ∈ Icc (0:ℝ) 1 := by
  rw [C16_checkBounds_iff]
  constructor
  · intro h i hp hr
    have := h i.val (by simp) hp hr
    simpa using this
  · intro h i hi hp hr
    have hi' : i < d := by simpa using hi
    have := h ⟨i, hi'⟩ hp hr
    simpa using this

theorem measurable_cubeInd (per refl : List Nat) : Measurable (cubeInd per refl : (Fin d → ℝ) → ℝ≥0∞) := by
  unfold cubeInd
  refine Measurable.ite ?_ measurable_const measurable_const
  have : {y : Fin d → ℝ | checkBounds per refl (List.ofFn y) = true} =
      ⋂ i : Fin d, {y | i.val ∉ per → i.val ∉ refl → y i ∈ Icc (0:ℝ) 1} := by
    ext y; simp only [mem_setOf_eq, mem_iInter]; exact checkBounds_ofFn_iff per refl y
  rw [this]
  refine MeasurableSet.iInter fun i => ?_
  by_cases hp : i.val ∉ per
  · by_cases hr : i.val ∉ refl
    · simp only [hp, hr, not_false_eq_true, forall_const]
      exact (measurable_pi_apply i) measurableSet_Icc
    · simp [hr]
  · simp [hp]

/-- the check at `mcmc.py:163` is made on the folded proposal; it is the check of the raw one -/
theorem cubeInd_foldV (per refl : List Nat) (w : Fin d → ℝ) :
    cubeInd per refl (foldV per refl w) = cubeInd per refl w := by
  unfold cubeInd
  rw [← C16_apply_ofFn, C16_check_after_apply]

/-- **the proposal sub-kernel of the sampler** (fold, then reject when `check_bounds` fails — fix 9001dc4)
    is reversible w.r.t. Lebesgue measure on the part of the folded space inside the cube.  With `f`, `g`
    ranging over all measurable functions this is the detailed-balance identity
    `1_C(x) q̃(x→y) 1_C(y) = 1_C(y) q̃(y→x) 1_C(x)` that a Metropolis step with `alpha = 0` outside needs. -/
theorem C16_vector_subkernel_reversible_cube (per refl : List Nat) (k f g : (Fin d → ℝ) → ℝ≥0∞)
    (hk : Measurable k) (hf : Measurable f) (hg : Measurable g) (hsign : SignInv (kindV per refl d) k) :
    ∫⁻ x in boxV per refl d, (f x * cubeInd per refl x) *
        ∫⁻ ξ, (g (foldV per refl (x + ξ)) * cubeInd per refl (x + ξ)) * k ξ =
    ∫⁻ y in boxV per refl d, (g y * cubeInd per refl y) *
        ∫⁻ ξ, (f (foldV per refl (y + ξ)) * cubeInd per refl (y + ξ)) * k ξ := by
  have h := C16_vector_kernel_reversible per refl k (fun x => f x * cubeInd per refl x)
    (fun y => g y * cubeInd per refl y) hk (hf.mul (measurable_cubeInd per refl))
    (hg.mul (measurable_cubeInd per refl)) hsign
  simpa only [cubeInd_foldV] using h

/-! ### the real-valued label sums of `Props/C16.lean` are these densities -/

/-- the label set `Lbl` of the first pass and the per-coordinate labels are the same thing -/
def lblEquiv (per refl : List Nat) (d : ℕ) : Lbl per refl d ≃ LblK (kindV per refl d) :=
  Equiv.subtypePiEquivPi

theorem Kvec_ofReal (per refl : List Nat) (k : (Fin d → ℝ) → ℝ) (hk0 : ∀ z, 0 ≤ k z) (x y : Fin d → ℝ)
    (hs : Summable (fun p : Lbl per refl d => k (fun i => preV per refl p y i - x i))) :
    ENNReal.ofReal (Kvec per refl k x y) =
      KvecE (kindV per refl d) (fun z => ENNReal.ofReal (k z)) x y := by
  unfold Kvec KvecE
  rw [ENNReal.ofReal_tsum_of_nonneg (fun _ => hk0 _) hs, ← (lblEquiv per refl d).tsum_eq]
  rfl

/-! ### non-vacuity -/

/-- d = 2 written out: coordinate 0 periodic, coordinate 1 reflective; the density of the folded proposal
    is the double lattice sum over `m ∈ ℤ` and `(j, ±)`. -/
example (k g : (Fin 2 → ℝ) → ℝ≥0∞) (hk : Measurable k) (hg : Measurable g) (x : Fin 2 → ℝ) :
    ∫⁻ ξ, g (foldV [0] [1] (x + ξ)) * k ξ =
      ∫⁻ y in boxV [0] [1] 2, g y * KvecE (kindV [0] [1] 2) k x y :=
  C16_vector_pushforward [0] [1] k g hk hg x

example : (kindV [0] [1] 3) 0 = .per ∧ (kindV [0] [1] 3) 1 = .refl ∧ (kindV [0] [1] 3) 2 = .fixed := by
  refine ⟨?_, ?_, ?_⟩ <;> simp [kindV, kind]

/-- d = 3, coordinate 0 periodic, 1 reflective, 2 untouched, independent Cauchy-shaped increments -/
example (f g : (Fin 3 → ℝ) → ℝ≥0∞) (hf : Measurable f) (hg : Measurable g) :
    ∫⁻ x in boxV [0] [1] 3, f x * ∫⁻ ξ, g (foldV [0] [1] (x + ξ)) * ∏ i, ENNReal.ofReal (1 / (1 + (ξ i) ^ 2)) =
    ∫⁻ y in boxV [0] [1] 3, g y * ∫⁻ ξ, f (foldV [0] [1] (y + ξ)) * ∏ i, ENNReal.ofReal (1 / (1 + (ξ i) ^ 2)) :=
  C16_vector_kernel_reversible_product [0] [1] (fun _ z => ENNReal.ofReal (1 / (1 + z ^ 2))) f g
    (fun _ => by fun_prop) hf hg (by intro i z; simp)

/-- periodic folds with a CORRELATED even density -/
example (f g : (Fin 2 → ℝ) → ℝ≥0∞) (hf : Measurable f) (hg : Measurable g) :
    ∫⁻ x in boxV [0, 1] [] 2, f x * ∫⁻ ξ, g (foldV [0, 1] [] (x + ξ)) *
        ENNReal.ofReal (1 / (1 + (ξ 0 + ξ 1) ^ 2 + (ξ 0) ^ 2)) =
    ∫⁻ y in boxV [0, 1] [] 2, g y * ∫⁻ ξ, f (foldV [0, 1] [] (y + ξ)) *
        ENNReal.ofReal (1 / (1 + (ξ 0 + ξ 1) ^ 2 + (ξ 0) ^ 2)) :=
  C16_vector_kernel_reversible_periodic [0, 1] [] _ f g (by fun_prop) hf hg (by simp)
    (by intro z; simp; ring_nf)

/-- the fold of these theorems on a concrete point is the executed `apply` -/
example : apply [0] [1] (List.ofFn ![(5 / 4 : ℝ), -1 / 4, 7]) = List.ofFn (foldV [0] [1] ![(5 / 4 : ℝ), -1 / 4, 7]) :=
  C16_apply_ofFn _ _ _

end Props.C16
