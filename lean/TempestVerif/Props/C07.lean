import TempestVerif.Model.Records
import TempestVerif.Gen.Tables
import Mathlib.Tactic
/-
  C07 — every stored or returned particle is a coherent (u, x, logL, blob) record.

  `T` (prior transform) and `Lk` (likelihood with blob) are uninterpreted pure functions, `inCube` an
  uninterpreted predicate on unit-cube coordinates.  The field sets each site touches are the GENERATED
  tables `Gen.Tables.*`; `C07_tables_complete` is the obligation that they are complete — a site that
  forgets an array makes that `decide` fail.
-/
namespace Props.C07
open Model.Records

variable {U X L B α : Type}

/-! ### list facts about the three movement primitives -/

theorem gather?_length {xs : List α} {idx : List Nat} {ys : List α} (h : gather? xs idx = some ys) :
    ys.length = idx.length := by
  induction idx generalizing ys with
  | nil => simp [gather?] at h; subst h; rfl
  | cons i is ih =>
    simp only [gather?] at h
    split at h
    · rename_i x r hx hr; injection h with h; subst h; simp [ih hr]
    · cases h

theorem gather?_get {xs : List α} {idx : List Nat} {ys : List α} (h : gather? xs idx = some ys)
    (k i : Nat) (hk : idx[k]? = some i) : ys[k]? = xs[i]? := by
  induction idx generalizing ys k with
  | nil => simp at hk
  | cons j js ih =>
    simp only [gather?] at h
    split at h
    · rename_i x r hx hr
      injection h with h; subst h
      cases k with
      | zero => simp at hk; subst hk; simp [hx]
      | succ k => simp at hk; simpa using ih hr k hk
    · cases h

theorem maskSet_length (c q : List α) (m : List Bool) : (maskSet c q m).length = c.length := by
  induction c generalizing q m with
  | nil => cases q <;> cases m <;> simp [maskSet]
  | cons a c ih =>
    cases q with
    | nil => simp [maskSet]
    | cons b q => cases m with
      | nil => simp [maskSet]
      | cons t m => simp [maskSet, ih]

/-- position `i` takes the proposal iff all three arrays are long enough and the mask bit is set -/
def takes (nc nq : Nat) (m : List Bool) (i : Nat) : Bool :=
  decide (i < nc) && decide (i < nq) && (m[i]? == some true)

theorem maskSet_get (c q : List α) (m : List Bool) (i : Nat) :
    (maskSet c q m)[i]? = if takes c.length q.length m i then q[i]? else c[i]? := by
  induction c generalizing q m i with
  | nil => cases q <;> cases m <;> simp [maskSet, takes]
  | cons a c ih =>
    cases q with
    | nil => simp [maskSet, takes]
    | cons b q =>
      cases m with
      | nil => simp [maskSet, takes]
      | cons t m =>
        cases i with
        | zero => cases t <;> simp [maskSet, takes]
        | succ i =>
          simp only [maskSet, List.getElem?_cons_succ, ih, takes, List.length_cons]
          simp

/-- where position `i` of `xs[tgt] = xs[src]` comes from (depends only on the index vectors and the length) -/
def srcOf (n : Nat) : List Nat → List Nat → Nat → Nat
  | t :: ts, s :: ss, i => if s < n ∧ i = t then s else srcOf n ts ss i
  | _, _, i => i

theorem scatterFrom_length (xs : List α) (tgt src : List Nat) :
    (scatterFrom xs tgt src).length = xs.length := by
  induction tgt generalizing src with
  | nil => simp [scatterFrom]
  | cons t ts ih =>
    cases src with
    | nil => simp [scatterFrom]
    | cons s ss =>
      simp only [scatterFrom]
      split <;> simp [ih]

theorem scatterFrom_get (xs : List α) (tgt src : List Nat) (i : Nat) (hi : i < xs.length) :
    (scatterFrom xs tgt src)[i]? = xs[srcOf xs.length tgt src i]? := by
  induction tgt generalizing src with
  | nil => simp [scatterFrom, srcOf]
  | cons t ts ih =>
    cases src with
    | nil => simp [scatterFrom, srcOf]
    | cons s ss =>
      simp only [scatterFrom, srcOf]
      cases hs : xs[s]? with
      | none =>
        have : ¬ s < xs.length := by
          intro h; rw [List.getElem?_eq_getElem h] at hs; cases hs
        simp [this, ih]
      | some v =>
        have hsl : s < xs.length := by
          by_contra h; rw [List.getElem?_eq_none (by omega)] at hs; cases hs
        simp only [hsl, true_and]
        by_cases hit : i = t
        · subst hit
          simp [scatterFrom_length, hi, hs]
        · simp [hit, List.getElem?_set, ih]
          intro h; exact absurd h.symm hit

/-! ### coherence -/

/-- one record: x is the transform of u, (logl, blob) is the likelihood at x, u lies in the cube -/
def CohRec (T : U → X) (Lk : X → L × B) (inCube : U → Prop) (u : U) (x : X) (l : L) (b : B) : Prop :=
  x = T u ∧ (l, b) = Lk x ∧ inCube u

/-- the four arrays have one length and every row is a coherent record -/
def Coherent (T : U → X) (Lk : X → L × B) (inCube : U → Prop) (p : Pop U X L B) : Prop :=
  p.x.length = p.u.length ∧ p.l.length = p.u.length ∧ p.b.length = p.u.length ∧
  ∀ (i : Nat) (u : U) (x : X) (l : L) (b : B), p.u[i]? = some u → p.x[i]? = some x → p.l[i]? = some l → p.b[i]? = some b →
    CohRec T Lk inCube u x l b

/-- row `k` of `q` is (as a whole record) row `i` of `p` -/
def RowFrom (q : Pop U X L B) (k : Nat) (p : Pop U X L B) (i : Nat) : Prop :=
  q.u[k]? = p.u[i]? ∧ q.x[k]? = p.x[i]? ∧ q.l[k]? = p.l[i]? ∧ q.b[k]? = p.b[i]?

def AllFour (fields : List String) : Prop :=
  fields.contains "u" = true ∧ fields.contains "x" = true ∧ fields.contains "logl" = true ∧ fields.contains "blobs" = true

def AllFourPairs (pairs : List (String × String)) : Prop :=
  pairs.contains ("u", "u_prime") = true ∧ pairs.contains ("x", "x_prime") = true ∧
  pairs.contains ("logl", "logl_prime") = true ∧ pairs.contains ("blobs", "blobs_prime") = true

variable (T : U → X) (Lk : X → L × B) (inCube : U → Prop)

/-- Resampling / posterior gathering: when the index is applied to all four arrays, every output row is
    a whole input row, and coherence is preserved. -/
theorem gather_whole_records {fields : List String} (hf : AllFour fields) {idx : List Nat}
    {p q : Pop U X L B} (h : gatherFields fields idx p = some q) :
    q.u.length = idx.length ∧ q.x.length = idx.length ∧ q.l.length = idx.length ∧ q.b.length = idx.length ∧
    ∀ k i, idx[k]? = some i → RowFrom q k p i := by
  obtain ⟨h1, h2, h3, h4⟩ := hf
  simp only [gatherFields, h1, h2, h3, h4, if_true] at h
  split at h
  · rename_i u x l b hu hx hl hb
    injection h with h; subst h
    refine ⟨gather?_length hu, gather?_length hx, gather?_length hl, gather?_length hb, ?_⟩
    intro k i hk
    exact ⟨gather?_get hu k i hk, gather?_get hx k i hk, gather?_get hl k i hk, gather?_get hb k i hk⟩
  · cases h

theorem gather_coherent {fields : List String} (hf : AllFour fields) {idx : List Nat}
    {p q : Pop U X L B} (hp : Coherent T Lk inCube p) (h : gatherFields fields idx p = some q) :
    Coherent T Lk inCube q := by
  obtain ⟨lu, lx, ll, lb, rows⟩ := gather_whole_records hf h
  refine ⟨by omega, by omega, by omega, ?_⟩
  intro k u x l b hu hx hl hb
  have hk : k < idx.length := by
    by_contra hc; rw [List.getElem?_eq_none (by omega)] at hu; cases hu
  obtain ⟨r1, r2, r3, r4⟩ := rows k idx[k] (List.getElem?_eq_getElem hk)
  exact hp.2.2.2 idx[k] u x l b (r1 ▸ hu) (r2 ▸ hx) (r3 ▸ hl) (r4 ▸ hb)

/-- Mutation: with the accept mask applied to all four arrays every row is either the old record or the
    proposal record, as a whole. -/
theorem masked_whole_records {pairs : List (String × String)} (hf : AllFourPairs pairs)
    (mask : List Bool) (cur prop : Pop U X L B)
    (hc : cur.x.length = cur.u.length ∧ cur.l.length = cur.u.length ∧ cur.b.length = cur.u.length)
    (hq : prop.x.length = prop.u.length ∧ prop.l.length = prop.u.length ∧ prop.b.length = prop.u.length)
    (k : Nat) :
    RowFrom (maskedFields pairs mask cur prop) k cur k ∨ RowFrom (maskedFields pairs mask cur prop) k prop k := by
  obtain ⟨h1, h2, h3, h4⟩ := hf
  simp only [maskedFields, h1, h2, h3, h4, if_true, RowFrom, maskSet_get, hc.1, hc.2.1, hc.2.2, hq.1, hq.2.1, hq.2.2]
  cases takes cur.u.length prop.u.length mask k <;> simp

theorem masked_coherent {pairs : List (String × String)} (hf : AllFourPairs pairs)
    (mask : List Bool) {cur prop : Pop U X L B}
    (hc : Coherent T Lk inCube cur) (hq : Coherent T Lk inCube prop) :
    Coherent T Lk inCube (maskedFields pairs mask cur prop) := by
  have hf' := hf
  obtain ⟨h1, h2, h3, h4⟩ := hf
  refine ⟨?_, ?_, ?_, ?_⟩
  · simp only [maskedFields, h1, h2, if_true, maskSet_length, hc.1]
  · simp only [maskedFields, h1, h3, if_true, maskSet_length, hc.2.1]
  · simp only [maskedFields, h1, h4, if_true, maskSet_length, hc.2.2.1]
  · intro k u x l b hu hx hl hb
    rcases masked_whole_records hf' mask cur prop ⟨hc.1, hc.2.1, hc.2.2.1⟩ ⟨hq.1, hq.2.1, hq.2.2.1⟩ k with r | r
    · exact hc.2.2.2 k u x l b (r.1 ▸ hu) (r.2.1 ▸ hx) (r.2.2.1 ▸ hl) (r.2.2.2 ▸ hb)
    · exact hq.2.2.2 k u x l b (r.1 ▸ hu) (r.2.1 ▸ hx) (r.2.2.1 ▸ hl) (r.2.2.2 ▸ hb)

/-- Warm-up replacement: each row of the result is a whole row of the input. -/
theorem replace_whole_records {fields : List String} (hf : AllFour fields) (tgt src : List Nat)
    (p : Pop U X L B)
    (hp : p.x.length = p.u.length ∧ p.l.length = p.u.length ∧ p.b.length = p.u.length)
    (k : Nat) (hk : k < p.u.length) :
    RowFrom (replaceFields fields tgt src p) k p (srcOf p.u.length tgt src k) := by
  obtain ⟨h1, h2, h3, h4⟩ := hf
  simp only [replaceFields, h1, h2, h3, h4, if_true, RowFrom]
  refine ⟨scatterFrom_get _ _ _ _ hk, ?_, ?_, ?_⟩
  · rw [scatterFrom_get _ _ _ _ (by omega), hp.1]
  · rw [scatterFrom_get _ _ _ _ (by omega), hp.2.1]
  · rw [scatterFrom_get _ _ _ _ (by omega), hp.2.2]

theorem replace_coherent {fields : List String} (hf : AllFour fields) (tgt src : List Nat)
    {p : Pop U X L B} (hp : Coherent T Lk inCube p) :
    Coherent T Lk inCube (replaceFields fields tgt src p) := by
  have hf' := hf
  obtain ⟨h1, h2, h3, h4⟩ := hf
  refine ⟨?_, ?_, ?_, ?_⟩
  · simp only [replaceFields, h1, h2, if_true, scatterFrom_length, hp.1]
  · simp only [replaceFields, h1, h3, if_true, scatterFrom_length, hp.2.1]
  · simp only [replaceFields, h1, h4, if_true, scatterFrom_length, hp.2.2.1]
  · intro k u x l b hu hx hl hb
    have hk : k < p.u.length := by
      by_contra hc
      have : (replaceFields fields tgt src p).u.length = p.u.length := by
        simp only [replaceFields, h1, if_true, scatterFrom_length]
      rw [List.getElem?_eq_none (by omega)] at hu; cases hu
    obtain ⟨r1, r2, r3, r4⟩ := replace_whole_records hf' tgt src p ⟨hp.1, hp.2.1, hp.2.2.1⟩ k hk
    exact hp.2.2.2 _ u x l b (r1 ▸ hu) (r2 ▸ hx) (r3 ▸ hl) (r4 ▸ hb)

/-- Proposals and prior draws are coherent by construction (x from T, (logl, blob) from Lk),
    provided the unit-cube coordinates passed the bounds check. -/
theorem build_coherent (us : List U) (hin : ∀ u ∈ us, inCube u) :
    Coherent T Lk inCube (build T Lk us) := by
  refine ⟨by simp [build], by simp [build], by simp [build], ?_⟩
  intro i u x l b hu hx hl hb
  simp only [build, List.getElem?_map] at hu hx hl hb
  rw [hu] at hx hl hb
  simp at hx hl hb
  subst hx hl hb
  exact ⟨rfl, rfl, hin u (List.mem_of_getElem? hu)⟩

/-- field-wise concatenation (what `get_history(flat=True)` does batch by batch) -/
def append (p q : Pop U X L B) : Pop U X L B := ⟨p.u ++ q.u, p.x ++ q.x, p.l ++ q.l, p.b ++ q.b⟩

theorem append_coherent {p q : Pop U X L B} (hp : Coherent T Lk inCube p) (hq : Coherent T Lk inCube q) :
    Coherent T Lk inCube (append p q) := by
  refine ⟨by simp [append, hp.1, hq.1], by simp [append, hp.2.1, hq.2.1], by simp [append, hp.2.2.1, hq.2.2.1], ?_⟩
  intro i u x l b hu hx hl hb
  simp only [append] at hu hx hl hb
  by_cases hi : i < p.u.length
  · rw [List.getElem?_append_left hi] at hu
    rw [List.getElem?_append_left (by rw [hp.1]; exact hi)] at hx
    rw [List.getElem?_append_left (by rw [hp.2.1]; exact hi)] at hl
    rw [List.getElem?_append_left (by rw [hp.2.2.1]; exact hi)] at hb
    exact hp.2.2.2 i u x l b hu hx hl hb
  · have hi' : p.u.length ≤ i := by omega
    rw [List.getElem?_append_right hi'] at hu
    rw [List.getElem?_append_right (by rw [hp.1]; exact hi'), hp.1] at hx
    rw [List.getElem?_append_right (by rw [hp.2.1]; exact hi'), hp.2.1] at hl
    rw [List.getElem?_append_right (by rw [hp.2.2.1]; exact hi'), hp.2.2.1] at hb
    exact hq.2.2.2 _ u x l b hu hx hl hb

theorem pool_cons (p : Pop U X L B) (h : List (Pop U X L B)) : pool (p :: h) = append p (pool h) := by
  simp [pool, append]

theorem pool_coherent (h : List (Pop U X L B)) (hh : ∀ p ∈ h, Coherent T Lk inCube p) :
    Coherent T Lk inCube (pool h) := by
  induction h with
  | nil => exact ⟨rfl, rfl, rfl, by intro i u x l b hu; simp [pool] at hu⟩
  | cons p h ih =>
    rw [pool_cons]
    exact append_coherent T Lk inCube (hh p (by simp)) (ih (fun q hq => hh q (by simp [hq])))

/-! ### every reachable state of the pipeline is coherent -/

def TablesComplete (tb : Tables) : Prop :=
  AllFour tb.resampleGather ∧ AllFourPairs tb.mcmcMasked ∧ AllFour tb.warmupReplace

/-- every batch in the history and the current population are coherent -/
def Inv (s : St U X L B) : Prop :=
  (∀ p ∈ s.hist, Coherent T Lk inCube p) ∧ Coherent T Lk inCube s.cur

/-- the unit-cube coordinates the pipeline creates passed the bounds check (C16) -/
def OpOk : Op U → Prop
  | .mutate props _ => ∀ u ∈ props, inCube u
  | .priorDraw us => ∀ u ∈ us, inCube u
  | _ => True

theorem C07_step_inv {tb : Tables} (htb : TablesComplete tb) {s s' : St U X L B} (o : Op U)
    (ho : OpOk inCube o) (hs : Inv T Lk inCube s) (h : step tb T Lk s o = some s') : Inv T Lk inCube s' := by
  obtain ⟨t1, t2, t3⟩ := htb
  cases o with
  | resample idx =>
    simp only [step, Option.map_eq_some_iff] at h
    obtain ⟨c, hc, rfl⟩ := h
    exact ⟨hs.1, gather_coherent T Lk inCube t1 (pool_coherent T Lk inCube _ hs.1) hc⟩
  | mutate props mask =>
    simp only [step, Option.some.injEq] at h; subst h
    exact ⟨hs.1, masked_coherent T Lk inCube t2 mask hs.2 (build_coherent T Lk inCube props ho)⟩
  | priorDraw us =>
    simp only [step, Option.some.injEq] at h; subst h
    exact ⟨hs.1, build_coherent T Lk inCube us ho⟩
  | replaceInf tgt src =>
    simp only [step, Option.some.injEq] at h; subst h
    exact ⟨hs.1, replace_coherent T Lk inCube t3 tgt src hs.2⟩
  | commit =>
    simp only [step, Option.some.injEq] at h; subst h
    refine ⟨?_, hs.2⟩
    intro p hp
    rcases List.mem_append.mp hp with hp | hp
    · exact hs.1 p hp
    · simp at hp; subst hp; exact hs.2

/-- C07: for EVERY sequence of pipeline operations, every state reached — the current population and
    every committed batch — consists of coherent records. -/
theorem C07_reachable {tb : Tables} (htb : TablesComplete tb) (ops : List (Op U))
    (hops : ∀ o ∈ ops, OpOk inCube o) {s s' : St U X L B} (hs : Inv T Lk inCube s)
    (h : run tb T Lk s ops = some s') : Inv T Lk inCube s' := by
  induction ops generalizing s with
  | nil => simp [run] at h; subst h; exact hs
  | cons o os ih =>
    simp only [run, Option.bind_eq_some_iff] at h
    obtain ⟨s1, h1, h2⟩ := h
    exact ih (fun o' ho' => hops o' (by simp [ho'])) (C07_step_inv T Lk inCube htb o (hops o (by simp)) hs h1) h2

/-- the empty state is coherent, so `C07_reachable` applies to every run from scratch -/
theorem C07_init : Inv T Lk inCube (⟨[], ⟨[], [], [], []⟩⟩ : St U X L B) :=
  ⟨fun p hp => by simp at hp, ⟨rfl, rfl, rfl, fun i u x l b hu => by simp at hu⟩⟩

/-! ### the tables regenerated from the current source are complete -/

def genTables : Tables :=
  { resampleGather := Gen.Tables.resampleGather
    mcmcMasked := Gen.Tables.mcmcMasked
    warmupReplace := Gen.Tables.warmupReplace }

/-- OBLIGATION on the generated tables: each movement site applies its index / mask to all of
    u, x, logl, blobs.  Fails to check as soon as a site in /repo forgets one of them. -/
theorem C07_tables_complete : TablesComplete genTables := by
  refine ⟨⟨?_, ?_, ?_, ?_⟩, ⟨?_, ?_, ?_, ?_⟩, ⟨?_, ?_, ?_, ?_⟩⟩ <;> decide

/-- one index vector per site (blobs are not gathered with a second, independent draw) -/
theorem C07_single_index_vector :
    Gen.Tables.resampleIndexNames.length = 1 ∧ Gen.Tables.mcmcMaskNames.length = 1 ∧
    Gen.Tables.warmupReplaceIndexPairs.length = 1 := by decide

/-- proposals are built from the proposed unit-cube point: x' = T(u'), (logl', blob') = Lk(x') -/
theorem C07_proposal_defuse :
    ("x_prime", "prior_transform", "u_p,u_prime") ∈ Gen.Tables.mcmcDefUse ∧
    ("logl_prime", "_evaluate_likelihood", "x_prime") ∈ Gen.Tables.mcmcDefUse ∧
    ("blobs_prime", "_evaluate_likelihood", "x_prime") ∈ Gen.Tables.mcmcDefUse := by decide

/-- posterior(): trimming and resampling gather x, logl, logw (and blobs) with the same index -/
theorem C07_posterior_gathers :
    (∀ f ∈ ["x", "logl", "logw", "blobs"], f ∈ Gen.Tables.posteriorTrimGather) ∧
    (∀ f ∈ ["x", "logl", "logw", "blobs"], f ∈ Gen.Tables.posteriorResampleGather) := by decide

/-- the reachable-state theorem instantiated with the generated tables -/
theorem C07_reachable_gen (ops : List (Op U)) (hops : ∀ o ∈ ops, OpOk inCube o) {s' : St U X L B}
    (h : run genTables T Lk ⟨[], ⟨[], [], [], []⟩⟩ ops = some s') : Inv T Lk inCube s' :=
  C07_reachable T Lk inCube C07_tables_complete ops hops (C07_init T Lk inCube) h

/-! ### non-vacuity: a concrete run (draw, commit, resample, mutate, commit) -/
example :
    (run genTables (fun u : Nat => 10 * u) (fun x : Nat => (x + 1, x + 2)) ⟨[], ⟨[], [], [], []⟩⟩
      [.priorDraw [1, 2, 3], .commit, .resample [2, 2, 0], .mutate [7, 8, 9] [true, false, true], .commit]).map
      (fun s => (s.cur.u, s.cur.x, s.cur.l, s.cur.b, s.hist.length))
      = some ([7, 3, 9], [70, 30, 90], [71, 31, 91], [72, 32, 92], 2) := by decide

end Props.C07
