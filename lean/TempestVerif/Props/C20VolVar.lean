import TempestVerif.Model.VolVar
import TempestVerif.Lemmas.ScReal
import TempestVerif.Lemmas.VolVar
import TempestVerif.Props.C20Audit
import Mathlib.LinearAlgebra.Matrix.ToLinearEquiv
import Mathlib.LinearAlgebra.Matrix.DotProduct
import Mathlib.Data.List.OfFn
import Mathlib.Data.List.FinRange
import Mathlib.Tactic
/-
  C20 — clause audit, part 3: the volume-variation metric.

  (A) theorems about the EXECUTABLE model `Model.VolVar.volvar` (the definition the driver runs against the real code), at `ℝ`,
      with no hypothesis:  C20_volvar_exec_nonneg, C20_volvar_exec_weight_scale, C20_volvar_exec_prenormalised,
      C20_volvar_exec_uniform.
  (B) when is each branch of `volume_variation` taken (matrix model `Lemmas.VolVar.volvar`, weights ≥ 0):
      wcov_quadratic_form / C20_wcov_psd (the weighted covariance is positive semi-definite),
      C20_volvar_ridge_iff (ridge branch ⇔ the positively weighted points lie in a hyperplane),
      C20_volvar_fallback_iff (the `1e10` `LinAlgError` branch ⇔ all positively weighted points coincide),
      C20_volvar_branches (the complete case split), C20_volvar_ridge_nonneg.
  (C) the executable model IS the matrix model, provided the model's Gauss–Jordan inverse behaves as an inverse on the two
      matrices it is applied to (hypothesis `InvOK`, checked exactly by suite volvar-exec-Q on every case):
      C20_volvar_exec_eq_matrix, and through it C20_volvar_exec_affine_invariant.
-/
namespace Props.C20
open Model.Ess

/-! ### (A) the executable model -/
section Exec
open Model.VolVar

/-- non-negative on every branch, for every input (any shapes, any weights) -/
theorem C20_volvar_exec_nonneg (d : Nat) (x : List (List ℝ)) (w0 : Option (List ℝ)) :
    0 ≤ Model.VolVar.volvar d x w0 := by
  unfold Model.VolVar.volvar
  generalize out d x w0 = o
  obtain ⟨b, r⟩ := o
  cases b <;> simp only [big, ScReal.ofNat_def, ScReal.mul_def, ScReal.lit_def, ScReal.sqrt_def] <;> positivity

/-- rescaling the raw weights by any `c ≠ 0` changes nothing: they are normalised first -/
theorem C20_volvar_exec_weight_scale (c : ℝ) (hc : c ≠ 0) (d : Nat) (x : List (List ℝ)) (w : List ℝ) :
    Model.VolVar.volvar d x (some (w.map (fun y => c * y))) = Model.VolVar.volvar d x (some w) := by
  unfold Model.VolVar.volvar out
  simp only [normalise_smul c hc]

/-- the reweighter passes `weights / np.sum(weights)`: pre-normalised weights give the same value as the raw ones -/
theorem C20_volvar_exec_prenormalised (d : Nat) (x : List (List ℝ)) (w : List ℝ) (hs : w.sum ≠ 0) :
    Model.VolVar.volvar d x (some (normalise w)) = Model.VolVar.volvar d x (some w) := by
  have h : normalise w = w.map (fun y => (1 / w.sum) * y) := by
    rw [normalise_def]; apply List.map_congr_left; intro y _; ring
  rw [h]
  exact C20_volvar_exec_weight_scale _ (one_div_ne_zero hs) d x w

/-- `w = None` means uniform weights: the same value as any constant weight vector of the right length -/
theorem C20_volvar_exec_uniform (c : ℝ) (hc : c ≠ 0) (d : Nat) (x : List (List ℝ)) :
    Model.VolVar.volvar d x none = Model.VolVar.volvar d x (some (List.replicate x.length c)) := by
  have h : List.replicate x.length c = (List.replicate x.length (Sc.one : ℝ)).map (fun y => c * y) := by
    simp
  rw [h, C20_volvar_exec_weight_scale c hc]
  rfl

end Exec

/-! ### (B) which branch is taken (matrix model) -/
section Branches
open Matrix Lemmas.VolVar
variable {ι κ : Type} [Fintype ι] [Fintype κ] [DecidableEq κ]

omit [DecidableEq κ] in
theorem vecMulVec_self_mulVec (a v : κ → ℝ) : vecMulVec a a *ᵥ v = (a ⬝ᵥ v) • a := by
  ext k
  simp only [mulVec, dotProduct, vecMulVec_apply, Pi.smul_apply, smul_eq_mul, Finset.sum_mul]
  refine Finset.sum_congr rfl fun j _ => ?_
  ring

omit [DecidableEq κ] in
/-- `vᵀ S v = Σ_i w_i ((x_i − m)·v)²` -/
theorem wcov_quadratic_form (x : ι → κ → ℝ) (w : ι → ℝ) (v : κ → ℝ) :
    v ⬝ᵥ (wcov x w *ᵥ v) = ∑ i, w i * ((x i - wmean x w) ⬝ᵥ v) ^ 2 := by
  unfold wcov
  rw [sum_mulVec, dotProduct_sum]
  refine Finset.sum_congr rfl fun i _ => ?_
  rw [smul_mulVec, vecMulVec_self_mulVec, dotProduct_smul, dotProduct_smul, dotProduct_comm v]
  simp only [smul_eq_mul]
  ring

omit [DecidableEq κ] in
/-- the weighted covariance of non-negative weights is positive semi-definite -/
theorem C20_wcov_psd (x : ι → κ → ℝ) (w : ι → ℝ) (hw : ∀ i, 0 ≤ w i) (v : κ → ℝ) :
    0 ≤ v ⬝ᵥ (wcov x w *ᵥ v) := by
  rw [wcov_quadratic_form]
  exact Finset.sum_nonneg fun i _ => mul_nonneg (hw i) (sq_nonneg _)

omit [DecidableEq κ] in
/-- `trace S = Σ_i w_i |x_i − m|²` -/
theorem wcov_trace (x : ι → κ → ℝ) (w : ι → ℝ) :
    trace (wcov x w) = ∑ i, w i * ((x i - wmean x w) ⬝ᵥ (x i - wmean x w)) := by
  unfold wcov
  rw [trace_sum]
  refine Finset.sum_congr rfl fun i _ => ?_
  rw [trace_smul, trace_vecMulVec, smul_eq_mul]

/-- **when the ridge is added**: the covariance is singular iff some direction `v ≠ 0` is orthogonal to every positively
    weighted centred point — the weighted cloud lies in a hyperplane through its mean -/
theorem C20_volvar_ridge_iff (x : ι → κ → ℝ) (w : ι → ℝ) (hw : ∀ i, 0 ≤ w i) :
    ¬ IsUnit (wcov x w).det ↔ ∃ v : κ → ℝ, v ≠ 0 ∧ ∀ i, w i ≠ 0 → (x i - wmean x w) ⬝ᵥ v = 0 := by
  rw [isUnit_iff_ne_zero, not_not, ← exists_mulVec_eq_zero_iff]
  constructor
  · rintro ⟨v, hv, hSv⟩
    refine ⟨v, hv, fun i hi => ?_⟩
    have hq : v ⬝ᵥ (wcov x w *ᵥ v) = 0 := by rw [hSv]; simp
    rw [wcov_quadratic_form] at hq
    have hterm := (Finset.sum_eq_zero_iff_of_nonneg (fun i _ => mul_nonneg (hw i) (sq_nonneg _))).mp hq i (Finset.mem_univ i)
    rcases mul_eq_zero.mp hterm with h | h
    · exact absurd h hi
    · exact pow_eq_zero_iff (by norm_num) |>.mp h
  · rintro ⟨v, hv, hz⟩
    refine ⟨v, hv, ?_⟩
    unfold wcov
    rw [sum_mulVec]
    apply Finset.sum_eq_zero
    intro i _
    rw [smul_mulVec, vecMulVec_self_mulVec]
    by_cases hi : w i = 0
    · simp [hi]
    · rw [hz i hi]; simp

/-- a positive ridge makes a positive semi-definite matrix invertible -/
theorem ridge_invertible (S : Matrix κ κ ℝ) (hS : ∀ v : κ → ℝ, 0 ≤ v ⬝ᵥ (S *ᵥ v)) (c : ℝ) (hc : 0 < c) :
    IsUnit (S + c • (1 : Matrix κ κ ℝ)).det := by
  rw [isUnit_iff_ne_zero]
  intro hdet
  obtain ⟨v, hv, hSv⟩ := exists_mulVec_eq_zero_iff.mpr hdet
  have hq : v ⬝ᵥ ((S + c • (1 : Matrix κ κ ℝ)) *ᵥ v) = 0 := by rw [hSv]; simp
  rw [add_mulVec, smul_mulVec, one_mulVec, dotProduct_add, dotProduct_smul, smul_eq_mul] at hq
  have hvv : 0 ≤ v ⬝ᵥ v := Finset.sum_nonneg fun i _ => mul_self_nonneg (v i)
  have h0 : v ⬝ᵥ v = 0 := by nlinarith [hS v, mul_nonneg hc.le hvv]
  exact hv (dotProduct_self_eq_zero.mp h0)

omit [DecidableEq κ] in
/-- zero trace: every positively weighted point sits on the weighted mean -/
theorem wcov_trace_zero_iff (x : ι → κ → ℝ) (w : ι → ℝ) (hw : ∀ i, 0 ≤ w i) :
    trace (wcov x w) = 0 ↔ ∀ i, w i ≠ 0 → x i = wmean x w := by
  rw [wcov_trace]
  have hnn : ∀ i ∈ Finset.univ, 0 ≤ w i * ((x i - wmean x w) ⬝ᵥ (x i - wmean x w)) := fun i _ =>
    mul_nonneg (hw i) (Finset.sum_nonneg fun k _ => mul_self_nonneg _)
  rw [Finset.sum_eq_zero_iff_of_nonneg hnn]
  constructor
  · intro h i hi
    rcases mul_eq_zero.mp (h i (Finset.mem_univ i)) with h0 | h0
    · exact absurd h0 hi
    · exact sub_eq_zero.mp (dotProduct_self_eq_zero.mp h0)
  · intro h i _
    by_cases hi : w i = 0
    · simp [hi]
    · rw [h i hi]; simp

omit [DecidableEq κ] in
theorem wcov_trace_nonneg (x : ι → κ → ℝ) (w : ι → ℝ) (hw : ∀ i, 0 ≤ w i) : 0 ≤ trace (wcov x w) := by
  rw [wcov_trace]
  exact Finset.sum_nonneg fun i _ => mul_nonneg (hw i) (Finset.sum_nonneg fun k _ => mul_self_nonneg _)

omit [DecidableEq κ] in
theorem wcov_eq_zero_of_trace_zero (x : ι → κ → ℝ) (w : ι → ℝ) (hw : ∀ i, 0 ≤ w i)
    (h : trace (wcov x w) = 0) : wcov x w = 0 := by
  have hz := (wcov_trace_zero_iff x w hw).mp h
  unfold wcov
  apply Finset.sum_eq_zero
  intro i _
  by_cases hi : w i = 0
  · simp [hi]
  · rw [hz i hi]; simp

/-- **the `LinAlgError` fall-back** (`return 1e10` after the ridge): the regularised matrix is singular iff the trace of the
    covariance is zero, i.e. iff all positively weighted points coincide (`n_dim ≥ 1`) -/
theorem C20_volvar_fallback_iff [Nonempty κ] (x : ι → κ → ℝ) (w : ι → ℝ) (hw : ∀ i, 0 ≤ w i) :
    ¬ IsUnit (wcov x w + (1e-6 * trace (wcov x w)) • (1 : Matrix κ κ ℝ)).det
      ↔ ∀ i, w i ≠ 0 → x i = wmean x w := by
  rw [← wcov_trace_zero_iff x w hw]
  constructor
  · intro hsing
    by_contra htr
    have hpos : 0 < trace (wcov x w) := lt_of_le_of_ne (wcov_trace_nonneg x w hw) (Ne.symm htr)
    exact hsing (ridge_invertible _ (C20_wcov_psd x w hw) _ (by positivity))
  · intro htr
    rw [wcov_eq_zero_of_trace_zero x w hw htr]
    simp [isUnit_iff_ne_zero, Matrix.det_zero]

/-- **complete case split of `volume_variation`** for non-negative weights (`n_dim ≥ 1`):
    too few samples → `1e10`; full-rank covariance → the metric with `S⁻¹`; the positively weighted points span only a
    hyperplane but do not all coincide → the metric with the ridge-regularised matrix; all coincide → `1e10` -/
theorem C20_volvar_branches [Nonempty κ] (x : ι → κ → ℝ) (w0 : ι → ℝ) (hw : ∀ i, 0 ≤ wnorm w0 i) :
    let w := wnorm w0
    let S := wcov x w
    (Fintype.card ι < Fintype.card κ + 1 → volvar x w0 = 1e10) ∧
    (¬ Fintype.card ι < Fintype.card κ + 1 → IsUnit S.det → volvar x w0 = metricWith S x w) ∧
    (¬ Fintype.card ι < Fintype.card κ + 1 → ¬ IsUnit S.det → (∃ i, w i ≠ 0 ∧ x i ≠ wmean x w) →
        volvar x w0 = metricWith (S + (1e-6 * trace S) • (1 : Matrix κ κ ℝ)) x w) ∧
    (¬ Fintype.card ι < Fintype.card κ + 1 → (∀ i, w i ≠ 0 → x i = wmean x w) → volvar x w0 = 1e10) := by
  intro w S
  refine ⟨fun h => by simp [volvar, h], fun h hS => by simp only [volvar, if_neg h]; exact if_pos hS, ?_, ?_⟩
  · intro h hS hex
    have hreg : IsUnit (S + (1e-6 * trace S) • (1 : Matrix κ κ ℝ)).det := by
      by_contra hc
      obtain ⟨i, hi, hne⟩ := hex
      exact hne ((C20_volvar_fallback_iff x w hw).mp hc i hi)
    simp only [volvar, if_neg h]
    rw [if_neg hS, if_pos hreg]
  · intro h hall
    have htr : trace S = 0 := (wcov_trace_zero_iff x w hw).mpr hall
    have hS0 : S = 0 := wcov_eq_zero_of_trace_zero x w hw htr
    have hS : ¬ IsUnit S.det := by rw [hS0]; simp [isUnit_iff_ne_zero, Matrix.det_zero]
    have hreg : ¬ IsUnit (S + (1e-6 * trace S) • (1 : Matrix κ κ ℝ)).det :=
      (C20_volvar_fallback_iff x w hw).mpr hall
    simp only [volvar, if_neg h]
    rw [if_neg hS, if_neg hreg]

/-- non-negativity on the ridge branch in particular (the value there is `½·√(Σ …²)`) -/
theorem C20_volvar_ridge_nonneg (S : Matrix κ κ ℝ) (x : ι → κ → ℝ) (w : ι → ℝ) :
    0 ≤ metricWith (S + (1e-6 * trace S) • (1 : Matrix κ κ ℝ)) x w := metricWith_nonneg _ _ _

end Branches

/-! ### (C) the executable list model is the matrix model -/
section Twin
open Matrix Model.Student Model.VolVar
variable {n d : ℕ}

/-- list forms of the data -/
def rowsOf (x : Fin n → Fin d → ℝ) : List (List ℝ) := List.ofFn fun i => List.ofFn (x i)
def vecOf {m : ℕ} (v : Fin m → ℝ) : List ℝ := List.ofFn v
def matOf (M : Matrix (Fin d) (Fin d) ℝ) : List (List ℝ) := List.ofFn fun a => List.ofFn fun b => M a b

theorem zipWith_ofFn {β γ δ : Type} (g : β → γ → δ) {m : ℕ} (f : Fin m → β) (h : Fin m → γ) :
    List.zipWith g (List.ofFn f) (List.ofFn h) = List.ofFn fun i => g (f i) (h i) := by
  apply List.ext_getElem <;> simp

theorem zipIdx_ofFn {β : Type} {m : ℕ} (f : Fin m → β) :
    (List.ofFn f).zipIdx = List.ofFn fun i => (f i, i.val) := by
  apply List.ext_getElem
  · simp
  · intro k h1 h2
    simp

theorem filterMap_ofFn_some {β γ : Type} {m : ℕ} (f : Fin m → β) (g : β → Option γ) (h : Fin m → γ)
    (hg : ∀ i, g (f i) = some (h i)) : (List.ofFn f).filterMap g = List.ofFn h := by
  rw [List.ofFn_eq_map, List.filterMap_map, List.ofFn_eq_map]
  rw [← List.filterMap_eq_map]
  apply List.filterMap_congr
  intro i _
  simp [hg]

theorem sc_sum_ofFn {m : ℕ} (f : Fin m → ℝ) : Sc.sum (List.ofFn f) = ∑ i, f i := by
  rw [sum_def, List.sum_ofFn]

theorem dot_ofFn {m : ℕ} (f g : Fin m → ℝ) : dot (List.ofFn f) (List.ofFn g) = ∑ i, f i * g i := by
  unfold dot vmul; rw [zipWith_ofFn, sc_sum_ofFn]; simp

theorem foldl_vadd_ofFn {m k : ℕ} (f : Fin k → Fin m → ℝ) (g : Fin m → ℝ) :
    (List.ofFn fun j => List.ofFn (f j)).foldl vadd (List.ofFn g) = List.ofFn fun i => g i + ∑ j, f j i := by
  induction k generalizing g with
  | zero => simp
  | succ k ih =>
    rw [List.ofFn_succ, List.foldl_cons]
    unfold vadd
    rw [zipWith_ofFn]
    have := ih (fun j => f j.succ) (fun i => g i + f 0 i)
    unfold vadd at this
    simp only [ScReal.add_def]
    rw [this]
    congr 1; funext i
    rw [Fin.sum_univ_succ]; ring

theorem lincomb_ofFn {k m : ℕ} (c : Fin k → ℝ) (V : Fin k → Fin m → ℝ) :
    lincomb m (List.ofFn c) (List.ofFn fun j => List.ofFn (V j)) = List.ofFn fun i => ∑ j, c j * V j i := by
  unfold lincomb
  rw [zipWith_ofFn]
  have h0 : List.replicate m (Sc.zero : ℝ) = List.ofFn fun _ : Fin m => (0 : ℝ) := by
    apply List.ext_getElem <;> simp
  have h1 : (fun j => Model.Student.smul (c j) (List.ofFn (V j))) = fun j => List.ofFn fun i => c j * V j i := by
    funext j; unfold Model.Student.smul; simp [List.map_ofFn, Function.comp_def]
  rw [h0, h1, foldl_vadd_ofFn]
  simp

theorem normalise_vecOf (w0 : Fin n → ℝ) : normalise (vecOf w0) = vecOf (Lemmas.VolVar.wnorm w0) := by
  rw [normalise_def]
  unfold vecOf Lemmas.VolVar.wnorm
  rw [List.sum_ofFn]
  simp [List.map_ofFn, Function.comp_def]

theorem replicate_zero_ofFn {m : ℕ} : List.replicate m (Sc.zero : ℝ) = List.ofFn fun _ : Fin m => (0 : ℝ) := by
  apply List.ext_getElem <;> simp

theorem sumAxis0_ofFn {k m : ℕ} (V : Fin k → Fin m → ℝ) :
    sumAxis0 m (List.ofFn fun j => List.ofFn (V j)) = List.ofFn fun i => ∑ j, V j i := by
  unfold sumAxis0
  rw [replicate_zero_ofFn, foldl_vadd_ofFn]
  simp

theorem wmean_ofFn (x : Fin n → Fin d → ℝ) (w : Fin n → ℝ) :
    Model.VolVar.wmean d (rowsOf x) (vecOf w) = vecOf (Lemmas.VolVar.wmean x w) := by
  unfold Model.VolVar.wmean rowsOf vecOf
  rw [zipWith_ofFn]
  simp only [List.map_ofFn, Function.comp_def]
  rw [sumAxis0_ofFn]
  congr 1; funext k
  simp [Lemmas.VolVar.wmean, Finset.sum_apply, smul_eq_mul, mul_comm]

theorem centre_ofFn (x : Fin n → Fin d → ℝ) (m : Fin d → ℝ) :
    centre (rowsOf x) (vecOf m) = rowsOf fun i => x i - m := by
  unfold centre rowsOf vecOf
  rw [List.map_ofFn]
  congr 1; funext i
  simp only [Function.comp, zipWith_ofFn, ScReal.sub_def]
  rfl

theorem madd_matOf (G F : Matrix (Fin d) (Fin d) ℝ) : madd (matOf G) (matOf F) = matOf (G + F) := by
  unfold madd matOf
  rw [zipWith_ofFn]
  congr 1; funext a
  unfold vadd
  rw [zipWith_ofFn]
  simp

theorem foldl_madd_ofFn {k : ℕ} (F : Fin k → Matrix (Fin d) (Fin d) ℝ) (G : Matrix (Fin d) (Fin d) ℝ) :
    (List.ofFn fun i => matOf (F i)).foldl madd (matOf G) = matOf (G + ∑ i, F i) := by
  induction k generalizing G with
  | zero => simp
  | succ k ih =>
    rw [List.ofFn_succ, List.foldl_cons, madd_matOf, ih (fun i => F i.succ) (G + F 0), Fin.sum_univ_succ, add_assoc]

theorem mzero_matOf : (mzero d : List (List ℝ)) = matOf (0 : Matrix (Fin d) (Fin d) ℝ) := by
  unfold mzero matOf
  apply List.ext_getElem
  · simp
  · intro a h1 h2
    apply List.ext_getElem <;> simp

theorem wcov_ofFn (xc : Fin n → Fin d → ℝ) (w : Fin n → ℝ) :
    Model.VolVar.wcov d (rowsOf xc) (vecOf w) = matOf (∑ i, w i • vecMulVec (xc i) (xc i)) := by
  unfold Model.VolVar.wcov Model.VolVar.dotT rowsOf vecOf
  rw [zipWith_ofFn, zipWith_ofFn, mzero_matOf]
  have h : (fun i => outer (List.ofFn (xc i)) ((List.ofFn (xc i)).map fun v => Sc.mul v (w i)))
      = fun i => matOf (w i • vecMulVec (xc i) (xc i)) := by
    funext i
    unfold outer matOf
    rw [List.map_ofFn, List.map_ofFn]
    congr 1; funext a
    simp only [Function.comp, List.map_ofFn]
    congr 1; funext b
    simp only [Function.comp, ScReal.mul_def, Matrix.smul_apply, vecMulVec_apply, smul_eq_mul]
    ring
  rw [h, foldl_madd_ofFn, zero_add]

theorem trace_matOf (M : Matrix (Fin d) (Fin d) ℝ) : Model.VolVar.trace (matOf M) = Matrix.trace M := by
  unfold Model.VolVar.trace matOf
  rw [zipIdx_ofFn, filterMap_ofFn_some _ _ (fun a => M a a), sc_sum_ofFn]
  · rfl
  · intro a; simp

theorem eye_matOf : (eye d : List (List ℝ)) = matOf (1 : Matrix (Fin d) (Fin d) ℝ) := by
  unfold eye identRow matOf
  apply List.ext_getElem
  · simp
  · intro a h1 h2
    apply List.ext_getElem
    · simp
    · intro b h3 h4
      simp only [List.getElem_map, List.getElem_range, List.getElem_ofFn, Matrix.one_apply, Fin.ext_iff, beq_iff_eq,
        ScReal.one_def, ScReal.zero_def]
      by_cases h : b = a
      · simp [h]
      · have h' : ¬ a = b := fun e => h e.symm
        simp [h, h']

theorem smulMat_matOf (M : Matrix (Fin d) (Fin d) ℝ) (c : ℝ) :
    (matOf M).map (fun r => r.map fun t => Sc.mul t c) = matOf (c • M) := by
  unfold matOf
  simp [List.map_ofFn, Function.comp_def, mul_comm]

theorem addRidge_matOf (M : Matrix (Fin d) (Fin d) ℝ) (c : ℝ) :
    addRidge d (matOf M) c = matOf (M + c • (1 : Matrix (Fin d) (Fin d) ℝ)) := by
  unfold addRidge
  rw [eye_matOf, smulMat_matOf, madd_matOf]

theorem matmul_ofFn (xc : Fin n → Fin d → ℝ) (B : Matrix (Fin d) (Fin d) ℝ) :
    matmul d (rowsOf xc) (matOf B) = rowsOf fun i => vecMul (xc i) B := by
  unfold matmul rowsOf matOf
  rw [List.map_ofFn]
  congr 1; funext i
  simp only [Function.comp]
  rw [lincomb_ofFn]
  congr 1

theorem maha2_ofFn (xc : Fin n → Fin d → ℝ) (B : Matrix (Fin d) (Fin d) ℝ) :
    maha2 d (rowsOf xc) (matOf B) = vecOf fun i => xc i ⬝ᵥ (B *ᵥ xc i) := by
  unfold maha2
  rw [matmul_ofFn]
  unfold rowsOf vecOf
  simp only [zipWith_ofFn, List.map_ofFn, Function.comp_def, sc_sum_ofFn, ScReal.mul_def]
  congr 1; funext i
  rw [dotProduct_mulVec]
  simp only [dotProduct]

theorem radicand_ofFn (w t : Fin n → ℝ) :
    radicand d (vecOf w) (vecOf t)
      = ∑ i, (w i) ^ 2 * (Lemmas.VolVar.clip (t i - (d : ℝ)) (-1e6) 1e6) ^ 2 := by
  unfold radicand vecOf
  simp only [List.map_ofFn, Function.comp_def, zipWith_ofFn, sc_sum_ofFn]
  refine Finset.sum_congr rfl fun i _ => ?_
  simp only [Model.VolVar.clip, Lemmas.VolVar.clip, ScReal.mul_def, ScReal.sub_def, ScReal.ofNat_def, ScReal.neg_def,
    ScReal.max_def, ScReal.min_def]
  norm_num
  ring

/-- **H_inv.** what the model's Gauss–Jordan routine must do on the matrix `S` it is handed: return the inverse when `S` is
    invertible, answer `none` when it is singular.  (True for every positive semi-definite `S` in exact arithmetic — the
    elimination without pivoting meets a pivot `≤ 0` iff a leading minor vanishes; not proved here.  Suite `volvar-exec-Q`
    checks both halves exactly, in rational arithmetic, on every case it generates.) -/
def InvOK (S : Matrix (Fin d) (Fin d) ℝ) : Prop :=
  (IsUnit S.det → Model.Student.inv (matOf S) = some (matOf S⁻¹)) ∧
  (¬ IsUnit S.det → Model.Student.inv (matOf S) = none)

/-- the quantity under the root, list model vs matrix model -/
theorem radicand_eq (S : Matrix (Fin d) (Fin d) ℝ) (x : Fin n → Fin d → ℝ) (w : Fin n → ℝ) :
    (1 / 2 : ℝ) * Real.sqrt (radicand d (vecOf w)
        (maha2 d (centre (rowsOf x) (Model.VolVar.wmean d (rowsOf x) (vecOf w))) (matOf S⁻¹)))
      = Lemmas.VolVar.metricWith S x w := by
  rw [wmean_ofFn, centre_ofFn, maha2_ofFn, radicand_ofFn]
  unfold Lemmas.VolVar.metricWith Lemmas.Maha.maha
  simp only [Fintype.card_fin]

/-- **the executable model equals the matrix model** (all four branches), under H_inv for the covariance and — when that is
    singular — for the ridge-regularised matrix -/
theorem C20_volvar_exec_eq_matrix (x : Fin n → Fin d → ℝ) (w0 : Fin n → ℝ)
    (h1 : InvOK (Lemmas.VolVar.wcov x (Lemmas.VolVar.wnorm w0)))
    (h2 : ¬ IsUnit (Lemmas.VolVar.wcov x (Lemmas.VolVar.wnorm w0)).det →
      InvOK (Lemmas.VolVar.wcov x (Lemmas.VolVar.wnorm w0)
        + (1e-6 * Matrix.trace (Lemmas.VolVar.wcov x (Lemmas.VolVar.wnorm w0))) • (1 : Matrix (Fin d) (Fin d) ℝ))) :
    Model.VolVar.volvar d (rowsOf x) (some (vecOf w0)) = Lemmas.VolVar.volvar x w0 := by
  have hlen : (rowsOf x).length = n := by simp [rowsOf]
  have hcov : Model.VolVar.wcov d (centre (rowsOf x) (Model.VolVar.wmean d (rowsOf x) (vecOf (Lemmas.VolVar.wnorm w0))))
      (vecOf (Lemmas.VolVar.wnorm w0)) = matOf (Lemmas.VolVar.wcov x (Lemmas.VolVar.wnorm w0)) := by
    rw [wmean_ofFn, centre_ofFn, wcov_ofFn]; rfl
  have hlit : (Sc.lit 1 6 : ℝ) = 1e-6 := by simp only [ScReal.lit_def]; norm_num
  have hhalf : (Sc.lit 5 1 : ℝ) = 1 / 2 := by simp only [ScReal.lit_def]; norm_num
  have hbig : (big : ℝ) = 1e10 := by simp only [big, ScReal.ofNat_def]; norm_num
  unfold Model.VolVar.volvar Model.VolVar.out Lemmas.VolVar.volvar
  simp only [hlen, Fintype.card_fin, normalise_vecOf]
  by_cases hc : n < d + 1
  · simp only [if_pos hc, hbig]
  · simp only [if_neg hc]
    rw [hcov]
    generalize Lemmas.VolVar.wcov x (Lemmas.VolVar.wnorm w0) = S at h1 h2 ⊢
    generalize Lemmas.VolVar.wnorm w0 = w
    by_cases hu : IsUnit S.det
    · rw [h1.1 hu]
      simp only [if_pos hu, hhalf, ScReal.mul_def, ScReal.sqrt_def]
      exact radicand_eq S x w
    · rw [h1.2 hu]
      simp only [if_neg hu, hlit, trace_matOf, ScReal.mul_def, addRidge_matOf]
      obtain ⟨h2a, h2b⟩ := h2 hu
      by_cases hu' : IsUnit (S + (1e-6 * Matrix.trace S) • (1 : Matrix (Fin d) (Fin d) ℝ)).det
      · rw [h2a hu']
        simp only [if_pos hu', hhalf, ScReal.sqrt_def]
        exact radicand_eq _ x w
      · rw [h2b hu']
        simp only [if_neg hu', hbig]

/-- **affine invariance of the executable model** on the full-rank branch: for an invertible `A`, any `b`, raw weights with
    non-zero sum and an invertible weighted covariance, under H_inv for the covariance before and after the map -/
theorem C20_volvar_exec_affine_invariant (A : Matrix (Fin d) (Fin d) ℝ) (b : Fin d → ℝ) (hA : IsUnit A.det)
    (x : Fin n → Fin d → ℝ) (w0 : Fin n → ℝ) (hw : ∑ i, w0 i ≠ 0)
    (hS : IsUnit (Lemmas.VolVar.wcov x (Lemmas.VolVar.wnorm w0)).det)
    (h1 : InvOK (Lemmas.VolVar.wcov x (Lemmas.VolVar.wnorm w0)))
    (h1' : InvOK (Lemmas.VolVar.wcov (fun i => A *ᵥ x i + b) (Lemmas.VolVar.wnorm w0))) :
    Model.VolVar.volvar d (rowsOf fun i => A *ᵥ x i + b) (some (vecOf w0))
      = Model.VolVar.volvar d (rowsOf x) (some (vecOf w0)) := by
  have hS' : IsUnit (Lemmas.VolVar.wcov (fun i => A *ᵥ x i + b) (Lemmas.VolVar.wnorm w0)).det := by
    rw [Lemmas.VolVar.wcov_affine A b x _ (Lemmas.VolVar.sum_wnorm w0 hw), det_mul, det_mul, det_transpose]
    exact (hA.mul hS).mul hA
  rw [C20_volvar_exec_eq_matrix x w0 h1 (fun h => absurd hS h),
    C20_volvar_exec_eq_matrix _ w0 h1' (fun h => absurd hS' h)]
  exact Lemmas.VolVar.volvar_affine A b hA x w0 hw hS

/-- H_inv holds for every `1 × 1` matrix with non-negative entry (so for every weighted variance): in one dimension the
    executable model equals the matrix model with no hypothesis left -/
theorem InvOK_one (S : Matrix (Fin 1) (Fin 1) ℝ) (h : 0 ≤ S 0 0) : InvOK S := by
  have hm : matOf S = [[S 0 0]] := by simp [matOf, List.ofFn_succ]
  have hinv : matOf S⁻¹ = [[(S 0 0)⁻¹]] := by
    simp [matOf, List.ofFn_succ, Ring.inverse_eq_inv']
  constructor
  · intro hu
    rw [Matrix.det_fin_one, isUnit_iff_ne_zero] at hu
    have hpos : 0 < S 0 0 := lt_of_le_of_ne h (Ne.symm hu)
    rw [hm, hinv]
    simp [Model.Student.inv, gj, gjStep, identRow, List.zipIdx, List.range, List.range.loop, hpos, hu]
  · intro hu
    rw [Matrix.det_fin_one, isUnit_iff_ne_zero, not_not] at hu
    rw [hm]
    simp [Model.Student.inv, gj, gjStep, identRow, List.zipIdx, List.range, List.range.loop, hu]

/-- in one dimension, for non-negative normalised weights: executable model = matrix model, unconditionally -/
theorem C20_volvar_exec_eq_matrix_dim1 (x : Fin n → Fin 1 → ℝ) (w0 : Fin n → ℝ)
    (hw : ∀ i, 0 ≤ Lemmas.VolVar.wnorm w0 i) :
    Model.VolVar.volvar 1 (rowsOf x) (some (vecOf w0)) = Lemmas.VolVar.volvar x w0 := by
  have hS00 : 0 ≤ (Lemmas.VolVar.wcov x (Lemmas.VolVar.wnorm w0)) 0 0 := by
    have h := C20_wcov_psd x (Lemmas.VolVar.wnorm w0) hw (fun _ => 1)
    simpa [dotProduct, mulVec] using h
  have htr : 0 ≤ Matrix.trace (Lemmas.VolVar.wcov x (Lemmas.VolVar.wnorm w0)) := wcov_trace_nonneg x _ hw
  refine C20_volvar_exec_eq_matrix x w0 (InvOK_one _ hS00) (fun _ => InvOK_one _ ?_)
  simp only [Matrix.add_apply, Matrix.smul_apply, Matrix.one_apply_eq, smul_eq_mul, mul_one]
  positivity

/-- non-vacuity: three points on a line, unit weights — the executable model runs through the main branch and agrees with
    the matrix model; and it is invariant under `x ↦ 2x + 5` -/
example : Model.VolVar.volvar 1 (rowsOf Lemmas.VolVar.exX) (some (vecOf Lemmas.VolVar.exW))
    = Lemmas.VolVar.volvar Lemmas.VolVar.exX Lemmas.VolVar.exW :=
  C20_volvar_exec_eq_matrix_dim1 _ _ (by intro i; simp [Lemmas.VolVar.wnorm, Lemmas.VolVar.exW])

end Twin

/-! ### (D) the full-rank guard of the affine-invariance theorems is essential -/
section RidgeWitness
open Model.VolVar

/-- four points `±e₁, ±e₂` in ℝ³ (they span a plane: the covariance has rank 2) … -/
def ridgeX : List (List Rat) := [[1, 0, 0], [-1, 0, 0], [0, 1, 0], [0, -1, 0]]
/-- … and their images under the invertible map `diag(2, 1, 1)` -/
def ridgeY : List (List Rat) := [[2, 0, 0], [-2, 0, 0], [0, 1, 0], [0, -1, 0]]

/-- **the ridge-regularised branch is not affine invariant**, in exact rational arithmetic, on the executed definitions:
    both clouds go through the ridge branch and the numbers under the square root differ
    (`250003000009/1000004000004` vs `2844515556146668000001/11377920000586667555556`, a relative difference of about `4·10⁻⁶`). -/
theorem C20_volvar_ridge_not_affine_invariant :
    (out 3 ridgeX (some [1, 1, 1, 1])).branch = .ridge ∧ (out 3 ridgeY (some [1, 1, 1, 1])).branch = .ridge ∧
    (out 3 ridgeX (some [1, 1, 1, 1])).radicand ≠ (out 3 ridgeY (some [1, 1, 1, 1])).radicand := by
  decide +kernel

/-- the other branches on concrete rational data: full rank, all points identical, too few points -/
theorem C20_volvar_branch_witnesses :
    (out 1 ([[0], [1], [2]] : List (List Rat)) none).branch = .main ∧
    (out 1 ([[0], [1], [2]] : List (List Rat)) none).radicand = 1 / 6 ∧
    (out 2 ([[1, 1], [1, 1], [1, 1]] : List (List Rat)) none).branch = .singular ∧
    (out 2 ([[1, 1], [2, 3]] : List (List Rat)) none).branch = .tooFew ∧
    (out 2 ([[0, 1], [5, 7], [0, 3]] : List (List Rat)) (some [1, 0, 1])).branch = .ridge := by
  decide +kernel

end RidgeWitness

end Props.C20
