import TempestVerif.Model.Pipeline
import TempestVerif.Lemmas.ScReal
import TempestVerif.Lemmas.PipelineShift
import TempestVerif.Props.C04
import TempestVerif.Props.C05
import TempestVerif.Props.C20
import TempestVerif.Props.C06
import Mathlib.Tactic
/-
  C10 — adding a constant `c` to the log-likelihood changes nothing about a seeded run except the evidence.

  Theorems are about `Model.Pipeline` at `ℝ` (exact arithmetic; "up to floating-point rounding" in the statement is
  what the paired-run correspondence measures).  A seeded run is a run on a fixed `Tape`; the run on `ℓ + c` sees the
  tape `shiftTape c t` (same tags, picks, uniforms and Hastings factors, every finite log-likelihood plus `c`).

    C10_oracleM_shift / C10_oracleZ_shift   weights after the max-shift and ESS unchanged; evidence oracle + β c
    C10_reweight_shift                      `Reweighter.run`: same β, weights, ESS, branch, calls; logz + β c
    C10_acceptProb_shift, C10_mcmcStep_shift, C10_mcmcSteps_shift, C10_warmup_shift
    C10_wellformed_preserved                "every stored batch non-empty" is an invariant of `iterate`
    C10_iterate (relational) / C10_iterate_eq (functional, includes the failure cases)
    C10_run, C10_run_outputs                whole run from `init`: same schedule / ESS / indices / masks, logz_t + β_t c
    C10_final_evidence, C10_run_final       evidence recomputed at β = 1 shifts by exactly c

  The model's metric oracle is the ESS-mode one (`Model.Pipeline.oracleM`), so the statement is tied to the code for
  `volume_variation = None` only; inside the model no hypothesis on `cfg.rw.vv` is needed.
-/
namespace Props.C10
open Model.Pipeline Model.Weights Model.Reweight
open Lemmas.PipelineShift
open Props.C04 (WF shiftH shiftB)

/-! ### the shift of a tape and of a state -/

/-- the tape of the run on `ℓ + c`: `c` added to every `some` entry of `drawL` and of every step's `propL` -/
abbrev shiftTape := Lemmas.PipelineShift.shiftTape

example (c : ℝ) (t : Tape ℝ) :
    (shiftTape c t).drawTags = t.drawTags ∧ (shiftTape c t).picks = t.picks ∧ (shiftTape c t).resU = t.resU ∧
    (shiftTape c t).drawL = t.drawL.map (Option.map (· + c)) ∧
    (shiftTape c t).steps = t.steps.map fun s => ⟨s.propTags, s.propL.map (Option.map (· + c)), s.factor, s.r⟩ :=
  ⟨rfl, rfl, rfl, rfl, rfl⟩

/-- `s'` is the state of the shifted run that corresponds to `s` -/
structure Shifted (c : ℝ) (s s' : PState ℝ) : Prop where
  curTags : s'.curTags = s.curTags
  beta : s'.beta = s.beta
  curL : s'.curL = s.curL.map (· + c)
  logz : s'.logz = s.logz + s.beta * c
  histTags : s'.hist.map (·.tags) = s.hist.map (·.tags)
  /-- same `β_t`, `ℓ' = ℓ + c`, `z_t' = z_t + β_t c` batch by batch -/
  hist : batches s'.hist = shiftH c (batches s.hist)

theorem pbatch_list_ext : ∀ (l l' : List (PBatch ℝ)), l.map (·.b) = l'.map (·.b) →
    l.map (·.tags) = l'.map (·.tags) → l = l'
  | [], [], _, _ => rfl
  | [], _ :: _, h, _ => by simp at h
  | _ :: _, [], h, _ => by simp at h
  | a :: l, a' :: l', h1, h2 => by
    simp only [List.map_cons, List.cons.injEq] at h1 h2
    have := pbatch_list_ext l l' h1.2 h2.2
    subst this
    obtain ⟨b, tg⟩ := a
    obtain ⟨b', tg'⟩ := a'
    simp only at h1 h2
    rw [h1.1, h2.1]

/-- the relation is functional: `s'` is `shiftState c s` -/
theorem Shifted_iff (c : ℝ) (s s' : PState ℝ) : Shifted c s s' ↔ s' = shiftState c s := by
  constructor
  · intro h
    obtain ⟨h1, h2, h3, h4, h5, h6⟩ := h
    have hh : s'.hist = s.hist.map (shiftPB c) := by
      apply pbatch_list_ext
      · have := batches_shift c s.hist
        simp only [batches] at this h6
        rw [h6, this]
      · rw [h5]; simp [shiftPB, List.map_map, Function.comp_def]
    obtain ⟨a1, a2, a3, a4, a5⟩ := s'
    simp only at h1 h2 h3 h4 hh
    simp only [shiftState, PState.mk.injEq]
    exact ⟨hh, h2, h4, h1, h3⟩
  · rintro rfl
    refine ⟨rfl, rfl, rfl, rfl, ?_, batches_shift c s.hist⟩
    simp [shiftState, shiftPB, List.map_map, Function.comp_def]

theorem Shifted_shiftState (c : ℝ) (s : PState ℝ) : Shifted c s (shiftState c s) :=
  (Shifted_iff c s _).mpr rfl

/-- every stored batch is non-empty (the statement quantifies over runs with `n_particles ≥ 1`) -/
abbrev WFS := Lemmas.PipelineShift.WFS
abbrev TapeOK := Lemmas.PipelineShift.TapeOK

/-! ### the oracles -/

/-- the metric oracle (weights `exp(logw − max logw)` of the NORMALISED log-weights, ESS) does not see the shift:
    `C04_shift` says the normalised log-weights are unchanged, and everything else is computed from them -/
theorem C10_oracleM_shift (h : List (Batch ℝ)) (hwf : WF h) (c β : ℝ) :
    oracleM (shiftH c h) β = oracleM h β := oracleM_shift h hwf c β

/-- the evidence oracle shifts by `β c` -/
theorem C10_oracleZ_shift (h : List (Batch ℝ)) (hwf : WF h) (c β : ℝ) :
    oracleZ (shiftH c h) β = oracleZ h β + β * c := oracleZ_shift h hwf c β

/-- `Reweighter.run` on the shifted pool: same β, same returned weights, same ESS, same branch, same oracle calls;
    the recorded evidence moves by `β c` at the β it returns -/
theorem C10_reweight_shift (cfg : Cfg ℝ) (h : List (Batch ℝ)) (hwf : h = [] ∨ WF h) (c prev : ℝ) (fin : ℝ → Bool) :
    let r := Model.Reweight.run cfg h.isEmpty (oracleM h) (oracleZ h) fin prev
    let r' := Model.Reweight.run cfg (shiftH c h).isEmpty (oracleM (shiftH c h)) (oracleZ (shiftH c h)) fin prev
    r'.beta = r.beta ∧ r'.weightsTag = r.weightsTag ∧ r'.ess = r.ess ∧ r'.branch = r.branch ∧ r'.sub = r.sub ∧
    r'.calls = r.calls ∧ r'.zcalls = r.zcalls ∧ r'.logz = r.logz + r.beta * c := by
  intro r r'
  have h := reweight_shift cfg h hwf c prev fin
  simp only [r', h]
  exact ⟨rfl, rfl, rfl, rfl, rfl, rfl, rfl, rfl⟩

/-- `run` uses the evidence oracle only through `Z r.beta` -/
theorem C10_reweight_Z_congr {W : Type} (cfg : Cfg ℝ) (M : ℝ → W × ℝ × ℝ) (Z Z' : ℝ → ℝ) (fin : ℝ → Bool) (prev : ℝ) :
    Model.Reweight.run cfg false M Z' fin prev
      = { Model.Reweight.run cfg false M Z fin prev with logz := Z' (Model.Reweight.run cfg false M Z fin prev).beta } :=
  run_Z_congr cfg M Z Z' fin prev

/-! ### mutation -/

/-- the acceptance probability `nan_to_num(minimum(1, exp(β(ℓ' − ℓ) + factor)))` sees only `ℓ' − ℓ` -/
theorem C10_acceptProb_shift (β l lp f c : ℝ) :
    Gen.Kernel.acceptProb β (l + c) (lp + c) f = Gen.Kernel.acceptProb β l lp f := acceptProb_shift β l lp f c

/-- over ℝ the generated expression is the textbook `min 1 (exp …)` -/
theorem C10_acceptProb_real (β l lp f : ℝ) :
    Gen.Kernel.acceptProb β l lp f = min 1 (Real.exp (β * (lp - l) + f)) := by
  have h1 : ∀ a b : ℝ, Gen.Kernel.npMinimum a b = min a b := by
    intro a b
    unfold Gen.Kernel.npMinimum
    by_cases h : b < a
    · simp [h, min_eq_right h.le]
    · simp [h, min_eq_left (not_lt.mp h)]
  have h2 : ∀ a : ℝ, Gen.Kernel.nanToZero a = a := by intro a; simp [Gen.Kernel.nanToZero]
  simp [Gen.Kernel.acceptProb, h1, h2]

/-- one accept/reject step: identical accept mask, identical tags, log-likelihoods shifted; a `none` (−∞) proposal
    stays rejected -/
theorem C10_mcmcStep_shift (c β : ℝ) (tg : List Nat) (l : List ℝ) (pt : List Nat) (pl : List (Option ℝ))
    (f r : List ℝ) :
    mcmcStep β tg (l.map (· + c)) pt (pl.map (Option.map (· + c))) f r
      = ((mcmcStep β tg l pt pl f r).1, (mcmcStep β tg l pt pl f r).2.1.map (· + c),
         (mcmcStep β tg l pt pl f r).2.2) := mcmcStep_shift c β tg l pt pl f r

theorem C10_mcmcSteps_shift (c β : ℝ) (ss : List (Step ℝ)) (tg : List Nat) (l : List ℝ) :
    mcmcSteps β (shiftTape c ⟨[], [], [], [], ss⟩).steps tg (l.map (· + c))
      = ((mcmcSteps β ss tg l).1, (mcmcSteps β ss tg l).2.1.map (· + c), (mcmcSteps β ss tg l).2.2) :=
  mcmcSteps_shift c β ss tg l

/-- warm-up: same tags, log-likelihoods shifted, and the SAME correction `log(n_fin/n)` when some draw was −∞
    (otherwise the reweighting step's evidence is passed through); consistent with `β = 0`, where `β c = 0` -/
theorem C10_warmup_shift (c : ℝ) (t : Tape ℝ) (lz lz' : ℝ) :
    (warmup (shiftTape c t) lz').1 = (warmup t lz).1 ∧
    (warmup (shiftTape c t) lz').2.1 = (warmup t lz).2.1.map (Option.map (· + c)) ∧
    (warmup (shiftTape c t) lz').2.2
      = if countSome t.drawL < t.drawL.length then (warmup t lz).2.2 else lz' := by
  rw [warmup_shift c t lz lz']
  exact ⟨rfl, rfl, rfl⟩

theorem C10_warmup_correction (t : Tape ℝ) (lz : ℝ) (h : countSome t.drawL < t.drawL.length) :
    (warmup t lz).2.2 = Real.log ((countSome t.drawL : ℝ) / (t.drawL.length : ℝ)) := by
  simp [warmup, h]

/-! ### one iteration -/

/-- well-formedness is an invariant: from a history of non-empty batches, an iteration on a tape that supplies at
    least one prior draw and at least one resampled particle commits a non-empty batch -/
theorem C10_wellformed_preserved (cfg : PCfg ℝ) (s : PState ℝ) (t : Tape ℝ) (s1 : PState ℝ) (o : IterOut ℝ)
    (hs : WFS s) (ht : TapeOK cfg t) (h : iterate cfg s t = some (s1, o)) : WFS s1 :=
  iterate_WFS cfg s t s1 o hs ht h

theorem C10_wellformed_shift (c : ℝ) (s : PState ℝ) (hs : WFS s) : WFS (shiftState c s) := by
  intro pb hpb
  simp only [shiftState, List.mem_map] at hpb
  obtain ⟨pb', hpb', rfl⟩ := hpb
  simpa [shiftPB, shiftB] using hs pb' hpb'

/-- functional form: the iteration of the shifted run is the shift of the iteration, INCLUDING the outcomes outside
    the model (`none` on one side iff `none` on the other) -/
theorem C10_iterate_eq (cfg : PCfg ℝ) (c : ℝ) (s : PState ℝ) (t : Tape ℝ) (hs : WFS s) :
    iterate cfg (shiftState c s) (shiftTape c t)
      = (iterate cfg s t).map fun p => (shiftState c p.1, shiftOut c p.2) :=
  iterate_shift cfg c s t hs

/-- **one iteration preserves the shift relation**: same β, ESS, resampled indices, accept masks, branch; the
    evidence written by the reweighting step and the one committed with the batch move by `β c` -/
theorem C10_iterate (cfg : PCfg ℝ) (c : ℝ) (s s' s1 : PState ℝ) (t : Tape ℝ) (o : IterOut ℝ) (hs : WFS s)
    (hsh : Shifted c s s') (h : iterate cfg s t = some (s1, o)) :
    ∃ s1' o', iterate cfg s' (shiftTape c t) = some (s1', o') ∧ Shifted c s1 s1' ∧
      o'.beta = o.beta ∧ o'.ess = o.ess ∧ o'.idx = o.idx ∧ o'.masks = o.masks ∧ o'.branch = o.branch ∧
      o'.logzRw = o.logzRw + o.beta * c ∧ o'.logz = o.logz + o.beta * c := by
  rw [(Shifted_iff c s s').mp hsh, C10_iterate_eq cfg c s t hs, h]
  exact ⟨shiftState c s1, shiftOut c o, rfl, Shifted_shiftState c s1, rfl, rfl, rfl, rfl, rfl, rfl, rfl⟩

/-- the particles of the shifted run are the same records (tags), with log-likelihood `ℓ + c` -/
theorem C10_iterate_particles (cfg : PCfg ℝ) (c : ℝ) (s s' s1 s1' : PState ℝ) (t : Tape ℝ) (o o' : IterOut ℝ)
    (hs : WFS s) (hsh : Shifted c s s') (h : iterate cfg s t = some (s1, o))
    (h' : iterate cfg s' (shiftTape c t) = some (s1', o')) :
    s1'.curTags = s1.curTags ∧ s1'.curL = s1.curL.map (· + c) ∧ poolTags s1'.hist = poolTags s1.hist := by
  obtain ⟨s1'', o'', e, hsh1, _⟩ := C10_iterate cfg c s s' s1 t o hs hsh h
  rw [h'] at e
  simp only [Option.some.injEq, Prod.mk.injEq] at e
  obtain ⟨rfl, rfl⟩ := e
  have := (Shifted_iff c s1 s1').mp hsh1
  refine ⟨hsh1.curTags, hsh1.curL, ?_⟩
  rw [this]; exact poolTags_shift c s1.hist

/-! ### the whole run -/

theorem C10_init (c : ℝ) : Shifted c (init : PState ℝ) init := by
  rw [Shifted_iff, shiftState_init]

/-- **the run on `ℓ + c`** from the empty state over the shifted tapes is the shift of the run on `ℓ`, iteration by
    iteration; in particular both runs fail or succeed together -/
theorem C10_run (cfg : PCfg ℝ) (c : ℝ) (ts : List (Tape ℝ)) (ht : ∀ t ∈ ts, TapeOK cfg t) :
    runIters cfg init (ts.map (shiftTape c))
      = (runIters cfg init ts).map fun p => (shiftState c p.1, p.2.map (shiftOut c)) := by
  have := runIters_shift cfg c ts init WFS_init ht
  rwa [shiftState_init] at this

/-- the same, spelled out on the recorded sequences: identical temperature schedule, ESS sequence, resampled indices,
    accept masks and branches; every recorded log-evidence at temperature `β_k` moves by `β_k c` -/
theorem C10_run_outputs (cfg : PCfg ℝ) (c : ℝ) (ts : List (Tape ℝ)) (ht : ∀ t ∈ ts, TapeOK cfg t)
    (sf : PState ℝ) (os : List (IterOut ℝ)) (h : runIters cfg init ts = some (sf, os)) :
    ∃ sf' os', runIters cfg init (ts.map (shiftTape c)) = some (sf', os') ∧ Shifted c sf sf' ∧
      os'.map (·.beta) = os.map (·.beta) ∧ os'.map (·.ess) = os.map (·.ess) ∧
      os'.map (·.idx) = os.map (·.idx) ∧ os'.map (·.masks) = os.map (·.masks) ∧
      os'.map (·.branch) = os.map (·.branch) ∧
      os'.map (·.logz) = os.map (fun o => o.logz + o.beta * c) ∧
      os'.map (·.logzRw) = os.map (fun o => o.logzRw + o.beta * c) := by
  refine ⟨shiftState c sf, os.map (shiftOut c), ?_, Shifted_shiftState c sf, ?_⟩
  · rw [C10_run cfg c ts ht, h]; rfl
  · simp [List.map_map, Function.comp_def, shiftOut]

/-- the evidence recomputed at β = 1 over the final history (`run_sampling`'s epilogue) moves by exactly `c` -/
theorem C10_final_evidence (c : ℝ) (s : PState ℝ) (hs : WFS s) (hne : s.hist ≠ []) :
    ∃ z, finalEvidence s = some z ∧ finalEvidence (shiftState c s) = some (z + c) := by
  have hwf : WF (batches s.hist) := by
    rcases WF_batches s hs with h | h
    · simp [batches] at h; exact absurd h hne
    · exact h
  refine ⟨Props.C04.specLogz (batches s.hist) 1, ?_, ?_⟩
  · simp only [finalEvidence, ScReal.one_def]
    exact Props.C04.C04_logz _ hwf 1 true
  · simp only [finalEvidence, ScReal.one_def, shiftState, batches_shift]
    rw [(Props.C04.C04_shift _ hwf 1 c true).2.2, Props.C04.C04_logz _ hwf 1 true]
    simp

/-- whole run, end to end: the reported log-evidence of the run on `ℓ + c` is the reported log-evidence plus `c` -/
theorem C10_run_final (cfg : PCfg ℝ) (c : ℝ) (ts : List (Tape ℝ)) (ht : ∀ t ∈ ts, TapeOK cfg t) (hts : ts ≠ [])
    (sf : PState ℝ) (os : List (IterOut ℝ)) (h : runIters cfg init ts = some (sf, os)) :
    ∃ sf' os' z, runIters cfg init (ts.map (shiftTape c)) = some (sf', os') ∧
      finalEvidence sf = some z ∧ finalEvidence sf' = some (z + c) := by
  have hwfs := runIters_WFS cfg ts init sf os WFS_init ht h
  have hne : sf.hist ≠ [] := by
    obtain ⟨ext, h1, h2, _⟩ := runIters_hist cfg ts init sf os h
    intro he
    rw [he] at h1
    have : ext = [] := by
      have := congrArg List.length h1
      simp at this
      exact List.eq_nil_of_length_eq_zero (by omega)
    rw [this] at h2
    exact hts (List.eq_nil_of_length_eq_zero h2.symm)
  obtain ⟨z, hz, hz'⟩ := C10_final_evidence c sf hwfs hne
  exact ⟨shiftState c sf, os.map (shiftOut c), z, by rw [C10_run cfg c ts ht, h]; rfl, hz, hz'⟩

/-- a-posteriori form (no condition on the tapes): whenever the run on `ℓ` completed and every batch it committed is
    non-empty, the run on `ℓ + c` over the shifted tapes completes too, with the same schedule, ESS sequence, indices
    and accept masks, every recorded evidence moved by `β_k c`, and the final evidence moved by `c` -/
theorem C10_run_of_final (cfg : PCfg ℝ) (c : ℝ) (ts : List (Tape ℝ)) (sf : PState ℝ) (os : List (IterOut ℝ))
    (h : runIters cfg init ts = some (sf, os)) (hw : WFS sf) :
    runIters cfg init (ts.map (shiftTape c)) = some (shiftState c sf, os.map (shiftOut c)) ∧
    Shifted c sf (shiftState c sf) ∧
    (∀ (k : Nat) (o : IterOut ℝ), os[k]? = some o → ∃ o' : IterOut ℝ, (os.map (shiftOut c))[k]? = some o' ∧ o'.beta = o.beta ∧ o'.ess = o.ess ∧
      o'.idx = o.idx ∧ o'.masks = o.masks ∧ o'.logz = o.logz + o.beta * c) ∧
    (sf.hist ≠ [] → ∃ z, finalEvidence sf = some z ∧ finalEvidence (shiftState c sf) = some (z + c)) := by
  have := runIters_shift_of_final cfg c ts init sf os h hw
  rw [shiftState_init] at this
  refine ⟨this, Shifted_shiftState c sf, ?_, fun hne => C10_final_evidence c sf hw hne⟩
  intro k o hk
  exact ⟨shiftOut c o, by simp [hk], rfl, rfl, rfl, rfl, rfl⟩

/-! ### non-vacuity: a concrete two-iteration run (warm-up, then one annealing iteration with systematic resampling
    and one accept/reject step in which one proposal is accepted and one (−∞) is rejected) -/

open Lemmas.PipelineShift.Ex

/-- the hypotheses of `C10_iterate` are met by the second iteration of the example, with `c = 1000` -/
example : ∃ s1' o', iterate cfgEx (shiftState 1000 s1) (shiftTape 1000 t2) = some (s1', o') ∧
    Shifted 1000 s2 s1' ∧ o'.beta = 1 ∧ o'.ess = 2 ∧ o'.idx = [0, 1] ∧ o'.masks = [[true, false]] ∧
    o'.logz = z1 + 1 * 1000 := by
  obtain ⟨a, b, h1, h2, h3, h4, h5, h6, _, _, h9⟩ :=
    C10_iterate cfgEx 1000 s1 (shiftState 1000 s1) s2 t2 _ wfs_s1 (Shifted_shiftState 1000 s1) it2
  exact ⟨a, b, h1, h2, h3, h4, h5, h6, h9⟩

/-- … and those of `C10_run_of_final` by the whole run: the shifted run reports evidence `z + 1000` -/
example : runIters cfgEx init ([t1, t2].map (shiftTape 1000))
      = some (shiftState 1000 s2, [⟨0, 1, 0 + 0 * 1000, 0 + 0 * 1000, [], [], Branch.firstIter⟩,
          ⟨1, 2, z1 + 1 * 1000, z1 + 1 * 1000, [0, 1], [[true, false]], Branch.essUpper⟩]) ∧
    ∃ z, finalEvidence s2 = some z ∧ finalEvidence (shiftState 1000 s2) = some (z + 1000) := by
  obtain ⟨h1, _, _, h4⟩ := C10_run_of_final cfgEx 1000 [t1, t2] s2 _ run2 wfs_s2
  exact ⟨h1, h4 (by simp [s2])⟩

/-- the first tape satisfies `TapeOK`, so `C10_run` (fail-or-succeed-together form) applies to the warm-up iteration -/
example : runIters cfgEx init ([t1].map (shiftTape 1000))
    = (runIters cfgEx init [t1]).map fun p => (shiftState 1000 p.1, p.2.map (shiftOut 1000)) :=
  C10_run cfgEx 1000 [t1] (by intro t ht; simp at ht; subst ht; simp [TapeOK, Lemmas.PipelineShift.TapeOK, t1, cfgEx])

/-- shifted tape of the example, written out -/
example : shiftTape 1000 t2 = ⟨[], [], [], [1/2], [⟨[20, 21], [some (0 + 1000), none], [0, 0], [1/2, 1/2]⟩]⟩ := by
  simp [shiftTape, Lemmas.PipelineShift.shiftTape, shiftStep, t2]

end Props.C10

