import TempestVerif.Model.Pipeline
import TempestVerif.Props.C04
import TempestVerif.Props.C05
import TempestVerif.Props.C20
import Mathlib.Tactic
/-
  C05 (warm-up): while every stored batch has beta = 0 the pool weights at beta = 0 are uniform, so the ESS the
  reweighter sees is exactly the pool size N; hence in ESS mode the temperature STAYS at 0 as long as
  N <= ess_ratio * n_particles.  This ties C04 (uniform weights at beta = 0), C20 (ESS of uniform weights) and the
  branch tree of C05 on the concrete oracle of the pipeline model (`Model.Pipeline.oracleM`).
-/
namespace Props.C05
open Model.Weights Model.Reweight Model.Ess Model.Pipeline Props.C04

theorem maxOf_replicate (c : ℝ) (n : Nat) : maxOf c (List.replicate n c) = c := by
  induction n with
  | zero => simp [maxOf]
  | succ n ih =>
    simp only [maxOf, List.replicate_succ, List.foldl_cons] at *
    rw [ScReal.max_def, max_self]; exact ih

/-- the ESS oracle of the pipeline at beta = 0 over an all-beta-0 history is the pool size -/
theorem C05_warmup_ess (h : List (Batch ℝ)) (hwf : WF h) (h0 : ∀ b ∈ h, b.beta = 0) :
    (oracleM h 0).2.1 = (nTotal h : ℝ) := by
  have hN : 0 < nTotal h := nTotal_pos h hwf
  have hval := C04_uniform_value h hwf h0
  have hlen : ((logw h 0 true).1).length = nTotal h := by
    rw [C04_normalised h hwf, List.length_map, length_flatLogl]
  set c : ℝ := -Real.log (nTotal h : ℝ) with hc
  have hrep : (logw h 0 true).1 = List.replicate (nTotal h) c := by
    rw [List.eq_replicate_iff]; exact ⟨hlen, hval⟩
  obtain ⟨k, hk⟩ : ∃ k, nTotal h = k + 1 := ⟨nTotal h - 1, by omega⟩
  unfold oracleM
  simp only [hrep, hk, List.replicate_succ]
  have hm : maxOf c (List.replicate k c) = c := maxOf_replicate c k
  simp only [hm, ScReal.sub_def, sub_self, ScReal.exp_def, Real.exp_zero, List.map_cons, List.map_replicate]
  have : (1 : ℝ) :: List.replicate k 1 = List.replicate (k + 1) 1 := by simp [List.replicate_succ]
  rw [this, Props.C20.C20_ess_uniform (k + 1) (by omega) 1 one_pos]

/-- C05 (warm-up): in ESS mode, with every stored batch at beta = 0 and the pool no larger than the ESS target,
    the reweighter stays at beta = 0 (branch `essStay`) and records ESS = pool size -/
theorem C05_warmup_stays (h : List (Batch ℝ)) (hwf : WF h) (h0 : ∀ b ∈ h, b.beta = 0)
    (c : Model.Reweight.Cfg ℝ) (hvv : c.vv = none) (hN : (nTotal h : ℝ) ≤ c.target) :
    let r := Model.Reweight.run c false (oracleM h) (oracleZ h) isFin 0
    r.beta = 0 ∧ r.ess = (nTotal h : ℝ) ∧ r.branch = Branch.essStay := by
  intro r
  have hess := C05_warmup_ess h hwf h0
  have hr : r = runEss (oracleM h) (oracleZ h) isFin c.target c.tolE c.tolB c.fuel 0 := by
    simp [r, Model.Reweight.run, hvv]
  rcases runEss_cases (oracleM h) (oracleZ h) isFin c.target c.tolE c.tolB c.fuel 0 with ⟨_, e⟩ | ⟨hlt, _, _⟩ | ⟨hlt, _, _⟩
  · rw [hr, e]; simp [finalize, hess]
  · rw [hess] at hlt; linarith
  · rw [hess] at hlt; linarith

/-- … and it cannot stay for ever: a pool larger than the target is never in the `essStay` branch at beta = 0 -/
theorem C05_warmup_leaves_stay_branch (h : List (Batch ℝ)) (hwf : WF h) (h0 : ∀ b ∈ h, b.beta = 0)
    (c : Model.Reweight.Cfg ℝ) (hvv : c.vv = none) (hN : c.target < (nTotal h : ℝ)) :
    (Model.Reweight.run c false (oracleM h) (oracleZ h) isFin 0).branch ≠ Branch.essStay := by
  have hess := C05_warmup_ess h hwf h0
  have hr : Model.Reweight.run c false (oracleM h) (oracleZ h) isFin 0
      = runEss (oracleM h) (oracleZ h) isFin c.target c.tolE c.tolB c.fuel 0 := by
    simp [Model.Reweight.run, hvv]
  rw [hr]
  rcases runEss_cases (oracleM h) (oracleZ h) isFin c.target c.tolE c.tolB c.fuel 0 with ⟨hle, _⟩ | ⟨_, _, e⟩ | ⟨_, _, e⟩
  · rw [hess] at hle; linarith
  · rw [e]; simp [finalize]
  · rw [e]; simp [finalize]

/-- non-vacuity: two warm-up batches of sizes 2 and 1, target 4: the pool (3) is below the target -/
example : (oracleM ([⟨0, 0, [-1, -2]⟩, ⟨0, -1 / 2, [-3 / 10]⟩] : List (Batch ℝ)) 0).2.1 = 3 := by
  have hwf : WF ([⟨0, 0, [-1, -2]⟩, ⟨0, -1 / 2, [-3 / 10]⟩] : List (Batch ℝ)) := by
    refine ⟨by simp, ?_⟩
    intro b hb; simp at hb; rcases hb with rfl | rfl <;> simp
  have := C05_warmup_ess _ hwf (by intro b hb; simp at hb; rcases hb with rfl | rfl <;> rfl)
  simpa [nTotal] using this

end Props.C05
