import TempestVerif.Model.Weights
import TempestVerif.Lemmas.ScReal
import Mathlib.Analysis.SpecialFunctions.Log.Basic
import Mathlib.Analysis.SpecialFunctions.Exp
import Mathlib.Algebra.Order.BigOperators.Group.List
import Mathlib.Tactic
/-
  C04 — importance weights follow the balance-heuristic mixture formula.
  Theorems are about `Model.Weights` at `ℝ` (exact arithmetic; IEEE rounding is bridged by the
  toleranced correspondence, not here).
-/
namespace Props.C04
open Model.Weights

/-! ### `logaddexp` is `log (exp a + exp b)`; its fold is log-sum-exp -/

/-- in the max-shifted evaluation the argument of `exp` is never positive (no overflow) -/
theorem C04_exp_arg_nonpos (a b : ℝ) : laeArg a b ≤ 0 := by
  unfold laeArg
  by_cases h : 0 < a - b
  · simp [h]; linarith
  · simp [h]; linarith

theorem logaddexp_eq (a b : ℝ) : logaddexp a b = Real.log (Real.exp a + Real.exp b) := by
  have key : ∀ x y : ℝ, x + Real.log (1 + Real.exp (y - x)) = Real.log (Real.exp x + Real.exp y) := by
    intro x y
    have h1 : Real.exp x + Real.exp y = Real.exp x * (1 + Real.exp (y - x)) := by
      rw [mul_add, mul_one, ← Real.exp_add]; congr 2; ring
    rw [h1, Real.log_mul (Real.exp_pos x).ne' (by positivity), Real.log_exp]
  unfold logaddexp laeArg
  by_cases h : a ≤ b ∧ b ≤ a
  · have hab : a = b := le_antisymm h.1 h.2
    subst hab
    simp
    rw [← two_mul, Real.log_mul two_ne_zero (Real.exp_pos a).ne', Real.log_exp]; ring
  · by_cases h2 : 0 < a - b
    · have h3 : ¬ (a ≤ b) := by intro h4; linarith
      simp [h3, h2]
      exact key a b
    · have h3 : ¬ (b ≤ a ∧ a ≤ b) := fun h4 => h ⟨h4.2, h4.1⟩
      have h5 : ¬ (b < a) := by intro h6; apply h2; linarith
      have h6 : ¬ (b ≤ a) := by
        intro h7; apply h; exact ⟨by linarith, h7⟩
      simp [h6, h5]
      rw [add_comm (Real.exp a), ← key b a]

theorem logaddexpReduce1_eq (x : ℝ) (xs : List ℝ) :
    logaddexpReduce1 x xs = Real.log (Real.exp x + (xs.map Real.exp).sum) := by
  unfold logaddexpReduce1
  induction xs generalizing x with
  | nil => simp
  | cons y ys ih =>
    rw [List.foldl_cons, ih, logaddexp_eq, Real.exp_log (by positivity)]
    simp [add_assoc]

theorem logaddexpReduce_eq (l : List ℝ) (hl : l ≠ []) :
    logaddexpReduce l = some (Real.log (l.map Real.exp).sum) := by
  cases l with
  | nil => exact absurd rfl hl
  | cons x xs => simp [logaddexpReduce, logaddexpReduce1_eq]

/-! ### the statement's formulas (linear-space specification) -/

/-- a stored history the statement quantifies over: T ≥ 1 iterations, every batch size n_t ≥ 1 -/
def WF (h : List (Batch ℝ)) : Prop := h ≠ [] ∧ ∀ b ∈ h, 1 ≤ b.logl.length

/-- `Σ_t (n_t/N) · exp(β_t ℓ − z_t)`: batch-size-weighted mixture of the normalised tempered densities -/
noncomputable def mix (h : List (Batch ℝ)) (l : ℝ) : ℝ :=
  (h.map fun b => ((b.logl.length : ℝ) / (nTotal h : ℝ)) * Real.exp (b.beta * l - b.logz)).sum

/-- `β ℓ − log mixture(ℓ)` -/
noncomputable def specRaw (h : List (Batch ℝ)) (β l : ℝ) : ℝ := β * l - Real.log (mix h l)

/-- `Σ_s exp(logw_s)` over all stored particles (unnormalised weights) -/
noncomputable def sumW (h : List (Batch ℝ)) (β : ℝ) : ℝ :=
  ((flatLogl h).map fun l => Real.exp (specRaw h β l)).sum

/-- log of the mean unnormalised weight -/
noncomputable def specLogz (h : List (Batch ℝ)) (β : ℝ) : ℝ :=
  Real.log ((1 / (nTotal h : ℝ)) * sumW h β)

/-- normalised log-weight -/
noncomputable def specNorm (h : List (Batch ℝ)) (β l : ℝ) : ℝ := specRaw h β l - Real.log (sumW h β)

theorem nTotal_cons (b : Batch ℝ) (bs : List (Batch ℝ)) :
    nTotal (b :: bs) = b.logl.length + nTotal bs := by simp [nTotal]

theorem nTotal_pos (h : List (Batch ℝ)) (hwf : WF h) : 0 < nTotal h := by
  obtain ⟨hne, hn⟩ := hwf
  cases h with
  | nil => exact absurd rfl hne
  | cons b bs =>
    have := hn b (by simp)
    rw [nTotal_cons]; omega

theorem length_flatLogl (h : List (Batch ℝ)) : (flatLogl h).length = nTotal h := by
  simp [flatLogl, nTotal, List.length_flatMap]

theorem flatLogl_ne_nil (h : List (Batch ℝ)) (hwf : WF h) : flatLogl h ≠ [] := by
  intro he
  have := length_flatLogl h
  rw [he] at this
  have := nTotal_pos h hwf
  simp at *; omega

theorem exp_entry (N : ℕ) (hN : 0 < N) (l : ℝ) (b : Batch ℝ) (hb : 1 ≤ b.logl.length) :
    Real.exp (entry (Real.log (N : ℝ)) l b)
      = ((b.logl.length : ℝ) / (N : ℝ)) * Real.exp (b.beta * l - b.logz) := by
  have hn : (0 : ℝ) < (b.logl.length : ℝ) := by exact_mod_cast hb
  have hN' : (0 : ℝ) < (N : ℝ) := by exact_mod_cast hN
  simp only [entry, ScReal.add_def, ScReal.sub_def, ScReal.mul_def, ScReal.log_def, ScReal.ofNat_def]
  rw [Real.exp_add, Real.exp_sub (Real.log _), Real.exp_log hn, Real.exp_log hN', mul_comm l b.beta]
  ring

theorem sum_exp_entry (N : ℕ) (hN : 0 < N) (l : ℝ) (bs : List (Batch ℝ))
    (hb : ∀ b ∈ bs, 1 ≤ b.logl.length) :
    ((bs.map (entry (Real.log (N : ℝ)) l)).map Real.exp).sum
      = (bs.map fun b => ((b.logl.length : ℝ) / (N : ℝ)) * Real.exp (b.beta * l - b.logz)).sum := by
  rw [List.map_map]
  congr 1
  apply List.map_congr_left
  intro b hbm
  exact exp_entry N hN l b (hb b hbm)

theorem mix_pos (h : List (Batch ℝ)) (hwf : WF h) (l : ℝ) : 0 < mix h l := by
  have hN := nTotal_pos h hwf
  unfold mix
  apply List.sum_pos
  · intro x hx
    rw [List.mem_map] at hx
    obtain ⟨b, hb, rfl⟩ := hx
    have hn : (0 : ℝ) < (b.logl.length : ℝ) := by exact_mod_cast hwf.2 b hb
    have hN' : (0 : ℝ) < (nTotal h : ℝ) := by exact_mod_cast hN
    positivity
  · simpa using hwf.1

/-- the model's max-shifted `B_s` is the log of the mixture -/
theorem mixLog_eq (b0 : Batch ℝ) (bs : List (Batch ℝ)) (hwf : WF (b0 :: bs)) (l : ℝ) :
    mixLog b0 bs (Real.log (nTotal (b0 :: bs) : ℝ)) l = Real.log (mix (b0 :: bs) l) := by
  have hN := nTotal_pos _ hwf
  unfold mixLog
  rw [logaddexpReduce1_eq]
  congr 1
  have h := sum_exp_entry (nTotal (b0 :: bs)) hN l (b0 :: bs) hwf.2
  simp only [List.map_cons, List.sum_cons] at h
  unfold mix
  simp only [List.map_cons, List.sum_cons]
  exact h

theorem sumW_pos (h : List (Batch ℝ)) (hwf : WF h) (β : ℝ) : 0 < sumW h β := by
  unfold sumW
  apply List.sum_pos
  · intro x hx
    rw [List.mem_map] at hx
    obtain ⟨l, _, rfl⟩ := hx
    exact Real.exp_pos _
  · simpa using flatLogl_ne_nil h hwf

/-! ### behaviour of the tail (`logz_new`, normalisation) -/

theorem finish_fst_false (w : List ℝ) : (finish w false).1 = w := by
  cases w <;> simp [finish]

theorem finish_fst_true (w : List ℝ) :
    (finish w true).1 = w.map fun x => x - Real.log (w.map Real.exp).sum := by
  cases w with
  | nil => simp [finish]
  | cons w0 ws => simp [finish, logaddexpReduce1_eq]

theorem finish_snd (w : List ℝ) (hw : w ≠ []) (nrm : Bool) :
    (finish w nrm).2 = some (Real.log (w.map Real.exp).sum - Real.log (w.length : ℝ)) := by
  cases w with
  | nil => exact absurd rfl hw
  | cons w0 ws => simp [finish, logaddexpReduce1_eq]

/-- the unnormalised log-weights computed by the model, as a map over the stored particles -/
theorem rawLogw_eq (b0 : Batch ℝ) (bs : List (Batch ℝ)) (hwf : WF (b0 :: bs)) (β : ℝ) :
    rawLogw b0 bs β = (flatLogl (b0 :: bs)).map (specRaw (b0 :: bs) β) := by
  unfold rawLogw
  apply List.map_congr_left
  intro l _
  simp only [ScReal.sub_def, ScReal.mul_def, ScReal.log_def, ScReal.ofNat_def]
  rw [mixLog_eq b0 bs hwf l, specRaw, mul_comm]

/-! ### C04: the formula of the statement -/

/-- every stored sample's (unnormalised) log-weight is `β ℓ_s − log Σ_t (n_t/N) exp(β_t ℓ_s − z_t)`,
    in flat order (batches in order, particles in order) -/
theorem C04_formula (h : List (Batch ℝ)) (hwf : WF h) (β : ℝ) :
    (logw h β false).1 = (flatLogl h).map (specRaw h β) := by
  cases h with
  | nil => exact absurd rfl hwf.1
  | cons b0 bs => simp only [logw]; rw [finish_fst_false, rawLogw_eq b0 bs hwf]

/-- the evidence estimate is the log of the mean unnormalised weight (whatever `normalize` is) -/
theorem C04_logz (h : List (Batch ℝ)) (hwf : WF h) (β : ℝ) (nrm : Bool) :
    (logw h β nrm).2 = some (specLogz h β) := by
  cases h with
  | nil => exact absurd rfl hwf.1
  | cons b0 bs =>
    simp only [logw]
    rw [rawLogw_eq b0 bs hwf]
    have hne : (flatLogl (b0 :: bs)).map (specRaw (b0 :: bs) β) ≠ [] := by
      simpa using flatLogl_ne_nil _ hwf
    rw [finish_snd _ hne]
    congr 1
    have hN : (0 : ℝ) < (nTotal (b0 :: bs) : ℝ) := by exact_mod_cast nTotal_pos _ hwf
    have hS := sumW_pos _ hwf β
    rw [specLogz, Real.log_mul (by positivity) hS.ne', one_div, Real.log_inv, List.length_map,
      length_flatLogl, List.map_map]
    unfold sumW
    simp only [Function.comp_def]
    ring

/-- normalised log-weights: the unnormalised ones minus the log of their linear-space sum -/
theorem C04_normalised (h : List (Batch ℝ)) (hwf : WF h) (β : ℝ) :
    (logw h β true).1 = (flatLogl h).map (specNorm h β) := by
  cases h with
  | nil => exact absurd rfl hwf.1
  | cons b0 bs =>
    simp only [logw]
    rw [rawLogw_eq b0 bs hwf, finish_fst_true, List.map_map, List.map_map]
    apply List.map_congr_left
    intro l _
    simp only [Function.comp_def, specNorm, sumW]

/-- returned normalised weights sum to one -/
theorem C04_normalised_sum_one (h : List (Batch ℝ)) (hwf : WF h) (β : ℝ) :
    (((logw h β true).1).map Real.exp).sum = 1 := by
  rw [C04_normalised h hwf, List.map_map]
  have hS := sumW_pos h hwf β
  have : ((flatLogl h).map (Real.exp ∘ specNorm h β))
      = (flatLogl h).map fun l => Real.exp (specRaw h β l) * (sumW h β)⁻¹ := by
    apply List.map_congr_left
    intro l _
    simp only [Function.comp_def, specNorm]
    rw [Real.exp_sub, Real.exp_log hS, div_eq_mul_inv]
  rw [this, List.sum_map_mul_right]
  exact mul_inv_cancel₀ hS.ne'

/-- … and every one of them is a genuine probability: `0 < w_s ≤ 1` -/
theorem C04_normalised_le_one (h : List (Batch ℝ)) (hwf : WF h) (β : ℝ) :
    ∀ w ∈ (logw h β true).1, w ≤ 0 := by
  intro w hw
  have h1 := C04_normalised_sum_one h hwf β
  have h2 : Real.exp w ≤ (((logw h β true).1).map Real.exp).sum := by
    apply List.single_le_sum
    · intro x hx
      rw [List.mem_map] at hx
      obtain ⟨y, _, rfl⟩ := hx
      exact (Real.exp_pos y).le
    · exact List.mem_map_of_mem hw
  rw [h1] at h2
  have := Real.exp_le_exp.mp (by rw [Real.exp_zero]; exact h2 : Real.exp w ≤ Real.exp 0)
  exact this

/-! ### independence of the order of iterations -/

theorem WF_perm {h h' : List (Batch ℝ)} (p : h.Perm h') (hwf : WF h) : WF h' := by
  refine ⟨?_, fun b hb => hwf.2 b (p.mem_iff.mpr hb)⟩
  intro he
  subst he
  exact hwf.1 (List.Perm.eq_nil p)

theorem nTotal_perm {h h' : List (Batch ℝ)} (p : h.Perm h') : nTotal h = nTotal h' := by
  unfold nTotal
  exact (p.map _).sum_eq

theorem mix_perm {h h' : List (Batch ℝ)} (p : h.Perm h') (l : ℝ) : mix h l = mix h' l := by
  unfold mix
  rw [nTotal_perm p]
  exact (p.map _).sum_eq

theorem specRaw_perm {h h' : List (Batch ℝ)} (p : h.Perm h') (β l : ℝ) :
    specRaw h β l = specRaw h' β l := by
  unfold specRaw; rw [mix_perm p]

theorem sumW_perm {h h' : List (Batch ℝ)} (p : h.Perm h') (β : ℝ) : sumW h β = sumW h' β := by
  unfold sumW
  have hf : (fun l => Real.exp (specRaw h β l)) = fun l => Real.exp (specRaw h' β l) := by
    funext l; rw [specRaw_perm p]
  rw [hf]
  have pf : (flatLogl h).Perm (flatLogl h') := by
    unfold flatLogl; exact List.Perm.flatMap_right _ p
  exact (pf.map _).sum_eq

/-- Re-ordering the iterations (each batch carried along with its β_t, z_t) changes nothing:
    the model's output is the image of the stored particles under ONE weight function of the
    particle's log-likelihood, that function is the same for both orders, and the evidence is the same. -/
theorem C04_perm_invariant {h h' : List (Batch ℝ)} (p : h.Perm h') (hwf : WF h) (β : ℝ) (nrm : Bool) :
    ∃ w : ℝ → ℝ,
      (logw h β nrm).1 = (flatLogl h).map w ∧
      (logw h' β nrm).1 = (flatLogl h').map w ∧
      (logw h β nrm).2 = (logw h' β nrm).2 := by
  have hwf' := WF_perm p hwf
  have hz : (logw h β nrm).2 = (logw h' β nrm).2 := by
    rw [C04_logz h hwf, C04_logz h' hwf']
    unfold specLogz
    rw [nTotal_perm p, sumW_perm p]
  cases nrm with
  | false =>
    refine ⟨specRaw h β, C04_formula h hwf β, ?_, hz⟩
    rw [C04_formula h' hwf']
    congr 1; funext l; rw [specRaw_perm p]
  | true =>
    refine ⟨specNorm h β, C04_normalised h hwf β, ?_, hz⟩
    rw [C04_normalised h' hwf']
    congr 1; funext l; unfold specNorm; rw [specRaw_perm p, sumW_perm p]

/-- the weight function itself is order-independent (per-particle form of the same fact) -/
theorem C04_perm_weight {h h' : List (Batch ℝ)} (p : h.Perm h') (β l : ℝ) :
    specRaw h β l = specRaw h' β l ∧ specNorm h β l = specNorm h' β l ∧ specLogz h β = specLogz h' β := by
  refine ⟨specRaw_perm p β l, ?_, ?_⟩
  · unfold specNorm; rw [specRaw_perm p, sumW_perm p]
  · unfold specLogz; rw [nTotal_perm p, sumW_perm p]

/-! ### rescaling the likelihood -/

/-- ℓ ↦ ℓ + c for every stored particle, z_t ↦ z_t + β_t c -/
def shiftB (c : ℝ) (b : Batch ℝ) : Batch ℝ := ⟨b.beta, b.logz + b.beta * c, b.logl.map (· + c)⟩
def shiftH (c : ℝ) (h : List (Batch ℝ)) : List (Batch ℝ) := h.map (shiftB c)

theorem WF_shift (c : ℝ) (h : List (Batch ℝ)) (hwf : WF h) : WF (shiftH c h) := by
  refine ⟨by simpa [shiftH] using hwf.1, ?_⟩
  intro b hb
  simp only [shiftH, List.mem_map] at hb
  obtain ⟨b', hb', rfl⟩ := hb
  simpa [shiftB] using hwf.2 b' hb'

theorem nTotal_shift (c : ℝ) (h : List (Batch ℝ)) : nTotal (shiftH c h) = nTotal h := by
  simp [nTotal, shiftH, shiftB, List.map_map, Function.comp_def]

theorem flatLogl_shift (c : ℝ) (h : List (Batch ℝ)) :
    flatLogl (shiftH c h) = (flatLogl h).map (· + c) := by
  induction h with
  | nil => simp [flatLogl, shiftH]
  | cons b bs ih =>
    simp only [flatLogl, shiftH, List.map_cons, List.flatMap_cons, List.map_append] at ih ⊢
    rw [ih]; simp [shiftB]

theorem mix_shift (c : ℝ) (h : List (Batch ℝ)) (l : ℝ) : mix (shiftH c h) (l + c) = mix h l := by
  unfold mix
  rw [nTotal_shift]
  simp only [shiftH, List.map_map]
  congr 1
  apply List.map_congr_left
  intro b _
  simp only [Function.comp_def, shiftB, List.length_map]
  congr 2; ring

theorem specRaw_shift (c : ℝ) (h : List (Batch ℝ)) (β l : ℝ) :
    specRaw (shiftH c h) β (l + c) = specRaw h β l + β * c := by
  unfold specRaw; rw [mix_shift]; ring

theorem sumW_shift (c : ℝ) (h : List (Batch ℝ)) (β : ℝ) :
    sumW (shiftH c h) β = sumW h β * Real.exp (β * c) := by
  unfold sumW
  rw [flatLogl_shift, List.map_map, ← List.sum_map_mul_right]
  congr 1
  apply List.map_congr_left
  intro l _
  simp only [Function.comp_def]
  rw [specRaw_shift, Real.exp_add]

/-- rescaling the likelihood by `e^c` (with the stored evidences rescaled consistently) shifts every
    unnormalised log-weight and the evidence by `β c` and leaves the normalised weights unchanged -/
theorem C04_shift (h : List (Batch ℝ)) (hwf : WF h) (β c : ℝ) (nrm : Bool) :
    (logw (shiftH c h) β false).1 = ((logw h β false).1).map (· + β * c) ∧
    (logw (shiftH c h) β true).1 = (logw h β true).1 ∧
    (logw (shiftH c h) β nrm).2 = ((logw h β nrm).2).map (· + β * c) := by
  have hwf' := WF_shift c h hwf
  have hS := sumW_pos h hwf β
  refine ⟨?_, ?_, ?_⟩
  · rw [C04_formula _ hwf', C04_formula _ hwf, flatLogl_shift, List.map_map, List.map_map]
    apply List.map_congr_left
    intro l _
    simp only [Function.comp_def]
    exact specRaw_shift c h β l
  · rw [C04_normalised _ hwf', C04_normalised _ hwf, flatLogl_shift, List.map_map]
    apply List.map_congr_left
    intro l _
    simp only [Function.comp_def, specNorm]
    rw [specRaw_shift, sumW_shift, Real.log_mul hS.ne' (Real.exp_pos _).ne', Real.log_exp]
    ring
  · rw [C04_logz _ hwf', C04_logz _ hwf]
    simp only [Option.map_some, Option.some.injEq]
    have hN : (0 : ℝ) < (nTotal h : ℝ) := by exact_mod_cast nTotal_pos _ hwf
    unfold specLogz
    rw [nTotal_shift, sumW_shift, ← mul_assoc,
      Real.log_mul (by positivity) (Real.exp_pos _).ne', Real.log_exp]

/-! ### all temperatures zero -/

/-- target β = 0 and every stored β_t = 0 ⇒ all log-weights are equal -/
theorem C04_uniform_at_zero (h : List (Batch ℝ)) (hwf : WF h) (h0 : ∀ b ∈ h, b.beta = 0) (nrm : Bool) :
    ∃ c : ℝ, ∀ w ∈ (logw h 0 nrm).1, w = c := by
  have hmix : ∀ l, mix h l = mix h 0 := by
    intro l
    unfold mix
    congr 1
    apply List.map_congr_left
    intro b hb
    rw [h0 b hb]; simp
  have hraw : ∀ l, specRaw h 0 l = specRaw h 0 0 := by
    intro l; unfold specRaw; rw [hmix l]; simp
  cases nrm with
  | false =>
    refine ⟨specRaw h 0 0, ?_⟩
    intro w hw
    rw [C04_formula h hwf, List.mem_map] at hw
    obtain ⟨l, _, rfl⟩ := hw
    exact hraw l
  | true =>
    refine ⟨specNorm h 0 0, ?_⟩
    intro w hw
    rw [C04_normalised h hwf, List.mem_map] at hw
    obtain ⟨l, _, rfl⟩ := hw
    unfold specNorm; rw [hraw l]

/-- … and the normalised weights are then exactly `1/N` each -/
theorem C04_uniform_value (h : List (Batch ℝ)) (hwf : WF h) (h0 : ∀ b ∈ h, b.beta = 0) :
    ∀ w ∈ (logw h 0 true).1, w = -Real.log (nTotal h : ℝ) := by
  obtain ⟨c, hc⟩ := C04_uniform_at_zero h hwf h0 true
  have hsum := C04_normalised_sum_one h hwf 0
  have hlen : ((logw h 0 true).1).length = nTotal h := by
    rw [C04_normalised h hwf, List.length_map, length_flatLogl]
  have hall : ((logw h 0 true).1).map Real.exp = List.replicate (nTotal h) (Real.exp c) := by
    rw [← hlen, List.eq_replicate_iff]
    refine ⟨by simp, ?_⟩
    intro x hx
    rw [List.mem_map] at hx
    obtain ⟨w, hw, rfl⟩ := hx
    rw [hc w hw]
  rw [hall, List.sum_replicate, nsmul_eq_mul] at hsum
  have hN : (0 : ℝ) < (nTotal h : ℝ) := by exact_mod_cast nTotal_pos _ hwf
  intro w hw
  rw [hc w hw]
  have : Real.exp c = (nTotal h : ℝ)⁻¹ := by field_simp; linarith
  rw [← Real.log_inv, ← this, Real.log_exp]

/-! ### finiteness structure of the max-shifted evaluation -/

theorem exp_le_sum_exp (l : List ℝ) (y : ℝ) (hy : y ∈ l) : Real.exp y ≤ (l.map Real.exp).sum := by
  apply List.single_le_sum
  · intro x hx
    rw [List.mem_map] at hx
    obtain ⟨z, _, rfl⟩ := hx
    exact (Real.exp_pos z).le
  · exact List.mem_map_of_mem hy

/-- every term is below the reduction … -/
theorem le_logaddexpReduce1 (x : ℝ) (xs : List ℝ) (y : ℝ) (hy : y ∈ x :: xs) :
    y ≤ logaddexpReduce1 x xs := by
  rw [logaddexpReduce1_eq]
  have h1 := exp_le_sum_exp (x :: xs) y hy
  simp only [List.map_cons, List.sum_cons] at h1
  calc y = Real.log (Real.exp y) := (Real.log_exp y).symm
    _ ≤ _ := Real.log_le_log (Real.exp_pos y) h1

/-- … and the reduction exceeds the largest term by at most `log T` -/
theorem logaddexpReduce1_le (x : ℝ) (xs : List ℝ) (M : ℝ) (hM : ∀ y ∈ x :: xs, y ≤ M) :
    logaddexpReduce1 x xs ≤ M + Real.log ((x :: xs).length : ℝ) := by
  rw [logaddexpReduce1_eq]
  have h1 : (((x :: xs).map Real.exp)).sum ≤ ((x :: xs).map Real.exp).length • Real.exp M := by
    apply List.sum_le_card_nsmul
    intro z hz
    rw [List.mem_map] at hz
    obtain ⟨y, hy, rfl⟩ := hz
    exact Real.exp_le_exp.mpr (hM y hy)
  rw [List.length_map, nsmul_eq_mul] at h1
  simp only [List.map_cons, List.sum_cons] at h1
  have hpos : 0 < Real.exp x + (xs.map Real.exp).sum := by
    have := exp_le_sum_exp (x :: xs) x (by simp)
    simp only [List.map_cons, List.sum_cons] at this
    linarith [Real.exp_pos x]
  have hT : (0 : ℝ) < ((x :: xs).length : ℝ) := by simp; positivity
  calc Real.log (Real.exp x + (xs.map Real.exp).sum)
      ≤ Real.log (((x :: xs).length : ℝ) * Real.exp M) := Real.log_le_log hpos h1
    _ = M + Real.log ((x :: xs).length : ℝ) := by
      rw [Real.log_mul hT.ne' (Real.exp_pos M).ne', Real.log_exp]; ring

/-- `max_t b_{s,t} ≤ B_s ≤ max_t b_{s,t} + log T`, with `b` including the log mixture weight
    (stated against an arbitrary upper bound `M` of the row, in particular its maximum) -/
theorem C04_mixture_bounds (b0 : Batch ℝ) (bs : List (Batch ℝ)) (logN l : ℝ) :
    (∀ b ∈ b0 :: bs, entry logN l b ≤ mixLog b0 bs logN l) ∧
    (∀ M, (∀ b ∈ b0 :: bs, entry logN l b ≤ M) →
      mixLog b0 bs logN l ≤ M + Real.log ((b0 :: bs).length : ℝ)) := by
  constructor
  · intro b hb
    apply le_logaddexpReduce1
    rw [← List.map_cons]
    exact List.mem_map_of_mem hb
  · intro M hM
    have := logaddexpReduce1_le (entry logN l b0) (bs.map (entry logN l)) M (by
      intro y hy
      rw [← List.map_cons, List.mem_map] at hy
      obtain ⟨b, hb, rfl⟩ := hy
      exact hM b hb)
    simpa [mixLog] using this

/-- explicit bound on every log-weight: with `|b_{s,t}| ≤ M` for all t,
    `|logw_s| ≤ |β ℓ_s| + M + log T`.  For |ℓ| ≤ 1e6, β, β_t ∈ [0,1], |z_t| ≤ 1e5, N ≤ 480, T ≤ 12 this is < 3.2e6. -/
theorem C04_bounds (h : List (Batch ℝ)) (hwf : WF h) (β l M : ℝ)
    (hM : ∀ b ∈ h, |entry (Real.log (nTotal h : ℝ)) l b| ≤ M) :
    |specRaw h β l| ≤ |β * l| + M + Real.log (h.length : ℝ) := by
  cases h with
  | nil => exact absurd rfl hwf.1
  | cons b0 bs =>
    have hB := mixLog_eq b0 bs hwf l
    obtain ⟨hlo, hhi⟩ := C04_mixture_bounds b0 bs (Real.log (nTotal (b0 :: bs) : ℝ)) l
    have h1 := hlo b0 (by simp)
    have h2 := hhi M (fun b hb => (abs_le.mp (hM b hb)).2)
    have h3 := (abs_le.mp (hM b0 (by simp))).1
    have hT : 0 ≤ Real.log ((b0 :: bs).length : ℝ) := by
      apply Real.log_nonneg; simp
    unfold specRaw
    rw [← hB]
    have hBabs : |mixLog b0 bs (Real.log (nTotal (b0 :: bs) : ℝ)) l| ≤ M + Real.log ((b0 :: bs).length : ℝ) := by
      rw [abs_le]; constructor <;> linarith
    calc |β * l - mixLog b0 bs (Real.log (nTotal (b0 :: bs) : ℝ)) l|
        ≤ |β * l| + |mixLog b0 bs (Real.log (nTotal (b0 :: bs) : ℝ)) l| := abs_sub _ _
      _ ≤ |β * l| + M + Real.log ((b0 :: bs).length : ℝ) := by linarith

/-! ### the empty history -/

theorem C04_empty (β : ℝ) (nrm : Bool) : logw ([] : List (Batch ℝ)) β nrm = ([], none) := rfl

/-! ### non-vacuity: a concrete 2-iteration history with unequal batch sizes and distinct β_t -/

/-- β = (0, 1), z = (0, −1/2), n = (2, 1) -/
noncomputable def h0 : List (Batch ℝ) := [⟨0, 0, [-1, -2]⟩, ⟨1, -1/2, [-3/10]⟩]

theorem wf_h0 : WF h0 := by
  refine ⟨by simp [h0], ?_⟩
  intro b hb
  simp only [h0, List.mem_cons, List.not_mem_nil, or_false] at hb
  rcases hb with rfl | rfl <;> simp

example : nTotal h0 = 3 ∧ flatLogl h0 = [-1, -2, -3/10] := by
  constructor <;> simp [h0, nTotal, flatLogl]
example : logaddexp (0 : ℝ) 0 = Real.log 2 := by rw [logaddexp_eq]; norm_num
example : ((logw h0 1 false).1).length = 3 := by
  rw [C04_formula h0 wf_h0]; simp [h0, flatLogl]
example : (logw h0 1 false).1 = [specRaw h0 1 (-1), specRaw h0 1 (-2), specRaw h0 1 (-3/10)] := by
  rw [C04_formula h0 wf_h0]; simp [h0, flatLogl]
/-- the mixture of the example at ℓ = −1: (2/3)·e⁰ + (1/3)·e^{−1/2} -/
example : mix h0 (-1) = 2 / 3 * Real.exp 0 + 1 / 3 * Real.exp (-1 / 2) := by
  simp [mix, h0, nTotal]; norm_num
example : (logw h0 1 true).2 = some (specLogz h0 1) := C04_logz h0 wf_h0 1 true
example : (((logw h0 1 true).1).map Real.exp).sum = 1 := C04_normalised_sum_one h0 wf_h0 1
example : ∃ w : ℝ → ℝ, (logw h0 1 true).1 = (flatLogl h0).map w ∧
    (logw h0.reverse 1 true).1 = (flatLogl h0.reverse).map w ∧
    (logw h0 1 true).2 = (logw h0.reverse 1 true).2 :=
  C04_perm_invariant (List.reverse_perm h0).symm wf_h0 1 true
example : (logw (shiftH 1000000 h0) 1 true).1 = (logw h0 1 true).1 := (C04_shift h0 wf_h0 1 1000000 true).2.1
/-- all-zero temperatures, unequal sizes: uniform weights `−log 3` -/
noncomputable def h1 : List (Batch ℝ) := [⟨0, 0, [5, -7]⟩, ⟨0, 3, [1000000]⟩]
theorem wf_h1 : WF h1 := by
  refine ⟨by simp [h1], ?_⟩
  intro b hb
  simp only [h1, List.mem_cons, List.not_mem_nil, or_false] at hb
  rcases hb with rfl | rfl <;> simp
example : ∀ w ∈ (logw h1 0 true).1, w = -Real.log 3 := by
  have h := C04_uniform_value h1 wf_h1 (by
    intro b hb
    simp only [h1, List.mem_cons, List.not_mem_nil, or_false] at hb
    rcases hb with rfl | rfl <;> rfl)
  have : (nTotal h1 : ℝ) = 3 := by simp [h1, nTotal]
  rw [this] at h; exact h

/-! ### second round: further clause-level corollaries -/

/-- one log-weight per stored sample (either `normalize` flag) -/
theorem C04_length (h : List (Batch ℝ)) (hwf : WF h) (β : ℝ) (nrm : Bool) :
    ((logw h β nrm).1).length = nTotal h := by
  cases nrm with
  | false => rw [C04_formula h hwf, List.length_map, length_flatLogl]
  | true => rw [C04_normalised h hwf, List.length_map, length_flatLogl]

/-- the weights of iteration `t` sit, in particle order, behind those of the iterations before it:
    the output for `pre ++ b :: post` is (weights of `pre`) ++ (weights of `b`) ++ (weights of `post`),
    each computed by the same weight function of the whole history -/
theorem C04_batch_slices (pre post : List (Batch ℝ)) (b : Batch ℝ) (hwf : WF (pre ++ b :: post)) (β : ℝ) :
    (logw (pre ++ b :: post) β false).1
      = (flatLogl pre).map (specRaw (pre ++ b :: post) β)
        ++ b.logl.map (specRaw (pre ++ b :: post) β)
        ++ (flatLogl post).map (specRaw (pre ++ b :: post) β) := by
  rw [C04_formula _ hwf]
  simp [flatLogl, List.flatMap_append, List.flatMap_cons]

/-- normalised weight = unnormalised weight / (N · Ẑ): `logw_norm = logw − logz − log N` -/
theorem C04_norm_raw_logz (h : List (Batch ℝ)) (hwf : WF h) (β l : ℝ) :
    specNorm h β l = specRaw h β l - specLogz h β - Real.log (nTotal h : ℝ) := by
  have hN : (0 : ℝ) < (nTotal h : ℝ) := by exact_mod_cast nTotal_pos _ hwf
  have hS := sumW_pos h hwf β
  unfold specNorm specLogz
  rw [Real.log_mul (by positivity) hS.ne', one_div, Real.log_inv]
  ring

/-- a single stored iteration re-targeted at its own temperature: every unnormalised log-weight and the
    evidence estimate reproduce the stored evidence value `z_1` -/
theorem C04_single_batch_fixed_point (b : Batch ℝ) (hb : 1 ≤ b.logl.length) :
    (∀ w ∈ (logw [b] b.beta false).1, w = b.logz) ∧ (logw [b] b.beta false).2 = some b.logz := by
  have hwf : WF [b] := ⟨by simp, by intro b' hb'; simp at hb'; subst hb'; exact hb⟩
  have hn : (0 : ℝ) < (b.logl.length : ℝ) := by exact_mod_cast hb
  have hmix : ∀ l, mix [b] l = Real.exp (b.beta * l - b.logz) := by
    intro l
    simp only [mix, nTotal, List.map_cons, List.map_nil, List.sum_cons, List.sum_nil, add_zero]
    rw [div_self hn.ne', one_mul]
  have hraw : ∀ l, specRaw [b] b.beta l = b.logz := by
    intro l; unfold specRaw; rw [hmix, Real.log_exp]; ring
  have hflat : flatLogl [b] = b.logl := by simp [flatLogl]
  constructor
  · intro w hw
    rw [C04_formula _ hwf, List.mem_map] at hw
    obtain ⟨l, _, rfl⟩ := hw
    exact hraw l
  · rw [C04_logz _ hwf]
    congr 1
    unfold specLogz sumW
    rw [hflat]
    have : (b.logl.map fun l => Real.exp (specRaw [b] b.beta l))
        = List.replicate b.logl.length (Real.exp b.logz) := by
      rw [List.eq_replicate_iff]
      refine ⟨by simp, ?_⟩
      intro x hx
      rw [List.mem_map] at hx
      obtain ⟨l, _, rfl⟩ := hx
      rw [hraw]
    rw [this, List.sum_replicate, nsmul_eq_mul]
    have hN : (nTotal [b] : ℝ) = (b.logl.length : ℝ) := by simp [nTotal]
    rw [hN, one_div, ← mul_assoc, inv_mul_cancel₀ hn.ne', one_mul, Real.log_exp]

/-! #### stability: the max-shifted reduction does not amplify input errors (1-Lipschitz in the sup norm) -/

theorem sum_exp_le_of_pointwise (xs ys : List ℝ) (δ : ℝ) (hxy : List.Forall₂ (fun x y => y ≤ x + δ) xs ys) :
    (ys.map Real.exp).sum ≤ Real.exp δ * (xs.map Real.exp).sum := by
  induction hxy with
  | nil => simp
  | cons hab _ ih =>
    simp only [List.map_cons, List.sum_cons, mul_add]
    have := Real.exp_le_exp.mpr hab
    rw [Real.exp_add, mul_comm] at this
    linarith

/-- perturbing every term of a log-sum-exp upwards by at most `δ` raises the result by at most `δ` -/
theorem logaddexpReduce1_mono_add (x y : ℝ) (xs ys : List ℝ) (δ : ℝ) (h0 : y ≤ x + δ)
    (hxy : List.Forall₂ (fun x y => y ≤ x + δ) xs ys) :
    logaddexpReduce1 y ys ≤ logaddexpReduce1 x xs + δ := by
  rw [logaddexpReduce1_eq, logaddexpReduce1_eq]
  have h1 := sum_exp_le_of_pointwise (x :: xs) (y :: ys) δ (List.Forall₂.cons h0 hxy)
  simp only [List.map_cons, List.sum_cons] at h1
  have hposx : 0 < Real.exp x + (xs.map Real.exp).sum := by
    have := exp_le_sum_exp (x :: xs) x (by simp)
    simp only [List.map_cons, List.sum_cons] at this
    linarith [Real.exp_pos x]
  have hposy : 0 < Real.exp y + (ys.map Real.exp).sum := by
    have := exp_le_sum_exp (y :: ys) y (by simp)
    simp only [List.map_cons, List.sum_cons] at this
    linarith [Real.exp_pos y]
  calc Real.log (Real.exp y + (ys.map Real.exp).sum)
      ≤ Real.log (Real.exp δ * (Real.exp x + (xs.map Real.exp).sum)) := Real.log_le_log hposy h1
    _ = Real.log (Real.exp x + (xs.map Real.exp).sum) + δ := by
      rw [Real.log_mul (Real.exp_pos δ).ne' hposx.ne', Real.log_exp]; ring

/-- … hence input errors of size `δ` (e.g. the rounding of `ℓ·β_t − z_t + log(n_t/N)`) move `B_s`
    by at most `δ`: the evaluation is stable whatever the magnitudes involved -/
theorem C04_lse_lipschitz (x y : ℝ) (xs ys : List ℝ) (δ : ℝ) (h0 : |y - x| ≤ δ)
    (hxy : List.Forall₂ (fun x y => |y - x| ≤ δ) xs ys) :
    |logaddexpReduce1 y ys - logaddexpReduce1 x xs| ≤ δ := by
  have hup : List.Forall₂ (fun x y => y ≤ x + δ) xs ys :=
    hxy.imp (fun {a b} hab => by have := (abs_le.mp hab).2; linarith)
  have hdn : List.Forall₂ (fun y x => x ≤ y + δ) ys xs :=
    hxy.flip.imp (fun {a b} hab => by
      have := (abs_le.mp hab).1; linarith)
  have h1 := logaddexpReduce1_mono_add x y xs ys δ (by have := (abs_le.mp h0).2; linarith) hup
  have h2 := logaddexpReduce1_mono_add y x ys xs δ (by have := (abs_le.mp h0).1; linarith) hdn
  rw [abs_le]; constructor <;> linarith

example : ((logw h0 1 true).1).length = 3 := by rw [C04_length h0 wf_h0]; simp [h0, nTotal]
example : (logw [(⟨1/2, 7, [3, -4]⟩ : Batch ℝ)] (1/2) false).2 = some 7 :=
  (C04_single_batch_fixed_point ⟨1/2, 7, [3, -4]⟩ (by simp)).2
example : |logaddexpReduce1 (1 : ℝ) [2, 1000001] - logaddexpReduce1 (1.5 : ℝ) [2, 1000000.5]| ≤ 1/2 := by
  apply C04_lse_lipschitz
  · norm_num [abs_le]
  · refine List.Forall₂.cons ?_ (List.Forall₂.cons ?_ List.Forall₂.nil) <;> norm_num [abs_le]

end Props.C04
