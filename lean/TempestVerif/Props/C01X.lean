import TempestVerif.Model.PipelineX
import TempestVerif.Lemmas.ScReal
import TempestVerif.Lemmas.PipelineShift
import TempestVerif.Props.C03
import TempestVerif.Props.C04
import TempestVerif.Props.C05
import TempestVerif.Props.C12
import Mathlib.Analysis.SpecialFunctions.Log.Deriv
import Mathlib.Analysis.Complex.ExponentialBounds
import Mathlib.Tactic
/-
  C01 on the EXTENDED whole-run model `Model.PipelineX` (clustering, both reweighting modes, the whole mutation loop with
  per-cluster step-size adaptation and stopping rule, the loop guard, the epilogue, `posterior()`).

    C01_X_commit_appends_one          one batch per iteration, earlier batches untouched (any scalar type)
    C01_X_same_temperature            BOTH modes: recorded ESS / logZ are the pool oracles at the reported β; the resampler
                                      receives the normalised pool weights at that β; the whole mutation loop runs at that β
                                      on the gathered records; every metric look-up of the dynamic mode was answered
    C01_X_step, C01_X_schedule        BOTH modes, whole run, every tape: β₀ = 0, 0 ≤ β_k ≤ 1, β_k ≤ β_{k+1}
    C01_X_run_first_batch_beta_zero   the support batch of the MIS identity exists in every run
    C01_X_walker_rule                 one walker of one step: accepted ⇒ finite log-likelihood, inside the cube (given a
                                      non-negative uniform), `r < acceptProb β l lp factor`, and the stored record is the
                                      evaluated point with ITS log-likelihood; rejected ⇒ record unchanged
    C01_X_tpcn_sigma_range            tpCN: every step size the mutation loop ever uses lies in [0, min(σ₀, 0.99)] ⊂ [0, 1)
                                      (the `0 < σ < 1` hypothesis of C03's reversibility theorem, apart from the boundary σ = 0
                                      treated there separately), by induction over the loop
    C01_X_completed_run               `run()` returned ⇒ 1 − β < tol, ESS of the posterior weights ≥ n_total, and the stored
                                      evidence is the β = 1 estimate over the final history
    C01_posterior_selfnormalised, C01_posterior_estimate_is_ratio, C01_trim_bias_bound
                                      what `posterior()` returns: the self-normalised mixture-importance weights at β = 1 over
                                      the whole history; a weighted average is the RATIO of the two sums `C01_mis_unbiased`
                                      speaks about; trimming changes a bounded test function's average by ≤ 2·(dropped mass)·B
-/
namespace Props.C01
open Model.Pipeline Model.PipelineX Model.Weights Model.Reweight Model.Kernel

/-! ### structure of one iteration -/

/-- `iterateX` appends exactly one batch — the current particles with the (β, logz) it reports (any scalar type) -/
theorem C01_X_commit_appends_one {α : Type} [ScT α] (cfg : XCfg α) (s : XState α) (t : XTape α) (s1 : XState α)
    (o : XOut α) (h : iterateX cfg s t = some (s1, o)) :
    s1.hist = s.hist ++ [⟨⟨o.beta, o.logz, s1.curL⟩, s1.curU⟩] ∧ s1.beta = o.beta ∧ s1.logz = o.logz := by
  simp only [iterateX] at h
  generalize Model.Reweight.run cfg.rw (Model.PipelineX.batches s.hist).isEmpty
    (oracleMX cfg.rw.vv.isSome (Model.PipelineX.batches s.hist) t.metric)
    (oracleZ (Model.PipelineX.batches s.hist)) isFin s.beta = r at h
  split at h
  · cases h
  · by_cases hb : eqv r.beta Sc.zero = true
    · simp only [hb, if_true, Option.bind_eq_some_iff, Option.ite_none_left_eq_some, Option.some.injEq, Prod.mk.injEq] at h
      obtain ⟨us, _, l, _, _, rfl, rfl⟩ := h
      exact ⟨rfl, rfl, rfl⟩
    · simp only [hb, Bool.false_eq_true, if_false, Option.bind_eq_some_iff,
        Option.ite_none_left_eq_some, Option.some.injEq, Prod.mk.injEq] at h
      obtain ⟨idx, _, us, _, l, _, m, _, _, rfl, rfl⟩ := h
      exact ⟨rfl, rfl, rfl⟩

/-- the metric oracle of the extended model has the SAME weights and ESS as the pool oracle of `Model.Pipeline`; only the
    metric component differs (dynamic mode) -/
theorem oracleMX_fst (vv : Bool) (h : List (Batch ℝ)) (tbl : List (ℝ × ℝ)) (β : ℝ) :
    (oracleMX vv h tbl β).1 = (oracleM h β).1 ∧ (oracleMX vv h tbl β).2.1 = (oracleM h β).2.1 := ⟨rfl, rfl⟩

/-- the resampling call of `iterateX`, given the weight vector -/
noncomputable def resampledX (cfg : XCfg ℝ) (t : XTape ℝ) (w : List ℝ) : Option (List Nat) :=
  if cfg.syst then (match t.resU with | [u0] => Model.Resample.systematic cfg.rw.nPart w u0 | _ => none)
  else Model.Resample.multinomial w t.resU

/-- BOTH reweighting modes.  On a non-empty history everything an iteration does refers to the SAME β (the one it reports):
    the recorded ESS and evidence are the pool's oracles at that β; every β at which the dynamic mode consulted the volume
    metric was tabulated; in an annealing iteration the resampler receives the normalised pool weights at that β, the WHOLE
    mutation loop (all steps, all walkers, all modes) runs at that β on the gathered records starting from the initial step
    sizes, and the batch is committed with `(β, Z(β))`. -/
theorem C01_X_same_temperature (cfg : XCfg ℝ) (s : XState ℝ) (t : XTape ℝ) (s1 : XState ℝ) (o : XOut ℝ)
    (hne : s.hist ≠ []) (h : iterateX cfg s t = some (s1, o)) :
    o.ess = (oracleM (Model.PipelineX.batches s.hist) o.beta).2.1 ∧
    o.logzRw = oracleZ (Model.PipelineX.batches s.hist) o.beta ∧
    (o.beta ≠ 0 →
      resampledX cfg t (Model.Ess.normalise (oracleM (Model.PipelineX.batches s.hist) o.beta).1) = some o.idx ∧
      ∃ us l m, Model.Records.gather? (poolU s.hist) o.idx = some us ∧
        Model.Records.gather? (flatLogl (Model.PipelineX.batches s.hist)) o.idx = some l ∧
        mcmcX cfg o.beta t.modes t.assign 0 (initSigmas cfg.kind t.modes.length cfg.d) us l t.steps = some m ∧
        s1.curU = m.us ∧ s1.curL = m.ls ∧ o.masks = m.masks ∧ o.nsteps = m.nsteps ∧ o.sigmas = m.sigmas ∧
        o.logz = oracleZ (Model.PipelineX.batches s.hist) o.beta) := by
  have hE : (Model.PipelineX.batches s.hist).isEmpty = false := by
    cases hs : s.hist with
    | nil => exact absurd hs hne
    | cons _ _ => rfl
  obtain ⟨c1, c2, c3, _⟩ := Props.C05.C05_same_temperature cfg.rw
    (oracleMX cfg.rw.vv.isSome (Model.PipelineX.batches s.hist) t.metric)
    (oracleZ (Model.PipelineX.batches s.hist)) isFin s.beta
  simp only [iterateX, hE] at h
  generalize Model.Reweight.run cfg.rw false (oracleMX cfg.rw.vv.isSome (Model.PipelineX.batches s.hist) t.metric)
    (oracleZ (Model.PipelineX.batches s.hist)) isFin s.beta = r at h c1 c2 c3
  split at h
  · cases h
  · by_cases hb : eqv r.beta Sc.zero = true
    · have hb0 : r.beta = 0 := (Props.C05.eqv_real r.beta 0).mp (by simpa using hb)
      simp only [hb, if_true, Option.bind_eq_some_iff, Option.ite_none_left_eq_some, Option.some.injEq, Prod.mk.injEq] at h
      obtain ⟨us, _, l, _, _, _, rfl⟩ := h
      exact ⟨c2, c3, fun hn0 => absurd hb0 hn0⟩
    · simp only [hb, Bool.false_eq_true, if_false, Option.bind_eq_some_iff,
        Option.ite_none_left_eq_some, Option.some.injEq, Prod.mk.injEq] at h
      obtain ⟨idx, hidx, us, hus, l, hl, m, hm, _, rfl, rfl⟩ := h
      refine ⟨c2, c3, fun _ => ⟨?_, us, l, m, hus, hl, hm, rfl, rfl, rfl, rfl, rfl, c3⟩⟩
      rw [c1] at hidx
      unfold resampledX
      simp only [returnedWeights] at hidx
      by_cases hsy : cfg.syst = true
      · simp only [hsy, if_true] at hidx ⊢
        rcases hu : t.resU with _ | ⟨u0, _ | ⟨u1, us'⟩⟩ <;> rw [hu] at hidx <;> exact hidx
      · simp only [hsy, Bool.false_eq_true, if_false] at hidx ⊢
        exact hidx

/-- … and every β at which the reweighter consulted the metric had its value on the tape (dynamic mode) -/
theorem C01_X_metric_covered {α : Type} [ScT α] (cfg : XCfg α) (s : XState α) (t : XTape α) (s1 : XState α) (o : XOut α)
    (h : iterateX cfg s t = some (s1, o)) :
    covered cfg.rw.vv.isSome t.metric
      (Model.Reweight.run cfg.rw (Model.PipelineX.batches s.hist).isEmpty
        (oracleMX cfg.rw.vv.isSome (Model.PipelineX.batches s.hist) t.metric)
        (oracleZ (Model.PipelineX.batches s.hist)) isFin s.beta).calls = true := by
  simp only [iterateX] at h
  split at h
  · cases h
  · rename_i hc
    simpa using hc

/-! ### the temperature schedule of a whole run, BOTH modes -/

theorem iterateX_out (cfg : XCfg ℝ) (s : XState ℝ) (t : XTape ℝ) (s1 : XState ℝ) (o : XOut ℝ)
    (h : iterateX cfg s t = some (s1, o)) :
    o.beta = (run cfg.rw (Model.PipelineX.batches s.hist).isEmpty
      (oracleMX cfg.rw.vv.isSome (Model.PipelineX.batches s.hist) t.metric)
      (oracleZ (Model.PipelineX.batches s.hist)) isFin s.beta).beta := by
  simp only [iterateX] at h
  generalize run cfg.rw (Model.PipelineX.batches s.hist).isEmpty
    (oracleMX cfg.rw.vv.isSome (Model.PipelineX.batches s.hist) t.metric)
    (oracleZ (Model.PipelineX.batches s.hist)) isFin s.beta = r at h ⊢
  split at h
  · cases h
  · by_cases hb : eqv r.beta Sc.zero = true
    · simp only [hb, if_true, Option.bind_eq_some_iff, Option.ite_none_left_eq_some, Option.some.injEq, Prod.mk.injEq] at h
      obtain ⟨us, _, l, _, _, _, rfl⟩ := h
      rfl
    · simp only [hb, Bool.false_eq_true, if_false, Option.bind_eq_some_iff,
        Option.ite_none_left_eq_some, Option.some.injEq, Prod.mk.injEq] at h
      obtain ⟨idx, _, us, _, l, _, m, _, _, _, rfl⟩ := h
      rfl

theorem batchesX_isEmpty (h : List (XBatch ℝ)) : (Model.PipelineX.batches h).isEmpty = h.isEmpty := by
  cases h <;> rfl

/-- One iteration of the extended pipeline (ESS mode or volume-variation mode): the new β is handed on unchanged, the
    history is non-empty afterwards, the first iteration sets β = 0, every later one moves β inside `[β_prev, 1]`. -/
theorem C01_X_step (cfg : XCfg ℝ) (s : XState ℝ) (t : XTape ℝ) (s1 : XState ℝ) (o : XOut ℝ)
    (h : iterateX cfg s t = some (s1, o)) (hb : s.beta ≤ 1) :
    s1.beta = o.beta ∧ s1.hist ≠ [] ∧ (s.hist = [] → o.beta = 0) ∧
    (s.hist ≠ [] → s.beta ≤ o.beta ∧ o.beta ≤ 1) := by
  obtain ⟨hh, hbeta, _⟩ := C01_X_commit_appends_one cfg s t s1 o h
  have ob := iterateX_out cfg s t s1 o h
  refine ⟨hbeta, by rw [hh]; simp, ?_, ?_⟩
  · intro he
    rw [ob, batchesX_isEmpty, he]
    exact (Props.C05.C05_first_iteration cfg.rw _ _ _ s.beta).1
  · intro hne
    have : s.hist.isEmpty = false := by cases hs : s.hist with
      | nil => exact absurd hs hne
      | cons _ _ => rfl
    rw [ob, batchesX_isEmpty, this]
    exact Props.C05.C05_run_range cfg.rw _ _ _ s.beta hb

theorem runItersX_mono (cfg : XCfg ℝ) (ts : List (XTape ℝ)) :
    ∀ (s sf : XState ℝ) (os : List (XOut ℝ)), runItersX cfg s ts = some (sf, os) → s.hist ≠ [] → s.beta ≤ 1 →
      (∀ o ∈ os, s.beta ≤ o.beta ∧ o.beta ≤ 1) ∧
      (∀ k a b, os[k]? = some a → os[k+1]? = some b → a.beta ≤ b.beta) ∧ sf.hist ≠ [] := by
  induction ts with
  | nil =>
    intro s sf os h hne _
    simp only [runItersX, Option.some.injEq, Prod.mk.injEq] at h
    obtain ⟨rfl, rfl⟩ := h
    simp [hne]
  | cons t ts ih =>
    intro s sf os h hne hb
    simp only [runItersX, Option.bind_eq_some_iff, Option.map_eq_some_iff] at h
    obtain ⟨⟨s1, o⟩, hi, ⟨sf', os'⟩, hr, he⟩ := h
    simp only [Prod.mk.injEq] at he
    obtain ⟨rfl, rfl⟩ := he
    obtain ⟨p1, p2, _, p4⟩ := C01_X_step cfg s t s1 o hi hb
    obtain ⟨q1, q2⟩ := p4 hne
    obtain ⟨i1, i3, i4⟩ := ih s1 sf' os' hr p2 (by rw [p1]; exact q2)
    refine ⟨?_, ?_, i4⟩
    · intro x hx
      rcases List.mem_cons.mp hx with rfl | hx
      · exact ⟨q1, q2⟩
      · have := i1 x hx
        rw [p1] at this
        exact ⟨le_trans q1 this.1, this.2⟩
    · intro k a b ha hb'
      cases k with
      | zero =>
        simp only [List.getElem?_cons_zero, Option.some.injEq] at ha
        simp only [List.getElem?_cons_succ] at hb'
        subst ha
        have hm := i1 b (List.mem_of_getElem? hb')
        rw [p1] at hm
        exact hm.1
      | succ k =>
        simp only [List.getElem?_cons_succ] at ha hb'
        exact i3 k a b ha hb'

/-- The schedule of a whole run of the extended model from the fresh state, for EVERY tape (every realisation of the
    randomness, of the user's likelihood, of the trainer's output and of the volume metric) and every configuration —
    clustering or not, ESS or volume-variation mode, either kernel, either resampler:  β₀ = 0;  0 ≤ β_k ≤ 1;  β_k ≤ β_{k+1}. -/
theorem C01_X_schedule (cfg : XCfg ℝ) (ts : List (XTape ℝ)) (sf : XState ℝ) (os : List (XOut ℝ))
    (h : runItersX cfg initX ts = some (sf, os)) :
    (∀ o, os[0]? = some o → o.beta = 0) ∧
    (∀ o ∈ os, 0 ≤ o.beta ∧ o.beta ≤ 1) ∧
    (∀ k a b, os[k]? = some a → os[k+1]? = some b → a.beta ≤ b.beta) := by
  cases ts with
  | nil =>
    simp only [runItersX, Option.some.injEq, Prod.mk.injEq] at h
    obtain ⟨_, rfl⟩ := h
    simp
  | cons t ts =>
    simp only [runItersX, Option.bind_eq_some_iff, Option.map_eq_some_iff] at h
    obtain ⟨⟨s1, o⟩, hi, ⟨sf', os'⟩, hr, he⟩ := h
    simp only [Prod.mk.injEq] at he
    obtain ⟨_, rfl⟩ := he
    have hb0 : (initX : XState ℝ).beta ≤ 1 := by simp [initX]
    obtain ⟨p1, p2, p3, _⟩ := C01_X_step cfg initX t s1 o hi hb0
    have ho : o.beta = 0 := p3 (by simp [initX])
    obtain ⟨i1, i3, _⟩ := runItersX_mono cfg ts s1 sf' os' hr p2 (by rw [p1, ho]; norm_num)
    rw [p1, ho] at i1
    refine ⟨?_, ?_, ?_⟩
    · intro x hx
      simp only [List.getElem?_cons_zero, Option.some.injEq] at hx
      subst hx; exact ho
    · intro x hx
      rcases List.mem_cons.mp hx with rfl | hx
      · rw [ho]; exact ⟨le_refl _, by norm_num⟩
      · exact i1 x hx
    · intro k a b ha hb'
      cases k with
      | zero =>
        simp only [List.getElem?_cons_zero, Option.some.injEq] at ha
        simp only [List.getElem?_cons_succ] at hb'
        subst ha
        rw [ho]
        exact (i1 b (List.mem_of_getElem? hb')).1
      | succ k =>
        simp only [List.getElem?_cons_succ] at ha hb'
        exact i3 k a b ha hb'

/-- a run only ever appends: one batch per tape (any scalar type) -/
theorem runItersX_hist {α : Type} [ScT α] (cfg : XCfg α) (ts : List (XTape α)) :
    ∀ (s sf : XState α) (os : List (XOut α)), runItersX cfg s ts = some (sf, os) →
      ∃ ext, sf.hist = s.hist ++ ext ∧ ext.length = ts.length ∧ os.length = ts.length := by
  induction ts with
  | nil =>
    intro s sf os h
    simp only [runItersX, Option.some.injEq, Prod.mk.injEq] at h
    obtain ⟨rfl, rfl⟩ := h
    exact ⟨[], by simp, rfl, rfl⟩
  | cons t ts ih =>
    intro s sf os h
    simp only [runItersX, Option.bind_eq_some_iff, Option.map_eq_some_iff] at h
    obtain ⟨⟨s1, o⟩, hi, ⟨sf', os'⟩, hr, he⟩ := h
    simp only [Prod.mk.injEq] at he
    obtain ⟨rfl, rfl⟩ := he
    obtain ⟨ext, h1, h2, h3⟩ := ih s1 sf' os' hr
    obtain ⟨hh, _, _⟩ := C01_X_commit_appends_one cfg s t s1 o hi
    refine ⟨⟨⟨o.beta, o.logz, s1.curL⟩, s1.curU⟩ :: ext, ?_, by simp [h2], by simp [h3]⟩
    rw [h1, hh, List.append_assoc]; rfl

/-- **support of the mixture**: the first batch of every run of the extended model has β = 0 and stays the first entry of
    the history — the batch that makes the balance-heuristic denominator positive on the whole prior support
    (`C01_support`, `C01_mis_unbiased_boundary`) -/
theorem C01_X_run_first_batch_beta_zero (cfg : XCfg ℝ) (t : XTape ℝ) (ts : List (XTape ℝ))
    (sf : XState ℝ) (os : List (XOut ℝ)) (h : runItersX cfg initX (t :: ts) = some (sf, os)) :
    ∃ xb rest, sf.hist = xb :: rest ∧ xb.b.beta = 0 := by
  simp only [runItersX, Option.bind_eq_some_iff, Option.map_eq_some_iff] at h
  obtain ⟨⟨s1, o⟩, hi, ⟨sf', os'⟩, hr, he⟩ := h
  simp only [Prod.mk.injEq] at he
  obtain ⟨rfl, rfl⟩ := he
  obtain ⟨hh, _, _⟩ := C01_X_commit_appends_one cfg initX t s1 o hi
  obtain ⟨_, _, p3, _⟩ := C01_X_step cfg initX t s1 o hi (by simp [initX])
  have ho : o.beta = 0 := p3 (by simp [initX])
  obtain ⟨ext, h2, _, _⟩ := runItersX_hist cfg ts s1 sf' os' hr
  exact ⟨_, ext, by rw [h2, hh]; rfl, ho⟩

/-! ### one walker of one accept/reject step -/

/-- what `Model.Kernel.step` reports, in the form used below -/
theorem step_fields (i : StepIn ℝ) :
    (step i).alpha = boundedAlpha (step i).inb (acceptProb i.beta i.l i.lp (step i).factor) ∧
    (step i).accept = acceptDecision i.r (step i).alpha ∧
    (step i).newU = if (step i).accept then (step i).prop else i.u := by
  unfold step
  split <;> exact ⟨rfl, rfl, rfl⟩

/-- **the Metropolis rule of the extended model, per walker** (`lp` = the user's log-likelihood at the evaluated point,
    `none` = −∞; `w.lp` is that value when it is finite).
    Accepted ⇒ the log-likelihood is finite, the walker's own-mode step `so` accepted, the uniform is below
    `boundedAlpha inb (acceptProb β l lp factor)` with β the iteration's temperature, the proposal was inside the cube
    (for a non-negative uniform), and the stored record is the evaluated point TOGETHER WITH its log-likelihood.
    Rejected ⇒ position and log-likelihood are unchanged. -/
theorem C01_X_walker_rule (i : RunIn ℝ) (w : Walker ℝ) (lp : Option ℝ) (o : WOut ℝ)
    (hw : ∀ v, lp = some v → w.lp = v) (h : wx i w lp = some o) :
    (o.accept = true → ∃ v so, lp = some v ∧ walkerStep i w = some so ∧ so.accept = true ∧ o.u = so.prop ∧ o.l = v ∧
        w.r < boundedAlpha so.inb (acceptProb i.beta w.l v so.factor) ∧ (0 ≤ w.r → so.inb = true)) ∧
    (o.accept = false → o.u = w.u ∧ o.l = w.l) := by
  unfold wx at h
  simp only [Option.map_eq_some_iff] at h
  obtain ⟨so, hso, rfl⟩ := h
  obtain ⟨m, sg, -, -, hstep⟩ := Props.C03.C03_walker_uses_own_mode i w so hso
  obtain ⟨f1, f2, f3⟩ := step_fields
    ⟨i.kind, w.u, m.mu, m.chol, m.invcov, m.nu, sg, i.beta, w.l, w.lp, w.g, w.r, w.z, i.per, i.refl⟩
  rw [← hstep] at f1 f2 f3
  simp only at f1 f2 f3
  cases lp with
  | none => simp
  | some v =>
    have hv : w.lp = v := hw v rfl
    simp only
    constructor
    · intro hacc
      have hr : w.r < so.alpha := by
        have := f2; rw [hacc] at this
        simpa [acceptDecision] using this.symm
      refine ⟨v, so, rfl, hso, hacc, ?_, by simp [hacc], ?_, ?_⟩
      · simp [f3, hacc]
      · rw [f1, hv] at hr; exact hr
      · intro h0
        by_contra hinb
        have hin : so.inb = false := by simpa using hinb
        rw [f1, hin] at hr
        simp [boundedAlpha, alphaOutOfBounds] at hr
        linarith
    · intro hacc
      simp [hacc, f3]

/-- the walkers `mkWalkers` builds carry the finite log-likelihood of the tape in their `lp` field -/
theorem mkWalkers_lp {α : Type} [ScT α] : ∀ (us : List (List α)) (as : List Nat) (ls : List α) (lps : List (Option α))
    (gs rs : List α) (zs : List (List α)) (ws : List (Walker α × Option α)),
    mkWalkers us as ls lps gs rs zs = some ws → ∀ p ∈ ws, ∀ v, p.2 = some v → p.1.lp = v := by
  intro us
  induction us with
  | nil =>
    intro as ls lps gs rs zs ws h
    cases as <;> cases ls <;> cases lps <;> cases gs <;> cases rs <;> cases zs <;> simp [mkWalkers] at h
    subst h; simp
  | cons u us ih =>
    intro as ls lps gs rs zs ws h
    cases as with
    | nil => simp [mkWalkers] at h
    | cons a as =>
    cases ls with
    | nil => simp [mkWalkers] at h
    | cons l ls =>
    cases lps with
    | nil => simp [mkWalkers] at h
    | cons lp lps =>
    cases gs with
    | nil => simp [mkWalkers] at h
    | cons g gs =>
    cases rs with
    | nil => simp [mkWalkers] at h
    | cons r rs =>
    cases zs with
    | nil => simp [mkWalkers] at h
    | cons z zs =>
      simp only [mkWalkers, Option.map_eq_some_iff] at h
      obtain ⟨rest, hrest, rfl⟩ := h
      intro p hp v hv
      rcases List.mem_cons.mp hp with rfl | hp
      · simp only at hv ⊢
        subst hv; rfl
      · exact ih as ls lps gs rs zs rest hrest p hp v hv

/-! ### the step sizes of the whole mutation loop (tpCN) -/

/-- the range the tpCN step sizes live in: `[0, min(σ₀, 0.99)]` -/
def SigOK (s0 s : ℝ) : Prop := 0 ≤ s ∧ s ≤ min s0 (99 / 100)

theorem sigma0_nonneg (d : Nat) : 0 ≤ (sigma0 d : ℝ) := by
  simp only [sigma0, ScReal.div_def, ScReal.lit_def, ScReal.sqrt_def, ScReal.ofNat_def]
  positivity

theorem tpcnAdapt_range (sigma iter acc s0 : ℝ) (h0 : 0 ≤ s0) : SigOK s0 (Model.Kernel.tpcnAdapt sigma iter acc s0) := by
  simp only [SigOK, Model.Kernel.tpcnAdapt, ScReal.min_def, ScReal.max_def, ScReal.zero_def, ScReal.lit_def]
  have h99 : ((99 : ℕ) : ℝ) / 10 ^ 2 = 99 / 100 := by norm_num
  rw [h99]
  constructor
  · exact le_min (le_max_right _ _) (le_min h0 (by norm_num))
  · exact min_le_right _ _

theorem initSigmas_ok (K d : Nat) : ∀ s ∈ (initSigmas Kind.tpcn K d : List ℝ), SigOK (sigma0 d) s := by
  intro s hs
  simp only [initSigmas, List.mem_replicate] at hs
  obtain ⟨_, rfl⟩ := hs
  have h99 : (Sc.lit 99 2 : ℝ) = 99 / 100 := by simp; norm_num
  rw [ScReal.min_def, h99]
  exact ⟨le_min (sigma0_nonneg d) (by norm_num), le_refl _⟩

/-- one adaptation keeps every tpCN step size in range (clusters without a walker keep theirs) -/
theorem adaptAll_ok (i : RunIn ℝ) (alphas : List ℝ) (hk : i.kind = Kind.tpcn) (h0 : 0 ≤ i.sigma0)
    (hs : ∀ s ∈ i.sigmas, SigOK i.sigma0 s) : ∀ s ∈ adaptAll i alphas, SigOK i.sigma0 s := by
  intro s hmem
  unfold adaptAll at hmem
  rw [List.mem_mapIdx] at hmem
  obtain ⟨c, hc, rfl⟩ := hmem
  simp only
  split
  · exact hs _ (List.getElem_mem _)
  · simp only [adaptOne, hk]
    exact tpcnAdapt_range _ _ _ _ h0

theorem stepX_sigmas_ok (c : XCfg ℝ) (hk : c.kind = Kind.tpcn) (beta : ℝ) (modes : List (Mode ℝ)) (assign : List Nat)
    (k : Nat) (sig : List ℝ) (us : List (List ℝ)) (ls : List ℝ) (st : XStep ℝ) (r : SRes ℝ)
    (hs : ∀ s ∈ sig, SigOK (sigma0 c.d) s) (h : stepX c beta modes assign k sig us ls st = some r) :
    ∀ s ∈ r.sigmas, SigOK (sigma0 c.d) s := by
  simp only [stepX, Option.bind_eq_some_iff, Option.map_eq_some_iff] at h
  obtain ⟨ws, _, outs, _, rfl⟩ := h
  exact adaptAll_ok _ _ hk (sigma0_nonneg c.d) hs

/-- **tpCN step sizes over the whole mutation loop**: started from `_initialize_sigmas`, every step of `mcmcX` is made
    with every mode's step size in `[0, min(σ₀, 0.99)]` — in particular `σ < 1`, so `sqrt(1 − σ²)` is a positive real and
    the tpCN proposal is the one whose reversibility `C03_tpcn_reversible_wrt_t` proves (σ = 0: `C03_tpcn_sigma_zero`) —
    and so are the step sizes it returns.  `P` is any further invariant of the step sizes one wants to carry along. -/
theorem C01_X_tpcn_sigma_range (c : XCfg ℝ) (hk : c.kind = Kind.tpcn) (beta : ℝ) (modes : List (Mode ℝ))
    (assign : List Nat) (steps : List (XStep ℝ)) :
    ∀ (k : Nat) (sig : List ℝ) (us : List (List ℝ)) (ls : List ℝ) (m : MRes ℝ),
      (∀ s ∈ sig, SigOK (sigma0 c.d) s) → mcmcX c beta modes assign k sig us ls steps = some m →
      (∀ s ∈ m.sigmas, SigOK (sigma0 c.d) s) ∧ (∀ s ∈ m.sigmas, 0 ≤ s ∧ s < 1) := by
  have key : ∀ s : ℝ, SigOK (sigma0 c.d) s → 0 ≤ s ∧ s < 1 := by
    intro s hs
    exact ⟨hs.1, lt_of_le_of_lt (le_trans hs.2 (min_le_right _ _)) (by norm_num)⟩
  induction steps with
  | nil => intro k sig us ls m _ h; simp [mcmcX] at h
  | cons st rest ih =>
    intro k sig us ls m hs h
    simp only [mcmcX, Option.bind_eq_some_iff] at h
    obtain ⟨r, hr, h⟩ := h
    have hr' := stepX_sigmas_ok c hk beta modes assign (k + 1) sig us ls st r hs hr
    split at h
    · simp only [Option.some.injEq] at h
      subst h
      exact ⟨hr', fun s hs' => key s (hr' s hs')⟩
    · simp only [Option.map_eq_some_iff] at h
      obtain ⟨m', hm', rfl⟩ := h
      exact ih (k + 1) r.sigmas r.us r.ls m' hr' hm'

/-- … instantiated at the start of the loop as `iterateX` runs it -/
theorem C01_X_tpcn_sigma_range_iter (c : XCfg ℝ) (hk : c.kind = Kind.tpcn) (beta : ℝ) (modes : List (Mode ℝ))
    (assign : List Nat) (steps : List (XStep ℝ)) (us : List (List ℝ)) (ls : List ℝ) (m : MRes ℝ)
    (h : mcmcX c beta modes assign 0 (initSigmas c.kind modes.length c.d) us ls steps = some m) :
    ∀ s ∈ m.sigmas, 0 ≤ s ∧ s < 1 := by
  rw [hk] at h
  exact (C01_X_tpcn_sigma_range c hk beta modes assign steps 0 _ us ls m (initSigmas_ok _ _) h).2

/-- the mutation loop makes at least one step and consumes its tape in order: `nsteps = k + (steps consumed)` -/
theorem mcmcX_nsteps (c : XCfg ℝ) (beta : ℝ) (modes : List (Mode ℝ)) (assign : List Nat) (steps : List (XStep ℝ)) :
    ∀ (k : Nat) (sig : List ℝ) (us : List (List ℝ)) (ls : List ℝ) (m : MRes ℝ),
      mcmcX c beta modes assign k sig us ls steps = some m →
      k + 1 ≤ m.nsteps ∧ m.nsteps + m.leftover = k + steps.length ∧ m.masks.length = m.nsteps - k := by
  induction steps with
  | nil => intro k sig us ls m h; simp [mcmcX] at h
  | cons st rest ih =>
    intro k sig us ls m h
    simp only [mcmcX, Option.bind_eq_some_iff] at h
    obtain ⟨r, _, h⟩ := h
    split at h
    · simp only [Option.some.injEq] at h
      subst h
      simp only [List.length_cons, List.length_nil]
      omega
    · simp only [Option.map_eq_some_iff] at h
      obtain ⟨m', hm', rfl⟩ := h
      obtain ⟨a, b, d⟩ := ih (k + 1) r.sigmas r.us r.ls m' hm'
      simp only [List.length_cons]
      omega

/-! ### a completed run: the loop guard, the epilogue -/

theorem runGuardedX_post (c : XCfg ℝ) (tol nTotal : ℝ) (ts : List (XTape ℝ)) :
    ∀ (s sf : XState ℝ) (os : List (XOut ℝ)), runGuardedX c tol nTotal s ts = some (sf, os) →
      contX tol nTotal sf = false ∧ runItersX c s ts = some (sf, os) := by
  induction ts with
  | nil =>
    intro s sf os h
    simp only [runGuardedX] at h
    split at h
    · cases h
    · rename_i hc
      simp only [Option.some.injEq, Prod.mk.injEq] at h
      obtain ⟨rfl, rfl⟩ := h
      exact ⟨by simpa using hc, rfl⟩
  | cons t ts ih =>
    intro s sf os h
    simp only [runGuardedX] at h
    split at h
    · simp only [Option.bind_eq_some_iff, Option.map_eq_some_iff] at h
      obtain ⟨⟨s1, o⟩, hi, ⟨sf', os'⟩, hr, he⟩ := h
      simp only [Prod.mk.injEq] at he
      obtain ⟨rfl, rfl⟩ := he
      obtain ⟨g1, g2⟩ := ih s1 sf' os' hr
      exact ⟨g1, by simp [runItersX, hi, g2]⟩
    · cases h

/-- **a completed run** (`Sampler.run()` returned, then `Sampler.evidence()`): the iterations are those of `runItersX` on the
    same tapes; at the end `1 − β < tol`, the posterior weights `posterior(trim_importance_weights=False)` returns exist
    and have effective sample size `≥ n_total`; the evidence reported is the β = 1 estimate over the WHOLE final history,
    and it is what is stored as `logz`. -/
theorem C01_X_completed_run (c : XCfg ℝ) (tol nTotal : ℝ) (ts : List (XTape ℝ)) (sf : XState ℝ) (os : List (XOut ℝ))
    (z : ℝ) (h : runSamplingX c tol nTotal ts = some (sf, os, z)) :
    ∃ s0, runItersX c initX ts = some (s0, os) ∧ sf.hist = s0.hist ∧ sf.beta = s0.beta ∧ sf.logz = z ∧
      finalEvidenceX s0 = some z ∧ 1 - sf.beta < tol ∧
      ∃ w0, Model.Posterior.weights0 (logw (Model.PipelineX.batches sf.hist) 1 true).1 = some w0 ∧
        nTotal ≤ Model.Ess.ess w0 := by
  simp only [runSamplingX, Option.bind_eq_some_iff, Option.map_eq_some_iff, Prod.mk.injEq] at h
  obtain ⟨⟨s0, os0⟩, hg, z0, hz, rfl, rfl, rfl⟩ := h
  obtain ⟨hc, hr⟩ := runGuardedX_post c tol nTotal ts initX s0 os0 hg
  refine ⟨s0, hr, rfl, rfl, rfl, hz, ?_⟩
  simp only [contX, ScReal.one_def] at hc
  cases hw : (logw (Model.PipelineX.batches s0.hist) 1 true).1 with
  | nil => rw [hw] at hc; simp [Model.Run.notTermination] at hc
  | cons x xs =>
    rw [hw] at hc
    simp only [Model.Run.notTermination] at hc
    rw [Props.C12.notTerm_false_iff] at hc
    refine ⟨hc.1, Model.Ess.normalise (Model.Posterior.expShift x xs), rfl, ?_⟩
    rw [Props.C12.C12_guard_ess_is_posterior_ess]
    exact hc.2

/-! ### what `posterior()` hands to the user -/

theorem normalise_expShift (x : ℝ) (xs : List ℝ) :
    Model.Ess.normalise (Model.Posterior.expShift x xs)
      = (x :: xs).map fun l => Real.exp l / ((x :: xs).map Real.exp).sum := by
  set m := Model.Ess.maxOf x xs with hm
  have h1 : Model.Posterior.expShift x xs = (x :: xs).map fun l => Real.exp l * Real.exp (-m) := by
    simp only [Model.Posterior.expShift, ScReal.exp_def, ScReal.sub_def]
    apply List.map_congr_left
    intro l _
    rw [← hm, sub_eq_add_neg, Real.exp_add]
  have h2 : (Model.Posterior.expShift x xs).sum = ((x :: xs).map Real.exp).sum * Real.exp (-m) := by
    rw [h1, ← List.sum_map_mul_right]
  rw [Props.C20.normalise_def, h2, h1, List.map_map]
  apply List.map_congr_left
  intro l _
  simp only [Function.comp_def]
  have := Real.exp_pos (-m)
  field_simp

/-- **the weights `posterior(resample=False, trim_importance_weights=False)` returns are the self-normalised
    mixture-importance weights at β = 1 over the whole history**: particle `s` of the pool (all stored batches, in order)
    gets `W_s / Σ_r W_r` with `W_s = exp(specRaw h 1 ℓ_s) = L_s / Σ_t (n_t/N) L_s^{β_t}/Z_t` (C04's formula, the
    weight `C01_weight_bridge` identifies with `misW`), together with its own position and log-likelihood. -/
theorem C01_posterior_selfnormalised (s : XState ℝ) (hwf : Props.C04.WF (Model.PipelineX.batches s.hist))
    (e : ℝ) (bins : Nat) (u0 : ℝ) (rb rl : Bool) (a : Model.Posterior.Arrs Nat ℝ Unit ℝ ℝ)
    (h : posteriorX s e bins u0 ⟨false, false, rb, rl⟩ = some a) :
    a.x = List.range (nTotal (Model.PipelineX.batches s.hist)) ∧
    a.l = flatLogl (Model.PipelineX.batches s.hist) ∧
    a.w = (flatLogl (Model.PipelineX.batches s.hist)).map fun l =>
      Real.exp (Props.C04.specRaw (Model.PipelineX.batches s.hist) 1 l) / Props.C04.sumW (Model.PipelineX.batches s.hist) 1 := by
  set hb := Model.PipelineX.batches s.hist with hhb
  have hlw : (logw hb 1 true).1 = (flatLogl hb).map (Props.C04.specNorm hb 1) := Props.C04.C04_normalised hb hwf 1
  have hS := Props.C04.sumW_pos hb hwf 1
  have hsum1 : (((flatLogl hb).map (Props.C04.specNorm hb 1)).map Real.exp).sum = 1 := by
    have := Props.C04.C04_normalised_sum_one hb hwf 1
    rw [hlw] at this; exact this
  simp only [posteriorX, Model.Posterior.posterior, posteriorArrs, ScReal.one_def, ← hhb, hlw, Bool.false_eq_true,
    if_false, Option.bind_eq_some_iff] at h
  obtain ⟨w0, hw0, t, ht, ridx, hr, hbody⟩ := h
  simp only [Option.some.injEq] at ht hr
  subst ht; subst hr
  simp only [Model.Posterior.body, Bool.false_eq_true, if_false, Option.bind_some, Option.some.injEq] at hbody
  subst hbody
  refine ⟨rfl, rfl, ?_⟩
  simp only
  cases hfl : flatLogl hb with
  | nil => exact absurd hfl (Props.C04.flatLogl_ne_nil hb hwf)
  | cons l0 ls =>
    rw [hfl] at hw0 hsum1
    simp only [List.map_cons, Model.Posterior.weights0, Option.some.injEq] at hw0
    rw [← hw0, normalise_expShift]
    have hsum2 : (List.map Real.exp (Props.C04.specNorm hb 1 l0 :: List.map (Props.C04.specNorm hb 1) ls)).sum = 1 := by
      simpa using hsum1
    rw [hsum2]
    simp only [List.map_cons, div_one, List.cons.injEq, List.map_map]
    have hpt : ∀ l, Real.exp (Props.C04.specNorm hb 1 l) = Real.exp (Props.C04.specRaw hb 1 l) / Props.C04.sumW hb 1 := by
      intro l
      rw [Props.C04.specNorm, Real.exp_sub, Real.exp_log hS]
    exact ⟨hpt l0, List.map_congr_left fun l _ => hpt l⟩

theorem zipWith_div_sum (W fs : List ℝ) (S : ℝ) :
    (List.zipWith (· * ·) (W.map fun x => x / S) fs).sum = (List.zipWith (· * ·) W fs).sum / S := by
  induction W generalizing fs with
  | nil => simp
  | cons x xs ih =>
    cases fs with
    | nil => simp
    | cons f fs => simp only [List.map_cons, List.zipWith_cons_cons, List.sum_cons, ih fs]; ring

/-- **a posterior expectation computed from the returned weights is the RATIO of two pool sums**: for any per-particle
    values `fs` (a test function evaluated at the returned positions), `Σ_s w_s f_s = (Σ_s W_s f_s) / (Σ_s W_s)` with the
    unnormalised mixture-importance weights `W_s`.  `(1/N)·Σ_s W_s f_s` and `(1/N)·Σ_s W_s` are exactly the two sums whose
    expectations `C01_mis_unbiased` / `C01_mean_weight_is_Z` compute (`Σ γ₁ f` and `Z₁`) under the nominal batch laws, and
    the denominator is the reported evidence: `Σ_s W_s = N · exp(logZ)`. -/
theorem C01_posterior_estimate_is_ratio (s : XState ℝ) (hwf : Props.C04.WF (Model.PipelineX.batches s.hist))
    (e : ℝ) (bins : Nat) (u0 : ℝ) (rb rl : Bool) (a : Model.Posterior.Arrs Nat ℝ Unit ℝ ℝ)
    (h : posteriorX s e bins u0 ⟨false, false, rb, rl⟩ = some a) (fs : List ℝ) :
    (List.zipWith (· * ·) a.w fs).sum
      = (List.zipWith (· * ·)
          ((flatLogl (Model.PipelineX.batches s.hist)).map fun l =>
            Real.exp (Props.C04.specRaw (Model.PipelineX.batches s.hist) 1 l)) fs).sum
        / Props.C04.sumW (Model.PipelineX.batches s.hist) 1 ∧
    finalEvidenceX s = some (Real.log ((1 / (nTotal (Model.PipelineX.batches s.hist) : ℝ)) *
      Props.C04.sumW (Model.PipelineX.batches s.hist) 1)) := by
  obtain ⟨_, _, hw⟩ := C01_posterior_selfnormalised s hwf e bins u0 rb rl a h
  constructor
  · rw [hw, ← zipWith_div_sum, List.map_map]; rfl
  · simp only [finalEvidenceX, ScReal.one_def]
    rw [Props.C04.C04_logz _ hwf 1 true]; rfl

/-! ### trimming: how far can `posterior()`'s default weight trimming move a bounded expectation? -/
section trimbound
open Model.Trim

theorem dot_abs_le (B : ℝ) (hB : 0 ≤ B) : ∀ (w f : List ℝ), (∀ x ∈ w, 0 ≤ x) → (∀ y ∈ f, |y| ≤ B) →
    |(List.zipWith (· * ·) w f).sum| ≤ w.sum * B := by
  intro w
  induction w with
  | nil => intro f _ _; simp
  | cons x xs ih =>
    intro f hw hf
    cases f with
    | nil =>
      simp only [List.zipWith_nil_right, List.sum_nil, abs_zero]
      exact mul_nonneg (List.sum_nonneg hw) hB
    | cons y ys =>
      simp only [List.zipWith_cons_cons, List.sum_cons]
      have hx : 0 ≤ x := hw x (by simp)
      have hy : |y| ≤ B := hf y (by simp)
      have h1 := ih ys (fun a ha => hw a (by simp [ha])) (fun a ha => hf a (by simp [ha]))
      calc |x * y + (List.zipWith (· * ·) xs ys).sum| ≤ |x * y| + |(List.zipWith (· * ·) xs ys).sum| := abs_add_le _ _
        _ ≤ x * B + xs.sum * B := by
            rw [abs_mul, abs_of_nonneg hx]
            exact add_le_add (mul_le_mul_of_nonneg_left hy hx) h1
        _ = (x + xs.sum) * B := by ring

/-- split a weighted sum (and the total weight) into the kept and the dropped part of a mask -/
theorem dot_split : ∀ (w f : List ℝ) (m : List Bool), w.length = m.length → f.length = m.length →
    (List.zipWith (· * ·) w f).sum
      = (List.zipWith (· * ·) (filterMask w m) (filterMask f m)).sum
        + (List.zipWith (· * ·) (filterMask w (m.map (!·))) (filterMask f (m.map (!·)))).sum ∧
    w.sum = (filterMask w m).sum + (filterMask w (m.map (!·))).sum := by
  intro w
  induction w with
  | nil => intro f m _ _; simp [filterMask]
  | cons x xs ih =>
    intro f m hw hf
    cases m with
    | nil => simp at hw
    | cons b bs =>
      cases f with
      | nil => simp at hf
      | cons y ys =>
        obtain ⟨i1, i2⟩ := ih ys bs (by simpa using hw) (by simpa using hf)
        cases b <;> simp [filterMask, i1, i2] <;> constructor <;> ring

theorem filterMask_forall {σ : Type} (P : σ → Prop) : ∀ (l : List σ) (m : List Bool), (∀ x ∈ l, P x) →
    ∀ x ∈ filterMask l m, P x := by
  intro l m h x hx
  exact h x ((Props.C20.filterMask_sublist l m).subset hx)

/-- **bias bound for a trimmed, renormalised weight vector.**  `wn`: normalised non-negative weights of the pool,
    `m`: the mask of the particles that are kept (total kept mass `K > 0`), `fs`: a test function on the pool with `|f| ≤ B`.
    The trimmed estimate `Σ_kept (w/K)·f` differs from the untrimmed `Σ w·f` by at most `2·(1 − K)·B`. -/
theorem trim_bias_core (wn fs : List ℝ) (m : List Bool) (B : ℝ) (hB : 0 ≤ B) (h0 : ∀ x ∈ wn, 0 ≤ x) (h1 : wn.sum = 1)
    (hf : ∀ y ∈ fs, |y| ≤ B) (hl : wn.length = m.length) (hlf : fs.length = m.length)
    (hK : 0 < (filterMask wn m).sum) :
    |(List.zipWith (· * ·) wn fs).sum
        - (List.zipWith (· * ·) (Model.Ess.normalise (filterMask wn m)) (filterMask fs m)).sum|
      ≤ 2 * (1 - (filterMask wn m).sum) * B := by
  set K := (filterMask wn m).sum with hKdef
  obtain ⟨s1, s2⟩ := dot_split wn fs m hl hlf
  set A := (List.zipWith (· * ·) (filterMask wn m) (filterMask fs m)).sum with hA
  set D := (List.zipWith (· * ·) (filterMask wn (m.map (!·))) (filterMask fs (m.map (!·)))).sum with hD
  have hdrop : (filterMask wn (m.map (!·))).sum = 1 - K := by rw [h1] at s2; linarith
  have hAle : |A| ≤ K * B :=
    dot_abs_le B hB _ _ (filterMask_forall _ wn m h0) (filterMask_forall _ fs m hf)
  have hDle : |D| ≤ (1 - K) * B := by
    have := dot_abs_le B hB _ _ (filterMask_forall _ wn (m.map (!·)) h0) (filterMask_forall _ fs (m.map (!·)) hf)
    rwa [hdrop] at this
  have hK1 : K ≤ 1 := by
    have : 0 ≤ (filterMask wn (m.map (!·))).sum := List.sum_nonneg (filterMask_forall _ wn _ h0)
    linarith
  have hnorm : (List.zipWith (· * ·) (Model.Ess.normalise (filterMask wn m)) (filterMask fs m)).sum = A / K := by
    rw [Props.C20.normalise_def, zipWith_div_sum]
  rw [hnorm, s1]
  have hAK : |A - A / K| ≤ (1 - K) * B := by
    have : A - A / K = -(A * ((1 - K) / K)) := by field_simp; ring
    rw [this, abs_neg, abs_mul, abs_of_nonneg (div_nonneg (by linarith) hK.le)]
    calc |A| * ((1 - K) / K) ≤ (K * B) * ((1 - K) / K) :=
          mul_le_mul_of_nonneg_right hAle (div_nonneg (by linarith) hK.le)
      _ = (1 - K) * B := by field_simp
  calc |A + D - A / K| = |(A - A / K) + D| := by ring_nf
    _ ≤ |A - A / K| + |D| := abs_add_le _ _
    _ ≤ (1 - K) * B + (1 - K) * B := add_le_add hAK hDle
    _ = 2 * (1 - K) * B := by ring

/-- **what `trim_weights` (the default of `posterior()`) can do to an expectation**: for the model of `trim_weights` on
    the pool's weights `w`, any test function `f` bounded by `B`, the trimmed-and-renormalised estimate over the returned
    samples differs from the untrimmed self-normalised estimate by at most `2·(1 − K)·B`, `K` the normalised weight mass of
    the particles that were kept. -/
theorem C01_trim_bias_bound {σ : Type} (samples : List σ) (w : List ℝ) (e : ℝ) (bins : Nat)
    (h0 : ∀ x ∈ w, 0 ≤ x) (hs : 0 < w.sum) (hl : samples.length = w.length)
    (s' : List σ) (w' : List ℝ) (h : trim samples w e bins = some (s', w')) (f : σ → ℝ) (B : ℝ)
    (hB : ∀ x ∈ samples, |f x| ≤ B) :
    ∃ K : ℝ, 0 < K ∧ K ≤ 1 ∧
      |(List.zipWith (· * ·) (Model.Ess.normalise w) (samples.map f)).sum
          - (List.zipWith (· * ·) w' (s'.map f)).sum| ≤ 2 * (1 - K) * B := by
  obtain ⟨θ, j, hj, hp, hh⟩ := Props.C20.C20_trim_upper_set samples w e bins s' w' h
  simp only at hh
  obtain ⟨hs', hw', hfil⟩ := hh
  obtain ⟨h1, hnn, _, hne⟩ := Props.C20.wn_facts w h0 hs
  set m := (Model.Ess.normalise w).map (fun x => Sc.le θ x) with hm
  have hK : 0 < (filterMask (Model.Ess.normalise w) m).sum := by
    rw [hfil]
    exact Props.C20.kept_sum_pos (Model.Ess.normalise w) h1 hnn hne _ θ (Props.C20.linspace_range bins j hj).1 hp
  have hlen : (Model.Ess.normalise w).length = m.length := by simp [hm]
  have hlenf : (samples.map f).length = m.length := by
    simp only [hm, List.length_map, hl, Props.C20.normalise_def]
  have hsne : samples ≠ [] := by
    intro hnil; rw [hnil] at hl; simp at hl
    exact hne (by rw [Props.C20.normalise_def]; simp [List.length_eq_zero_iff.mp hl.symm])
  have hB0 : 0 ≤ B := le_trans (abs_nonneg _) (hB (samples.head hsne) (List.head_mem hsne))
  have hmap : filterMask (samples.map f) m = (filterMask samples m).map f := by
    have : ∀ (l : List σ) (mm : List Bool), filterMask (l.map f) mm = (filterMask l mm).map f := by
      intro l
      induction l with
      | nil => intro mm; simp [filterMask]
      | cons a as ih => intro mm; cases mm with
        | nil => simp [filterMask]
        | cons b bs => cases b <;> simp [filterMask, ih]
    exact this samples m
  have core := trim_bias_core (Model.Ess.normalise w) (samples.map f) m B hB0 hnn h1
    (by intro y hy; obtain ⟨x, hx, rfl⟩ := List.mem_map.mp hy; exact hB x hx) hlen hlenf hK
  refine ⟨(filterMask (Model.Ess.normalise w) m).sum, hK, ?_, ?_⟩
  · have hd := (dot_split (Model.Ess.normalise w) (samples.map f) m hlen hlenf).2
    have : 0 ≤ (filterMask (Model.Ess.normalise w) (m.map (!·))).sum :=
      List.sum_nonneg (filterMask_forall _ _ _ hnn)
    rw [h1] at hd; linarith
  · rw [hw', hs', ← hmap]; exact core

end trimbound

/-! ### … and how much mass can the default trimming drop?  At most `1 − ess_trim`. -/
section keptmass
open Model.Trim Model.Ess

theorem sumSq_eq_dot (l : List ℝ) : sumSq l = (List.zipWith (· * ·) l l).sum := by
  rw [Props.C20.sumSq_def, List.zipWith_self]

theorem dot_ge_of_ge (θ : ℝ) : ∀ l : List ℝ, (∀ x ∈ l, 0 ≤ x ∧ θ ≤ x) → θ * l.sum ≤ (List.zipWith (· * ·) l l).sum := by
  intro l
  induction l with
  | nil => intro _; simp
  | cons x xs ih =>
    intro h
    obtain ⟨h0, h1⟩ := h x (by simp)
    have := ih fun y hy => h y (by simp [hy])
    simp only [List.sum_cons, List.zipWith_cons_cons]
    nlinarith [mul_nonneg h0 (sub_nonneg.mpr h1)]

theorem dot_le_of_le (θ : ℝ) : ∀ l : List ℝ, (∀ x ∈ l, 0 ≤ x ∧ x ≤ θ) → (List.zipWith (· * ·) l l).sum ≤ θ * l.sum := by
  intro l
  induction l with
  | nil => intro _; simp
  | cons x xs ih =>
    intro h
    obtain ⟨h0, h1⟩ := h x (by simp)
    have := ih fun y hy => h y (by simp [hy])
    simp only [List.sum_cons, List.zipWith_cons_cons]
    nlinarith [mul_nonneg h0 (sub_nonneg.mpr h1)]

theorem filterMask_map_self (θ : ℝ) : ∀ l : List ℝ, filterMask l (l.map fun x => Sc.le θ x) = l.filter (fun x => decide (θ ≤ x)) ∧
    filterMask l ((l.map fun x => Sc.le θ x).map (!·)) = l.filter (fun x => decide (x < θ)) := by
  intro l
  induction l with
  | nil => exact ⟨rfl, rfl⟩
  | cons x xs ih =>
    obtain ⟨i1, i2⟩ := ih
    by_cases hx : θ ≤ x
    · have h1 : Sc.le θ x = true := by simpa using hx
      have h2 : ¬ x < θ := not_lt.mpr hx
      constructor
      · simp only [List.map_cons, filterMask, h1, if_true, i1, List.filter_cons, hx, decide_true]
      · simp only [List.map_cons, filterMask, h1, Bool.not_true, Bool.false_eq_true, if_false, i2, List.filter_cons, h2,
          decide_false]
    · have h1 : Sc.le θ x = false := by simpa using hx
      have h2 : x < θ := not_le.mp hx
      constructor
      · simp only [List.map_cons, filterMask, h1, Bool.false_eq_true, if_false, i1, List.filter_cons, hx, decide_false]
      · simp only [List.map_cons, filterMask, h1, Bool.not_false, if_true, i2, List.filter_cons, h2, decide_true]

/-- for an upper-set mask `x ≥ θ` of normalised weights, the ESS ratio of the renormalised kept part to the whole is at most
    the kept mass `K` (the kept weights are the large ones, so they carry at least their share of `Σ w²`) -/
theorem ess_ratio_le_kept (wn : List ℝ) (h0 : ∀ x ∈ wn, 0 ≤ x) (h1 : wn.sum = 1) (θ : ℝ)
    (hK : 0 < (filterMask wn (wn.map fun x => Sc.le θ x)).sum) :
    1 / sumSq (normalise (filterMask wn (wn.map fun x => Sc.le θ x))) / (1 / sumSq wn)
      ≤ (filterMask wn (wn.map fun x => Sc.le θ x)).sum := by
  set m := wn.map fun x => Sc.le θ x with hm
  set kept := filterMask wn m with hkept
  set K := kept.sum with hKd
  obtain ⟨s1, s2⟩ := dot_split wn wn m (by simp [hm]) (by simp [hm])
  obtain ⟨f1, f2⟩ := filterMask_map_self θ wn
  have hk : ∀ x ∈ kept, 0 ≤ x ∧ θ ≤ x := by
    intro x hx
    rw [hkept, hm, f1, List.mem_filter] at hx
    exact ⟨h0 x hx.1, by simpa using hx.2⟩
  have hd : ∀ x ∈ filterMask wn (m.map (!·)), 0 ≤ x ∧ x ≤ θ := by
    intro x hx
    rw [hm, f2, List.mem_filter] at hx
    exact ⟨h0 x hx.1, le_of_lt (by simpa using hx.2)⟩
  have hSk := dot_ge_of_ge θ kept hk
  have hSd := dot_le_of_le θ _ hd
  have hdsum : (filterMask wn (m.map (!·))).sum = 1 - K := by rw [h1] at s2; linarith
  have hd0 : 0 ≤ 1 - K := by rw [← hdsum]; exact List.sum_nonneg fun x hx => (hd x hx).1
  set Sk := (List.zipWith (· * ·) kept kept).sum with hSkd
  set Sd := (List.zipWith (· * ·) (filterMask wn (m.map (!·))) (filterMask wn (m.map (!·)))).sum with hSdd
  rw [hdsum] at hSd
  have hSkpos : 0 < Sk := by
    -- some kept weight is positive (their sum is), so the sum of squares is
    by_contra hne
    have hle : Sk ≤ 0 := not_lt.mp hne
    have hsq : ∀ x ∈ kept, x = 0 := by
      intro x hx
      have hnn : ∀ y ∈ kept.map (fun y => y * y), 0 ≤ y := by
        intro y hy; obtain ⟨z, _, rfl⟩ := List.mem_map.mp hy; exact mul_self_nonneg z
      have hS : Sk = (kept.map fun y => y * y).sum := by
        rw [hSkd, ← sumSq_eq_dot, Props.C20.sumSq_def]
      have hxx : x * x ≤ (kept.map fun y => y * y).sum := List.single_le_sum hnn _ (List.mem_map.mpr ⟨x, hx, rfl⟩)
      have : x * x ≤ 0 := by linarith
      exact mul_self_eq_zero.mp (le_antisymm this (mul_self_nonneg x))
    have : kept.sum = 0 := List.sum_eq_zero hsq
    linarith
  have hcomm : ∀ (a b : List ℝ), (List.zipWith (· * ·) a b).sum = (List.zipWith (· * ·) b a).sum := by
    intro a
    induction a with
    | nil => intro b; simp
    | cons x xs ih => intro b; cases b with
      | nil => simp
      | cons y ys => simp only [List.zipWith_cons_cons, List.sum_cons, ih ys, mul_comm]
  have hnormSq : sumSq (normalise kept) = Sk / K / K := by
    rw [sumSq_eq_dot, Props.C20.normalise_def]
    show (List.zipWith (· * ·) (kept.map fun x => x / K) (kept.map fun x => x / K)).sum = Sk / K / K
    rw [zipWith_div_sum, hcomm, zipWith_div_sum]
  have hSd0 : 0 ≤ Sd := by
    have := dot_ge_of_ge 0 _ (fun x hx => ⟨(hd x hx).1, (hd x hx).1⟩)
    rw [zero_mul] at this
    exact this
  have hwn : sumSq wn = Sk + Sd := by rw [sumSq_eq_dot, s1]
  rw [hnormSq, hwn]
  have hgoal : (Sk + Sd) * K ≤ Sk := by nlinarith
  have hKne : K ≠ 0 := hK.ne'
  have hSkne : Sk ≠ 0 := hSkpos.ne'
  have hsum : Sk + Sd ≠ 0 := by positivity
  rw [show 1 / (Sk / K / K) / (1 / (Sk + Sd)) = (Sk + Sd) * K * K / Sk by field_simp]
  rw [div_le_iff₀ hSkpos]
  nlinarith

/-- **the default trimming keeps at least the fraction `ess_trim` of the weight mass** (`ess_trim ≤ 1`): the particles
    `trim_weights` returns carry normalised weight `K ≥ ess_trim` — so, with `C01_trim_bias_bound`, the default
    `posterior()` (ess_trim = 0.99) moves the estimate of any test function bounded by `B` by at most `2·(1−0.99)·B`. -/
theorem C01_trim_bias_le_ess {σ : Type} (samples : List σ) (w : List ℝ) (e : ℝ) (bins : Nat) (he : e ≤ 1)
    (h0 : ∀ x ∈ w, 0 ≤ x) (hs : 0 < w.sum) (hl : samples.length = w.length)
    (s' : List σ) (w' : List ℝ) (h : trim samples w e bins = some (s', w')) (f : σ → ℝ) (B : ℝ)
    (hB : ∀ x ∈ samples, |f x| ≤ B) :
    |(List.zipWith (· * ·) (normalise w) (samples.map f)).sum - (List.zipWith (· * ·) w' (s'.map f)).sum|
      ≤ 2 * (1 - e) * B := by
  obtain ⟨h1, hnn, _, hne⟩ := Props.C20.wn_facts w h0 hs
  obtain ⟨j, st, hj, hstep, hs', hw', hr, _⟩ := Props.C20.C20_trim_maximal samples w e bins s' w' h
  obtain ⟨hp, hm, hwt, hratio⟩ := Props.C20.step_spec _ _ _ _ _ hstep
  have hsne : samples ≠ [] := by
    intro hnil; rw [hnil] at hl; simp at hl
    exact hne (by rw [Props.C20.normalise_def]; simp [List.length_eq_zero_iff.mp hl.symm])
  have hB0 : 0 ≤ B := le_trans (abs_nonneg _) (hB (samples.head hsne) (List.head_mem hsne))
  set m := (normalise w).map (fun x => Sc.le st.thr x) with hmd
  have hKpos : 0 < (filterMask (normalise w) m).sum := by
    have hj' : j < bins := hj
    rw [(filterMask_map_self st.thr (normalise w)).1]
    exact Props.C20.kept_sum_pos (normalise w) h1 hnn hne _ st.thr (Props.C20.linspace_range bins j hj').1 hp
  -- kept mass ≥ e
  have hKe : e ≤ (filterMask (normalise w) m).sum := by
    rcases hr with hr | hj0
    · have hle := ess_ratio_le_kept (normalise w) hnn h1 st.thr hKpos
      have hessw : ess w = 1 / sumSq (normalise w) := by simp [Model.Ess.ess]
      rw [hratio, hwt, hm, hessw] at hr
      exact le_trans hr hle
    · subst hj0
      obtain ⟨hmask, _, _⟩ := Props.C20.step_zero w h0 hs bins st hstep
      have : filterMask (normalise w) m = normalise w := by
        rw [← hm, hmask, Props.C20.filterMask_all_true]
      rw [this, h1]; exact he
  have hlen : (normalise w).length = m.length := by simp [hmd]
  have hlenf : (samples.map f).length = m.length := by simp only [hmd, List.length_map, hl, Props.C20.normalise_def]
  have hmap : ∀ (l : List σ) (mm : List Bool), filterMask (l.map f) mm = (filterMask l mm).map f := by
    intro l
    induction l with
    | nil => intro mm; simp [filterMask]
    | cons a as ih => intro mm; cases mm with
      | nil => simp [filterMask]
      | cons b bs => cases b <;> simp [filterMask, ih]
  have core := trim_bias_core (normalise w) (samples.map f) m B hB0 hnn h1
    (by intro y hy; obtain ⟨x, hx, rfl⟩ := List.mem_map.mp hy; exact hB x hx) hlen hlenf hKpos
  rw [hw', hwt, hs', hm, ← hmap]
  refine le_trans core ?_
  have : 1 - (filterMask (normalise w) m).sum ≤ 1 - e := by linarith
  nlinarith

end keptmass

/-! ### the warm-up after the repair of F8 (`Mutator.run` redraws a batch without a finite draw; `logz = log(n_fin / n_drawn)`) -/

/-- without a redraw (`disc = 0`) the repaired warm-up is the one `Model.Pipeline.iterate` has always had -/
theorem warmupR_zero {α : Type} [ScT α] (t : Tape α) (z : α) : warmupR t 0 z = warmup t z := by
  simp [warmupR, warmup]

theorem iterateW_warmup {α : Type} [ScT α] (c : PCfg α) (s : PState α) (t : Tape α) :
    iterateW warmup c s t = iterate c s t := rfl

/-- … hence `iterateR … 0 = iterate`: every theorem about `iterate` / `runIters` (C01, C02, C05, C10, C11) is a theorem about
    the sampler as it is now on all iterations that did not redraw -/
theorem C01_iterateR_no_redraw {α : Type} [ScT α] (c : PCfg α) (s : PState α) (t : Tape α) :
    iterateR c s t 0 = iterate c s t := by
  have : (fun (t : Tape α) (z : α) => warmupR t 0 z) = warmup := by funext t z; exact warmupR_zero t z
  simp only [iterateR, this]; rfl

/-- with a redraw the stored batch is the last block, whole records are copied as before, and the evidence recorded for the
    batch is `log(n_finite / n_drawn)` over ALL draws of the iteration, the discarded ones included -/
theorem C01_warmupR_logz (t : Tape ℝ) (disc : Nat) (z : ℝ) (hd : 0 < disc) :
    (warmupR t disc z).2.2 = Real.log ((countSome t.drawL : ℝ) / ((t.drawL.length + disc : ℕ) : ℝ)) := by
  simp [warmupR, hd]

example : (warmupR (⟨[7, 8], [some 0, none], [0], [], []⟩ : Tape ℝ) 4 0).2.2 = Real.log ((1 : ℝ) / 6) := by
  rw [C01_warmupR_logz _ 4 0 (by norm_num)]
  norm_num [countSome]

/-- **the supported-fraction estimate after the repair is biased upward for tiny batches**: with one particle per batch and
    half of the prior mass supported, the number K of batches drawn until the first finite draw is geometric(1/2), the
    recorded fraction is `1/K`, and its expectation `Σ_k (1/2)^k / k` is `log 2 ≈ 0.693`, not `1/2`.
    (In general: on the event that the first batch has a finite draw, probability `1 − q^n`, nothing changes and the
    contribution to the mean is exactly the supported fraction `f`; on its complement the recorded value lies in `(0, 1/2]`; so
    the bias is positive and at most `q^n / 2` — negligible unless `n·f` is small.) -/
theorem C01_redraw_fraction_biased :
    HasSum (fun k : ℕ => ((1 : ℝ) / 2) ^ (k + 1) / ((k : ℝ) + 1)) (Real.log 2) ∧ (1 : ℝ) / 2 < Real.log 2 := by
  constructor
  · have h := Real.hasSum_pow_div_log_of_abs_lt_one (x := (1 : ℝ) / 2) (by rw [abs_of_pos] <;> norm_num)
    have h2 : -Real.log (1 - 1 / 2) = Real.log 2 := by
      rw [show (1 : ℝ) - 1 / 2 = 2⁻¹ by norm_num, Real.log_inv, neg_neg]
    rw [h2] at h
    exact h
  · have := Real.log_two_gt_d9
    linarith

/-! ### non-vacuity: a concrete two-iteration run of the extended model (ℝ)

  warm-up (two prior draws u = 1/4, 3/4, log-likelihood 0), then one annealing iteration at β = 1: systematic resampling,
  random-walk kernel with one fitted mode, ONE step in which walker 0's proposal (0.488) is accepted and walker 1's
  (log-likelihood −∞) is rejected, step size adapted from 2.38 to 2.513, stopping rule satisfied after that step. -/

noncomputable def X_cfgX : XCfg ℝ := ⟨⟨1/2, 2, none, 1/100, 1/10000, 64⟩, true, Kind.rwm, 1, 1, 1, [], []⟩
noncomputable def X_t1 : XTape ℝ := ⟨[[1/4], [3/4]], [some 0, some 0], [], [], [], [], [], [], 0⟩
noncomputable def X_modeX : Mode ℝ := ⟨[1/2], [[1/10]], [[100]], 1⟩
noncomputable def X_stX : XStep ℝ := ⟨[1, 1], [[1], [-1]], [some 0, none], [1/2, 1/2]⟩
noncomputable def X_t2 : XTape ℝ := ⟨[], [], [], [1/2], [], [X_modeX], [0, 0], [X_stX], 0⟩
noncomputable def X_s1 : XState ℝ := ⟨[⟨⟨0, 0, [0, 0]⟩, [[1/4], [3/4]]⟩], 0, 0, [[1/4], [3/4]], [0, 0]⟩
noncomputable def X_z1 : ℝ := oracleZ (Model.PipelineX.batches X_s1.hist) 1
noncomputable def X_mX : MRes ℝ :=
  ⟨[[61/125], [3/4]], [0, 0], [[true, false]], [2513/1000], 1, [1, 0], [[[61/125], [64/125]]], 0⟩
noncomputable def X_s2 : XState ℝ :=
  ⟨X_s1.hist ++ [⟨⟨1, X_z1, [0, 0]⟩, [[61/125], [3/4]]⟩], 1, X_z1, [[61/125], [3/4]], [0, 0]⟩
noncomputable def X_o1 : XOut ℝ := ⟨0, 1, 0, 0, [], [], Branch.firstIter, 1, [], 1, 1, []⟩

theorem X_it1 : iterateX X_cfgX initX X_t1 = some (X_s1, X_o1) := by
  have hr : List.range 2 = [0, 1] := by decide
  simp [iterateX, initX, Model.PipelineX.batches, Model.Reweight.run, covered, eqv, warmupX, warmupR, X_t1, countSome,
    allSome, X_s1, X_o1, X_cfgX, Cfg.target, hr, Model.Records.gather?]

theorem X_batches_eq : Model.PipelineX.batches X_s1.hist = Model.Pipeline.batches Lemmas.PipelineShift.Ex.s1.hist := by
  simp [Model.PipelineX.batches, Model.Pipeline.batches, X_s1, Lemmas.PipelineShift.Ex.s1]

theorem X_rw2 : Model.Reweight.run X_cfgX.rw (Model.PipelineX.batches X_s1.hist).isEmpty
      (oracleMX X_cfgX.rw.vv.isSome (Model.PipelineX.batches X_s1.hist) X_t2.metric)
      (oracleZ (Model.PipelineX.batches X_s1.hist)) isFin X_s1.beta
    = ⟨1, .of [1, 1], 2, X_z1, Branch.essUpper, [Branch.upOne], [0, 1, 0, 1], [1]⟩ := by
  have hM : oracleMX X_cfgX.rw.vv.isSome (Model.PipelineX.batches X_s1.hist) X_t2.metric = fun _ => ([1, 1], 2, 2) := by
    funext β
    simp only [oracleMX, X_batches_eq, Lemmas.PipelineShift.Ex.oM, X_cfgX, Option.isSome_none, Bool.false_eq_true, if_false]
  rw [hM]
  simp [Model.Reweight.run, X_cfgX, runEss, upperLimit, finalize, Cfg.target, X_s1, Model.PipelineX.batches, X_z1]

theorem X_sigma0_one : (sigma0 1 : ℝ) = 119 / 50 := by
  simp [sigma0]; norm_num

theorem X_cb (x : ℝ) (h0 : 0 ≤ x) (h1 : x ≤ 1) : Model.Boundary.checkBounds [] [] [x] = true := by
  have hr : List.range 1 = [0] := by decide
  simp [Model.Boundary.checkBounds, hr, Model.Boundary.inUnit, h0, h1]

theorem X_mc2 : mcmcX X_cfgX 1 [X_modeX] [0, 0] 0 (initSigmas X_cfgX.kind 1 X_cfgX.d) [[1/4], [3/4]] [0, 0] [X_stX] = some X_mX := by
  have hs0 : (sigma0 X_cfgX.d : ℝ) = 119 / 50 := X_sigma0_one
  have hinit : (initSigmas X_cfgX.kind 1 X_cfgX.d : List ℝ) = [119 / 50] := by
    simp [initSigmas, X_cfgX, X_sigma0_one]
  have hc1 : Model.Boundary.checkBounds [] [] [(61:ℝ)/125] = true := X_cb _ (by norm_num) (by norm_num)
  have hc2 : Model.Boundary.checkBounds [] [] [(64:ℝ)/125] = true := X_cb _ (by norm_num) (by norm_num)
  have hp1 : rwmProposal [(1:ℝ)/4] [[1/10]] (119/50) [1] = [61/125] := by
    simp [rwmProposal, vadd, matVec, scaleMat, dotv, Sc.sum]; norm_num
  have hp2 : rwmProposal [(3:ℝ)/4] [[1/10]] (119/50) [-1] = [64/125] := by
    simp [rwmProposal, vadd, matVec, scaleMat, dotv, Sc.sum]; norm_num
  have hstep : stepX X_cfgX 1 [X_modeX] [0, 0] 1 [119/50] [[1/4], [3/4]] [0, 0] X_stX
      = some ⟨[[61/125], [3/4]], [0, 0], [2513/1000], [true, false], [1, 0], [[61/125], [64/125]]⟩ := by
    simp only [stepX, X_stX, mkWalkers, Option.map_some, Option.bind_some, List.map_cons, List.map_nil, List.mapM_cons,
      List.mapM_nil, wx, walkerStep, walkerInput, X_modeX, X_cfgX]
    simp [step, Model.Kernel.finish, Model.Boundary.apply, boundedAlpha, acceptProb, acceptDecision,
      rwmLogFactor, Model.Kernel.npMinimum, Model.Kernel.nanToZero, adaptAll, clusterAlphas, Model.Kernel.mean, adaptOne,
      rwmAdapt, adaptRaw, Sc.sum]
    have hp1' : rwmProposal [(4:ℝ)⁻¹] [[10⁻¹]] (119/50) [1] = [61/125] := by
      have : (4:ℝ)⁻¹ = 1/4 := by norm_num
      have h10 : (10:ℝ)⁻¹ = 1/10 := by norm_num
      rw [this, h10]; exact hp1
    have hp2' : rwmProposal [(3:ℝ)/4] [[10⁻¹]] (119/50) [-1] = [64/125] := by
      have h10 : (10:ℝ)⁻¹ = 1/10 := by norm_num
      rw [h10]; exact hp2
    simp only [hp1', hp2', hc1, if_true]
    norm_num
  have hconv : Model.Steps.converged X_cfgX.nSteps X_cfgX.nMax X_cfgX.d 1 (accRate [true, false])
      (weightedSigma [(2513:ℝ)/1000] (clusterSizes 1 [0, 0])) (sigma0 X_cfgX.d) = true := by
    have hr : List.range 1 = [0] := by decide
    simp only [Model.Steps.converged, Model.Steps.adaptiveSteps, Model.Steps.adaptiveRaw, X_cfgX, ScReal.le_def,
      ScReal.floor_def, ScReal.min_def, ScReal.max_def, ScReal.ofNat_def, Nat.mul_one, Nat.cast_one]
    have : min (max (1:ℝ) (1 * (Sc.div (Sc.lit 234 3) (max (Sc.lit 1 2) (accRate [true, false]))) *
        (Sc.mul (Sc.div (sigma0 1) (max (Sc.lit 1 6) (weightedSigma [(2513:ℝ)/1000] (clusterSizes 1 [0, 0]))))
          (Sc.div (sigma0 1) (max (Sc.lit 1 6) (weightedSigma [(2513:ℝ)/1000] (clusterSizes 1 [0, 0]))))))) 1 = 1 :=
      min_eq_right (le_max_left _ _)
    simp only [ScReal.mul_def] at this ⊢
    rw [this]; simp
  simp only [mcmcX, hinit, hstep, Option.bind_some, List.length_cons, List.length_nil, Nat.zero_add]
  rw [if_pos hconv]
  rfl

theorem X_it2 : iterateX X_cfgX X_s1 X_t2 = some (X_s2, ⟨1, 2, X_z1, X_z1, [0, 1], [[true, false]], Branch.essUpper, 1, [2513/1000],
    Model.Kernel.mean [1, 0], Sc.div (Model.Kernel.mean [(2513:ℝ)/1000]) (sigma0 1), [[[61/125], [64/125]]]⟩) := by
  unfold iterateX
  simp only [X_rw2]
  have hcov : covered X_cfgX.rw.vv.isSome X_t2.metric [0, 1, 0, 1] = true := by simp [covered, X_cfgX]
  have h10 : eqv (1 : ℝ) Sc.zero = false := by simp [eqv]
  have hsy : X_cfgX.syst = true := rfl
  have hn : X_cfgX.rw.nPart = 2 := rfl
  have hu : X_t2.resU = [1/2] := rfl
  simp only [hcov, Bool.not_true, Bool.false_eq_true, if_false, h10, hsy, hn, hu, if_true, Lemmas.PipelineShift.Ex.rs2,
    Option.bind_some]
  have hg1 : Model.Records.gather? (poolU X_s1.hist) [0, 1] = some [[1/4], [3/4]] := by
    simp [Model.Records.gather?, poolU, X_s1]
  have hg2 : Model.Records.gather? (flatLogl (Model.PipelineX.batches X_s1.hist)) [0, 1] = some [0, 0] := by
    simp [Model.Records.gather?, flatLogl, Model.PipelineX.batches, X_s1]
  have hm : X_t2.modes = [X_modeX] := rfl
  have ha : X_t2.assign = [0, 0] := rfl
  have hst : X_t2.steps = [X_stX] := rfl
  simp only [hg1, hg2, Option.bind_some, hm, ha, hst, List.length_cons, List.length_nil, Nat.zero_add, X_mc2]
  rfl

noncomputable def X_o2 : XOut ℝ := ⟨1, 2, X_z1, X_z1, [0, 1], [[true, false]], Branch.essUpper, 1, [2513/1000],
    Model.Kernel.mean [1, 0], Sc.div (Model.Kernel.mean [(2513:ℝ)/1000]) (sigma0 1), [[[61/125], [64/125]]]⟩

theorem X_run2 : runItersX X_cfgX initX [X_t1, X_t2] = some (X_s2, [X_o1, X_o2]) := by
  simp [runItersX, X_it1, X_it2, X_o2]

theorem X_wf_s2 : Props.C04.WF (Model.PipelineX.batches X_s2.hist) := by
  refine ⟨by simp [X_s2, X_s1, Model.PipelineX.batches], ?_⟩
  intro b hb
  simp only [X_s2, X_s1, Model.PipelineX.batches, List.cons_append, List.nil_append, List.map_cons, List.map_nil,
    List.mem_cons, List.not_mem_nil, or_false] at hb
  rcases hb with rfl | rfl <;> simp


example : X_s2.hist = X_s1.hist ++ [⟨⟨X_o2.beta, X_o2.logz, X_s2.curL⟩, X_s2.curU⟩] ∧ X_s2.beta = X_o2.beta ∧ X_s2.logz = X_o2.logz :=
  C01_X_commit_appends_one X_cfgX X_s1 X_t2 X_s2 X_o2 X_it2
/-- the annealing iteration of the example: β = 1 ≠ 0, all clauses exercised -/
example : X_o2.ess = (oracleM (Model.PipelineX.batches X_s1.hist) X_o2.beta).2.1 ∧
    X_o2.logzRw = oracleZ (Model.PipelineX.batches X_s1.hist) X_o2.beta ∧
    (X_o2.beta ≠ 0 →
      resampledX X_cfgX X_t2 (Model.Ess.normalise (oracleM (Model.PipelineX.batches X_s1.hist) X_o2.beta).1) = some X_o2.idx ∧
      ∃ us l m, Model.Records.gather? (poolU X_s1.hist) X_o2.idx = some us ∧
        Model.Records.gather? (flatLogl (Model.PipelineX.batches X_s1.hist)) X_o2.idx = some l ∧
        mcmcX X_cfgX X_o2.beta X_t2.modes X_t2.assign 0 (initSigmas X_cfgX.kind X_t2.modes.length X_cfgX.d) us l X_t2.steps = some m ∧
        X_s2.curU = m.us ∧ X_s2.curL = m.ls ∧ X_o2.masks = m.masks ∧ X_o2.nsteps = m.nsteps ∧ X_o2.sigmas = m.sigmas ∧
        X_o2.logz = oracleZ (Model.PipelineX.batches X_s1.hist) X_o2.beta) :=
  C01_X_same_temperature X_cfgX X_s1 X_t2 X_s2 X_o2 (by simp [X_s1]) X_it2
example : (∀ o, [X_o1, X_o2][0]? = some o → o.beta = 0) ∧ (∀ o ∈ [X_o1, X_o2], 0 ≤ o.beta ∧ o.beta ≤ 1) ∧
    (∀ k a b, [X_o1, X_o2][k]? = some a → [X_o1, X_o2][k+1]? = some b → a.beta ≤ b.beta) :=
  C01_X_schedule X_cfgX [X_t1, X_t2] X_s2 [X_o1, X_o2] X_run2
example : ∃ xb rest, X_s2.hist = xb :: rest ∧ xb.b.beta = 0 :=
  C01_X_run_first_batch_beta_zero X_cfgX X_t1 [X_t2] X_s2 [X_o1, X_o2] X_run2
example : X_mX.nsteps = 1 ∧ X_mX.leftover = 0 := ⟨rfl, rfl⟩
example : 0 + 1 ≤ X_mX.nsteps ∧ X_mX.nsteps + X_mX.leftover = 0 + [X_stX].length ∧ X_mX.masks.length = X_mX.nsteps - 0 :=
  mcmcX_nsteps X_cfgX 1 [X_modeX] [0, 0] [X_stX] 0 _ _ _ X_mX X_mc2

/-- `posterior(resample=False, trim_importance_weights=False)` is defined on every well-formed history -/
theorem posteriorX_plain_some (s : XState ℝ) (hwf : Props.C04.WF (Model.PipelineX.batches s.hist))
    (e : ℝ) (bins : Nat) (u0 : ℝ) (rb rl : Bool) :
    ∃ a, posteriorX s e bins u0 ⟨false, false, rb, rl⟩ = some a := by
  have hne : (logw (Model.PipelineX.batches s.hist) 1 true).1 ≠ [] := by
    rw [Props.C04.C04_normalised _ hwf 1]
    intro h
    exact Props.C04.flatLogl_ne_nil _ hwf (List.map_eq_nil_iff.mp h)
  obtain ⟨w0, hw0, _⟩ := Props.C12.weights0_facts _ hne
  refine ⟨{ posteriorArrs s with w := w0 }, ?_⟩
  simp only [posteriorX, Model.Posterior.posterior, posteriorArrs, ScReal.one_def, hw0, Bool.false_eq_true, if_false,
    Option.bind_some, Model.Posterior.body]

/-- the weights the user receives after the concrete run: 4 stored particles, self-normalised mixture weights -/
example : ∃ a, posteriorX X_s2 (99/100) 1000 0 ⟨false, false, false, true⟩ = some a ∧
    a.x = List.range (nTotal (Model.PipelineX.batches X_s2.hist)) ∧
    a.w = (flatLogl (Model.PipelineX.batches X_s2.hist)).map fun l =>
      Real.exp (Props.C04.specRaw (Model.PipelineX.batches X_s2.hist) 1 l) / Props.C04.sumW (Model.PipelineX.batches X_s2.hist) 1 := by
  obtain ⟨a, ha⟩ := posteriorX_plain_some X_s2 X_wf_s2 (99/100) 1000 0 false true
  obtain ⟨h1, _, h3⟩ := C01_posterior_selfnormalised X_s2 X_wf_s2 _ _ _ _ _ a ha
  exact ⟨a, ha, h1, h3⟩
example : nTotal (Model.PipelineX.batches X_s2.hist) = 4 := by simp [X_s2, X_s1, Model.PipelineX.batches, nTotal]
example (fs : List ℝ) : ∃ a, posteriorX X_s2 (99/100) 1000 0 ⟨false, false, false, true⟩ = some a ∧
    (List.zipWith (· * ·) a.w fs).sum
      = (List.zipWith (· * ·) ((flatLogl (Model.PipelineX.batches X_s2.hist)).map fun l =>
            Real.exp (Props.C04.specRaw (Model.PipelineX.batches X_s2.hist) 1 l)) fs).sum
        / Props.C04.sumW (Model.PipelineX.batches X_s2.hist) 1 := by
  obtain ⟨a, ha⟩ := posteriorX_plain_some X_s2 X_wf_s2 (99/100) 1000 0 false true
  exact ⟨a, ha, (C01_posterior_estimate_is_ratio X_s2 X_wf_s2 _ _ _ _ _ a ha fs).1⟩

/-! non-vacuity of the walker rule and of the step-size range -/
/-- walker 0 of the example step: accepted, inside the cube, finite log-likelihood, stored with it -/
example : ∃ o, wx ⟨Kind.rwm, [X_modeX], [119/50], 1, [], [], 1, 119/50, []⟩ ⟨[1/4], 0, 0, 0, 1, 1/2, [1]⟩ (some 0) = some o ∧
    o.accept = true ∧ o.u = [61/125] ∧ o.l = 0 := by
  have hc1 : Model.Boundary.checkBounds [] [] [(61:ℝ)/125] = true := X_cb _ (by norm_num) (by norm_num)
  have hp1 : rwmProposal [(4:ℝ)⁻¹] [[10⁻¹]] (119/50) [1] = [61/125] := by
    simp [rwmProposal, vadd, matVec, scaleMat, dotv, Sc.sum]; norm_num
  refine ⟨⟨[61/125], true, 1, true, [61/125], 0⟩, ?_, rfl, rfl, rfl⟩
  simp only [wx, walkerStep, walkerInput, X_modeX, List.getElem?_cons_zero, Option.map_some]
  simp [step, Model.Kernel.finish, Model.Boundary.apply, boundedAlpha, acceptProb, acceptDecision, rwmLogFactor,
    Model.Kernel.npMinimum, Model.Kernel.nanToZero]
  simp only [hp1, hc1, if_true]
  norm_num
example : ∀ s ∈ (initSigmas Kind.tpcn 3 2 : List ℝ), SigOK (sigma0 2) s := initSigmas_ok 3 2
/-- one adaptation of a two-mode tpCN ensemble whose second mode has no walker: both step sizes stay in range -/
example : ∀ s ∈ adaptAll (⟨Kind.tpcn, [], [99/100, 1/2], 1, [], [], 3, 119/50, [⟨[1/2], 0, 0, 0, 1, 1/2, [0]⟩]⟩ : RunIn ℝ) [1],
    SigOK (119/50) s :=
  adaptAll_ok _ _ rfl (by norm_num) (by
    intro s hs
    simp only [List.mem_cons, List.not_mem_nil, or_false] at hs
    rcases hs with rfl | rfl <;> constructor <;> norm_num)

/-! a concrete tpCN mutation (one walker sitting on the mode centre, zero innovation): exercises `C01_X_tpcn_sigma_range` -/
noncomputable def T_cfgT : XCfg ℝ := ⟨⟨1/2, 1, none, 1/100, 1/10000, 64⟩, true, Kind.tpcn, 1, 1, 1, [], []⟩
noncomputable def T_stT : XStep ℝ := ⟨[1], [[0]], [some 0], [1/2]⟩
noncomputable def T_mT : MRes ℝ := ⟨[[1/2]], [0], [[true]], [99/100], 1, [1], [[[1/2]]], 0⟩

theorem T_initT : (initSigmas T_cfgT.kind 1 T_cfgT.d : List ℝ) = [99/100] := by
  simp [initSigmas, T_cfgT, X_sigma0_one, ScReal.min_def]; norm_num

theorem T_mcT : mcmcX T_cfgT 1 [X_modeX] [0] 0 (initSigmas T_cfgT.kind 1 T_cfgT.d) [[1/2]] [0] [T_stT] = some T_mT := by
  have hs0 : (sigma0 T_cfgT.d : ℝ) = 119 / 50 := X_sigma0_one
  have hc : Model.Boundary.checkBounds [] [] [(2:ℝ)⁻¹] = true := X_cb _ (by norm_num) (by norm_num)
  have hstep : stepX T_cfgT 1 [X_modeX] [0] 1 [99/100] [[1/2]] [0] T_stT
      = some ⟨[[1/2]], [0], [99/100], [true], [1], [[1/2]]⟩ := by
    simp only [stepX, T_stT, mkWalkers, Option.map_some, Option.bind_some, List.map_cons, List.map_nil, List.mapM_cons,
      List.mapM_nil, wx, walkerStep, walkerInput, X_modeX, T_cfgT]
    simp [step, Model.Kernel.finish, Model.Boundary.apply, boundedAlpha, acceptProb, acceptDecision, tpcnProposal, vadd, vsub,
      matVec, scaleMat, dotv, Sc.sum, qform, vecMat, columns, tpcnLogFactor, Model.Kernel.npMinimum, Model.Kernel.nanToZero,
      adaptAll, clusterAlphas, Model.Kernel.mean, adaptOne, Model.Kernel.tpcnAdapt, adaptRaw, hc, ScReal.min_def, ScReal.max_def,
      X_sigma0_one]
    norm_num
  have hconv : Model.Steps.converged T_cfgT.nSteps T_cfgT.nMax T_cfgT.d 1 (accRate [true])
      (weightedSigma [(99:ℝ)/100] (clusterSizes 1 [0])) (sigma0 T_cfgT.d) = true := by
    simp only [Model.Steps.converged, Model.Steps.adaptiveSteps, Model.Steps.adaptiveRaw, T_cfgT, ScReal.le_def,
      ScReal.floor_def, ScReal.min_def, ScReal.max_def, ScReal.ofNat_def, Nat.mul_one, Nat.cast_one, ScReal.mul_def]
    rw [min_eq_right (le_max_left _ _)]; simp
  simp only [mcmcX, T_initT, hstep, Option.bind_some, List.length_cons, List.length_nil, Nat.zero_add]
  rw [if_pos hconv]
  rfl

example : ∀ s ∈ T_mT.sigmas, 0 ≤ s ∧ s < 1 :=
  C01_X_tpcn_sigma_range_iter T_cfgT rfl 1 [X_modeX] [0] [T_stT] [[1/2]] [0] T_mT T_mcT
example : (∀ s ∈ T_mT.sigmas, SigOK (sigma0 T_cfgT.d) s) ∧ (∀ s ∈ T_mT.sigmas, 0 ≤ s ∧ s < 1) :=
  C01_X_tpcn_sigma_range T_cfgT rfl 1 [X_modeX] [0] [T_stT] 0 _ [[1/2]] [0] T_mT
    (by rw [T_initT]; intro s hs; simp only [List.mem_singleton] at hs; subst hs
        show SigOK (sigma0 1) (99 / 100)
        rw [X_sigma0_one]; constructor <;> norm_num) T_mcT

/-! non-vacuity of `C01_X_completed_run`: the concrete run IS a completed `run(n_total = 2)` -/

/-- the loop tolerance `1e-4` (kept opaque so that `simp` does not rewrite the literal) -/
noncomputable def X_tolX : ℝ := 1 / 10000

theorem X_wf_s1 : Props.C04.WF (Model.PipelineX.batches X_s1.hist) := by
  refine ⟨by simp [X_s1, Model.PipelineX.batches], ?_⟩
  intro b hb
  simp only [X_s1, Model.PipelineX.batches, List.map_cons, List.map_nil, List.mem_cons, List.not_mem_nil, or_false] at hb
  subst hb; simp

theorem X_cont0 : contX X_tolX 2 (initX : XState ℝ) = true := by
  simp [contX, initX, Model.PipelineX.batches, logw, Model.Run.notTermination]

theorem X_cont1 : contX X_tolX 2 X_s1 = true := by
  have hw := Props.C04.C04_normalised (Model.PipelineX.batches X_s1.hist) X_wf_s1 1
  have hfl : flatLogl (Model.PipelineX.batches X_s1.hist) = [0, 0] := by
    simp [flatLogl, X_s1, Model.PipelineX.batches]
  rw [hfl] at hw
  simp only [contX, ScReal.one_def, hw, List.map_cons, List.map_nil, Model.Run.notTermination, Model.Run.notTerm,
    Bool.or_eq_true, ScReal.le_def, ScReal.sub_def]
  left
  simp only [X_s1, X_tolX]; norm_num

/-- at β = 1 with four stored particles of equal log-likelihood the posterior weights are equal and their ESS is 4 ≥ 2 -/
theorem X_cont2 : contX X_tolX 2 X_s2 = false := by
  have hw := Props.C04.C04_normalised (Model.PipelineX.batches X_s2.hist) X_wf_s2 1
  have hfl : flatLogl (Model.PipelineX.batches X_s2.hist) = [0, 0, 0, 0] := by
    simp [flatLogl, X_s2, X_s1, Model.PipelineX.batches]
  rw [hfl] at hw
  simp only [contX, ScReal.one_def, hw, List.map_cons, List.map_nil, Model.Run.notTermination]
  rw [Props.C12.notTerm_false_iff]
  refine ⟨by simp only [X_s2, X_tolX]; norm_num, ?_⟩
  set c := Props.C04.specNorm (Model.PipelineX.batches X_s2.hist) 1 0 with hc
  have hmax : Model.Ess.maxOf c [c, c, c] = c := by simp [Model.Ess.maxOf, ScReal.max_def]
  simp only [hmax, ScReal.sub_def, sub_self, ScReal.exp_def, Real.exp_zero]
  rw [Props.C20.ess_def]
  norm_num

noncomputable def X_z2 : ℝ := Props.C04.specLogz (Model.PipelineX.batches X_s2.hist) 1

theorem X_fe2 : finalEvidenceX X_s2 = some X_z2 := by
  simp only [finalEvidenceX, ScReal.one_def]
  exact Props.C04.C04_logz _ X_wf_s2 1 true

theorem X_runS : runSamplingX X_cfgX X_tolX 2 [X_t1, X_t2] = some ({ X_s2 with logz := X_z2 }, [X_o1, X_o2], X_z2) := by
  simp [runSamplingX, runGuardedX, X_cont0, X_cont1, X_cont2, X_it1, X_it2, X_fe2, X_o2]


example : ∃ s0, runItersX X_cfgX initX [X_t1, X_t2] = some (s0, [X_o1, X_o2]) ∧ ({ X_s2 with logz := X_z2 } : XState ℝ).hist = s0.hist ∧
      ({ X_s2 with logz := X_z2 } : XState ℝ).beta = s0.beta ∧ ({ X_s2 with logz := X_z2 } : XState ℝ).logz = X_z2 ∧
      finalEvidenceX s0 = some X_z2 ∧ 1 - ({ X_s2 with logz := X_z2 } : XState ℝ).beta < X_tolX ∧
      ∃ w0, Model.Posterior.weights0 (logw (Model.PipelineX.batches ({ X_s2 with logz := X_z2 } : XState ℝ).hist) 1 true).1 = some w0 ∧
        2 ≤ Model.Ess.ess w0 :=
  C01_X_completed_run X_cfgX X_tolX 2 [X_t1, X_t2] _ _ X_z2 X_runS

/-- non-vacuity of `C01_trim_bias_bound`: pool weights (1, 2, 5), the default call `ess = 0.99`, `bins = 1000`, the test
    function `f = identity` on the values 0, 1, 2 (bounded by 2): a result exists and the bound applies to it -/
example : ∃ s' w' K, Model.Trim.trim [(0:ℝ), 1, 2] [1, 2, 5] (99/100) 1000 = some (s', w') ∧ 0 < K ∧ K ≤ 1 ∧
    |(List.zipWith (· * ·) (Model.Ess.normalise [1, 2, 5]) ([(0:ℝ), 1, 2].map id)).sum
        - (List.zipWith (· * ·) w' (s'.map id)).sum| ≤ 2 * (1 - K) * 2 := by
  have h0 : ∀ x ∈ ([1, 2, 5] : List ℝ), 0 ≤ x := by
    intro x hx; simp only [List.mem_cons, List.not_mem_nil, or_false] at hx; rcases hx with rfl | rfl | rfl <;> norm_num
  have hs : 0 < ([1, 2, 5] : List ℝ).sum := by norm_num
  obtain ⟨⟨s', w'⟩, hr⟩ := Props.C20.C20_trim_terminates_any [(0:ℝ), 1, 2] [1, 2, 5] (99/100) 1000 h0 hs (by norm_num)
  obtain ⟨K, hK0, hK1, hb⟩ := C01_trim_bias_bound [(0:ℝ), 1, 2] [1, 2, 5] (99/100) 1000 h0 hs rfl s' w' hr id 2 (by
    intro x hx; simp only [List.mem_cons, List.not_mem_nil, or_false] at hx
    rcases hx with rfl | rfl | rfl <;> norm_num)
  exact ⟨s', w', K, hr, hK0, hK1, hb⟩

/-- non-vacuity of `C01_trim_bias_le_ess`: the default call on pool weights (1, 2, 5): whatever is returned, the estimate
    of `f = id` (|f| ≤ 2 on the pool) moves by at most 2·(1 − 0.99)·2 = 0.04 -/
example : ∃ s' w', Model.Trim.trim [(0:ℝ), 1, 2] [1, 2, 5] (99/100) 1000 = some (s', w') ∧
    |(List.zipWith (· * ·) (Model.Ess.normalise [1, 2, 5]) ([(0:ℝ), 1, 2].map id)).sum
        - (List.zipWith (· * ·) w' (s'.map id)).sum| ≤ 2 * (1 - 99/100) * 2 := by
  have h0 : ∀ x ∈ ([1, 2, 5] : List ℝ), 0 ≤ x := by
    intro x hx; simp only [List.mem_cons, List.not_mem_nil, or_false] at hx; rcases hx with rfl | rfl | rfl <;> norm_num
  have hs : 0 < ([1, 2, 5] : List ℝ).sum := by norm_num
  obtain ⟨⟨s', w'⟩, hr⟩ := Props.C20.C20_trim_terminates_any [(0:ℝ), 1, 2] [1, 2, 5] (99/100) 1000 h0 hs (by norm_num)
  exact ⟨s', w', hr, C01_trim_bias_le_ess [(0:ℝ), 1, 2] [1, 2, 5] (99/100) 1000 (by norm_num) h0 hs rfl s' w' hr id 2 (by
    intro x hx; simp only [List.mem_cons, List.not_mem_nil, or_false] at hx
    rcases hx with rfl | rfl | rfl <;> norm_num)⟩

/-- **the estimator the default `posterior()` returns**: whatever `trim_weights` returns, the weighted average over the
    returned samples is the SELF-NORMALISED ESTIMATOR RESTRICTED to the particles whose normalised weight is at least the
    threshold θ (a percentile of the weights): `Σ_j w'_j f(s'_j) = (Σ_{s : wn_s ≥ θ} wn_s f_s) / (Σ_{s : wn_s ≥ θ} wn_s)`.
    By `C01_trimmed_estimator_targets_restriction` (Props/C01Stat.lean) its target is `E_π[f | w ≥ θ]`, not `E_π[f]`. -/
theorem C01_trimmed_estimate_is_restricted_ratio {σ : Type} (samples : List σ) (w : List ℝ) (e : ℝ) (bins : Nat)
    (s' : List σ) (w' : List ℝ) (h : Model.Trim.trim samples w e bins = some (s', w')) (f : σ → ℝ) :
    ∃ θ : ℝ,
      let m := (Model.Ess.normalise w).map (fun x => Sc.le θ x)
      Model.Trim.filterMask (Model.Ess.normalise w) m = (Model.Ess.normalise w).filter (fun x => decide (θ ≤ x)) ∧
      (List.zipWith (· * ·) w' (s'.map f)).sum
        = (List.zipWith (· * ·) (Model.Trim.filterMask (Model.Ess.normalise w) m)
            (Model.Trim.filterMask (samples.map f) m)).sum / (Model.Trim.filterMask (Model.Ess.normalise w) m).sum := by
  obtain ⟨θ, j, _, _, hh⟩ := Props.C20.C20_trim_upper_set samples w e bins s' w' h
  simp only at hh
  obtain ⟨hs', hw', hfil⟩ := hh
  refine ⟨θ, hfil, ?_⟩
  have hmap : ∀ (l : List σ) (mm : List Bool), Model.Trim.filterMask (l.map f) mm = (Model.Trim.filterMask l mm).map f := by
    intro l
    induction l with
    | nil => intro mm; simp [Model.Trim.filterMask]
    | cons a as ih => intro mm; cases mm with
      | nil => simp [Model.Trim.filterMask]
      | cons b bs => cases b <;> simp [Model.Trim.filterMask, ih]
  rw [hw', hs', Props.C20.normalise_def, zipWith_div_sum, hmap]

/-- non-vacuity on the pool weights (1, 2, 5), default call -/
example : ∃ (s' w' : List ℝ) (θ : ℝ), Model.Trim.trim [(0:ℝ), 1, 2] [1, 2, 5] (99/100) 1000 = some (s', w') ∧
    (List.zipWith (· * ·) w' (s'.map id)).sum
      = (List.zipWith (· * ·)
          (Model.Trim.filterMask (Model.Ess.normalise ([1, 2, 5] : List ℝ)) ((Model.Ess.normalise ([1, 2, 5] : List ℝ)).map fun x => Sc.le θ x))
          (Model.Trim.filterMask ([(0:ℝ), 1, 2].map id) ((Model.Ess.normalise ([1, 2, 5] : List ℝ)).map fun x => Sc.le θ x))).sum
        / (Model.Trim.filterMask (Model.Ess.normalise ([1, 2, 5] : List ℝ)) ((Model.Ess.normalise ([1, 2, 5] : List ℝ)).map fun x => Sc.le θ x)).sum := by
  have h0 : ∀ x ∈ ([1, 2, 5] : List ℝ), 0 ≤ x := by
    intro x hx; simp only [List.mem_cons, List.not_mem_nil, or_false] at hx; rcases hx with rfl | rfl | rfl <;> norm_num
  obtain ⟨⟨s', w'⟩, hr⟩ := Props.C20.C20_trim_terminates_any [(0:ℝ), 1, 2] [1, 2, 5] (99/100) 1000 h0 (by norm_num) (by norm_num)
  obtain ⟨θ, hθ⟩ := C01_trimmed_estimate_is_restricted_ratio [(0:ℝ), 1, 2] [1, 2, 5] (99/100) 1000 s' w' hr id
  exact ⟨s', w', θ, hr, hθ.2⟩

end Props.C01
