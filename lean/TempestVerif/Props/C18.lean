import TempestVerif.Model.ConfigSpec
import TempestVerif.Lemmas.ConfigSpec
import TempestVerif.Gen.Validate
import TempestVerif.Gen.Ctor
import TempestVerif.Gen.Covering
/-
  C18 — invalid configurations are rejected when the sampler is constructed, before any likelihood call;
        valid ones are accepted (and run: executed, see harness/c18.py).

  Everything here is about the tables REGENERATED from /repo on every run:
    Gen.Validate.pre / rules / post   `SamplerConfig.__post_init__` + `validate()`       (translate/g2_validate.py)
    Gen.Validate.wrapped              options `Sampler.__init__` wraps in a FunctionWrapper
    Gen.Ctor.ctorCalls / wiring       constructor call table, clusterer wiring
    Gen.Covering.*                    the covering arrays the harness executes
  interpreted by Model/ConfigSpec.lean (Python's semantics of the operators on the value universe `V`).
  The documented constraints are written BY HAND below (`ValidListed`, `WellTyped`) without reference to the tables;
  `C18_config_accept_iff` / `C18_construct_accept_iff` say the tables accept exactly those configurations.

  Since /repo b8d82fc: a Python `bool` is NOT a valid dimension / particle count / index and the two targets must be finite
  (`math.isfinite`): `ValidListed` says so and `C18_config_accept_iff` proves the tables agree.  `True` remains a valid
  `ess_ratio` / `volume_variation` (the number 1); an empty string is an (empty) iterable of indices.
  "Every valid combination runs to completion" is NOT a theorem (numerics): it is executed row by row; what is proved is
  that the executed rows cover every pair (quick) / triple (thorough) of option values (`C18_covering_array_ok*`).
-/
set_option linter.unusedSimpArgs false
set_option linter.unusedVariables false
namespace Props.C18
open Model.ConfigSpec
/-! ### the five default assignments of `__post_init__` as functions -/

def updDir (c : Cfg) : Cfg := if (c .output_dir).isNone || (c .output_dir).isStr then c.set .output_dir .path else c
def updLabel (c : Cfg) : Cfg := if (c .output_label).isNone then c.set .output_label (.str "ps") else c
def updNp (d : Int) (c : Cfg) : Cfg := if (c .n_particles).isNone then c.set .n_particles (.int (2 * d)) else c
def updSteps (c : Cfg) : Cfg := if noneOrLe0 (c .n_steps) then c.set .n_steps (.int 1) else c
def updMax (c : Cfg) : Cfg := if noneOrLe0 (c .n_max_steps) then c.set .n_max_steps (mulNum 20 (c .n_steps)) else c

theorem updDir_other (c : Cfg) (g : Field) (h : g ≠ .output_dir) : updDir c g = c g := by
  simp [updDir, ite_set_apply, h]
theorem updLabel_other (c : Cfg) (g : Field) (h : g ≠ .output_label) : updLabel c g = c g := by
  simp [updLabel, ite_set_apply, h]
theorem updNp_other (d : Int) (c : Cfg) (g : Field) (h : g ≠ .n_particles) : updNp d c g = c g := by
  simp [updNp, ite_set_apply, h]
theorem updSteps_other (c : Cfg) (g : Field) (h : g ≠ .n_steps) : updSteps c g = c g := by
  simp [updSteps, ite_set_apply, h]
theorem updMax_other (c : Cfg) (g : Field) (h : g ≠ .n_max_steps) : updMax c g = c g := by
  simp [updMax, ite_set_apply, h]

/-- the stored configuration after the defaults of `__post_init__` (for an integer `n_dim` of value `d`) -/
def postCfg (c : Cfg) (d : Int) : Cfg := updMax (updSteps (updNp d (updLabel (updDir c))))

theorem postCfg_frame (c : Cfg) (d : Int) (g : Field) (h1 : g ≠ .output_dir) (h2 : g ≠ .output_label)
    (h3 : g ≠ .n_particles) (h4 : g ≠ .n_steps) (h5 : g ≠ .n_max_steps) : postCfg c d g = c g := by
  simp [postCfg, updMax_other, updSteps_other, updNp_other, updLabel_other, updDir_other, *]

theorem postCfg_output_dir (c : Cfg) (d : Int) :
    postCfg c d .output_dir = if (c .output_dir).isNone || (c .output_dir).isStr then .path else c .output_dir := by
  simp [postCfg, updMax_other, updSteps_other, updNp_other, updLabel_other, updDir, ite_set_apply]

theorem postCfg_output_label (c : Cfg) (d : Int) :
    postCfg c d .output_label = if (c .output_label).isNone then .str "ps" else c .output_label := by
  simp [postCfg, updMax_other, updSteps_other, updNp_other, updDir_other, updLabel, ite_set_apply]

theorem postCfg_n_particles (c : Cfg) (d : Int) :
    postCfg c d .n_particles = if (c .n_particles).isNone then .int (2 * d) else c .n_particles := by
  simp [postCfg, updMax_other, updSteps_other, updNp, updLabel_other, updDir_other, ite_set_apply]

theorem pre_notInt (c : Cfg) (h : (c .n_dim).isInt = false) :
    runStmts Gen.Validate.pre c = .error (.reject ["n_dim must be int, got {}"]) := by
  simp [Gen.Validate.pre, runStmts, run_raise_notInt, h]

theorem pre_closed (c : Cfg) (d : Int) (hd : (c .n_dim).intVal? = some d) :
    runStmts Gen.Validate.pre c =
      if noneOrNum (c .n_steps) && noneOrNum (c .n_max_steps) then .ok (postCfg c d) else .error (.raise .typeError) := by
  have hi : (c .n_dim).isInt = true := by
    cases h : c .n_dim <;> simp [h, V.intVal?] at hd <;> rfl
  have e2 : Stmt.run c (.chain [(.isNone .output_dir, .output_dir, .const .path), (.isStr .output_dir, .output_dir, .pathOf .output_dir)])
      = .ok (updDir c) := run_chain_dir c _
  have e3 : ∀ x : Cfg, Stmt.run x (.chain [(.isNone .output_label, .output_label, .const (.str "ps"))]) = .ok (updLabel x) :=
    fun x => run_chain_none_const x _ _
  have e4 : ∀ x : Cfg, x .n_dim = c .n_dim →
      Stmt.run x (.chain [(.isNone .n_particles, .n_particles, .mulInt 2 .n_dim)]) = .ok (updNp d x) :=
    fun x hx => run_chain_none_mul x _ _ 2 d (by rw [hx]; exact hd)
  have e5 : ∀ x : Cfg, Stmt.run x (.chain [(.or (.isNone .n_steps) (.cmp0 .le .n_steps), .n_steps, .const (.int 1))])
      = if noneOrNum (x .n_steps) then .ok (updSteps x) else .error (.raise .typeError) :=
    fun x => run_chain_default_const x _ _
  have e6 : ∀ x : Cfg, (x .n_steps).isNum = true →
      Stmt.run x (.chain [(.or (.isNone .n_max_steps) (.cmp0 .le .n_max_steps), .n_max_steps, .mulInt 20 .n_steps)])
      = if noneOrNum (x .n_max_steps) then .ok (updMax x) else .error (.raise .typeError) :=
    fun x hx => run_chain_default_mul x _ _ 20 hx
  simp only [Gen.Validate.pre, runStmts, run_raise_notInt, hi, if_true, e2, e3]
  rw [e4 _ (by simp [updLabel_other, updDir_other])]
  simp only [e5, updNp_other, updLabel_other, updDir_other, ne_eq, reduceCtorEq, not_false_eq_true]
  by_cases h5 : noneOrNum (c .n_steps) = true
  · simp only [h5, if_true, Bool.true_and]
    rw [e6]
    · simp only [updSteps_other, updNp_other, updLabel_other, updDir_other, ne_eq, reduceCtorEq, not_false_eq_true, postCfg]
      by_cases h6 : noneOrNum (c .n_max_steps) = true <;> simp [h6]
    · by_cases h7 : noneOrLe0 (c .n_steps) = true
      · simp [updSteps, updNp_other, updLabel_other, updDir_other, h7, Cfg.set, V.isNum]
      · simp only [Bool.not_eq_true] at h7
        simp [updSteps, updNp_other, updLabel_other, updDir_other, h7, isNum_of_not_le0 h5 h7]
  · simp [h5]


/-! ### the documented constraints, written by hand -/

/-- a positive genuine Python `int` — a `bool` is NOT one (since /repo b8d82fc `validate()` excludes `isinstance(·, bool)`) -/
def posInt : V → Bool
  | .int n => decide (0 < n)
  | _ => false

/-- a positive FINITE number (int, float, or the bool `True`, which Python counts as the number 1): `> 0` and
    `math.isfinite` — so neither `nan` nor `+inf` -/
def posNum : V → Bool
  | .int n => decide (0 < n)
  | .bool b => b
  | .float (.fin q) => decide (0 < q)
  | _ => false

def isOneOf (v : V) (names : List String) : Bool :=
  match v with
  | .str s => names.contains s
  | _ => false

/-- a genuine int `k` (not a bool) with `0 ≤ k < d` -/
def intItem (d : Int) (i : V) : Bool :=
  match i with
  | .int k => decide (0 ≤ k) && decide (k < d)
  | _ => false

/-- an iterable all of whose items are genuine Python ints `i` with `0 ≤ i < d` -/
def indexList (d : Int) (v : V) : Bool :=
  match v.iter? with
  | some l => l.all (intItem d)
  | none => false

/-- two index collections name a common integer -/
def shareIndex (p r : V) : Bool :=
  match p.iter?, r.iter? with
  | some a, some b => a.any fun x => b.any fun y => match x.intVal?, y.intVal? with
    | some i, some j => i == j
    | _, _ => false
  | _, _ => false

/-- the constraints listed in the property statement -/
structure ValidListed (c : Cfg) : Prop where
  n_dim : posInt (c .n_dim) = true
  n_particles : (c .n_particles).isNone = true ∨ posInt (c .n_particles) = true
  ess_ratio : posNum (c .ess_ratio) = true
  volume_variation : (c .volume_variation).isNone = true ∨ posNum (c .volume_variation) = true
  sample : isOneOf (c .sample) ["tpcn", "rwm"] = true
  resample : isOneOf (c .resample) ["mult", "syst"] = true
  vec_blobs : ¬ ((c .vectorize).truthy = true ∧ (c .blobs_dtype).isNone = false)
  periodic : (c .periodic).isNone = true ∨ ∃ d, (c .n_dim).intVal? = some d ∧ indexList d (c .periodic) = true
  reflective : (c .reflective).isNone = true ∨ ∃ d, (c .n_dim).intVal? = some d ∧ indexList d (c .reflective) = true
  disjoint : (c .periodic).isNone = false → (c .reflective).isNone = false → shareIndex (c .periodic) (c .reflective) = false

/-- the remaining options the constructor looks at have their documented types -/
structure WellTyped (c : Cfg) : Prop where
  prior_transform : (c .prior_transform).isCallable = true
  log_likelihood : (c .log_likelihood).isCallable = true
  n_steps : noneOrNum (c .n_steps) = true
  n_max_steps : noneOrNum (c .n_max_steps) = true
  output_dir : (c .output_dir).isNone = true ∨ (c .output_dir).isStr = true ∨ (c .output_dir).isPath = true
  output_label : (c .output_label).isNone = true ∨ (c .output_label).isStr = true

/-! ### bridges between the hand-written predicates and the primitive tests -/

theorem posInt_iff (v : V) : posInt v = true ↔ v.isBool = false ∧ v.isInt = true ∧ v.cmp0 .le = .ok false := by
  cases v with
  | int n => simp [posInt, V.isBool, V.isInt, V.cmp0, Cmp.int]
  | bool b => simp [posInt, V.isBool]
  | _ => simp [posInt, V.isInt, V.cmp0]

theorem posInt_intVal {v : V} (h : posInt v = true) : ∃ d, v.intVal? = some d ∧ 0 < d := by
  cases v <;> simp_all [posInt, V.intVal?]

theorem posNum_iff (v : V) : posNum v = true ↔ v.isNum = true ∧ v.cmp0 .gt = .ok true ∧ v.isFinite = .ok true := by
  cases v with
  | int n => simp [posNum, V.isNum, V.cmp0, V.isFinite, Cmp.int]
  | bool b => cases b <;> simp [posNum, V.isNum, V.cmp0, V.isFinite, Cmp.int]
  | float f => cases f <;> simp [posNum, V.isNum, V.cmp0, V.isFinite, FV.cmp, FV.lt]
  | _ => simp [posNum, V.isNum, V.cmp0]

theorem isOneOf_iff (v : V) (l : List String) : isOneOf v l = true ↔ v.notIn l = false := by
  cases v <;> simp [isOneOf, V.notIn]


theorem indexList_def (d : Int) (v : V) : indexList d v = match v.iter? with | some l => l.all (intItem d) | none => false := rfl

theorem idxOk_eq (d : Int) (nd : V) (hd : nd.intVal? = some d) (x : V) :
    idxOkStrict .le 0 .lt nd x = .ok (intItem d x) := by
  unfold idxOkStrict intItem
  cases x <;> try rfl
  rename_i k
  have hk : (V.int k).intVal? = some k := rfl
  simp only [Cmp.int, V.cmpNum, hk, hd]
  by_cases h : (0 : Int) ≤ k <;> simp [h]

theorem allM_idx (d : Int) (nd : V) (hd : nd.intVal? = some d) (l : List V) :
    allM (idxOkStrict .le 0 .lt nd) l = .ok (l.all (intItem d)) := by
  induction l with
  | nil => rfl
  | cons x xs ih =>
    simp only [allM, idxOk_eq d nd hd, List.all_cons, ih]
    cases intItem d x <;> simp

theorem allIdx_iff (d : Int) (nd : V) (hd : nd.intVal? = some d) (p : V) :
    V.allIdxStrict p .le 0 .lt nd = .ok true ↔ indexList d p = true := by
  unfold V.allIdxStrict
  rw [indexList_def]
  cases h : p.iter? with
  | none => simp
  | some l => simp [allM_idx d nd hd]

theorem intItem_intVal {d : Int} {x : V} (h : intItem d x = true) : ∃ k, x.intVal? = some k := by
  cases x <;> simp [intItem] at h
  exact ⟨_, rfl⟩

theorem hashable_of_intVal {x : V} {k : Int} (h : x.intVal? = some k) : x.hashable = true := by
  cases x <;> simp_all [V.intVal?, V.hashable]

theorem pyEq_of_intVal {x y : V} {i j : Int} (hx : x.intVal? = some i) (hy : y.intVal? = some j) :
    x.pyEq y = (i == j) := by
  cases x <;> simp [V.intVal?] at hx <;> cases y <;> simp [V.intVal?] at hy <;> simp [V.pyEq, V.intVal?, hx, hy]

theorem overlap_of_indexLists (d d' : Int) (p r : V) (hp : indexList d p = true) (hr : indexList d' r = true) :
    p.overlap r = .ok (shareIndex p r) := by
  rw [indexList_def] at hp hr
  unfold V.overlap V.toSet shareIndex
  cases h1 : p.iter? with
  | none => simp [h1] at hp
  | some a =>
    cases h2 : r.iter? with
    | none => simp [h2] at hr
    | some b =>
      simp only [h1, h2] at hp hr ⊢
      have ha : a.all V.hashable = true := by
        rw [List.all_eq_true] at hp ⊢
        intro x hx
        obtain ⟨k, hk⟩ := intItem_intVal (hp x hx)
        exact hashable_of_intVal hk
      have hb : b.all V.hashable = true := by
        rw [List.all_eq_true] at hr ⊢
        intro x hx
        obtain ⟨k, hk⟩ := intItem_intVal (hr x hx)
        exact hashable_of_intVal hk
      simp only [ha, hb, if_true]
      congr 1
      rw [Bool.eq_iff_iff]
      simp only [List.any_eq_true]
      rw [List.all_eq_true] at hp hr
      constructor
      · rintro ⟨x, hx, y, hy, hxy⟩
        obtain ⟨i, hi⟩ := intItem_intVal (hp x hx)
        obtain ⟨j, hj⟩ := intItem_intVal (hr y hy)
        refine ⟨x, hx, y, hy, ?_⟩
        rw [pyEq_of_intVal hi hj] at hxy
        simp [hi, hj, hxy]
      · rintro ⟨x, hx, y, hy, hxy⟩
        obtain ⟨i, hi⟩ := intItem_intVal (hp x hx)
        obtain ⟨j, hj⟩ := intItem_intVal (hr y hy)
        refine ⟨x, hx, y, hy, ?_⟩
        rw [pyEq_of_intVal hi hj]
        simpa [hi, hj] using hxy


theorem post_ok (c : Cfg) (h1 : (c .n_dim).isInt = true) (h2 : (c .n_particles).isInt = true) :
    ∃ c'', runStmts Gen.Validate.post c = .ok c'' := by
  simp only [Gen.Validate.post, runStmts, Stmt.run, eval]
  cases h : c .n_dim <;> simp [h, V.isInt] at h1 <;> cases h' : c .n_particles <;> simp [h', V.isInt] at h2 <;>
    cases (c .volume_variation).isNone <;> simp [V.addInt, V.cmpNum, V.intVal?]

/-- the part of the constraints that `validate()` itself decides (on the stored configuration) -/
structure RulesOK (c : Cfg) : Prop where
  listed : ValidListed c
  prior_transform : (c .prior_transform).isCallable = true
  log_likelihood : (c .log_likelihood).isCallable = true
  output_dir : (c .output_dir).isNone = true ∨ (c .output_dir).isStr = true ∨ (c .output_dir).isPath = true
  output_label : (c .output_label).isNone = true ∨ (c .output_label).isStr = true

theorem rules_pass_iff (c : Cfg) (d : Int) (hd : (c .n_dim).intVal? = some d) :
    (∀ r ∈ Gen.Validate.rules, eval (postCfg c d) r.cond = .ok false) ↔ RulesOK c := by
  simp only [Gen.Validate.rules, List.forall_mem_cons, List.not_mem_nil, eval_not, eval_and_false, eval_and_true, eval_or_false,
    eval_truthy, eval_isNone, eval_isInt, eval_isNum, eval_isStr, eval_isPath, eval_isCallable, eval_notIn, eval_cmp0, eval_overlap, eval_allIdx, eval_allIdxStrict, eval_isBool, eval_isFinite,
    Bool.not_false, Bool.not_true, postCfg_output_dir, postCfg_output_label, postCfg_n_particles]
  simp only [postCfg_frame, ne_eq, reduceCtorEq, not_false_eq_true, false_imp_iff, implies_true, and_true]
  constructor
  · rintro ⟨hpt, hll, ⟨hnd0, hnd1, hnd2⟩, ⟨hnp0, hnp1⟩, hnp2, hes1, ⟨hes2, hes3⟩, hvv1, hvv2, hs, hr, hvb, hov, hper, href, hod, hol⟩
    have hnd : posInt (c .n_dim) = true := (posInt_iff _).mpr ⟨hnd0, hnd1, hnd2⟩
    have hP : (c .periodic).isNone = true ∨ indexList d (c .periodic) = true := by
      rcases hper with h | ⟨_, h⟩
      · exact Or.inl h
      · exact Or.inr ((allIdx_iff d _ hd _).mp h)
    have hR : (c .reflective).isNone = true ∨ indexList d (c .reflective) = true := by
      rcases href with h | ⟨_, h⟩
      · exact Or.inl h
      · exact Or.inr ((allIdx_iff d _ hd _).mp h)
    refine ⟨⟨hnd, ?_, (posNum_iff _).mpr ⟨hes1, hes2, hes3⟩, ?_, (isOneOf_iff _ _).mpr hs, (isOneOf_iff _ _).mpr hr, ?_, ?_, ?_, ?_⟩, hpt, hll, ?_, ?_⟩
    · by_cases h : (c .n_particles).isNone = true
      · exact Or.inl h
      · simp only [h] at hnp0 hnp1 hnp2
        exact Or.inr ((posInt_iff _).mpr ⟨hnp0, hnp1, hnp2⟩)
    · rcases hvv1 with h | ⟨h1, h2⟩
      · exact Or.inl h
      · rcases hvv2 with (h | ⟨_, h⟩) | ⟨_, h3, h4⟩
        · simp [h] at h1
        · simp [h] at h2
        · exact Or.inr ((posNum_iff _).mpr ⟨h2, h3, h4⟩)
    · rintro ⟨h1, h2⟩
      rcases hvb with h | ⟨_, h⟩
      · simp [h] at h1
      · simp [h] at h2
    · exact hP.imp id fun h => ⟨d, hd, h⟩
    · exact hR.imp id fun h => ⟨d, hd, h⟩
    · intro h1 h2
      rcases hP with h | hp
      · simp [h] at h1
      rcases hR with h | hr'
      · simp [h] at h2
      rcases hov with (h | ⟨_, h⟩) | ⟨_, h⟩
      · simp [h] at h1
      · simp [h] at h2
      · rw [overlap_of_indexLists d d _ _ hp hr'] at h
        simpa using h
    · cases h : c .output_dir <;> simp_all [V.isNone, V.isStr, V.isPath]
    · cases h : c .output_label <;> simp_all [V.isNone, V.isStr]
  · rintro ⟨⟨hnd, hnp, hes, hvv, hs, hr, hvb, hper, href, hdis⟩, hpt, hll, hod, hol⟩
    have hP : (c .periodic).isNone = true ∨ indexList d (c .periodic) = true := by
      rcases hper with h | ⟨d', hd', h⟩
      · exact Or.inl h
      · rw [hd] at hd'; cases hd'; exact Or.inr h
    have hR : (c .reflective).isNone = true ∨ indexList d (c .reflective) = true := by
      rcases href with h | ⟨d', hd', h⟩
      · exact Or.inl h
      · rw [hd] at hd'; cases hd'; exact Or.inr h
    obtain ⟨d', hd', hpos⟩ := posInt_intVal hnd
    rw [hd] at hd'; cases hd'
    have hnpS : (if (c .n_particles).isNone = true then V.int (2 * d) else c .n_particles).isBool = false ∧
        (if (c .n_particles).isNone = true then V.int (2 * d) else c .n_particles).isInt = true ∧
        V.cmp0 .le (if (c .n_particles).isNone = true then V.int (2 * d) else c .n_particles) = .ok false := by
      by_cases h' : (c .n_particles).isNone = true
      · simp only [h', if_true, V.isBool, V.isInt, V.cmp0, Cmp.int]
        simp; omega
      · simp only [h']
        rcases hnp with h | h
        · exact absurd h h'
        · simpa using (posInt_iff _).mp h
    have hesS := (posNum_iff _).mp hes
    refine ⟨hpt, hll, (posInt_iff _).mp hnd, ⟨hnpS.1, hnpS.2.1⟩, hnpS.2.2, hesS.1, ⟨hesS.2.1, hesS.2.2⟩, ?_, ?_,
      (isOneOf_iff _ _).mp hs, (isOneOf_iff _ _).mp hr, ?_, ?_, ?_, ?_, ?_, ?_⟩
    · rcases hvv with h | h
      · exact Or.inl h
      · have := (posNum_iff _).mp h
        by_cases h' : (c .volume_variation).isNone = true
        · exact Or.inl h'
        · exact Or.inr ⟨by simpa using h', this.1⟩
    · rcases hvv with h | h
      · exact Or.inl (Or.inl h)
      · have := (posNum_iff _).mp h
        by_cases h' : (c .volume_variation).isNone = true
        · exact Or.inl (Or.inl h')
        · exact Or.inr ⟨⟨by simpa using h', this.1⟩, this.2.1, this.2.2⟩
    · by_cases h1 : (c .vectorize).truthy = true
      · by_cases h2 : (c .blobs_dtype).isNone = true
        · exact Or.inr ⟨h1, h2⟩
        · exact absurd ⟨h1, by simpa using h2⟩ hvb
      · exact Or.inl (by simpa using h1)
    · by_cases h1 : (c .periodic).isNone = true
      · exact Or.inl (Or.inl h1)
      by_cases h2 : (c .reflective).isNone = true
      · exact Or.inl (Or.inr ⟨by simpa using h1, h2⟩)
      have hp := hP.resolve_left h1
      have hr' := hR.resolve_left h2
      refine Or.inr ⟨⟨by simpa using h1, by simpa using h2⟩, ?_⟩
      rw [overlap_of_indexLists d d _ _ hp hr', hdis (by simpa using h1) (by simpa using h2)]
    · by_cases h1 : (c .periodic).isNone = true
      · exact Or.inl h1
      · exact Or.inr ⟨by simpa using h1, (allIdx_iff d _ hd _).mpr (hP.resolve_left h1)⟩
    · by_cases h1 : (c .reflective).isNone = true
      · exact Or.inl h1
      · exact Or.inr ⟨by simpa using h1, (allIdx_iff d _ hd _).mpr (hR.resolve_left h1)⟩
    · cases h : c .output_dir <;> simp_all [V.isNone, V.isStr, V.isPath]
    · cases h : c .output_label <;> simp_all [V.isNone, V.isStr]


/-! ### the property at the level of `SamplerConfig(...)` -/

theorem C18_config_accept_iff (c : Cfg) :
    run Gen.Validate.spec c = .accept ↔ ValidListed c ∧ WellTyped c := by
  rw [run_accept_iff_stages]
  show (∃ c', runStmts Gen.Validate.pre c = .ok c' ∧ (∀ r ∈ Gen.Validate.rules, eval c' r.cond = .ok false) ∧
      ∃ c'', runStmts Gen.Validate.post c' = .ok c'') ↔ _
  constructor
  · rintro ⟨c', hpre, hrules, -⟩
    cases hd : (c .n_dim).intVal? with
    | none => rw [pre_notInt c (isInt_of_intVal_none hd)] at hpre; cases hpre
    | some d =>
      rw [pre_closed c d hd] at hpre
      by_cases hb : (noneOrNum (c .n_steps) && noneOrNum (c .n_max_steps)) = true
      · simp only [hb, if_true, Except.ok.injEq] at hpre
        subst hpre
        obtain ⟨hL, h1, h2, h3, h4⟩ := (rules_pass_iff c d hd).mp hrules
        simp only [Bool.and_eq_true] at hb
        exact ⟨hL, h1, h2, hb.1, hb.2, h3, h4⟩
      · simp [hb] at hpre
  · rintro ⟨hL, hW⟩
    obtain ⟨d, hd, -⟩ := posInt_intVal hL.n_dim
    refine ⟨postCfg c d, ?_, (rules_pass_iff c d hd).mpr ⟨hL, hW.prior_transform, hW.log_likelihood, hW.output_dir, hW.output_label⟩,
      post_ok _ ?_ ?_⟩
    · rw [pre_closed c d hd]; simp [hW.n_steps, hW.n_max_steps]
    · rw [postCfg_frame] <;> simp [isInt_of_intVal_some hd]
    · rw [postCfg_n_particles]
      rcases hL.n_particles with h | h
      · simp [h, V.isInt]
      · have := ((posInt_iff _).mp h).2.1
        by_cases h' : (c .n_particles).isNone = true
        · simp [h', V.isInt]
        · simp [h', this]

/-- **C18 (rejection).**  Every configuration violating a documented constraint — in any combination, whatever the other
    options are — is not accepted by `SamplerConfig(...)`: the generated rule table rejects it (or evaluating it raises). -/
theorem C18_reject (c : Cfg) (h : ¬ ValidListed c) : run Gen.Validate.spec c ≠ .accept :=
  fun hacc => h ((C18_config_accept_iff c).mp hacc).1

/-- **C18 (no spurious rejection).** -/
theorem C18_accept (c : Cfg) (h : ValidListed c) (hw : WellTyped c) : run Gen.Validate.spec c = .accept :=
  (C18_config_accept_iff c).mpr ⟨h, hw⟩


/-- the options `validate()` reads in the current source -/
def validatedFields : List Field :=
  [.prior_transform, .log_likelihood, .n_dim, .n_particles, .ess_ratio, .volume_variation, .sample, .resample, .vectorize,
   .blobs_dtype, .periodic, .reflective, .output_dir, .output_label]

/-- **C18 (frame).**  The generated rule table reads exactly the options above: configurations that agree on them get
    the same verdict from `validate()`, whatever pool, clustering, cadence, seeds … are. -/
theorem C18_validate_reads_only (c c' : Cfg) (h : ∀ f ∈ validatedFields, c f = c' f) :
    validate Gen.Validate.rules c = validate Gen.Validate.rules c' := by
  apply validate_congr
  simp only [validatedFields, List.mem_cons, List.not_mem_nil, or_false, forall_eq_or_imp, forall_eq] at h
  simp only [Gen.Validate.rules, List.forall_mem_cons, List.not_mem_nil, exprFields, List.mem_append, List.mem_cons, or_false,
    forall_eq_or_imp, forall_eq, false_imp_iff, implies_true, and_true]
  simp [h]


/-- what `SamplerCore.__init__` / `HierarchicalGaussianMixture.__init__` need from the stored configuration -/
def WiringOK (c : Cfg) : Prop :=
  (c .clustering).truthy = true →
    noneOrNum (c .n_max_clusters) = true ∧ ∃ m, (c .split_threshold).toFloat = .ok m ∧ FV.le m (.fin 0) = false

theorem wire_ok_iff (c : Cfg) (hd : (c .n_dim).isInt = true) :
    (∃ w, wire Gen.Ctor.wiring c = .ok w) ↔ WiringOK c := by
  unfold WiringOK wire
  simp only [Gen.Ctor.wiring, WExpr.eval]
  by_cases ht : (c .clustering).truthy = true
  · simp only [ht, if_true, true_implies]
    cases hn : c .n_dim <;> simp [hn, V.isInt] at hd <;>
      cases hm : c .n_max_clusters <;>
      simp [V.isNone, V.isNum, noneOrNum, V.addInt, V.mulInt, FV.cmp] <;>
      cases hs : (c .split_threshold).toFloat <;> simp <;> (rename_i a; by_cases hle : a.le (.fin 0) = true <;> simp [hle])
  · simp [ht]


/-! ### one lemma per documented constraint (the offending option takes ANY value of the universe that violates it,
    every other option is arbitrary) -/

theorem C18_reject_n_dim (c : Cfg) (h : posInt (c .n_dim) = false) : run Gen.Validate.spec c ≠ .accept :=
  C18_reject c fun hv => by have := hv.n_dim; simp_all

theorem C18_reject_n_particles (c : Cfg) (h1 : (c .n_particles).isNone = false) (h2 : posInt (c .n_particles) = false) :
    run Gen.Validate.spec c ≠ .accept :=
  C18_reject c fun hv => by have := hv.n_particles; simp_all

theorem C18_reject_ess_ratio (c : Cfg) (h : posNum (c .ess_ratio) = false) : run Gen.Validate.spec c ≠ .accept :=
  C18_reject c fun hv => by have := hv.ess_ratio; simp_all

theorem C18_reject_volume_variation (c : Cfg) (h1 : (c .volume_variation).isNone = false)
    (h2 : posNum (c .volume_variation) = false) : run Gen.Validate.spec c ≠ .accept :=
  C18_reject c fun hv => by have := hv.volume_variation; simp_all

theorem C18_reject_kernel (c : Cfg) (h : isOneOf (c .sample) ["tpcn", "rwm"] = false) : run Gen.Validate.spec c ≠ .accept :=
  C18_reject c fun hv => by have := hv.sample; simp_all

theorem C18_reject_resampler (c : Cfg) (h : isOneOf (c .resample) ["mult", "syst"] = false) :
    run Gen.Validate.spec c ≠ .accept :=
  C18_reject c fun hv => by have := hv.resample; simp_all

theorem C18_reject_vectorize_blobs (c : Cfg) (h1 : (c .vectorize).truthy = true) (h2 : (c .blobs_dtype).isNone = false) :
    run Gen.Validate.spec c ≠ .accept :=
  C18_reject c fun hv => hv.vec_blobs ⟨h1, h2⟩

theorem C18_reject_periodic_index (c : Cfg) (d : Int) (hd : (c .n_dim).intVal? = some d) (h1 : (c .periodic).isNone = false)
    (h2 : indexList d (c .periodic) = false) : run Gen.Validate.spec c ≠ .accept :=
  C18_reject c fun hv => by
    rcases hv.periodic with h | ⟨d', hd', h⟩
    · simp_all
    · rw [hd] at hd'; cases hd'; simp_all

theorem C18_reject_reflective_index (c : Cfg) (d : Int) (hd : (c .n_dim).intVal? = some d) (h1 : (c .reflective).isNone = false)
    (h2 : indexList d (c .reflective) = false) : run Gen.Validate.spec c ≠ .accept :=
  C18_reject c fun hv => by
    rcases hv.reflective with h | ⟨d', hd', h⟩
    · simp_all
    · rw [hd] at hd'; cases hd'; simp_all

theorem C18_reject_overlap (c : Cfg) (h1 : (c .periodic).isNone = false) (h2 : (c .reflective).isNone = false)
    (h3 : shareIndex (c .periodic) (c .reflective) = true) : run Gen.Validate.spec c ≠ .accept :=
  C18_reject c fun hv => by have := hv.disjoint h1 h2; simp_all

/-! ### the property at the level of `Sampler(...)`: FunctionWrapper, then `SamplerConfig(...)`, then the wiring -/

theorem wrap_other (c : Cfg) (f : Field) (h : f ≠ .log_likelihood) : wrapFields Gen.Validate.wrapped c f = c f := by
  simp [wrapFields, Gen.Validate.wrapped, h]

theorem wrap_like (c : Cfg) : wrapFields Gen.Validate.wrapped c .log_likelihood = .callable := by
  simp [wrapFields, Gen.Validate.wrapped]

theorem validListed_wrap (c : Cfg) : ValidListed (wrapFields Gen.Validate.wrapped c) ↔ ValidListed c := by
  constructor
  · rintro ⟨h1, h2, h3, h4, h5, h6, h7, h8, h9, h10⟩
    simp only [wrap_other, ne_eq, reduceCtorEq, not_false_eq_true] at h1 h2 h3 h4 h5 h6 h7 h8 h9 h10
    exact ⟨h1, h2, h3, h4, h5, h6, h7, h8, h9, h10⟩
  · rintro ⟨h1, h2, h3, h4, h5, h6, h7, h8, h9, h10⟩
    constructor <;> simp only [wrap_other, ne_eq, reduceCtorEq, not_false_eq_true] <;> assumption

/-- the options `Sampler(...)` type-checks besides the listed constraints (the likelihood is wrapped, hence not among them) -/
structure SamplerTyped (c : Cfg) : Prop where
  prior_transform : (c .prior_transform).isCallable = true
  n_steps : noneOrNum (c .n_steps) = true
  n_max_steps : noneOrNum (c .n_max_steps) = true
  output_dir : (c .output_dir).isNone = true ∨ (c .output_dir).isStr = true ∨ (c .output_dir).isPath = true
  output_label : (c .output_label).isNone = true ∨ (c .output_label).isStr = true

theorem wellTyped_wrap (c : Cfg) : WellTyped (wrapFields Gen.Validate.wrapped c) ↔ SamplerTyped c := by
  constructor
  · rintro ⟨h1, -, h3, h4, h5, h6⟩
    simp only [wrap_other, ne_eq, reduceCtorEq, not_false_eq_true] at h1 h3 h4 h5 h6
    exact ⟨h1, h3, h4, h5, h6⟩
  · rintro ⟨h1, h3, h4, h5, h6⟩
    refine ⟨?_, ?_, ?_, ?_, ?_, ?_⟩ <;> simp only [wrap_other, wrap_like, ne_eq, reduceCtorEq, not_false_eq_true] <;>
      first | assumption | rfl

/-- **C18 at the constructor.**  `Sampler(...)` returns normally iff the listed constraints hold, the other options have
    their documented types, and the clusterer wiring is well defined (`split_threshold` positive when clustering is on). -/
theorem C18_construct_accept_iff (c : Cfg) :
    construct Gen.Validate.spec Gen.Ctor.wiring Gen.Validate.wrapped c = .accept ↔
      ValidListed c ∧ SamplerTyped c ∧ WiringOK c := by
  have key := C18_config_accept_iff (wrapFields Gen.Validate.wrapped c)
  rw [validListed_wrap, wellTyped_wrap, run_accept_iff_runCfg] at key
  unfold construct
  cases h : runCfg Gen.Validate.spec (wrapFields Gen.Validate.wrapped c) with
  | error o =>
    have hne : o ≠ .accept := by
      intro ho
      have := (run_accept_iff_runCfg Gen.Validate.spec (wrapFields Gen.Validate.wrapped c)).mp (by unfold run; rw [h, ho])
      rw [h] at this
      obtain ⟨_, h'⟩ := this
      cases h'
    constructor
    · intro ho; exact absurd ho hne
    · rintro ⟨hL, hT, -⟩
      obtain ⟨c', hc'⟩ := key.mpr ⟨hL, hT⟩
      rw [h] at hc'; cases hc'
  | ok c' =>
    obtain ⟨hL, hT⟩ := key.mp ⟨c', h⟩
    obtain ⟨d, hd, -⟩ := posInt_intVal hL.n_dim
    have hdw : (wrapFields Gen.Validate.wrapped c .n_dim).intVal? = some d := by rw [wrap_other _ _ (by decide)]; exact hd
    have hpre := runCfg_ok_pre h
    rw [show Gen.Validate.spec.pre = Gen.Validate.pre from rfl, pre_closed _ d hdw] at hpre
    have hc' : c' = postCfg (wrapFields Gen.Validate.wrapped c) d := by
      by_cases hb : (noneOrNum (wrapFields Gen.Validate.wrapped c .n_steps) &&
          noneOrNum (wrapFields Gen.Validate.wrapped c .n_max_steps)) = true
      · simp only [hb, if_true, Except.ok.injEq] at hpre; exact hpre.symm
      · simp [hb] at hpre
    have hfr : ∀ g, g ≠ .output_dir → g ≠ .output_label → g ≠ .n_particles → g ≠ .n_steps → g ≠ .n_max_steps →
        g ≠ .log_likelihood → c' g = c g := by
      intro g h1 h2 h3 h4 h5 h6
      rw [hc', postCfg_frame _ _ _ h1 h2 h3 h4 h5, wrap_other _ _ h6]
    have hwok : WiringOK c' ↔ WiringOK c := by
      unfold WiringOK
      rw [hfr .clustering (by decide) (by decide) (by decide) (by decide) (by decide) (by decide),
        hfr .n_max_clusters (by decide) (by decide) (by decide) (by decide) (by decide) (by decide),
        hfr .split_threshold (by decide) (by decide) (by decide) (by decide) (by decide) (by decide)]
    have hint : (c' .n_dim).isInt = true := by
      rw [hfr .n_dim (by decide) (by decide) (by decide) (by decide) (by decide) (by decide)]
      exact isInt_of_intVal_some hd
    have hw := wire_ok_iff c' hint
    cases hwire : wire Gen.Ctor.wiring c' with
    | error k =>
      simp only [hwire, reduceCtorEq, false_iff, not_and]
      intro _ _ hW
      obtain ⟨w, hw'⟩ := hw.mpr (hwok.mpr hW)
      rw [hwire] at hw'; cases hw'
    | ok w =>
      simp only [hwire, true_iff]
      exact ⟨hL, hT, hwok.mp (hw.mp ⟨w, hwire⟩)⟩

/-- **C18 (rejection, constructor level).**  Any violation of a listed constraint, in any combination and whatever the
    other options are, makes `Sampler(...)` raise. -/
theorem C18_construct_reject (c : Cfg) (h : ¬ ValidListed c) :
    construct Gen.Validate.spec Gen.Ctor.wiring Gen.Validate.wrapped c ≠ .accept :=
  fun hacc => h ((C18_construct_accept_iff c).mp hacc).1

/-! ### the clusterer wiring of `SamplerCore.__init__` -/

/-- **C18 (wiring).**  When the clusterer is built: `max_iterations = n_max_clusters − 1` (1000 when None),
    `min_points = 4·n_dim` (None when no cap), `threshold_modifier = float(split_threshold)` and it is not `<= 0`. -/
theorem C18_wiring_sound (c : Cfg) (w : Wired) (h : wire Gen.Ctor.wiring c = .ok w) (hc : (c .clustering).truthy = true) :
    (∀ n, c .n_max_clusters = .int n → w.maxIter = .int (n - 1)) ∧
    (c .n_max_clusters = .none → w.maxIter = .int 1000 ∧ w.minPoints = .none) ∧
    (∀ n d, c .n_max_clusters = .int n → c .n_dim = .int d → w.minPoints = .int (4 * d)) ∧
    (c .split_threshold).toFloat = .ok w.threshold ∧ FV.le w.threshold (.fin 0) = false := by
  unfold wire at h
  simp only [Gen.Ctor.wiring, WExpr.eval, hc, if_true] at h
  cases hm : c .n_max_clusters <;> simp only [hm, V.isNone] at h <;>
    cases hn : c .n_dim <;> simp [hn, V.addInt, V.mulInt] at h <;>
    cases hs : (c .split_threshold).toFloat <;> simp [hs, FV.cmp] at h <;>
    (rename_i a; by_cases hle : a.le (.fin 0) = true <;> simp [hle] at h <;> subst h <;> simp_all <;> omega)

/-- a cluster cap of at least one gives a non-negative split budget -/
theorem C18_wiring_cap_nonneg (c : Cfg) (w : Wired) (h : wire Gen.Ctor.wiring c = .ok w) (hc : (c .clustering).truthy = true)
    (n : Int) (hn : c .n_max_clusters = .int n) (h1 : 1 ≤ n) : ∃ m, w.maxIter = .int m ∧ 0 ≤ m :=
  ⟨n - 1, (C18_wiring_sound c w h hc).1 n hn, by omega⟩

/-- a number that is not `<= 0` (what `HierarchicalGaussianMixture.__init__` asks of `split_threshold`: `nan` and `+inf` pass) -/
def notLe0 : V → Bool
  | .int n => decide (0 < n)
  | .bool b => b
  | .float f => !(f.le (.fin 0))
  | _ => false

theorem toFloat_num_le (v : V) (hn : v.isNum = true) (hp : notLe0 v = false) :
    ∃ m, v.toFloat = .ok m ∧ FV.le m (.fin 0) = true := by
  cases v with
  | int n =>
    refine ⟨_, rfl, ?_⟩
    simp only [notLe0, decide_eq_false_iff_not] at hp
    simp only [FV.le, decide_eq_true_eq]
    exact Rat.intCast_nonpos.mpr (by omega)
  | bool b =>
    cases b
    · exact ⟨_, rfl, by simp [FV.le]⟩
    · simp [notLe0] at hp
  | float f => exact ⟨f, rfl, by simpa [notLe0] using hp⟩
  | _ => simp [V.isNum] at hn

/-- **C18 (split_threshold).**  With clustering on, a numeric `split_threshold <= 0` never gets past the constructor
    (`HierarchicalGaussianMixture.__init__` raises `ValueError`) — still before any likelihood call. -/
theorem C18_split_threshold_rejected (c : Cfg) (hc : (c .clustering).truthy = true) (hn : (c .split_threshold).isNum = true)
    (hp : notLe0 (c .split_threshold) = false) : ∀ w, wire Gen.Ctor.wiring c ≠ .ok w := by
  intro w h
  obtain ⟨_, _, _, h4, h5⟩ := C18_wiring_sound c w h hc
  obtain ⟨m, hm, hle⟩ := toFloat_num_le _ hn hp
  rw [h4] at hm
  cases hm
  rw [hle] at h5
  cases h5

/-! ### rejection happens before any likelihood call (structural, decided on the regenerated constructor table) -/

/-- callees that cannot reach user code -/
def harmlessCallees : List String :=
  ["isinstance", "callable", "type", "ValueError", "TypeError", "object.__setattr__", "Path", "warnings.warn", "errors.append",
   "set", "set().intersection", "all", "float", "math.isfinite", "dict.fromkeys", "<expr>.join", "len", "int", "str", "list", "dict", "tuple"]

/-- every call made by a constructor on the path of `Sampler(...)` is harmless or is itself an analysed constructor /
    `self.validate` -/
def ctorCallsClosed (t : List (String × String × List String)) : Bool :=
  t.all fun e => e.2.2.all fun callee =>
    harmlessCallees.contains callee || t.any (fun e' => e'.1 == callee) ||
      (callee == "self.validate" && t.any fun e' => e'.1 == e.1 && e'.2.1 == "validate")

def callsOf (t : List (String × String × List String)) (cls fn : String) : Option (List String) :=
  (t.find? fun e => e.1 == cls && e.2.1 == fn).map (·.2.2)

/-- **C18 (before any likelihood call).**  In the current source: no constructor on the path of `Sampler(...)` calls
    (an alias of) the likelihood; their calls are closed under the analysed set; `Sampler.__init__` builds
    `SamplerConfig(...)` — whose `__post_init__` calls `self.validate()` exactly once — before `SamplerCore(...)`;
    and `SamplerCore.__init__` is where the clusterer (hence the `split_threshold` check) is built. -/
theorem C18_before_likelihood :
    Gen.Ctor.likelihoodCalls = [] ∧
    ctorCallsClosed Gen.Ctor.ctorCalls = true ∧
    (callsOf Gen.Ctor.ctorCalls "Sampler" "__init__").map (·.filter fun x => x == "SamplerConfig" || x == "SamplerCore")
      = some ["SamplerConfig", "SamplerCore"] ∧
    (callsOf Gen.Ctor.ctorCalls "SamplerConfig" "__post_init__").map (·.count "self.validate") = some 1 ∧
    (callsOf Gen.Ctor.ctorCalls "SamplerCore" "__init__").map (·.count "HierarchicalGaussianMixture") = some 1 := by
  decide

/-! ### the covering arrays executed by the harness -/

theorem C18_covering_array_ok : wellFormed (levels Gen.Covering.pairFactors) Gen.Covering.pairRows = true ∧
    coversAllPairs (levels Gen.Covering.pairFactors) Gen.Covering.pairRows = true := by decide


/-- thorough tier: the executed rows cover every TRIPLE of option values (kernel evaluation of the Boolean checker) -/
theorem C18_covering_array_ok_3wise :
    wellFormed (levels Gen.Covering.tripleFactors) Gen.Covering.tripleRows = true ∧
    coversAllTriples (levels Gen.Covering.tripleFactors) Gen.Covering.tripleRows = true := by decide +kernel

/-- all value combinations of the given level counts -/
def combos : List Nat → List (List Nat)
  | [] => [[]]
  | n :: ns => (List.range n).flatMap fun a => (combos ns).map (a :: ·)

def coversCombos (rows : List (List Nat)) (cols : List Nat) (want : List (List Nat)) : Bool :=
  want.all fun cb => rows.any fun r => cols.map (r[·]?) == cb.map some

/-- the interaction block executed in both tiers is the FULL factorial of the mutually dependent options (pool kind ×
    save_every × likelihood kind × fresh/resumed): every combination of their values occurs in an executed row -/
theorem C18_interaction_block_full :
    wellFormed (levels Gen.Covering.pairFactors) Gen.Covering.blockRows = true ∧
    Gen.Covering.blockCols.length = 4 ∧
    coversCombos Gen.Covering.blockRows Gen.Covering.blockCols
      (combos (Gen.Covering.blockCols.map fun c => (levels Gen.Covering.pairFactors).getD c 0)) = true := by decide +kernel

/-- what `C18_covering_array_ok` means: for any two options and any pair of their values some executed row has both -/
theorem C18_pairs_covered (i j a b : Nat) (hij : i < j) (hj : j < (levels Gen.Covering.pairFactors).length)
    (ha : a < (levels Gen.Covering.pairFactors)[i]'(by omega)) (hb : b < (levels Gen.Covering.pairFactors)[j]) :
    ∃ r ∈ Gen.Covering.pairRows, r[i]? = some a ∧ r[j]? = some b :=
  coversAllPairs_sound _ _ C18_covering_array_ok.2 i j a b hij hj ha hb

theorem C18_triples_covered (i j k a b c : Nat) (hij : i < j) (hjk : j < k) (hk : k < (levels Gen.Covering.tripleFactors).length)
    (ha : a < (levels Gen.Covering.tripleFactors)[i]'(by omega)) (hb : b < (levels Gen.Covering.tripleFactors)[j]'(by omega))
    (hc : c < (levels Gen.Covering.tripleFactors)[k]) :
    ∃ r ∈ Gen.Covering.tripleRows, r[i]? = some a ∧ r[j]? = some b ∧ r[k]? = some c :=
  coversAllTriples_sound _ _ C18_covering_array_ok_3wise.2 i j k a b c hij hjk hk ha hb hc

/-! ### non-vacuity: concrete configurations through the generated tables -/

/-- `Sampler(prior, like, 3)` with every other option at the default regenerated from `Sampler.__init__` -/
def exampleCfg : Cfg := fun f =>
  match f with
  | .prior_transform => .callable
  | .log_likelihood => .callable
  | .n_dim => .int 3
  | f => match Gen.Validate.defaults.find? (·.1 == f) with
    | some (_, v) => v
    | none => .none

-- the default configuration is accepted, by `SamplerConfig(...)` and by `Sampler(...)`
example : run Gen.Validate.spec exampleCfg = .accept := by decide +kernel
example : construct Gen.Validate.spec Gen.Ctor.wiring Gen.Validate.wrapped exampleCfg = .accept := by decide +kernel
-- … and it satisfies the hand-written constraints (the hypotheses of `C18_accept` are satisfiable)
example : ValidListed exampleCfg ∧ WellTyped exampleCfg := (C18_config_accept_iff _).mp (by decide +kernel)
-- a valid non-default configuration: boundary indices, dynamic mode, string output_dir, wrapped non-callable likelihood
example : construct Gen.Validate.spec Gen.Ctor.wiring Gen.Validate.wrapped
    ((((((exampleCfg.set .periodic (.list [.int 0])).set .reflective (.list [.int 2, .int 1])).set .volume_variation
      (.float (.fin (1 / 2)))).set .output_dir (.str "out")).set .log_likelihood (.int 5)).set .n_max_clusters (.int 2)) = .accept := by
  decide +kernel
-- one violation: rejected with exactly the expected message(s), in order (n_dim = 0 also makes the default n_particles 0)
example : run Gen.Validate.spec (exampleCfg.set .n_dim (.int 0)) =
    .reject ["n_dim must be positive int, got {}", "n_particles must be positive integer, got {}"] := by decide +kernel
example : run Gen.Validate.spec (exampleCfg.set .resample (.str "systematic")) =
    .reject ["Invalid resample '{}': must be 'mult' or 'syst'"] := by decide +kernel
example : run Gen.Validate.spec (exampleCfg.set .n_dim (.float (.fin 3))) = .reject ["n_dim must be int, got {}"] := by
  decide +kernel
-- the upper index bound is exclusive: [2] is fine for n_dim = 3, [3] is not
example : run Gen.Validate.spec (exampleCfg.set .periodic (.list [.int 2])) = .accept := by decide +kernel
example : run Gen.Validate.spec (exampleCfg.set .periodic (.list [.int 3])) =
    .reject ["periodic indices must be integers in [0, {}], got {}"] := by decide +kernel
-- several violations at once are all reported; overlapping indices
example : run Gen.Validate.spec (((exampleCfg.set .periodic (.list [.int 0, .int 1])).set .reflective (.list [.int 1])).set
    .ess_ratio (.int 0)) =
    .reject ["ess_ratio must be positive and finite, got {}", "Parameters cannot be both periodic and reflective: {}"] := by decide +kernel
-- since /repo b8d82fc: a bool is not a dimension / count / index, and a target must be finite (they used to be accepted)
example : run Gen.Validate.spec (exampleCfg.set .n_dim (.bool true)) = .reject ["n_dim must be positive int, got {}"] := by
  decide +kernel
example : run Gen.Validate.spec (exampleCfg.set .n_particles (.bool true)) = .reject ["n_particles must be int, got {}"] := by
  decide +kernel
example : run Gen.Validate.spec (exampleCfg.set .ess_ratio (.float (.inf false))) =
    .reject ["ess_ratio must be positive and finite, got {}"] := by decide +kernel
example : run Gen.Validate.spec (exampleCfg.set .ess_ratio (.float .nan)) =
    .reject ["ess_ratio must be positive and finite, got {}"] := by decide +kernel
example : run Gen.Validate.spec (exampleCfg.set .volume_variation (.float (.inf false))) =
    .reject ["volume_variation ({}) must be positive and finite"] := by decide +kernel
example : run Gen.Validate.spec (exampleCfg.set .periodic (.list [.bool true])) =
    .reject ["periodic indices must be integers in [0, {}], got {}"] := by decide +kernel
-- Python facts the model carries: a str particle count raises TypeError (not ValueError); an unhashable index raises TypeError
example : run Gen.Validate.spec (exampleCfg.set .n_particles (.str "8")) = .raise .typeError := by decide +kernel
example : run Gen.Validate.spec ((exampleCfg.set .periodic (.list [.list [.int 0]])).set .reflective (.list [.int 1])) =
    .raise .typeError := by decide +kernel
-- split_threshold <= 0 passes SamplerConfig but not the constructor (HierarchicalGaussianMixture raises ValueError) …
example : run Gen.Validate.spec (exampleCfg.set .split_threshold (.int 0)) = .accept := by decide +kernel
example : construct Gen.Validate.spec Gen.Ctor.wiring Gen.Validate.wrapped (exampleCfg.set .split_threshold (.int 0)) =
    .raise .valueError := by decide +kernel
-- … unless clustering is off
example : construct Gen.Validate.spec Gen.Ctor.wiring Gen.Validate.wrapped
    ((exampleCfg.set .split_threshold (.int 0)).set .clustering (.bool false)) = .accept := by decide +kernel
-- hypotheses of the per-constraint lemmas are satisfiable
example : run Gen.Validate.spec (exampleCfg.set .sample (.str "hmc")) ≠ .accept :=
  C18_reject_kernel _ (by decide)
example : run Gen.Validate.spec (((exampleCfg.set .periodic (.list [.int 0])).set .reflective (.list [.bool false]))) ≠ .accept :=
  C18_reject_overlap _ (by decide) (by decide) (by decide)
-- wiring: with n_max_clusters = 2 the clusterer is built, max_iterations = 1 and min_points = 12
example : ∃ w, wire Gen.Ctor.wiring (exampleCfg.set .n_max_clusters (.int 2)) = .ok w :=
  (wire_ok_iff _ (by decide)).mpr fun _ => ⟨by decide, .fin 1, rfl, by decide +kernel⟩
example (w : Wired) (h : wire Gen.Ctor.wiring (exampleCfg.set .n_max_clusters (.int 2)) = .ok w) :
    w.maxIter = .int 1 ∧ w.minPoints = .int 12 :=
  ⟨(C18_wiring_sound _ w h (by decide)).1 2 rfl, (C18_wiring_sound _ w h (by decide)).2.2.1 2 3 rfl rfl⟩

end Props.C18
