import TempestVerif.Model.HFit
import TempestVerif.Props.C15
import TempestVerif.Lemmas.CholList
import TempestVerif.Lemmas.ScReal
import Mathlib.Tactic
/-
  C15 (clause audit) — the hierarchical clauses for the WHOLE model `Model.HFit.hfit`, with no oracle hypothesis:
  the oracle of the split loop is `Model.HFit.entryD` (two real mixture fits + `predict`), and its labels are
  shown to be `LabelsOK` here, for EVERY scalar instance (parts A–C are list lengths and index ranges only, so
  they hold for the `Float` instance the driver executes, NaN and infinities included).  Part D is at `ℝ`.
-/
namespace Props.C15
open Model.EM Model.GMM Model.HFit Lemmas.CholList
open Model.HGMM (Entry fitClusters assemble)

/-! ## generic `mapOpt` facts -/

theorem mapOpt_mem_any {β γ : Type} (f : β → Option γ) :
    ∀ (l : List β) (ys : List γ), mapOpt f l = some ys → ∀ y ∈ ys, ∃ x ∈ l, f x = some y := by
  intro l
  induction l with
  | nil => intro ys h y hy; simp [mapOpt] at h; subst h; simp at hy
  | cons x xs ih =>
    intro ys h y hy
    simp only [mapOpt] at h
    split at h
    · rename_i y0 ys' h1 h2
      simp only [Option.some.injEq] at h
      subst h
      rcases List.mem_cons.mp hy with rfl | hy
      · exact ⟨x, by simp, h1⟩
      · obtain ⟨x', hx', hf⟩ := ih ys' h2 y hy
        exact ⟨x', List.mem_cons_of_mem _ hx', hf⟩
    · simp at h

/-- pointwise transfer through `mapOpt`: if `h (f x) = k x` whenever `f x` is defined -/
theorem mapOpt_map_eq {β γ δ : Type} (f : β → Option γ) (h : γ → δ) (k : β → δ) :
    ∀ (l : List β) (ys : List γ), mapOpt f l = some ys → (∀ x ∈ l, ∀ y, f x = some y → h y = k x) →
      ys.map h = l.map k := by
  intro l
  induction l with
  | nil => intro ys hm _; simp [mapOpt] at hm; subst hm; rfl
  | cons x xs ih =>
    intro ys hm hk
    simp only [mapOpt] at hm
    split at hm
    · rename_i y0 ys' h1 h2
      simp only [Option.some.injEq] at hm
      subst hm
      simp only [List.map_cons]
      rw [hk x (by simp) y0 h1, ih ys' h2 (fun x' hx' y hy => hk x' (List.mem_cons_of_mem _ hx') y hy)]
    · simp at hm

section Generic
variable {α : Type} [ScT α]

/-! ## Part A — shapes of a fitted mixture -/

/-- all four parameter arrays of a mixture have `K` entries -/
def MShape (K : Nat) (p : MStep α) : Prop :=
  p.weights.length = K ∧ p.means.length = K ∧ p.covFull.length = K ∧ p.covDiag.length = K

theorem mstep_shape_any (tiny eps : α) (d K : Nat) (X R : List (List α)) (s : List α) :
    (mstep tiny eps d K X R s).weights.length = K ∧ (mstep tiny eps d K X R s).means.length = K ∧
    (mstep tiny eps d K X R s).covFull.length = K ∧ (mstep tiny eps d K X R s).covDiag.length = K := by
  simp [mstep, normalise, colSums]

theorem initParams_shape (tiny eps : α) (d K : Nat) (X L : List (List α)) (s : List α) :
    MShape K (initParams tiny eps d K X L s) := mstep_shape_any tiny eps d K X _ s

theorem emIter_shape (c : Cfg α) (X : Mat α) (s : List α) (p : MStep α) (q : MStep α × α)
    (h : emIter c X s p = some q) : MShape c.K q.1 := by
  unfold emIter at h
  split at h
  · cases h
  · simp only [Option.some.injEq] at h
    subst h
    exact mstep_shape_any _ _ _ _ _ _ _

/-- the EM loop returns an `mstep` (shape `K`) and the loop variable stays in `[it, it + fuel)` -/
theorem emLoop_spec (c : Cfg α) (X : Mat α) (s : List α) :
    ∀ (fuel it : Nat) (lb : Option α) (p : MStep α) (o : LoopOut α),
      emLoop c X s fuel it lb p = some o → MShape c.K o.params ∧ it ≤ o.iter ∧ o.iter < it + fuel := by
  intro fuel
  induction fuel with
  | zero => intro it lb p o h; simp [emLoop] at h
  | succ fuel ih =>
    intro it lb p o h
    simp only [emLoop] at h
    cases hq : emIter c X s p with
    | none => simp [hq] at h
    | some q =>
      obtain ⟨p', new⟩ := q
      have hs := emIter_shape c X s p _ hq
      simp only [hq] at h
      split at h
      · cases h; exact ⟨hs, le_refl _, by show it < it + (fuel + 1); omega⟩
      · split at h
        · cases h; exact ⟨hs, le_refl _, by show it < it + (fuel + 1); omega⟩
        · obtain ⟨h1, h2, h3⟩ := ih _ _ _ _ h
          exact ⟨h1, by omega, by omega⟩

/-- what is recorded as `best_params`: shape `K`, and `1 ≤ n_iter ≤ max_iter` -/
def BestOK (c : Cfg α) (b : Model.GMM.Best α) : Prop :=
  MShape c.K b.params ∧ 1 ≤ b.nIter ∧ b.nIter ≤ c.maxIter

theorem fitInits_spec (c : Cfg α) (X : Mat α) (s : List α) :
    ∀ (n : Nat) (tape : List α) (best : Option (Model.GMM.Best α)) (picks : List (List Nat))
      (r : Option (Model.GMM.Best α) × List (List Nat)),
      fitInits c X s n tape best picks = some r → (∀ b, best = some b → BestOK c b) →
      ∀ b, r.1 = some b → BestOK c b := by
  intro n
  induction n with
  | zero =>
    intro tape best picks r h hb b hr
    simp only [fitInits, Option.some.injEq] at h
    subst h
    exact hb b hr
  | succ n ih =>
    intro tape best picks r h hb b hr
    simp only [fitInits] at h
    cases hi : initFit c X s tape with
    | none => simp [hi] at h
    | some t =>
      obtain ⟨p0, pk, tape'⟩ := t
      simp only [hi] at h
      cases hl : emLoop c X s c.maxIter 0 none p0 with
      | none => simp [hl] at h
      | some o =>
        simp only [hl] at h
        obtain ⟨hs, _, hit⟩ := emLoop_spec c X s _ _ _ _ _ hl
        refine ih _ _ _ r h ?_ b hr
        intro b' hb'
        split at hb'
        · split at hb'
          · cases hb'
            exact ⟨hs, by simp, by simp; omega⟩
          · exact hb b' hb'
        · exact hb b' hb'

/-- **shape of a fitted mixture**: `fit` returns `K` weights, means and covariances -/
theorem fit_shape (c : Cfg α) (X : Mat α) (w tape : List α) (o : FitOut α) (h : fit c X w tape = some o) :
    o.params.weights.length = c.K ∧ o.params.means.length = c.K ∧ o.params.covFull.length = c.K ∧
    o.params.covDiag.length = c.K := by
  unfold fit at h
  split at h
  · cases h
  · cases h
  · rename_i b picks hf
    cases h
    exact (fitInits_spec c X _ _ _ _ _ _ hf (by intro b hb; cases hb) b rfl).1

/-- **`1 ≤ n_iter_ ≤ max_iter` and `converged_ = (n_iter_ < max_iter)`** -/
theorem C15_fit_iter_bounds (c : Cfg α) (X : Mat α) (w tape : List α) (o : FitOut α)
    (h : fit c X w tape = some o) :
    1 ≤ o.nIter ∧ o.nIter ≤ c.maxIter ∧ o.converged = decide (o.nIter < c.maxIter) := by
  unfold fit at h
  split at h
  · cases h
  · cases h
  · rename_i b picks hf
    cases h
    obtain ⟨_, h1, h2⟩ := fitInits_spec c X _ _ _ _ _ _ hf (by intro b hb; cases hb) b rfl
    exact ⟨h1, h2, rfl⟩

/-! ## Part B — `predict` and the oracle -/

theorem npArgmaxFrom_lt {β : Type} (le : β → β → Bool) (nan : β → Bool) (xs : List β) :
    ∀ (i bi : Nat) (bv : β), bi < i → npArgmaxFrom le nan i bi bv xs < i + xs.length := by
  induction xs with
  | nil => intro i bi bv h; simpa [npArgmaxFrom] using h
  | cons x xs ih =>
    intro i bi bv h
    simp only [npArgmaxFrom, List.length_cons]
    split
    · split
      · omega
      · have := ih (i + 1) i x (by omega); omega
    · have := ih (i + 1) bi bv (by omega); omega

theorem npArgminFrom_lt {β : Type} (le : β → β → Bool) (nan : β → Bool) (xs : List β) :
    ∀ (i bi : Nat) (bv : β), bi < i → npArgminFrom le nan i bi bv xs < i + xs.length := by
  induction xs with
  | nil => intro i bi bv h; simpa [npArgminFrom] using h
  | cons x xs ih =>
    intro i bi bv h
    simp only [npArgminFrom, List.length_cons]
    split
    · split
      · omega
      · have := ih (i + 1) i x (by omega); omega
    · have := ih (i + 1) bi bv (by omega); omega

/-- `np.argmax` (numpy semantics, NaN included) returns an index of the row -/
theorem npArgmax_lt {β : Type} (le : β → β → Bool) (nan : β → Bool) (row : List β) (k : Nat)
    (h : npArgmax le nan row = some k) : k < row.length := by
  cases row with
  | nil => simp [npArgmax] at h
  | cons x xs =>
    simp only [npArgmax, Option.some.injEq] at h
    subst h
    simp only [List.length_cons]
    split
    · omega
    · have := npArgmaxFrom_lt le nan xs 1 0 x (by omega); omega

theorem npArgmax_none {β : Type} (le : β → β → Bool) (nan : β → Bool) (row : List β) :
    npArgmax le nan row = none ↔ row = [] := by
  cases row <;> simp [npArgmax]

theorem npArgmin_lt {β : Type} (le : β → β → Bool) (nan : β → Bool) (row : List β) (k : Nat)
    (h : npArgmin le nan row = some k) : k < row.length := by
  cases row with
  | nil => simp [npArgmin] at h
  | cons x xs =>
    simp only [npArgmin, Option.some.injEq] at h
    subst h
    simp only [List.length_cons]
    split
    · omega
    · have := npArgminFrom_lt le nan xs 1 0 x (by omega); omega

theorem npArgmin_none {β : Type} (le : β → β → Bool) (nan : β → Bool) (row : List β) :
    npArgmin le nan row = none ↔ row = [] := by
  cases row <;> simp [npArgmin]

theorem npArgmax_some_of_ne {β : Type} (le : β → β → Bool) (nan : β → Bool) (row : List β) (h : row ≠ []) :
    ∃ k, npArgmax le nan row = some k ∧ k < row.length := by
  cases hk : npArgmax le nan row with
  | none => exact absurd ((npArgmax_none le nan row).mp hk) h
  | some k => exact ⟨k, rfl, npArgmax_lt le nan row k hk⟩

theorem npArgmin_some_of_ne {β : Type} (le : β → β → Bool) (nan : β → Bool) (row : List β) (h : row ≠ []) :
    ∃ k, npArgmin le nan row = some k ∧ k < row.length := by
  cases hk : npArgmin le nan row with
  | none => exact absurd ((npArgmin_none le nan row).mp hk) h
  | some k => exact ⟨k, rfl, npArgmin_lt le nan row k hk⟩

theorem col_length_le {β : Type} (M : List (List β)) (k : Nat) : (col M k).length ≤ M.length := by
  unfold col; exact List.length_filterMap_le _ _

/-- **`GaussianMixture.predict`: one label per row, every label below the number of components** -/
theorem predict_labels (c : Cfg α) (p : MStep α) (X : Mat α) (labels : List Nat)
    (h : mapOpt id (Model.GMM.predict c p X) = some labels) :
    labels.length = X.length ∧ ∀ l ∈ labels, l < p.weights.length := by
  constructor
  · rw [mapOpt_length id _ _ h]; simp [Model.GMM.predict]
  · intro l hl
    obtain ⟨x, hx, hxl⟩ := mapOpt_mem_any id _ _ h l hl
    simp only [id] at hxl
    subst hxl
    simp only [Model.GMM.predict, List.mem_map, List.mem_range] at hx
    obtain ⟨i, _, hi⟩ := hx
    have h1 := npArgmax_lt _ _ _ _ hi
    have h2 := col_length_le
      ((List.zip p.weights (List.zip p.means (covMats c.diagT p))).map fun t =>
        predictCol c.sing c.reg c.eps c.d X.length t.1 t.2.1 t.2.2 X) i
    have h3 : ((List.zip p.weights (List.zip p.means (covMats c.diagT p))).map fun t =>
        predictCol c.sing c.reg c.eps c.d X.length t.1 t.2.1 t.2.2 X).length ≤ p.weights.length := by
      simp only [List.length_map, List.length_zip]; omega
    omega

theorem gather_length {β : Type} (X : List β) (idx : List Nat) (ys : List β) (h : gather X idx = some ys) :
    ys.length = idx.length := mapOpt_length _ _ _ h

/-- **the oracle of the whole model hands the split loop one label in {0, 1} per member** — the hypothesis
    `hlab` of the oracle-level theorems (`C15_partition`, `C15_cap`, …) holds for `entryD`, unconditionally -/
theorem C15_entryD_labelsOK (c : HCfg α) (X : Mat α) (w : List α) :
    ∀ (it idx : Nat) (m : List Nat), LabelsOK m (entryD c X w it idx m).childLabels := by
  intro it idx m
  unfold entryD
  cases he : entry? c X w m with
  | none => simp [LabelsOK]
  | some e =>
    simp only
    unfold entry? at he
    split at he
    · rename_i data wts hd hw
      split at he
      · rename_i par chi hp hc
        split at he
        · rename_i labels hl
          cases he
          simp only
          obtain ⟨h1, h2⟩ := predict_labels _ _ _ _ hl
          have hK := (fit_shape _ _ _ _ _ hc).1
          refine ⟨by rw [h1]; exact gather_length _ _ _ hd, ?_⟩
          intro l hl'
          have := h2 l hl'
          rw [hK] at this
          exact this
        · cases he
      · cases he
    · cases he

/-! ## Part C — the whole hierarchical fit -/

/-- the `bounds` of `hfit`: `_data_min`, `_data_max` when normalisation is on -/
def hbounds (c : HCfg α) (X : Mat α) : Option (List α × List α) :=
  if c.normalize then
    match colExt Sc.min c.d X, colExt Sc.max c.d X with
    | some mn, some mx => some (mn, mx)
    | _, _ => none
  else some ([], [])

/-- the working coordinates (`Xw` of `hfit`) for given bounds -/
def workOf (c : HCfg α) (X : Mat α) (mn mx : List α) : Mat α :=
  if c.normalize then X.map (normRow c.eps mn mx) else X

/-- the data the split loop and the per-cluster fits of `hfit` actually see -/
def workData (c : HCfg α) (X : Mat α) : Option (Mat α) := (hbounds c X).map fun b => workOf c X b.1 b.2

/-- the per-cluster record `(center, cov, Σ weights)` of `hfit` -/
def perCluster (c : HCfg α) (Xw : Mat α) (w mn mx : List α) (m : List Nat) : Option (List α × Mat α × α) :=
  match gather Xw m, gather w m with
  | some data, some wts =>
    match clusterParams c data wts with
    | none => none
    | some (ctr, cov) =>
      if c.normalize then (denormCov c.d mn mx cov).map fun cv => (denormRow mn mx ctr, cv, Sc.sum wts)
      else some (ctr, cov, Sc.sum wts)
  | _, _ => none

theorem hfit_eq (c : HCfg α) (X : Mat α) (w : List α) :
    hfit c X w =
      match hbounds c X with
      | none => none
      | some (mn, mx) =>
        if loopOK c (workOf c X mn mx) w (minPts c) c.maxIterations 0 [List.range X.length] then
          (mapOpt (perCluster c (workOf c X mn mx) w mn mx)
            (fitClusters (entryD c (workOf c X mn mx) w) X.length (minPts c) c.maxIterations)).map fun ps =>
            { clusters := fitClusters (entryD c (workOf c X mn mx) w) X.length (minPts c) c.maxIterations,
              labels := assemble X.length
                (fitClusters (entryD c (workOf c X mn mx) w) X.length (minPts c) c.maxIterations),
              centers := ps.map (·.1), covs := ps.map (·.2.1),
              weights := ps.map fun p => Sc.div p.2.2 (Sc.sum w), dataMin := mn, dataMax := mx }
        else none := rfl

/-- everything a successful `hfit` says, statement by statement -/
theorem hfit_some (c : HCfg α) (X : Mat α) (w : List α) (f : HFitOut α) (h : hfit c X w = some f) :
    ∃ mn mx ps, hbounds c X = some (mn, mx) ∧
      loopOK c (workOf c X mn mx) w (minPts c) c.maxIterations 0 [List.range X.length] = true ∧
      mapOpt (perCluster c (workOf c X mn mx) w mn mx)
        (fitClusters (entryD c (workOf c X mn mx) w) X.length (minPts c) c.maxIterations) = some ps ∧
      f = { clusters := fitClusters (entryD c (workOf c X mn mx) w) X.length (minPts c) c.maxIterations,
            labels := assemble X.length
              (fitClusters (entryD c (workOf c X mn mx) w) X.length (minPts c) c.maxIterations),
            centers := ps.map (·.1), covs := ps.map (·.2.1),
            weights := ps.map fun p => Sc.div p.2.2 (Sc.sum w), dataMin := mn, dataMax := mx } := by
  rw [hfit_eq] at h
  cases hb : hbounds c X with
  | none => simp [hb] at h
  | some b =>
    obtain ⟨mn, mx⟩ := b
    simp only [hb] at h
    split at h
    · rename_i hok
      simp only [Option.map_eq_some_iff] at h
      obtain ⟨ps, hps, hf⟩ := h
      exact ⟨mn, mx, ps, rfl, hok, hps, hf.symm⟩
    · cases h

/-- **the clusters of the whole fit are those of the split loop run with the oracle `entryD`** on the working
    data, the labels are their assembly, and no examined cluster made the Python raise -/
theorem C15_hfit_clusters (c : HCfg α) (X : Mat α) (w : List α) (f : HFitOut α) (h : hfit c X w = some f) :
    ∃ Xw, workData c X = some Xw ∧
      f.clusters = fitClusters (entryD c Xw w) X.length (minPts c) c.maxIterations ∧
      f.labels = assemble X.length f.clusters ∧
      loopOK c Xw w (minPts c) c.maxIterations 0 [List.range X.length] = true := by
  obtain ⟨mn, mx, ps, hb, hok, _, rfl⟩ := hfit_some c X w f h
  exact ⟨workOf c X mn mx, by simp [workData, hb], rfl, rfl, hok⟩

theorem entryD_hlab (c : HCfg α) (Xw : Mat α) (w : List α) (mp : Nat) :
    ∀ it idx m, mp ≤ m.length → LabelsOK m (entryD c Xw w it idx m).childLabels :=
  fun it idx m _ => C15_entryD_labelsOK c Xw w it idx m

/-- **the final clusters partition the training indices** (no oracle hypothesis) -/
theorem C15_hfit_partition (c : HCfg α) (X : Mat α) (w : List α) (f : HFitOut α) (h : hfit c X w = some f) :
    IsPartition X.length f.clusters := by
  obtain ⟨Xw, _, hcl, _, _⟩ := C15_hfit_clusters c X w f h
  rw [hcl]
  exact C15_partition _ _ _ _ (entryD_hlab c Xw w _)

/-- **`1 ≤ n_clusters_ ≤ max_iterations + 1`** -/
theorem C15_hfit_cap (c : HCfg α) (X : Mat α) (w : List α) (f : HFitOut α) (h : hfit c X w = some f) :
    1 ≤ f.clusters.length ∧ f.clusters.length ≤ c.maxIterations + 1 := by
  obtain ⟨Xw, _, hcl, _, _⟩ := C15_hfit_clusters c X w f h
  rw [hcl]
  exact C15_cap _ _ _ _ (entryD_hlab c Xw w _)

/-- **nothing was split, or every final cluster has at least `min_points` members** -/
theorem C15_hfit_min_points (c : HCfg α) (X : Mat α) (w : List α) (f : HFitOut α) (h : hfit c X w = some f) :
    f.clusters = [List.range X.length] ∨ ∀ m ∈ f.clusters, minPts c ≤ m.length := by
  obtain ⟨Xw, _, hcl, _, _⟩ := C15_hfit_clusters c X w f h
  rw [hcl]
  exact C15_min_points_final _ _ _ _ (entryD_hlab c Xw w _)

/-- **every training point gets exactly one label, below `n_clusters_`**: the index of the one cluster holding it -/
theorem C15_hfit_labels_total (c : HCfg α) (X : Mat α) (w : List α) (f : HFitOut α) (h : hfit c X w = some f)
    (i : Nat) (hi : i < X.length) :
    f.labels.length = X.length ∧
    ∃ k cl, k < f.clusters.length ∧ f.labels[i]? = some (some k) ∧ f.clusters[k]? = some cl ∧ i ∈ cl ∧
      ∀ k' c', f.clusters[k']? = some c' → i ∈ c' → k' = k := by
  obtain ⟨Xw, _, hcl, hlab, _⟩ := C15_hfit_clusters c X w f h
  rw [hlab, hcl]
  exact C15_labels_total _ _ _ _ (entryD_hlab c Xw w _) i hi

/-- **one centre, one covariance array and one weight per cluster** -/
theorem C15_hfit_shapes (c : HCfg α) (X : Mat α) (w : List α) (f : HFitOut α) (h : hfit c X w = some f) :
    f.centers.length = f.clusters.length ∧ f.covs.length = f.clusters.length ∧
    f.weights.length = f.clusters.length := by
  obtain ⟨mn, mx, ps, _, _, hps, rfl⟩ := hfit_some c X w f h
  have := mapOpt_length _ _ _ hps
  simp [this]

/-! ### `predict` / `predict_proba` of the hierarchical model -/

theorem logpdfCol_length_any (sing : Mat α → Bool) (d : Nat) (M : Mat α) (m : List α) (X : Mat α) (l : List α)
    (h : logpdfCol sing d M m X = some l) : l.length = X.length := by
  unfold logpdfCol at h
  split at h
  · cases h
  · split at h
    · cases h
    · exact mapOpt_length _ _ _ h

theorem probCol_length (c : HCfg α) (mean : List α) (cov : Mat α) (Xq : Mat α) (l : List α)
    (h : probCol c mean cov Xq = some l) : l.length = Xq.length := by
  unfold probCol at h
  simp only at h
  split at h
  · rename_i l' hl
    cases h
    exact logpdfCol_length_any _ _ _ _ _ _ hl
  · exact logpdfCol_length_any _ _ _ _ _ _ h

theorem softmaxRow_length (row : List α) : (softmaxRow row).length = row.length := by
  cases row <;> simp [softmaxRow]

/-- the probability matrix of `_compute_gaussian_probabilities`: one row per query point, `K` entries per row -/
theorem gaussProbs_shape (c : HCfg α) (f : HFitOut α) (Xq : Mat α) (P : Mat α) (K : Nat)
    (hc : f.centers.length = K) (hv : f.covs.length = K) (hw : f.weights.length = K)
    (h : gaussProbs c f Xq = some P) : P.length = Xq.length ∧ ∀ row ∈ P, row.length = K := by
  unfold gaussProbs at h
  simp only [Option.map_eq_some_iff] at h
  obtain ⟨cs, hcs, rfl⟩ := h
  have hlen : cs.length = K := by
    rw [mapOpt_length _ _ _ hcs]; simp [hc, hv, hw]
  have hcol : ∀ col' ∈ cs, col'.length = Xq.length := by
    intro col' hcol'
    obtain ⟨t, _, ht⟩ := mapOpt_mem_any _ _ _ hcs col' hcol'
    split at ht
    · cases ht
    · simp only [Option.map_eq_some_iff] at ht
      obtain ⟨l, hl, rfl⟩ := ht
      simp [probCol_length _ _ _ _ _ hl]
  constructor
  · simp [rowsOfCols]
  · intro row hrow
    simp only [rowsOfCols, List.map_map, List.mem_map, List.mem_range] at hrow
    obtain ⟨i, hi, rfl⟩ := hrow
    simp only [Function.comp, softmaxRow_length]
    rw [col_length cs i (by intro r hr; rw [hcol r hr]; exact hi), hlen]

theorem distRows_shape (centers Xq : Mat α) :
    (distRows centers Xq).length = Xq.length ∧ ∀ row ∈ distRows centers Xq, row.length = centers.length := by
  constructor
  · simp [distRows]
  · intro row hrow
    simp only [distRows, List.mem_map] at hrow
    obtain ⟨x, _, rfl⟩ := hrow
    simp

/-- the query points in working coordinates (`Xn` of `hpredict`) -/
def normQ (c : HCfg α) (f : HFitOut α) (Xq : Mat α) : Mat α :=
  if c.normalize then Xq.map (normRow c.eps f.dataMin f.dataMax) else Xq

/-- the centres in working coordinates (`ctrs` of `hpredict`) -/
def normCtrs (c : HCfg α) (f : HFitOut α) : Mat α :=
  if c.normalize then f.centers.map (normRow c.eps f.dataMin f.dataMax) else f.centers

/-- the mixture path is taken iff `_gmm_ready` and no column raised -/
def probsOrNone (c : HCfg α) (f : HFitOut α) (ready : Bool) (Xn : Mat α) : Option (Mat α) :=
  if ready then gaussProbs c f Xn else none

theorem normQ_length (c : HCfg α) (f : HFitOut α) (Xq : Mat α) : (normQ c f Xq).length = Xq.length := by
  unfold normQ; split <;> simp

theorem normCtrs_length (c : HCfg α) (f : HFitOut α) : (normCtrs c f).length = f.centers.length := by
  unfold normCtrs; split <;> simp

theorem probsOrNone_some (c : HCfg α) (f : HFitOut α) (ready : Bool) (Xn : Mat α) (P : Mat α)
    (h : probsOrNone c f ready Xn = some P) : gaussProbs c f Xn = some P := by
  unfold probsOrNone at h
  split at h
  · exact h
  · cases h

theorem hpredict_eq (c : HCfg α) (f : HFitOut α) (ready : Bool) (Xq : Mat α) :
    hpredict c f ready Xq =
      match probsOrNone c f ready (normQ c f Xq) with
      | some P => P.map (npArgmax Sc.le isNaN)
      | none => (distRows (normCtrs c f) (normQ c f Xq)).map (npArgmin Sc.le isNaN) := rfl

theorem hpredictProba_eq (c : HCfg α) (f : HFitOut α) (ready : Bool) (Xq : Mat α) :
    hpredictProba c f ready Xq =
      match probsOrNone c f ready (normQ c f Xq) with
      | some P => P
      | none => (distRows (normCtrs c f) (normQ c f Xq)).map fun row =>
          (row.map fun dd => Sc.div Sc.one (Sc.add dd c.epsD)).map fun v =>
            Sc.div v (Sc.sum (row.map fun dd => Sc.div Sc.one (Sc.add dd c.epsD))) := rfl

/-- **`predict` returns one label per query point, each in `[0, K)`** — for ANY query matrix, on the mixture
    path and on the nearest-centre fall-back, NaN or not -/
theorem C15_hpredict_range (c : HCfg α) (f : HFitOut α) (ready : Bool) (Xq : Mat α) (K : Nat)
    (hc : f.centers.length = K) (hv : f.covs.length = K) (hw : f.weights.length = K) (hK : 1 ≤ K) :
    (hpredict c f ready Xq).length = Xq.length ∧
    ∀ l ∈ hpredict c f ready Xq, ∃ k, l = some k ∧ k < K := by
  rw [hpredict_eq]
  cases hg : probsOrNone c f ready (normQ c f Xq) with
  | some P =>
    simp only
    obtain ⟨h1, h2⟩ := gaussProbs_shape c f _ P K hc hv hw (probsOrNone_some _ _ _ _ _ hg)
    refine ⟨by simp [h1, normQ_length], ?_⟩
    intro l hl
    simp only [List.mem_map] at hl
    obtain ⟨row, hrow, rfl⟩ := hl
    have hlen := h2 row hrow
    have hne : row ≠ [] := by intro h0; rw [h0] at hlen; simp at hlen; omega
    obtain ⟨k, hk, hlt⟩ := npArgmax_some_of_ne Sc.le isNaN row hne
    exact ⟨k, hk, by omega⟩
  | none =>
    simp only
    obtain ⟨h1, h2⟩ := distRows_shape (normCtrs c f) (normQ c f Xq)
    refine ⟨by simp [h1, normQ_length], ?_⟩
    intro l hl
    simp only [List.mem_map] at hl
    obtain ⟨row, hrow, rfl⟩ := hl
    have hlen := h2 row hrow
    rw [normCtrs_length, hc] at hlen
    have hne : row ≠ [] := by intro h0; rw [h0] at hlen; simp at hlen; omega
    obtain ⟨k, hk, hlt⟩ := npArgmin_some_of_ne Sc.le isNaN row hne
    exact ⟨k, hk, by omega⟩

/-- **predicted labels of a fitted model lie below `n_clusters_`** -/
theorem C15_hfit_predict_range (c : HCfg α) (X : Mat α) (w : List α) (f : HFitOut α) (h : hfit c X w = some f)
    (ready : Bool) (Xq : Mat α) :
    (hpredict c f ready Xq).length = Xq.length ∧
    ∀ l ∈ hpredict c f ready Xq, ∃ k, l = some k ∧ k < f.clusters.length := by
  obtain ⟨h1, h2, h3⟩ := C15_hfit_shapes c X w f h
  exact C15_hpredict_range c f ready Xq _ h1 h2 h3 (C15_hfit_cap c X w f h).1

/-- **`predict_proba` returns an `n_query × K` matrix** on both paths -/
theorem C15_hpredictProba_shape (c : HCfg α) (f : HFitOut α) (ready : Bool) (Xq : Mat α) (K : Nat)
    (hc : f.centers.length = K) (hv : f.covs.length = K) (hw : f.weights.length = K) :
    (hpredictProba c f ready Xq).length = Xq.length ∧
    ∀ row ∈ hpredictProba c f ready Xq, row.length = K := by
  rw [hpredictProba_eq]
  cases hg : probsOrNone c f ready (normQ c f Xq) with
  | some P =>
    simp only
    obtain ⟨h1, h2⟩ := gaussProbs_shape c f _ P K hc hv hw (probsOrNone_some _ _ _ _ _ hg)
    exact ⟨by rw [h1, normQ_length], h2⟩
  | none =>
    simp only
    obtain ⟨h1, h2⟩ := distRows_shape (normCtrs c f) (normQ c f Xq)
    refine ⟨by simp [h1, normQ_length], ?_⟩
    intro row hrow
    simp only [List.mem_map] at hrow
    obtain ⟨r, hr, rfl⟩ := hrow
    simp [h2 r hr, normCtrs_length, hc]

/-- every row of the mixture-path matrix is a `softmaxRow` -/
theorem gaussProbs_rows (c : HCfg α) (f : HFitOut α) (Xq : Mat α) (P : Mat α) (h : gaussProbs c f Xq = some P) :
    ∀ row ∈ P, ∃ r, row = softmaxRow r := by
  unfold gaussProbs at h
  simp only [Option.map_eq_some_iff] at h
  obtain ⟨cs, _, rfl⟩ := h
  intro row hrow
  simp only [List.mem_map] at hrow
  obtain ⟨r, _, rfl⟩ := hrow
  exact ⟨r, rfl⟩

end Generic

/-! ## Part D — at `ℝ` -/
section Real

/-- the shift `logsumexp` pulls out (the row maximum; at `ℝ` it is always finite) -/
noncomputable def lseShift (x : ℝ) (xs : List ℝ) : ℝ := if isFinite (rowMax x xs) then rowMax x xs else Sc.zero

theorem softmaxRow_cons (x : ℝ) (xs : List ℝ) :
    softmaxRow (x :: xs) = (x :: xs).map fun t =>
      Real.exp (t - (Real.log (Sc.sum ((x :: xs).map fun u => Real.exp (u - lseShift x xs))) + lseShift x xs)) := rfl

theorem isFinite_real (x : ℝ) : isFinite x = true := by simp [isFinite]

/-- at `ℝ` the shift IS the row maximum -/
theorem lseShift_eq (x : ℝ) (xs : List ℝ) : lseShift x xs = rowMax x xs := by
  simp [lseShift, isFinite_real]

theorem exp_shift_normalise (l : List ℝ) (m : ℝ) (h : l ≠ []) :
    (l.map fun t => Real.exp (t - (Real.log (Sc.sum (l.map fun u => Real.exp (u - m))) + m)))
      = normalise (l.map fun u => Real.exp (u - m)) ∧
    (∀ e ∈ l.map fun u => Real.exp (u - m), 0 ≤ e) ∧ 0 < (l.map fun u => Real.exp (u - m)).sum := by
  have hpos : ∀ e ∈ l.map fun u => Real.exp (u - m), 0 < e := by
    intro e he
    simp only [List.mem_map] at he
    obtain ⟨u, _, rfl⟩ := he
    exact Real.exp_pos _
  have hS : 0 < (l.map fun u => Real.exp (u - m)).sum := List.sum_pos _ hpos (by simpa using h)
  refine ⟨?_, fun e he => (hpos e he).le, hS⟩
  simp only [normalise, List.map_map, sum_eq]
  apply List.map_congr_left
  intro t _
  simp only [Function.comp, ScReal.div_def]
  rw [show t - (Real.log (l.map fun u => Real.exp (u - m)).sum + m)
      = (t - m) - Real.log (l.map fun u => Real.exp (u - m)).sum by ring, Real.exp_sub, Real.exp_log hS]

/-- **a row of the mixture-path `predict_proba` is a probability vector**: `exp(row − logsumexp(row))` has
    non-negative entries that sum to exactly 1 -/
theorem C15_softmaxRow_simplex (row : List ℝ) (h : row ≠ []) :
    (∀ p ∈ softmaxRow row, 0 ≤ p) ∧ Sc.sum (softmaxRow row) = 1 := by
  cases row with
  | nil => exact absurd rfl h
  | cons x xs =>
    rw [softmaxRow_cons]
    obtain ⟨key, h0, hS⟩ := exp_shift_normalise (x :: xs) (lseShift x xs) (by simp)
    rw [key]
    exact normalise_simplex _ h0 hS

theorem sqdist_nonneg_sqrt (x y : List ℝ) : 0 ≤ (ScT.sqrt (sqdist x y) : ℝ) := by
  simp only [ScReal.sqrt_def]; exact Real.sqrt_nonneg _

/-- **every row of `predict_proba` is a probability vector**, on the mixture path and on the distance fall-back
    (`1 / (dist + 1e-8)` is positive because a distance is a square root) -/
theorem C15_hpredictProba_simplex (c : HCfg ℝ) (f : HFitOut ℝ) (ready : Bool) (Xq : Mat ℝ) (K : Nat)
    (hc : f.centers.length = K) (hv : f.covs.length = K) (hw : f.weights.length = K) (hK : 1 ≤ K)
    (heps : 0 < c.epsD) :
    ∀ row ∈ hpredictProba c f ready Xq, (∀ p ∈ row, 0 ≤ p) ∧ Sc.sum row = 1 := by
  rw [hpredictProba_eq]
  cases hg : probsOrNone c f ready (normQ c f Xq) with
  | some P =>
    simp only
    have hgp := probsOrNone_some _ _ _ _ _ hg
    obtain ⟨_, h2⟩ := gaussProbs_shape c f _ P K hc hv hw hgp
    intro row hrow
    obtain ⟨r, rfl⟩ := gaussProbs_rows c f _ P hgp row hrow
    have hlen := h2 _ hrow
    rw [softmaxRow_length] at hlen
    exact C15_softmaxRow_simplex r (by intro h0; rw [h0] at hlen; simp at hlen; omega)
  | none =>
    simp only
    intro row hrow
    simp only [List.mem_map] at hrow
    obtain ⟨r, hr, rfl⟩ := hrow
    have hlen := (distRows_shape (normCtrs c f) (normQ c f Xq)).2 r hr
    rw [normCtrs_length, hc] at hlen
    have hr0 : ∀ dd ∈ r, 0 ≤ dd := by
      intro dd hdd
      simp only [distRows, List.mem_map] at hr
      obtain ⟨x, _, rfl⟩ := hr
      simp only [List.mem_map] at hdd
      obtain ⟨ctr, _, rfl⟩ := hdd
      exact sqdist_nonneg_sqrt _ _
    have hpos : ∀ v ∈ r.map fun dd => Sc.div Sc.one (Sc.add dd c.epsD), 0 < v := by
      intro v hv'
      simp only [List.mem_map] at hv'
      obtain ⟨dd, hdd, rfl⟩ := hv'
      have := hr0 dd hdd
      simp only [ScReal.div_def, ScReal.one_def, ScReal.add_def]
      positivity
    have hne : r.map (fun dd => Sc.div Sc.one (Sc.add dd c.epsD)) ≠ [] := by
      intro h0; rw [List.map_eq_nil_iff] at h0; rw [h0] at hlen; simp at hlen; omega
    exact normalise_simplex _ (fun v hv' => (hpos v hv').le) (List.sum_pos _ hpos hne)

/-! ### `cluster_weights_` -/

theorem gather_eq_map (w : List ℝ) (m : List Nat) (wts : List ℝ) (h : gather w m = some wts) :
    wts = m.map fun i => w.getD i 0 := by
  have := mapOpt_map_eq (fun i => w[i]?) id (fun i => w.getD i 0) m wts h
    (by intro i _ y hy; simp [List.getD_eq_getElem?_getD, hy])
  simpa using this

theorem perCluster_weight (c : HCfg ℝ) (Xw : Mat ℝ) (w mn mx : List ℝ) (m : List Nat) (y : List ℝ × Mat ℝ × ℝ)
    (h : perCluster c Xw w mn mx m = some y) : y.2.2 = (m.map fun i => w.getD i 0).sum := by
  unfold perCluster at h
  split at h
  · rename_i data wts hd hwt
    rw [← gather_eq_map w m wts hwt, ← sum_eq]
    split at h
    · cases h
    · split at h
      · simp only [Option.map_eq_some_iff] at h
        obtain ⟨cv, _, rfl⟩ := h
        rfl
      · cases h; rfl
  · cases h

theorem range_map_getD (w : List ℝ) : (List.range w.length).map (fun i => w.getD i 0) = w := by
  apply List.ext_getElem
  · simp
  · intro i h1 h2
    simp [List.getD_eq_getElem?_getD, List.getElem?_eq_getElem h2]

/-- **`cluster_weights_` is a probability vector**: the clusters partition the training indices, so the
    per-cluster weight sums add up to the total weight -/
theorem C15_hfit_cluster_weights_simplex (c : HCfg ℝ) (X : Mat ℝ) (w : List ℝ) (f : HFitOut ℝ)
    (h : hfit c X w = some f) (hw0 : ∀ x ∈ w, 0 ≤ x) (hpos : 0 < Sc.sum w) (hlen : w.length = X.length) :
    (∀ p ∈ f.weights, 0 ≤ p) ∧ Sc.sum f.weights = 1 := by
  have hpart := C15_hfit_partition c X w f h
  obtain ⟨mn, mx, ps, _, _, hps, rfl⟩ := hfit_some c X w f h
  simp only at hpart ⊢
  set clusters := fitClusters (entryD c (workOf c X mn mx) w) X.length (minPts c) c.maxIterations with hcl
  have hS : ps.map (·.2.2) = clusters.map fun m => (m.map fun i => w.getD i 0).sum :=
    mapOpt_map_eq _ _ _ clusters ps hps (fun m _ y hy => perCluster_weight c _ w mn mx m y hy)
  have hsum : (clusters.map fun m => (m.map fun i => w.getD i 0).sum).sum = w.sum := by
    have h1 : (clusters.map fun m => (m.map fun i => w.getD i 0).sum)
        = (clusters.map (List.map fun i => w.getD i 0)).map List.sum := by
      simp [List.map_map, Function.comp]
    rw [h1, ← List.sum_flatten, ← List.map_flatten, (hpart.map _).sum_eq, ← hlen, range_map_getD]
  have hg0 : ∀ i, 0 ≤ w.getD i 0 := by
    intro i
    rw [List.getD_eq_getElem?_getD]
    cases hi : w[i]? with
    | none => simp
    | some y => simpa using hw0 y (List.mem_of_getElem? hi)
  have h0 : ∀ x ∈ clusters.map fun m => (m.map fun i => w.getD i 0).sum, 0 ≤ x := by
    intro x hx
    simp only [List.mem_map] at hx
    obtain ⟨m, _, rfl⟩ := hx
    apply List.sum_nonneg
    intro y hy
    simp only [List.mem_map] at hy
    obtain ⟨i, _, rfl⟩ := hy
    exact hg0 i
  have hpos' : 0 < (clusters.map fun m => (m.map fun i => w.getD i 0).sum).sum := by
    rw [hsum, ← sum_eq]; exact hpos
  have key : ps.map (fun p => Sc.div p.2.2 (Sc.sum w))
      = normalise (clusters.map fun m => (m.map fun i => w.getD i 0).sum) := by
    simp only [normalise, sum_eq, hsum]
    rw [← hS]
    simp [List.map_map, Function.comp]
  rw [key]
  exact normalise_simplex _ h0 hpos'

end Real

/-! ## Part E — non-vacuity -/
section Examples

/-- `np.argmax`/`np.argmin` on a concrete row: first maximum / first minimum -/
example : npArgmax (fun a b : Nat => decide (a ≤ b)) (fun _ => false) [3, 7, 7, 1] = some 1 := by decide
example : npArgmin (fun a b : Nat => decide (a ≤ b)) (fun _ => false) [3, 7, 1, 1] = some 2 := by decide
/-- the first NaN (here `none`) wins outright, as in numpy -/
example : npArgmax (fun a b : Option Nat => match a, b with | some x, some y => decide (x ≤ y) | _, _ => false)
    (fun a => a.isNone) [some 3, none, some 9, none] = some 1 := by decide
example : npArgmax (fun a b : Nat => decide (a ≤ b)) (fun _ => false) ([] : List Nat) = none := by decide

/-- numpy broadcasting of a `1 × 2` array against `2 × 2`, the diagonal of a `2 × 2`, a failing shape -/
example : bcast 2 [[1, 2]] = some [[1, 2], [1, 2]] := by decide
example : bcast 2 [[1], [2]] = some [[1, 1], [2, 2]] := by decide
example : bcast 2 [[1, 2, 3]] = (none : Option (Mat Nat)) := by decide
example : diag2 [[1, 2], [3, 4]] = [1, 4] := by decide
example : diag2 [[1, 2]] = [1] := by decide
example : vecPlusEye (1 : ℝ) [2, 3] = [[3, 3], [2, 4]] := by
  simp [vecPlusEye, List.range_succ, List.zipIdx]; norm_num

example : softmaxRow ([0, 0] : List ℝ) = [1 / 2, 1 / 2] := by
  rw [softmaxRow_cons, lseShift_eq]
  simp [rowMax, Sc.sum, ScReal.max_def]
  norm_num [Real.exp_neg, Real.exp_log]

/-- a concrete configuration at `ℝ` (three features, `min_points = 5`, one pass allowed) -/
noncomputable def cEx : HCfg ℝ :=
  { sing := fun _ => false, diagT := false, normalize := false, tiny := 0, eps := 1 / 10 ^ 10, reg := 1 / 10 ^ 6,
    tol := 1 / 10 ^ 3, gmmMaxIter := 10, nInit := 1, maxIterations := 1, minPoints := some 5, modifier := 1, d := 3,
    tape := [], regP := 1 / 10 ^ 6, epsD := 1 / 10 ^ 8 }

/-- the oracle on a cluster whose indices are out of range (the Python raises): the default labels, which are `LabelsOK` -/
example : (entryD cEx [] [] 1 0 [4, 7]).childLabels = [0, 0] := by
  simp [entryD, entry?, gather, mapOpt]
example : LabelsOK [4, 7] (entryD cEx [] [] 1 0 [4, 7]).childLabels := C15_entryD_labelsOK cEx [] [] 1 0 [4, 7]

/-- a fitted object with two clusters: the hypotheses of `C15_hpredict_range` / `C15_hpredictProba_simplex` hold -/
noncomputable def fEx : HFitOut ℝ :=
  { clusters := [[0, 2], [1]], labels := [some 0, some 1, some 0], centers := [[0, 0, 0], [3, 4, 0]],
    covs := [scaledEye 3 1, scaledEye 3 1], weights := [2 / 3, 1 / 3], dataMin := [], dataMax := [] }

example (ready : Bool) (Xq : Mat ℝ) :
    (hpredict cEx fEx ready Xq).length = Xq.length ∧ ∀ l ∈ hpredict cEx fEx ready Xq, ∃ k, l = some k ∧ k < 2 :=
  C15_hpredict_range cEx fEx ready Xq 2 rfl rfl rfl (by norm_num)

example (ready : Bool) (Xq : Mat ℝ) :
    ∀ row ∈ hpredictProba cEx fEx ready Xq, (∀ p ∈ row, 0 ≤ p) ∧ Sc.sum row = 1 :=
  C15_hpredictProba_simplex cEx fEx ready Xq 2 rfl rfl rfl (by norm_num) (by norm_num [cEx])

/-- `hfit` at `ℝ` on two points in three dimensions (fewer points than `min_points`: no split; fewer than features:
    the `np.mean` / `np.eye` branch): it succeeds, so the hypotheses of `C15_hfit_cluster_weights_simplex` are met -/
example : ∃ f, hfit cEx [[0, 0, 0], [3, 4, 0]] [1, 1] = some f ∧ f.clusters = [[0, 1]] ∧
    ((∀ p ∈ f.weights, 0 ≤ p) ∧ Sc.sum f.weights = 1) := by
  refine ⟨_, rfl, rfl, ?_⟩
  exact C15_hfit_cluster_weights_simplex cEx [[0, 0, 0], [3, 4, 0]] [1, 1] _ rfl
    (by simp) (by simp [Sc.sum]) rfl

/-! ### the whole pipeline evaluated on a toy scalar instance
  Parts A–C hold for EVERY `ScT` instance.  To show their hypotheses (`fit … = some o`, `hfit … = some f`) are
  satisfiable by a run that really splits, the model is evaluated by the kernel on `Rat` with crude stand-ins for
  `exp`/`log`/`sqrt` (a step function and two linear maps — the instance is a test fixture, not a claim about reals). -/

@[reducible] def toyScT : ScT Rat where
  exp := fun x => if x < -1 then 1 / 4 else if x < 0 then 1 / 2 else 1
  log := fun x => x - 1
  sqrt := fun x => (x + 1) / 2

attribute [local instance] toyScT

def cQ : HCfg Rat :=
  { sing := fun _ => false, diagT := true, normalize := false, tiny := 0, eps := 1 / 1024, reg := 1 / 64,
    tol := 1 / 8, gmmMaxIter := 2, nInit := 1, maxIterations := 2, minPoints := some 1, modifier := -100, d := 1,
    tape := [1 / 4, 3 / 4, 1 / 2, 1 / 2], regP := 1 / 64, epsD := 1 / 256 }
def XQ : Mat Rat := [[0], [1], [8], [9]]
def wQ : List Rat := [1, 1, 1, 1]

theorem exQ_fit : (fit (gmmCfg cQ 2) XQ wQ cQ.tape).map (fun o => (o.params.weights, o.nIter, o.converged))
    = some ([1 / 2, 1 / 2], 2, false) := by decide +kernel

theorem exQ_entry : (entry? cQ XQ wQ [0, 1, 2, 3]).map (fun e => e.childLabels) = some [0, 0, 1, 1] := by
  decide +kernel

theorem exQ_hfit : (hfit cQ XQ wQ).map (fun f => (f.clusters, f.labels, f.weights))
    = some ([[2, 3], [0], [1]], [some 1, some 2, some 0, some 0], [1 / 2, 1 / 4, 1 / 4]) := by decide +kernel

/-- a two-component fit that succeeds: `fit_shape` / `C15_fit_iter_bounds` apply (`n_iter_ = max_iter = 2`, not converged) -/
example : ∃ o, fit (gmmCfg cQ 2) XQ wQ cQ.tape = some o ∧ o.params.weights.length = 2 ∧ o.nIter = 2 ∧
    (1 ≤ o.nIter ∧ o.nIter ≤ (gmmCfg cQ 2).maxIter ∧ o.converged = decide (o.nIter < (gmmCfg cQ 2).maxIter)) := by
  have h := exQ_fit
  cases ho : fit (gmmCfg cQ 2) XQ wQ cQ.tape with
  | none => rw [ho] at h; cases h
  | some o =>
    rw [ho] at h
    simp only [Option.map_some, Option.some.injEq, Prod.mk.injEq] at h
    exact ⟨o, rfl, (fit_shape _ _ _ _ o ho).1, h.2.1, C15_fit_iter_bounds _ _ _ _ o ho⟩

/-- the oracle on the root cluster of that run: real labels from the child mixture's `predict` -/
example : (entryD cQ XQ wQ 1 0 [0, 1, 2, 3]).childLabels = [0, 0, 1, 1] ∧
    LabelsOK [0, 1, 2, 3] (entryD cQ XQ wQ 1 0 [0, 1, 2, 3]).childLabels := by
  refine ⟨?_, C15_entryD_labelsOK cQ XQ wQ 1 0 [0, 1, 2, 3]⟩
  have h := exQ_entry
  unfold entryD
  cases he : entry? cQ XQ wQ [0, 1, 2, 3] with
  | none => rw [he] at h; cases h
  | some e => rw [he] at h; simpa using h

/-- a whole hierarchical fit that splits twice (three clusters): every clause of part C applies to it -/
example : ∃ f, hfit cQ XQ wQ = some f ∧ f.clusters = [[2, 3], [0], [1]] ∧
    f.labels = [some 1, some 2, some 0, some 0] ∧ IsPartition XQ.length f.clusters ∧
    (1 ≤ f.clusters.length ∧ f.clusters.length ≤ cQ.maxIterations + 1) ∧
    (f.centers.length = f.clusters.length ∧ f.covs.length = f.clusters.length ∧
      f.weights.length = f.clusters.length) ∧
    (∀ Xq : Mat Rat, ∀ l ∈ hpredict cQ f true Xq, ∃ k, l = some k ∧ k < f.clusters.length) := by
  have h := exQ_hfit
  cases hf : hfit cQ XQ wQ with
  | none => rw [hf] at h; cases h
  | some f =>
    rw [hf] at h
    simp only [Option.map_some, Option.some.injEq, Prod.mk.injEq] at h
    exact ⟨f, rfl, h.1, h.2.1, C15_hfit_partition _ _ _ f hf, C15_hfit_cap _ _ _ f hf,
      C15_hfit_shapes _ _ _ f hf, fun Xq => (C15_hfit_predict_range _ _ _ f hf true Xq).2⟩

end Examples

end Props.C15
