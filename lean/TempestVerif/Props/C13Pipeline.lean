import TempestVerif.Model.Pipeline
import TempestVerif.Props.C13LogLike
import Mathlib.Tactic
/-
  C13 on the composed pipeline model (Model/Pipeline.lean: reweight → resample → accept/reject → commit, the model that the
  pipeline trace-replay suite ties to real runs): "histories, weights and evidence are bit-identical".

  The pipeline consumes a `Tape` holding the log-likelihood VALUES of the prior draws and of every proposal.  Here the tape is
  produced from the POINTS (`PTape`) by `_log_like` under a strategy (`fillTape`), one call per batch, each with its own pool
  completion order.  Theorem: the filled tapes — hence the whole run: committed history, weights handed to resampling, β, ESS,
  logZ of every iteration, accept masks, final evidence — do not depend on the strategy or on the completion orders.
  The statement is generic in the scalar type, so it holds verbatim at `Float`: identical, not merely close.
-/
namespace Props.C13
open Model.Pipeline Model.LLEval

variable {X α : Type}

/-- one accept/reject step before its likelihood evaluation: the proposal POINTS -/
structure PStep (X α : Type) where
  propTags : List Nat
  props : List X
  factor : List α
  r : List α

/-- one iteration's randomness and user-supplied points before any likelihood evaluation -/
structure PTape (X α : Type) where
  drawTags : List Nat
  draws : List X
  picks : List Nat
  resU : List α
  steps : List (PStep X α)

/-- an evaluator: call `j` of `_log_like` within the iteration (0 = the prior draws, i+1 = step i); a log-likelihood is
    `none` for −inf -/
abbrev Evaluator (X α : Type) := Nat → List X → Option (List (Option α))

def fillSteps (ev : Evaluator X α) : Nat → List (PStep X α) → Option (List (Step α))
  | _, [] => some []
  | j, s :: ss =>
    (ev j s.props).bind fun l => (fillSteps ev (j + 1) ss).map fun rest => ⟨s.propTags, l, s.factor, s.r⟩ :: rest

/-- the tape the pipeline sees once the points have been evaluated -/
def fillTape (ev : Evaluator X α) (pt : PTape X α) : Option (Tape α) :=
  (ev 0 pt.draws).bind fun dl => (fillSteps ev 1 pt.steps).map fun st => ⟨pt.drawTags, dl, pt.picks, pt.resU, st⟩

/-- all iterations; `evs k` is the evaluator during iteration k -/
def fillTapes (evs : Nat → Evaluator X α) : Nat → List (PTape X α) → Option (List (Tape α))
  | _, [] => some []
  | k, pt :: pts => (fillTape (evs k) pt).bind fun t => (fillTapes evs (k + 1) pts).map fun ts => t :: ts

/-- `_log_like` under a strategy, as an evaluator; `sched k j n`: completion order of the `n` tasks of call j of iteration k -/
def strategyEv (how : HowV) (sched : Nat → Nat → Nat → List Nat) (L : X → Option α) (fvec : List X → List (Option α)) :
    Nat → Evaluator X α :=
  fun k j xs => (logLike (B := Unit) how (sched k j xs.length) (fun x => .val (L x)) fvec xs).map (·.logl)

theorem fillTapes_congr (evs evs' : Nat → Evaluator X α) (h : ∀ k j xs, evs k j xs = evs' k j xs) (k : Nat)
    (pts : List (PTape X α)) : fillTapes evs k pts = fillTapes evs' k pts := by
  have : evs = evs' := by funext k j xs; exact h k j xs
  rw [this]

/-- every strategy evaluates a batch to the pointwise values -/
theorem strategyEv_eq (how : HowV) (sched : Nat → Nat → Nat → List Nat)
    (hs : ∀ k j n, (sched k j n).Perm (List.range n)) (L : X → Option α) (fvec : List X → List (Option α))
    (hvec : ∀ xs, fvec xs = xs.map L) (k j : Nat) (xs : List X) :
    strategyEv how sched L fvec k j xs = some (xs.map L) := by
  simp [strategyEv, C13_logLike_transparent how _ L fvec hvec xs (hs k j xs.length)]

/-- the tape the pipeline sees is the one with the pointwise values, whatever the strategy -/
theorem C13_tapes_strategy_independent (how how' : HowV) (sched sched' : Nat → Nat → Nat → List Nat)
    (hs : ∀ k j n, (sched k j n).Perm (List.range n)) (hs' : ∀ k j n, (sched' k j n).Perm (List.range n))
    (L : X → Option α) (fvec : List X → List (Option α)) (hvec : ∀ xs, fvec xs = xs.map L)
    (pts : List (PTape X α)) :
    fillTapes (strategyEv how sched L fvec) 0 pts = fillTapes (strategyEv how' sched' L fvec) 0 pts := by
  apply fillTapes_congr
  intro k j xs
  rw [strategyEv_eq how sched hs L fvec hvec, strategyEv_eq how' sched' hs' L fvec hvec]

variable [ScT α]

/-- the observable result of a run of the pipeline model: committed history (β_t, logZ_t, logl, tags of every batch), the
    per-iteration outputs (β, ESS, logZ, resampled indices, accept masks) and the final evidence -/
def runResult (c : PCfg α) (tapes : Option (List (Tape α))) : Option (PState α × List (IterOut α) × Option α) :=
  tapes.bind fun ts => (runIters c init ts).map fun (s, os) => (s, os, finalEvidence s)

/-- C13 (first sentence, on the composed pipeline): same seed (= same points, uniforms, picks on the tape), pointwise identical
    likelihood ⇒ the runs under any two strategies, with any completion orders, have identical histories, weights, evidence -/
theorem C13_pipeline_transparent (c : PCfg α) (how how' : HowV) (sched sched' : Nat → Nat → Nat → List Nat)
    (hs : ∀ k j n, (sched k j n).Perm (List.range n)) (hs' : ∀ k j n, (sched' k j n).Perm (List.range n))
    (L : X → Option α) (fvec : List X → List (Option α)) (hvec : ∀ xs, fvec xs = xs.map L)
    (pts : List (PTape X α)) :
    runResult c (fillTapes (strategyEv how sched L fvec) 0 pts)
      = runResult c (fillTapes (strategyEv how' sched' L fvec) 0 pts) := by
  rw [C13_tapes_strategy_independent how how' sched sched' hs hs' L fvec hvec pts]

/-! non-vacuity: a two-point warm-up batch evaluated through a pool completing in reverse order, and vectorised -/
example : (fillTape (strategyEv (X := Nat) (α := Int) .objMap (fun _ _ _ => [1, 0]) (fun x => some (x : Int))
      (fun xs => xs.map fun x => some (x : Int)) 0) ⟨[0, 1], [3, 4], [], [], []⟩).map (·.drawL) = some [some 3, some 4] := by
  decide
example : (fillTape (strategyEv (X := Nat) (α := Int) .direct (fun _ _ n => List.range n) (fun x => some (x : Int))
      (fun xs => xs.map fun x => some (x : Int)) 0) ⟨[0, 1], [3, 4], [], [], []⟩).map (·.drawL) = some [some 3, some 4] := by
  decide

end Props.C13
