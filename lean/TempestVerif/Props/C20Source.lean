import TempestVerif.Model.Ess
import TempestVerif.Model.Trim
import TempestVerif.Model.VolVar
import TempestVerif.Gen.ToolsSrc
import TempestVerif.Props.C20
/-
  C20 — the executable models `Model.Ess`, `Model.Trim`, `Model.VolVar` ARE the functions that are in /repo's `tempest/tools.py` NOW.

  `Gen/ToolsSrc.lean` is regenerated on every run of the check (translator G16) by COMPILING the Python source of
  `effective_sample_size`, `compute_ess`, `trim_weights` and `volume_variation`: whole function bodies, statement by statement, as
  `let` chains over the scalar interface — every arithmetic expression, comparison and literal, numpy's broadcasting made explicit,
  early returns, the `w is None` default, the conditional ridge re-assignment, `try … inv … except LinAlgError`, and the
  `while True / break / i -= 1` loop as one-pass function + fuel-bounded chaining.  Only numpy LIBRARY routines are not compiled:
  each call becomes the name of its hand-written model (`Model.Trim.percentile`, `linspace0`, `filterMask`, `Model.Ess.amax?`,
  `Model.Student.inv`, `Model.VolVar.dotT / matmul / sumAxis0 / eye / trace / clip`).

  The theorems below hold for EVERY scalar type, `Float` (what the driver executes) and `Rat` included: no arithmetic law is used,
  only unfolding (`rfl`), case splits on `Option`/`Bool` values and structural facts about `List.map`/`zipWith`.  A change of a
  literal, operator, operand order, statement order, branch or loop shape in the source regenerates a different term and breaks the
  theorem of that function.  Local names, comments, formatting never reach the generated file.
-/
namespace Props.C20.Src
open Model.Ess Model.Trim Model.VolVar Model.Student
variable {α : Type}

/-! ### signatures (parameter names and defaults are keyword API: `trim_weights(…, ess=ess_trim, bins=bins_trim)`) -/

def expected_signatures : List String :=
  ["effective_sample_size(weights)",
   "compute_ess(logw)",
   "trim_weights(samples, weights, ess=0.99, bins=1000)",
   "volume_variation(x, w=None)"]

theorem C20_src_signatures : Gen.ToolsSrc.signatures = expected_signatures := rfl

/-! ### `effective_sample_size`, `compute_ess` -/

/-- `weights = weights / np.sum(weights); return 1.0 / np.sum(weights**2.0)` — the whole function -/
theorem C20_src_ess [Sc α] (w : List α) : ess w = Gen.ToolsSrc.effective_sample_size w := rfl

/-- the normalisation and the sum of squares, as the source writes them (used by every other model of C20) -/
theorem C20_src_ess_parts [Sc α] (w : List α) :
    Gen.ToolsSrc.effective_sample_size w = Sc.div Sc.one (sumSq (normalise w)) ∧
    normalise w = w.map (fun t => Sc.div t (Sc.sum w)) ∧ sumSq w = Sc.sum (w.map fun t => Sc.mul t t) := ⟨rfl, rfl, rfl⟩

/-- `compute_ess`: `np.max` (raises on the empty array), the shift, `exp`, the normalisation, `1/Σw²/len(w)`.
    The source maps twice (`np.exp(logw - m)`) and squares by `weights * weights`; the model fuses the maps — a fact about lists. -/
theorem C20_src_compute_ess [ScT α] (logw : List α) : computeEss logw = Gen.ToolsSrc.compute_ess logw := by
  cases logw with
  | nil => rfl
  | cons x xs =>
    simp only [computeEss, Gen.ToolsSrc.compute_ess, amax?, Option.bind, normalise, sumSq, List.map_map, List.zipWith_self,
      List.length_map]
    rfl

/-! ### `trim_weights` -/

/-- one pass of the loop: percentile of the grid point, threshold, mask `w ≥ θ`, the kept weights renormalised, their ESS, the
    test `ess_trimmed / ess_total >= ess or i == 0`, the decrement.  `grid` = `percentiles`, `i` the grid index. -/
theorem C20_src_trim_body [Sc α] (wn : List α) (grid : Nat → α) (et e : α) (i : Nat) :
    Gen.ToolsSrc.trim_weights_body grid i wn et e =
      (Model.Trim.step wn (sortAsc wn) et (grid i)).bind fun s =>
        if (Sc.ge s.ratio e || i == 0) then some (true, s.mask, s.wt, i) else some (false, s.mask, s.wt, i - 1) := by
  unfold Gen.ToolsSrc.trim_weights_body Model.Trim.step percentile
  dsimp only
  cases percentileLinear (sortAsc wn) (grid i) <;> rfl

/-- the grid of the model is the grid of the source: `np.linspace(0, 99, bins)` -/
theorem C20_src_grid [Sc α] (bins i : Nat) : (linspace0_99 bins i : α) = linspace0 (Sc.ofNat 99) bins i := rfl

/-- the loop: with more fuel than the start index, the chained passes are the model's `search` (mask, trimmed weights and the
    index of the pass that hit `break`) — in particular the loop never runs out of fuel (the `i == 0` stop of 8ceb8ba) -/
theorem C20_src_trim_loop [Sc α] (wn : List α) (et e : α) (bins : Nat) : ∀ i fuel, i < fuel →
    Gen.ToolsSrc.trim_weights_loop (linspace0 (Sc.ofNat 99) bins) wn et e fuel i
      = (search wn (sortAsc wn) et e bins i).map fun r => (r.2.mask, r.2.wt, r.1) := by
  intro i
  induction i with
  | zero =>
    intro fuel hf
    obtain ⟨f, rfl⟩ : ∃ f, fuel = f + 1 := ⟨fuel - 1, by omega⟩
    unfold Gen.ToolsSrc.trim_weights_loop search
    rw [C20_src_trim_body, C20_src_grid]
    cases Model.Trim.step wn (sortAsc wn) et (linspace0 (Sc.ofNat 99) bins 0) with
    | none => rfl
    | some s => simp
  | succ i ih =>
    intro fuel hf
    obtain ⟨f, rfl⟩ : ∃ f, fuel = f + 1 := ⟨fuel - 1, by omega⟩
    unfold Gen.ToolsSrc.trim_weights_loop search
    rw [C20_src_trim_body, C20_src_grid]
    cases Model.Trim.step wn (sortAsc wn) et (linspace0 (Sc.ofNat 99) bins (i + 1)) with
    | none => rfl
    | some s =>
      have := ih f (by omega)
      by_cases hc : Sc.le e s.ratio = true
      · simp [Sc.ge, hc]
      · simp [Sc.ge, hc, this]

/-- prologue + loop: normalisation, untrimmed ESS, the grid literal `99`, the start index `bins - 1`.
    (`bins = 0`: Python evaluates `percentiles[-1]` of an empty array and raises; the model answers `none`; natural-number
    subtraction cannot express the index `-1`, so that case stays a hand-written guard of `trimStop`.) -/
theorem C20_src_trimStop [Sc α] (w : List α) (e : α) (bins : Nat) (hb : bins ≠ 0) :
    (trimStop w e bins).map (fun r => (r.2.mask, r.2.wt, r.1)) =
      Gen.ToolsSrc.trim_weights_loop (linspace0 (Sc.ofNat 99) bins) (normalise w) (Sc.div Sc.one (sumSq (normalise w))) e
        bins (bins - 1) := by
  unfold trimStop
  simp only [hb, if_false]
  rw [C20_src_trim_loop _ _ _ _ _ _ (by omega)]

/-- **the whole function** `trim_weights(samples, weights, ess, bins)`, fuel `bins` -/
theorem C20_src_trim [Sc α] {σ : Type} (samples : List σ) (w : List α) (e : α) (bins : Nat) (hb : bins ≠ 0) :
    trim samples w e bins = Gen.ToolsSrc.trim_weights samples w e bins bins := by
  unfold trim Gen.ToolsSrc.trim_weights
  have h := C20_src_trimStop w e bins hb
  change _ = Option.bind (Gen.ToolsSrc.trim_weights_loop (linspace0 (Sc.ofNat 99) bins) (normalise w)
    (Sc.div Sc.one (sumSq (normalise w))) e bins (bins - 1)) _
  rw [← h]
  cases trimStop w e bins <;> rfl

/-! ### `volume_variation` -/

/-- **the shape of the source**, in the vocabulary of the model: the generated function is, by unfolding alone, this composition
    of `normalise`, `wmean`, `centre`, `wcov`, `trace`, `addRidge`, `inv`, `maha2`, `radicand` with the literals `1e10`, `1e-6`,
    `0.5` (and `-1e6`, `1e6`, `**2` inside `radicand`) — so each of these model definitions is what the source says. -/
theorem C20_src_volvar_shape [ScT α] (rk : List (List α) → Nat → Bool) (d : Nat) (x : List (List α)) (w0 : Option (List α)) :
    Gen.ToolsSrc.volume_variation rk d x w0 =
      if x.length < d + 1 then big else
      let w := normalise (match w0 with
        | none => List.replicate x.length Sc.one
        | some w => w)
      let xc := centre x (wmean d x w)
      let cov := wcov d xc w
      let cov' := if rk cov d then addRidge d cov (Sc.mul (Sc.lit 1 6) (trace cov)) else cov
      match inv cov' with
      | none => big
      | some B => Sc.mul (Sc.lit 5 1) (ScT.sqrt (radicand d w (maha2 d xc B))) := rfl

/-- **the whole function** `volume_variation(x, w)`: the model (which decides "rank-deficient" by the failure of its Gauss–Jordan
    inverse and reports the branch taken) is the compiled source, for every `rk` that answers the rank test
    `np.linalg.matrix_rank(cov) < n_dim` the way the model does — hypothesis H_inv of clauses/C20.md, first half. -/
theorem C20_src_volvar [ScT α] (rk : List (List α) → Nat → Bool) (d : Nat) (hrk : ∀ S, rk S d = (inv S).isNone)
    (x : List (List α)) (w0 : Option (List α)) : volvar d x w0 = Gen.ToolsSrc.volume_variation rk d x w0 := by
  rw [C20_src_volvar_shape]
  unfold volvar out
  by_cases h : x.length < d + 1
  · simp only [h, if_true]
  · simp only [h, if_false, hrk]
    generalize wcov (α := α) d _ _ = cov
    cases hi : inv cov with
    | some B => simp only [Option.isNone_some, Bool.false_eq_true, if_false, hi]; rfl
    | none =>
      simp only [Option.isNone_none, if_true]
      cases inv (addRidge d cov (Sc.mul (Sc.lit 1 6) (trace cov))) <;> rfl

/-- model-side companion of `C20_src_volvar`: the branch tag that `out` reports (and the driver prints) is decided by exactly the
    two tests of `C20_src_volvar_shape` — the size test and, with `rk := "inv fails"`, the rank test, then the `LinAlgError` match -/
theorem C20_volvar_branch_tests [Sc α] (d : Nat) (x : List (List α)) (w0 : Option (List α)) :
    (out d x w0).branch =
      if x.length < d + 1 then .tooFew else
      let w := normalise (match w0 with
        | none => List.replicate x.length Sc.one
        | some w => w)
      let cov := wcov d (centre x (wmean d x w)) w
      if (inv cov).isNone then
        (if (inv (addRidge d cov (Sc.mul (Sc.lit 1 6) (trace cov)))).isNone then .singular else .ridge)
      else .main := by
  unfold out
  by_cases h : x.length < d + 1
  · simp only [h, if_true]
  · simp only [h, if_false]
    generalize wcov (α := α) d _ _ = cov
    cases inv cov with
    | some B => rfl
    | none =>
      simp only [Option.isNone_none, if_true]
      cases inv (addRidge d cov (Sc.mul (Sc.lit 1 6) (trace cov))) <;> rfl

/-! ### non-vacuity: the generated functions run (exact rationals) and give the values of the models -/

example : Gen.ToolsSrc.effective_sample_size ([1, 1, 2, 4] : List Rat) = 32 / 11 := by decide +kernel

/-- **the compiled source terminates**: over the reals, for non-negative weights with positive sum and `bins ≥ 1`, the function
    generated from `tools.py` returns a value with fuel `bins` — it is the model's `trim`, so every theorem of `Props/C20*.lean`
    about `trim` (normalised, upper set, ESS guarantee, alignment) is a theorem about the compiled source -/
theorem C20_src_trim_terminates {σ : Type} (samples : List σ) (w : List ℝ) (e : ℝ) (bins : Nat)
    (h0 : ∀ x ∈ w, 0 ≤ x) (hs : 0 < w.sum) (hb : 0 < bins) :
    ∃ r, Gen.ToolsSrc.trim_weights samples w e bins bins = some r := by
  rw [← C20_src_trim samples w e bins (by omega)]
  exact Props.C20.C20_trim_terminates_any samples w e bins h0 hs hb

example : ∃ r, Gen.ToolsSrc.trim_weights ["a", "b", "c"] [(1 : ℝ), 1, 2] 0.9 2 2 = some r :=
  C20_src_trim_terminates _ _ _ _ (by simp) (by norm_num) (by norm_num)

/-- the hypothesis of `C20_src_volvar` is satisfiable (by the model's own reading of the rank test) -/
example [ScT α] (d : Nat) (x : List (List α)) (w0 : Option (List α)) :
    volvar d x w0 = Gen.ToolsSrc.volume_variation (fun S _ => (inv S).isNone) d x w0 :=
  C20_src_volvar _ d (fun _ => rfl) x w0

end Props.C20.Src
