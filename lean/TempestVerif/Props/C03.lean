import TempestVerif.Gen.Kernel
import TempestVerif.Model.Kernel
import TempestVerif.Lemmas.ScReal
import TempestVerif.Props.C16
import TempestVerif.Lemmas.KernelGeom
import Mathlib.Analysis.SpecialFunctions.Pow.Real
import Mathlib.MeasureTheory.Integral.Bochner.Set
import Mathlib.MeasureTheory.Measure.Lebesgue.Basic
import Mathlib.Tactic
/-
  C03 — mutation kernels satisfy detailed balance.

  What is proved (exact real arithmetic, about the expressions REGENERATED from tempest/mcmc.py — `Gen.Kernel`):
    * interior (no boundary intervenes): tpCN and RWM satisfy detailed balance with respect to
      pi(x) = exp(beta * logL(x)) for every pair of states and all parameters  (C03_tpcn_interior, C03_rwm_interior);
    * RWM with a periodic or reflective coordinate: the folded proposal (C16) is symmetric, so detailed balance
      holds  (C03_rwm_periodic, C03_rwm_reflective);
    * hard boundaries, as the code is since 9001dc4 (out-of-cube proposals are rejected): detailed balance w.r.t.
      pi·1_cube for every pair of points (C03_hard_boundary_reject, C03_tpcn_hard_reject, C03_rwm_hard_reject);
      C03_truncation_flow_asymmetric documents why the OLD "redraw until inside" was wrong (F16, fixed);
    * the recorded defect F17 is NOT provable, and why: C03_tpcn_fold_not_hastings (the Student-t ratio at the folded
      point is not the Hastings ratio of the folded proposal);
    * a THIRD defect found while building this check (F21): reflective coordinates with a correlated proposal covariance
      (d ≥ 2) — the n-dimensional reflective statement needs the increment density to be even in each reflective
      coordinate (fold_reflective_symmetric_nd); C03_reflect_correlated_asymmetric is the counter-example otherwise;
    * `_adapt_sigma` runs after accept/reject (C03_sigma_fixed_within_step).
  The states enter only through the three scalars  dx = |x-mu|^2_Sigma, dy = |y-mu|^2_Sigma, dxy = <x-mu,y-mu>_Sigma,
  so the statements are dimension-free.  Not formalised: the change of variables s = 1/g (gamma -> inverse gamma) and the
  passage from density identities to Markov kernels on R^d (textbook steps).
-/
set_option linter.unusedSimpArgs false
set_option linter.unusedVariables false
namespace Props.C03
open Real MeasureTheory

/-! ## 0. numpy helpers at ℝ -/

theorem gen_npMinimum (a b : ℝ) : Gen.Kernel.npMinimum a b = min a b := by
  unfold Gen.Kernel.npMinimum
  by_cases h : b < a <;> simp [h]
  · exact h.le
  · exact not_lt.mp h

theorem gen_nanToZero (a : ℝ) : Gen.Kernel.nanToZero a = a := by
  simp [Gen.Kernel.nanToZero]

theorem model_npMinimum (a b : ℝ) : Model.Kernel.npMinimum a b = min a b := by
  unfold Model.Kernel.npMinimum
  by_cases h : b < a <;> simp [h]
  · exact h.le
  · exact not_lt.mp h

theorem model_nanToZero (a : ℝ) : Model.Kernel.nanToZero a = a := by
  simp [Model.Kernel.nanToZero]

/-! ## 1. bridging obligations: generated expression = canonical expression

  One fixed script for all of them.  An algebraically equivalent rewrite of the Python keeps it passing
  (`2.0/(nu+dot)` ↔ `1.0/((nu+dot)/2.0)`); a changed shape, scale, sign or a dropped `sqrt` does not. -/

macro "kernel_bridge" : tactic => `(tactic| (
  simp only [Gen.Kernel.gammaShape, Gen.Kernel.gammaScale, Gen.Kernel.sFromGamma, Gen.Kernel.tpcnMuCoef,
    Gen.Kernel.tpcnDiffCoef, Gen.Kernel.tpcnNoiseScale, Gen.Kernel.tpcnLogFactor, Gen.Kernel.rwmUCoef,
    Gen.Kernel.rwmNoiseScale, Gen.Kernel.rwmLogFactor, Gen.Kernel.acceptProb, Gen.Kernel.acceptDecision,
    Gen.Kernel.tpcnAdapt, Gen.Kernel.rwmAdapt, Gen.Kernel.alphaOutOfBounds, Model.Kernel.alphaOutOfBounds,
    Model.Kernel.gammaShape, Model.Kernel.gammaScale, Model.Kernel.sFromGamma, Model.Kernel.diffCoef,
    Model.Kernel.noiseScale, Model.Kernel.logT, Model.Kernel.tpcnLogFactor, Model.Kernel.rwmLogFactor,
    Model.Kernel.acceptProb, Model.Kernel.acceptDecision, Model.Kernel.adaptRaw, Model.Kernel.tpcnAdapt,
    Model.Kernel.rwmAdapt,
    gen_npMinimum, gen_nanToZero, model_npMinimum, model_nanToZero, ScReal.min_def, ScReal.max_def,
    ScReal.add_def, ScReal.sub_def, ScReal.mul_def, ScReal.div_def, ScReal.neg_def, ScReal.ofNat_def,
    ScReal.lit_def, ScReal.zero_def, ScReal.one_def, ScReal.two_def, ScReal.exp_def, ScReal.log_def,
    ScReal.sqrt_def]
  <;> (try push_cast) <;> (try field_simp) <;> (try ring_nf)))

theorem gen_eq_canon_gammaShape (d nu : ℝ) :
    Gen.Kernel.gammaShape d nu = Model.Kernel.gammaShape d nu := by
  kernel_bridge

theorem gen_eq_canon_gammaScale (nu dot : ℝ) (hnu : 0 < nu) (hdot : 0 ≤ dot) :
    Gen.Kernel.gammaScale nu dot = Model.Kernel.gammaScale nu dot := by
  have h : nu + dot ≠ 0 := by positivity
  kernel_bridge

theorem gen_eq_canon_sFromGamma (g : ℝ) (hg : 0 < g) :
    Gen.Kernel.sFromGamma g = Model.Kernel.sFromGamma g := by
  have h : g ≠ 0 := hg.ne'
  kernel_bridge

theorem gen_eq_canon_tpcnMuCoef (sigma s : ℝ) : Gen.Kernel.tpcnMuCoef sigma s = 1 := by
  kernel_bridge

theorem gen_eq_canon_tpcnDiffCoef (sigma s : ℝ) :
    Gen.Kernel.tpcnDiffCoef sigma s = Model.Kernel.diffCoef sigma := by
  kernel_bridge

theorem gen_eq_canon_tpcnNoiseScale (sigma s : ℝ) :
    Gen.Kernel.tpcnNoiseScale sigma s = Model.Kernel.noiseScale sigma s := by
  kernel_bridge

theorem gen_eq_canon_tpcnLogFactor (d nu dot dotp : ℝ) (hnu : 0 < nu) :
    Gen.Kernel.tpcnLogFactor d nu dot dotp = Model.Kernel.tpcnLogFactor d nu dot dotp := by
  have h : nu ≠ 0 := hnu.ne'
  kernel_bridge

theorem gen_eq_canon_rwmUCoef (sigma : ℝ) : Gen.Kernel.rwmUCoef sigma = 1 := by
  kernel_bridge

theorem gen_eq_canon_rwmNoiseScale (sigma : ℝ) : Gen.Kernel.rwmNoiseScale sigma = sigma := by
  kernel_bridge

theorem gen_eq_canon_rwmLogFactor : (Gen.Kernel.rwmLogFactor : ℝ) = Model.Kernel.rwmLogFactor := by
  kernel_bridge

theorem gen_eq_canon_acceptProb (beta l lp factor : ℝ) :
    Gen.Kernel.acceptProb beta l lp factor = Model.Kernel.acceptProb beta l lp factor := by
  kernel_bridge

theorem gen_eq_canon_alphaOutOfBounds (alpha : ℝ) :
    Gen.Kernel.alphaOutOfBounds alpha = Model.Kernel.alphaOutOfBounds alpha := by
  kernel_bridge

theorem gen_eq_canon_acceptDecision (r alpha : ℝ) :
    Gen.Kernel.acceptDecision r alpha = Model.Kernel.acceptDecision r alpha := by
  kernel_bridge

theorem gen_eq_canon_tpcnAdapt (sigma iter acc sigma0 : ℝ) (hit : 0 ≤ iter) :
    Gen.Kernel.tpcnAdapt sigma iter acc sigma0 = Model.Kernel.tpcnAdapt sigma iter acc sigma0 := by
  have h : iter + 1 ≠ 0 := by positivity
  kernel_bridge

theorem gen_eq_canon_rwmAdapt (sigma iter acc sigma0 : ℝ) (hit : 0 ≤ iter) :
    Gen.Kernel.rwmAdapt sigma iter acc sigma0 = Model.Kernel.rwmAdapt sigma iter acc sigma0 := by
  have h : iter + 1 ≠ 0 := by positivity
  kernel_bridge

/-! ## 2. the canonical expressions as real functions -/

theorem model_gammaShape (d nu : ℝ) : Model.Kernel.gammaShape d nu = (d + nu) / 2 := by
  simp [Model.Kernel.gammaShape]

theorem model_gammaScale (nu dot : ℝ) : Model.Kernel.gammaScale nu dot = 2 / (nu + dot) := by
  simp [Model.Kernel.gammaScale]

theorem model_acceptProb (beta l lp f : ℝ) :
    Model.Kernel.acceptProb beta l lp f = min 1 (exp (beta * (lp - l) + f)) := by
  simp [Model.Kernel.acceptProb, model_npMinimum, model_nanToZero]

/-- the tpCN proposal is Crank–Nicolson: `a² + σ² = 1` for the generated coefficient -/
theorem C03_tpcn_coef_sq (sigma s : ℝ) (h : sigma ^ 2 ≤ 1) :
    (Gen.Kernel.tpcnDiffCoef sigma s) ^ 2 + sigma ^ 2 = 1 := by
  rw [gen_eq_canon_tpcnDiffCoef]
  simp only [Model.Kernel.diffCoef, ScReal.sqrt_def, ScReal.sub_def, ScReal.mul_def, ScReal.one_def]
  rw [sq_sqrt (by nlinarith)]; ring

/-- the generated noise term `c · L z` has covariance `σ² s Σ` -/
theorem C03_tpcn_noise_sq (sigma s : ℝ) (hs : 0 ≤ s) :
    (Gen.Kernel.tpcnNoiseScale sigma s) ^ 2 = sigma ^ 2 * s := by
  rw [gen_eq_canon_tpcnNoiseScale]
  simp only [Model.Kernel.noiseScale, ScReal.sqrt_def, ScReal.mul_def]
  rw [mul_pow, sq_sqrt hs]

/-! ## 3. densities (up to factors that do not depend on the states) -/

/-- Student-t kernel of the mode: `(1 + δ/ν)^(-(d+ν)/2)` -/
noncomputable def tker (d ν δ : ℝ) : ℝ := (1 + δ / ν) ^ (-((d + ν) / 2))

/-- density of `s = 1/g`, `g ~ Gamma(shape, scale)`, without `1/Γ(shape)`:
    `(1/scale)^shape · s^(-shape-1) · exp(-(1/scale)/s)` -/
noncomputable def igDens (shape scale s : ℝ) : ℝ :=
  (1 / scale) ^ shape * s ^ (-shape - 1) * exp (-(1 / scale) / s)

/-- Gaussian transition density `N(y; μ + a(x-μ), c Σ)` without `(2π)^(-d/2) |Σ|^(-1/2)`:
    `c^(-d/2) · exp(-(δy - 2a δxy + a² δx)/(2c))`  (first δ-argument: start point, second: end point) -/
noncomputable def cnDens (d a c δx δy δxy : ℝ) : ℝ :=
  c ^ (-(d / 2)) * exp (-(δy - 2 * a * δxy + a ^ 2 * δx) / (2 * c))

theorem tker_pos (d ν δ : ℝ) (hν : 0 < ν) (hδ : 0 ≤ δ) : 0 < tker d ν δ := by
  unfold tker; apply rpow_pos_of_pos; positivity

/-- the code's log-density `-0.5 (d+ν) log(1 + δ/ν)` is the log of the Student-t kernel -/
theorem exp_logT (d ν δ : ℝ) (hν : 0 < ν) (hδ : 0 ≤ δ) : exp (Model.Kernel.logT d ν δ) = tker d ν δ := by
  have h1 : (0:ℝ) < 1 + δ / ν := by positivity
  unfold tker
  rw [rpow_def_of_pos h1]
  congr 1
  simp only [Model.Kernel.logT, ScReal.mul_def, ScReal.neg_def, ScReal.lit_def, ScReal.add_def, ScReal.log_def,
    ScReal.one_def, ScReal.div_def]
  push_cast; ring

/-- Student-t × inverse-gamma = (state-free constant) × Gaussian weight -/
theorem key (ν δ α : ℝ) (hν : 0 < ν) (hδ : 0 ≤ δ) :
    (1 + δ / ν) ^ (-α) * ((ν + δ) / 2) ^ α = (ν / 2) ^ α := by
  have h1 : (0:ℝ) < 1 + δ / ν := by positivity
  have h2 : (ν + δ) / 2 = (1 + δ / ν) * (ν / 2) := by field_simp
  rw [h2, mul_rpow h1.le (by positivity), ← mul_assoc, ← rpow_add h1]; simp

/-- Crank–Nicolson exponent is symmetric when `a² + σ² = 1` -/
theorem pcn_sym (a σ dx dy dxy : ℝ) (h : a ^ 2 + σ ^ 2 = 1) (hσ : σ ≠ 0) :
    dx + (dy - 2 * a * dxy + a ^ 2 * dx) / σ ^ 2 = dy + (dx - 2 * a * dxy + a ^ 2 * dy) / σ ^ 2 := by
  have hs : σ ^ 2 ≠ 0 := pow_ne_zero 2 hσ
  have : a ^ 2 = 1 - σ ^ 2 := by linarith
  field_simp; rw [this]; ring

theorem t_ig (d ν δ s : ℝ) (hν : 0 < ν) (hδ : 0 ≤ δ) :
    tker d ν δ * igDens ((d + ν) / 2) (2 / (ν + δ)) s
      = (ν / 2) ^ ((d + ν) / 2) * s ^ (-((d + ν) / 2) - 1) * exp (-(ν + δ) / (2 * s)) := by
  unfold tker igDens
  have h0 : ν + δ ≠ 0 := by positivity
  have e1 : 1 / (2 / (ν + δ)) = (ν + δ) / 2 := by field_simp
  rw [e1, ← key ν δ ((d + ν) / 2) hν hδ]
  have e2 : -((ν + δ) / 2) / s = -(ν + δ) / (2 * s) := by
    by_cases hs : s = 0
    · subst hs; simp
    · field_simp
  rw [e2]; ring

/-- **Pointwise in the scale variable `s`**: Student-t weight × density of `s` given the start point (shape and
    scale AS GENERATED FROM THE CODE) × Gaussian CN transition given `s` is symmetric in the two states. -/
theorem C03_tpcn_integrand_symmetric (d ν σ a s δx δy δxy : ℝ) (hν : 0 < ν) (hs : 0 < s)
    (ha : a ^ 2 + σ ^ 2 = 1) (hσ : σ ≠ 0) (hx : 0 ≤ δx) (hy : 0 ≤ δy) :
    tker d ν δx * igDens (Gen.Kernel.gammaShape d ν) (Gen.Kernel.gammaScale ν δx) s * cnDens d a (σ ^ 2 * s) δx δy δxy
      = tker d ν δy * igDens (Gen.Kernel.gammaShape d ν) (Gen.Kernel.gammaScale ν δy) s * cnDens d a (σ ^ 2 * s) δy δx δxy := by
  rw [gen_eq_canon_gammaShape, gen_eq_canon_gammaScale ν δx hν hx, gen_eq_canon_gammaScale ν δy hν hy,
    model_gammaShape, model_gammaScale, model_gammaScale]
  rw [t_ig d ν δx s hν hx, t_ig d ν δy s hν hy]
  unfold cnDens
  have hσ2 : σ ^ 2 ≠ 0 := pow_ne_zero 2 hσ
  have hexp : ∀ u v : ℝ, exp (-(ν + u) / (2 * s)) * exp (-(v - 2 * a * δxy + a ^ 2 * u) / (2 * (σ ^ 2 * s)))
      = exp (-(ν + (u + (v - 2 * a * δxy + a ^ 2 * u) / σ ^ 2)) / (2 * s)) := by
    intro u v; rw [← exp_add]; congr 1; field_simp; ring
  have L : ∀ u v : ℝ, (ν / 2) ^ ((d + ν) / 2) * s ^ (-((d + ν) / 2) - 1) * exp (-(ν + u) / (2 * s)) *
      ((σ ^ 2 * s) ^ (-(d / 2)) * exp (-(v - 2 * a * δxy + a ^ 2 * u) / (2 * (σ ^ 2 * s))))
      = (ν / 2) ^ ((d + ν) / 2) * s ^ (-((d + ν) / 2) - 1) * (σ ^ 2 * s) ^ (-(d / 2)) *
        exp (-(ν + (u + (v - 2 * a * δxy + a ^ 2 * u) / σ ^ 2)) / (2 * s)) := by
    intro u v; rw [← hexp]; ring
  rw [L, L, pcn_sym a σ δx δy δxy ha hσ]

/-- tpCN proposal density (up to state-free factors): the scale mixture over `s` of the CN Gaussian, with the
    coefficient `a`, the noise scale and the gamma parameters taken from the generated expressions -/
noncomputable def tpcnQ (d ν σ δx δy δxy : ℝ) : ℝ :=
  ∫ s in Set.Ioi (0:ℝ), igDens (Gen.Kernel.gammaShape d ν) (Gen.Kernel.gammaScale ν δx) s
    * cnDens d (Gen.Kernel.tpcnDiffCoef σ s) ((Gen.Kernel.tpcnNoiseScale σ s) ^ 2) δx δy δxy

/-- the tpCN proposal is reversible with respect to the Student-t kernel of the mode: `t(x) q(x,y) = t(y) q(y,x)` -/
theorem C03_tpcn_reversible_wrt_t (d ν σ δx δy δxy : ℝ) (hν : 0 < ν) (hσ0 : 0 < σ) (hσ1 : σ < 1)
    (hx : 0 ≤ δx) (hy : 0 ≤ δy) :
    tker d ν δx * tpcnQ d ν σ δx δy δxy = tker d ν δy * tpcnQ d ν σ δy δx δxy := by
  unfold tpcnQ
  rw [← integral_const_mul, ← integral_const_mul]
  apply setIntegral_congr_fun measurableSet_Ioi
  intro s hs
  have hs' : (0:ℝ) < s := hs
  have hsq : σ ^ 2 ≤ 1 := by nlinarith
  have := C03_tpcn_integrand_symmetric d ν σ (Gen.Kernel.tpcnDiffCoef σ s) s δx δy δxy hν hs'
    (C03_tpcn_coef_sq σ s hsq) hσ0.ne' hx hy
  simp only [C03_tpcn_noise_sq σ s hs'.le]
  simp only [mul_assoc] at this ⊢
  exact this

/-! ## 4. Metropolis–Hastings -/

/-- if `g(x) q(x,y) = g(y) q(y,x)` and the acceptance is `min 1 (π(y) g(x) / (π(x) g(y)))`, the flow is symmetric -/
theorem C03_mh_detailed_balance (px py gx gy qxy qyx : ℝ) (hpx : 0 < px) (hpy : 0 < py) (hgx : 0 < gx)
    (hgy : 0 < gy) (hrev : gx * qxy = gy * qyx) :
    px * qxy * min 1 (py * gx / (px * gy)) = py * qyx * min 1 (px * gy / (py * gx)) := by
  have hqyx : qyx = gx * qxy / gy := by field_simp; linarith
  subst hqyx
  rcases le_total (py * gx) (px * gy) with h | h
  · have h1 : py * gx / (px * gy) ≤ 1 := by rw [div_le_one (by positivity)]; exact h
    have h2 : 1 ≤ px * gy / (py * gx) := by rw [one_le_div (by positivity)]; exact h
    rw [min_eq_right h1, min_eq_left h2]; field_simp
  · have h1 : 1 ≤ py * gx / (px * gy) := by rw [one_le_div (by positivity)]; exact h
    have h2 : px * gy / (py * gx) ≤ 1 := by rw [div_le_one (by positivity)]; exact h
    rw [min_eq_left h1, min_eq_right h2]; field_simp

/-- the GENERATED tpCN acceptance is the Metropolis–Hastings ratio for target `π = exp(β·logL)` and reference `g = t`
    (`δx`: current state, `δy`: proposed state) -/
theorem C03_accept_is_mh_tpcn (d ν β lx ly δx δy : ℝ) (hν : 0 < ν) (hx : 0 ≤ δx) (hy : 0 ≤ δy) :
    Gen.Kernel.acceptProb β lx ly (Gen.Kernel.tpcnLogFactor d ν δx δy)
      = min 1 (exp (β * ly) * tker d ν δx / (exp (β * lx) * tker d ν δy)) := by
  rw [gen_eq_canon_acceptProb, gen_eq_canon_tpcnLogFactor d ν δx δy hν, model_acceptProb]
  congr 1
  simp only [Model.Kernel.tpcnLogFactor, ScReal.add_def, ScReal.neg_def]
  rw [← exp_logT d ν δx hν hx, ← exp_logT d ν δy hν hy, ← exp_add, ← exp_add, ← exp_sub]
  congr 1; ring

/-- the GENERATED RWM acceptance is the Metropolis ratio (`g = 1`) -/
theorem C03_accept_is_mh_rwm (β lx ly : ℝ) :
    Gen.Kernel.acceptProb β lx ly Gen.Kernel.rwmLogFactor
      = min 1 (exp (β * ly) * 1 / (exp (β * lx) * 1)) := by
  rw [gen_eq_canon_acceptProb, gen_eq_canon_rwmLogFactor, model_acceptProb]
  congr 1
  simp only [Model.Kernel.rwmLogFactor, ScReal.zero_def, mul_one, add_zero]
  rw [← exp_sub]; congr 1; ring

/-- generic Metropolis step with the generated RWM acceptance and ANY symmetric proposal density -/
theorem rwm_flow_symmetric (β lx ly qxy qyx : ℝ) (hq : qxy = qyx) :
    exp (β * lx) * qxy * Gen.Kernel.acceptProb β lx ly Gen.Kernel.rwmLogFactor
      = exp (β * ly) * qyx * Gen.Kernel.acceptProb β ly lx Gen.Kernel.rwmLogFactor := by
  rw [C03_accept_is_mh_rwm, C03_accept_is_mh_rwm]
  exact C03_mh_detailed_balance _ _ 1 1 qxy qyx (exp_pos _) (exp_pos _) one_pos one_pos (by rw [hq])

/-- **tpCN, interior**: detailed balance `π(x) q(x,y) α(x,y) = π(y) q(y,x) α(y,x)` with `π = exp(β·logL)` for every
    pair of states (through `δx, δy, δxy`), every mode (μ, Σ enter through the δ's; ν > 0), dimension `d`,
    step size σ ∈ (0,1) and β, when no boundary intervenes. -/
theorem C03_tpcn_interior (d ν σ β lx ly δx δy δxy : ℝ) (hν : 0 < ν) (hσ0 : 0 < σ) (hσ1 : σ < 1)
    (hx : 0 ≤ δx) (hy : 0 ≤ δy) :
    exp (β * lx) * tpcnQ d ν σ δx δy δxy * Gen.Kernel.acceptProb β lx ly (Gen.Kernel.tpcnLogFactor d ν δx δy)
      = exp (β * ly) * tpcnQ d ν σ δy δx δxy * Gen.Kernel.acceptProb β ly lx (Gen.Kernel.tpcnLogFactor d ν δy δx) := by
  rw [C03_accept_is_mh_tpcn d ν β lx ly δx δy hν hx hy, C03_accept_is_mh_tpcn d ν β ly lx δy δx hν hy hx]
  exact C03_mh_detailed_balance _ _ _ _ _ _ (exp_pos _) (exp_pos _) (tker_pos d ν δx hν hx) (tker_pos d ν δy hν hy)
    (C03_tpcn_reversible_wrt_t d ν σ δx δy δxy hν hσ0 hσ1 hx hy)

/-- **RWM, interior**: the proposal `u + σ L z` has an even increment density `k` (any dimension: `E` is any additive
    group), the generated factor is 0, hence detailed balance for every pair of states. -/
theorem C03_rwm_interior {E : Type} [AddGroup E] (k : E → ℝ) (hk : ∀ z, k (-z) = k z) (x y : E) (β lx ly : ℝ) :
    exp (β * lx) * k (y - x) * Gen.Kernel.acceptProb β lx ly Gen.Kernel.rwmLogFactor
      = exp (β * ly) * k (x - y) * Gen.Kernel.acceptProb β ly lx Gen.Kernel.rwmLogFactor := by
  apply rwm_flow_symmetric
  rw [← neg_sub x y]; exact hk _

/-- the centred Gaussian increment density of RWM, `exp(-|z|²_Σ / (2σ²))` as a function of the increment, is even
    (one coordinate shown; `|−z|_Σ = |z|_Σ` in any dimension) -/
theorem gauss_even (σ : ℝ) (z : ℝ) : exp (-((-z) ^ 2) / (2 * σ ^ 2)) = exp (-(z ^ 2) / (2 * σ ^ 2)) := by
  rw [neg_sq]

/-! ## 5. RWM with a periodic / reflective coordinate (folded proposals of C16) -/

/-- **RWM, periodic coordinate**: proposal density after `x % 1` is `Σ_m k(m + y - x)`; with the Metropolis
    acceptance detailed balance holds for every pair of states. -/
theorem C03_rwm_periodic (k : ℝ → ℝ) (hk : ∀ z, k (-z) = k z) (x y β lx ly : ℝ) :
    exp (β * lx) * Props.C16.Kper k x y * Gen.Kernel.acceptProb β lx ly Gen.Kernel.rwmLogFactor
      = exp (β * ly) * Props.C16.Kper k y x * Gen.Kernel.acceptProb β ly lx Gen.Kernel.rwmLogFactor :=
  rwm_flow_symmetric β lx ly _ _ (Props.C16.C16_fold_periodic_symmetric k hk x y)

/-- **RWM, reflective coordinate**: proposal density after the triangle fold is `Σ_{m,±} k(2m ± y - x)`. -/
theorem C03_rwm_reflective (k : ℝ → ℝ) (hk : ∀ z, k (-z) = k z) (x y β lx ly : ℝ) :
    exp (β * lx) * Props.C16.Krefl k x y * Gen.Kernel.acceptProb β lx ly Gen.Kernel.rwmLogFactor
      = exp (β * ly) * Props.C16.Krefl k y x * Gen.Kernel.acceptProb β ly lx Gen.Kernel.rwmLogFactor :=
  rwm_flow_symmetric β lx ly _ _ (Props.C16.C16_fold_reflective_symmetric k hk x y)

/-- periodic coordinates in any number of dimensions, arbitrary (correlated) even increment density:
    `Σ_{m ∈ ℤ^ι} k(m + y - x)` is symmetric -/
theorem fold_periodic_symmetric_nd {ι : Type} (k : (ι → ℝ) → ℝ) (hk : ∀ z, k (-z) = k z) (x y : ι → ℝ) :
    (∑' m : ι → ℤ, k (fun i => (m i : ℝ) + y i - x i)) = ∑' m : ι → ℤ, k (fun i => (m i : ℝ) + x i - y i) := by
  rw [← (Equiv.neg (ι → ℤ)).tsum_eq]; congr 1; funext m
  rw [← hk]; congr 1; funext i
  simp only [Equiv.neg_apply, Pi.neg_apply, Int.cast_neg]; ring

theorem C03_rwm_periodic_nd {ι : Type} (k : (ι → ℝ) → ℝ) (hk : ∀ z, k (-z) = k z) (x y : ι → ℝ) (β lx ly : ℝ) :
    exp (β * lx) * (∑' m : ι → ℤ, k (fun i => (m i : ℝ) + y i - x i))
        * Gen.Kernel.acceptProb β lx ly Gen.Kernel.rwmLogFactor
      = exp (β * ly) * (∑' m : ι → ℤ, k (fun i => (m i : ℝ) + x i - y i))
        * Gen.Kernel.acceptProb β ly lx Gen.Kernel.rwmLogFactor :=
  rwm_flow_symmetric β lx ly _ _ (fold_periodic_symmetric_nd k hk x y)

/-- reflective coordinates in any number of dimensions: the folded density `Σ_p k(pre_p(y) - x)` is symmetric PROVIDED
    the increment density is even in each reflective coordinate separately (diagonal Σ in those coordinates, product
    kernels).  For a CORRELATED increment this hypothesis fails and so does the conclusion: see
    `C03_reflect_correlated_asymmetric` below. -/
theorem fold_reflective_symmetric_nd {ι : Type} (k : (ι → ℝ) → ℝ)
    (hk : ∀ (s : ι → Bool) (z : ι → ℝ), k (fun i => if s i then -z i else z i) = k z) (x y : ι → ℝ) :
    (∑' p : ι → ℤ × Bool, k (fun i => Props.C16.reflPre (p i) (y i) - x i))
      = ∑' p : ι → ℤ × Bool, k (fun i => Props.C16.reflPre (p i) (x i) - y i) := by
  rw [← (Equiv.piCongrRight (fun _ : ι => Props.C16.flipE)).tsum_eq]
  congr 1; funext p
  rw [← hk (fun i => (p i).2) (fun i => Props.C16.reflPre (p i) (x i) - y i)]
  congr 1; funext i
  rcases h : p i with ⟨m, b⟩
  cases b
  · simp [Props.C16.flipE, Props.C16.reflPre, h]; ring
  · simp [Props.C16.flipE, Props.C16.reflPre, h]; ring

theorem C03_rwm_reflective_nd {ι : Type} (k : (ι → ℝ) → ℝ)
    (hk : ∀ (s : ι → Bool) (z : ι → ℝ), k (fun i => if s i then -z i else z i) = k z) (x y : ι → ℝ) (β lx ly : ℝ) :
    exp (β * lx) * (∑' p : ι → ℤ × Bool, k (fun i => Props.C16.reflPre (p i) (y i) - x i))
        * Gen.Kernel.acceptProb β lx ly Gen.Kernel.rwmLogFactor
      = exp (β * ly) * (∑' p : ι → ℤ × Bool, k (fun i => Props.C16.reflPre (p i) (x i) - y i))
        * Gen.Kernel.acceptProb β ly lx Gen.Kernel.rwmLogFactor :=
  rwm_flow_symmetric β lx ly _ _ (fold_reflective_symmetric_nd k hk x y)

/-! ### … but NOT for a correlated increment (finding F21, discovered while building this check)

  Mirroring a path at a reflective wall mirrors the increment in that coordinate only; the reverse move needs the
  un-mirrored increment.  An even density `k(-ξ) = k(ξ)` is invariant under the JOINT sign flip, not under the flip of one
  coordinate, unless Σ is diagonal there.  Toy: 2 × 2 cells, both coordinates reflective, increments `±(1,1)`. -/

/-- cell index fold of a reflective coordinate with two cells per unit: … 1 0 | 0 1 | 1 0 | 0 1 … -/
def cellFold (i : ℤ) : ℤ := if i % 4 < 2 then i % 4 else 3 - i % 4
/-- perfectly correlated even increment law on ℤ²: `(1,1)` or `(-1,-1)`, each with probability 1/2 -/
def diagK (ξ : ℤ × ℤ) : ℚ := if ξ = (1, 1) ∨ ξ = (-1, -1) then 1 / 2 else 0
/-- transition probability of `fold (x + ξ)` on the 2 × 2 cells (uniform target: every proposal is accepted) -/
def diagFolded (x y : ℤ × ℤ) : ℚ :=
  (if (cellFold (x.1 + 1), cellFold (x.2 + 1)) = y then diagK (1, 1) else 0)
  + (if (cellFold (x.1 - 1), cellFold (x.2 - 1)) = y then diagK (-1, -1) else 0)

theorem diagK_even (ξ : ℤ × ℤ) : diagK (-ξ) = diagK ξ := by
  rcases ξ with ⟨a, b⟩
  unfold diagK
  simp only [Prod.neg_mk, Prod.mk.injEq]
  have : (-a = 1 ∧ -b = 1 ∨ -a = -1 ∧ -b = -1) ↔ (a = 1 ∧ b = 1 ∨ a = -1 ∧ b = -1) := by omega
  simp only [this]

/-- **F21**: with an even but correlated increment the reflective fold is not symmetric (`(0,1) → (1,1)` has probability
    1/2, the reverse move 0), and the uniform law is not invariant: the four transition probabilities INTO the diagonal
    corner `(1,1)` add up to 2, not 1. -/
theorem C03_reflect_correlated_asymmetric :
    diagFolded (0, 1) (1, 1) = 1 / 2 ∧ diagFolded (1, 1) (0, 1) = 0 ∧
    diagFolded (0, 0) (1, 1) + diagFolded (0, 1) (1, 1) + diagFolded (1, 0) (1, 1) + diagFolded (1, 1) (1, 1) = 2 := by
  refine ⟨?_, ?_, ?_⟩ <;> (simp [diagFolded, diagK, cellFold]; try norm_num)

/-! ## 6. hard boundaries: out-of-cube proposals are rejected (the code after the fix of F16) -/

/-- the code's acceptance for a move whose proposal passed (`inb = true`) or failed `check_bounds`:
    `alpha[~in_bounds] = …` as GENERATED (`Gen.Kernel.alphaOutOfBounds`) -/
noncomputable def boundedAccept (inb : Bool) (a : ℝ) : ℝ := if inb then a else Gen.Kernel.alphaOutOfBounds a

/-- target restricted to the cube: `π` inside, 0 outside -/
noncomputable def cubeWeight (inside : Bool) (p : ℝ) : ℝ := if inside then p else 0

theorem boundedAccept_outside (a : ℝ) : boundedAccept false a = 0 := by
  simp [boundedAccept, gen_eq_canon_alphaOutOfBounds, Model.Kernel.alphaOutOfBounds]

/-- **Rejection instead of truncation**: let `q` be the UNTRUNCATED proposal density on all of ℝ^d (or its periodic /
    reflective fold in the designated coordinates), reversible w.r.t. the reference `g` as proved in the interior, and let the
    acceptance be the MH ratio for proposals inside the cube and the generated out-of-bounds value (0) outside.  Then detailed
    balance holds w.r.t. `π·1_cube` for EVERY pair of points of ℝ^d: inside–inside it is the interior identity, and every
    flow that involves a point outside the cube is 0 in both directions. -/
theorem C03_hard_boundary_reject (inX inY : Bool) (px py gx gy qxy qyx : ℝ) (hpx : 0 < px) (hpy : 0 < py)
    (hgx : 0 < gx) (hgy : 0 < gy) (hrev : gx * qxy = gy * qyx) :
    cubeWeight inX px * qxy * boundedAccept inY (min 1 (py * gx / (px * gy)))
      = cubeWeight inY py * qyx * boundedAccept inX (min 1 (px * gy / (py * gx))) := by
  cases inX <;> cases inY
  · simp [cubeWeight]
  · simp [cubeWeight, boundedAccept_outside]
  · simp [cubeWeight, boundedAccept_outside]
  · simpa [cubeWeight, boundedAccept] using C03_mh_detailed_balance px py gx gy qxy qyx hpx hpy hgx hgy hrev

/-- tpCN with hard boundaries, as the code is now: detailed balance w.r.t. `exp(β·logL)·1_cube` for every pair of points
    (`inX`, `inY`: whether x, y lie in the cube) -/
theorem C03_tpcn_hard_reject (inX inY : Bool) (d ν σ β lx ly δx δy δxy : ℝ) (hν : 0 < ν) (hσ0 : 0 < σ) (hσ1 : σ < 1)
    (hx : 0 ≤ δx) (hy : 0 ≤ δy) :
    cubeWeight inX (exp (β * lx)) * tpcnQ d ν σ δx δy δxy
        * boundedAccept inY (Gen.Kernel.acceptProb β lx ly (Gen.Kernel.tpcnLogFactor d ν δx δy))
      = cubeWeight inY (exp (β * ly)) * tpcnQ d ν σ δy δx δxy
        * boundedAccept inX (Gen.Kernel.acceptProb β ly lx (Gen.Kernel.tpcnLogFactor d ν δy δx)) := by
  rw [C03_accept_is_mh_tpcn d ν β lx ly δx δy hν hx hy, C03_accept_is_mh_tpcn d ν β ly lx δy δx hν hy hx]
  exact C03_hard_boundary_reject inX inY _ _ _ _ _ _ (exp_pos _) (exp_pos _) (tker_pos d ν δx hν hx)
    (tker_pos d ν δy hν hy) (C03_tpcn_reversible_wrt_t d ν σ δx δy δxy hν hσ0 hσ1 hx hy)

/-- RWM with hard boundaries (in the non-designated coordinates), as the code is now: any symmetric proposal density — the
    even increment density itself, or its periodic / reflective fold of §5 — gives detailed balance w.r.t.
    `exp(β·logL)·1_cube` for every pair of points -/
theorem C03_rwm_hard_reject (inX inY : Bool) (β lx ly qxy qyx : ℝ) (hq : qxy = qyx) :
    cubeWeight inX (exp (β * lx)) * qxy * boundedAccept inY (Gen.Kernel.acceptProb β lx ly Gen.Kernel.rwmLogFactor)
      = cubeWeight inY (exp (β * ly)) * qyx * boundedAccept inX (Gen.Kernel.acceptProb β ly lx Gen.Kernel.rwmLogFactor) := by
  rw [C03_accept_is_mh_rwm, C03_accept_is_mh_rwm]
  exact C03_hard_boundary_reject inX inY _ _ 1 1 qxy qyx (exp_pos _) (exp_pos _) one_pos one_pos (by rw [hq])

/-! ### the OLD behaviour (F16, repaired in 9001dc4): why "redraw until inside" was wrong -/

/-- "Redraw until inside": the proposal from `x` is `k(x,·)/C(x)` on the cube, `C(x)` the inside mass.  With a
    symmetric part `S(x,y) = S(y,x) ≠ 0` (for RWM `S = k·min(π(x),π(y))`, for tpCN `S = t(x)q(x,y)·min(π/t)`) the flow
    `S/C(x)` is symmetric exactly when the inside masses agree. -/
theorem C03_truncation_symmetric_iff (S Cx Cy : ℝ) (hS : S ≠ 0) (hx : Cx ≠ 0) (hy : Cy ≠ 0) :
    S / Cx = S / Cy ↔ Cx = Cy := by
  constructor
  · intro h; field_simp at h; exact h.symm
  · intro h; rw [h]

/-- toy walk on ℤ: uniform on `{x-1, x, x+1}` (symmetric) -/
def toyK (x y : ℤ) : ℚ := if (x - y).natAbs ≤ 1 then 1 / 3 else 0
/-- the "cube" is `{0, 1, 2}`; inside mass of the untruncated proposal from `x` -/
def toyC (x : ℤ) : ℚ := toyK x 0 + toyK x 1 + toyK x 2
/-- uniform target on the three inside states -/
def toyPi (_ : ℤ) : ℚ := 1 / 3
/-- flow of the kernel AS THE CODE BUILT IT before 9001dc4: redraw until inside, Metropolis acceptance without a correction -/
def toyFlow (x y : ℤ) : ℚ := toyPi x * (toyK x y / toyC x) * min 1 (toyPi y / toyPi x)

theorem toyK_symm (x y : ℤ) : toyK x y = toyK y x := by
  unfold toyK
  have : (x - y).natAbs = (y - x).natAbs := by omega
  rw [this]

/-- **F16 (old code)**: symmetric proposal, uniform target, inside masses `C(0) = 2/3 ≠ 1 = C(1)` ⇒ the flows differ
    (`1/6` from the edge state, `1/9` into it): detailed balance fails at a hard boundary. -/
theorem C03_truncation_flow_asymmetric :
    toyC 0 = 2 / 3 ∧ toyC 1 = 1 ∧ toyFlow 0 1 = 1 / 6 ∧ toyFlow 1 0 = 1 / 9 ∧ toyFlow 0 1 ≠ toyFlow 1 0 := by
  refine ⟨by norm_num [toyC, toyK], by norm_num [toyC, toyK], by norm_num [toyFlow, toyC, toyK, toyPi],
    by norm_num [toyFlow, toyC, toyK, toyPi], by norm_num [toyFlow, toyC, toyK, toyPi]⟩

/-- … and the law that the truncated chain does leave invariant is `π·C`, not `π` -/
theorem toy_invariant_is_pi_times_C :
    (toyPi 0 * toyC 0) * (toyK 0 1 / toyC 0) = (toyPi 1 * toyC 1) * (toyK 1 0 / toyC 1) := by
  norm_num [toyC, toyK, toyPi]

/-! ## 7. why tpCN with a folded coordinate fails (F17) -/

/-- Student-t weights (ν = 1, d = 1, μ = 0, Σ = 1) on the grid `z = i/2` (grid step 1/2, so one period of a periodic
    coordinate is two grid steps; `i = 0..3` are two periods): `t = (1 + z²)^(-1)`, i.e. `1, 4/5, 1/2, 4/13` -/
def foldT (i : ℕ) : ℚ := (1 + ((i : ℚ) / 2) ^ 2)⁻¹

theorem foldT_values : foldT 0 = 1 ∧ foldT 1 = 4 / 5 ∧ foldT 2 = 1 / 2 ∧ foldT 3 = 4 / 13 := by
  refine ⟨?_, ?_, ?_, ?_⟩ <;> norm_num [foldT]

/-- a base proposal on the unfolded grid `{0,1,2,3}` that IS reversible w.r.t. `t` (as tpCN is): the independence
    draw from `t` -/
def foldQ (_x y' : ℕ) : ℚ := foldT y' / (foldT 0 + foldT 1 + foldT 2 + foldT 3)

theorem foldQ_reversible (x y : ℕ) : foldT x * foldQ x y = foldT y * foldQ y x := by
  unfold foldQ; ring

/-- proposal density after folding `z ↦ z mod 1` (grid index mod 2): both preimages `y`, `y + 2` contribute -/
def foldedQ (x y : ℕ) : ℚ := foldQ x y + foldQ x (y + 2)

/-- flow between the folded states `x, y ∈ {0, 1}` of the kernel AS THE CODE BUILDS IT (uniform target): folded
    proposal, acceptance `min 1 (t(x)/t(y))` with the Student-t ratio evaluated at the FOLDED point -/
def foldFlow (x y : ℕ) : ℚ := (1 / 2) * foldedQ x y * min 1 (foldT x / foldT y)

/-- **F17**: the Hastings ratio of the folded proposal is `Q(y,x)/Q(x,y) = 65/48`, the code uses `t(x)/t(y) = 5/4`;
    the resulting flows differ, so detailed balance fails for tpCN on a periodic (likewise reflective) coordinate. -/
theorem C03_tpcn_fold_not_hastings :
    foldedQ 1 0 / foldedQ 0 1 = 65 / 48 ∧ foldT 0 / foldT 1 = 5 / 4 ∧
    foldedQ 1 0 / foldedQ 0 1 ≠ foldT 0 / foldT 1 ∧ foldFlow 0 1 ≠ foldFlow 1 0 := by
  refine ⟨by norm_num [foldedQ, foldQ, foldT], by norm_num [foldT], by norm_num [foldedQ, foldQ, foldT],
    by norm_num [foldFlow, foldedQ, foldQ, foldT]⟩

/-! ## 8. structure of one step (from the regenerated statement tables) -/

/-- order of one step: proposals, then the bounds check (out-of-cube walkers keep their current point), factor, alpha,
    out-of-bounds alpha overwritten, only then the uniform draw / accept / update; `_adapt_sigma` is applied once per step
    after all of that: one step uses one fixed σ per cluster. -/
theorem C03_sigma_fixed_within_step :
    Gen.Kernel.stepOrder.count .adapt = 1 ∧ Gen.Kernel.stepOrder.count .propose = 1 ∧
    Gen.Kernel.stepOrder.idxOf .propose < Gen.Kernel.stepOrder.idxOf .boundsCheck ∧
    Gen.Kernel.stepOrder.idxOf .boundsCheck < Gen.Kernel.stepOrder.idxOf .keepCurrent ∧
    Gen.Kernel.stepOrder.idxOf .keepCurrent < Gen.Kernel.stepOrder.idxOf .transform ∧
    Gen.Kernel.stepOrder.idxOf .transform < Gen.Kernel.stepOrder.idxOf .factor ∧
    Gen.Kernel.stepOrder.idxOf .factor < Gen.Kernel.stepOrder.idxOf .alpha ∧
    Gen.Kernel.stepOrder.idxOf .alpha < Gen.Kernel.stepOrder.idxOf .zeroOutOfBounds ∧
    Gen.Kernel.stepOrder.idxOf .zeroOutOfBounds < Gen.Kernel.stepOrder.idxOf .accept ∧
    Gen.Kernel.stepOrder.idxOf .accept < Gen.Kernel.stepOrder.idxOf .update ∧
    Gen.Kernel.stepOrder.idxOf .update < Gen.Kernel.stepOrder.idxOf .adapt ∧
    Gen.Kernel.stepOrder.idxOf .adapt < Gen.Kernel.stepOrder.length := by
  decide

/-- shape of the two `_propose` bodies: ONE normal draw (tpCN: after one gamma draw), fold, return — no redraw loop and no
    bounds check inside `_propose` (the caller rejects) -/
theorem C03_propose_shape :
    Gen.Kernel.tpcnProposeShape = [.gamma, .draw, .fold, .ret] ∧
    Gen.Kernel.rwmProposeShape = [.draw, .fold, .ret] := by
  decide

/-! ## 9. non-vacuity -/

example : exp ((1/2) * (-1)) * tpcnQ 2 3 (1/2) 1 4 (3/2) *
      Gen.Kernel.acceptProb (1/2) (-1) (-2) (Gen.Kernel.tpcnLogFactor 2 3 1 4)
    = exp ((1/2) * (-2)) * tpcnQ 2 3 (1/2) 4 1 (3/2) *
      Gen.Kernel.acceptProb (1/2) (-2) (-1) (Gen.Kernel.tpcnLogFactor 2 3 4 1) :=
  C03_tpcn_interior 2 3 (1/2) (1/2) (-1) (-2) 1 4 (3/2) (by norm_num) (by norm_num) (by norm_num) (by norm_num)
    (by norm_num)

/-- the acceptance is not trivially constant: moving to a point of higher Student-t weight and equal likelihood is
    accepted with probability `t(x)/t(y) < 1` -/
example : Gen.Kernel.acceptProb (1:ℝ) 0 0 (Gen.Kernel.tpcnLogFactor 1 1 1 0) = 1 / 2 := by
  rw [C03_accept_is_mh_tpcn 1 1 1 0 0 1 0 (by norm_num) (by norm_num) (by norm_num)]
  have h1 : tker 1 1 1 = 1 / 2 := by
    unfold tker; norm_num [rpow_neg_one]
  have h0 : tker 1 1 0 = 1 := by unfold tker; norm_num
  rw [h1, h0]; norm_num

example : (Gen.Kernel.tpcnDiffCoef (3/5 : ℝ) 1) ^ 2 + (3/5 : ℝ) ^ 2 = 1 :=
  C03_tpcn_coef_sq (3/5) 1 (by norm_num)

example (x y : ℝ) : exp (1 * 0) * exp (-((y - x) ^ 2) / (2 * (1/2) ^ 2)) *
      Gen.Kernel.acceptProb 1 0 3 Gen.Kernel.rwmLogFactor
    = exp (1 * 3) * exp (-((x - y) ^ 2) / (2 * (1/2) ^ 2)) * Gen.Kernel.acceptProb 1 3 0 Gen.Kernel.rwmLogFactor :=
  C03_rwm_interior (fun z => exp (-(z ^ 2) / (2 * (1/2) ^ 2))) (fun z => gauss_even (1/2) z) x y 1 0 3

/-- inside → outside is never accepted, outside carries no mass: both flows vanish; inside ↔ inside is the interior flow -/
example (x y : ℝ) : cubeWeight true (exp (1 * 0)) * exp (-((y - x) ^ 2) / 2)
      * boundedAccept false (Gen.Kernel.acceptProb 1 0 3 Gen.Kernel.rwmLogFactor)
    = cubeWeight false (exp (1 * 3)) * exp (-((x - y) ^ 2) / 2)
      * boundedAccept true (Gen.Kernel.acceptProb 1 3 0 Gen.Kernel.rwmLogFactor) :=
  C03_rwm_hard_reject true false 1 0 3 _ _ (by rw [← neg_sub x y, neg_sq])

example : boundedAccept false (7 : ℝ) = 0 ∧ boundedAccept true (7 : ℝ) = 7 :=
  ⟨boundedAccept_outside 7, by simp [boundedAccept]⟩

example : ((1:ℝ) / (2/3) = 1 / 1 ↔ (2/3 : ℝ) = 1) :=
  C03_truncation_symmetric_iff 1 (2/3) 1 one_ne_zero (by norm_num) one_ne_zero

/-! ## 10. from vectors to the three scalars: the `ModeStatistics` hypotheses (`L Lᵀ = Σ`, `inv_cov = Σ⁻¹`)

  The theorems above speak about `δx, δy, δxy`.  Here the d-dimensional states are put back: with `Σ = L Lᵀ`, `L` invertible
  (what `ModeStatistics.__init__` precomputes; checked on the real class by suite `mode-stats-consistency`), the proposal
  `y = μ + a (x - μ) + c L z` has `δy - 2a δxy + a² δx = c² zᵀz`, so the standard-normal density `exp(-zᵀz/2)` of the tape IS the
  Gaussian factor `cnDens` (up to the state-free Jacobian `c^(-d) |L|^(-1)`), and the `δ`'s are non-negative. -/

section Geometry
open Matrix Lemmas.Maha Lemmas.KernelGeom
variable {d : Type} [Fintype d] [DecidableEq d]

/-- the hypotheses `0 ≤ δx`, `0 ≤ δy` of the interior theorems hold for the code's `dot_product` -/
theorem C03_dot_nonneg (L : Matrix d d ℝ) (hL : IsUnit L.det) (v : d → ℝ) : 0 ≤ maha (L * Lᵀ) v :=
  maha_chol_nonneg L hL v

/-- Crank–Nicolson exponent of the tpCN proposal in terms of the drawn normal vector -/
theorem C03_cn_exponent_is_noise_norm (L : Matrix d d ℝ) (hL : IsUnit L.det) (μ x z : d → ℝ) (a c : ℝ) :
    maha (L * Lᵀ) ((μ + a • (x - μ) + c • (L *ᵥ z)) - μ)
        - 2 * a * mahaCross (L * Lᵀ) (x - μ) ((μ + a • (x - μ) + c • (L *ᵥ z)) - μ)
        + a ^ 2 * maha (L * Lᵀ) (x - μ)
      = c ^ 2 * (z ⬝ᵥ z) := by
  rw [← maha_cn_expand (L * Lᵀ) (isSymm_mul_transpose L) a (x - μ), ← maha_chol_noise L hL c z]
  congr 1; abel

/-- hence the density `exp(-zᵀz/2)` of the normal tape equals the Gaussian factor of `cnDens` (exponent part) with
    `δx, δy, δxy` the Mahalanobis scalars of the actual states and noise variance `c²` -/
theorem C03_tape_density_is_cnDens (L : Matrix d d ℝ) (hL : IsUnit L.det) (μ x z : d → ℝ) (a c : ℝ) (hc : c ≠ 0) :
    Real.exp (-(z ⬝ᵥ z) / 2)
      = Real.exp (-(maha (L * Lᵀ) ((μ + a • (x - μ) + c • (L *ᵥ z)) - μ)
          - 2 * a * mahaCross (L * Lᵀ) (x - μ) ((μ + a • (x - μ) + c • (L *ᵥ z)) - μ)
          + a ^ 2 * maha (L * Lᵀ) (x - μ)) / (2 * c ^ 2)) := by
  rw [C03_cn_exponent_is_noise_norm L hL]
  congr 1; field_simp

/-- RWM: the increment `σ L z` has Mahalanobis norm `σ² zᵀz`, and the increment density `exp(-|ξ|²_Σ/(2σ²))` is even —
    the hypothesis `hk` of `C03_rwm_interior` / `C03_rwm_periodic_nd` for the actual d-dimensional correlated Gaussian -/
theorem C03_rwm_increment_even (S : Matrix d d ℝ) (σ : ℝ) (ξ : d → ℝ) :
    Real.exp (-(maha S (-ξ)) / (2 * σ ^ 2)) = Real.exp (-(maha S ξ) / (2 * σ ^ 2)) := by
  have : maha S (-ξ) = maha S ξ := by
    have h := maha_smul S (-1) ξ
    simpa using h
  rw [this]

theorem C03_rwm_increment_norm (L : Matrix d d ℝ) (hL : IsUnit L.det) (x z : d → ℝ) (σ : ℝ) :
    maha (L * Lᵀ) ((x + σ • (L *ᵥ z)) - x) = σ ^ 2 * (z ⬝ᵥ z) := by
  rw [← maha_chol_noise L hL σ z]; congr 1; abel

end Geometry

/-! ## 10b. any boundary type per coordinate (hard / periodic / reflective mixed in one vector) -/

/-- boundary type of a coordinate -/
inductive BT
  | hard | per | refl
  deriving DecidableEq

/-- index set of the preimages of a folded coordinate: one point (hard: no fold), `ℤ` (periodic), `ℤ × Bool` (reflective) -/
abbrev BIdx : BT → Type
  | .hard => Unit
  | .per => ℤ
  | .refl => ℤ × Bool

/-- the preimages of `y` under the coordinate's boundary map -/
def preB : (b : BT) → BIdx b → ℝ → ℝ
  | .hard, _, y => y
  | .per, m, y => ((m : ℤ) : ℝ) + y
  | .refl, p, y => Props.C16.reflPre p y

def flipB : (b : BT) → BIdx b ≃ BIdx b
  | .hard => Equiv.refl _
  | .per => Equiv.neg ℤ
  | .refl => Props.C16.flipE

/-- the reflective preimages `2m - y` are the ones whose displacement is NOT negated by the re-indexing -/
def keepsSign : (b : BT) → BIdx b → Bool
  | .hard, _ => false
  | .per, _ => false
  | .refl, p => !p.2

theorem preB_flip (b : BT) (q : BIdx b) (x y : ℝ) :
    preB b (flipB b q) y - x = -(if keepsSign b q then -(preB b q x - y) else (preB b q x - y)) := by
  cases b with
  | hard => simp [preB, flipB, keepsSign]
  | per =>
    simp only [preB, flipB, keepsSign, Equiv.neg_apply, Bool.false_eq_true, if_false]
    push_cast; ring
  | refl =>
    rcases q with ⟨m, c⟩
    cases c
    · simp only [preB, flipB, keepsSign, Props.C16.flipE, Props.C16.reflPre, Equiv.coe_fn_mk, Bool.false_eq_true,
        if_false, Bool.not_false, if_true]
      ring
    · simp only [preB, flipB, keepsSign, Props.C16.flipE, Props.C16.reflPre, Equiv.coe_fn_mk, if_true, Bool.not_true,
        Bool.false_eq_true, if_false, Int.cast_neg]
      ring

theorem keepsSign_refl (b : BT) (q : BIdx b) (h : keepsSign b q = true) : b = .refl := by
  cases b <;> simp_all [keepsSign]

/-- **Any mix of boundary types**: the proposal density after applying every coordinate's boundary map,
    `Σ_p k(pre_p(y) - x)`, is symmetric in `(x, y)` when the increment density `k` is even and, in addition, even in each
    REFLECTIVE coordinate separately (no condition on hard and periodic coordinates: full correlation allowed there). -/
theorem fold_mixed_symmetric {ι : Type} (bt : ι → BT) (k : (ι → ℝ) → ℝ) (hk0 : ∀ z, k (-z) = k z)
    (hk : ∀ (s : ι → Bool) (z : ι → ℝ), (∀ i, s i = true → bt i = .refl) →
      k (fun i => if s i then -z i else z i) = k z) (x y : ι → ℝ) :
    (∑' p : (i : ι) → BIdx (bt i), k (fun i => preB (bt i) (p i) (y i) - x i))
      = ∑' p : (i : ι) → BIdx (bt i), k (fun i => preB (bt i) (p i) (x i) - y i) := by
  rw [← (Equiv.piCongrRight (fun i : ι => flipB (bt i))).tsum_eq]
  congr 1; funext p
  have e : (fun i => preB (bt i) ((Equiv.piCongrRight (fun i : ι => flipB (bt i))) p i) (y i) - x i)
      = -(fun i => if keepsSign (bt i) (p i) then -(preB (bt i) (p i) (x i) - y i) else (preB (bt i) (p i) (x i) - y i)) := by
    funext i
    simp only [Equiv.piCongrRight_apply, Pi.neg_apply]
    exact preB_flip (bt i) (p i) (x i) (y i)
  rw [e, hk0, hk (fun i => keepsSign (bt i) (p i)) _ (fun i h => keepsSign_refl _ _ h)]

/-- RWM with an arbitrary boundary type per coordinate, as the code is now (fold, then reject outside the cube in the hard
    coordinates): detailed balance w.r.t. `exp(β·logL)·1_cube` for every pair of points, under the per-reflective-coordinate
    evenness that F21 shows to be necessary -/
theorem C03_rwm_mixed_boundaries {ι : Type} (bt : ι → BT) (k : (ι → ℝ) → ℝ) (hk0 : ∀ z, k (-z) = k z)
    (hk : ∀ (s : ι → Bool) (z : ι → ℝ), (∀ i, s i = true → bt i = .refl) →
      k (fun i => if s i then -z i else z i) = k z) (x y : ι → ℝ) (inX inY : Bool) (β lx ly : ℝ) :
    cubeWeight inX (exp (β * lx)) * (∑' p : (i : ι) → BIdx (bt i), k (fun i => preB (bt i) (p i) (y i) - x i))
        * boundedAccept inY (Gen.Kernel.acceptProb β lx ly Gen.Kernel.rwmLogFactor)
      = cubeWeight inY (exp (β * ly)) * (∑' p : (i : ι) → BIdx (bt i), k (fun i => preB (bt i) (p i) (x i) - y i))
        * boundedAccept inX (Gen.Kernel.acceptProb β ly lx Gen.Kernel.rwmLogFactor) :=
  C03_rwm_hard_reject inX inY β lx ly _ _ (fold_mixed_symmetric bt k hk0 hk x y)

/-- non-vacuity: two coordinates, the first periodic, the second hard, fully correlated-looking even density
    `k z = exp(-(z₀ - z₁)²)` (not even in each coordinate separately): the hypotheses hold since no coordinate is reflective -/
example (x y : Fin 2 → ℝ) :
    (∑' p : (i : Fin 2) → BIdx (![BT.per, BT.hard] i), (fun z : Fin 2 → ℝ => exp (-(z 0 - z 1) ^ 2))
        (fun i => preB (![BT.per, BT.hard] i) (p i) (y i) - x i))
      = ∑' p : (i : Fin 2) → BIdx (![BT.per, BT.hard] i), (fun z : Fin 2 → ℝ => exp (-(z 0 - z 1) ^ 2))
        (fun i => preB (![BT.per, BT.hard] i) (p i) (x i) - y i) := by
  refine fold_mixed_symmetric (![BT.per, BT.hard]) (fun z : Fin 2 → ℝ => exp (-(z 0 - z 1) ^ 2)) ?_ ?_ x y
  · intro z; simp only [Pi.neg_apply]; congr 1; ring
  · intro s z hs
    have h0 : s 0 = false := by
      by_contra h; have := hs 0 (by simpa using h); simp at this
    have h1 : s 1 = false := by
      by_contra h; have := hs 1 (by simpa using h); simp at this
    simp [h0, h1]

/-! ## 11. several modes: every walker uses the statistics of ITS mode, in the proposal and in the factor -/

section MultiMode
open Model.Kernel

/-- static tie (G4): every per-mode array in `_propose` is subscripted with `self.assignments[k]`, in
    `_compute_acceptance_factor` with `self.assignments` — no other index expression occurs -/
theorem C03_mode_index_coherent :
    Gen.Kernel.modeIndexTable ≠ [] ∧ ∀ e ∈ Gen.Kernel.modeIndexTable, e.2.2 = e.1 := by
  decide

/-- the ensemble model hands walker `w` exactly the statistics of mode `w.assign` (and that mode's step size); an invalid
    index is an error, never a default -/
theorem C03_walker_uses_own_mode {α : Type} [ScT α] (i : RunIn α) (w : Walker α) (o : StepOut α)
    (h : walkerStep i w = some o) :
    ∃ m sg, i.modes[w.assign]? = some m ∧ i.sigmas[w.assign]? = some sg ∧
      o = step { kind := i.kind, u := w.u, mu := m.mu, chol := m.chol, invcov := m.invcov, nu := m.nu, sigma := sg,
                 beta := i.beta, l := w.l, lp := w.lp, g := w.g, r := w.r, z := w.z, per := i.per, refl := i.refl } := by
  unfold walkerStep walkerInput at h
  cases hm : i.modes[w.assign]? with
  | none => simp [hm] at h
  | some m =>
    cases hs : i.sigmas[w.assign]? with
    | none => simp [hm, hs] at h
    | some sg =>
      simp only [hm, hs, Option.map_some, Option.some.injEq] at h
      exact ⟨m, sg, rfl, rfl, h.symm⟩

/-- for a tpCN walker the gamma parameters, both quadratic forms, the factor and alpha are all built from the SAME mode
    `m = modes[assign]` (mean, inverse covariance, dof) — the pairing the balance equation needs -/
theorem C03_multimode_factor_same_mode {α : Type} [ScT α] (i : RunIn α) (w : Walker α) (o : StepOut α)
    (hk : i.kind = .tpcn) (h : walkerStep i w = some o) :
    ∃ m, i.modes[w.assign]? = some m ∧
      o.dot = qform (vsub w.u m.mu) m.invcov ∧
      o.shape = gammaShape (Sc.ofNat w.u.length) m.nu ∧
      o.scale = gammaScale m.nu o.dot ∧
      o.dotp = qform (vsub o.prop m.mu) m.invcov ∧
      o.factor = tpcnLogFactor (Sc.ofNat w.u.length) m.nu o.dot o.dotp ∧
      o.alpha = boundedAlpha o.inb (acceptProb i.beta w.l w.lp o.factor) := by
  obtain ⟨m, sg, hm, -, ho⟩ := C03_walker_uses_own_mode i w o h
  refine ⟨m, hm, ?_⟩
  subst ho
  simp [step, finish, hk]

/-- clusters without a walker keep their step size; the others get `_adapt_sigma` of the mean alpha of THEIR walkers -/
theorem C03_adapt_per_cluster {α : Type} [ScT α] (i : RunIn α) (alphas : List α) (c : Nat) (sg : α)
    (hc : i.sigmas[c]? = some sg) :
    (adaptAll i alphas)[c]? = some
      (if (clusterAlphas (i.walkers.map (·.assign)) alphas c).isEmpty then sg
       else adaptOne i.kind sg i.iter (mean (clusterAlphas (i.walkers.map (·.assign)) alphas c)) i.sigma0) := by
  unfold adaptAll
  rw [List.getElem?_mapIdx, hc]; rfl

theorem C03_adapt_length {α : Type} [ScT α] (i : RunIn α) (alphas : List α) :
    (adaptAll i alphas).length = i.sigmas.length := by
  simp [adaptAll]

/-- **the ensemble**: the assignment is a function of the walker INDEX, fixed during the step, and the walkers use
    independent draws; if every walker's kernel satisfies detailed balance, so does the product kernel w.r.t. the product
    target (`flowF k` = π(x_k) P_k(x_k, y_k), `flowB k` = π(y_k) P_k(y_k, x_k)). -/
theorem C03_ensemble_detailed_balance {ι : Type} [Fintype ι] (flowF flowB : ι → ℝ) (h : ∀ k, flowF k = flowB k) :
    ∏ k, flowF k = ∏ k, flowB k :=
  Finset.prod_congr rfl fun k _ => h k

/-- the states never leave the cube: a step started inside `check_bounds` ends inside (accepted points passed the check,
    rejected walkers stay) — the invariant the hard-boundary theorem assumes of the current state -/
theorem C03_step_stays_in_cube {α : Type} [ScT α] (i : StepIn α)
    (h : Model.Boundary.checkBounds i.per i.refl i.u = true) :
    Model.Boundary.checkBounds i.per i.refl (step i).newU = true := by
  unfold step
  cases i.kind <;> simp only [finish] <;> split <;> (try exact h) <;> split <;> assumption

end MultiMode

/-! ## 12. step-size range and the degenerate step -/

/-- after any adaptation the tpCN step size lies in `[0, 0.99]` (for `sigma_0 ≥ 0`): the hypothesis `σ < 1` of
    `C03_tpcn_interior` is maintained by the code itself -/
theorem C03_tpcn_adapt_range (sigma iter acc sigma0 : ℝ) (h0 : 0 ≤ sigma0) (hit : 0 ≤ iter) :
    0 ≤ Gen.Kernel.tpcnAdapt sigma iter acc sigma0 ∧ Gen.Kernel.tpcnAdapt sigma iter acc sigma0 ≤ 99 / 100 := by
  rw [gen_eq_canon_tpcnAdapt sigma iter acc sigma0 hit]
  simp only [Model.Kernel.tpcnAdapt, ScReal.min_def, ScReal.max_def, ScReal.zero_def, ScReal.lit_def]
  constructor
  · apply le_min
    · exact le_max_right _ _
    · apply le_min h0; norm_num
  · calc min _ (min sigma0 _) ≤ min sigma0 _ := min_le_right _ _
      _ ≤ _ := min_le_right _ _
      _ = 99 / 100 := by norm_num

/-- `σ = 0` (the lower clip): coefficient 1 and no noise — the proposal is the current point and the step is the identity -/
theorem C03_tpcn_sigma_zero (s : ℝ) :
    Gen.Kernel.tpcnDiffCoef 0 s = 1 ∧ Gen.Kernel.tpcnNoiseScale 0 s = 0 := by
  rw [gen_eq_canon_tpcnDiffCoef, gen_eq_canon_tpcnNoiseScale]
  simp [Model.Kernel.diffCoef, Model.Kernel.noiseScale]

/-! ## 13. non-vacuity of §10–§12 -/

section Examples2
open Matrix Lemmas.Maha Lemmas.KernelGeom Model.Kernel

/-- identity factor, d = 2: the exponent identity with concrete vectors -/
example : maha ((1 : Matrix (Fin 2) (Fin 2) ℝ) * (1 : Matrix (Fin 2) (Fin 2) ℝ)ᵀ)
      ((![1/2, 1/2] + (4/5 : ℝ) • (![1/4, 1] - ![1/2, 1/2]) + (3/5 : ℝ) • ((1 : Matrix (Fin 2) (Fin 2) ℝ) *ᵥ ![1, -2]))
        - ![1/2, 1/2])
    - 2 * (4/5) * mahaCross ((1 : Matrix (Fin 2) (Fin 2) ℝ) * (1 : Matrix (Fin 2) (Fin 2) ℝ)ᵀ) (![1/4, 1] - ![1/2, 1/2])
      ((![1/2, 1/2] + (4/5 : ℝ) • (![1/4, 1] - ![1/2, 1/2]) + (3/5 : ℝ) • ((1 : Matrix (Fin 2) (Fin 2) ℝ) *ᵥ ![1, -2]))
        - ![1/2, 1/2])
    + (4/5) ^ 2 * maha ((1 : Matrix (Fin 2) (Fin 2) ℝ) * (1 : Matrix (Fin 2) (Fin 2) ℝ)ᵀ) (![1/4, 1] - ![1/2, 1/2])
    = (3/5) ^ 2 * (![1, -2] ⬝ᵥ ![1, -2]) :=
  C03_cn_exponent_is_noise_norm 1 (by simp) _ _ _ _ _

noncomputable def exModes : List (Mode ℝ) :=
  [{ mu := [3/10], chol := [[1/10]], invcov := [[100]], nu := 5/2 }, { mu := [7/10], chol := [[1/4]], invcov := [[16]], nu := 60 }]
noncomputable def exRun : RunIn ℝ :=
  { kind := .tpcn, modes := exModes, sigmas := [1/2, 4/5], beta := 1, per := [], refl := [], iter := 1, sigma0 := 238/100,
    walkers := [] }
noncomputable def exWalker (a : Nat) : Walker ℝ := { u := [2/5], assign := a, l := 0, lp := 0, g := 1, r := 1/2, z := [1] }

/-- walker assigned to mode 1 gets mode 1's dof 60 (not mode 0's 5/2) in the gamma shape; index 5 is an error -/
example : (walkerStep exRun (exWalker 1)).isSome = true ∧ walkerStep exRun (exWalker 5) = none := by
  constructor <;> simp [walkerStep, walkerInput, exRun, exModes, exWalker]

example : ∃ o, walkerStep exRun (exWalker 1) = some o ∧ o.shape = gammaShape (Sc.ofNat 1) (60 : ℝ) := by
  obtain ⟨o, ho⟩ := Option.isSome_iff_exists.mp
    (show (walkerStep exRun (exWalker 1)).isSome = true by simp [walkerStep, walkerInput, exRun, exModes, exWalker])
  refine ⟨o, ho, ?_⟩
  obtain ⟨m, hm, -, hshape, -⟩ := C03_multimode_factor_same_mode exRun (exWalker 1) o rfl ho
  have : m.nu = 60 := by
    simp [exRun, exModes, exWalker] at hm; rw [← hm]
  rw [hshape, this]; rfl

example : (0 : ℝ) ≤ Gen.Kernel.tpcnAdapt (1/2 : ℝ) 1 1 (238/100) ∧ Gen.Kernel.tpcnAdapt (1/2 : ℝ) 1 1 (238/100) ≤ 99 / 100 :=
  C03_tpcn_adapt_range (1/2) 1 1 (238/100) (by norm_num) (by norm_num)

example : (2 : ℝ) * 3 * 5 = 5 * 3 * 2 := by
  have := C03_ensemble_detailed_balance (ι := Fin 3) ![2, 3, 5] ![2, 3, 5] (fun _ => rfl)
  norm_num

end Examples2

end Props.C03
