import TempestVerif.Model.GMM
import TempestVerif.Props.C15
import TempestVerif.Lemmas.CholList
import TempestVerif.Lemmas.ScReal
import TempestVerif.Lemmas.Rounded
import Mathlib.Tactic
/-
  C15 (clause audit) — the WHOLE `GaussianMixture.fit`, E-step inside.

  Part 1: one row of the E-step as it is now (log space, shifted by the row maximum): a probability vector over ℝ
          (`C15_softRow_simplex`), entries in [0,1] with a normaliser ≥ 1 under ANY monotone idempotent rounding that
          fixes 0 and 1 (`C15_softRow_rounded` — the floating-point reading), and what the rule before fix 632b97e
          (`/= row sum + 1e-10`) did instead (`C15_old_estep_not_normalised`).
  Part 2: the E-step of the model delivers such rows whenever some mixing weight is positive (`C15_estep_rows`).
  Part 3: the loop invariant `Inv` (mixing weights on the simplex, covariances of the form Σ ω d dᵀ/(Σω+eps) with ω ≥ 0)
          is established by the initialisation, preserved by every EM iteration, hence holds for what `fit` returns:
          `C15_fit_invariants` and the property-level corollaries `C15_fit_weights_simplex`, `C15_fit_cov_sym_psd`,
          `C15_fit_mean_in_bbox` (`C15_fit_iter_bounds` is in `Props/C15Hier.lean`, for every scalar instance) — for every `rand()` tape, every refusal oracle `sing`,
          every `n_init ≥ 1`, `max_iter ≥ 1`, both covariance structures.
  Part 4 is in `Props/C15FitTotal.lean`: under the invariant `C + reg·I` is symmetric positive definite, the model's Cholesky
          factorisation succeeds (`Lemmas.CholList`), so the only fall-back to `reg·I` is the one scipy's oracle asks for
          (`C15_no_model_fallback`, `C15_fallback_iff_oracle`), and the fit always returns on the statement's domain
          (`C15_fit_returns`, `C15_fit_total`).
-/
namespace Props.C15
open Model.EM Model.GMM Lemmas.CholList

/-! ## Part 1 — one row of the E-step -/

theorem rowMaxO_none_gen {α : Type} [ScT α] (row : List (Option α)) :
    rowMaxO row = none ↔ ∀ o ∈ row, o = none := by
  induction row with
  | nil => simp [rowMaxO]
  | cons o row ih =>
    cases o with
    | none => simp [rowMaxO, ih]
    | some x =>
      simp only [rowMaxO]
      constructor
      · intro h; split at h <;> simp at h
      · intro h; have := h (some x) (by simp); simp at this

theorem rowMaxO_none (row : List (Option ℝ)) : rowMaxO row = none ↔ ∀ o ∈ row, o = none :=
  rowMaxO_none_gen row

theorem rowMaxO_spec (row : List (Option ℝ)) (m : ℝ) (h : rowMaxO row = some m) :
    some m ∈ row ∧ ∀ t, some t ∈ row → t ≤ m := by
  induction row generalizing m with
  | nil => simp [rowMaxO] at h
  | cons o row ih =>
    cases o with
    | none =>
      simp only [rowMaxO] at h
      obtain ⟨h1, h2⟩ := ih m h
      exact ⟨List.mem_cons_of_mem _ h1, fun t ht => by
        rcases List.mem_cons.mp ht with ht | ht
        · cases ht
        · exact h2 t ht⟩
    | some x =>
      simp only [rowMaxO] at h
      cases hr : rowMaxO row with
      | none =>
        rw [hr] at h
        simp only [Option.some.injEq] at h
        subst h
        refine ⟨by simp, fun t ht => ?_⟩
        rcases List.mem_cons.mp ht with ht | ht
        · simp at ht; rw [ht]
        · have := (rowMaxO_none row).mp hr _ ht; cases this
      | some m' =>
        rw [hr] at h
        simp only [Option.some.injEq] at h
        obtain ⟨h1, h2⟩ := ih m' hr
        rw [ScReal.max_def] at h
        subst h
        constructor
        · rcases max_choice x m' with hc | hc
          · rw [hc]; simp
          · rw [hc]; exact List.mem_cons_of_mem _ h1
        · intro t ht
          rcases List.mem_cons.mp ht with ht | ht
          · simp at ht; rw [ht]; exact le_max_left _ _
          · exact (h2 t ht).trans (le_max_right _ _)

/-- the exponentiated, shifted row: `np.exp(row - max)` with `exp(-inf) = 0` -/
noncomputable def expRow (m : ℝ) (row : List (Option ℝ)) : List ℝ :=
  row.map fun o => match o with | some t => Real.exp (t - m) | none => 0

theorem softRow_eq (row : List (Option ℝ)) (m : ℝ) (h : rowMaxO row = some m) :
    softRow row = some ((expRow m row).map fun p => p / (expRow m row).sum) := by
  have key : ∀ f : Option ℝ → ℝ, (∀ t, f (some t) = Real.exp (t - m)) → f none = 0 →
      some ((row.map f).map fun p => Sc.div p (Sc.sum (row.map f)))
        = some ((expRow m row).map fun p => p / (expRow m row).sum) := by
    intro f hs hn
    have e : row.map f = expRow m row := by
      unfold expRow
      exact List.map_congr_left (fun o _ => by cases o <;> simp [hs, hn])
    rw [e]
    simp only [sum_eq, ScReal.div_def]
  unfold softRow
  simp only [h]
  exact key _ (fun t => by simp) (by simp)

/-- **one row of the E-step is a probability vector**: if at least one entry of `log_resp` is finite, the row
    `exp(row − max) / Σ exp(row − max)` exists, has non-negative entries summing to exactly 1, a strictly positive entry
    wherever the log-responsibility is finite and 0 where it is `-inf`; the normaliser is ≥ 1 (the maximal entry is `exp 0`). -/
theorem C15_softRow_simplex (row : List (Option ℝ)) (hfin : ∃ t, some t ∈ row) :
    ∃ r : List ℝ, softRow row = some r ∧ r.length = row.length ∧ (∀ p ∈ r, 0 ≤ p) ∧ Sc.sum r = 1 ∧
      (∀ (k : ℕ) (t : ℝ), row[k]? = some (some t) → ∃ p : ℝ, r[k]? = some p ∧ 0 < p) ∧
      (∀ k : ℕ, row[k]? = some none → r[k]? = some (0 : ℝ)) := by
  obtain ⟨t0, ht0⟩ := hfin
  cases hm : rowMaxO row with
  | none => have := (rowMaxO_none row).mp hm _ ht0; cases this
  | some m =>
    obtain ⟨hmem, hle⟩ := rowMaxO_spec row m hm
    have hnn : ∀ e ∈ expRow m row, 0 ≤ e := by
      intro e he
      simp only [expRow, List.mem_map] at he
      obtain ⟨o, _, rfl⟩ := he
      cases o with
      | none => exact le_refl _
      | some t => exact (Real.exp_pos _).le
    have hone : (1 : ℝ) ∈ expRow m row := by
      simp only [expRow, List.mem_map]
      exact ⟨some m, hmem, by simp⟩
    have htot : 1 ≤ (expRow m row).sum := List.single_le_sum hnn 1 hone
    have hpos : 0 < (expRow m row).sum := lt_of_lt_of_le one_pos htot
    refine ⟨_, softRow_eq row m hm, by simp [expRow], ?_, ?_, ?_, ?_⟩
    · intro p hp
      simp only [List.mem_map] at hp
      obtain ⟨e, he, rfl⟩ := hp
      exact div_nonneg (hnn e he) hpos.le
    · have := (normalise_simplex (expRow m row) hnn hpos).2
      simpa [normalise, sum_eq] using this
    · intro k t hk
      refine ⟨Real.exp (t - m) / (expRow m row).sum, ?_, div_pos (Real.exp_pos _) hpos⟩
      simp [expRow, List.getElem?_map, hk]
    · intro k hk
      simp [expRow, List.getElem?_map, hk]

/-! ### the same row under rounded arithmetic -/

section Rounded
variable {rnd : ℝ → ℝ}

theorem rd_sum_ge (hm : Monotone rnd) (hi : ∀ x, rnd (rnd x) = rnd x) :
    ∀ (l : List (Rd rnd)) (acc : Rd rnd), rnd acc.v = acc.v → (∀ e ∈ l, 0 ≤ e.v) →
      acc.v ≤ (l.foldl Sc.add acc).v ∧ rnd (l.foldl Sc.add acc).v = (l.foldl Sc.add acc).v := by
  intro l
  induction l with
  | nil => intro acc ha _; exact ⟨le_refl _, ha⟩
  | cons e l ih =>
    intro acc ha hnn
    have he : 0 ≤ e.v := hnn e (by simp)
    have h1 : acc.v ≤ (Sc.add acc e).v := by
      rw [Rd.add_v, ← ha]; exact hm (by rw [ha]; linarith)
    have h2 : rnd (Sc.add acc e).v = (Sc.add acc e).v := by rw [Rd.add_v, hi]
    obtain ⟨h3, h4⟩ := ih (Sc.add acc e) h2 (fun x hx => hnn x (List.mem_cons_of_mem _ hx))
    exact ⟨h1.trans h3, h4⟩

theorem rd_sum_ge_mem (hm : Monotone rnd) (hi : ∀ x, rnd (rnd x) = rnd x) :
    ∀ (l : List (Rd rnd)) (acc : Rd rnd) (x : Rd rnd), rnd acc.v = acc.v → 0 ≤ acc.v → (∀ e ∈ l, 0 ≤ e.v) →
      x ∈ l → rnd x.v = x.v → x.v ≤ (l.foldl Sc.add acc).v := by
  intro l
  induction l with
  | nil => intro acc x _ _ _ hx; simp at hx
  | cons e l ih =>
    intro acc x ha ha0 hnn hx hxr
    have he : 0 ≤ e.v := hnn e (by simp)
    have h2 : rnd (Sc.add acc e).v = (Sc.add acc e).v := by rw [Rd.add_v, hi]
    have hacc' : acc.v ≤ (Sc.add acc e).v := by
      rw [Rd.add_v, ← ha]; exact hm (by rw [ha]; linarith)
    rcases List.mem_cons.mp hx with rfl | hx
    · have h1 : x.v ≤ (Sc.add acc x).v := by
        rw [Rd.add_v, ← hxr]; exact hm (by rw [hxr]; linarith)
      exact h1.trans (rd_sum_ge hm hi l _ h2 (fun y hy => hnn y (List.mem_cons_of_mem _ hy))).1
    · exact ih (Sc.add acc e) x h2 (ha0.trans hacc') (fun y hy => hnn y (List.mem_cons_of_mem _ hy)) hx hxr

theorem rowMaxO_spec_rd : ∀ (row : List (Option (Rd rnd))) (m : Rd rnd), rowMaxO row = some m →
    some m ∈ row ∧ ∀ t, some t ∈ row → t.v ≤ m.v := by
  intro row
  induction row with
  | nil => intro m h; simp [rowMaxO] at h
  | cons o row ih =>
    intro m h
    cases o with
    | none =>
      simp only [rowMaxO] at h
      obtain ⟨h1, h2⟩ := ih m h
      exact ⟨List.mem_cons_of_mem _ h1, fun t ht => by
        rcases List.mem_cons.mp ht with ht | ht
        · cases ht
        · exact h2 t ht⟩
    | some x =>
      simp only [rowMaxO] at h
      cases hr : rowMaxO row with
      | none =>
        rw [hr] at h
        simp only [Option.some.injEq] at h
        subst h
        refine ⟨by simp, fun t ht => ?_⟩
        rcases List.mem_cons.mp ht with ht | ht
        · simp at ht; rw [ht]
        · have := (rowMaxO_none_gen row).mp hr _ ht; cases this
      | some m' =>
        rw [hr] at h
        simp only [Option.some.injEq] at h
        obtain ⟨h1, h2⟩ := ih m' hr
        subst h
        unfold Sc.max
        by_cases hlt : Sc.lt x m' = true
        · rw [if_pos hlt]
          have hlt' : x.v < m'.v := (Rd.lt_iff _ _).mp hlt
          refine ⟨List.mem_cons_of_mem _ h1, fun t ht => ?_⟩
          rcases List.mem_cons.mp ht with ht | ht
          · simp at ht; rw [ht]; exact hlt'.le
          · exact h2 t ht
        · rw [if_neg hlt]
          have hge : m'.v ≤ x.v := by
            by_contra hcon
            exact hlt ((Rd.lt_iff _ _).mpr (not_le.mp hcon))
          refine ⟨by simp, fun t ht => ?_⟩
          rcases List.mem_cons.mp ht with ht | ht
          · simp at ht; rw [ht]
          · exact (h2 t ht).trans hge

theorem softRow_rounded_key (hm : Monotone rnd) (hi : ∀ x, rnd (rnd x) = rnd x) (h0 : rnd 0 = 0) (h1 : rnd 1 = 1)
    (row : List (Option (Rd rnd))) (m : Rd rnd) (hmem : some m ∈ row) (hle : ∀ t, some t ∈ row → t.v ≤ m.v)
    (f : Option (Rd rnd) → Rd rnd) (hs : ∀ t, f (some t) = ScT.exp (Sc.sub t m)) (hn : f none = Sc.zero) :
    1 ≤ (Sc.sum (row.map f)).v ∧
      ∀ p ∈ (row.map f).map (fun p => Sc.div p (Sc.sum (row.map f))), 0 ≤ p.v ∧ p.v ≤ 1 := by
  -- every entry of e is a rounded value in [0, 1]
  have hent : ∀ x ∈ row.map f, 0 ≤ x.v ∧ x.v ≤ 1 ∧ rnd x.v = x.v := by
    intro x hx
    simp only [List.mem_map] at hx
    obtain ⟨o, ho, rfl⟩ := hx
    cases o with
    | none => rw [hn]; simp [h0]
    | some t =>
      have hd : rnd (t.v - m.v) ≤ 0 := by
        rw [← h0]; exact hm (by have := hle t ho; linarith)
      rw [hs]
      simp only [Rd.exp_v, Rd.sub_v]
      refine ⟨?_, ?_, hi _⟩
      · rw [← h0]; exact hm (Real.exp_pos _).le
      · rw [← h1]; exact hm (by rw [Real.exp_le_one_iff]; exact hd)
  have hone : (⟨1⟩ : Rd rnd) ∈ row.map f := by
    simp only [List.mem_map]
    refine ⟨some m, hmem, ?_⟩
    rw [hs]
    have : (ScT.exp (Sc.sub m m) : Rd rnd).v = 1 := by simp [h0, h1]
    cases hx : (ScT.exp (Sc.sub m m) : Rd rnd) with
    | mk v => rw [hx] at this; simp at this; rw [this]
  have htot : 1 ≤ (Sc.sum (row.map f)).v := by
    unfold Sc.sum
    have := rd_sum_ge_mem hm hi (row.map f) (Sc.zero : Rd rnd) ⟨1⟩ (by simp [h0]) (by simp)
      (fun x hx => (hent x hx).1) hone (by simp [h1])
    simpa using this
  refine ⟨htot, ?_⟩
  intro p hp
  simp only [List.mem_map] at hp
  obtain ⟨x, hx, rfl⟩ := hp
  obtain ⟨hx0, hx1, _⟩ := hent x (by simpa using hx)
  have hpos : 0 < (Sc.sum (row.map f)).v := lt_of_lt_of_le one_pos htot
  simp only [Rd.div_v]
  constructor
  · rw [← h0]; exact hm (div_nonneg hx0 hpos.le)
  · rw [← h1]; exact hm (by rw [div_le_one hpos]; linarith)

/-- **the E-step row in floating-point-like arithmetic** (`Rd rnd`: every `+ − × ÷ exp` followed by a rounding `rnd`):
    for ANY monotone idempotent rounding that fixes 0 and 1 — round-to-nearest, directed roundings — a row with a finite
    entry is normalised by a sum `Sc.sum e ≥ 1` (the maximal entry of `e = exp(row − max)` is exactly `exp(0) = 1`), so no
    division by zero occurs and every responsibility lies in [0, 1].  (Nothing exceeds the summands ≤ 1: no overflow.) -/
theorem C15_softRow_rounded (hm : Monotone rnd) (hi : ∀ x, rnd (rnd x) = rnd x) (h0 : rnd 0 = 0) (h1 : rnd 1 = 1)
    (row : List (Option (Rd rnd))) (hfin : ∃ t, some t ∈ row) :
    ∃ (r e : List (Rd rnd)), softRow row = some r ∧ r = e.map (fun p => Sc.div p (Sc.sum e)) ∧
      e.length = row.length ∧ 1 ≤ (Sc.sum e).v ∧ ∀ p ∈ r, 0 ≤ p.v ∧ p.v ≤ 1 := by
  obtain ⟨t0, ht0⟩ := hfin
  cases hmx : rowMaxO row with
  | none => have := (rowMaxO_none_gen row).mp hmx _ ht0; cases this
  | some m =>
    obtain ⟨hmem, hle⟩ := rowMaxO_spec_rd row m hmx
    unfold softRow
    simp only [hmx]
    refine ⟨_, _, rfl, rfl, by simp, ?_⟩
    exact softRow_rounded_key hm hi h0 h1 row m hmem hle _ (fun t => rfl) rfl

end Rounded

/-! ### the rule before fix 632b97e, for the record -/

/-- **why the old E-step failed** (`responsibilities /= row_sum + 1e-10`, known finding F30): a row with total un-normalised
    density `T` summed to `T / (T + eps)`, not to 1 — close to 1 only while `T ≫ eps`.  With one component the single
    responsibility was `p / (p + eps)` instead of 1: proportional to the density once `p ≪ eps`. -/
theorem C15_old_estep_not_normalised (eps : ℝ) (heps : 0 < eps) (row : List ℝ) (h0 : ∀ p ∈ row, 0 ≤ p) :
    ∀ r ∈ estepNormalise eps [row], Sc.sum r = row.sum / (row.sum + eps) ∧ Sc.sum r < 1 := by
  intro r hr
  simp only [estepNormalise, List.map_cons, List.map_nil, List.mem_singleton] at hr
  subst hr
  have hs : 0 ≤ row.sum := List.sum_nonneg h0
  have ht : 0 < row.sum + eps := by linarith
  have e : Sc.sum (row.map fun p => Sc.div p (Sc.add (Sc.sum row) eps)) = row.sum / (row.sum + eps) := by
    simp only [sum_eq, ScReal.div_def, ScReal.add_def]
    have : (row.map fun x => x / (row.sum + eps)) = row.map (fun x => id x * (row.sum + eps)⁻¹) := by
      simp [div_eq_mul_inv]
    rw [this, List.sum_map_mul_right, List.map_id, ← div_eq_mul_inv]
  exact ⟨e, by rw [e, div_lt_one ht]; linarith⟩

/-- the numbers of the finding: one component, density `1e-20` at a point, `eps = 1e-10`: responsibility ≈ `1e-10`, not 1 -/
example : ∀ r ∈ estepNormalise (1 / 10 ^ 10 : ℝ) [[1 / 10 ^ 20]], Sc.sum r < 1 / 10 ^ 9 := by
  intro r hr
  obtain ⟨h1, _⟩ := C15_old_estep_not_normalised (1 / 10 ^ 10) (by positivity) [1 / 10 ^ 20] (by simp) r hr
  rw [h1]
  norm_num

/-! ## Part 2 — the E-step of the model -/

theorem logpdfCol_len (sing : Mat ℝ → Bool) (d : ℕ) (M : Mat ℝ) (m : List ℝ) (X : Mat ℝ) (l : List ℝ)
    (h : logpdfCol sing d M m X = some l) : l.length = X.length := by
  unfold logpdfCol at h
  split at h
  · cases h
  · split at h
    · cases h
    · exact mapOpt_length _ _ _ h

/-- a column of `log_resp`: one entry per point; finite everywhere if the mixing weight is positive, `-inf` everywhere if not -/
def ColOK (n : ℕ) (w : ℝ) (col : List (Option ℝ)) : Prop :=
  col.length = n ∧ (0 < w → ∀ o ∈ col, ∃ t, o = some t) ∧ (¬ 0 < w → ∀ o ∈ col, o = none)

theorem estepCol_form (sing : Mat ℝ → Bool) (reg : ℝ) (d : ℕ) (w : ℝ) (m : List ℝ) (C : Mat ℝ) (X : Mat ℝ)
    (col : List (Option ℝ)) (h : estepCol sing reg d w m C X = some col) : ColOK X.length w col := by
  unfold estepCol at h
  simp only [Option.map_eq_some_iff] at h
  obtain ⟨l, hl, rfl⟩ := h
  have hlen : l.length = X.length := by
    split at hl
    · rename_i l' h'
      simp only [Option.some.injEq] at hl; subst hl
      exact logpdfCol_len _ _ _ _ _ _ h'
    · exact logpdfCol_len _ _ _ _ _ _ hl
  refine ⟨by simp [hlen], ?_, ?_⟩
  · intro hw o ho
    simp only [List.mem_map] at ho
    obtain ⟨t, _, rfl⟩ := ho
    exact ⟨Real.log w + t, by simp [logW, hw]⟩
  · intro hw o ho
    simp only [List.mem_map] at ho
    obtain ⟨t, _, rfl⟩ := ho
    simpa [logW] using not_lt.mp hw

theorem estepCols_form (sing : Mat ℝ → Bool) (reg : ℝ) (d : ℕ) (ws : List ℝ) (ms : Mat ℝ) (Cs : List (Mat ℝ))
    (X : Mat ℝ) (cols : List (List (Option ℝ))) (h : estepCols sing reg d ws ms Cs X = some cols) :
    cols.length = (List.zip ws (List.zip ms Cs)).length ∧
      ∀ (k : ℕ) (col : List (Option ℝ)), cols[k]? = some col → ∃ w : ℝ, ws[k]? = some w ∧ ColOK X.length w col := by
  unfold estepCols at h
  refine ⟨mapOpt_length _ _ _ h, ?_⟩
  intro k col hk
  have hlen := mapOpt_length _ _ _ h
  have hk' : k < (List.zip ws (List.zip ms Cs)).length := by
    by_contra hcon
    rw [List.getElem?_eq_none (by omega)] at hk; cases hk
  obtain ⟨t, ht⟩ : ∃ t, (List.zip ws (List.zip ms Cs))[k]? = some t := ⟨_, List.getElem?_eq_getElem hk'⟩
  have hf := mapOpt_get _ _ _ h k t ht
  rw [hk] at hf
  have hz := List.getElem?_zip_eq_some.mp ht
  exact ⟨t.1, hz.1, estepCol_form _ _ _ _ _ _ _ _ hf⟩

theorem col_get {β : Type} (i : ℕ) : ∀ (cols : List (List β)), (∀ c ∈ cols, i < c.length) →
    (col cols i).length = cols.length ∧ ∀ (k : ℕ) (c : List β), cols[k]? = some c → (col cols i)[k]? = c[i]? := by
  intro cols
  induction cols with
  | nil => intro _; simp [col]
  | cons c0 cols ih =>
    intro h
    have h0 : i < c0.length := h c0 (by simp)
    obtain ⟨ih1, ih2⟩ := ih (fun c hc => h c (List.mem_cons_of_mem _ hc))
    rw [col_cons_lt c0 cols i h0]
    refine ⟨by simp [ih1], ?_⟩
    intro k c hk
    cases k with
    | zero => simp at hk; subst hk; simp [List.getElem?_eq_getElem h0]
    | succ k => simp at hk; simpa using ih2 k c hk

theorem rowsOfCols_get {β : Type} (n : ℕ) (cols : List (List β)) (i : ℕ) (hi : i < n) :
    (rowsOfCols n cols)[i]? = some (col cols i) := by
  simp [rowsOfCols, List.getElem?_map, List.getElem?_range hi]

/-- **every row of the E-step is a probability vector** (entries ≥ 0, sum exactly 1, one entry per component), whenever the
    three parameter lists have `K` entries and at least one mixing weight is positive — whatever the covariances are and
    whichever of them scipy refuses -/
theorem C15_estep_rows_simplex (sing : Mat ℝ → Bool) (reg : ℝ) (d K : ℕ) (ws : List ℝ) (ms : Mat ℝ) (Cs : List (Mat ℝ))
    (X : Mat ℝ) (hw : ws.length = K) (hm : ms.length = K) (hC : Cs.length = K)
    (hpos : ∃ (k : ℕ) (w : ℝ), ws[k]? = some w ∧ 0 < w) (R : Mat ℝ) (h : estep sing reg d ws ms Cs X = some R) :
    R.length = X.length ∧ ∀ row ∈ R, row.length = K ∧ (∀ r ∈ row, 0 ≤ r) ∧ Sc.sum row = 1 := by
  unfold estep at h
  simp only [Option.bind_eq_some_iff] at h
  obtain ⟨cols, hcols, hR⟩ := h
  obtain ⟨hclen, hcol⟩ := estepCols_form _ _ _ _ _ _ _ _ hcols
  have hzl : (List.zip ws (List.zip ms Cs)).length = K := by simp [hw, hm, hC]
  have hRlen : R.length = X.length := by
    have := mapOpt_length _ _ _ hR
    simpa [rowsOfCols] using this
  refine ⟨hRlen, ?_⟩
  intro row hrow
  obtain ⟨i, hi⟩ := List.getElem?_of_mem hrow
  have hin : i < X.length := by
    by_contra hcon
    rw [List.getElem?_eq_none (by omega)] at hi; cases hi
  have hsoft : softRow (col cols i) = some row := by
    have := mapOpt_get _ _ _ hR i (col cols i) (rowsOfCols_get _ _ _ hin)
    rw [this, hi]
  have hall : ∀ c ∈ cols, i < c.length := by
    intro c hc
    obtain ⟨k, hk⟩ := List.getElem?_of_mem hc
    obtain ⟨w, _, hok⟩ := hcol k c hk
    rw [hok.1]; exact hin
  obtain ⟨hl, hget⟩ := col_get i cols hall
  -- the column of a component with positive weight is finite at point i
  obtain ⟨k0, w0, hk0, hw0⟩ := hpos
  have hk0K : k0 < cols.length := by
    have : k0 < ws.length := by
      by_contra hcon
      rw [List.getElem?_eq_none (by omega)] at hk0; cases hk0
    omega
  obtain ⟨c0, hc0⟩ : ∃ c, cols[k0]? = some c := ⟨_, List.getElem?_eq_getElem hk0K⟩
  obtain ⟨w', hw', hok⟩ := hcol k0 c0 hc0
  rw [hk0] at hw'; simp only [Option.some.injEq] at hw'; subst hw'
  have hi0 : i < c0.length := by rw [hok.1]; exact hin
  obtain ⟨t, ht⟩ := hok.2.1 hw0 c0[i] (List.getElem_mem _)
  have hfin : ∃ t, some t ∈ col cols i := by
    refine ⟨t, ?_⟩
    have := hget k0 c0 hc0
    rw [List.getElem?_eq_getElem hi0, ht] at this
    exact List.mem_of_getElem? this
  obtain ⟨r, hr, hrl, hnn, hsum, _, _⟩ := C15_softRow_simplex (col cols i) hfin
  rw [hsoft] at hr
  simp only [Option.some.injEq] at hr
  subst hr
  exact ⟨by rw [hrl, hl, hclen, hzl], hnn, hsum⟩


/-! ## Part 3 — the loop invariant and the whole fit -/

/-- what an E-step (or the initial soft assignment) hands to the M-step: an `n × K` matrix of probability rows -/
structure GoodR (n K : ℕ) (R : Mat ℝ) : Prop where
  len : R.length = n
  rowlen : ∀ row ∈ R, row.length = K
  nonneg : ∀ row ∈ R, ∀ r ∈ row, 0 ≤ r
  rowsum : ∀ row ∈ R, Sc.sum row = 1

/-- the loop invariant of `fit`: mixing weights on the simplex, `K` means of dimension `d`, and every covariance of the
    form `Σ_i ω_i d_i d_iᵀ / (Σ_i ω_i + eps)` (resp. its diagonal) with `ω ≥ 0` — hence symmetric positive semidefinite -/
structure Inv (eps : ℝ) (d K : ℕ) (p : MStep ℝ) : Prop where
  wlen : p.weights.length = K
  wnn : ∀ x ∈ p.weights, 0 ≤ x
  wsum : Sc.sum p.weights = 1
  mlen : p.means.length = K
  mrow : ∀ m ∈ p.means, m.length = d
  cflen : p.covFull.length = K
  cdlen : p.covDiag.length = K
  cov : ∀ k, k < K → ∃ (ω : List ℝ) (D : Mat ℝ), (∀ w ∈ ω, 0 ≤ w) ∧ (∀ r ∈ D, r.length = d) ∧
      p.covFull[k]? = some (covFull eps d ω D) ∧ p.covDiag[k]? = some (covDiag eps d ω D)

theorem exists_pos_of_sum_pos (l : List ℝ) (h0 : ∀ x ∈ l, 0 ≤ x) (h1 : 0 < l.sum) :
    ∃ (k : ℕ) (x : ℝ), l[k]? = some x ∧ 0 < x := by
  by_contra hcon
  simp only [not_exists, not_and, not_lt] at hcon
  have hz : ∀ x ∈ l, x = 0 := by
    intro x hx
    obtain ⟨k, hk⟩ := List.getElem?_of_mem hx
    exact le_antisymm (hcon k x hk) (h0 x hx)
  have : l.sum = 0 := List.sum_eq_zero hz
  linarith

theorem exists_pos_of_sum_one (l : List ℝ) (h0 : ∀ x ∈ l, 0 ≤ x) (h1 : Sc.sum l = 1) :
    ∃ (k : ℕ) (x : ℝ), l[k]? = some x ∧ 0 < x := by
  rw [sum_eq] at h1
  exact exists_pos_of_sum_pos l h0 (by linarith)

theorem mstep_total_pos (n K : ℕ) (R : Mat ℝ) (s : List ℝ) (hR : GoodR n K R) (hsl : s.length = n)
    (hs0 : ∀ x ∈ s, 0 ≤ x) (hspos : ∃ (i : ℕ) (si : ℝ), s[i]? = some si ∧ 0 < si) :
    0 < Sc.sum (colSums K (weightedResp R s)) := by
  obtain ⟨i0, si, hsi, hsipos⟩ := hspos
  have hi0 : i0 < n := by
    by_contra hcon
    rw [List.getElem?_eq_none (by omega)] at hsi; cases hsi
  obtain ⟨row, hrow⟩ : ∃ row, R[i0]? = some row := ⟨_, List.getElem?_eq_getElem (by rw [hR.len]; exact hi0)⟩
  have hrmem : row ∈ R := List.mem_of_getElem? hrow
  obtain ⟨k0, r, hr, hrpos⟩ := exists_pos_of_sum_one row (hR.nonneg row hrmem) (hR.rowsum row hrmem)
  have hk0 : k0 < K := by
    by_contra hcon
    rw [List.getElem?_eq_none (by rw [hR.rowlen row hrmem]; omega)] at hr; cases hr
  have hRk : ∀ row ∈ R, k0 < row.length := fun row h => by rw [hR.rowlen row h]; exact hk0
  -- the column sum of component k0 is positive
  have hcolpos : 0 < Sc.sum (col (weightedResp R s) k0) := by
    rw [wcol_eq k0 R s hRk, sum_eq]
    have hmem : r * si ∈ List.zipWith (fun r a => r * a) (col R k0) s := by
      have h1 : (col R k0)[i0]? = some r := by
        rw [(col_get k0 R hRk).2 i0 row hrow]; exact hr
      apply List.mem_of_getElem? (i := i0)
      simp [List.getElem?_zipWith, h1, hsi]
    have hnn : ∀ y ∈ List.zipWith (fun r a => r * a) (col R k0) s, 0 ≤ y := by
      intro y hy
      obtain ⟨j, hj, rfl⟩ := List.mem_iff_getElem.mp hy
      simp only [List.getElem_zipWith]
      apply mul_nonneg
      · obtain ⟨row', hrow', hin⟩ := col_mem R k0 _ (List.getElem_mem (l := col R k0) _)
        exact hR.nonneg row' hrow' _ hin
      · exact hs0 _ (List.getElem_mem _)
    exact lt_of_lt_of_le (mul_pos hrpos hsipos) (List.single_le_sum hnn _ hmem)
  rw [sum_eq]
  have hall : ∀ y ∈ colSums K (weightedResp R s), 0 ≤ y := by
    intro y hy
    simp only [colSums, List.mem_map] at hy
    obtain ⟨k, _, rfl⟩ := hy
    rw [sum_eq]
    exact List.sum_nonneg (wcol_nonneg R s k hR.nonneg hs0)
  have hmem : Sc.sum (col (weightedResp R s) k0) ∈ colSums K (weightedResp R s) := by
    simp only [colSums, List.mem_map, List.mem_range]
    exact ⟨k0, hk0, rfl⟩
  exact lt_of_lt_of_le hcolpos (List.single_le_sum hall _ hmem)

/-- **one M-step establishes the invariant** from any matrix of probability rows -/
theorem mstep_inv (tiny eps : ℝ) (d K n : ℕ) (X R : Mat ℝ) (s : List ℝ) (_heps : 0 < eps)
    (hX : ∀ x ∈ X, x.length = d) (hR : GoodR n K R) (hsl : s.length = n) (hs0 : ∀ x ∈ s, 0 ≤ x)
    (hspos : ∃ (i : ℕ) (si : ℝ), s[i]? = some si ∧ 0 < si) :
    Inv eps d K (mstep tiny eps d K X R s) := by
  have htot := mstep_total_pos n K R s hR hsl hs0 hspos
  obtain ⟨h1, h2, h3⟩ := C15_mstep_weights_simplex K R s hR.nonneg hs0 htot
  refine ⟨h3, h1, h2, by simp [mstep], ?_, by simp [mstep], by simp [mstep], ?_⟩
  · intro m hm
    simp only [mstep, List.mem_map] at hm
    obtain ⟨k, _, rfl⟩ := hm
    exact meanVec_length _ _ _ _
  · intro k hk
    refine ⟨col (weightedResp R s) k, diffRows X (meanVec tiny d (col (weightedResp R s) k) X),
      wcol_nonneg R s k hR.nonneg hs0, diffRows_shape d X _ hX (meanVec_length tiny d _ X), ?_, ?_⟩
    · simp [mstep, List.getElem?_map, List.getElem?_range hk]
    · simp [mstep, List.getElem?_map, List.getElem?_range hk]

theorem covMats_length (diagT : Bool) (eps : ℝ) (d K : ℕ) (p : MStep ℝ) (h : Inv eps d K p) :
    (covMats diagT p).length = K := by
  unfold covMats
  split
  · simp [h.cdlen]
  · exact h.cflen

/-- the fixed data of a fit, as the theorems need them -/
structure FitHyp (c : Cfg ℝ) (X : Mat ℝ) (s : List ℝ) : Prop where
  heps : 0 < c.eps
  hK : 1 ≤ c.K
  hX : ∀ x ∈ X, x.length = c.d
  hsl : s.length = X.length
  hs0 : ∀ x ∈ s, 0 ≤ x
  hspos : ∃ (i : ℕ) (si : ℝ), s[i]? = some si ∧ 0 < si

/-- what every parameter set met during a fit looks like: the invariant, and the last M-step it came from -/
def FromMStep (c : Cfg ℝ) (X : Mat ℝ) (s : List ℝ) (p : MStep ℝ) : Prop :=
  Inv c.eps c.d c.K p ∧ ∃ R, GoodR X.length c.K R ∧ p = mstep c.tiny c.eps c.d c.K X R s

theorem fromMStep_of_goodR (c : Cfg ℝ) (X : Mat ℝ) (s : List ℝ) (hf : FitHyp c X s) (R : Mat ℝ)
    (hR : GoodR X.length c.K R) : FromMStep c X s (mstep c.tiny c.eps c.d c.K X R s) :=
  ⟨mstep_inv c.tiny c.eps c.d c.K X.length X R s hf.heps hf.hX hR hf.hsl hf.hs0 hf.hspos, R, hR, rfl⟩

/-- **one EM iteration preserves the invariant** -/
theorem emIter_inv (c : Cfg ℝ) (X : Mat ℝ) (s : List ℝ) (hf : FitHyp c X s) (p p' : MStep ℝ) (new : ℝ)
    (hp : Inv c.eps c.d c.K p) (h : emIter c X s p = some (p', new)) : FromMStep c X s p' := by
  unfold emIter at h
  split at h
  · cases h
  · rename_i R hR
    simp only [Option.some.injEq, Prod.mk.injEq] at h
    obtain ⟨rfl, _⟩ := h
    obtain ⟨hlen, hrows⟩ := C15_estep_rows_simplex c.sing c.reg c.d c.K p.weights p.means (covMats c.diagT p) X
      hp.wlen hp.mlen (covMats_length _ _ _ _ _ hp) (exists_pos_of_sum_one _ hp.wnn hp.wsum) R hR
    exact fromMStep_of_goodR c X s hf R
      ⟨hlen, fun row h => (hrows row h).1, fun row h => (hrows row h).2.1, fun row h => (hrows row h).2.2⟩

/-- **the EM loop preserves the invariant**, and stops within `fuel` iterations -/
theorem emLoop_inv (c : Cfg ℝ) (X : Mat ℝ) (s : List ℝ) (hf : FitHyp c X s) :
    ∀ (fuel it : ℕ) (lb : Option ℝ) (p : MStep ℝ) (o : LoopOut ℝ), Inv c.eps c.d c.K p →
      emLoop c X s fuel it lb p = some o → FromMStep c X s o.params ∧ it ≤ o.iter ∧ o.iter < it + fuel := by
  intro fuel
  induction fuel with
  | zero => intro it lb p o _ h; simp [emLoop] at h
  | succ fuel ih =>
    intro it lb p o hp h
    simp only [emLoop] at h
    split at h
    · cases h
    · rename_i p' new hit
      have hp' := emIter_inv c X s hf p p' new hp hit
      split at h
      · simp only [Option.some.injEq] at h; subst h
        exact ⟨hp', le_refl _, by show it < it + (fuel + 1); omega⟩
      · split at h
        · simp only [Option.some.injEq] at h; subst h
          exact ⟨hp', le_refl _, by show it < it + (fuel + 1); omega⟩
        · obtain ⟨r1, r2, r3⟩ := ih (it + 1) (some new) p' o hp'.1 h
          exact ⟨r1, by omega, by omega⟩

theorem moreCentres_length (X : Mat ℝ) (s : List ℝ) (c0 : List ℝ) :
    ∀ (k : ℕ) (tape : List ℝ) (cs : Mat ℝ) (picks : List ℕ) (r : Mat ℝ × List ℕ × List ℝ),
      moreCentres X s c0 k tape cs picks = some r → r.1.length = cs.length + k := by
  intro k
  induction k with
  | zero => intro tape cs picks r h; simp [moreCentres] at h; subst h; simp
  | succ k ih =>
    intro tape cs picks r h
    cases tape with
    | nil => simp [moreCentres] at h
    | cons u tape =>
      simp only [moreCentres] at h
      split at h
      · cases h
      · split at h
        · cases h
        · have := ih _ _ _ _ h
          simp at this; omega

theorem centres_length (X : Mat ℝ) (s : List ℝ) (K : ℕ) (tape : List ℝ) (r : Mat ℝ × List ℕ × List ℝ)
    (h : centres X s K tape = some r) : r.1.length = K := by
  unfold centres at h
  split at h
  · cases h
  · cases h
  · rename_i K' u tape'
    split at h
    · cases h
    · split at h
      · cases h
      · simp only [Option.map_eq_some_iff] at h
        obtain ⟨r', hr', rfl⟩ := h
        have := moreCentres_length X s _ K' tape' [] _ r' hr'
        simp at this ⊢; omega

theorem shiftExp_length (row : List ℝ) : (shiftExp row).length = row.length := by
  cases row <;> simp [shiftExp]

/-- **the initialisation establishes the invariant**, whichever centres the tape selects -/
theorem initFit_inv (c : Cfg ℝ) (X : Mat ℝ) (s : List ℝ) (hf : FitHyp c X s) (tape : List ℝ)
    (r : MStep ℝ × List ℕ × List ℝ) (h : initFit c X s tape = some r) : FromMStep c X s r.1 := by
  unfold initFit at h
  simp only [Option.map_eq_some_iff] at h
  obtain ⟨cs, hcs, rfl⟩ := h
  have hK := centres_length X s c.K tape cs hcs
  have hrow : ∀ row ∈ logResp X cs.1, row ≠ [] := by
    intro row hrow
    simp only [logResp, List.mem_map] at hrow
    obtain ⟨x, _, rfl⟩ := hrow
    intro hnil
    have : cs.1.length = 0 := by simpa using congrArg List.length hnil
    have := hf.hK; omega
  have hsimp := C15_init_rows_simplex_full (logResp X cs.1) hrow
  have hgood : GoodR X.length c.K (initNormalise (logResp X cs.1)) := by
    refine ⟨by simp [initNormalise, logResp], ?_, fun row h => (hsimp row h).1, fun row h => (hsimp row h).2⟩
    intro row hrow
    simp only [initNormalise, logResp, List.mem_map] at hrow
    obtain ⟨l, ⟨x, _, rfl⟩, rfl⟩ := hrow
    simp [shiftExp_length, hK]
  exact fromMStep_of_goodR c X s hf _ hgood

/-- what is known of a recorded best restart -/
def GoodBest (c : Cfg ℝ) (X : Mat ℝ) (s : List ℝ) (b : Best ℝ) : Prop :=
  FromMStep c X s b.params ∧ 1 ≤ b.nIter ∧ b.nIter ≤ c.maxIter

theorem fitInits_inv (c : Cfg ℝ) (X : Mat ℝ) (s : List ℝ) (hf : FitHyp c X s) :
    ∀ (n : ℕ) (tape : List ℝ) (best : Option (Best ℝ)) (picks : List (List ℕ))
      (res : Option (Best ℝ) × List (List ℕ)),
      (∀ b, best = some b → GoodBest c X s b) → fitInits c X s n tape best picks = some res →
      ∀ b, res.1 = some b → GoodBest c X s b := by
  intro n
  induction n with
  | zero => intro tape best picks res hb h; simp [fitInits] at h; subst h; exact hb
  | succ n ih =>
    intro tape best picks res hb h
    simp only [fitInits] at h
    split at h
    · cases h
    · rename_i p0 pk tape' hinit
      have h0 := initFit_inv c X s hf tape (p0, pk, tape') hinit
      split at h
      · cases h
      · rename_i o hloop
        obtain ⟨ho, _, hiter⟩ := emLoop_inv c X s hf c.maxIter 0 none p0 o h0.1 hloop
        apply ih tape' _ _ res _ h
        intro b hbb
        split at hbb
        · split at hbb
          · simp only [Option.some.injEq] at hbb; subst hbb
            exact ⟨ho, by simp, by simp; omega⟩
          · exact hb b hbb
        · exact hb b hbb

theorem normWeights_hyp (w : List ℝ) (hw0 : ∀ x ∈ w, 0 ≤ x) (hpos : 0 < Sc.sum w) :
    (normWeights w).length = w.length ∧ (∀ x ∈ normWeights w, 0 ≤ x) ∧
      ∃ (i : ℕ) (si : ℝ), (normWeights w)[i]? = some si ∧ 0 < si := by
  rw [sum_eq] at hpos
  refine ⟨by simp [normWeights], ?_, ?_⟩
  · intro x hx
    simp only [normWeights, sum_eq, List.mem_map, ScReal.div_def] at hx
    obtain ⟨y, hy, rfl⟩ := hx
    exact div_nonneg (hw0 y hy) hpos.le
  · obtain ⟨i, x, hx, hxpos⟩ := exists_pos_of_sum_pos w hw0 hpos
    exact ⟨i, x / w.sum, by simp [normWeights, sum_eq, List.getElem?_map, hx], div_pos hxpos hpos⟩

/-- **the whole fit**: for every data set of `d`-dimensional points with non-negative sample weights of positive sum, every
    number of components `K ≥ 1`, both covariance structures, every `rand()` tape, every refusal oracle, every `n_init`,
    `max_iter` and tolerance: if `fit` returns, the fitted parameters satisfy the invariant, they are the M-step of a matrix of
    probability rows, and `1 ≤ n_iter_ ≤ max_iter` with `converged_ = (n_iter_ < max_iter)` -/
theorem C15_fit_invariants (c : Cfg ℝ) (X : Mat ℝ) (w : List ℝ) (tape : List ℝ) (heps : 0 < c.eps) (hK : 1 ≤ c.K)
    (hX : ∀ x ∈ X, x.length = c.d) (hwl : w.length = X.length) (hw0 : ∀ x ∈ w, 0 ≤ x) (hwpos : 0 < Sc.sum w)
    (o : FitOut ℝ) (h : fit c X w tape = some o) :
    FromMStep c X (normWeights w) o.params ∧ 1 ≤ o.nIter ∧ o.nIter ≤ c.maxIter ∧
      o.converged = decide (o.nIter < c.maxIter) := by
  obtain ⟨hl, hn, hp⟩ := normWeights_hyp w hw0 hwpos
  have hf : FitHyp c X (normWeights w) := ⟨heps, hK, hX, by rw [hl, hwl], hn, hp⟩
  unfold fit at h
  split at h
  · cases h
  · cases h
  · rename_i b picks hfi
    simp only [Option.some.injEq] at h; subst h
    obtain ⟨h1, h2, h3⟩ := fitInits_inv c X _ hf c.nInit tape none [] (some b, picks) (by intro b hb; cases hb) hfi b rfl
    exact ⟨h1, h2, h3, rfl⟩


/-! ### property-level corollaries -/

/-- **fitted mixing weights are non-negative and sum to one** -/
theorem C15_fit_weights_simplex (c : Cfg ℝ) (X : Mat ℝ) (w : List ℝ) (tape : List ℝ) (heps : 0 < c.eps) (hK : 1 ≤ c.K)
    (hX : ∀ x ∈ X, x.length = c.d) (hwl : w.length = X.length) (hw0 : ∀ x ∈ w, 0 ≤ x) (hwpos : 0 < Sc.sum w)
    (o : FitOut ℝ) (h : fit c X w tape = some o) :
    o.params.weights.length = c.K ∧ (∀ p ∈ o.params.weights, 0 ≤ p) ∧ Sc.sum o.params.weights = 1 := by
  obtain ⟨⟨hinv, _⟩, _⟩ := C15_fit_invariants c X w tape heps hK hX hwl hw0 hwpos o h
  exact ⟨hinv.wlen, hinv.wnn, hinv.wsum⟩

/-- **fitted covariances are symmetric positive semidefinite**: for every component `k < K` the 'full' covariance
    `covariances_[k]` is a `d × d` list matrix, symmetric, with `vᵀ C v ≥ 0` for every `v`; the 'diag' covariance has `d`
    non-negative entries -/
theorem C15_fit_cov_sym_psd (c : Cfg ℝ) (X : Mat ℝ) (w : List ℝ) (tape : List ℝ) (heps : 0 < c.eps) (hK : 1 ≤ c.K)
    (hX : ∀ x ∈ X, x.length = c.d) (hwl : w.length = X.length) (hw0 : ∀ x ∈ w, 0 ≤ x) (hwpos : 0 < Sc.sum w)
    (o : FitOut ℝ) (h : fit c X w tape = some o) (k : ℕ) (hk : k < c.K) :
    ∃ (M : Mat ℝ) (v : List ℝ), o.params.covFull[k]? = some M ∧ o.params.covDiag[k]? = some v ∧
      IsSq c.d M ∧ SymL M ∧ PSDL c.d M ∧ v.length = c.d ∧ ∀ x ∈ v, 0 ≤ x := by
  obtain ⟨⟨hinv, _⟩, _⟩ := C15_fit_invariants c X w tape heps hK hX hwl hw0 hwpos o h
  obtain ⟨ω, D, hω, hD, hf, hd⟩ := hinv.cov k hk
  obtain ⟨h1, h2, h3⟩ := covFull_psd c.eps c.d ω D heps hω hD
  refine ⟨_, _, hf, hd, h1, h2, h3, by simp [covDiag], ?_⟩
  intro x hx
  simp only [covDiag, List.mem_map] at hx
  obtain ⟨a, _, rfl⟩ := hx
  exact (C15_cov_sym_psd c.eps c.d ω D heps hω hD).2.2 a

theorem sum_range_getD : ∀ l : List ℝ, ((List.range l.length).map fun k => l.getD k 0).sum = l.sum := by
  intro l
  induction l with
  | nil => simp
  | cons x l ih =>
    rw [List.length_cons, List.range_succ_eq_map, List.map_cons, List.map_map, List.sum_cons]
    simp only [List.getD_cons_zero, List.sum_cons]
    congr 1

/-- with probability rows the weighted responsibilities add up to the total sample weight: `Σ_k S_k = Σ_i s_i` -/
theorem colSums_total (K : ℕ) : ∀ (R : Mat ℝ) (s : List ℝ), R.length = s.length → (∀ row ∈ R, row.length = K) →
    (∀ row ∈ R, Sc.sum row = 1) → Sc.sum (colSums K (weightedResp R s)) = Sc.sum s := by
  intro R
  induction R with
  | nil =>
    intro s hl _ _
    have : s = [] := List.length_eq_zero_iff.mp (by simpa using hl.symm)
    subst this
    simp [colSums, weightedResp, col, sum_eq]
  | cons r R ih =>
    intro s hl hK h1
    cases s with
    | nil => simp at hl
    | cons a s =>
      have hrK : r.length = K := hK r (by simp)
      have hr1 : r.sum = 1 := by have := h1 r (by simp); rwa [sum_eq] at this
      have ih' := ih s (by simpa using hl) (fun row h => hK row (List.mem_cons_of_mem _ h))
        (fun row h => h1 row (List.mem_cons_of_mem _ h))
      simp only [sum_eq] at ih' ⊢
      have hrow : ∀ k ∈ List.range K,
          Sc.sum (col (weightedResp (r :: R) (a :: s)) k)
            = (r.map fun x => x * a).getD k 0 + Sc.sum (col (weightedResp R s) k) := by
        intro k hk
        have hk' : k < (r.map fun x => x * a).length := by simpa [hrK] using hk
        have : weightedResp (r :: R) (a :: s) = (r.map fun x => x * a) :: weightedResp R s := by
          simp [weightedResp]
        rw [this, col_cons_getD _ _ k hk', sum_eq, sum_eq, List.sum_cons]
      have e1 : colSums K (weightedResp (r :: R) (a :: s))
          = (List.range K).map fun k => (r.map fun x => x * a).getD k 0 + Sc.sum (col (weightedResp R s) k) := by
        simp only [colSums]
        exact List.map_congr_left hrow
      rw [e1, List.sum_map_add]
      have e2 : ((List.range K).map fun k => (r.map fun x => x * a).getD k 0).sum = a := by
        have := sum_range_getD (r.map fun x => x * a)
        rw [List.length_map, hrK] at this
        rw [this, List.sum_map_mul_right]
        simp [hr1]
      have e3 : ((List.range K).map fun k => Sc.sum (col (weightedResp R s) k)) = colSums K (weightedResp R s) := rfl
      rw [e2, e3, ih', List.sum_cons]

theorem normWeights_sum (w : List ℝ) (hpos : 0 < Sc.sum w) : Sc.sum (normWeights w) = 1 := by
  rw [sum_eq] at hpos
  simp only [normWeights, sum_eq, ScReal.div_def]
  have : (w.map fun x => x / w.sum) = w.map (fun x => id x * (w.sum)⁻¹) := by simp [div_eq_mul_inv]
  rw [this, List.sum_map_mul_right, List.map_id]
  exact mul_inv_cancel₀ hpos.ne'

/-- **the mean of every component of non-negligible weight lies inside the data's bounding box**: "non-negligible" is
    `π_k ≥ tiny` (`np.finfo(float).tiny` ≈ 2.2e-308) for the fitted mixing weight `π_k` itself — with probability rows and
    normalised sample weights the guard `max(S_k, tiny)` of the M-step compares exactly `π_k = S_k` with `tiny` -/
theorem C15_fit_mean_in_bbox (c : Cfg ℝ) (X : Mat ℝ) (w : List ℝ) (tape : List ℝ) (heps : 0 < c.eps) (hK : 1 ≤ c.K)
    (htiny : 0 < c.tiny) (hX : ∀ x ∈ X, x.length = c.d) (hwl : w.length = X.length) (hw0 : ∀ x ∈ w, 0 ≤ x)
    (hwpos : 0 < Sc.sum w) (o : FitOut ℝ) (h : fit c X w tape = some o) (k j : ℕ) (hk : k < c.K) (hj : j < c.d)
    (lo hi : ℝ) (hbox : ∀ v ∈ col X j, lo ≤ v ∧ v ≤ hi) :
    ∃ π : ℝ, o.params.weights[k]? = some π ∧
      (c.tiny ≤ π → ∃ m : ℝ, (o.params.means[k]?.bind (·[j]?)) = some m ∧ lo ≤ m ∧ m ≤ hi) := by
  obtain ⟨⟨_, R, hR, hp⟩, _⟩ := C15_fit_invariants c X w tape heps hK hX hwl hw0 hwpos o h
  obtain ⟨hl, hn, _⟩ := normWeights_hyp w hw0 hwpos
  have hsl : (normWeights w).length = X.length := by rw [hl, hwl]
  have htot : Sc.sum (colSums c.K (weightedResp R (normWeights w))) = 1 := by
    rw [colSums_total c.K R _ (by rw [hR.len, hsl]) hR.rowlen hR.rowsum, normWeights_sum w hwpos]
  refine ⟨Sc.sum (col (weightedResp R (normWeights w)) k), ?_, ?_⟩
  · rw [hp]
    have htot' : Sc.sum (List.map (fun k => Sc.sum (col (weightedResp R (normWeights w)) k)) (List.range c.K)) = 1 := htot
    simp only [mstep, normalise, colSums, List.getElem?_map, List.getElem?_range hk, Option.map_some,
      ScReal.div_def, htot', div_one]
  · intro hS
    rw [hp, mstep_means_eq]
    exact C15_mean_in_bbox c.tiny lo hi c.d c.K X R (normWeights w) k j hk hj hX hR.len hsl hR.rowlen hR.nonneg hn
      htiny hS hbox


end Props.C15
