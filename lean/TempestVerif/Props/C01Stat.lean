import TempestVerif.Lemmas.MIS
import Mathlib.Algebra.BigOperators.Ring.Finset
import Mathlib.Data.Fintype.BigOperators
import Mathlib.Tactic
/-
  C01 — finite-N statistical facts about the persistent-sampling estimator on a finite state space.

  * exact finite-N unbiasedness of averages over i.i.d. draws (product law on `Fin n → Ω`), in particular of the
    warm-up pool (all `β_t = 0`, `logz_t = 0`);
  * exact unbiasedness FAILS at finite N once a recorded normaliser is an estimate (worked instance, exact rationals);
  * self-normalised resampling is not exactly target-distributed at finite N;
  * the cluster-label kernel: reversible when labels are never crossed, not invariant in general.
-/
namespace Props.C01
open Finset

/-! ### product-law helpers -/

section helpers
variable {ι Ω : Type} [Fintype ι] [DecidableEq ι] [Fintype Ω]

/-- Fubini on a finite product: the sum over all tuples of a product of coordinate factors is the product of sums -/
theorem stat_sum_pi_prod (F : ι → Ω → ℝ) : ∑ x : ι → Ω, ∏ i, F i (x i) = ∏ i, ∑ ω, F i ω := by
  rw [Finset.prod_univ_sum, Fintype.piFinset_univ]

/-- the product law has total mass one -/
theorem stat_prod_law_total (p : Ω → ℝ) (hp1 : ∑ ω, p ω = 1) : ∑ x : ι → Ω, ∏ i, p (x i) = 1 := by
  rw [stat_sum_pi_prod (fun _ ω => p ω)]
  simp [hp1]

/-- a function of ONE coordinate has, under the product law, its one-draw expectation -/
theorem stat_prod_law_coord (p : Ω → ℝ) (hp1 : ∑ ω, p ω = 1) (g : Ω → ℝ) (j : ι) :
    ∑ x : ι → Ω, (∏ i, p (x i)) * g (x j) = ∑ ω, p ω * g ω := by
  have h1 : ∀ x : ι → Ω, (∏ i, p (x i)) * g (x j) = ∏ i, (p (x i) * if i = j then g (x i) else 1) := by
    intro x
    rw [Finset.prod_mul_distrib, Finset.prod_ite_eq' Finset.univ j (fun i => g (x i))]
    simp
  simp_rw [h1]
  rw [stat_sum_pi_prod (fun i ω => p ω * if i = j then g ω else 1)]
  rw [Fintype.prod_eq_single j]
  · simp
  · intro i hij
    simp [hij, hp1]

end helpers

/-! ### (1a) finite-N unbiasedness of an i.i.d. average -/

/-- the average of `g` over `n` i.i.d. draws from `p` has expectation EXACTLY `E_p g`, for every finite `n > 0` -/
theorem C01_iid_mean_unbiased {Ω : Type} [Fintype Ω] (p : Ω → ℝ) (hp1 : ∑ x, p x = 1)
    (n : ℕ) (hn : 0 < n) (g : Ω → ℝ) :
    ∑ x : Fin n → Ω, (∏ i, p (x i)) * ((1 / (n : ℝ)) * ∑ i, g (x i)) = ∑ ω, p ω * g ω := by
  have hn0 : (n : ℝ) ≠ 0 := by exact_mod_cast hn.ne'
  have h1 : ∀ x : Fin n → Ω, (∏ i, p (x i)) * ((1 / (n : ℝ)) * ∑ i, g (x i))
      = (1 / (n : ℝ)) * ∑ j, (∏ i, p (x i)) * g (x j) := by
    intro x
    rw [Finset.mul_sum, Finset.mul_sum, Finset.mul_sum]
    refine Finset.sum_congr rfl fun j _ => ?_
    ring
  simp_rw [h1]
  rw [← Finset.mul_sum, Finset.sum_comm]
  simp_rw [stat_prod_law_coord p hp1 g]
  rw [Finset.sum_const, Finset.card_univ, Fintype.card_fin, nsmul_eq_mul]
  field_simp

/-- non-vacuity: three draws from `(1/3, 2/3)` on `Fin 2`, `g = (5, -1)` -/
example : ∑ x : Fin 3 → Fin 2, (∏ i, (![1/3, 2/3] : Fin 2 → ℝ) (x i)) *
      ((1 / ((3 : ℕ) : ℝ)) * ∑ i, (![5, -1] : Fin 2 → ℝ) (x i)) = 1 := by
  rw [C01_iid_mean_unbiased _ (by norm_num [Fin.sum_univ_two]) 3 (by norm_num)]
  norm_num [Fin.sum_univ_two]

/-! ### (1b) the warm-up pool: exact finite-N unbiasedness -/

/-- warm-up pool (`N = k·n` i.i.d. prior draws, every stored `β_t = 0`, `logz_t = 0`, so the unnormalised weight at
    target `β` is `L^β`): the weighted average is EXACTLY unbiased for `Σ γ_β f` at every finite `N > 0` -/
theorem C01_warmup_pool_unbiased {Ω : Type} [Fintype Ω] (p : Ω → ℝ) (hp1 : ∑ x, p x = 1) (L f : Ω → ℝ) (β : ℝ)
    (N : ℕ) (hN : 0 < N) :
    ∑ x : Fin N → Ω, (∏ i, p (x i)) * ((1 / (N : ℝ)) * ∑ i, f (x i) * L (x i) ^ β)
      = ∑ ω, Lemmas.MIS.gam p L β ω * f ω := by
  rw [C01_iid_mean_unbiased p hp1 N hN (fun ω => f ω * L ω ^ β)]
  refine Finset.sum_congr rfl fun ω _ => ?_
  simp only [Lemmas.MIS.gam]
  ring

/-- … in particular the mean warm-up weight is exactly unbiased for the evidence `Z_β` -/
theorem C01_warmup_evidence_unbiased {Ω : Type} [Fintype Ω] (p : Ω → ℝ) (hp1 : ∑ x, p x = 1) (L : Ω → ℝ) (β : ℝ)
    (N : ℕ) (hN : 0 < N) :
    ∑ x : Fin N → Ω, (∏ i, p (x i)) * ((1 / (N : ℝ)) * ∑ i, L (x i) ^ β) = Lemmas.MIS.Zf p L β := by
  have h := C01_warmup_pool_unbiased p hp1 L (fun _ => 1) β N hN
  simpa [Lemmas.MIS.Zf] using h

/-! ### (1c) an ESTIMATED normaliser destroys exact unbiasedness (worked instance, exact arithmetic) -/

/-- prior on `Fin 2` -/
noncomputable def pSt : Fin 2 → ℝ := ![1/3, 2/3]
/-- likelihood on `Fin 2`; `Z = Σ p L = 5/3` -/
noncomputable def LSt : Fin 2 → ℝ := ![1, 2]
/-- the posterior `π₁ = p·L/Z = (1/5, 4/5)` -/
noncomputable def pi1St : Fin 2 → ℝ := ![1/5, 4/5]
/-- the recorded normaliser of batch 1 when it is the mean weight of batch 0 at `β = 1` -/
noncomputable def z1St (x0 : Fin 2 → Fin 2) : ℝ := (1 / 2) * ∑ i, LSt (x0 i)
/-- mixture-importance weight at target `β = 1`, two batches of equal size, `β₀ = 0` (normaliser 1), `β₁ = 1`
    (recorded normaliser `z`) -/
noncomputable def WSt (z : ℝ) (ω : Fin 2) : ℝ := LSt ω / ((1 / 2) * 1 + (1 / 2) * (LSt ω / z))
/-- evidence estimate: mean weight over the pool of `2 + 2` particles -/
noncomputable def ZhatSt (z : ℝ) (x0 x1 : Fin 2 → Fin 2) : ℝ :=
  (1 / 4) * (∑ i, WSt z (x0 i) + ∑ i, WSt z (x1 i))

theorem pSt_sum : ∑ x, pSt x = 1 := by norm_num [pSt, Fin.sum_univ_two]

/-- the instance is the tempered family of `Lemmas.MIS`: `Z₁ = 5/3` … -/
theorem Zf_St : Lemmas.MIS.Zf pSt LSt 1 = 5 / 3 := by
  norm_num [Lemmas.MIS.Zf, Lemmas.MIS.gam, pSt, LSt, Fin.sum_univ_two]

/-- non-vacuity of the warm-up statements: `k = 2` batches of `n = 2` prior draws (`N = 4`), target `β = 2`,
    `f = (3, -1)`: the expectation of the weighted pool average is `Σ p L² f = 1/3·1·3 + 2/3·4·(-1) = -5/3` -/
example : ∑ x : Fin (2 * 2) → Fin 2, (∏ i, pSt (x i)) *
      ((1 / ((2 * 2 : ℕ) : ℝ)) * ∑ i, (![3, -1] : Fin 2 → ℝ) (x i) * LSt (x i) ^ (2 : ℝ)) = -5 / 3 := by
  rw [C01_warmup_pool_unbiased pSt pSt_sum LSt _ 2 (2 * 2) (by norm_num)]
  norm_num [Lemmas.MIS.gam, pSt, LSt, Fin.sum_univ_two]

example : ∑ x : Fin (2 * 2) → Fin 2, (∏ i, pSt (x i)) * ((1 / ((2 * 2 : ℕ) : ℝ)) * ∑ i, LSt (x i) ^ (1 : ℝ))
    = 5 / 3 := by
  rw [C01_warmup_evidence_unbiased pSt pSt_sum LSt 1 (2 * 2) (by norm_num), Zf_St]

/-- … and `π₁ = (1/5, 4/5)` -/
theorem pi1St_eq : pi1St = Lemmas.MIS.piB pSt LSt 1 := by
  funext x
  rw [Lemmas.MIS.piB, Zf_St]
  fin_cases x <;> norm_num [Lemmas.MIS.gam, pSt, LSt, pi1St]

/-- `WSt z` is the model's mean-field weight `mfW` for the two-batch history with recorded normalisers `1` and `z` -/
theorem WSt_is_model_weight (z : ℝ) (ω : Fin 2) :
    WSt z ω = Lemmas.MIS.mfW LSt [⟨2, 0, pSt, 1⟩, ⟨2, 1, pi1St, z⟩] 1 ω := by
  simp only [WSt, Lemmas.MIS.mfW, Lemmas.MIS.mfDen, Lemmas.MIS.poolN, List.map_cons, List.map_nil, List.sum_cons,
    List.sum_nil, Real.rpow_zero, Real.rpow_one]
  norm_num

/-- a sum over pairs `Fin 2 → Fin 2`, written out -/
theorem sum_fin2_fun (F : (Fin 2 → Fin 2) → ℝ) :
    ∑ x, F x = F ![0, 0] + F ![0, 1] + F ![1, 0] + F ![1, 1] := by
  rw [← (finTwoArrowEquiv (Fin 2)).symm.sum_comp, Fintype.sum_prod_type, Fin.sum_univ_two, Fin.sum_univ_two,
    Fin.sum_univ_two]
  simp only [finTwoArrowEquiv_symm_apply]
  ring

/-- expectation over batch 1 (i.i.d. from `π₁`) of the evidence estimate, for a given batch 0 and recorded normaliser -/
theorem ZhatSt_inner (z : ℝ) (x0 : Fin 2 → Fin 2) :
    ∑ x1 : Fin 2 → Fin 2, (∏ i, pi1St (x1 i)) * ZhatSt z x0 x1
      = (1 / 4) * (∑ i, WSt z (x0 i)) + (1 / 2) * ((1 / 5) * WSt z 0 + (4 / 5) * WSt z 1) := by
  rw [sum_fin2_fun]
  simp only [ZhatSt, Fin.sum_univ_two, Fin.prod_univ_two, Matrix.cons_val_zero, Matrix.cons_val_one, pi1St]
  ring

/-- FAILURE of exact finite-N unbiasedness with an estimated normaliser: fixed schedule `β = 0, 1`, a perfectly
    mixing kernel (batch 1 i.i.d. from `π₁`), but the recorded normaliser of batch 1 is the estimate `z1St x0`;
    the expected evidence estimate is `7877/4725`, not `Z = 5/3 = 7875/4725` -/
theorem C01_estimated_normaliser_biased :
    ∑ x0 : Fin 2 → Fin 2, ∑ x1 : Fin 2 → Fin 2,
      (∏ i, pSt (x0 i)) * (∏ i, pi1St (x1 i)) * ZhatSt (z1St x0) x0 x1 = 7877 / 4725 := by
  have h : ∀ x0 : Fin 2 → Fin 2, ∑ x1 : Fin 2 → Fin 2,
      (∏ i, pSt (x0 i)) * (∏ i, pi1St (x1 i)) * ZhatSt (z1St x0) x0 x1
      = (∏ i, pSt (x0 i)) * ((1 / 4) * (∑ i, WSt (z1St x0) (x0 i))
          + (1 / 2) * ((1 / 5) * WSt (z1St x0) 0 + (4 / 5) * WSt (z1St x0) 1)) := by
    intro x0
    rw [← ZhatSt_inner, Finset.mul_sum]
    refine Finset.sum_congr rfl fun x1 _ => ?_
    ring
  simp_rw [h]
  rw [sum_fin2_fun]
  simp only [z1St, WSt, Fin.sum_univ_two, Fin.prod_univ_two, Matrix.cons_val_zero, Matrix.cons_val_one, pSt, LSt]
  norm_num

/-- … hence the estimator is biased (here: high by `2/4725`) -/
theorem C01_estimated_normaliser_biased_ne :
    ∑ x0 : Fin 2 → Fin 2, ∑ x1 : Fin 2 → Fin 2,
      (∏ i, pSt (x0 i)) * (∏ i, pi1St (x1 i)) * ZhatSt (z1St x0) x0 x1 ≠ Lemmas.MIS.Zf pSt LSt 1 := by
  rw [C01_estimated_normaliser_biased, Zf_St]
  norm_num

/-- companion: with the EXACT normaliser `Z₁ = 5/3` recorded for batch 1 the same expectation is exactly `Z₁ = 5/3`
    (an instance of the general identity `C01_mis_unbiased`), so the bias above is caused by the estimated normaliser
    alone -/
theorem C01_exact_normaliser_unbiased_instance :
    ∑ x0 : Fin 2 → Fin 2, ∑ x1 : Fin 2 → Fin 2,
      (∏ i, pSt (x0 i)) * (∏ i, pi1St (x1 i)) * ZhatSt (5 / 3) x0 x1 = 5 / 3 := by
  have h : ∀ x0 : Fin 2 → Fin 2, ∑ x1 : Fin 2 → Fin 2,
      (∏ i, pSt (x0 i)) * (∏ i, pi1St (x1 i)) * ZhatSt (5 / 3) x0 x1
      = (∏ i, pSt (x0 i)) * ((1 / 4) * (∑ i, WSt (5 / 3) (x0 i))
          + (1 / 2) * ((1 / 5) * WSt (5 / 3) 0 + (4 / 5) * WSt (5 / 3) 1)) := by
    intro x0
    rw [← ZhatSt_inner, Finset.mul_sum]
    refine Finset.sum_congr rfl fun x1 _ => ?_
    ring
  simp_rw [h]
  rw [sum_fin2_fun]
  simp only [WSt, Fin.sum_univ_two, Fin.prod_univ_two, Matrix.cons_val_zero, Matrix.cons_val_one, pSt, LSt]
  norm_num

/-! ### (1d) self-normalised resampling is not exactly target-distributed at finite N -/

/-- with `n = 1` the self-normalised weight of the single prior draw is 1, so the resampled particle IS the prior
    draw: it sits at state `1` with probability `p 1 = 2/3`, whereas the target has `π₁ 1 = 4/5` -/
theorem C01_resampled_law_not_target :
    ∑ x0 : Fin 1 → Fin 2, (∏ i, pSt (x0 i)) * (if x0 0 = 1 then (1 : ℝ) else 0) = 2 / 3
      ∧ Lemmas.MIS.piB pSt LSt 1 1 = 4 / 5 := by
  constructor
  · have h := stat_prod_law_coord (ι := Fin 1) pSt pSt_sum (fun ω => if ω = 1 then (1 : ℝ) else 0) 0
    rw [h]
    norm_num [Fin.sum_univ_two, pSt]
  · rw [← pi1St_eq]
    norm_num [pi1St]

/-- … so the two laws differ -/
theorem C01_resampled_law_not_target_ne :
    ∑ x0 : Fin 1 → Fin 2, (∏ i, pSt (x0 i)) * (if x0 0 = 1 then (1 : ℝ) else 0) ≠ Lemmas.MIS.piB pSt LSt 1 1 := by
  rw [C01_resampled_law_not_target.1, C01_resampled_law_not_target.2]
  norm_num

/-! ### (1e) the cluster-label kernel -/

/-- each walker uses the kernel of the cluster LABEL of its starting point.  If every per-label kernel is π-reversible
    and never leaves its own label, the composite kernel `x ↦ K (ℓ x) x ·` is π-reversible -/
theorem C01_label_kernel_reversible_of_no_crossing {Ω C : Type} (π : Ω → ℝ) (ℓ : Ω → C) (K : C → Ω → Ω → ℝ)
    (hrev : ∀ c x y, π x * K c x y = π y * K c y x)
    (hnc : ∀ c x y, ℓ x = c → ℓ y ≠ c → K c x y = 0) (x y : Ω) :
    π x * K (ℓ x) x y = π y * K (ℓ y) y x := by
  by_cases h : ℓ y = ℓ x
  · rw [h]; exact hrev _ x y
  · rw [hnc (ℓ x) x y rfl h, hnc (ℓ y) y x rfl (Ne.symm h)]
    simp

/-- … and therefore, with stochastic rows, leaves π invariant -/
theorem C01_label_kernel_invariant_of_no_crossing {Ω C : Type} [Fintype Ω] (π : Ω → ℝ) (ℓ : Ω → C)
    (K : C → Ω → Ω → ℝ) (hrev : ∀ c x y, π x * K c x y = π y * K c y x)
    (hnc : ∀ c x y, ℓ x = c → ℓ y ≠ c → K c x y = 0) (hrow : ∀ x, ∑ y, K (ℓ x) x y = 1) :
    Lemmas.MIS.Invariant π (fun x y => K (ℓ x) x y) := by
  intro y
  simp_rw [C01_label_kernel_reversible_of_no_crossing π ℓ K hrev hnc _ y]
  rw [← Finset.mul_sum, hrow, mul_one]

/-! non-vacuity: three states, labels `(0,0,1)`, `π = (1/8, 3/8, 1/2)`; the kernel of label 0 redraws inside `{0,1}` from
    the conditional law `(1/4, 3/4)` and holds state 2; the kernel of label 1 holds everything -/

noncomputable def piLab : Fin 3 → ℝ := ![1/8, 3/8, 1/2]
def lLab : Fin 3 → Fin 2 := ![0, 0, 1]
noncomputable def KLab : Fin 2 → Fin 3 → Fin 3 → ℝ :=
  ![![![1/4, 3/4, 0], ![1/4, 3/4, 0], ![0, 0, 1]], ![![1, 0, 0], ![0, 1, 0], ![0, 0, 1]]]

theorem KLab_rev : ∀ c x y, piLab x * KLab c x y = piLab y * KLab c y x := by
  intro c x y
  fin_cases c <;> fin_cases x <;> fin_cases y <;> norm_num [piLab, KLab]

theorem KLab_no_crossing : ∀ c x y, lLab x = c → lLab y ≠ c → KLab c x y = 0 := by
  intro c x y
  fin_cases c <;> fin_cases x <;> fin_cases y <;> simp [lLab, KLab]

theorem KLab_rows : ∀ x, ∑ y, KLab (lLab x) x y = 1 := by
  intro x
  fin_cases x <;> simp [lLab, KLab, Fin.sum_univ_succ] <;> norm_num

example : Lemmas.MIS.Invariant piLab (fun x y => KLab (lLab x) x y) :=
  C01_label_kernel_invariant_of_no_crossing piLab lLab KLab KLab_rev KLab_no_crossing KLab_rows

/-- the label-0 kernel really moves mass: the instance is not the identity -/
example : KLab (lLab 0) 0 1 = 3 / 4 := by norm_num [lLab, KLab]

/-! WITHOUT the no-crossing hypothesis invariance can fail: two states, uniform π, label = state, label 0 uses the
    identity kernel, label 1 the swap kernel -/

noncomputable def piX : Fin 2 → ℝ := ![1/2, 1/2]
noncomputable def KX : Fin 2 → Fin 2 → Fin 2 → ℝ := fun c x y =>
  if c = 0 then (if x = y then 1 else 0) else (if x = y then 0 else 1)

/-- both per-label kernels are π-reversible … -/
theorem KX_rev : ∀ c x y, piX x * KX c x y = piX y * KX c y x := by
  intro c x y
  fin_cases c <;> fin_cases x <;> fin_cases y <;> norm_num [piX, KX]

/-- … with stochastic rows … -/
theorem KX_rows : ∀ c x, ∑ y, KX c x y = 1 := by
  intro c x
  fin_cases c <;> fin_cases x <;> norm_num [KX, Fin.sum_univ_two]

/-- … yet all the mass flows to state 0 under the label-indexed composite -/
theorem KX_flow : ∑ x, piX x * KX (id x) x 0 = 1 := by
  norm_num [piX, KX, Fin.sum_univ_two]

/-- the label-indexed composite of π-reversible kernels need NOT leave π invariant when a kernel can move a walker
    out of its label (the caveat of clustering: labels are frozen during the mutation) -/
theorem C01_label_kernel_not_invariant :
    (∀ c x y, piX x * KX c x y = piX y * KX c y x) ∧ (∀ c x, ∑ y, KX c x y = 1) ∧
    ∑ x, piX x * KX (id x) x 0 = 1 ∧ piX 0 = 1 / 2 ∧
    ¬ Lemmas.MIS.Invariant piX (fun x y => KX (id x) x y) := by
  refine ⟨KX_rev, KX_rows, KX_flow, by norm_num [piX], ?_⟩
  intro h
  have h0 := h 0
  rw [KX_flow] at h0
  norm_num [piX] at h0

/-! ### (1f) trimming: the trimmed self-normalised estimator targets the posterior RESTRICTED to the kept region -/

section restricted
variable {Ω T : Type} [Fintype Ω] [Fintype T]

/-- **what a trimmed, renormalised estimator estimates.**  `a` is the indicator (any non-negative function) of the region of
    state space whose particles are kept — for `trim_weights` the region `{x : w(x) ≥ θ}`, a deterministic set once θ and the
    recorded normalisers are fixed, because the weight is a function of the particle's likelihood.  Under the nominal batch laws
    the numerator and the denominator of the trimmed self-normalised estimator are exactly unbiased for `Σ γ_β·f·a` and
    `Σ γ_β·a`, so the estimator targets `E_π[f·a] / E_π[a] = E_π[f | kept region]` — NOT `E_π[f]`.  The difference is a property
    of the region, not of the particle count: it does not shrink as N grows. -/
theorem C01_trimmed_estimator_targets_restriction (p L : Ω → ℝ) (n bt : T → ℝ) (β : ℝ) (f a : Ω → ℝ)
    (hp : ∀ x, 0 ≤ p x) (hp1 : ∃ x, 0 < p x) (hL : ∀ x, 0 < L x) (hn : ∀ t, 0 ≤ n t) (hN : 0 < ∑ s, n s) :
    (∑ t, (n t / ∑ s, n s) * ∑ x, Lemmas.MIS.piB p L (bt t) x * ((f x * a x) * Lemmas.MIS.misW p L n bt β x)) /
      (∑ t, (n t / ∑ s, n s) * ∑ x, Lemmas.MIS.piB p L (bt t) x * (a x * Lemmas.MIS.misW p L n bt β x))
      = (∑ x, Lemmas.MIS.piB p L β x * (f x * a x)) / (∑ x, Lemmas.MIS.piB p L β x * a x) := by
  have hden : ∀ x, p x ≠ 0 → Lemmas.MIS.den p L n bt x ≠ 0 := fun x _ =>
    (Lemmas.MIS.den_pos p L n bt hn hN hL (fun t => Lemmas.MIS.Zf_pos p L hp hp1 hL (bt t)) x).ne'
  rw [Lemmas.MIS.mis_core p L n bt β (fun x => f x * a x) hden, Lemmas.MIS.mis_core p L n bt β a hden]
  have hZ : Lemmas.MIS.Zf p L β ≠ 0 := (Lemmas.MIS.Zf_pos p L hp hp1 hL β).ne'
  have h1 : ∀ g : Ω → ℝ, ∑ x, Lemmas.MIS.piB p L β x * g x = (∑ x, Lemmas.MIS.gam p L β x * g x) / Lemmas.MIS.Zf p L β := by
    intro g
    rw [Finset.sum_div]
    refine Finset.sum_congr rfl fun x _ => ?_
    rw [Lemmas.MIS.piB]; ring
  rw [h1, h1]
  by_cases h0 : ∑ x, Lemmas.MIS.gam p L β x * a x = 0
  · simp [h0]
  · field_simp

/-- non-vacuity, and the bias: on the two-point space of (1c) (`π₁ = (1/5, 4/5)`), keeping only the high-weight point
    (`a = 𝟙{1}`) and the test function `f = (10, 0)`: the trimmed estimator targets `E[f | kept] = 0`, the posterior
    expectation is `E_π f = 2` -/
example : (∑ x, Lemmas.MIS.piB pSt LSt 1 x * ((![10, 0] : Fin 2 → ℝ) x * (![0, 1] : Fin 2 → ℝ) x)) /
      (∑ x, Lemmas.MIS.piB pSt LSt 1 x * (![0, 1] : Fin 2 → ℝ) x) = 0 ∧
    ∑ x, Lemmas.MIS.piB pSt LSt 1 x * (![10, 0] : Fin 2 → ℝ) x = 2 := by
  rw [← pi1St_eq]
  constructor <;> norm_num [pi1St, Fin.sum_univ_two]

example (n bt : Fin 2 → ℝ) (hn : ∀ t, 0 ≤ n t) (hN : 0 < ∑ s, n s) (f a : Fin 2 → ℝ) :=
  C01_trimmed_estimator_targets_restriction pSt LSt n bt 1 f a
    (by intro x; fin_cases x <;> norm_num [pSt]) ⟨0, by norm_num [pSt]⟩ (by intro x; fin_cases x <;> norm_num [LSt]) hn hN

end restricted

end Props.C01
