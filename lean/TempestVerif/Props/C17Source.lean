import TempestVerif.Gen.StateMgrSrc
/-
  C17 — the StateManager reference models are built from the statements that are in /repo's source NOW.

  `Gen/StateMgrSrc.lean` is regenerated on every run of the check by translator G22 (translate/g22_statemgr.py): the body of
  `_ensure_copy`, `get_current`, `set_current`, `update_current`, `get_history`, `get_last_history`,
  `commit_current_to_history`, `compute_results`, `to_dict`, `update_from_dict` is evaluated symbolically and compiled to a term
  over the Python primitives of `Model/StateMgrPy.lean` (copy / deep copy / alias, dictionary and list reads, stores, appends,
  comprehensions, loops, raises).  WHICH value is copied, for WHOM (the caller or the manager), and which is stored or handed
  out as it is, is therefore read from the source.

  The theorems say that `Model.StateMgr.step` (flat model: what the driver executes in suites ops / sampler / posterior /
  resume) and `Model.StateMgrN.step true` (nested model, suite statemanager-nested) compute exactly those terms, for every
  state and every argument.  They are equalities of functions proved by case analysis, not comparisons of text: guard clauses
  instead of if/else, an extracted helper, a renamed local regenerate terms for which the same proofs go through; a dropped
  `_ensure_copy`, a copy made for the wrong receiver, a changed key set / comparison / index / error class, a dropped or
  reordered statement make a theorem false and the build fail.
-/
set_option linter.unusedSimpArgs false
set_option linter.unusedVariables false

namespace Props.C17.Src
open Model.StateMgrPy
open Model.StateMgrN (Owner)

/-! ## flat model -/
section F
open Model.StateMgr Model.StateMgrPy.F Gen.StateMgrSrc.F

/-- `_ensure_copy`: None → None, ndarray → a new array (`.copy()`, `copy.deepcopy` for object dtype), list / tuple / dict →
    `copy.deepcopy`, anything else → the object itself: on the three kinds of value of the flat model this is `copyVal` -/
theorem C17_srcF_ensure_copy (o : Owner) (h : Heap) (v : Val) : copyVal h v = ensureCopy o h v := by
  cases v <;> rfl

theorem F_ensureCopy_eq (o : Owner) : ensureCopy o = copyVal := by
  funext h v; exact (C17_srcF_ensure_copy o h v).symm

theorem F_mapList_copy (h : Heap) (l : List Val) : mapList copyVal h l = copyList h l := by
  induction l generalizing h with
  | nil => rfl
  | cons v vs ih => simp only [mapList, copyList, ih]

theorem F_mapAssoc_copy (h : Heap) (d : List (Key × Val)) : mapAssoc copyVal h d = copyDict h d := by
  induction d generalizing h with
  | nil => rfl
  | cons kv r ih => obtain ⟨k, v⟩ := kv; simp only [mapAssoc, copyDict, ih]

theorem F_mapAssoc_copyList (h : Heap) (d : List (Key × List Val)) : mapAssoc (mapList copyVal) h d = copyHist h d := by
  induction d generalizing h with
  | nil => rfl
  | cons kv r ih => obtain ⟨k, v⟩ := kv; simp only [mapAssoc, copyHist, ih, F_mapList_copy]

theorem F_isNoneO_eq : isNoneO = Model.StateMgr.isNone := by
  funext o; cases o with
  | none => rfl
  | some v => cases v <;> rfl

/-- `get_current(key)` / `get_current()`: validation, the read, a copy made FOR THE CALLER of every value handed out -/
theorem C17_srcF_get_current (s : State) (k : Option Key) :
    step s (.getCurrent k) = finish (getCurrent .usr s k) := by
  cases k with
  | none => simp [step, getCurrent, finish, retDict, escape, setHeap, heapOf, curOf, F_ensureCopy_eq, F_mapAssoc_copy]
  | some k =>
    by_cases hk : k ∈ currentKeys
    · cases hl : lookup k s.current <;>
        simp [step, getCurrent, inKeys, keySet, hk, hl, curOf, withItem, finish, retVal, escape, setHeap, heapOf, F_ensureCopy_eq, keyErr]
    · simp [step, getCurrent, inKeys, keySet, hk, raise, finish]

/-- `set_current(key, value, copy)` on the value the caller passes: validation; `copy=True` stores a copy made FOR THE MANAGER,
    `copy=False` stores the caller's own object (ghost: recorded as imported); the cache is dropped -/
theorem C17_srcF_set_current (s : State) (k : Key) (x : Arg) (copy : Bool) :
    step s (.setCurrent k x copy) =
      if !x.legal s.escaped then (s, .err .illegal) else
      finish (setCurrent .usr { s with heap := (resolveArg s.heap s.escaped x).1, escaped := (resolveArg s.heap s.escaped x).2.1 }
        k (resolveArg s.heap s.escaped x).2.2 copy) := by
  by_cases hl : x.legal s.escaped <;> by_cases hk : k ∈ currentKeys <;> cases copy <;>
    simp [step, setCurrent, inKeys, keySet, hk, hl, raise, finish, storeCurrent, storeCur, storeCurAlias, setCache, setHeap, heapOf,
      F_ensureCopy_eq]

/-- the body of `update_current`'s loop, as generated -/
def F_updBody (copy : Bool) : State → Key × Val → State × Option Res := fun s1 x2 =>
  (if (inKeys "CURRENT_STATE_KEYS" x2.1) then
    (if copy then let c4 := ensureCopy Owner.lib (heapOf s1) x2.2; let s5 := setHeap s1 c4.1; let s6 := storeCur s5 x2.1 c4.2; (s6, none)
     else let s7 := storeCurAlias s1 x2.1 x2.2; (s7, none))
   else raise s1 Err.valueError)

theorem F_updBody_in (copy : Bool) (s : State) (k : Key) (v : Val) (hk : k ∈ currentKeys) :
    F_updBody copy s (k, v) = (storeCurrent s k v copy, none) := by
  cases copy <;> simp [F_updBody, inKeys, keySet, hk, storeCurrent, storeCur, storeCurAlias, setHeap, heapOf, F_ensureCopy_eq]

theorem F_updBody_out (copy : Bool) (s : State) (k : Key) (v : Val) (hk : ¬ k ∈ currentKeys) :
    F_updBody copy s (k, v) = (s, some (.err .valueError)) := by
  simp [F_updBody, inKeys, keySet, hk, raise]

theorem F_updLoop_eq (copy : Bool) (kvs : List (Key × Val)) (s : State) :
    forEach kvs s (F_updBody copy)
    = ((updLoop copy kvs s).1, if (updLoop copy kvs s).2 then none else some (.err .valueError)) := by
  induction kvs generalizing s with
  | nil => rfl
  | cons kv r ih =>
    obtain ⟨k, v⟩ := kv
    by_cases hk : k ∈ currentKeys
    · rw [forEach, F_updBody_in copy s k v hk]; simp only []; rw [ih]; simp [updLoop, hk]
    · rw [forEach, F_updBody_out copy s k v hk]; simp [updLoop, hk]

/-- `update_current(data_dict, copy)`: the same store for every item in order, stopping at the first invalid key (earlier
    items stay stored, the cache is then NOT dropped) -/
theorem C17_srcF_update_current (s : State) (kvs : List (Key × Arg)) (copy : Bool) :
    step s (.updateCurrent kvs copy) =
      if !dictLegal s.escaped kvs then (s, .err .illegal) else
      finish (updateCurrent .usr { s with heap := (resolveDict s.heap s.escaped kvs).1, escaped := (resolveDict s.heap s.escaped kvs).2.1 }
        (resolveDict s.heap s.escaped kvs).2.2 copy) := by
  have h : ∀ s0 d, updateCurrent .usr s0 d copy = seq (forEach d s0 (F_updBody copy)) fun s3 => (setCache s3 none, none) := fun _ _ => rfl
  by_cases hl : dictLegal s.escaped kvs
  · simp only [step, hl, h, F_updLoop_eq, Bool.not_true, Bool.false_eq_true, if_false]
    cases hu : (updLoop copy (resolveDict s.heap s.escaped kvs).2.2
        { s with heap := (resolveDict s.heap s.escaped kvs).1, escaped := (resolveDict s.heap s.escaped kvs).2.1 }).2 <;>
      simp [hu, seq, finish, setCache]
  · simp [step, hl]

theorem F_pyGet_nonneg {α : Type} (l : List α) (i : Int) (h : ¬ i < 0) : pyGet? l i = l[i.toNat]? := by
  simp [pyGet?, h]

theorem F_pyGet_last {α : Type} (l : List α) : pyGet? l (-1) = l.getLast? := by
  cases l with
  | nil => rfl
  | cons a r => simp [pyGet?, List.getLast?_eq_getElem?]

/-- `get_history(key, index, flat)`: validation; no index → a NEW array stacked from the entries (`np.concatenate` raises for
    an empty / scalar history), deep-copied when it has object dtype; an index → range test (`>= len`, `< 0`: IndexError), then a
    copy of that entry FOR THE CALLER -/
theorem C17_srcF_get_history (s : State) (k : Key) (index : Option Int) (flat : Bool) :
    step s (.getHistory k index flat) = finish (getHistory .usr s k index flat) := by
  by_cases hk : k ∈ historyKeys
  · cases hl : lookup k s.history with
    | none => cases index <;> cases flat <;> simp [step, getHistory, inKeys, keySet, hk, hl, histOf, withItem, finish, keyErr]
    | some l =>
      cases index with
      | none =>
        cases flat
        · simp [step, getHistory, inKeys, keySet, hk, hl, histOf, withItem, finish, npArray, retVal, escape, Val.addrs]
        · by_cases hc : (l.isEmpty || !l.all Val.isRef) = true
          · simp [step, getHistory, inKeys, keySet, hk, hl, histOf, withItem, finish, npConcat, hc, raise]
          · simp [step, getHistory, inKeys, keySet, hk, hl, histOf, withItem, finish, npConcat, hc, npArray, retVal, escape, Val.addrs]
      | some i =>
        by_cases hneg : i < 0
        · simp [step, getHistory, inKeys, keySet, hk, hl, histOf, withItem, finish, hneg, raise]
        · by_cases hge : i ≥ (l.length : Int)
          · have : l[i.toNat]? = none := by
              apply List.getElem?_eq_none; omega
            simp [step, getHistory, inKeys, keySet, hk, hl, histOf, withItem, finish, hneg, hge, raise, this]
          · have hlt : i.toNat < l.length := by omega
            simp [step, getHistory, inKeys, keySet, hk, hl, histOf, withItem, finish, hneg, hge, raise, F_pyGet_nonneg, hlt,
              retVal, escape, setHeap, heapOf, F_ensureCopy_eq]
  · cases index <;> cases flat <;> simp [step, getHistory, inKeys, keySet, hk, raise, finish]

/-- `get_last_history(key, default)`: validation; empty history → the caller's `default` itself; else a copy of the last entry -/
theorem C17_srcF_get_last_history (s : State) (k : Key) :
    step s (.getLastHistory k) = finish (getLastHistory .usr s k Val.none) := by
  by_cases hk : k ∈ historyKeys
  · cases hl : lookup k s.history with
    | none => simp [step, getLastHistory, inKeys, keySet, hk, hl, histOf, withItem, finish, keyErr]
    | some l =>
      cases l with
      | nil => simp [step, getLastHistory, inKeys, keySet, hk, hl, histOf, withItem, finish, retParam]
      | cons a r =>
        have h1 : pyGet? (a :: r) (-1) = (a :: r).getLast? := F_pyGet_last _
        have hne : ¬ ((r.length : Int) + 1 = 0) := by omega
        cases hg : (a :: r).getLast? with
        | none => simp at hg
        | some v =>
          simp [step, getLastHistory, inKeys, keySet, hk, hl, histOf, withItem, h1, hg, hne, finish, retVal, escape, setHeap,
            heapOf, F_ensureCopy_eq]
  · simp [step, getLastHistory, inKeys, keySet, hk, raise, finish]

/-- `to_dict()`: copies FOR THE CALLER of every current value, then of every history entry (new lists), in that order -/
theorem C17_srcF_to_dict (s : State) : step s .toDict = finish (toDict .usr s) := by
  simp [step, toDict, finish, retExport, escape, setHeap, heapOf, curOf, histOf, F_ensureCopy_eq, F_mapAssoc_copy, F_mapAssoc_copyList,
    List.append_assoc]

/-- `update_from_dict(state_dict)` on the dictionary the caller passes: each present section is copied FOR THE MANAGER
    (arrays and lists) and merged; the cache is dropped -/
theorem C17_srcF_update_from_dict (s : State) (cur : Option (List (Key × Arg))) (hist : Option (List (Key × List Arg))) :
    step s (.updateFromDict cur hist) =
      if !(dictLegal s.escaped (entries cur) && histLegal s.escaped (entries hist)) then (s, .err .illegal) else
      let rc := resolveDict s.heap s.escaped (entries cur)
      let rh := resolveHist rc.1 rc.2.1 (entries hist)
      finish (updateFromDict .usr { s with heap := rh.1, escaped := rh.2.1 }
        (cur.map fun _ => rc.2.2) (hist.map fun _ => rh.2.2)) := by
  by_cases hl : (dictLegal s.escaped (entries cur) && histLegal s.escaped (entries hist)) = true
  · cases cur <;> cases hist <;>
      simp [step, hl, updateFromDict, withItem, finish, setCache, updateCur, updateHist, setHeap, heapOf, F_ensureCopy_eq,
        F_mapAssoc_copy, F_mapAssoc_copyList, entries, copyDict, copyHist, updateAll, resolveDict, resolveHist] <;>
      simp_all [entries]
  · simp only [Bool.not_eq_true] at hl
    simp [step, hl]

/-- the body of `commit_current_to_history`'s loop, as generated -/
def F_commitBody : State → Key → State × Option Res := fun s2 x3 =>
  (if (inKeys "HISTORY_STATE_KEYS" x3) then withItem (lookup x3 (curOf s2)) s2 keyErr fun v5 =>
    (if (isNoneV v5) then (s2, none)
     else let c6 := ensureCopy Owner.lib (heapOf s2) v5; let s7 := setHeap s2 c6.1; let s8 := appendHist s7 x3 c6.2; (s8, none))
   else (s2, none))

def F_commitStep (s : State) (k : Key) (v : Val) : State :=
  { s with heap := (copyVal s.heap v).1, history := adjust k (fun l => l ++ [(copyVal s.heap v).2]) s.history }

/-- every key the commit loop reads has a slot in `_current` (true of `init`; no method removes a key) -/
def F_CurSlots (s : State) : Prop := ∀ k ∈ currentKeys, k ∈ historyKeys → (lookup k s.current).isSome = true

theorem F_commitLoop_eq (ks : List Key) (s : State)
    (hc : ∀ k ∈ ks, k ∈ historyKeys → (lookup k s.current).isSome = true) :
    forEach ks s F_commitBody = (commitLoop (ks.filter fun k => historyKeys.contains k) s, none) := by
  induction ks generalizing s with
  | nil => rfl
  | cons k r ih =>
    have hr : ∀ s' : State, s'.current = s.current → ∀ k' ∈ r, k' ∈ historyKeys → (lookup k' s'.current).isSome = true :=
      fun s' e k' hk' hh => by rw [e]; exact hc k' (List.mem_cons_of_mem _ hk') hh
    by_cases hk : k ∈ historyKeys
    · have hs := hc k (List.mem_cons_self) hk
      cases hl : lookup k s.current with
      | none => simp [hl] at hs
      | some v =>
        by_cases hv : v = Val.none
        · subst hv
          have hb : F_commitBody s k = (s, none) := by simp [F_commitBody, inKeys, keySet, hk, hl, curOf, withItem, isNoneV]
          rw [forEach, hb]; simp only []; rw [ih s (hr s rfl)]; simp [List.filter, hk, commitLoop, hl]
        · have hn : isNoneV v = false := by cases v <;> simp_all [isNoneV]
          have hb : F_commitBody s k = (F_commitStep s k v, none) := by
            simp [F_commitBody, F_commitStep, inKeys, keySet, hk, hl, curOf, withItem, hn, appendHist, setHeap, heapOf, F_ensureCopy_eq]
          rw [forEach, hb]; simp only []; rw [ih (F_commitStep s k v) (hr _ rfl)]; simp [List.filter, hk, commitLoop, hl, hv, F_commitStep]
    · have hb : F_commitBody s k = (s, none) := by simp [F_commitBody, inKeys, keySet, hk]
      rw [forEach, hb]; simp only []; rw [ih s (hr s rfl)]; simp [List.filter, hk]

/-- `commit_current_to_history(strict)`: strict → ValueError when a key of REQUIRED_COMMIT_KEYS is missing or None (nothing
    committed); then, for every key of CURRENT_STATE_KEYS that is in HISTORY_STATE_KEYS and whose value is not None, a copy made
    FOR THE MANAGER is appended to that key's list; the cache is dropped -/
theorem C17_srcF_commit (s : State) (strict : Bool) (hc : F_CurSlots s) :
    step s (.commit strict) = finish (commit .usr s strict) := by
  have hloop := F_commitLoop_eq currentKeys s hc
  have h : ∀ p, commit .usr s p =
      (if p then (if ((((keySet "REQUIRED_COMMIT_KEYS")).filter fun x1 => (isNoneO (lookup x1 (curOf s))))).isEmpty
        then seq (forEach (keySet "CURRENT_STATE_KEYS") s F_commitBody) fun s4 => (setCache s4 none, none)
        else raise s Err.valueError)
       else seq (forEach (keySet "CURRENT_STATE_KEYS") s F_commitBody) fun s4 => (setCache s4 none, none)) := fun _ => rfl
  have hk : keySet "CURRENT_STATE_KEYS" = currentKeys := rfl
  rw [h, hk, hloop]
  cases strict
  · simp [step, seq, finish, setCache, commitKeys]
  · cases hb : Model.StateMgr.isNone (lookup "beta" s.current) <;> cases hg : Model.StateMgr.isNone (lookup "logl" s.current) <;>
      simp [step, seq, finish, setCache, commitKeys, keySet, List.filter, F_isNoneO_eq, curOf, hb, hg, raise]

example : F_CurSlots init := by unfold F_CurSlots; decide

/-- the body of `compute_results`' loop, as generated: `self._results_dict[key] = self.get_history(key)` with the manager
    itself as the receiver of what `get_history` allocates -/
def F_resBody : State → Key → State × Option Res := fun s2 x3 =>
  callVal (getHistory Owner.lib s2 x3 none false) fun s6 v5 => let s7 := cachePut s6 x3 v5; (s7, none)

/-- `_history` is a dictionary: the entry found under a key is that key's entry (true of `init`; `insert` / `adjust` keep it) -/
def F_HistFun (s : State) : Prop := ∀ kl ∈ s.history, lookup kl.1 s.history = some kl.2

def F_fillStep (s : State) (k : Key) (l : List Val) : State :=
  { s with heap := s.heap ++ [stack s.heap l], cache := some (insert k (.ref s.heap.length) (entries s.cache)) }

theorem F_resBody_in (s : State) (k : Key) (l : List Val) (hl : lookup k s.history = some l) (hk : k ∈ historyKeys) :
    F_resBody s k = (F_fillStep s k l, none) := by
  simp [F_resBody, getHistory, inKeys, keySet, hk, hl, histOf, withItem, npArray, retVal, escape, callVal, cachePut, F_fillStep]

theorem F_resBody_out (s : State) (k : Key) (hk : ¬ k ∈ historyKeys) : F_resBody s k = (s, some (.err .valueError)) := by
  simp [F_resBody, getHistory, inKeys, keySet, hk, raise, callVal]

theorem F_fillCache_eq (r : List (Key × List Val)) (s : State) (c : List (Key × Val)) (hc : s.cache = some c)
    (hf : ∀ kl ∈ r, lookup kl.1 s.history = some kl.2) :
    forEach (r.map Prod.fst) s F_resBody =
      ({ s with heap := (fillCache r s.heap c).1, cache := some (fillCache r s.heap c).2.1 },
       if (fillCache r s.heap c).2.2 then none else some (.err .valueError)) := by
  induction r generalizing s c with
  | nil => cases s; simp_all [forEach, fillCache]
  | cons kl r ih =>
    obtain ⟨k, l⟩ := kl
    have hl : lookup k s.history = some l := hf (k, l) List.mem_cons_self
    by_cases hk : k ∈ historyKeys
    · rw [List.map_cons, forEach, F_resBody_in s k l hl hk]; simp only []
      rw [ih (F_fillStep s k l) (insert k (.ref s.heap.length) c) (by simp [F_fillStep, hc, entries])
        (fun kl hkl => hf kl (List.mem_cons_of_mem _ hkl))]
      simp [F_fillStep, fillCache, hk]
      try rfl
    · rw [List.map_cons, forEach, F_resBody_out s k hk]; cases s; simp_all [fillCache]

/-- `compute_results()`: with an empty cache, `get_history(key)` of every key of `_history` is stored in `_results_dict`
    (allocated FOR THE MANAGER; a ValueError of `get_history` propagates and leaves the partial dictionary behind), then `logw`;
    in both cases what is returned are copies made FOR THE CALLER of the cached values -/
theorem C17_srcF_compute_results (s : State) (hf : F_HistFun s) :
    step s .computeResults = finish (computeResults .usr s) := by
  have h : computeResults .usr s =
      (if ((cacheOf s)).isNone then let s1 := setCache s (some []); seq (forEach (((histOf s1)).map Prod.fst) s1 F_resBody) fun s4 =>
          logwCall Owner.lib s4 fun s9 v8 => let s10 := cachePut s9 "logw" v8
            let c11 := mapAssoc (ensureCopy .usr) (heapOf s10) (entries (cacheOf s10)); let s12 := setHeap s10 c11.1; retDict .usr s12 c11.2
       else let c13 := mapAssoc (ensureCopy .usr) (heapOf s) (entries (cacheOf s)); let s14 := setHeap s c13.1; retDict .usr s14 c13.2) := rfl
  rw [h]
  cases hc : s.cache with
  | some c => simp [step, hc, cacheOf, finish, retDict, escape, setHeap, heapOf, entries, F_ensureCopy_eq, F_mapAssoc_copy]
  | none =>
    have hfill := F_fillCache_eq s.history (setCache s (some [])) [] rfl hf
    simp only [cacheOf, hc, Option.isNone_none, if_true, histOf, setCache] at hfill ⊢
    rw [hfill]
    by_cases hb : (fillCache s.history s.heap []).2.2 = true <;>
      simp [step, hc, hb, seq, finish, logwCall, cachePut, retDict, escape, setHeap, heapOf, cacheOf, entries, F_ensureCopy_eq, F_mapAssoc_copy]

example : F_HistFun init := by unfold F_HistFun; decide

end F
/-! ## nested model (values that hold references: object arrays, lists, dicts), the rule in force since b0f244e -/
section N
open Model.StateMgr (Addr Content Key Val Err lookup insert adjust updateAll currentKeys historyKeys commitKeys entries)
open Model.StateMgrN Model.StateMgrPy.N Gen.StateMgrSrc.N

/-- `_ensure_copy` on the cells of the nested model: a plain array is duplicated (`.copy()`), an object array is DEEP-copied
    (`_deepcopy_array(value) if value.dtype.hasobject`): this is `copyVal` with `deep = true` -/
theorem C17_srcN_ensure_copy (o : Owner) (h : Heap) (v : Val) : copyVal true o h v = ensureCopy o h v := by
  cases v with
  | none => rfl
  | scalar x => rfl
  | ref a =>
    cases hb : bodyAt h a with
    | none => simp [copyVal, ensureCopy, isNoneV, isInst, Model.StateMgrN.Val.isRef, hasObject, isObjs, hb, bufCopy, deepCopy]
    | some b => cases b <;> simp [copyVal, ensureCopy, isNoneV, isInst, Model.StateMgrN.Val.isRef, hasObject, isObjs, hb, bufCopy, deepCopy]

/-- the third rule of `_ensure_copy` (list / tuple / dict → `copy.deepcopy`) is the rule of object arrays: the nested model
    may represent Python containers by the same kind of cell -/
theorem C17_srcN_container_rule :
    (∀ (o : Owner) (h : Heap) (v : Val), Gen.StateMgrSrc.N.ensureCopy o h v =
      if isNoneV v then (h, Val.none) else
      if isInst h v ["ndarray"] then (if hasObject h v then deepCopy o h v else bufCopy o h v) else
      if isInst h v ["list", "tuple", "dict"] then deepCopy o h v else (h, v)) := fun _ _ _ => rfl

theorem N_ensureCopy_eq (o : Owner) : ensureCopy o = copyVal true o := by
  funext h v; exact (C17_srcN_ensure_copy o h v).symm

theorem N_mapList_copy (o : Owner) (h : Heap) (l : List Val) : mapList (copyVal true o) h l = copyList true o h l := by
  induction l generalizing h with
  | nil => rfl
  | cons v vs ih => simp only [mapList, copyList, ih]

theorem N_mapAssoc_copy (o : Owner) (h : Heap) (d : List (Key × Val)) : mapAssoc (copyVal true o) h d = copyDict true o h d := by
  induction d generalizing h with
  | nil => rfl
  | cons kv r ih => obtain ⟨k, v⟩ := kv; simp only [mapAssoc, copyDict, ih]

theorem N_mapAssoc_copyList (o : Owner) (h : Heap) (d : List (Key × List Val)) :
    mapAssoc (mapList (copyVal true o)) h d = copyHist true o h d := by
  induction d generalizing h with
  | nil => rfl
  | cons kv r ih => obtain ⟨k, v⟩ := kv; simp only [mapAssoc, copyHist, ih, N_mapList_copy]

theorem C17_srcN_get_current (s : State) (k : Option Key) :
    step true s (.getCurrent k) = finish (getCurrent .usr s k) := by
  cases k with
  | none => simp [step, getCurrent, finish, retDict, setHeap, heapOf, curOf, N_ensureCopy_eq, N_mapAssoc_copy]
  | some k =>
    by_cases hk : k ∈ currentKeys
    · cases hl : lookup k s.current <;>
        simp [step, getCurrent, inKeys, keySet, hk, hl, curOf, withItem, finish, retVal, setHeap, heapOf, N_ensureCopy_eq, keyErr]
    · simp [step, getCurrent, inKeys, keySet, hk, raise, finish]

theorem C17_srcN_set_current (s : State) (k : Key) (x : Arg) (copy : Bool) :
    step true s (.setCurrent k x copy) =
      if !x.legal s.heap then (s, .err .illegal) else
      finish (setCurrent .usr { s with heap := (resolveArg s.heap x).1 } k (resolveArg s.heap x).2 copy) := by
  by_cases hl : x.legal s.heap <;> by_cases hk : k ∈ currentKeys <;> cases copy <;>
    simp [step, setCurrent, inKeys, keySet, hk, hl, raise, finish, storeCur, storeCurAlias, setCache, setHeap, heapOf,
      N_ensureCopy_eq]

theorem C17_srcN_get_history (s : State) (k : Key) (index : Option Int) (flat : Bool) :
    step true s (.getHistory k index flat) = finish (getHistory .usr s k index flat) := by
  by_cases hk : k ∈ historyKeys
  · cases hl : lookup k s.history with
    | none => cases index <;> cases flat <;> simp [step, getHistory, inKeys, keySet, hk, hl, histOf, withItem, finish, keyErr]
    | some l =>
      cases index with
      | none =>
        cases flat
        · simp [step, getHistory, inKeys, keySet, hk, hl, histOf, withItem, finish, npArray, retVal]
        · by_cases hc : (l.isEmpty || !l.all Model.StateMgrN.Val.isRef) = true
          · simp [step, getHistory, inKeys, keySet, hk, hl, histOf, withItem, finish, npConcat, hc, raise]
          · simp [step, getHistory, inKeys, keySet, hk, hl, histOf, withItem, finish, npConcat, hc, npArray, retVal]
      | some i =>
        by_cases hneg : i < 0
        · simp [step, getHistory, inKeys, keySet, hk, hl, histOf, withItem, finish, hneg, raise]
        · by_cases hge : i ≥ (l.length : Int)
          · have : l[i.toNat]? = none := by
              apply List.getElem?_eq_none; omega
            simp [step, getHistory, inKeys, keySet, hk, hl, histOf, withItem, finish, hneg, hge, raise, this]
          · have hlt : i.toNat < l.length := by omega
            simp [step, getHistory, inKeys, keySet, hk, hl, histOf, withItem, finish, hneg, hge, raise, F_pyGet_nonneg, hlt,
              retVal, setHeap, heapOf, N_ensureCopy_eq]
  · cases index <;> cases flat <;> simp [step, getHistory, inKeys, keySet, hk, raise, finish]

theorem C17_srcN_get_last_history (s : State) (k : Key) :
    step true s (.getLastHistory k) = finish (getLastHistory .usr s k Val.none) := by
  by_cases hk : k ∈ historyKeys
  · cases hl : lookup k s.history with
    | none => simp [step, getLastHistory, inKeys, keySet, hk, hl, histOf, withItem, finish, keyErr]
    | some l =>
      cases l with
      | nil => simp [step, getLastHistory, inKeys, keySet, hk, hl, histOf, withItem, finish, retParam]
      | cons a r =>
        have h1 : pyGet? (a :: r) (-1) = (a :: r).getLast? := F_pyGet_last _
        have hne : ¬ ((r.length : Int) + 1 = 0) := by omega
        cases hg : (a :: r).getLast? with
        | none => simp at hg
        | some v =>
          simp [step, getLastHistory, inKeys, keySet, hk, hl, histOf, withItem, h1, hg, hne, finish, retVal, setHeap,
            heapOf, N_ensureCopy_eq]
  · simp [step, getLastHistory, inKeys, keySet, hk, raise, finish]

theorem C17_srcN_to_dict (s : State) : step true s .toDict = finish (toDict .usr s) := by
  simp [step, toDict, finish, retExport, setHeap, heapOf, curOf, histOf, N_ensureCopy_eq, N_mapAssoc_copy, N_mapAssoc_copyList]

theorem C17_srcN_update_from_dict (s : State) (cur : Option (List (Key × Arg))) (hist : Option (List (Key × List Arg))) :
    step true s (.updateFromDict cur hist) =
      if !(dictLegal s.heap (entries cur) && histLegal s.heap (entries hist)) then (s, .err .illegal) else
      let rc := resolveDict s.heap (entries cur)
      let rh := resolveHist rc.1 (entries hist)
      finish (updateFromDict .usr { s with heap := rh.1 } (cur.map fun _ => rc.2) (hist.map fun _ => rh.2)) := by
  by_cases hl : (dictLegal s.heap (entries cur) && histLegal s.heap (entries hist)) = true
  · cases cur <;> cases hist <;>
      simp [step, hl, updateFromDict, withItem, finish, setCache, updateCur, updateHist, setHeap, heapOf, N_ensureCopy_eq,
        N_mapAssoc_copy, N_mapAssoc_copyList, entries, copyDict, copyHist, updateAll, resolveDict, resolveHist] <;>
      simp_all [entries]
  · simp only [Bool.not_eq_true] at hl
    simp [step, hl]

/-- the body of `commit_current_to_history`'s loop, as generated -/
def N_commitBody : State → Key → State × Option Res := fun s2 x3 =>
  (if (inKeys "HISTORY_STATE_KEYS" x3) then withItem (lookup x3 (curOf s2)) s2 keyErr fun v5 =>
    (if (isNoneV v5) then (s2, none)
     else let c6 := ensureCopy Owner.lib (heapOf s2) v5; let s7 := setHeap s2 c6.1; let s8 := appendHist s7 x3 c6.2; (s8, none))
   else (s2, none))

def N_commitStep (s : State) (k : Key) (v : Val) : State :=
  { s with heap := (copyVal true .lib s.heap v).1, history := adjust k (fun l => l ++ [(copyVal true .lib s.heap v).2]) s.history }

/-- every key the commit loop reads has a slot in `_current` (true of `init`; no method removes a key) -/
def N_CurSlots (s : State) : Prop := ∀ k ∈ currentKeys, k ∈ historyKeys → (lookup k s.current).isSome = true

theorem N_commitLoop_eq (ks : List Key) (s : State)
    (hc : ∀ k ∈ ks, k ∈ historyKeys → (lookup k s.current).isSome = true) :
    forEach ks s N_commitBody = (commitLoop true (ks.filter fun k => historyKeys.contains k) s, none) := by
  induction ks generalizing s with
  | nil => rfl
  | cons k r ih =>
    have hr : ∀ s' : State, s'.current = s.current → ∀ k' ∈ r, k' ∈ historyKeys → (lookup k' s'.current).isSome = true :=
      fun s' e k' hk' hh => by rw [e]; exact hc k' (List.mem_cons_of_mem _ hk') hh
    by_cases hk : k ∈ historyKeys
    · have hs := hc k (List.mem_cons_self) hk
      cases hl : lookup k s.current with
      | none => simp [hl] at hs
      | some v =>
        by_cases hv : v = Val.none
        · subst hv
          have hb : N_commitBody s k = (s, none) := by simp [N_commitBody, inKeys, keySet, hk, hl, curOf, withItem, isNoneV]
          rw [forEach, hb]; simp only []; rw [ih s (hr s rfl)]; simp [List.filter, hk, commitLoop, hl]
        · have hn : isNoneV v = false := by cases v <;> simp_all [isNoneV]
          have hb : N_commitBody s k = (N_commitStep s k v, none) := by
            simp [N_commitBody, N_commitStep, inKeys, keySet, hk, hl, curOf, withItem, hn, appendHist, setHeap, heapOf, N_ensureCopy_eq]
          rw [forEach, hb]; simp only []; rw [ih (N_commitStep s k v) (hr _ rfl)]; simp [List.filter, hk, commitLoop, hl, hv, N_commitStep]
    · have hb : N_commitBody s k = (s, none) := by simp [N_commitBody, inKeys, keySet, hk]
      rw [forEach, hb]; simp only []; rw [ih s (hr s rfl)]; simp [List.filter, hk]

/-- `commit_current_to_history(strict)`: strict → ValueError when a key of REQUIRED_COMMIT_KEYS is missing or None (nothing
    committed); then, for every key of CURRENT_STATE_KEYS that is in HISTORY_STATE_KEYS and whose value is not None, a copy made
    FOR THE MANAGER is appended to that key's list; the cache is dropped -/
theorem C17_srcN_commit (s : State) (strict : Bool) (hc : N_CurSlots s) :
    step true s (.commit strict) = finish (commit .usr s strict) := by
  have hloop := N_commitLoop_eq currentKeys s hc
  have h : ∀ p, commit .usr s p =
      (if p then (if ((((keySet "REQUIRED_COMMIT_KEYS")).filter fun x1 => (isNoneO (lookup x1 (curOf s))))).isEmpty
        then seq (forEach (keySet "CURRENT_STATE_KEYS") s N_commitBody) fun s4 => (setCache s4 none, none)
        else raise s Err.valueError)
       else seq (forEach (keySet "CURRENT_STATE_KEYS") s N_commitBody) fun s4 => (setCache s4 none, none)) := fun _ => rfl
  have hk : keySet "CURRENT_STATE_KEYS" = currentKeys := rfl
  rw [h, hk, hloop]
  cases strict
  · simp [step, seq, finish, setCache, commitKeys]
  · cases hb : Model.StateMgr.isNone (lookup "beta" s.current) <;> cases hg : Model.StateMgr.isNone (lookup "logl" s.current) <;>
      simp [step, seq, finish, setCache, commitKeys, keySet, List.filter, F_isNoneO_eq, curOf, hb, hg, raise]

example : N_CurSlots init := by unfold N_CurSlots; decide

/-- the body of `compute_results`' loop, as generated: `self._results_dict[key] = self.get_history(key)` with the manager
    itself as the receiver of what `get_history` allocates -/
def N_resBody : State → Key → State × Option Res := fun s2 x3 =>
  callVal (getHistory Owner.lib s2 x3 none false) fun s6 v5 => let s7 := cachePut s6 x3 v5; (s7, none)

/-- `_history` is a dictionary: the entry found under a key is that key's entry (true of `init`; `insert` / `adjust` keep it) -/
def N_HistFun (s : State) : Prop := ∀ kl ∈ s.history, lookup kl.1 s.history = some kl.2

def N_fillStep (s : State) (k : Key) (l : List Val) : State :=
  { s with heap := (stackAlloc true .lib s.heap l).1, cache := some (insert k (stackAlloc true .lib s.heap l).2 (entries s.cache)) }

theorem N_resBody_in (s : State) (k : Key) (l : List Val) (hl : lookup k s.history = some l) (hk : k ∈ historyKeys) :
    N_resBody s k = (N_fillStep s k l, none) := by
  simp [N_resBody, getHistory, inKeys, keySet, hk, hl, histOf, withItem, npArray, retVal, callVal, cachePut, N_fillStep]

theorem N_resBody_out (s : State) (k : Key) (hk : ¬ k ∈ historyKeys) : N_resBody s k = (s, some (.err .valueError)) := by
  simp [N_resBody, getHistory, inKeys, keySet, hk, raise, callVal]

theorem N_fillCache_eq (r : List (Key × List Val)) (s : State) (c : List (Key × Val)) (hc : s.cache = some c)
    (hf : ∀ kl ∈ r, lookup kl.1 s.history = some kl.2) :
    forEach (r.map Prod.fst) s N_resBody =
      ({ s with heap := (fillCache true r s.heap c).1, cache := some (fillCache true r s.heap c).2.1 },
       if (fillCache true r s.heap c).2.2 then none else some (.err .valueError)) := by
  induction r generalizing s c with
  | nil => cases s; simp_all [forEach, fillCache]
  | cons kl r ih =>
    obtain ⟨k, l⟩ := kl
    have hl : lookup k s.history = some l := hf (k, l) List.mem_cons_self
    by_cases hk : k ∈ historyKeys
    · rw [List.map_cons, forEach, N_resBody_in s k l hl hk]; simp only []
      rw [ih (N_fillStep s k l) (insert k (stackAlloc true .lib s.heap l).2 c) (by simp [N_fillStep, hc, entries])
        (fun kl hkl => hf kl (List.mem_cons_of_mem _ hkl))]
      simp [N_fillStep, fillCache, hk]
      try rfl
    · rw [List.map_cons, forEach, N_resBody_out s k hk]; cases s; simp_all [fillCache]

/-- `compute_results()`: with an empty cache, `get_history(key)` of every key of `_history` is stored in `_results_dict`
    (allocated FOR THE MANAGER; a ValueError of `get_history` propagates and leaves the partial dictionary behind), then `logw`;
    in both cases what is returned are copies made FOR THE CALLER of the cached values -/
theorem C17_srcN_compute_results (s : State) (hf : N_HistFun s) :
    step true s .computeResults = finish (computeResults .usr s) := by
  have h : computeResults .usr s =
      (if ((cacheOf s)).isNone then let s1 := setCache s (some []); seq (forEach (((histOf s1)).map Prod.fst) s1 N_resBody) fun s4 =>
          logwCall Owner.lib s4 fun s9 v8 => let s10 := cachePut s9 "logw" v8
            let c11 := mapAssoc (ensureCopy .usr) (heapOf s10) (entries (cacheOf s10)); let s12 := setHeap s10 c11.1; retDict .usr s12 c11.2
       else let c13 := mapAssoc (ensureCopy .usr) (heapOf s) (entries (cacheOf s)); let s14 := setHeap s c13.1; retDict .usr s14 c13.2) := rfl
  rw [h]
  cases hc : s.cache with
  | some c => simp [step, hc, cacheOf, finish, retDict, setHeap, heapOf, entries, N_ensureCopy_eq, N_mapAssoc_copy]
  | none =>
    have hfill := N_fillCache_eq s.history (setCache s (some [])) [] rfl hf
    simp only [cacheOf, hc, Option.isNone_none, if_true, histOf, setCache] at hfill ⊢
    rw [hfill]
    by_cases hb : (fillCache true s.history s.heap []).2.2 = true <;>
      simp [step, hc, hb, seq, finish, logwCall, cachePut, retDict, setHeap, heapOf, cacheOf, entries, N_ensureCopy_eq, N_mapAssoc_copy]

example : N_HistFun init := by unfold N_HistFun; decide

end N
/-! ## what is compared as text (no heap semantics of its own) -/

/-- `from_dict`: a NEW manager (`cls(n_dim)`), `update_from_dict(state_dict)` on it, and that manager is returned: the model's
    `freshIn` followed by the op `.updateFromDict` (Model/StateMgrX.lean: `resume`, `exportArgs`) -/
theorem C17_src_from_dict :
    Gen.StateMgrSrc.fromDictCalls = ["l2 = a0(a1.get('n_dim', 1))", "l2.update_from_dict(a1)", "return l2"] := by decide

/-- `compute_results` caches `compute_logw_and_logz(1.0)[0]`, computed once -/
theorem C17_src_results_logw : Gen.StateMgrSrc.resultsLogwArgs = ["1.0"] := by decide

/-- the only statements the translator drops are the ones that copy `n_dim` (not modelled) -/
theorem C17_src_skipped :
    Gen.StateMgrSrc.skipped = ["if 'n_dim' in state_dict: self.n_dim = state_dict['n_dim']"] := by decide

/-! ## non-vacuity: the generated terms run (flat model) -/
section Examples
open Model.StateMgr Model.StateMgrPy.F Gen.StateMgrSrc.F

/-- a state with one committed batch: `set_current("logl", <fresh array>)`, `set_current("beta", 3)`, `commit()` -/
def demo : State := run init [.setCurrent "logl" (.fresh [1, 2]) true, .setCurrent "beta" (.scalar 3) true, .commit false]

example : (finish (getHistory .usr demo "logl" (some 0) false)).2 = .val (.ref 3) := by decide
example : (finish (getHistory .usr demo "logl" (some 1) false)).2 = .err .indexError := by decide
example : (finish (getHistory .usr demo "logl" (some (-1)) false)).2 = .err .indexError := by decide
example : (finish (getHistory .usr demo "beta" none true)).2 = .err .valueError := by decide
example : (finish (getCurrent .usr demo (some "nope"))).2 = .err .valueError := by decide
example : rd (finish (getLastHistory .usr demo "logl" Val.none)).1.heap 3 = some [1, 2] := by decide
example : (finish (commit .usr init true)).2 = .err .valueError := by decide
example : (finish (commit .usr demo true)).2 = .unit := by decide
example : ((finish (computeResults .usr demo)).1.cache.map fun c => c.length) = some 13 := by decide
example : (finish (setCurrent .usr demo "x" (.ref 0) false)).1.imported = [0] := by decide
end Examples

end Props.C17.Src
