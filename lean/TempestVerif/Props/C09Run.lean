import TempestVerif.Model.RngRun
import Mathlib.Tactic
/-
  C09, run level — adaptive effect programs (`Model.RngRun`): the number of draws and the branch taken may depend on the
  numbers drawn so far, as in the real sampler.  What is proved here, for EVERY generator (any family of deterministic
  state transformers) and every program:
    * a program that starts by seeding is a function of the seed alone (state, result, every value drawn);
    * a program without seeding leaves the process-wide stream ON THE ORBIT of the state it found: the post-state is the
      pre-state advanced by exactly the requests consumed, and the values drawn are that stream segment;
    * successive iterations of a run consume consecutive, disjoint segments of one stream; if the stream does not cycle
      within the run and every iteration draws at least once, no two iterations start from the same generator state;
    * the private generator of the mixture model never touches the process-wide stream;
    * a checkpoint carries the stream position: the resumed run continues the writer's stream at the save point and
      reproduces the uninterrupted run; the rule before the repair db2b14b (reseed with the stored seed) replayed the
      first draws (finding F31).
-/
namespace Props.C09
open Model.RngRun

variable {K S V R A B : Type}

/-! ### semantics of `bind` -/

theorem run_bind (g : KGen K S V) (p : Prog K S V A) (f : A → Prog K S V B) (st : St S) :
    run g (p.bind f) st =
      ⟨(run g (f (run g p st).res) (run g p st).st).st, (run g (f (run g p st).res) (run g p st).st).res,
        (run g p st).log ++ (run g (f (run g p st).res) (run g p st).st).log⟩ := by
  induction p generalizing st with
  | ret r => simp [Prog.bind, run]
  | draw k c ih => simp [Prog.bind, run, ih, Out.cons]
  | seed n c ih => simp [Prog.bind, run, ih, Out.cons]
  | pnew n c ih => simp [Prog.bind, run, ih, Out.cons]
  | pdraw k c ih =>
    cases hp : st.priv with
    | none => simp [Prog.bind, run, hp, ih, Out.cons]
    | some ps => simp [Prog.bind, run, hp, ih, Out.cons]
  | getst c ih => simp [Prog.bind, run, ih]
  | setst s c ih => simp [Prog.bind, run, ih, Out.cons]

theorem run_bind_log (g : KGen K S V) (p : Prog K S V A) (f : A → Prog K S V B) (st : St S) :
    (run g (p.bind f) st).log = (run g p st).log ++ (run g (f (run g p st).res) (run g p st).st).log := by
  rw [run_bind]

theorem run_bind_st (g : KGen K S V) (p : Prog K S V A) (f : A → Prog K S V B) (st : St S) :
    (run g (p.bind f) st).st = (run g (f (run g p st).res) (run g p st).st).st := by
  rw [run_bind]

theorem run_bind_res (g : KGen K S V) (p : Prog K S V A) (f : A → Prog K S V B) (st : St S) :
    (run g (p.bind f) st).res = (run g (f (run g p st).res) (run g p st).st).res := by
  rw [run_bind]

/-! ### reading logs -/

theorem gkinds_append (l l' : List (Ev K V)) : gkinds (l ++ l') = gkinds l ++ gkinds l' := by
  induction l with
  | nil => rfl
  | cons e l ih => cases e <;> simp [gkinds, ih]

theorem gvals_append (l l' : List (Ev K V)) : gvals (l ++ l') = gvals l ++ gvals l' := by
  induction l with
  | nil => rfl
  | cons e l ih => cases e <;> simp [gvals, ih]

theorem pvals_append (l l' : List (Ev K V)) : pvals (l ++ l') = pvals l ++ pvals l' := by
  induction l with
  | nil => rfl
  | cons e l ih => cases e <;> simp [pvals, ih]

theorem hasGseed_append (l l' : List (Ev K V)) : hasGseed (l ++ l') = (hasGseed l || hasGseed l') := by
  induction l with
  | nil => rfl
  | cons e l ih => cases e <;> simp [hasGseed, ih]

theorem advance_append (g : KGen K S V) (ks ks' : List K) (s : S) :
    advance g (ks ++ ks') s = advance g ks' (advance g ks s) := by
  induction ks generalizing s with
  | nil => rfl
  | cons k ks ih => simp [advance, ih]

theorem emit_append (g : KGen K S V) (ks ks' : List K) (s : S) :
    emit g (ks ++ ks') s = emit g ks s ++ emit g ks' (advance g ks s) := by
  induction ks generalizing s with
  | nil => rfl
  | cons k ks ih => simp [emit, advance, ih]

theorem emit_length (g : KGen K S V) (ks : List K) (s : S) : (emit g ks s).length = ks.length := by
  induction ks generalizing s with
  | nil => rfl
  | cons k ks ih => simp [emit, ih]

theorem gvals_length (l : List (Ev K V)) : (gvals l).length = (gkinds l).length := by
  induction l with
  | nil => rfl
  | cons e l ih => cases e <;> simp [gvals, gkinds, ih]

/-! ### programs that never seed the process-wide stream -/

inductive SeedFree : Prog K S V R → Prop where
  | ret (r : R) : SeedFree (.ret r)
  | draw (k : K) (c : V → Prog K S V R) : (∀ v, SeedFree (c v)) → SeedFree (.draw k c)
  | pnew (n : Nat) (c : Prog K S V R) : SeedFree c → SeedFree (.pnew n c)
  | pdraw (k : K) (c : V → Prog K S V R) : (∀ v, SeedFree (c v)) → SeedFree (.pdraw k c)
  | getst (c : S → Prog K S V R) : (∀ s, SeedFree (c s)) → SeedFree (.getst c)

theorem SeedFree.bind {p : Prog K S V A} {f : A → Prog K S V B} (hp : SeedFree p) (hf : ∀ a, SeedFree (f a)) :
    SeedFree (p.bind f) := by
  induction hp with
  | ret r => exact hf r
  | draw k c _ ih => exact .draw k _ ih
  | pnew n c _ ih => exact .pnew n _ ih
  | pdraw k c _ ih => exact .pdraw k _ ih
  | getst c _ ih => exact .getst _ ih

theorem seedFree_draw1 (k : K) : SeedFree (draw1 k : Prog K S V V) := .draw k _ fun v => .ret v
theorem seedFree_pdraw1 (k : K) : SeedFree (pdraw1 k : Prog K S V V) := .pdraw k _ fun v => .ret v

theorem seedFree_drawN (k : K) (n : Nat) : SeedFree (drawN k n : Prog K S V (List V)) := by
  induction n with
  | zero => exact .ret _
  | succ n ih => exact .draw k _ fun v => ih.bind fun vs => .ret _

theorem seedFree_pdrawN (k : K) (n : Nat) : SeedFree (pdrawN k n : Prog K S V (List V)) := by
  induction n with
  | zero => exact .ret _
  | succ n ih => exact .pdraw k _ fun v => ih.bind fun vs => .ret _

theorem seedFree_iterate (cont : A → Bool) (iter : A → Prog K S V A) (h : ∀ d, SeedFree (iter d)) (n : Nat) (d : A) :
    SeedFree (iterate cont iter n d) := by
  induction n generalizing d with
  | zero => exact .ret _
  | succ n ih =>
    simp only [iterate]
    split
    · exact (h d).bind ih
    · exact .ret _

theorem seedFree_iterateN (iter : A → Prog K S V A) (h : ∀ d, SeedFree (iter d)) (n : Nat) (d : A) :
    SeedFree (iterateN iter n d) := by
  induction n generalizing d with
  | zero => exact .ret _
  | succ n ih => exact (h d).bind fun d' => (ih d').bind fun ds => .ret _

/-- **No reset, adaptive form.**  A program without seeding leaves the process-wide stream on the orbit of the state it
    found: the post-state is the pre-state advanced by exactly the requests it consumed, the values it drew are that
    segment of the stream, and its log holds no seeding event.  (The number and kinds of requests may depend on the
    values drawn — `gkinds` is read off the log of THIS execution.) -/
theorem C09_seedfree_on_orbit (g : KGen K S V) {p : Prog K S V R} (hp : SeedFree p) (st : St S) :
    (run g p st).st.glob = advance g (gkinds (run g p st).log) st.glob ∧
    gvals (run g p st).log = emit g (gkinds (run g p st).log) st.glob ∧
    hasGseed (run g p st).log = false := by
  induction hp generalizing st with
  | ret r => simp [run, gkinds, gvals, hasGseed, advance, emit]
  | draw k c _ ih =>
    have := ih (g.next k st.glob).2 { st with glob := (g.next k st.glob).1 }
    simp only [run, Out.cons, gkinds, gvals, hasGseed, advance, emit]
    exact ⟨this.1, by rw [this.2.1], this.2.2⟩
  | pnew n c _ ih =>
    have := ih { st with priv := some (g.seed n) }
    simp only [run, Out.cons, gkinds, gvals, hasGseed]
    exact this
  | pdraw k c _ ih =>
    cases hpv : st.priv with
    | none =>
      have := ih (g.next k st.glob).2 { st with glob := (g.next k st.glob).1 }
      simp only [hpv] at this
      simp only [run, hpv, Out.cons, gkinds, gvals, hasGseed, advance, emit]
      exact ⟨this.1, by rw [this.2.1], this.2.2⟩
    | some ps =>
      have := ih (g.next k ps).2 { st with priv := some (g.next k ps).1 }
      simp only [run, hpv, Out.cons, gkinds, gvals, hasGseed]
      exact this
  | getst c _ ih =>
    simp only [run]
    exact ih st.glob st

/-- … so the numbers drawn afterwards still depend on the seed in force before: two ambient states whose streams never
    meet are taken to different states -/
theorem C09_seedfree_distinct_orbits (g : KGen K S V) {p : Prog K S V R} (hp : SeedFree p) (s s' : S) (pr pr' : Option S)
    (horb : ∀ ks ks', advance g ks s ≠ advance g ks' s') :
    (run g p ⟨s, pr⟩).st.glob ≠ (run g p ⟨s', pr'⟩).st.glob := by
  rw [(C09_seedfree_on_orbit g hp ⟨s, pr⟩).1, (C09_seedfree_on_orbit g hp ⟨s', pr'⟩).1]
  exact horb _ _

/-- **Seeded ⇒ reproducible, adaptive form.**  A program that begins by seeding the process-wide stream yields the same
    final generator state, result and log (every value drawn) whatever the ambient state was. -/
theorem C09_seeded_deterministic_adaptive (g : KGen K S V) (a : Nat) (p : Prog K S V R) (s s' : S) (pr : Option S) :
    run g (.seed a p) ⟨s, pr⟩ = run g (.seed a p) ⟨s', pr⟩ := by
  simp [run]

/-- … and everything it draws is the stream of that seed, consumed from position 0 without gaps -/
theorem C09_seeded_log_is_stream (g : KGen K S V) (a : Nat) {p : Prog K S V R} (hp : SeedFree p) (st : St S) :
    (run g (.seed a p) st).st.glob = advance g (gkinds (run g (.seed a p) st).log) (g.seed a) ∧
    gvals (run g (.seed a p) st).log = emit g (gkinds (run g (.seed a p) st).log) (g.seed a) := by
  have := C09_seedfree_on_orbit g hp { st with glob := g.seed a }
  simp only [run, Out.cons, gkinds, gvals]
  exact ⟨this.1, this.2.1⟩

/-- Why the straight-line theorem `C09_no_reseed_injective` does not carry over: with an INJECTIVE generator step, a
    seed-free adaptive program can still send two different ambient states to the same state (it draws once more when the
    first value is 0).  "Depends on the seed in force before" therefore has to be the orbit statement above. -/
theorem C09_adaptive_not_injective :
    ∃ (g : KGen Unit Nat Nat) (p : Prog Unit Nat Nat Unit), (∀ k, Function.Injective fun s => (g.next k s).1) ∧ SeedFree p ∧
      (run g p ⟨0, none⟩).st.glob = (run g p ⟨1, none⟩).st.glob := by
  refine ⟨⟨fun _ s => (s + 1, s), fun n => n⟩,
    .draw () fun v => if v = 0 then .draw () fun _ => .ret () else .ret (), ?_, ?_, ?_⟩
  · intro k s s' h; simpa using h
  · refine .draw _ _ fun v => ?_
    split
    · exact .draw _ _ fun _ => .ret _
    · exact .ret _
  · simp [run, Out.cons]

/-! ### array-valued calls -/

theorem run_drawN (g : KGen K S V) (k : K) (n : Nat) (st : St S) :
    (run g (drawN k n) st).st = { st with glob := advance g (List.replicate n k) st.glob } ∧
    (run g (drawN k n) st).res = emit g (List.replicate n k) st.glob ∧
    gkinds (run g (drawN k n) st).log = List.replicate n k ∧
    gvals (run g (drawN k n) st).log = emit g (List.replicate n k) st.glob ∧
    pvals (run g (drawN k n) st).log = [] ∧
    hasGseed (run g (drawN k n) st).log = false := by
  induction n generalizing st with
  | zero => simp [drawN, run, advance, emit, gkinds, gvals, pvals, hasGseed]
  | succ n ih =>
    have := ih { st with glob := (g.next k st.glob).1 }
    simp only [drawN, run, Out.cons, run_bind, List.replicate_succ, advance, emit, gkinds, gvals, pvals, hasGseed,
      List.append_nil]
    obtain ⟨h1, h2, h3, h4, h5, h6⟩ := this
    refine ⟨h1, by rw [h2], by rw [h3], by rw [h4], h5, h6⟩

/-- `self._rng.<f>()` with a private generator in place: the process-wide stream is not touched -/
theorem run_pdrawN_private (g : KGen K S V) (k : K) (n : Nat) (st : St S) (ps : S) (hps : st.priv = some ps) :
    (run g (pdrawN k n) st).st = { st with priv := some (advance g (List.replicate n k) ps) } ∧
    (run g (pdrawN k n) st).res = emit g (List.replicate n k) ps ∧
    gkinds (run g (pdrawN k n) st).log = [] ∧
    pvals (run g (pdrawN k n) st).log = emit g (List.replicate n k) ps ∧
    hasGseed (run g (pdrawN k n) st).log = false := by
  induction n generalizing st ps with
  | zero =>
    cases st; simp_all [pdrawN, run, advance, emit, gkinds, pvals, hasGseed]
  | succ n ih =>
    have := ih { st with priv := some (g.next k ps).1 } (g.next k ps).1 rfl
    simp only [pdrawN, run, hps, Out.cons, run_bind, List.replicate_succ, advance, emit, gkinds, pvals, hasGseed,
      List.append_nil]
    obtain ⟨h1, h2, h3, h4, h5⟩ := this
    refine ⟨by rw [h1], by rw [h2], h3, by rw [h4], h5⟩

/-- `self._rng = np.random` (no RandomState yet): `self._rng.<f>()` IS a process-wide draw -/
theorem run_pdrawN_global (g : KGen K S V) (k : K) (n : Nat) (st : St S) (hps : st.priv = none) :
    run g (pdrawN k n) st = run g (drawN k n) st := by
  induction n generalizing st with
  | zero => rfl
  | succ n ih =>
    simp only [pdrawN, drawN, run, hps, run_bind]
    rw [ih ⟨_, none⟩ rfl]

/-! ### the mixture model's private generator -/

theorem run_gmmInits_private (g : KGen K S V) (u : K) (nComp nInit : Nat) (st : St S) (ps : S) (hps : st.priv = some ps) :
    (run g (gmmInits u nComp nInit) st).st = { st with priv := some (advance g (List.replicate (nInit * nComp) u) ps) } ∧
    gkinds (run g (gmmInits u nComp nInit) st).log = [] ∧
    pvals (run g (gmmInits u nComp nInit) st).log = emit g (List.replicate (nInit * nComp) u) ps ∧
    hasGseed (run g (gmmInits u nComp nInit) st).log = false := by
  induction nInit generalizing st ps with
  | zero => cases st; simp_all [gmmInits, run, advance, emit, gkinds, pvals, hasGseed]
  | succ n ih =>
    obtain ⟨h1, _, h3, h4, h5⟩ := run_pdrawN_private g u nComp st ps hps
    obtain ⟨i1, i2, i3, i4⟩ := ih (run g (pdrawN u nComp) st).st (advance g (List.replicate nComp u) ps) (by rw [h1])
    have hrep : List.replicate ((n + 1) * nComp) u = List.replicate nComp u ++ List.replicate (n * nComp) u := by
      rw [← List.replicate_add]; congr 1; ring
    rw [h1] at i1 i2 i3 i4
    simp only [gmmInits, run_bind, run, gkinds_append, pvals_append, hasGseed_append, List.append_nil, h3, h4, h5,
      hrep, advance_append, emit_append, h1]
    simp [i1, i2, i3, i4]

/-- **A fit with a `random_state` never touches the process-wide stream**: `GaussianMixture(random_state=k).fit`
    creates a private generator and draws its `n_init × n_components` initialisation numbers from it; the process-wide
    state is unchanged, nothing is drawn from it and it is not reseeded. -/
theorem C09_gmm_seeded_fit_global_untouched (g : KGen K S V) (u : K) (k nInit nComp : Nat) (st : St S) :
    (run g (gmmFit u (some k) nInit nComp) st).st.glob = st.glob ∧
    gkinds (run g (gmmFit u (some k) nInit nComp) st).log = [] ∧
    hasGseed (run g (gmmFit u (some k) nInit nComp) st).log = false := by
  obtain ⟨h1, h2, _, h4⟩ := run_gmmInits_private g u nComp nInit { st with priv := some (g.seed k) } (g.seed k) rfl
  simp only [gmmFit, run, Out.cons, gkinds, hasGseed, h1, h2, h4, and_self]

/-- … and, being created from the same `k` at every fit, that private generator hands out the SAME numbers at every fit,
    whatever happened before (by design: the k-means++ start is a deterministic function of the data) -/
theorem C09_gmm_seeded_fit_private_values (g : KGen K S V) (u : K) (k nInit nComp : Nat) (st : St S) :
    pvals (run g (gmmFit u (some k) nInit nComp) st).log = emit g (List.replicate (nInit * nComp) u) (g.seed k) := by
  obtain ⟨_, _, h3, _⟩ := run_gmmInits_private g u nComp nInit { st with priv := some (g.seed k) } (g.seed k) rfl
  simp only [gmmFit, run, Out.cons, pvals, h3]

theorem seedFree_gmmInits (u : K) (nComp nInit : Nat) : SeedFree (gmmInits u nComp nInit : Prog K S V _) := by
  induction nInit with
  | zero => exact .ret _
  | succ n ih => exact (seedFree_pdrawN u nComp).bind fun r => ih.bind fun rs => .ret _

theorem seedFree_gmmFit (u : K) (rs : Option Nat) (nInit nComp : Nat) : SeedFree (gmmFit u rs nInit nComp : Prog K S V _) := by
  cases rs with
  | none => exact seedFree_gmmInits u nComp nInit
  | some k => exact .pnew k _ (seedFree_gmmInits u nComp nInit)

theorem run_gmmInits_global (g : KGen K S V) (u : K) (nComp nInit : Nat) (st : St S) (hps : st.priv = none) :
    (run g (gmmInits u nComp nInit) st).st = { st with glob := advance g (List.replicate (nInit * nComp) u) st.glob } ∧
    gkinds (run g (gmmInits u nComp nInit) st).log = List.replicate (nInit * nComp) u := by
  induction nInit generalizing st with
  | zero => simp [gmmInits, run, advance, gkinds]
  | succ n ih =>
    obtain ⟨h1, _, h3, _⟩ := run_drawN g u nComp st
    rw [← run_pdrawN_global g u nComp st hps] at h1 h3
    obtain ⟨i1, i2⟩ := ih (run g (pdrawN u nComp) st).st (by rw [h1]; exact hps)
    have hrep : List.replicate ((n + 1) * nComp) u = List.replicate nComp u ++ List.replicate (n * nComp) u := by
      rw [← List.replicate_add]; congr 1; ring
    rw [h1] at i1 i2
    simp only [gmmInits, run_bind, run, gkinds_append, List.append_nil, h3, hrep, advance_append, h1]
    simp [i1, i2]

/-- a fit WITHOUT `random_state` (`self._rng = np.random`) takes its `n_init × n_components` numbers from the
    process-wide stream and leaves it advanced by exactly those requests -/
theorem C09_gmm_unseeded_fit_draws_global (g : KGen K S V) (u : K) (nInit nComp : Nat) (s : S) :
    (run g (gmmFit u none nInit nComp) ⟨s, none⟩).st.glob = advance g (List.replicate (nInit * nComp) u) s ∧
    gkinds (run g (gmmFit u none nInit nComp) ⟨s, none⟩).log = List.replicate (nInit * nComp) u := by
  obtain ⟨h1, h2⟩ := run_gmmInits_global g u nComp nInit ⟨s, none⟩ rfl
  simp only [gmmFit, h1, h2, and_self]

/-- **A clustering fit never touches the process-wide stream**: `HierarchicalGaussianMixture.fit` is a data-dependent
    sequence of `GaussianMixture(…, random_state=42).fit` calls; the process-wide state after it EQUALS the state before
    (stronger than "still depends on the seed in force before"), and no process-wide value is consumed. -/
theorem C09_hgmm_fit_global_untouched (g : KGen K S V) (u : K) (nInit : Nat) (comps : List Nat) (st : St S) :
    (run g (hgmmFit u nInit comps) st).st.glob = st.glob ∧
    gkinds (run g (hgmmFit u nInit comps) st).log = [] ∧
    hasGseed (run g (hgmmFit u nInit comps) st).log = false := by
  induction comps generalizing st with
  | nil => simp [hgmmFit, run, gkinds, hasGseed]
  | cons c cs ih =>
    obtain ⟨h1, h2, h3⟩ := C09_gmm_seeded_fit_global_untouched g u 42 nInit c st
    obtain ⟨i1, i2, i3⟩ := ih (run g (gmmFit u (some 42) nInit c) st).st
    simp only [hgmmFit, run_bind, gkinds_append, hasGseed_append, h2, h3, i1, i2, i3, h1, List.append_nil,
      Bool.or_self, and_self]

theorem seedFree_hgmmFit (u : K) (nInit : Nat) (comps : List Nat) : SeedFree (hgmmFit u nInit comps : Prog K S V Unit) := by
  induction comps with
  | nil => exact .ret _
  | cons c cs ih => exact (seedFree_gmmFit u (some 42) nInit c).bind fun _ => ih

/-! ### `systematic_resample` -/

theorem C09_syst_unseeded_seedfree (u : K) : SeedFree (systematicResample u none : Prog K S V V) := seedFree_draw1 u

/-- the hazard the `random_state` parameter of `systematic_resample` carries (and why no call inside the package may
    pass it — `C09_no_internal_param_seed`): with a seed given, the state afterwards is the same for ALL ambient states -/
theorem C09_syst_seeded_forgets (g : KGen K S V) (u : K) (n : Nat) (s s' : S) (pr : Option S) :
    run g (systematicResample u (some n)) ⟨s, pr⟩ = run g (systematicResample u (some n)) ⟨s', pr⟩ := by
  simp [systematicResample, run]

/-! ### the run -/

theorem seedFree_initFresh_none : SeedFree (initFresh none : Prog K S V Unit) := .ret _

/-- **Reproducibility of a fresh seeded run**: with `random_state = a` the whole run — final generator state, final
    data state (history, weights, evidence live there) and every value drawn — is the same whatever the ambient
    process-wide state was.  No assumption on the iteration program. -/
theorem C09_run_fresh_deterministic (g : KGen K S V) (a : Nat) (hh : A → Bool) (cont : A → Bool)
    (iter : A → Prog K S V A) (fuel : Nat) (d0 : A) (h0 : hh d0 = false) (s s' : S) (pr : Option S) :
    run g (runSampling (some a) none hh cont iter fuel d0) ⟨s, pr⟩ =
      run g (runSampling (some a) none hh cont iter fuel d0) ⟨s', pr⟩ := by
  simp [runSampling, h0, initFresh, Prog.bind, run]

/-- … and its innovations are exactly the stream of `a` from position 0: nothing skipped, nothing from elsewhere
    (needs the iterations to be seed-free, which is what the call-graph obligation on the regenerated table says) -/
theorem C09_run_fresh_log_is_stream (g : KGen K S V) (a : Nat) (hh : A → Bool) (cont : A → Bool) (iter : A → Prog K S V A)
    (hiter : ∀ d, SeedFree (iter d)) (fuel : Nat) (d0 : A) (h0 : hh d0 = false) (st : St S) :
    let o := run g (runSampling (some a) none hh cont iter fuel d0) st
    o.st.glob = advance g (gkinds o.log) (g.seed a) ∧ gvals o.log = emit g (gkinds o.log) (g.seed a) := by
  have := C09_seeded_log_is_stream g a (seedFree_iterate cont iter hiter fuel d0) st
  simpa [runSampling, h0, initFresh, Prog.bind] using this

/-- an UNSEEDED run (`random_state=None`) continues the ambient stream: it ends on the orbit of the ambient state -/
theorem C09_run_unseeded_on_orbit (g : KGen K S V) (hh : A → Bool) (cont : A → Bool) (iter : A → Prog K S V A)
    (hiter : ∀ d, SeedFree (iter d)) (fuel : Nat) (d0 : A) (st : St S) :
    let o := run g (runSampling none none hh cont iter fuel d0) st
    o.st.glob = advance g (gkinds o.log) st.glob ∧ gvals o.log = emit g (gkinds o.log) st.glob ∧ hasGseed o.log = false := by
  have := C09_seedfree_on_orbit g (seedFree_iterate cont iter hiter fuel d0) st
  cases h : hh d0 <;> simpa [runSampling, h, initFresh, Prog.bind] using this

/-- different seeds give different runs as soon as the first number the run draws distinguishes them
    (adaptive version of `C09_different_seeds_differ`; the first RNG event of a fresh run is the prior draw of the first
    warm-up iteration) -/
theorem C09_run_different_seeds_differ (g : KGen K S V) (a b : Nat) (hh : A → Bool) (cont : A → Bool) (k : K)
    (c : A → V → Prog K S V A) (fuel : Nat) (d0 : A) (h0 : hh d0 = false) (hc : cont d0 = true) (st : St S)
    (hfirst : (g.next k (g.seed a)).2 ≠ (g.next k (g.seed b)).2) :
    gvals (run g (runSampling (some a) none hh cont (fun d => .draw k (c d)) (fuel + 1) d0) st).log ≠
      gvals (run g (runSampling (some b) none hh cont (fun d => .draw k (c d)) (fuel + 1) d0) st).log := by
  simp only [runSampling, h0, Bool.false_eq_true, if_false, initFresh, Prog.bind, iterate, hc, if_true, run, Out.cons, gvals]
  intro h
  exact hfirst (List.cons.inj h).1

/-! ### checkpoint save / resume -/

/-- saving reads the position and nothing else: state unchanged, empty log, the checkpoint holds the current state -/
theorem C09_save_reads_position (g : KGen K S V) (d : A) (st : St S) :
    (run g (saveState d : Prog K S V _) st).st = st ∧ (run g (saveState d : Prog K S V _) st).log = [] ∧
    (run g (saveState d : Prog K S V _) st).res = ⟨some st.glob, d⟩ := by
  simp [saveState, run]

theorem seedFree_saveState (d : A) : SeedFree (saveState d : Prog K S V (Ckpt S A)) := .getst _ fun _ => .ret _

/-- the loop can be cut anywhere: `k + m` iterations = `k` iterations, then `m` more from where they stopped
    (if the loop condition fails early, the remaining fuel does nothing) -/
theorem run_iterate_add (g : KGen K S V) (cont : A → Bool) (iter : A → Prog K S V A) (k m : Nat) (d : A) (st : St S) :
    run g (iterate cont iter (k + m) d) st =
      ⟨(run g (iterate cont iter m (run g (iterate cont iter k d) st).res) (run g (iterate cont iter k d) st).st).st,
       (run g (iterate cont iter m (run g (iterate cont iter k d) st).res) (run g (iterate cont iter k d) st).st).res,
       (run g (iterate cont iter k d) st).log ++
         (run g (iterate cont iter m (run g (iterate cont iter k d) st).res) (run g (iterate cont iter k d) st).st).log⟩ := by
  induction k generalizing d st with
  | zero => simp [iterate, run]
  | succ k ih =>
    rw [Nat.succ_add]
    by_cases hc : cont d = true
    · simp only [iterate, hc, if_true, run_bind, ih, List.append_assoc]
    · have hm : ∀ m, iterate cont iter m d = .ret d := by
        intro m; cases m <;> simp [iterate, hc]
      simp [iterate, hc, run, hm]

/-- **A resumed run continues the writer's stream at the save point and reproduces the uninterrupted run.**
    The writer ran `k` iterations from `(st0, d0)` and saved; the checkpoint holds its generator state and data state.
    Whatever the ambient stream and the constructor's `random_state` at resume time, running `m` more iterations from the
    checkpoint ends in the same generator state and data state as the uninterrupted run of `k + m` iterations, and the log
    of the resumed run is one restore event followed by EXACTLY the part of the uninterrupted log that comes after the save
    point: nothing replayed, nothing skipped.  (`hpriv`: the private-generator slot is the same — in the package every
    `GaussianMixture` is a fresh object, so that slot never carries over.) -/
theorem C09_resume_continues_stream (g : KGen K S V) (rs : Option Nat) (hh : A → Bool) (cont : A → Bool) (iter : A → Prog K S V A)
    (k m : Nat) (d0 d0' : A) (st0 st' : St S)
    (hpriv : st'.priv = (run g (iterate cont iter k d0) st0).st.priv) :
    let w := run g (iterate cont iter k d0) st0                       -- the writer up to the save point
    let full := run g (iterate cont iter (k + m) d0) st0               -- the uninterrupted run
    let res := run g (runSampling rs (some ⟨some w.st.glob, w.res⟩) hh cont iter m d0') st'
    res.st = full.st ∧ res.res = full.res ∧ full.log = w.log ++ res.log.tail ∧ res.log.head? = some .grestore := by
  have hst : ({ st' with glob := (run g (iterate cont iter k d0) st0).st.glob } : St S) =
      (run g (iterate cont iter k d0) st0).st := by
    cases h : (run g (iterate cont iter k d0) st0).st
    cases st'
    simp_all
  simp only [runSampling, loadState, Prog.bind, run, Out.cons, hst, run_iterate_add g cont iter k m d0 st0,
    List.tail_cons, List.head?_cons, and_self]

/-- … in particular the numbers the resumed iterations receive are the segment of the writer's stream that starts at the
    save position: no innovation of the first `k` iterations is drawn again -/
theorem C09_resume_no_replay (g : KGen K S V) (rs : Option Nat) (hh : A → Bool) (cont : A → Bool) (iter : A → Prog K S V A)
    (hiter : ∀ d, SeedFree (iter d)) (k m : Nat) (d0 d0' : A) (st0 st' : St S) :
    let w := run g (iterate cont iter k d0) st0
    let res := run g (runSampling rs (some ⟨some w.st.glob, w.res⟩) hh cont iter m d0') st'
    gvals res.log = emit g (gkinds res.log) (advance g (gkinds w.log) st0.glob) := by
  have hw := (C09_seedfree_on_orbit g (seedFree_iterate cont iter hiter k d0) st0).1
  have := (C09_seedfree_on_orbit g (seedFree_iterate cont iter hiter m (run g (iterate cont iter k d0) st0).res)
    { st' with glob := (run g (iterate cont iter k d0) st0).st.glob }).2.1
  simp only [runSampling, loadState, Prog.bind, run, Out.cons, gvals, gkinds]
  rw [← hw]
  exact this

/-- the resumed run is a function of the checkpoint alone: ambient stream and constructor seed are irrelevant -/
theorem C09_run_resume_deterministic (g : KGen K S V) (sck : S) (rs rs' : Option Nat) (hh : A → Bool) (cont : A → Bool)
    (iter : A → Prog K S V A) (fuel : Nat) (d0 d0' dck : A) (s s' : S) (pr : Option S) :
    run g (runSampling rs (some ⟨some sck, dck⟩) hh cont iter fuel d0) ⟨s, pr⟩ =
      run g (runSampling rs' (some ⟨some sck, dck⟩) hh cont iter fuel d0') ⟨s', pr⟩ := by
  simp [runSampling, loadState, Prog.bind, run]

/-- a checkpoint WITHOUT a stored position (written before db2b14b) is resumed on the ambient stream: no seeding, no
    restore — the run ends on the orbit of the ambient state -/
theorem C09_run_resume_legacy_on_orbit (g : KGen K S V) (rs : Option Nat) (hh : A → Bool) (cont : A → Bool)
    (iter : A → Prog K S V A) (hiter : ∀ d, SeedFree (iter d)) (fuel : Nat) (d0 dck : A) (st : St S) :
    let o := run g (runSampling rs (some ⟨none, dck⟩) hh cont iter fuel d0) st
    o.st.glob = advance g (gkinds o.log) st.glob ∧ hasGseed o.log = false := by
  have := C09_seedfree_on_orbit g (seedFree_iterate cont iter hiter fuel dck) st
  simpa [runSampling, loadState, Prog.bind] using ⟨this.1, this.2.2⟩

/-- **The rule before db2b14b replayed the stream** (finding `F31_resume_replays_stream`, repaired).  The original run
    seeded with `a` and its first iteration drew `n` numbers of kind `k` (the prior batch `np.random.rand(N, D)`); the old
    resume reseeded with the stored `a`, so if the first resumed iteration also began with `n` draws of kind `k` (it did
    while the checkpointed state was still in warm-up) it received the very same `n` numbers: the resumed batch was a
    bit-for-bit copy of the first batch. -/
theorem C09_old_reseed_replays (g : KGen K S V) (a : Nat) (hh : A → Bool) (cont : A → Bool) (k : K) (n : Nat)
    (rest : A → List V → Prog K S V A) (fuel fuel' : Nat) (d0 dck : A) (h0 : hh d0 = false) (hc0 : cont d0 = true)
    (hck : cont dck = true) (st st' : St S) :
    (gvals (run g (runSampling (some a) none hh cont (fun d => (drawN k n).bind (rest d)) (fuel + 1) d0) st).log).take n =
      (gvals (run g (runSamplingOldResume (some a) cont (fun d => (drawN k n).bind (rest d)) (fuel' + 1) dck) st').log).take n := by
  have key : ∀ (d : A) (f : Nat) (hd : cont d = true) (s0 : St S),
      (gvals (run g (iterate cont (fun d => (drawN k n).bind (rest d)) (f + 1) d) s0).log).take n =
        emit g (List.replicate n k) s0.glob := by
    intro d f hd s0
    obtain ⟨_, _, _, h4, _, _⟩ := run_drawN (V := V) g k n s0
    simp only [iterate, hd, if_true]
    rw [run_bind_log, run_bind_log, gvals_append, gvals_append, h4, List.append_assoc, List.take_left']
    rw [emit_length, List.length_replicate]
  have e1 := key d0 fuel hc0 { st with glob := g.seed a }
  have e2 := key dck fuel' hck { st' with glob := g.seed a }
  simp only [runSampling, h0, Bool.false_eq_true, if_false, runSamplingOldResume, loadSeedOld, initFresh, Prog.bind, run,
    Out.cons, gvals]
  rw [e1, e2]

/-- two programs that seed with the same value and then begin with array draws of the same kind receive the same numbers,
    as far as the shorter of the two draws reaches — whatever else differs between them -/
theorem C09_same_seed_same_first_draws (g : KGen K S V) (a : Nat) (k : K) (n n' : Nat) (hn : n ≤ n')
    (f : List V → Prog K S V A) (f' : List V → Prog K S V B) (st st' : St S) :
    (gvals (run g (.seed a ((drawN k n).bind f)) st).log).take n =
      (gvals (run g (.seed a ((drawN k n').bind f')) st').log).take n := by
  obtain ⟨_, _, _, h4, _, _⟩ := run_drawN (V := V) g k n { st with glob := g.seed a }
  obtain ⟨_, _, _, h4', _, _⟩ := run_drawN (V := V) g k n' { st' with glob := g.seed a }
  simp only [run, Out.cons, gvals]
  rw [run_bind_log, run_bind_log, gvals_append, gvals_append, h4, h4']
  have hsplit : List.replicate n' k = List.replicate n k ++ List.replicate (n' - n) k := by
    rw [← List.replicate_add]; congr 1; omega
  rw [List.take_left' (by rw [emit_length, List.length_replicate]), hsplit, emit_append, List.append_assoc,
    List.take_left' (by rw [emit_length, List.length_replicate])]

/-- **Before aeb0399 a second `run()` of a seeded sampler restarted the stream** (finding `F34_rerun_reseeds_stream`,
    repaired): the no-resume branch of `run_sampling` seeded unconditionally, also when the sampler already held a history —
    after a first `run()`, or after `load_state()`, the documented way to continue from a manual checkpoint.  The first run
    began with `n` draws of kind `k` (the prior batch), the second with `n' ≥ n` draws of the same kind (the training resample
    `np.random.choice(…, size=4·pool, p=w)`): the second run received again the `n` numbers that made the first batch. -/
theorem C09_rerun_replays_stream_old (g : KGen K S V) (a : Nat) (cont : A → Bool) (k : K) (n n' : Nat) (hn : n ≤ n')
    (rest rest' : A → List V → Prog K S V A) (fuel fuel' : Nat) (d0 d1 : A) (hc0 : cont d0 = true) (hc1 : cont d1 = true)
    (st st' : St S) :
    (gvals (run g (runSamplingOldFresh (some a) cont (fun d => (drawN k n).bind (rest d)) (fuel + 1) d0) st).log).take n =
      (gvals (run g (runSamplingOldFresh (some a) cont (fun d => (drawN k n').bind (rest' d)) (fuel' + 1) d1) st').log).take n := by
  have h := C09_same_seed_same_first_draws g a k n n' hn
    (fun vs => (rest d0 vs).bind (iterate cont (fun d => (drawN k n).bind (rest d)) fuel))
    (fun vs => (rest' d1 vs).bind (iterate cont (fun d => (drawN k n').bind (rest' d)) fuel')) st st'
  have e : ∀ (p : Prog K S V (List V)) (f1 : List V → Prog K S V A) (f2 : A → Prog K S V A),
      (p.bind f1).bind f2 = p.bind fun x => (f1 x).bind f2 := by
    intro p f1 f2
    induction p with
    | ret r => rfl
    | draw k c ih => simp [Prog.bind, ih]
    | seed n c ih => simp [Prog.bind, ih]
    | pnew n c ih => simp [Prog.bind, ih]
    | pdraw k c ih => simp [Prog.bind, ih]
    | getst c ih => simp [Prog.bind, ih]
    | setst s c ih => simp [Prog.bind, ih]
  simpa [runSamplingOldFresh, initFresh, Prog.bind, iterate, hc0, hc1, e] using h

/-- **A run seeds only before the first committed batch**: a `run()` that finds a history (a state was loaded, or a finished
    run is extended) does not seed and does not restore — it continues the stream it finds, whatever `random_state` is -/
theorem C09_run_with_history_continues (g : KGen K S V) (rs : Option Nat) (hh : A → Bool) (cont : A → Bool)
    (iter : A → Prog K S V A) (hiter : ∀ d, SeedFree (iter d)) (fuel : Nat) (d0 : A) (h0 : hh d0 = true) (st : St S) :
    let o := run g (runSampling rs none hh cont iter fuel d0) st
    o.st.glob = advance g (gkinds o.log) st.glob ∧ gvals o.log = emit g (gkinds o.log) st.glob ∧ hasGseed o.log = false := by
  have := C09_seedfree_on_orbit g (seedFree_iterate cont iter hiter fuel d0) st
  simpa [runSampling, h0] using this

/-- the manual flow of the user guide, `load_state(path); run()`, IS `run(resume_state_path=path)`: same streams, same data,
    same log (the loaded data state holds a history, so `run()` takes the continue branch) -/
theorem C09_load_then_run_is_resume (g : KGen K S V) (rs : Option Nat) (hh : A → Bool) (cont : A → Bool)
    (iter : A → Prog K S V A) (fuel : Nat) (ck : Ckpt S A) (d0 : A) (hck : hh ck.data = true) (st : St S) :
    run g ((loadState ck.rng).bind fun _ => runSampling rs none hh cont iter fuel ck.data) st =
      run g (runSampling rs (some ck) hh cont iter fuel d0) st := by
  simp [runSampling, hck]

/-- extending a finished run: `run()` for `k` iterations and `run()` again for `m` more (the data state now holds a history)
    is the single run of `k + m` iterations — same final streams and data, logs concatenated, nothing replayed -/
theorem C09_second_run_continues (g : KGen K S V) (rs : Option Nat) (hh : A → Bool) (cont : A → Bool)
    (iter : A → Prog K S V A) (k m : Nat) (d0 : A) (st : St S)
    (h1 : hh (run g (runSampling rs none hh cont iter k d0) st).res = true) :
    let first := run g (runSampling rs none hh cont iter k d0) st
    let second := run g (runSampling rs none hh cont iter m first.res) first.st
    let single := run g (runSampling rs none hh cont iter (k + m) d0) st
    second.st = single.st ∧ second.res = single.res ∧ single.log = first.log ++ second.log := by
  cases h0 : hh d0
  · -- fresh first run: seeding, then the loop
    simp only [runSampling, h0, Bool.false_eq_true, if_false] at h1 ⊢
    simp only [run_bind] at h1 ⊢
    simp only [h1, if_true, run_iterate_add g cont iter k m d0, List.append_assoc, and_self]
  · simp only [runSampling, h0, if_true] at h1 ⊢
    simp only [h1, if_true, run_iterate_add g cont iter k m d0 st, and_self]

/-- … whereas under the present rule the first numbers of the resumed run are the writer's stream AFTER the save point:
    with a generator that does not cycle, they start from a state different from the seed state whenever the writer drew -/
theorem C09_resume_starts_at_save_position (g : KGen K S V) (rs : Option Nat) (hh : A → Bool) (cont : A → Bool)
    (iter : A → Prog K S V A) (k m : Nat) (d0 d0' : A) (st0 st' : St S) :
    let w := run g (iterate cont iter k d0) st0
    ∀ l, (run g (runSampling rs (some ⟨some w.st.glob, w.res⟩) hh cont iter m d0') st').log = .grestore :: l →
      l = (run g (iterate cont iter m w.res) { st' with glob := w.st.glob }).log := by
  intro w l h
  simp only [runSampling, loadState, Prog.bind, run, Out.cons] at h
  exact (List.cons.inj h).2.symm

/-! ### successive iterations: consecutive, disjoint segments of one stream -/

/-- the logs of the successive iterations of `iterateN` -/
def iterLogs (g : KGen K S V) (iter : A → Prog K S V A) : Nat → A → St S → List (List (Ev K V))
  | 0, _, _ => []
  | n + 1, d, st => (run g (iter d) st).log :: iterLogs g iter n (run g (iter d) st).res (run g (iter d) st).st

theorem iterLogs_length (g : KGen K S V) (iter : A → Prog K S V A) (n : Nat) (d : A) (st : St S) :
    (iterLogs g iter n d st).length = n := by
  induction n generalizing d st with
  | zero => rfl
  | succ n ih => simp [iterLogs, ih]

theorem run_iterateN_log (g : KGen K S V) (iter : A → Prog K S V A) (n : Nat) (d : A) (st : St S) :
    (run g (iterateN iter n d) st).log = (iterLogs g iter n d st).flatten := by
  induction n generalizing d st with
  | zero => simp [iterateN, run, iterLogs]
  | succ n ih => simp [iterateN, run_bind, run, iterLogs, ih]

/-- **Successive iterations never replay**: in a run whose iterations do not seed, iteration `i` receives the segment of
    the stream that starts where iterations `0 … i-1` stopped (offset = the number of requests they consumed) and is as long
    as what it consumes itself.  Segments of different iterations are therefore consecutive and disjoint. -/
theorem C09_iterations_consume_consecutive_segments (g : KGen K S V) (iter : A → Prog K S V A)
    (hiter : ∀ d, SeedFree (iter d)) (n : Nat) (d : A) (st : St S) (i : Nat) (hi : i < n) :
    let logs := iterLogs g iter n d st
    gvals (logs[i]'(by rw [iterLogs_length]; exact hi)) =
      emit g (gkinds (logs[i]'(by rw [iterLogs_length]; exact hi)))
        (advance g (gkinds (logs.take i).flatten) st.glob) := by
  induction n generalizing d st i with
  | zero => omega
  | succ n ih =>
    obtain ⟨h1, h2, _⟩ := C09_seedfree_on_orbit g (hiter d) st
    cases i with
    | zero => simpa [iterLogs, advance, gkinds] using h2
    | succ i =>
      have := ih (run g (iter d) st).res (run g (iter d) st).st i (by omega)
      simp only [iterLogs, List.getElem_cons_succ, List.take_succ_cons, List.flatten_cons, gkinds_append, advance_append]
      rw [← h1]
      exact this

/-- generator states at which the successive iterations start -/
def iterStarts (g : KGen K S V) (iter : A → Prog K S V A) : Nat → A → St S → List S
  | 0, _, _ => []
  | n + 1, d, st => st.glob :: iterStarts g iter n (run g (iter d) st).res (run g (iter d) st).st

theorem iterStarts_eq (g : KGen K S V) (iter : A → Prog K S V A) (hiter : ∀ d, SeedFree (iter d)) (n : Nat) (d : A)
    (st : St S) (i : Nat) (hi : i < n) :
    (iterStarts g iter n d st)[i]? = some (advance g (gkinds ((iterLogs g iter n d st).take i).flatten) st.glob) := by
  induction n generalizing d st i with
  | zero => omega
  | succ n ih =>
    cases i with
    | zero => simp [iterStarts, advance, gkinds]
    | succ i =>
      have := ih (run g (iter d) st).res (run g (iter d) st).st i (by omega)
      simp only [iterStarts, iterLogs, List.getElem?_cons_succ, List.take_succ_cons, List.flatten_cons, gkinds_append,
        advance_append]
      rw [← (C09_seedfree_on_orbit g (hiter d) st).1]
      exact this

theorem take_flatten_prefix {α : Type} (L : List (List α)) (i : Nat) :
    (L.take i).flatten = L.flatten.take ((L.take i).flatten.length) := by
  have h : L.flatten = (L.take i).flatten ++ (L.drop i).flatten := by
    rw [← List.flatten_append, List.take_append_drop]
  rw [h]
  exact (List.take_left' rfl).symm

theorem flatten_take_length_lt {α : Type} (L : List (List α)) (i j : Nat) (hij : i < j) (hj : j ≤ L.length)
    (hpos : ∀ x ∈ L, x ≠ []) : ((L.take i).flatten).length < ((L.take j).flatten).length := by
  induction L generalizing i j with
  | nil => simp at hj; omega
  | cons x L ih =>
    cases j with
    | zero => omega
    | succ j =>
      have hx : 0 < x.length := List.length_pos_iff.mpr (hpos x (by simp))
      cases i with
      | zero => simp; omega
      | succ i =>
        have := ih i j (by omega) (by simpa using hj) (fun y hy => hpos y (by simp [hy]))
        simp only [List.take_succ_cons, List.flatten_cons, List.length_append]
        omega

/-- … and if, in addition, every iteration draws at least once and the stream does not return to an earlier state
    within the requests the run consumes (true of MT19937 for any feasible run: period 2^19937−1), then no two iterations
    start from the same generator state — none can receive the numbers an earlier one received. -/
theorem C09_iteration_starts_distinct (g : KGen K S V) (iter : A → Prog K S V A) (hiter : ∀ d, SeedFree (iter d))
    (n : Nat) (d : A) (st : St S)
    (hdraws : ∀ l ∈ iterLogs g iter n d st, gkinds l ≠ [])
    (hnocycle : ∀ p q, p < q → q ≤ (gkinds (iterLogs g iter n d st).flatten).length →
      advance g ((gkinds (iterLogs g iter n d st).flatten).take p) st.glob ≠
        advance g ((gkinds (iterLogs g iter n d st).flatten).take q) st.glob)
    (i j : Nat) (hij : i < j) (hj : j < n) :
    (iterStarts g iter n d st)[i]? ≠ (iterStarts g iter n d st)[j]? := by
  rw [iterStarts_eq g iter hiter n d st i (by omega), iterStarts_eq g iter hiter n d st j hj]
  have hmap : ∀ (L : List (List (Ev K V))), gkinds L.flatten = (L.map gkinds).flatten := by
    intro L; induction L with
    | nil => rfl
    | cons x L ih => simp [gkinds_append, ih]
  set L := iterLogs g iter n d st with hL
  have hlen : L.length = n := iterLogs_length g iter n d st
  have hpos : ∀ x ∈ L.map gkinds, x ≠ [] := by
    intro x hx; obtain ⟨l, hl, rfl⟩ := List.mem_map.mp hx; exact hdraws l hl
  have e : ∀ t, gkinds (L.take t).flatten = (gkinds L.flatten).take (((L.map gkinds).take t).flatten.length) := by
    intro t
    rw [hmap, hmap, List.map_take]
    exact take_flatten_prefix _ _
  rw [e i, e j]
  intro h
  have hlt := flatten_take_length_lt (L.map gkinds) i j hij (by simp [hlen]; omega) hpos
  refine hnocycle _ _ hlt ?_ (Option.some.inj h)
  rw [hmap]
  have hsplit : (L.map gkinds).flatten = ((L.map gkinds).take j).flatten ++ ((L.map gkinds).drop j).flatten := by
    rw [← List.flatten_append, List.take_append_drop]
  rw [hsplit, List.length_append]
  omega

/-! ### non-vacuity -/

/-- a toy generator: linear congruential state, the value handed out is the old state mod 4 -/
def lcgK : KGen Unit Nat Nat := ⟨fun _ s => ((5 * s + 3) % 16, s % 4), fun k => k % 16⟩

/-- an adaptive program: draws once more when the first value is 0 -/
def adaptiveEx : Prog Unit Nat Nat Nat := .draw () fun v => if v = 0 then .draw () fun w => .ret (v + w) else .ret v

example : SeedFree adaptiveEx := by
  refine .draw _ _ fun v => ?_
  split
  · exact .draw _ _ fun _ => .ret _
  · exact .ret _
-- the two ambient states 4 and 1 take different branches (2 draws / 1 draw), each ends on its own orbit
example : gkinds (run lcgK adaptiveEx ⟨4, none⟩).log = [(), ()] ∧ gkinds (run lcgK adaptiveEx ⟨1, none⟩).log = [()] := by decide
example : (run lcgK adaptiveEx ⟨4, none⟩).st.glob = advance lcgK [(), ()] 4 := by decide
-- seeded: same result from ambient states 4 and 1
example : (run lcgK (.seed 7 adaptiveEx) ⟨4, none⟩).log = (run lcgK (.seed 7 adaptiveEx) ⟨1, none⟩).log ∧
    (run lcgK (.seed 7 adaptiveEx) ⟨4, none⟩).res = (run lcgK (.seed 7 adaptiveEx) ⟨1, none⟩).res ∧
    (run lcgK (.seed 7 adaptiveEx) ⟨4, none⟩).st.glob = (run lcgK (.seed 7 adaptiveEx) ⟨1, none⟩).st.glob := by decide
-- a fit with random_state: process-wide state untouched, two private values; without: two process-wide values
example : (run lcgK (gmmFit () (some 42) 1 2) ⟨5, none⟩).st.glob = 5 ∧
    (pvals (run lcgK (gmmFit () (some 42) 1 2) ⟨5, none⟩).log).length = 2 := by decide
example : gkinds (run lcgK (gmmFit () none 1 2) ⟨5, none⟩).log = [(), ()] := by decide
-- the OLD resume rule: the run resumed with the stored seed 7 drew the numbers the fresh run drew first
example :
    (gvals (run lcgK (runSampling (some 7) none (fun d => 0 < d) (fun d => d < 3) (fun d => (drawN () 2).bind fun _ => .ret (d + 1)) 5 0) ⟨1, none⟩).log).take 2
      = (gvals (run lcgK (runSamplingOldResume (some 7) (fun d => d < 3) (fun d => (drawN () 2).bind fun _ => .ret (d + 1)) 5 2) ⟨9, none⟩).log).take 2 := by
  decide
-- the present rule: save after 1 iteration, resume for 2 more = the uninterrupted 3 iterations (state, result, log suffix)
example :
    let it : Nat → Prog Unit Nat Nat Nat := fun d => (drawN () 2).bind fun _ => .ret (d + 1)
    let w := run lcgK (iterate (fun d => d < 3) it 1 0) ⟨7, none⟩
    let full := run lcgK (iterate (fun d => d < 3) it 3 0) ⟨7, none⟩
    let res := run lcgK (runSampling none (some ⟨some w.st.glob, w.res⟩) (fun d => 0 < d) (fun d => d < 3) it 2 0) ⟨9, none⟩
    res.st.glob = full.st.glob ∧ res.res = full.res ∧ full.log = w.log ++ res.log.tail := by decide
-- extending a finished run: seeded run for 1 iteration, `run()` again for 2 more (history non-empty: no seeding) = one run of 3
example :
    let it : Nat → Prog Unit Nat Nat Nat := fun d => (drawN () 2).bind fun _ => .ret (d + 1)
    let first := run lcgK (runSampling (some 7) none (fun d => 0 < d) (fun d => d < 3) it 1 0) ⟨1, none⟩
    let second := run lcgK (runSampling (some 7) none (fun d => 0 < d) (fun d => d < 3) it 2 first.res) first.st
    let single := run lcgK (runSampling (some 7) none (fun d => 0 < d) (fun d => d < 3) it 3 0) ⟨1, none⟩
    second.st.glob = single.st.glob ∧ second.res = single.res ∧ single.log = first.log ++ second.log ∧
      hasGseed second.log = false := by decide
-- successive iterations: positions 0, 2, 4 of one stream
example : iterStarts lcgK (fun d => (drawN () 2).bind fun _ => .ret (d + 1)) 3 0 ⟨1, none⟩ = [1, advance lcgK [(), ()] 1, advance lcgK [(), (), (), ()] 1] := by
  decide

end Props.C09
