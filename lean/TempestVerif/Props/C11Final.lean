import TempestVerif.Props.C11Pipeline
import TempestVerif.Lemmas.MIS
import Mathlib.Tactic
/-
  C11 (second pass) — clause 4, "the final evidence converges to the integral over the supported region".

  What the executable model computes, and what its infinite-particle (mean-field) limit is:

    C11_weight_is_mfW                 the weight the code's model gives a stored particle with log-likelihood ℓ
                                      (`exp (specRaw h β ℓ)`, C04's theorem about `compute_logw_and_logz`) is the
                                      mean-field weight `mfW` of `Lemmas.MIS` with the RECORDED normalisers `exp logz_t`
                                      — no exactness assumed (C01's bridge assumed `logz_t = log Z_{β_t}`)
    C11_final_evidence_is_pool_mean   `Model.Pipeline.finalEvidence` (the epilogue of `run_sampling`) is the log of the
                                      EMPIRICAL pool mean of that weight at β = 1: the estimator is the empirical version
                                      of the functional `mfZ`
    C11_meanfield_supported           the mean-field recursion on the supported region Ω⁺ = {L > 0}, started from the
                                      warm-up batch "prior restricted to Ω⁺, recorded normaliser p(Ω⁺)" (what
                                      `C11_stored_law_is_piB0` / `C11_first_batch_is_Z0` deliver), any number of further
                                      warm-up and annealing steps with invariant kernels: every batch stays exact and the
                                      final evidence `mfZ(β = 1)` is EXACTLY `Σ_Ω p·L` — the integral over the supported
                                      region, which is the whole integral
    C11_final_tracks_warmup_evidence  "counted once" is what clause 4 needs: on a history of warm-up batches with ANY
                                      recorded normalisers z_t the evidence functional at β is
                                      `reweightZ[(n_t, z_t)] / Z_0 · Z_β` — the relative error of the final evidence IS
                                      the relative error of the (harmonic-mean) warm-up evidence of `Model.Warmup`
    C11_final_double_counted          the repaired defect F7 seen from the end of the run: recording `f²` instead of `f`
                                      multiplies the evidence functional by `f`
    C11_final_envelope                with the counted-once envelope `C11_once`: batch fractions in [lo, hi] ⇒ the evidence
                                      functional lies in `[lo, hi] / Z_0 · Z_β`

  Still not a theorem: that the FINITE adaptive particle system approaches the mean-field recursion (propagation of
  chaos); see clauses/C11.md row 4.
-/
namespace Props.C11
open Lemmas.MIS Model.Warmup Model.Weights Model.Pipeline Finset

/-! ### the executable estimator is the empirical version of `mfZ` -/

/-- the stored history as mean-field batches over the "state space" of log-likelihood values: size, temperature,
    RECORDED normaliser `exp logz_t` (the law field plays no role in the weight) -/
noncomputable def toM (h : List (Batch ℝ)) : List (MBatch ℝ) :=
  h.map fun b => ⟨(b.logl.length : ℝ), b.beta, fun _ => 0, Real.exp b.logz⟩

theorem poolN_toM (h : List (Batch ℝ)) : poolN (toM h) = (nTotal h : ℝ) := by
  simp [poolN, toM, nTotal, Nat.cast_list_sum, List.map_map, Function.comp_def]

theorem mix_is_mfDen (h : List (Batch ℝ)) (l : ℝ) : Props.C04.mix h l = mfDen Real.exp (toM h) l := by
  unfold Props.C04.mix mfDen
  rw [poolN_toM]
  simp only [toM, List.map_map]
  congr 1
  apply List.map_congr_left
  intro b _
  simp only [Function.comp_apply]
  rw [Real.exp_sub, ← Real.exp_mul, mul_comm l b.beta]

/-- C11 (the weight of the code's model is the mean-field weight with the recorded normalisers): for a stored particle with
    log-likelihood `ℓ`, `exp (β ℓ − log Σ_t (n_t/N) exp(β_t ℓ − logz_t)) = L^β / Σ_t (n_t/N) L^{β_t}/z_t` with `L = exp ℓ`,
    `z_t = exp logz_t` -/
theorem C11_weight_is_mfW (h : List (Batch ℝ)) (hwf : Props.C04.WF h) (β l : ℝ) :
    Real.exp (Props.C04.specRaw h β l) = mfW Real.exp (toM h) β l := by
  unfold Props.C04.specRaw mfW
  rw [Real.exp_sub, Real.exp_log (Props.C04.mix_pos h hwf l), mix_is_mfDen, ← Real.exp_mul, mul_comm l β]

/-- C11 (what the final evidence IS): the value `run_sampling` reports (`compute_logw_and_logz(1.0)[1]` over the final
    history, `Model.Pipeline.finalEvidence`) is the log of the empirical mean, over all stored particles, of the
    mixture-importance weight at β = 1 with the recorded normalisers -/
theorem C11_final_evidence_is_pool_mean (s : PState ℝ) (hwf : Props.C04.WF (batches s.hist)) :
    finalEvidence s = some (Real.log ((1 / (nTotal (batches s.hist) : ℝ)) *
      ((flatLogl (batches s.hist)).map fun l => mfW Real.exp (toM (batches s.hist)) 1 l).sum)) := by
  unfold finalEvidence
  simp only [ScReal.one_def]
  rw [Props.C04.C04_logz _ hwf 1 true]
  unfold Props.C04.specLogz Props.C04.sumW
  congr 4
  apply List.map_congr_left
  intro l _
  exact C11_weight_is_mfW _ hwf 1 l

/-! ### the mean-field recursion on the supported region -/

section meanfield
variable {Ω : Type} [Fintype Ω]

/-- the sum of `p · L` over the supported region is the sum over the whole space (the likelihood vanishes elsewhere) -/
theorem supported_sum (p L h : Ω → ℝ) (hL : ∀ x, 0 ≤ L x) :
    ∑ x : {x : Ω // 0 < L x}, p x.1 * L x.1 * h x.1 = ∑ x, p x * L x * h x := by
  classical
  rw [← Finset.sum_subtype (Finset.univ.filter fun y : Ω => 0 < L y) (by simp) (fun y : Ω => p y * L y * h y),
    Finset.sum_filter]
  refine Finset.sum_congr rfl fun y _ => ?_
  by_cases hy : 0 < L y
  · simp [hy]
  · have : L y = 0 := le_antisymm (not_lt.mp hy) (hL y)
    simp [this]

/-- C11 (final evidence, mean-field limit): restrict to the supported region `S = {L > 0}`.  Start from ONE warm-up batch
    whose particles have the prior restricted to `S` (`piB p' L' 0`) and whose recorded normaliser is the supported prior
    mass `Σ_S p` — counted once.  Run ANY list of further steps (β, kernel, size) — more warm-up steps at β = 0, annealing
    steps at any β — each with a kernel that leaves `π_β` on `S` invariant.  Then every committed batch is exact (law
    `π_{β_t}` on `S`, recorded normaliser `Z_{β_t}`), and the evidence functional at β = 1 is EXACTLY `Σ_Ω p·L`: the integral
    over the supported region, which is the whole integral. -/
theorem C11_meanfield_supported (p L : Ω → ℝ) (hp : ∀ x, 0 ≤ p x) (hsupp : ∃ x, 0 < L x ∧ 0 < p x) (hL : ∀ x, 0 ≤ L x)
    (n0 : ℝ) (hn0 : 0 < n0)
    (steps : List (ℝ × ({x : Ω // 0 < L x} → {x : Ω // 0 < L x} → ℝ) × ℝ))
    (hst : ∀ st ∈ steps,
      Invariant (piB (fun x : {x : Ω // 0 < L x} => p x.1) (fun x => L x.1) st.1) st.2.1 ∧ 0 < st.2.2) :
    let S := {x : Ω // 0 < L x}
    let p' : S → ℝ := fun x => p x.1
    let L' : S → ℝ := fun x => L x.1
    let h0 : List (MBatch S) := [⟨n0, 0, piB p' L' 0, ∑ x : S, p x.1⟩]
    (∀ b ∈ mfRun L' h0 steps, Exact p' L' b) ∧
    mfZ L' (mfRun L' h0 steps) 1 = ∑ x, p x * L x := by
  intro S p' L' h0
  obtain ⟨x0, hx0L, hx0p⟩ := hsupp
  have hp' : ∀ x : S, 0 ≤ p' x := fun x => hp x.1
  have hp1 : ∃ x : S, 0 < p' x := ⟨⟨x0, hx0L⟩, hx0p⟩
  have hL' : ∀ x : S, 0 < L' x := fun x => x.2
  have hex0 : ∀ b ∈ h0, Exact p' L' b := by
    intro b hb
    simp only [h0, List.mem_singleton] at hb
    subst hb
    exact ⟨hn0, rfl, (Zf_zero p' L').symm⟩
  have hex := mfRun_exact p' L' hp' hp1 hL' steps h0 (by simp [h0]) hex0 hst
  refine ⟨hex, ?_⟩
  have hne : mfRun L' h0 steps ≠ [] := by
    have : ∀ (st : List (ℝ × (S → S → ℝ) × ℝ)) (h : List (MBatch S)), h ≠ [] → mfRun L' h st ≠ [] := by
      intro st
      induction st with
      | nil => intro h hh; simpa [mfRun] using hh
      | cons a st ih =>
        intro h _
        obtain ⟨β, K, n⟩ := a
        simp only [mfRun]
        exact ih _ (by simp [mfStep])
    exact this steps h0 (by simp [h0])
  rw [mfZ_exact p' L' hp' hp1 hL' _ hne hex 1]
  unfold Zf gam
  have := supported_sum p L (fun _ => 1) hL
  simp only [mul_one] at this
  rw [← this]
  refine Finset.sum_congr rfl fun x _ => ?_
  simp [p', L']

/-! ### "counted once" is what the final evidence needs -/

/-- a history of warm-up batches only: sizes and RECORDED normalisers `rec = [(n_t, z_t)]`, particles with law `π0` -/
noncomputable def warmHist (π0 : Ω → ℝ) (rec : List (Nat × ℝ)) : List (MBatch Ω) :=
  rec.map fun r => ⟨(r.1 : ℝ), 0, π0, r.2⟩

omit [Fintype Ω] in
theorem poolN_warmHist (π0 : Ω → ℝ) (rec : List (Nat × ℝ)) : poolN (warmHist π0 rec) = (total rec : ℝ) := by
  rw [total_cast]
  simp [poolN, warmHist, List.map_map, Function.comp_def]

theorem total_pos_of (rec : List (Nat × ℝ)) (hne : rec ≠ []) (hn : ∀ r ∈ rec, 0 < r.1) : 0 < total rec := by
  rw [total_eq]
  cases rec with
  | nil => exact absurd rfl hne
  | cons x l => have := hn x (by simp); simp; omega

/-- C11 (clause 3 ⇒ clause 4): on a history of warm-up batches — particles distributed as the restricted prior
    `π_0 = piB p L 0`, normalisers recorded as ANY `z_t` — the evidence functional at β is
    `reweightZ rec / Z_0 · Z_β`, where `reweightZ` is the harmonic-mean estimate of `Model.Warmup` (the model of the
    reweighting step that the suite `warmup-evidence` ties to the real sampler).  So the relative error of the evidence the
    annealing phase starts from IS the relative error of the recorded warm-up evidence. -/
theorem C11_final_tracks_warmup_evidence (p L : Ω → ℝ) (rec : List (Nat × ℝ)) (hne : rec ≠ [])
    (hn : ∀ r ∈ rec, 0 < r.1) (β : ℝ) :
    mfZ L (warmHist (piB p L 0) rec) β = reweightZ rec / Zf p L 0 * Zf p L β := by
  have hT : (0 : ℝ) < (total rec : ℝ) := by exact_mod_cast total_pos_of rec hne hn
  have hemp : rec.isEmpty = false := by cases rec <;> simp_all
  -- pool law = π0
  have hpl : ∀ x, poolLaw (warmHist (piB p L 0) rec) x = piB p L 0 x := by
    intro x
    unfold poolLaw
    rw [poolN_warmHist]
    simp only [warmHist, List.map_map, Function.comp_def]
    rw [List.sum_map_mul_right]
    have : (rec.map fun r => (r.1 : ℝ) / (total rec : ℝ)).sum = 1 := by
      have h1 : (rec.map fun r => (r.1 : ℝ) / (total rec : ℝ)).sum
          = (rec.map fun r => (r.1 : ℝ)).sum / (total rec : ℝ) := by
        rw [div_eq_mul_inv, ← List.sum_map_mul_right]
        congr 1
      rw [h1, ← total_cast]; exact div_self hT.ne'
    rw [this, one_mul]
  -- mixture denominator = Σ_t (n_t/N)/z_t, the same for every x
  have hden : ∀ x, mfDen L (warmHist (piB p L 0) rec) x = S (total rec : ℝ) rec := by
    intro x
    unfold mfDen S
    rw [poolN_warmHist]
    simp only [warmHist, List.map_map, Function.comp_def, Real.rpow_zero]
    congr 1
    apply List.map_congr_left
    intro r _
    ring
  have hrz : reweightZ rec = 1 / S (total rec : ℝ) rec := by
    simp only [reweightZ, hemp, Bool.false_eq_true, if_false, invMix_eq, ScReal.div_def, ScReal.one_def]
  unfold mfZ
  simp_rw [hpl, mfW, hden]
  rw [hrz]
  unfold Zf piB gam
  simp only [Real.rpow_zero, mul_one]
  rw [Finset.mul_sum]
  refine Finset.sum_congr rfl fun x _ => ?_
  unfold Zf gam
  simp only [Real.rpow_zero, mul_one]
  ring

/-- C11 (the repaired defect F7, seen from the final evidence): two warm-up batches of equal size that both show the
    fraction `f`.  Recording `f, f` (the current rule) gives the evidence functional `f/Z_0 · Z_β` (= `Z_β` when
    `f = Z_0`); recording `f, f²` (the old compounding rule, `Model.Warmup.batchZOld`) gives `2f/(1+f) · f/Z_0 · Z_β`,
    too small by the factor `2f/(1+f) < 1` -/
theorem C11_final_double_counted (p L : Ω → ℝ) (n : Nat) (hn : 0 < n) (f : ℝ) (hf : 0 < f) (β : ℝ) :
    mfZ L (warmHist (piB p L 0) [(n, f), (n, f)]) β = f / Zf p L 0 * Zf p L β ∧
    mfZ L (warmHist (piB p L 0) [(n, f), (n, f * f)]) β = (2 * f / (1 + f)) * (f / Zf p L 0 * Zf p L β) := by
  have hnr : (n : ℝ) ≠ 0 := by exact_mod_cast hn.ne'
  have hnn : ((n : ℝ) + n) ≠ 0 := by
    have : (0 : ℝ) < n := by exact_mod_cast hn
    linarith
  constructor
  · rw [C11_final_tracks_warmup_evidence p L _ (by simp) (by intro r hr; simp at hr; obtain rfl := hr; exact hn)]
    have : reweightZ [(n, f), (n, f)] = f := by
      simp only [reweightZ, List.isEmpty_cons, Bool.false_eq_true, if_false, invMix_eq, S, total_cast, ScReal.div_def,
        ScReal.one_def, List.map_cons, List.map_nil, List.sum_cons, List.sum_nil, add_zero]
      field_simp
    rw [this]
  · rw [C11_final_tracks_warmup_evidence p L _ (by simp) (by intro r hr; simp at hr; rcases hr with rfl | rfl <;> exact hn)]
    have : reweightZ [(n, f), (n, f * f)] = 2 * f / (1 + f) * f := by
      simp only [reweightZ, List.isEmpty_cons, Bool.false_eq_true, if_false, invMix_eq, S, total_cast, ScReal.div_def,
        ScReal.one_def, List.map_cons, List.map_nil, List.sum_cons, List.sum_nil, add_zero]
      have h1 : (1 : ℝ) + f ≠ 0 := by linarith
      field_simp
      ring
    rw [this]; ring

/-- the whole warm-up history of `Model.Warmup.run` satisfies the envelope invariant (sizes positive, values in [lo, hi]) -/
theorem run_Inv_first (lo hi : ℝ) (hlo : 0 < lo) (n nfin : Nat) (hfirst : nfin < n) (rest : List (Nat × Nat))
    (hb : ∀ b ∈ (n, nfin) :: rest, BatchOk lo hi b) : Inv lo hi (run batchZ [] ((n, nfin) :: rest)) := by
  have h0 := hb (n, nfin) (by simp)
  have hz : batchZ ([] : List (Nat × ℝ)) n nfin = (nfin : ℝ) / (n : ℝ) := by simp [batchZ, hfirst]
  have hinv : Inv lo hi [(n, batchZ ([] : List (Nat × ℝ)) n nfin)] := by
    intro c hc; simp at hc; subst hc
    rw [hz]; exact ⟨h0.1, h0.2 hfirst⟩
  have := run_inv lo hi hlo rest _ (by simp) hinv (fun b hb' => hb b (by simp [hb']))
  simpa [run] using this

theorem run_ne_nil (bz : List (Nat × ℝ) → Nat → Nat → ℝ) (bs : List (Nat × Nat)) :
    ∀ h : List (Nat × ℝ), h ≠ [] → run bz h bs ≠ [] := by
  induction bs with
  | nil => intro h hh; simpa [run] using hh
  | cons b bs ih => intro h _; obtain ⟨n, nfin⟩ := b; simp only [run]; exact ih _ (by simp)

/-- C11 (2b + 3 + 4 together): let the first warm-up batch have −inf draws and let every batch with −inf draws show a
    finite fraction in `[lo, hi]`.  Then, whatever the number of warm-up iterations and the batch sizes, the evidence
    functional over the recorded warm-up history at any β lies in `[lo, hi] / Z_0 · Z_β` — in particular it is exactly
    `Z_β` when `lo = hi = Z_0` -/
theorem C11_final_envelope (p L : Ω → ℝ) (hp : ∀ x, 0 ≤ p x) (hL : ∀ x, 0 ≤ L x) (hZ0 : 0 < Zf p L 0)
    (lo hi : ℝ) (hlo : 0 < lo) (n nfin : Nat) (hfirst : nfin < n) (rest : List (Nat × Nat))
    (hb : ∀ b ∈ (n, nfin) :: rest, BatchOk lo hi b) (β : ℝ) :
    lo / Zf p L 0 * Zf p L β ≤ mfZ L (warmHist (piB p L 0) (run batchZ [] ((n, nfin) :: rest))) β ∧
    mfZ L (warmHist (piB p L 0) (run batchZ [] ((n, nfin) :: rest))) β ≤ hi / Zf p L 0 * Zf p L β := by
  have hinv := run_Inv_first lo hi hlo n nfin hfirst rest hb
  have hne : run batchZ ([] : List (Nat × ℝ)) ((n, nfin) :: rest) ≠ [] := by
    simp only [run]; exact run_ne_nil batchZ rest _ (by simp)
  have hrw := reweightZ_bounds lo hi hlo _ hne (fun b hb' => (hinv b hb').1) (fun b hb' => (hinv b hb').2)
  rw [C11_final_tracks_warmup_evidence p L _ hne (fun b hb' => (hinv b hb').1)]
  have hZb : 0 ≤ Zf p L β := Zf_nonneg p L hp hL β
  constructor
  · exact mul_le_mul_of_nonneg_right (div_le_div_of_nonneg_right hrw.1 hZ0.le) hZb
  · exact mul_le_mul_of_nonneg_right (div_le_div_of_nonneg_right hrw.2 hZ0.le) hZb

end meanfield

/-! ### non-vacuity -/

/-- two states, the likelihood vanishes on the first; the supported region is {1}; one warm-up batch and one annealing step
    to β = 1 with the identity kernel: the mean-field evidence is `Σ p·L = 1/2 · 2 = 1` -/
example :
    mfZ (fun x : {x : Fin 2 // 0 < (fun i : Fin 2 => if i = 0 then (0 : ℝ) else 2) x} => (if x.1 = 0 then (0 : ℝ) else 2))
      (mfRun (fun x : {x : Fin 2 // 0 < (fun i : Fin 2 => if i = 0 then (0 : ℝ) else 2) x} => (if x.1 = 0 then (0 : ℝ) else 2))
        [⟨4, 0, piB (fun _ => (1 / 2 : ℝ)) (fun x => if x.1 = 0 then (0 : ℝ) else 2) 0,
          ∑ _x : {x : Fin 2 // 0 < (fun i : Fin 2 => if i = 0 then (0 : ℝ) else 2) x}, (1 / 2 : ℝ)⟩]
        [(1, fun x y => if x = y then 1 else 0, 4)]) 1
      = ∑ x : Fin 2, (1 / 2 : ℝ) * (if x = 0 then (0 : ℝ) else 2) :=
  (C11_meanfield_supported (fun _ : Fin 2 => (1 / 2 : ℝ)) (fun i => if i = 0 then 0 else 2) (by intro x; norm_num)
    ⟨1, by simp, by norm_num⟩ (by intro x; split <;> norm_num) 4 (by norm_num)
    [(1, fun x y => if x = y then 1 else 0, 4)]
    (by
      intro st hst
      simp only [List.mem_singleton] at hst
      subst hst
      exact ⟨fun y => by simp, by norm_num⟩)).2

/-- the weight bridge on a concrete two-batch history -/
example : Real.exp (Props.C04.specRaw ([⟨0, Real.log (1 / 2), [-1, -2]⟩, ⟨1 / 2, -1, [-3 / 10]⟩] : List (Batch ℝ)) 1 (-1))
    = mfW Real.exp (toM [⟨0, Real.log (1 / 2), [-1, -2]⟩, ⟨1 / 2, -1, [-3 / 10]⟩]) 1 (-1) :=
  C11_weight_is_mfW _ ⟨by simp, by intro b hb; simp at hb; rcases hb with rfl | rfl <;> simp⟩ 1 (-1)

/-- evidences recorded by three warm-up iterations with fractions 1/2, (all finite), 1/2: the functional is `(1/2)/Z_0 · Z_β` -/
example (p L : Fin 3 → ℝ) (β : ℝ) :
    mfZ L (warmHist (piB p L 0) (run batchZ [] [(4, 2), (4, 4), (8, 4)])) β
      = reweightZ (run batchZ [] [(4, 2), (4, 4), (8, 4)]) / Zf p L 0 * Zf p L β :=
  C11_final_tracks_warmup_evidence p L _ (by simp [run]) (by
    intro r hr
    simp only [run, List.nil_append, List.cons_append, List.mem_cons, List.mem_nil_iff, or_false] at hr
    rcases hr with rfl | rfl | rfl <;> norm_num) β

end Props.C11
